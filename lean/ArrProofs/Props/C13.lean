import ArrProofs.Lemmas.C13Repeat
import ArrProofs.Lemmas.C13Empty
/-!
# C13 — delete, insert, append and repeat change exactly the addressed positions

Property theorems only (helper lemmas in `ArrProofs/Lemmas/C13*.lean`).
Model under test: `ArrModel/C13.lean` (`deleteFlat`, `delete`, `insertFlat`, `appendFlat`, `repeatFlat`, `repeatAxis`,
`trimZeros`; `manipulate.rs:238-341, 382-393`, `tiling.rs`), with `applyAlongAxis` (`ArrModel/AlongAxis.lean`),
`broadcastTo` / `broadcastH2` (`ArrModel/Broadcast.lean`), `split` / `moveaxis`.

Specification vocabulary
* `keptIdx n idxs` — the positions `0 … n-1` that are NOT requested, ascending (`(List.range n).filter (· ∉ idxs)`).
* `laneOf`, `a.get? c`, `inRange` — as in C08 / C02.
* `bc1 L n` — a vector stretched to length `n` (itself, or its single entry `n` times).
* `expandIdx R` — the run-length expansion of the indices `0 … R.length-1` with counts `R`: index `i` emitted `R[i]`
  consecutive times (`((List.range R.length).zip R).flatMap (fun p => List.replicate p.2 p.1)`; `expandIdx_spec`).
* `sortByIdx` (model) — the stable sort of the (index, value) pairs the code performs; characterised by `sortByIdx_spec`.
-/
namespace ArrModel.C13
open ArrModel Arr
variable {α : Type}

/-! ## 1. flat delete -/

/-- **flat delete removes exactly the requested positions**, whatever the order or repetition of the request: when
every requested index is inside the array the call succeeds and the result is the flat array of the elements whose
POSITION is not requested, in their original order; when some index is outside, the answer is `Err(OutOfBounds)`.
These two cases are exhaustive, so the call never panics. -/
theorem deleteFlat_spec (a : Arr α) (idxs : List Nat) :
    ((∀ i ∈ idxs, i < a.elems.length) →
      a.deleteFlat idxs = .ok (Arr.flat ((a.elems.zipIdx.filter (fun p => decide (p.2 ∉ idxs))).map (·.1)))) ∧
    ((∃ i ∈ idxs, a.elems.length ≤ i) → a.deleteFlat idxs = .err .OutOfBounds) :=
  ⟨Arr.deleteFlat_ok a idxs, Arr.deleteFlat_err a idxs⟩

/-- the same result position by position: element `j` of the result is the element at the `j`-th non-requested
position, and the length drops by the number of DISTINCT requested positions -/
theorem deleteFlat_at (a : Arr α) (idxs : List Nat) (h : ∀ i ∈ idxs, i < a.elems.length) :
    ∃ r, a.deleteFlat idxs = .ok r ∧ r.shape = [r.elems.length] ∧
      r.elems.length + ((List.range a.elems.length).filter (fun i => decide (i ∈ idxs))).length = a.elems.length ∧
      r.elems.length = (keptIdx a.elems.length idxs).length ∧
      ∀ j : Nat, r.elems[j]? = (keptIdx a.elems.length idxs)[j]?.bind (fun i => a.elems[i]?) :=
  ⟨_, Arr.deleteFlat_ok a idxs h, rfl, keepPositions_length _ _, keepPositions_length' _ _,
    fun j => keepPositions_getElem? _ _ j⟩

/-- **order and repetition of the request are irrelevant**: two requests naming the same set of positions give the
same answer (result or error) -/
theorem deleteFlat_request_set (a : Arr α) (idxs idxs' : List Nat) (h : ∀ i, i ∈ idxs ↔ i ∈ idxs') :
    a.deleteFlat idxs = a.deleteFlat idxs' := by
  by_cases hb : ∀ i ∈ idxs, i < a.elems.length
  · rw [Arr.deleteFlat_ok a idxs hb, Arr.deleteFlat_ok a idxs' (fun i hi => hb i ((h i).2 hi))]
    have : (fun (p : α × Nat) => decide (p.2 ∉ idxs)) = (fun p => decide (p.2 ∉ idxs')) := by funext p; simp [h]
    unfold keepPositions; rw [this]
  · have : ∃ i ∈ idxs, a.elems.length ≤ i := by
      apply Classical.byContradiction; intro hn; apply hb; intro i hi
      apply Classical.byContradiction; intro hlt; exact hn ⟨i, hi, by omega⟩
    rw [Arr.deleteFlat_err a idxs this]
    obtain ⟨i, hi, hle⟩ := this
    rw [Arr.deleteFlat_err a idxs' ⟨i, (h i).1 hi, hle⟩]

/-- with no axis `delete` is the flat delete -/
theorem delete_none (a : Arr α) (zero : α) (idxs : List Nat) : a.delete zero idxs none = a.deleteFlat idxs := rfl

/-! ## 2. delete along an axis -/

/-- **delete along an axis removes exactly those positions from every lane**: for a well-formed array without a
zero-length axis, an axis inside the rank and requested indices inside the axis (any order, any repetition), the call
succeeds; the axis shrinks to the number of non-requested positions, every other axis is kept, and the element at
coordinate `c` of the result is the element of `a` at `c` with the axis coordinate replaced by the `c[axis]`-th
non-requested position (so every untouched element sits at its shifted coordinate, in order). -/
theorem delete_axis_spec (a : Arr α) (zero : α) (idxs : List Nat) (axis : Nat)
    (hwf : a.WF) (hax : axis < a.ndim) (hnz : 0 ∉ a.shape) (hb : ∀ i ∈ idxs, i < a.shape.getD axis 0) :
    ∃ r, a.delete zero idxs (some axis) = .ok r ∧
      r.shape = a.shape.set axis (keptIdx (a.shape.getD axis 0) idxs).length ∧ r.WF ∧
      ∀ c, inRange r.shape c = true →
        ∃ k, (keptIdx (a.shape.getD axis 0) idxs)[c.getD axis 0]? = some k ∧ r.get? c = a.get? (c.set axis k) :=
  Arr.delete_axis_ok a zero idxs axis hwf hax hnz hb

/-- the kept positions: ascending, exactly the non-requested ones, and their number is the axis length minus the
number of distinct requested positions -/
theorem keptIdx_spec (n : Nat) (idxs : List Nat) :
    (keptIdx n idxs).Pairwise (· < ·) ∧ (∀ k, k ∈ keptIdx n idxs ↔ k < n ∧ k ∉ idxs) ∧
    (keptIdx n idxs).length + ((List.range n).filter (fun i => decide (i ∈ idxs))).length = n := by
  refine ⟨?_, fun k => by simp [keptIdx], keptIdx_length n idxs⟩
  unfold keptIdx
  exact (List.pairwise_lt_range (n := n)).filter _

/-- **delete along an axis equals the flat delete on every lane** (the form the code has) -/
theorem delete_axis_lanes (a : Arr α) (zero : α) (idxs : List Nat) (axis : Nat)
    (hwf : a.WF) (hax : axis < a.ndim) (hnz : 0 ∉ a.shape) (hb : ∀ i ∈ idxs, i < a.shape.getD axis 0) :
    ∃ r, a.delete zero idxs (some axis) = .ok r ∧
      ∀ c, inRange r.shape c = true →
        ∃ y, (Arr.flat (laneOf a axis c)).deleteFlat idxs = .ok y ∧ r.get? c = y.elems[c.getD axis 0]? := by
  obtain ⟨r, h1, _, _, h4⟩ := applyAlongAxis_spec a zero zero axis (keptIdx (a.shape.getD axis 0) idxs).length
    (fun lane => lane.deleteFlat idxs) hwf hax hnz
    (fun lane hl => ⟨_, Arr.deleteFlat_ok (Arr.flat lane) idxs
        (by intro i hi; show i < lane.length; rw [hl]; exact hb i hi), by
      show (keepPositions lane idxs).length = _
      rw [keepPositions_length', hl]⟩)
  exact ⟨r, h1, h4⟩

/-- **rejections along an axis**: an index beyond the axis length gives `Err(OutOfBounds)`, an axis outside the rank
`Err(AxisOutOfBounds)` — no panic, no data -/
theorem delete_axis_rejects (a : Arr α) (zero : α) (idxs : List Nat) (axis : Nat) :
    (a.WF → axis < a.ndim → 0 ∉ a.shape → (∃ i ∈ idxs, a.shape.getD axis 0 ≤ i) →
      a.delete zero idxs (some axis) = .err .OutOfBounds) ∧
    (a.ndim ≤ axis → a.delete zero idxs (some axis) = .err .AxisOutOfBounds) :=
  ⟨fun hwf hax hnz hb => Arr.delete_axis_oob a zero idxs axis hwf hax hnz hb,
   fun h => applyAlongAxis_axis_err a zero zero axis _ h⟩

/-! ## 3. flat insert -/

/-- **the pair order the code inserts in**: a permutation of the request, ascending in the index, and pairs carrying
the same index keep their request order (stable) -/
theorem sortByIdx_spec (l : List (Nat × α)) :
    (sortByIdx l).Perm l ∧ (sortByIdx l).Pairwise (fun p q => p.1 ≤ q.1) ∧
    ∀ i, (sortByIdx l).filter (fun p => p.1 == i) = l.filter (fun p => p.1 == i) :=
  ⟨sortByIdx_perm l, sortByIdx_sorted l, sortByIdx_stable l⟩

/-- **flat insert, pairwise case** (`k ≥ 1` indices, `k` values in a 1-D array): positions refer to the OLD flattened
array.  With every index `≤ len` the call succeeds with a flat array of `len + k` elements; with
`S = sortByIdx (idxs.zip values)` (see `sortByIdx_spec`) the `j`-th pair of `S` lands at position `S[j].index + j` and
holds `S[j].value`; and removing exactly the `k` landing positions gives back the old elements in their old order. -/
theorem insertFlat_spec (a : Arr α) (idxs : List Nat) (values : Arr α)
    (hv : values.ndim = 1) (ha : 1 ≤ a.ndim) (hk : 0 < idxs.length) (hlen : values.elems.length = idxs.length)
    (hb : ∀ i ∈ idxs, i ≤ a.elems.length) :
    ∃ r, a.insertFlat idxs values = .ok r ∧ r.shape = [a.elems.length + idxs.length] ∧
      r.elems.length = a.elems.length + idxs.length ∧
      (∀ j (hj : j < (sortByIdx (idxs.zip values.elems)).length),
        r.elems[(sortByIdx (idxs.zip values.elems))[j].1 + j]? = some (sortByIdx (idxs.zip values.elems))[j].2) ∧
      (r.elems.zipIdx.filter (fun p => decide (p.2 ∉
          (sortByIdx (idxs.zip values.elems)).zipIdx.map (fun q => q.1.1 + q.2)))).map (·.1) = a.elems := by
  have hok := Arr.insertFlat_ok a idxs values hv ha hk (by omega) (.inl hlen.symm) hb
  rw [hlen, Nat.max_self, bc1_same, ← hlen, bc1_same] at hok
  have hS : ∀ p ∈ sortByIdx (idxs.zip values.elems), p.1 ≤ a.elems.length := fun p hp =>
    hb _ (List.of_mem_zip ((sortByIdx_perm _).mem_iff.1 hp)).1
  obtain ⟨h1, h2, h3, _⟩ := insertAllAt_spec a.elems _ (sortByIdx_sorted (idxs.zip values.elems)) hS
  have hSl : (sortByIdx (idxs.zip values.elems)).length = idxs.length := by
    rw [sortByIdx_length, List.length_zip, hlen, Nat.min_self]
  refine ⟨_, hok, ?_, ?_, h2, h3⟩
  · show [(insertAllAt _ _).length] = _; rw [h1, hSl]
  · show (insertAllAt _ _).length = _; rw [h1, hSl]

/-- **deleting what was just inserted restores the original**: the flat delete of the landing positions from the
result of the (pairwise) flat insert is the flattened original -/
theorem delete_insert_id (a : Arr α) (idxs : List Nat) (values : Arr α)
    (hv : values.ndim = 1) (ha : 1 ≤ a.ndim) (hk : 0 < idxs.length) (hlen : values.elems.length = idxs.length)
    (hb : ∀ i ∈ idxs, i ≤ a.elems.length) :
    (a.insertFlat idxs values >>= fun r =>
      r.deleteFlat ((sortByIdx (idxs.zip values.elems)).zipIdx.map (fun q => q.1.1 + q.2))) = .ok (Arr.flat a.elems) := by
  have hok := Arr.insertFlat_ok a idxs values hv ha hk (by omega) (.inl hlen.symm) hb
  rw [hlen, Nat.max_self, bc1_same, ← hlen, bc1_same] at hok
  have hS : ∀ p ∈ sortByIdx (idxs.zip values.elems), p.1 ≤ a.elems.length := fun p hp =>
    hb _ (List.of_mem_zip ((sortByIdx_perm _).mem_iff.1 hp)).1
  rw [hok, Res.bind_ok]
  exact (insertAllAt_spec a.elems _ (sortByIdx_sorted (idxs.zip values.elems)) hS).2.2.2

/-- **several values at one position** (the index broadcasts): they go in as one block, in request order, in front of
the old element at that position -/
theorem insertFlat_one_index (a : Arr α) (i : Nat) (values : Arr α)
    (hv : values.ndim = 1) (ha : 1 ≤ a.ndim) (hm : 0 < values.elems.length) (hb : i ≤ a.elems.length) :
    a.insertFlat [i] values = .ok (Arr.flat (a.elems.take i ++ values.elems ++ a.elems.drop i)) := by
  have hok := Arr.insertFlat_ok a [i] values hv ha (by simp) hm (.inr (.inl rfl)) (by simpa using hb)
  have hmax : max [i].length values.elems.length = values.elems.length := by simp; omega
  rw [hmax, bc1_same, bc1_single, zip_replicate_left, sortByIdx_of_sorted, insertAllAt_same_index _ _ hb] at hok
  · exact hok
  · rw [List.pairwise_map]; exact List.pairwise_of_forall_mem_list (fun _ _ _ _ => Nat.le_refl _)

/-- **one value at several positions** (the value broadcasts): exactly the pairwise statement with the value repeated -/
theorem insertFlat_one_value (a : Arr α) (idxs : List Nat) (v : α) (values : Arr α) (hve : values.elems = [v])
    (hv : values.ndim = 1) (ha : 1 ≤ a.ndim) (hk : 0 < idxs.length) (hb : ∀ i ∈ idxs, i ≤ a.elems.length) :
    a.insertFlat idxs values = a.insertFlat idxs (Arr.flat (List.replicate idxs.length v)) := by
  have h1 := Arr.insertFlat_ok a idxs values hv ha hk (by simp [hve]) (.inr (.inr (by simp [hve]))) hb
  have h2 := Arr.insertFlat_ok a idxs (Arr.flat (List.replicate idxs.length v)) rfl ha hk
    (by simpa [Arr.flat] using hk) (.inl (by simp [Arr.flat])) hb
  have hmax : max idxs.length [v].length = idxs.length := by simp; omega
  rw [h1, h2, hve, hmax, bc1_same, bc1_single]
  simp only [Arr.flat, List.length_replicate, Nat.max_self, bc1_same]
  rw [show bc1 (List.replicate idxs.length v) idxs.length = List.replicate idxs.length v from by
    simpa using bc1_same (List.replicate idxs.length v)]

/-- **rejections of flat insert** (exhaustive together with the three success cases above for a 1-D value array, so
the call never panics there): an index beyond `len` gives `Err(OutOfBounds)`; otherwise a value array that is not 1-D
(or a rank-0 receiver) gives `Err(UnsupportedDimension)`; otherwise index and value counts that are neither equal nor
one of them 1 (or zero) give `Err(BroadcastShapeMismatch)`. -/
theorem insertFlat_rejects (a : Arr α) (idxs : List Nat) (values : Arr α) :
    ((∃ i ∈ idxs, a.elems.length < i) → a.insertFlat idxs values = .err .OutOfBounds) ∧
    ((∀ i ∈ idxs, i ≤ a.elems.length) → (values.ndim ≠ 1 ∨ a.ndim = 0) →
      a.insertFlat idxs values = .err .UnsupportedDimension) ∧
    ((∀ i ∈ idxs, i ≤ a.elems.length) → values.ndim = 1 → 1 ≤ a.ndim →
      (idxs.length = 0 ∨ values.elems.length = 0 ∨
        (idxs.length ≠ values.elems.length ∧ idxs.length ≠ 1 ∧ values.elems.length ≠ 1)) →
      a.insertFlat idxs values = .err .BroadcastShapeMismatch) :=
  ⟨Arr.insertFlat_oob a idxs values, Arr.insertFlat_dim a idxs values, Arr.insertFlat_mismatch a idxs values⟩

/-! ## 4. flat append -/

/-- **append puts the new elements exactly at the end**: the result is the flat array of the old elements followed
by the new ones; the first `len` positions are unchanged and position `len + j` holds the `j`-th new element -/
theorem appendFlat_spec (a v : Arr α) :
    (a.appendFlat v).elems = a.elems ++ v.elems ∧ (a.appendFlat v).shape = [a.elems.length + v.elems.length] ∧
    (a.appendFlat v).WF ∧
    (∀ i, i < a.elems.length → (a.appendFlat v).elems[i]? = a.elems[i]?) ∧
    (∀ j, (a.appendFlat v).elems[a.elems.length + j]? = v.elems[j]?) := by
  refine ⟨rfl, by simp [Arr.appendFlat, Arr.flat], by simp [Arr.appendFlat, Arr.flat, Arr.WF], ?_, ?_⟩
  · intro i hi; show (a.elems ++ v.elems)[i]? = _; rw [List.getElem?_append_left hi]
  · intro j; show (a.elems ++ v.elems)[_]? = _
    rw [List.getElem?_append_right (by omega)]; congr 1; omega

/-- deleting the appended tail restores the (flattened) original -/
theorem delete_append_id (a v : Arr α) :
    (a.appendFlat v).deleteFlat ((List.range v.elems.length).map (a.elems.length + ·)) = .ok (Arr.flat a.elems) := by
  rw [Arr.deleteFlat_ok]
  · congr 2
    show keepPositions (a.elems ++ v.elems) _ = a.elems
    unfold keepPositions
    rw [List.zipIdx_append, List.filter_append, List.map_append]
    have h1 : (a.elems.zipIdx.filter (fun p => decide (p.2 ∉ (List.range v.elems.length).map (a.elems.length + ·)))) = a.elems.zipIdx := by
      rw [List.filter_eq_self]
      intro p hp
      have := (List.mem_zipIdx hp).2.1
      simp at this ⊢; intro x _; omega
    have h2 : ((v.elems.zipIdx (0 + a.elems.length)).filter (fun p => decide (p.2 ∉ (List.range v.elems.length).map (a.elems.length + ·)))) = [] := by
      rw [List.filter_eq_nil_iff]
      intro p hp
      have := List.mem_zipIdx hp
      simp at this ⊢
      exact ⟨p.2 - a.elems.length, by omega, by omega⟩
    rw [h1, h2]; simp
  · intro i hi
    obtain ⟨j, hj, rfl⟩ := List.mem_map.1 hi
    have : j < v.elems.length := by simpa using hj
    show _ < (a.elems ++ v.elems).length
    rw [List.length_append]; omega

/-! ## 5. repeat -/

/-- **flat repeat with one count**: every element of the flattened array is emitted `c` consecutive times (any rank;
the last axis must not be empty — then the call is refused) -/
theorem repeatFlat_spec (a : Arr α) (c : Nat) (hwf : a.WF) :
    (a.shape.getLast? ≠ some 0 → a.repeatFlat [c] = .ok (Arr.flat (a.elems.flatMap (List.replicate c)))) ∧
    (a.shape.getLast? = some 0 → a.repeatFlat [c] = .err .BroadcastShapeMismatch) :=
  ⟨repeatFlat_single a c hwf, repeatFlat_single_reject a c⟩

/-- **flat repeat with one count per element** (1-D array of `n ≥ 1` elements, `n` counts, zeros allowed): element `i`
is emitted `repeats[i]` consecutive times; the result has `Σ repeats` elements -/
theorem repeatFlat_counts_spec (a : Arr α) (repeats : List Nat) (n : Nat) (hwf : a.WF) (hs : a.shape = [n]) (hn : 0 < n)
    (hr : repeats.length = n) :
    ∃ r, a.repeatFlat repeats = .ok r ∧
      r.elems = (a.elems.zip repeats).flatMap (fun p => List.replicate p.2 p.1) ∧
      r.shape = [repeats.sum] ∧ r.elems.length = repeats.sum ∧
      ∀ j : Nat, r.elems[j]? = (expandIdx repeats)[j]?.bind (fun i => a.elems[i]?) := by
  have hlen : a.elems.length = n := by rw [hwf, hs]; simp
  have hl : ((a.elems.zip repeats).flatMap (fun p => List.replicate p.2 p.1)).length = repeats.sum :=
    zip_flatMap_replicate_length _ _ (by omega)
  refine ⟨_, repeatFlat_1d a repeats n hs hn hr, rfl, ?_, hl, ?_⟩
  · show [List.length _] = _; rw [hl]
  · intro j
    show ((a.elems.zip repeats).flatMap (fun p => List.replicate p.2 p.1))[j]? = _
    cases he : a.elems with
    | nil => rw [he] at hlen; simp at hlen; omega
    | cons d ds =>
      rw [← he, zip_flatMap_replicate_eq d a.elems repeats (by omega), List.getElem?_map]
      cases hj : (expandIdx repeats)[j]? with
      | none => rfl
      | some i =>
        have hi : i < repeats.length := expandIdx_lt repeats i (List.mem_of_getElem? hj)
        simp [List.getD_eq_getElem?_getD, List.getElem?_eq_getElem (show i < a.elems.length by omega)]

/-- the run-length expansion is determined by: ascending, and index `i` occurs exactly `R[i]` times — i.e. every
index is emitted `R[i]` consecutive times, in index order -/
theorem expandIdx_characterisation (R : List Nat) :
    (expandIdx R).Pairwise (· ≤ ·) ∧ (∀ i, (expandIdx R).count i = R.getD i 0) ∧ (expandIdx R).length = R.sum :=
  ⟨(expandIdx_spec R).1, (expandIdx_spec R).2, expandIdx_length R⟩

/-- **repeat along an axis, EVERY axis of EVERY rank**: for a well-formed array without a zero-length axis and a count
vector `R` with one count per index of the axis (or a single count, which is used for every index; zeros allowed), the
call succeeds, the axis gets length `Σ R`, every other axis is kept, and the element at coordinate `c` of the result
is the element of `a` at `c` with the axis coordinate replaced by the source index of output position `c[axis]` in the
run-length expansion (`expandIdx`): index `i` of the axis is emitted `R[i]` consecutive times. -/
theorem repeatAxis_spec (a : Arr α) (zero : α) (repeats : List Nat) (axis : Nat)
    (hwf : a.WF) (hax : axis < a.ndim) (hnz : 0 ∉ a.shape)
    (hr : repeats.length = a.shape.getD axis 0 ∨ repeats.length = 1) :
    ∃ r, a.repeatAxis zero repeats axis = .ok r ∧
      r.shape = a.shape.set axis (bc1 repeats (a.shape.getD axis 0)).sum ∧ r.WF ∧
      ∀ c, inRange r.shape c = true →
        ∃ k, (expandIdx (bc1 repeats (a.shape.getD axis 0)))[c.getD axis 0]? = some k ∧
          r.get? c = a.get? (c.set axis k) :=
  repeatAxis_ok a zero repeats axis hwf hax hnz hr

/-- the count vector actually used: the request itself when it has one count per index, the single count repeated
otherwise -/
theorem repeat_counts (repeats : List Nat) (n : Nat) :
    (repeats.length = n → bc1 repeats n = repeats) ∧ (∀ c : Nat, bc1 [c] n = List.replicate n c) :=
  ⟨fun h => by rw [← h]; exact bc1_same repeats, fun c => bc1_single c n⟩

/-- **rejections of repeat along an axis**: an axis outside the rank gives `Err(AxisOutOfBounds)`; a count vector
whose length is neither the axis length nor 1 (or is empty) gives `Err(BroadcastShapeMismatch)` -/
theorem repeatAxis_rejects (a : Arr α) (zero : α) (repeats : List Nat) (axis : Nat) :
    (a.ndim ≤ axis → a.repeatAxis zero repeats axis = .err .AxisOutOfBounds) ∧
    (axis < a.ndim →
      (repeats.length ≠ a.shape.getD axis 0 ∧ repeats.length ≠ 1 ∧ a.shape.getD axis 0 ≠ 1 ∨ repeats.length = 0) →
      a.repeatAxis zero repeats axis = .err .BroadcastShapeMismatch) :=
  ⟨repeatAxis_axis_err a zero repeats axis, repeatAxis_count_err a zero repeats axis⟩

/-! ## 6. trim_zeros -/

/-- **trimming removes leading and trailing zeros only**: a rank-1 array is answered with a flat array `r` such that
the input is `p ++ r ++ s` with `p` and `s` all zeros and `r` neither starting nor ending with a zero (so `p`, `s` are
the LONGEST all-zero prefix and suffix); any other rank is refused. -/
theorem trimZeros_spec [DecidableEq α] (a : Arr α) (zero : α) :
    (a.ndim = 1 → ∃ r p s, a.trimZeros zero = .ok r ∧ r.shape = [r.elems.length] ∧
      a.elems = p ++ r.elems ++ s ∧ (∀ x ∈ p, x = zero) ∧ (∀ x ∈ s, x = zero) ∧
      r.elems.head? ≠ some zero ∧ r.elems.getLast? ≠ some zero) ∧
    (a.ndim ≠ 1 → a.trimZeros zero = .err .UnsupportedDimension) := by
  constructor
  · intro h
    obtain ⟨p, s, h1, h2, h3, h4, h5⟩ := trimList_decomp zero a.elems
    refine ⟨Arr.flat (trimList zero a.elems), p, s, ?_, rfl, h1, h2, h3, h4, h5⟩
    unfold Arr.trimZeros; rw [if_neg (by simp [h])]; rfl
  · intro h; unfold Arr.trimZeros; rw [if_pos h]

/-- **nothing else is removed**: the decomposition of `trimZeros_spec` determines the result — whenever the input is
`zeros ++ r ++ zeros` with `r` not starting or ending with zero, the answer is exactly `r` -/
theorem trimZeros_unique [DecidableEq α] (a : Arr α) (zero : α) (h : a.ndim = 1) (p r s : List α)
    (hl : a.elems = p ++ r ++ s) (hp : ∀ x ∈ p, x = zero) (hs : ∀ x ∈ s, x = zero)
    (hh : r.head? ≠ some zero) (ht : r.getLast? ≠ some zero) : a.trimZeros zero = .ok (Arr.flat r) := by
  unfold Arr.trimZeros; rw [if_neg (by simp [h])]
  have := trimList_of_decomp zero a.elems p r s hl hp hs hh ht
  unfold trimList at this
  rw [this]

/-! ## non-vacuity (no `decide` through `List.mergeSort`: the theorems are instantiated, the hypotheses discharged) -/

/-- a `[2,3,2]` sample array -/
def sample : Arr Nat := ⟨List.range 12, [2, 3, 2]⟩

example : sample.WF ∧ 0 ∉ sample.shape := by decide
-- flat delete: request `[4, 1, 4]` (unordered, repeated) on 6 elements
example := (deleteFlat_spec (Arr.flat [10, 11, 12, 13, 14, 15]) [4, 1, 4]).1 (by decide)
example : ((([10, 11, 12, 13, 14, 15] : List Nat).zipIdx.filter (fun p => decide (p.2 ∉ [4, 1, 4]))).map (·.1)) = [10, 12, 13, 15] := by
  decide
example := (deleteFlat_spec (Arr.flat [10, 11, 12]) [0, 3]).2 ⟨3, by decide, by decide⟩
-- delete along the middle axis of the rank-3 sample, positions {2, 0} requested as [2, 0, 2]
example := delete_axis_spec sample 0 [2, 0, 2] 1 (by decide) (by decide) (by decide) (by decide)
example : keptIdx 3 [2, 0, 2] = [1] := by decide
example := (delete_axis_rejects sample 0 [3] 1).1 (by decide) (by decide) (by decide) ⟨3, by decide, by decide⟩
-- flat insert: three values at indices [2, 0, 2] of a 3-element array (equal indices, unordered)
example := insertFlat_spec (Arr.flat [7, 8, 9]) [2, 0, 2] (Arr.flat [100, 200, 300]) rfl (by decide) (by decide) rfl (by decide)
example := delete_insert_id (Arr.flat [7, 8, 9]) [2, 0, 2] (Arr.flat [100, 200, 300]) rfl (by decide) (by decide) rfl (by decide)
example : insertAllAt [7, 8, 9] [(0, 200), (2, 100), (2, 300)] = [200, 7, 8, 100, 300, 9] := by decide
example : landing [(0, 200), (2, 100), (2, 300)] = [0, 3, 4] := by decide
example := insertFlat_one_index (Arr.flat [7, 8, 9]) 1 (Arr.flat [100, 200]) rfl (by decide) (by decide) (by decide)
-- append / trim
example := appendFlat_spec (Arr.flat [1, 2]) (Arr.flat [3])
example := (trimZeros_spec (Arr.flat [0, 0, 1, 0, 2, 0]) 0).1 rfl
example : (Arr.flat [0, 0, 1, 0, 2, 0]).trimZeros 0 = .ok (Arr.flat [1, 0, 2]) := by decide
example := trimZeros_unique (Arr.flat [0, 0, 1, 0, 2, 0]) 0 rfl [0, 0] [1, 0, 2] [0] rfl (by decide) (by decide) (by decide) (by decide)
example := (trimZeros_spec sample 0).2 (by decide)
-- repeat: counts [2, 0, 1] along the middle axis (a zero count), and one count for all along the last axis
example := repeatAxis_spec sample 0 [2, 0, 1] 1 (by decide) (by decide) (by decide) (.inl (by decide))
example := repeatAxis_spec sample 0 [3] 2 (by decide) (by decide) (by decide) (.inr rfl)
example : expandIdx [2, 0, 1] = [0, 0, 2] := by decide
example : sample.repeatAxis 0 [2, 0, 1] 1 = .ok ⟨[0, 1, 0, 1, 4, 5, 6, 7, 6, 7, 10, 11], [2, 3, 2]⟩ := by decide +kernel
example := (repeatFlat_spec sample 2 (by decide)).1 (by decide)
example := repeatFlat_counts_spec (Arr.flat [5, 6, 7]) [2, 0, 1] 3 (by decide) rfl (by decide) rfl

/-! ## 7. arrays with a zero-length axis along an axis; totality of `delete` and of `repeat` along an axis -/

/-- **`delete` along an axis of a well-formed array that has a zero-length axis** — complete.  When an axis OTHER than
the working axis is empty the call is `Err(ParameterError)` whatever the request (the lane count is zero and
`apply_along_axis` asks `split` for zero parts).  Otherwise the working axis is the empty one: the empty request returns
the array unchanged, every other request is `Err(OutOfBounds)` (each index is beyond the empty lane). -/
theorem delete_axis_zero_spec (a : Arr α) (zero : α) (idxs : List Nat) (axis : Nat)
    (hwf : a.WF) (hax : axis < a.ndim) (hz : 0 ∈ a.shape) :
    (0 ∈ a.shape.eraseIdx axis → a.delete zero idxs (some axis) = .err .ParameterError) ∧
    (0 ∉ a.shape.eraseIdx axis → a.shape.getD axis 0 = 0 ∧
      (idxs = [] → a.delete zero idxs (some axis) = .ok a) ∧
      (idxs ≠ [] → a.delete zero idxs (some axis) = .err .OutOfBounds)) := by
  obtain ⟨h1, h2, h3⟩ := Arr.delete_axis_zero a zero idxs axis hwf hax hz
  refine ⟨fun h => h1 (prod_eq_zero_of_mem _ h), ?_⟩
  intro h
  have hP : (a.shape.eraseIdx axis).prod ≠ 0 := by have := prod_pos_of_not_mem _ h; omega
  refine ⟨?_, h2 hP, h3 hP⟩
  rcases zero_axis_cases a.shape axis hax hz with h' | h'
  · exact absurd h' hP
  · exact h'.2

/-- **`delete` never panics on a well-formed array**: no axis / any axis (inside the rank or not), any request, zero-length
axes included — the answer is data or an error -/
theorem delete_total (a : Arr α) (zero : α) (idxs : List Nat) (axis : Option Nat) (hwf : a.WF) :
    a.delete zero idxs axis ≠ .panic := by
  cases axis with
  | none =>
    rw [delete_none]
    by_cases hb : ∀ i ∈ idxs, i < a.elems.length
    · rw [(deleteFlat_spec a idxs).1 hb]; simp
    · have : ∃ i ∈ idxs, a.elems.length ≤ i := by
        apply Classical.byContradiction; intro hn; apply hb; intro i hi
        apply Classical.byContradiction; intro hlt; exact hn ⟨i, hi, by omega⟩
      rw [(deleteFlat_spec a idxs).2 this]; simp
  | some axis =>
    by_cases hax : axis < a.ndim
    · by_cases hz : 0 ∈ a.shape
      · obtain ⟨h1, h2⟩ := delete_axis_zero_spec a zero idxs axis hwf hax hz
        by_cases h0 : 0 ∈ a.shape.eraseIdx axis
        · rw [h1 h0]; simp
        · obtain ⟨_, g1, g2⟩ := h2 h0
          by_cases hi : idxs = []
          · rw [g1 hi]; simp
          · rw [g2 hi]; simp
      · by_cases hb : ∀ i ∈ idxs, i < a.shape.getD axis 0
        · obtain ⟨r, hr, _⟩ := delete_axis_spec a zero idxs axis hwf hax hz hb
          rw [hr]; simp
        · have : ∃ i ∈ idxs, a.shape.getD axis 0 ≤ i := by
            apply Classical.byContradiction; intro hn; apply hb; intro i hi
            apply Classical.byContradiction; intro hlt; exact hn ⟨i, hi, by omega⟩
          rw [(delete_axis_rejects a zero idxs axis).1 hwf hax hz this]; simp
    · rw [(delete_axis_rejects a zero idxs axis).2 (by omega)]; simp

/-- **`repeat` along an axis of a well-formed array that has a zero-length axis** — complete.  When the working axis is
the empty one every count vector is refused (`broadcast_to([0])` fails).  Otherwise (another axis is empty) a count
vector of the axis length or a single count gives the empty array whose working axis has length `Σ counts`; any other
count vector is refused. -/
theorem repeatAxis_zero_spec (a : Arr α) (zero : α) (repeats : List Nat) (axis : Nat)
    (hwf : a.WF) (hax : axis < a.ndim) (hz : 0 ∈ a.shape) :
    (a.shape.getD axis 0 = 0 → a.repeatAxis zero repeats axis = .err .BroadcastShapeMismatch) ∧
    (a.shape.getD axis 0 ≠ 0 → (repeats.length = a.shape.getD axis 0 ∨ repeats.length = 1) →
      a.repeatAxis zero repeats axis = .ok ⟨[], a.shape.set axis (bc1 repeats (a.shape.getD axis 0)).sum⟩) ∧
    (a.shape.getD axis 0 ≠ 0 → ¬ (repeats.length = a.shape.getD axis 0 ∨ repeats.length = 1) →
      a.repeatAxis zero repeats axis = .err .BroadcastShapeMismatch) :=
  ⟨fun h => repeatAxis_count_err' a zero repeats axis hax (by omega),
   fun hn hr => Arr.repeatAxis_zero_ok a zero repeats axis hwf hax hz hn hr,
   fun _ hr => repeatAxis_count_err' a zero repeats axis hax (fun h => hr h.2)⟩

/-- **`repeat` along an axis is total on well-formed arrays** (zero-length axes included, no hypothesis on the axis or
the counts): `Err(AxisOutOfBounds)` exactly for an axis outside the rank; otherwise `Err(BroadcastShapeMismatch)` exactly
when the axis is empty or the count vector has neither the axis length nor length 1; otherwise a well-formed array whose
working axis has length `Σ counts`, all other axes kept.  Never a panic. -/
theorem repeatAxis_total (a : Arr α) (zero : α) (repeats : List Nat) (axis : Nat) (hwf : a.WF) :
    (a.ndim ≤ axis ∧ a.repeatAxis zero repeats axis = .err .AxisOutOfBounds) ∨
    (axis < a.ndim ∧ ¬ (0 < a.shape.getD axis 0 ∧ (repeats.length = a.shape.getD axis 0 ∨ repeats.length = 1)) ∧
      a.repeatAxis zero repeats axis = .err .BroadcastShapeMismatch) ∨
    (axis < a.ndim ∧ 0 < a.shape.getD axis 0 ∧ (repeats.length = a.shape.getD axis 0 ∨ repeats.length = 1) ∧
      ∃ r, a.repeatAxis zero repeats axis = .ok r ∧
        r.shape = a.shape.set axis (bc1 repeats (a.shape.getD axis 0)).sum ∧ r.WF) := by
  by_cases hax : axis < a.ndim
  · by_cases hc : 0 < a.shape.getD axis 0 ∧ (repeats.length = a.shape.getD axis 0 ∨ repeats.length = 1)
    · refine .inr (.inr ⟨hax, hc.1, hc.2, ?_⟩)
      by_cases hz : 0 ∈ a.shape
      · refine ⟨_, Arr.repeatAxis_zero_ok a zero repeats axis hwf hax hz (by omega) hc.2, rfl, ?_⟩
        have hax' : axis < a.shape.length := hax
        have hP : (a.shape.eraseIdx axis).prod = 0 := by
          rcases zero_axis_cases a.shape axis hax' hz with h | h
          · exact h
          · omega
        show ([] : List α).length = _
        rw [prod_set_eraseIdx _ _ _ hax', hP]; simp
      · obtain ⟨r, h1, h2, h3, _⟩ := repeatAxis_spec a zero repeats axis hwf hax hz hc.2
        exact ⟨r, h1, h2, h3⟩
    · exact .inr (.inl ⟨hax, hc, repeatAxis_count_err' a zero repeats axis hax hc⟩)
  · exact .inl ⟨by omega, (repeatAxis_rejects a zero repeats axis).1 (by omega)⟩

/-! ## 8. flat `repeat` with counts broadcast along the last axis (any rank) -/

/-- **flat repeat, counts broadcast to the array's shape, EVERY rank ≥ 1**: for a well-formed array of shape `P ++ [L]`
with a non-empty last axis and a count vector `R` with one count per index of the LAST axis (or a single count — then it
is used for every index; zeros allowed; leading axes may be empty), the call succeeds; the counts actually used are
`T` = the vector tiled once per row (`T[i] = R[i mod L]`, one count per element of the flattened array); element `i` is
emitted `T[i]` consecutive times, in order; the result is flat with `P.prod · Σ R` elements; and output position `j`
holds the element whose flat index is the `j`-th entry of the run-length expansion of `T`.
(For rank 1 this is `repeatFlat_counts_spec`; with a single count it is `repeatFlat_spec`.) -/
theorem repeatFlat_bcast_spec (a : Arr α) (repeats : List Nat) (P : List Nat) (L : Nat)
    (hwf : a.WF) (hs : a.shape = P ++ [L]) (hL : 0 < L) (hr : repeats.length = L ∨ repeats.length = 1) :
    ∃ r, a.repeatFlat repeats = .ok r ∧
      r.elems = (a.elems.zip (List.replicate P.prod (bc1 repeats L)).flatten).flatMap (fun p => List.replicate p.2 p.1) ∧
      ((List.replicate P.prod (bc1 repeats L)).flatten).length = a.elems.length ∧
      (∀ i, i < a.elems.length → ((List.replicate P.prod (bc1 repeats L)).flatten)[i]? = (bc1 repeats L)[i % L]?) ∧
      r.shape = [P.prod * (bc1 repeats L).sum] ∧ r.elems.length = P.prod * (bc1 repeats L).sum ∧
      ∀ j : Nat, r.elems[j]? =
        (expandIdx (List.replicate P.prod (bc1 repeats L)).flatten)[j]?.bind (fun i => a.elems[i]?) := by
  have hRl : (bc1 repeats L).length = L := bc1_length _ _ hr
  generalize hR : bc1 repeats L = R at hRl
  obtain ⟨t1, t2, t3⟩ := tile_spec R P.prod
  have hlen : a.elems.length = P.prod * L := by rw [hwf, hs]; simp [List.prod_append]
  rw [hRl] at t1 t3
  have hl : ((a.elems.zip (List.replicate P.prod R).flatten).flatMap (fun p => List.replicate p.2 p.1)).length
      = P.prod * R.sum := by
    rw [zip_flatMap_replicate_length _ _ (by omega), t2]
  have hcall := repeatFlat_lastaxis a repeats P L hs hL hr
  rw [hR] at hcall
  refine ⟨_, hcall, rfl, by omega, fun i hi => t3 i (by omega), ?_, hl, ?_⟩
  · show [List.length _] = _; rw [hl]
  · intro j
    show ((a.elems.zip (List.replicate P.prod R).flatten).flatMap (fun p => List.replicate p.2 p.1))[j]? = _
    cases he : a.elems with
    | nil =>
      have h0 : (List.replicate P.prod R).flatten = [] := List.eq_nil_of_length_eq_zero (by rw [t1, ← hlen, he]; rfl)
      rw [h0]; rfl
    | cons d ds =>
      rw [← he, zip_flatMap_replicate_eq d a.elems _ (by omega), List.getElem?_map]
      cases hj : (expandIdx (List.replicate P.prod R).flatten)[j]? with
      | none => rfl
      | some i =>
        have hi : i < ((List.replicate P.prod R).flatten).length := expandIdx_lt _ i (List.mem_of_getElem? hj)
        simp [List.getD_eq_getElem?_getD, List.getElem?_eq_getElem (show i < a.elems.length by omega)]

/-- **the other count vectors of flat repeat, and totality**: for a shape `P ++ [L]` an empty last axis, an empty count
vector, or a count vector whose length is neither `L` nor 1 (with `L ≠ 1`) is `Err(BroadcastShapeMismatch)`; in the one
remaining region — last axis of length 1 and two or more counts — the equal-count shortcut of `broadcast_to` accepts
exactly `P.prod` counts (one per element, in order) and refuses every other number; a rank-0 receiver accepts exactly one
count.  Together with `repeatFlat_bcast_spec` this is exhaustive: flat repeat never panics, on any array. -/
theorem repeatFlat_total (a : Arr α) (repeats : List Nat) :
    (∀ P L, a.shape = P ++ [L] →
      (L = 0 ∨ repeats.length = 0 ∨ (repeats.length ≠ L ∧ repeats.length ≠ 1 ∧ L ≠ 1)) →
      a.repeatFlat repeats = .err .BroadcastShapeMismatch) ∧
    (∀ P, a.shape = P ++ [1] → 2 ≤ repeats.length →
      a.repeatFlat repeats =
        if repeats.length = P.prod then .ok (Arr.flat ((a.elems.zip repeats).flatMap (fun p => List.replicate p.2 p.1)))
        else .err .BroadcastShapeMismatch) ∧
    (a.shape = [] →
      a.repeatFlat repeats =
        if repeats.length = 1 then .ok (Arr.flat ((a.elems.zip repeats).flatMap (fun p => List.replicate p.2 p.1)))
        else .err .BroadcastShapeMismatch) ∧
    a.repeatFlat repeats ≠ .panic :=
  ⟨fun P L hs h => repeatFlat_clash a repeats P L hs h, fun P hs hk => repeatFlat_unit_last a repeats P hs hk,
   fun hs => repeatFlat_rank0 a repeats hs, repeatFlat_no_panic a repeats⟩

/-! ## 9. flat `insert` is total -/

/-- **flat insert, total case analysis** — for EVERY receiver, index list and value array (no well-formedness, rank or
length hypothesis; a value array that is not well formed or not 1-D included) exactly one of four things happens, in the
order the code tests them, and none of them is a panic:
1. some index is beyond `len` → `Err(OutOfBounds)`;
2. otherwise the value array is not 1-D (its rank is read off its shape vector; its elements are not looked at) or the
   receiver has rank 0 → `Err(UnsupportedDimension)`;
3. otherwise the number of indices `k` and of value ELEMENTS `m` are not broadcast-compatible (one of them 0, or
   `k ≠ m` with neither equal to 1) → `Err(BroadcastShapeMismatch)`;
4. otherwise the call succeeds: with `N = max k m` and `S` = the stable sort by index of the `N` (index, value) pairs
   (indices and values each stretched to `N`), the result is the flat array of `len + N` elements in which the `j`-th
   pair of `S` sits at position `S[j].index + j`, and removing those `N` positions gives back the old elements in order. -/
theorem insertFlat_total (a : Arr α) (idxs : List Nat) (values : Arr α) :
    ((∃ i ∈ idxs, a.elems.length < i) ∧ a.insertFlat idxs values = .err .OutOfBounds) ∨
    ((∀ i ∈ idxs, i ≤ a.elems.length) ∧ (values.ndim ≠ 1 ∨ a.ndim = 0) ∧
      a.insertFlat idxs values = .err .UnsupportedDimension) ∨
    ((∀ i ∈ idxs, i ≤ a.elems.length) ∧ values.ndim = 1 ∧ 1 ≤ a.ndim ∧
      (idxs.length = 0 ∨ values.elems.length = 0 ∨
        (idxs.length ≠ values.elems.length ∧ idxs.length ≠ 1 ∧ values.elems.length ≠ 1)) ∧
      a.insertFlat idxs values = .err .BroadcastShapeMismatch) ∨
    ((∀ i ∈ idxs, i ≤ a.elems.length) ∧ values.ndim = 1 ∧ 1 ≤ a.ndim ∧ 0 < idxs.length ∧ 0 < values.elems.length ∧
      (idxs.length = values.elems.length ∨ idxs.length = 1 ∨ values.elems.length = 1) ∧
      ∃ r S, S = sortByIdx ((bc1 idxs (max idxs.length values.elems.length)).zip
                (bc1 values.elems (max idxs.length values.elems.length))) ∧
        a.insertFlat idxs values = .ok r ∧ r.shape = [r.elems.length] ∧
        S.length = max idxs.length values.elems.length ∧
        r.elems.length = a.elems.length + max idxs.length values.elems.length ∧
        (∀ j (hj : j < S.length), r.elems[S[j].1 + j]? = some S[j].2) ∧
        (r.elems.zipIdx.filter (fun p => decide (p.2 ∉ S.zipIdx.map (fun q => q.1.1 + q.2)))).map (·.1) = a.elems) := by
  by_cases hb : ∀ i ∈ idxs, i ≤ a.elems.length
  · by_cases hd : values.ndim ≠ 1 ∨ a.ndim = 0
    · exact .inr (.inl ⟨hb, hd, (insertFlat_rejects a idxs values).2.1 hb hd⟩)
    · have hv : values.ndim = 1 := by
        apply Classical.byContradiction; intro h; exact hd (.inl h)
      have ha : 1 ≤ a.ndim := by
        rcases Nat.eq_zero_or_pos a.ndim with h | h
        · exact absurd (.inr h) hd
        · exact h
      by_cases hc : idxs.length = 0 ∨ values.elems.length = 0 ∨
          (idxs.length ≠ values.elems.length ∧ idxs.length ≠ 1 ∧ values.elems.length ≠ 1)
      · exact .inr (.inr (.inl ⟨hb, hv, ha, hc, (insertFlat_rejects a idxs values).2.2 hb hv ha hc⟩))
      · have hk : 0 < idxs.length := by omega
        have hm : 0 < values.elems.length := by omega
        have hcc : idxs.length = values.elems.length ∨ idxs.length = 1 ∨ values.elems.length = 1 := by omega
        refine .inr (.inr (.inr ⟨hb, hv, ha, hk, hm, hcc, ?_⟩))
        have hok := Arr.insertFlat_ok a idxs values hv ha hk hm hcc hb
        generalize hN : max idxs.length values.elems.length = N at hok ⊢
        have hl1 : (bc1 idxs N).length = N := bc1_length _ _ (by omega)
        have hl2 : (bc1 values.elems N).length = N := bc1_length _ _ (by omega)
        have hSl : (sortByIdx ((bc1 idxs N).zip (bc1 values.elems N))).length = N := by
          rw [sortByIdx_length, List.length_zip, hl1, hl2, Nat.min_self]
        have hS : ∀ p ∈ sortByIdx ((bc1 idxs N).zip (bc1 values.elems N)), p.1 ≤ a.elems.length := fun p hp =>
          hb _ (mem_bc1 _ _ _ (List.of_mem_zip ((sortByIdx_perm _).mem_iff.1 hp)).1)
        obtain ⟨h1, h2, h3, _⟩ := insertAllAt_spec a.elems _ (sortByIdx_sorted ((bc1 idxs N).zip (bc1 values.elems N))) hS
        refine ⟨_, _, rfl, hok, rfl, hSl, ?_, h2, h3⟩
        show (insertAllAt _ _).length = _
        rw [h1, hSl]
  · have : ∃ i ∈ idxs, a.elems.length < i := by
      apply Classical.byContradiction; intro hn; apply hb; intro i hi
      apply Classical.byContradiction; intro hlt; exact hn ⟨i, hi, by omega⟩
    exact .inl ⟨this, (insertFlat_rejects a idxs values).1 this⟩

/-- flat insert never panics (any receiver, any index list, any value array) -/
theorem insertFlat_no_panic (a : Arr α) (idxs : List Nat) (values : Arr α) : a.insertFlat idxs values ≠ .panic := by
  rcases insertFlat_total a idxs values with h | h | h | h
  · rw [h.2]; simp
  · rw [h.2.2]; simp
  · rw [h.2.2.2.2]; simp
  · obtain ⟨_, _, _, _, _, _, r, S, _, hr, _⟩ := h
    rw [hr]; simp

/-! ### non-vacuity for sections 7-9 (shapes `[2,0]`, `[0,3]`, `[2,0,3]`; no `decide` through `List.mergeSort`) -/

def e20 : Arr Nat := ⟨[], [2, 0]⟩
def e03 : Arr Nat := ⟨[], [0, 3]⟩
def e203 : Arr Nat := ⟨[], [2, 0, 3]⟩

example : e20.WF ∧ 0 ∈ e20.shape ∧ e03.WF ∧ 0 ∈ e03.shape ∧ e203.WF ∧ 0 ∈ e203.shape := by decide
-- delete: the empty axis is the working axis ([2,0] axis 1; [2,0,3] axis 1), or another one ([2,0] axis 0; [0,3] axis 1)
example : 0 ∉ e20.shape.eraseIdx 1 ∧ 0 ∈ e20.shape.eraseIdx 0 ∧ 0 ∈ e03.shape.eraseIdx 1 ∧ 0 ∉ e203.shape.eraseIdx 1 := by
  decide
example : e20.delete 0 [] (some 1) = .ok e20 :=
  ((delete_axis_zero_spec e20 0 [] 1 (by decide) (by decide) (by decide)).2 (by decide)).2.1 rfl
example : e203.delete 0 [0] (some 1) = .err .OutOfBounds :=
  ((delete_axis_zero_spec e203 0 [0] 1 (by decide) (by decide) (by decide)).2 (by decide)).2.2 (by decide)
example : e20.delete 0 [] (some 0) = .err .ParameterError :=
  (delete_axis_zero_spec e20 0 [] 0 (by decide) (by decide) (by decide)).1 (by decide)
example : e03.delete 0 [1] (some 1) = .err .ParameterError :=
  (delete_axis_zero_spec e03 0 [1] 1 (by decide) (by decide) (by decide)).1 (by decide)
-- repeat along an axis
example : e20.repeatAxis 0 [3] 1 = .err .BroadcastShapeMismatch :=
  (repeatAxis_zero_spec e20 0 [3] 1 (by decide) (by decide) (by decide)).1 (by decide)
example : e20.repeatAxis 0 [3, 1] 0 = .ok ⟨[], [4, 0]⟩ :=
  (repeatAxis_zero_spec e20 0 [3, 1] 0 (by decide) (by decide) (by decide)).2.1 (by decide) (.inl (by decide))
example : e203.repeatAxis 0 [2] 2 = .ok ⟨[], [2, 0, 6]⟩ :=
  (repeatAxis_zero_spec e203 0 [2] 2 (by decide) (by decide) (by decide)).2.1 (by decide) (.inr rfl)
example : e03.repeatAxis 0 [1, 1] 1 = .err .BroadcastShapeMismatch :=
  (repeatAxis_zero_spec e03 0 [1, 1] 1 (by decide) (by decide) (by decide)).2.2 (by decide) (by decide)
example : e203.repeatAxis 0 [2] 2 = .ok ⟨[], [2, 0, 6]⟩ := by decide +kernel
-- flat repeat with counts along the last axis of a rank-2 / rank-3 array; an empty LEADING axis; an empty last axis
example := repeatFlat_bcast_spec (⟨[10, 11, 12, 13, 14, 15], [2, 3]⟩ : Arr Nat) [2, 0, 1] [2] 3 (by decide) rfl (by decide)
  (.inl rfl)
example : (⟨[10, 11, 12, 13, 14, 15], [2, 3]⟩ : Arr Nat).repeatFlat [2, 0, 1] = .ok (Arr.flat [10, 10, 12, 13, 13, 15]) := by
  decide +kernel
example : (List.replicate 2 (bc1 [2, 0, 1] 3)).flatten = [2, 0, 1, 2, 0, 1] := by decide
example := repeatFlat_bcast_spec sample [1, 2] [2, 3] 2 (by decide) rfl (by decide) (.inl rfl)
example := repeatFlat_bcast_spec e03 [1, 2, 3] [0] 3 (by decide) rfl (by decide) (.inl rfl)
example : e03.repeatFlat [1, 2, 3] = .ok (Arr.flat []) := by decide +kernel
example : e20.repeatFlat [1] = .err .BroadcastShapeMismatch :=
  (repeatFlat_total e20 [1]).1 [2] 0 rfl (.inl rfl)
example : (⟨[7, 8, 9], [3, 1]⟩ : Arr Nat).repeatFlat [2, 0, 1] = .ok (Arr.flat [7, 7, 9]) := by decide +kernel
-- flat insert: a value array that is not 1-D, one that is not well formed (2 elements under shape [5]), an empty one
example : (Arr.flat [7, 8, 9]).insertFlat [1] ⟨[1, 2, 3, 4], [2, 2]⟩ = .err .UnsupportedDimension :=
  (insertFlat_rejects _ _ _).2.1 (by decide) (.inl (by decide))
example : ¬ (⟨[100, 200], [5]⟩ : Arr Nat).WF := by decide
example : (Arr.flat [7, 8, 9]).insertFlat [1] ⟨[100, 200], [5]⟩ = .ok (Arr.flat [7, 100, 200, 8, 9]) :=
  insertFlat_one_index (Arr.flat [7, 8, 9]) 1 ⟨[100, 200], [5]⟩ rfl (by decide) (by decide) (by decide)
example : (Arr.flat [7, 8, 9]).insertFlat [1] ⟨[], [0]⟩ = .err .BroadcastShapeMismatch :=
  (insertFlat_rejects _ _ _).2.2 (by decide) rfl (by decide) (.inr (.inl rfl))
example : e20.insertFlat [0] (Arr.flat [5]) = .ok (Arr.flat [5]) :=
  insertFlat_one_index e20 0 (Arr.flat [5]) rfl (by decide) (by decide) (by decide)

end ArrModel.C13
