import ArrProofs.Lemmas.AxisInv
/-!
# C06 — axis permutations move each element to the permuted coordinate, nothing else

Model under test: `ArrModel/Axis.lean` (`transpose` as the scatter loop of `axis.rs:186-226`, `moveaxis`,
`rollaxis`, `swapaxes`, `normalize_axis`).  All statements are for every rank, every axis length, every
permutation.  `permute ax c = ax.map (c[·])`, `unpermute ax` is its inverse on vectors of the right length.
-/
namespace ArrModel.C06
open ArrModel Arr
variable {α : Type}

/-- **negative axis numbers count from the end** -/
theorem normalize_neg (nd : Nat) (i : Int) (h1 : -(nd : Int) ≤ i) (h2 : i < 0) :
    (normalizeAxis nd i : Int) = i + nd := by
  unfold normalizeAxis
  rw [if_pos h2]
  have : ¬ (i + (nd : Int) < 0) := by omega
  simp only [this, if_false]
  omega

theorem normalize_nonneg (nd : Nat) (i : Int) (h : 0 ≤ i) : (normalizeAxis nd i : Int) = i := by
  unfold normalizeAxis
  rw [if_neg (by omega)]; omega

/-- **transpose, forward form**: for any axis order that is a permutation of the axes, the result has the
permuted shape and the input element at coordinate `c` sits at coordinate `permute ax c`. -/
theorem transpose_spec (a : Arr α) (zero : α) (axes : Option (List Int)) (hwf : a.WF)
    (hperm : (axesOf a.ndim axes).Perm (List.range a.ndim)) :
    ∃ r, a.transpose zero axes = .ok r ∧ r.shape = permute (axesOf a.ndim axes) a.shape ∧ r.WF ∧
      ∀ c, inRange a.shape c = true → r.get? (permute (axesOf a.ndim axes) c) = a.get? c := by
  have hv : validAxes a.ndim (axesOf a.ndim axes) = .ok () := (validAxes_ok_iff _ _).2 hperm
  have hprod : (permute (axesOf a.ndim axes) a.shape).prod = (transposeElems a.shape (axesOf a.ndim axes) a.elems zero).length := by
    rw [transposeElems_length, prod_permute _ _ hperm]; exact hwf.symm
  refine ⟨⟨transposeElems a.shape (axesOf a.ndim axes) a.elems zero, permute (axesOf a.ndim axes) a.shape⟩, ?_, rfl, ?_, ?_⟩
  · unfold Arr.transpose
    simp only [hv, Res.bind_ok, Arr.new, hprod, if_true]
  · exact hprod.symm
  · intro c hc
    exact transposeElems_get a.shape _ a.elems zero hperm hwf c hc

/-- **transpose, backward form** (the statement of the property): the element at any result coordinate `c'`
is the input element at the coordinate obtained by undoing the permutation. -/
theorem transpose_at (a : Arr α) (zero : α) (axes : Option (List Int)) (hwf : a.WF)
    (hperm : (axesOf a.ndim axes).Perm (List.range a.ndim)) :
    ∃ r, a.transpose zero axes = .ok r ∧ r.shape = permute (axesOf a.ndim axes) a.shape ∧
      ∀ c', inRange r.shape c' = true → r.get? c' = a.get? (unpermute (axesOf a.ndim axes) c') := by
  obtain ⟨r, h1, h2, _, h4⟩ := transpose_spec a zero axes hwf hperm
  refine ⟨r, h1, h2, ?_⟩
  intro c' hc'
  rw [h2] at hc'
  have hin := inRange_unpermute _ a.shape c' hperm hc'
  have hlen : c'.length = a.ndim := by
    have := inRange_length _ _ hc'; simpa [permute, hperm.length_eq] using this
  have := h4 _ hin
  rwa [permute_unpermute _ c' a.ndim hperm hlen] at this

/-- **invalid axis orders are refused** (never a panic, never data) -/
theorem transpose_rejects (a : Arr α) (zero : α) (axes : Option (List Int))
    (h : ¬ (axesOf a.ndim axes).Perm (List.range a.ndim)) :
    ∃ e, a.transpose zero axes = .err e := by
  unfold Arr.transpose
  cases hv : validAxes a.ndim (axesOf a.ndim axes) with
  | ok u => exact absurd ((validAxes_ok_iff _ _).1 (by cases u; exact hv)) h
  | err e => exact ⟨e, by simp [hv]⟩
  | panic => exact absurd hv (validAxes_not_panic _ _)

/-- **the default transpose reverses the axes** (and is always accepted) -/
theorem transpose_default (a : Arr α) (zero : α) :
    a.transpose zero none = a.transpose zero (some ((List.range a.ndim).reverse.map Int.ofNat)) := by
  unfold Arr.transpose
  simp only [axesOf, map_normalizeAxis_ofNat]

theorem default_axes_perm (nd : Nat) : (axesOf nd none).Perm (List.range nd) := List.reverse_perm _

/-- **a permutation followed by its inverse restores the original array** -/
theorem transpose_inv (a : Arr α) (zero : α) (ax : List Nat) (hwf : a.WF) (hperm : ax.Perm (List.range a.ndim)) :
    (a.transpose zero (some (ax.map Int.ofNat)) >>= fun r => r.transpose zero (some ((invAxes ax).map Int.ofNat))) = .ok a := by
  have hnorm : ∀ (nd : Nat) (l : List Nat), axesOf nd (some (l.map Int.ofNat)) = l := by
    intro nd l; simp only [axesOf, map_normalizeAxis_ofNat]
  have hl : ax.length = a.ndim := by simpa using hperm.length_eq
  obtain ⟨r, h1, h2, h3, h4⟩ := transpose_spec a zero (some (ax.map Int.ofNat)) hwf (by rw [hnorm]; exact hperm)
  rw [hnorm] at h2 h4
  have hrnd : r.ndim = a.ndim := by simp [Arr.ndim, h2, permute, hl]
  have hq : (invAxes ax).Perm (List.range r.ndim) := by rw [hrnd]; exact invAxes_perm ax _ hperm
  obtain ⟨r2, g1, g2, g3, g4⟩ := transpose_spec r zero (some ((invAxes ax).map Int.ofNat)) h3 (by rw [hnorm]; exact hq)
  rw [hnorm] at g2 g4
  rw [h1]; simp only [Res.bind_ok]; rw [g1]
  congr 1
  have hshape : r2.shape = a.shape := by
    rw [g2, h2, ← unpermute_eq_permute_inv]
    exact unpermute_permute ax a.shape a.ndim hperm rfl
  apply Arr.ext_get r2 a g3 hwf hshape
  intro c hc
  rw [hshape] at hc
  have hcl : c.length = a.ndim := inRange_length _ _ hc
  have hpc : inRange r.shape (permute ax c) = true := by
    rw [h2]; exact inRange_permute ax a.shape c (fun x hx => by simpa [Arr.ndim] using hperm.mem_iff.1 hx) hc
  have := g4 _ hpc
  rw [← unpermute_eq_permute_inv, unpermute_permute ax c a.ndim hperm hcl] at this
  rw [this, h4 c hc]

/-- **swapping two axes is transposing with the exchanged order**, which is a permutation -/
theorem swapOrder_perm (nd i j : Nat) (hi : i < nd) (hj : j < nd) : (swapOrder nd i j).Perm (List.range nd) := by
  have hlen : (swapOrder nd i j).length = nd := by simp [swapOrder]
  have hb : ∀ x ∈ swapOrder nd i j, x < nd := by
    intro x hx
    simp only [swapOrder, List.mem_map, List.mem_range] at hx
    obtain ⟨k, hk, rfl⟩ := hx
    split; · exact hj
    split; · exact hi
    exact hk
  have hnd : (swapOrder nd i j).Nodup := by
    unfold swapOrder
    refine List.Nodup.map_on ?_ List.nodup_range
    intro x _ y _ hxy
    split_ifs at hxy <;> omega
  have hs : swapOrder nd i j ⊆ List.range nd := fun x hx => by simpa using hb x hx
  exact (List.subperm_of_subset hnd hs).perm_of_length_le (by simp [hlen])

theorem swapaxes_eq_transpose (a : Arr α) (zero : α) (ax1 ax2 : Int)
    (h1 : normalizeAxis a.ndim ax1 < a.ndim) (h2 : normalizeAxis a.ndim ax2 < a.ndim) :
    a.swapaxes zero ax1 ax2 =
      a.transpose zero (some ((swapOrder a.ndim (normalizeAxis a.ndim ax1) (normalizeAxis a.ndim ax2)).map Int.ofNat)) := by
  unfold Arr.swapaxes
  simp only [show ¬ normalizeAxis a.ndim ax1 ≥ a.ndim by omega, show ¬ normalizeAxis a.ndim ax2 ≥ a.ndim by omega, if_false]

theorem swapaxes_rejects (a : Arr α) (zero : α) (ax1 ax2 : Int)
    (h : ¬ (normalizeAxis a.ndim ax1 < a.ndim ∧ normalizeAxis a.ndim ax2 < a.ndim)) :
    a.swapaxes zero ax1 ax2 = .err .AxisOutOfBounds := by
  unfold Arr.swapaxes
  by_cases h1 : normalizeAxis a.ndim ax1 ≥ a.ndim
  · simp [h1]
  · have : normalizeAxis a.ndim ax2 ≥ a.ndim := by omega
    simp [h1, this]

/-- **rolling an axis is transposing with the order "remove the axis, re-insert it at `start`"**, a permutation
that puts `axis` at position `start` -/
theorem rollaxisOrder_perm (nd axis start : Nat) (ha : axis < nd) (hs : start < nd) :
    (rollaxisOrder nd axis start).Perm (List.range nd) := by
  unfold rollaxisOrder
  have h1 : ((List.range nd).eraseIdx axis).length = nd - 1 := by simp [List.length_eraseIdx, ha]
  have h2 := List.perm_insertIdx axis ((List.range nd).eraseIdx axis) (i := start) (by omega)
  refine h2.trans ?_
  have e : List.range nd = (List.range nd).take axis ++ axis :: (List.range nd).drop (axis + 1) := by
    conv => lhs; rw [← List.take_append_drop axis (List.range nd)]
    rw [List.drop_eq_getElem_cons (by simpa using ha)]; simp
  rw [List.eraseIdx_eq_take_drop_succ]
  conv => rhs; rw [e]
  exact List.perm_middle.symm

theorem rollaxisOrder_at (nd axis start : Nat) (ha : axis < nd) (hs : start < nd) :
    (rollaxisOrder nd axis start)[start]? = some axis := by
  unfold rollaxisOrder
  have h1 : ((List.range nd).eraseIdx axis).length = nd - 1 := by simp [List.length_eraseIdx, ha]
  rw [List.getElem?_insertIdx_self]
  simp; omega

theorem rollaxis_eq_transpose (a : Arr α) (zero : α) (axis : Int) (start : Option Int)
    (h1 : normalizeAxis a.ndim axis < a.ndim)
    (h2 : startOf a.ndim start < a.ndim) :
    a.rollaxis zero axis start =
      a.transpose zero (some ((rollaxisOrder a.ndim (normalizeAxis a.ndim axis) (startOf a.ndim start)).map Int.ofNat)) := by
  unfold Arr.rollaxis
  simp only [show ¬ normalizeAxis a.ndim axis ≥ a.ndim by omega, show ¬ startOf a.ndim start ≥ a.ndim by omega, if_false]

/-- **moving axes is transposing with the constructed order** (by definition of the code), for the accepted inputs -/
theorem moveaxis_eq_transpose (a : Arr α) (zero : α) (src dst : List Int)
    (h1 : src.Nodup) (h2 : src.length = dst.length)
    (h3 : (src.map (normalizeAxis a.ndim)).Nodup) (h4 : (dst.map (normalizeAxis a.ndim)).Nodup) :
    a.moveaxis zero src dst =
      a.transpose zero (some ((moveaxisOrder a.ndim (src.map (normalizeAxis a.ndim)) (dst.map (normalizeAxis a.ndim))).map Int.ofNat)) := by
  unfold Arr.moveaxis
  simp [h1, h2, h3, h4]

/-! ### non-vacuity -/
example : (axesOf 3 (some [2, 0, -2])).Perm (List.range 3) := by decide
example : (⟨List.range 24, [2, 3, 4]⟩ : Arr Nat).WF := by decide
example : (⟨List.range 6, [2, 3]⟩ : Arr Nat).transpose 0 none = .ok ⟨[0, 3, 1, 4, 2, 5], [3, 2]⟩ := by decide
example : rollaxisOrder 4 2 0 = [2, 0, 1, 3] := by decide

end ArrModel.C06
