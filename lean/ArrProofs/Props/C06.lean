import ArrProofs.Lemmas.C06Move
import ArrProofs.Lemmas.GenCoreAxis
/-!
# C06 — axis permutations move each element to the permuted coordinate, nothing else

Model under test: `ArrModel/Axis.lean` (`transpose` as the scatter loop of `axis.rs:186-226`, `moveaxis`,
`rollaxis`, `swapaxes`, `normalize_axis`).  All statements are for every rank, every axis length, every
permutation.  `permute ax c = ax.map (c[·])`, `unpermute ax` is its inverse on vectors of the right length.
-/
namespace ArrModel.C06
open ArrModel Arr
variable {α : Type}

/-- **negative axis numbers count from the end** -/
theorem normalize_neg (nd : Nat) (i : Int) (h1 : -(nd : Int) ≤ i) (h2 : i < 0) :
    (normalizeAxis nd i : Int) = i + nd := by
  unfold normalizeAxis
  rw [if_pos h2]
  have : ¬ (i + (nd : Int) < 0) := by omega
  simp only [this, if_false]
  omega

theorem normalize_nonneg (nd : Nat) (i : Int) (h : 0 ≤ i) : (normalizeAxis nd i : Int) = i := by
  unfold normalizeAxis
  rw [if_neg (by omega)]; omega

/-- **transpose, forward form**: for any axis order that is a permutation of the axes, the result has the
permuted shape and the input element at coordinate `c` sits at coordinate `permute ax c`. -/
theorem transpose_spec (a : Arr α) (zero : α) (axes : Option (List Int)) (hwf : a.WF)
    (hperm : (axesOf a.ndim axes).Perm (List.range a.ndim)) :
    ∃ r, a.transpose zero axes = .ok r ∧ r.shape = permute (axesOf a.ndim axes) a.shape ∧ r.WF ∧
      ∀ c, inRange a.shape c = true → r.get? (permute (axesOf a.ndim axes) c) = a.get? c := by
  have hv : validAxes a.ndim (axesOf a.ndim axes) = .ok () := (validAxes_ok_iff _ _).2 hperm
  have hprod : (permute (axesOf a.ndim axes) a.shape).prod = (transposeElems a.shape (axesOf a.ndim axes) a.elems zero).length := by
    rw [transposeElems_length, prod_permute _ _ hperm]; exact hwf.symm
  refine ⟨⟨transposeElems a.shape (axesOf a.ndim axes) a.elems zero, permute (axesOf a.ndim axes) a.shape⟩, ?_, rfl, ?_, ?_⟩
  · unfold Arr.transpose
    simp only [hv, Res.bind_ok, Arr.new, hprod, if_true]
  · exact hprod.symm
  · intro c hc
    exact transposeElems_get a.shape _ a.elems zero hperm hwf c hc

/-- **transpose, backward form** (the statement of the property): the element at any result coordinate `c'`
is the input element at the coordinate obtained by undoing the permutation. -/
theorem transpose_at (a : Arr α) (zero : α) (axes : Option (List Int)) (hwf : a.WF)
    (hperm : (axesOf a.ndim axes).Perm (List.range a.ndim)) :
    ∃ r, a.transpose zero axes = .ok r ∧ r.shape = permute (axesOf a.ndim axes) a.shape ∧
      ∀ c', inRange r.shape c' = true → r.get? c' = a.get? (unpermute (axesOf a.ndim axes) c') := by
  obtain ⟨r, h1, h2, _, h4⟩ := transpose_spec a zero axes hwf hperm
  refine ⟨r, h1, h2, ?_⟩
  intro c' hc'
  rw [h2] at hc'
  have hin := inRange_unpermute _ a.shape c' hperm hc'
  have hlen : c'.length = a.ndim := by
    have := inRange_length _ _ hc'; simpa [permute, hperm.length_eq] using this
  have := h4 _ hin
  rwa [permute_unpermute _ c' a.ndim hperm hlen] at this

/-- **invalid axis orders are refused** (never a panic, never data) -/
theorem transpose_rejects (a : Arr α) (zero : α) (axes : Option (List Int))
    (h : ¬ (axesOf a.ndim axes).Perm (List.range a.ndim)) :
    ∃ e, a.transpose zero axes = .err e := by
  unfold Arr.transpose
  cases hv : validAxes a.ndim (axesOf a.ndim axes) with
  | ok u => exact absurd ((validAxes_ok_iff _ _).1 (by cases u; exact hv)) h
  | err e => exact ⟨e, by simp [hv]⟩
  | panic => exact absurd hv (validAxes_not_panic _ _)

/-- **the default transpose reverses the axes** (and is always accepted) -/
theorem transpose_default (a : Arr α) (zero : α) :
    a.transpose zero none = a.transpose zero (some ((List.range a.ndim).reverse.map Int.ofNat)) := by
  unfold Arr.transpose
  simp only [axesOf, map_normalizeAxis_ofNat]

theorem default_axes_perm (nd : Nat) : (axesOf nd none).Perm (List.range nd) := List.reverse_perm _

/-- **a permutation followed by its inverse restores the original array** -/
theorem transpose_inv (a : Arr α) (zero : α) (ax : List Nat) (hwf : a.WF) (hperm : ax.Perm (List.range a.ndim)) :
    (a.transpose zero (some (ax.map Int.ofNat)) >>= fun r => r.transpose zero (some ((invAxes ax).map Int.ofNat))) = .ok a := by
  have hnorm : ∀ (nd : Nat) (l : List Nat), axesOf nd (some (l.map Int.ofNat)) = l := by
    intro nd l; simp only [axesOf, map_normalizeAxis_ofNat]
  have hl : ax.length = a.ndim := by simpa using hperm.length_eq
  obtain ⟨r, h1, h2, h3, h4⟩ := transpose_spec a zero (some (ax.map Int.ofNat)) hwf (by rw [hnorm]; exact hperm)
  rw [hnorm] at h2 h4
  have hrnd : r.ndim = a.ndim := by simp [Arr.ndim, h2, permute, hl]
  have hq : (invAxes ax).Perm (List.range r.ndim) := by rw [hrnd]; exact invAxes_perm ax _ hperm
  obtain ⟨r2, g1, g2, g3, g4⟩ := transpose_spec r zero (some ((invAxes ax).map Int.ofNat)) h3 (by rw [hnorm]; exact hq)
  rw [hnorm] at g2 g4
  rw [h1]; simp only [Res.bind_ok]; rw [g1]
  congr 1
  have hshape : r2.shape = a.shape := by
    rw [g2, h2, ← unpermute_eq_permute_inv]
    exact unpermute_permute ax a.shape a.ndim hperm rfl
  apply Arr.ext_get r2 a g3 hwf hshape
  intro c hc
  rw [hshape] at hc
  have hcl : c.length = a.ndim := inRange_length _ _ hc
  have hpc : inRange r.shape (permute ax c) = true := by
    rw [h2]; exact inRange_permute ax a.shape c (fun x hx => by simpa [Arr.ndim] using hperm.mem_iff.1 hx) hc
  have := g4 _ hpc
  rw [← unpermute_eq_permute_inv, unpermute_permute ax c a.ndim hperm hcl] at this
  rw [this, h4 c hc]

/-- **swapping two axes is transposing with the exchanged order**, which is a permutation -/
theorem swapOrder_perm (nd i j : Nat) (hi : i < nd) (hj : j < nd) : (swapOrder nd i j).Perm (List.range nd) := by
  have hlen : (swapOrder nd i j).length = nd := by simp [swapOrder]
  have hb : ∀ x ∈ swapOrder nd i j, x < nd := by
    intro x hx
    simp only [swapOrder, List.mem_map, List.mem_range] at hx
    obtain ⟨k, hk, rfl⟩ := hx
    split; · exact hj
    split; · exact hi
    exact hk
  have hnd : (swapOrder nd i j).Nodup := by
    unfold swapOrder
    refine List.Nodup.map_on ?_ List.nodup_range
    intro x _ y _ hxy
    split_ifs at hxy <;> omega
  have hs : swapOrder nd i j ⊆ List.range nd := fun x hx => by simpa using hb x hx
  exact (List.subperm_of_subset hnd hs).perm_of_length_le (by simp [hlen])

theorem swapaxes_eq_transpose (a : Arr α) (zero : α) (ax1 ax2 : Int)
    (h1 : normalizeAxis a.ndim ax1 < a.ndim) (h2 : normalizeAxis a.ndim ax2 < a.ndim) :
    a.swapaxes zero ax1 ax2 =
      a.transpose zero (some ((swapOrder a.ndim (normalizeAxis a.ndim ax1) (normalizeAxis a.ndim ax2)).map Int.ofNat)) := by
  unfold Arr.swapaxes
  simp only [show ¬ normalizeAxis a.ndim ax1 ≥ a.ndim by omega, show ¬ normalizeAxis a.ndim ax2 ≥ a.ndim by omega, if_false]

theorem swapaxes_rejects (a : Arr α) (zero : α) (ax1 ax2 : Int)
    (h : ¬ (normalizeAxis a.ndim ax1 < a.ndim ∧ normalizeAxis a.ndim ax2 < a.ndim)) :
    a.swapaxes zero ax1 ax2 = .err .AxisOutOfBounds := by
  unfold Arr.swapaxes
  by_cases h1 : normalizeAxis a.ndim ax1 ≥ a.ndim
  · simp [h1]
  · have : normalizeAxis a.ndim ax2 ≥ a.ndim := by omega
    simp [h1, this]

/-- **rolling an axis is transposing with the order "remove the axis, re-insert it at `start`"**, a permutation
that puts `axis` at position `start` -/
theorem rollaxisOrder_perm (nd axis start : Nat) (ha : axis < nd) (hs : start < nd) :
    (rollaxisOrder nd axis start).Perm (List.range nd) := by
  unfold rollaxisOrder
  have h1 : ((List.range nd).eraseIdx axis).length = nd - 1 := by simp [List.length_eraseIdx, ha]
  have h2 := List.perm_insertIdx axis ((List.range nd).eraseIdx axis) (i := start) (by omega)
  refine h2.trans ?_
  have e : List.range nd = (List.range nd).take axis ++ axis :: (List.range nd).drop (axis + 1) := by
    conv => lhs; rw [← List.take_append_drop axis (List.range nd)]
    rw [List.drop_eq_getElem_cons (by simpa using ha)]; simp
  rw [List.eraseIdx_eq_take_drop_succ]
  conv => rhs; rw [e]
  exact List.perm_middle.symm

theorem rollaxisOrder_at (nd axis start : Nat) (ha : axis < nd) (hs : start < nd) :
    (rollaxisOrder nd axis start)[start]? = some axis := by
  unfold rollaxisOrder
  have h1 : ((List.range nd).eraseIdx axis).length = nd - 1 := by simp [List.length_eraseIdx, ha]
  rw [List.getElem?_insertIdx_self]
  simp; omega

theorem rollaxis_eq_transpose (a : Arr α) (zero : α) (axis : Int) (start : Option Int)
    (h1 : normalizeAxis a.ndim axis < a.ndim)
    (h2 : startOf a.ndim start < a.ndim) :
    a.rollaxis zero axis start =
      a.transpose zero (some ((rollaxisOrder a.ndim (normalizeAxis a.ndim axis) (startOf a.ndim start)).map Int.ofNat)) := by
  unfold Arr.rollaxis
  simp only [show ¬ normalizeAxis a.ndim axis ≥ a.ndim by omega, show ¬ startOf a.ndim start ≥ a.ndim by omega, if_false]

/-- **moving axes is transposing with the constructed order** (by definition of the code), for the accepted inputs -/
theorem moveaxis_eq_transpose (a : Arr α) (zero : α) (src dst : List Int)
    (h1 : src.Nodup) (h2 : src.length = dst.length)
    (h3 : (src.map (normalizeAxis a.ndim)).Nodup) (h4 : (dst.map (normalizeAxis a.ndim)).Nodup) :
    a.moveaxis zero src dst =
      a.transpose zero (some ((moveaxisOrder a.ndim (src.map (normalizeAxis a.ndim)) (dst.map (normalizeAxis a.ndim))).map Int.ofNat)) := by
  unfold Arr.moveaxis
  simp [h1, h2, h3, h4]

/-! ### `moveaxis`: the constructed order (extension)

`moveaxisOrder nd s d` is the list the Rust code builds: the unmoved axes in ascending order, then every
`(destination, source)` pair, sorted, inserted with `order.insert(d.min(order.len()), s)`.
`s`, `d` are the normalised source / destination lists. -/

/-- **the order built by `moveaxis` is a permutation of the axes** — for distinct in-range sources and *any*
destination list of the same length (destinations are only positions; the code clamps them, see
`moveaxisOrder_one`) -/
theorem moveaxisOrder_perm (nd : Nat) (s d : List Nat) (hs : s.Nodup) (hl : s.length = d.length)
    (hb : ∀ x ∈ s, x < nd) : (moveaxisOrder nd s d).Perm (List.range nd) := by
  rw [moveaxisOrder_eq]
  refine (insAll_perm _ _).trans ?_
  have h1 : (((d.zip s).mergeSort pairLe).map (·.2)).Perm s := by
    have := (List.mergeSort_perm (d.zip s) pairLe).map (·.2)
    rwa [List.map_snd_zip (by omega)] at this
  exact (List.Perm.append_right _ h1).trans (source_append_rest_perm nd s hs hb)

/-- **axis `s[k]` ends up at position `d[k]`** (distinct in-range sources and destinations: no insertion is clamped,
and a later insertion never moves an earlier one) -/
theorem moveaxisOrder_at (nd : Nat) (s d : List Nat) (hs : s.Nodup) (hd : d.Nodup) (hl : s.length = d.length)
    (hb : ∀ x ∈ s, x < nd) (hdb : ∀ x ∈ d, x < nd) (k : Nat) (hk : k < s.length) :
    (moveaxisOrder nd s d)[d[k]'(by omega)]? = some s[k] := by
  rw [moveaxisOrder_eq]
  have hsorted := sortedPairs_pairwise s d hd (by omega)
  have hlenL : ((d.zip s).mergeSort pairLe).length = s.length := by simp [hl]
  have hrest : ((List.range nd).filter (fun f => !s.contains f)).length + s.length = nd := by
    have := (source_append_rest_perm nd s hs hb).length_eq
    simp only [List.length_append, List.length_range] at this; omega
  have hfst : (((d.zip s).mergeSort pairLe).map (·.1)).Perm d := by
    have := (List.mergeSort_perm (d.zip s) pairLe).map (·.1)
    rwa [List.map_fst_zip (by omega)] at this
  have hmem : (d[k]'(by omega), s[k]) ∈ (d.zip s).mergeSort pairLe := by
    rw [List.mem_mergeSort, List.mem_iff_getElem]
    exact ⟨k, by simp; omega, by simp⟩
  refine insAll_at _ _ hsorted ?_ _ hmem
  intro j hj
  have hasc : (((d.zip s).mergeSort pairLe).map (·.1)).Pairwise (· < ·) := by
    rw [List.pairwise_map]; exact hsorted
  have := ascending_bound _ hasc nd (fun x hx => hdb x (hfst.mem_iff.1 hx)) j (by simpa using hj)
  simp only [List.getElem_map, List.length_map] at this
  omega

/-- **the unmoved axes keep their relative order**: deleting the moved axes from the order leaves `0..nd` without
them, ascending (every input) -/
theorem moveaxisOrder_rest_values (nd : Nat) (s d : List Nat) :
    (moveaxisOrder nd s d).filter (fun f => !s.contains f) = (List.range nd).filter (fun f => !s.contains f) := by
  rw [moveaxisOrder_eq, insAll_filter]
  · simp [List.filter_filter]
  · intro q hq
    rw [List.mem_mergeSort] at hq
    have := (List.of_mem_zip (a := q.1) (b := q.2) hq).2
    simp [this]

/-- **… and sit at the positions that are not destinations**: reading the order at the non-destination positions,
in ascending order, gives the unmoved axes in ascending order -/
theorem moveaxisOrder_rest (nd : Nat) (s d : List Nat) (hs : s.Nodup) (hd : d.Nodup) (hl : s.length = d.length)
    (hb : ∀ x ∈ s, x < nd) (hdb : ∀ x ∈ d, x < nd) :
    permute ((List.range nd).filter (fun i => !d.contains i)) (moveaxisOrder nd s d) =
      (List.range nd).filter (fun f => !s.contains f) := by
  have hperm := moveaxisOrder_perm nd s d hs hl hb
  have hlen : (moveaxisOrder nd s d).length = nd := by simpa using hperm.length_eq
  have hnd : (moveaxisOrder nd s d).Nodup := hperm.symm.nodup List.nodup_range
  rw [← moveaxisOrder_rest_values nd s d]
  conv => rhs; rw [← map_getD_range (moveaxisOrder nd s d), hlen, List.filter_map]
  unfold permute
  congr 1
  apply List.filter_congr
  intro i hi
  have hi' : i < (moveaxisOrder nd s d).length := by simpa [hlen] using hi
  simp only [Function.comp, List.getD_eq_getElem?_getD, List.getElem?_eq_getElem hi', Option.getD_some]
  congr 1
  rw [Bool.eq_iff_iff, List.contains_iff_mem, List.contains_iff_mem]
  constructor
  · intro h
    obtain ⟨k, hk, rfl⟩ := List.getElem_of_mem h
    have := moveaxisOrder_at nd s d hs hd hl hb hdb k (by omega)
    rw [List.getElem?_eq_getElem hi', Option.some.injEq] at this
    rw [this]; exact List.getElem_mem _
  · intro h
    obtain ⟨k, hk, hk'⟩ := List.getElem_of_mem h
    have h1 := moveaxisOrder_at nd s d hs hd hl hb hdb k hk
    have hdk : d[k]'(by omega) < (moveaxisOrder nd s d).length := by
      rw [hlen]; exact hdb _ (List.getElem_mem _)
    rw [List.getElem?_eq_getElem hdk, Option.some.injEq, hk'] at h1
    have := (hnd.getElem_inj_iff).1 h1
    rw [← this]; exact List.getElem_mem _

/-- **the order of the opposite move is the inverse permutation**: `moveaxis d s` undoes `moveaxis s d` -/
theorem moveaxisOrder_inverse (nd : Nat) (s d : List Nat) (hs : s.Nodup) (hd : d.Nodup) (hl : s.length = d.length)
    (hb : ∀ x ∈ s, x < nd) (hdb : ∀ x ∈ d, x < nd) :
    moveaxisOrder nd d s = invAxes (moveaxisOrder nd s d) := by
  have hp1 := moveaxisOrder_perm nd s d hs hl hb
  have hp2 := moveaxisOrder_perm nd d s hd hl.symm hdb
  have hl1 : (moveaxisOrder nd s d).length = nd := by simpa using hp1.length_eq
  have hl2 : (moveaxisOrder nd d s).length = nd := by simpa using hp2.length_eq
  have hn1 : (moveaxisOrder nd s d).Nodup := hp1.symm.nodup List.nodup_range
  -- position `i` of the opposite order holds the position at which the order holds `i`
  have key : ∀ i, i < nd → ∃ j, (moveaxisOrder nd d s)[i]? = some j ∧ (moveaxisOrder nd s d)[j]? = some i := by
    intro i hi
    by_cases his : i ∈ s
    · obtain ⟨k, hk, rfl⟩ := List.getElem_of_mem his
      exact ⟨d[k]'(by omega), moveaxisOrder_at nd d s hd hs hl.symm hdb hb k (by omega),
        moveaxisOrder_at nd s d hs hd hl hb hdb k hk⟩
    · have hmem : i ∈ (List.range nd).filter (fun f => !s.contains f) := by
        simp [List.mem_filter, hi, his]
      obtain ⟨t, ht, hti⟩ := List.getElem_of_mem hmem
      have r2 := moveaxisOrder_rest nd d s hd hs hl.symm hdb hb
      have r1 := moveaxisOrder_rest nd s d hs hd hl hb hdb
      have ht' : t < ((List.range nd).filter (fun f => !d.contains f)).length := by
        have := congrArg List.length r2; simp only [permute, List.length_map] at this; omega
      have hdt : ((List.range nd).filter (fun f => !d.contains f))[t] < nd := by
        have := List.getElem_mem ht'; simp only [List.mem_filter, List.mem_range] at this; exact this.1
      have e2 := congrArg (fun l => l[t]?) r2
      have e1 := congrArg (fun l => l[t]?) r1
      simp only [permute, List.getElem?_map, List.getElem?_eq_getElem ht, List.getElem?_eq_getElem ht',
        Option.map_some, hti, Option.some.injEq, List.getD_eq_getElem?_getD] at e1 e2
      refine ⟨((List.range nd).filter (fun f => !d.contains f))[t], ?_, ?_⟩
      · rw [List.getElem?_eq_getElem (by omega)] at e2 ⊢
        simpa using e2
      · rw [List.getElem?_eq_getElem (by omega)] at e1 ⊢
        simpa using e1
  apply List.ext_getElem
  · simp [invAxes, hl1, hl2]
  · intro i h1 h2
    obtain ⟨j, hj1, hj2⟩ := key i (by omega)
    have hj : j < (moveaxisOrder nd s d).length := by
      by_contra h; rw [List.getElem?_eq_none (by omega)] at hj2; cases hj2
    rw [List.getElem?_eq_getElem h1, Option.some.injEq] at hj1
    rw [List.getElem?_eq_getElem hj, Option.some.injEq] at hj2
    simp only [invAxes, List.getElem_map, List.getElem_range]
    rw [hj1, ← hj2]
    exact (List.Nodup.idxOf_getElem hn1 j hj).symm

/-! ### coordinate statements for `moveaxis`, `rollaxis`, `swapaxes` -/

/-- `transpose_spec` for an axis order given as naturals -/
theorem transpose_nat_spec (a : Arr α) (zero : α) (o : List Nat) (hwf : a.WF) (hperm : o.Perm (List.range a.ndim)) :
    ∃ r, a.transpose zero (some (o.map Int.ofNat)) = .ok r ∧ r.shape = permute o a.shape ∧ r.WF ∧
      ∀ c, inRange a.shape c = true → r.get? (permute o c) = a.get? c := by
  have := transpose_spec a zero (some (o.map Int.ofNat)) hwf (by simp only [axesOf, map_normalizeAxis_ofNat]; exact hperm)
  simpa only [axesOf, map_normalizeAxis_ofNat] using this

/-- **moveaxis, coordinate form**: for distinct sources (as written and after normalisation, either spelling of an
axis), distinct destinations, equally many of both and in-range sources, `moveaxis` succeeds, the result has the
shape permuted by the constructed order `o`, and the input element at coordinate `c` is the result element at
coordinate `permute o c`.  `moveaxis_coord` says what `permute o c` looks like. -/
theorem moveaxis_spec (a : Arr α) (zero : α) (src dst : List Int) (hwf : a.WF)
    (h1 : src.Nodup) (h2 : src.length = dst.length)
    (h3 : (src.map (normalizeAxis a.ndim)).Nodup) (h4 : (dst.map (normalizeAxis a.ndim)).Nodup)
    (h5 : ∀ x ∈ src.map (normalizeAxis a.ndim), x < a.ndim)
    (o : List Nat) (ho : o = moveaxisOrder a.ndim (src.map (normalizeAxis a.ndim)) (dst.map (normalizeAxis a.ndim))) :
    ∃ r, a.moveaxis zero src dst = .ok r ∧ r.shape = permute o a.shape ∧ r.WF ∧
      ∀ c, inRange a.shape c = true → r.get? (permute o c) = a.get? c := by
  subst ho
  rw [moveaxis_eq_transpose a zero src dst h1 h2 h3 h4]
  exact transpose_nat_spec a zero _ hwf (moveaxisOrder_perm a.ndim _ _ h3 (by simpa using h2) h5)

/-- **what the moved coordinate vector looks like**: with in-range destinations, position `d[k]` of the permuted
vector (coordinate or shape) holds entry `s[k]` of the original, and the remaining positions, read in ascending
order, hold the remaining entries in their original order -/
theorem moveaxis_coord (nd : Nat) (s d : List Nat) (hs : s.Nodup) (hd : d.Nodup) (hl : s.length = d.length)
    (hb : ∀ x ∈ s, x < nd) (hdb : ∀ x ∈ d, x < nd) (c : List Nat) :
    (∀ k (hk : k < s.length), (permute (moveaxisOrder nd s d) c)[d[k]'(by omega)]? = some (c.getD s[k] 0)) ∧
    permute ((List.range nd).filter (fun i => !d.contains i)) (permute (moveaxisOrder nd s d) c) =
      permute ((List.range nd).filter (fun i => !s.contains i)) c := by
  constructor
  · intro k hk
    simp only [permute, List.getElem?_map, moveaxisOrder_at nd s d hs hd hl hb hdb k hk, Option.map_some]
  · have hlen : (moveaxisOrder nd s d).length = nd := by
      simpa using (moveaxisOrder_perm nd s d hs hl hb).length_eq
    rw [permute_permute _ _ _ (fun x hx => by
      simp only [List.mem_filter, List.mem_range] at hx; omega), moveaxisOrder_rest nd s d hs hd hl hb hdb]

/-- **moving a single axis** from `i` to `j` (either spelling): the coordinate `c[i]` is taken out and re-inserted
at position `j`, the others keep their order; a destination at or past the last axis is clamped by the code's
`d.min(order.len())` and means "last" -/
theorem moveaxis_single (a : Arr α) (zero : α) (i j : Int) (hwf : a.WF) (i' p : Nat)
    (hi' : i' = normalizeAxis a.ndim i) (hi : i' < a.ndim) (hp : p = min (normalizeAxis a.ndim j) (a.ndim - 1)) :
    ∃ r, a.moveaxis zero [i] [j] = .ok r ∧ r.shape = (a.shape.eraseIdx i').insertIdx p (a.shape.getD i' 0) ∧ r.WF ∧
      ∀ c, inRange a.shape c = true → r.get? ((c.eraseIdx i').insertIdx p (c.getD i' 0)) = a.get? c := by
  subst hi' hp
  obtain ⟨r, g1, g2, g3, g4⟩ := moveaxis_spec a zero [i] [j] hwf (by simp) rfl (by simp) (by simp)
    (by simpa using hi) _ rfl
  simp only [List.map_cons, List.map_nil, moveaxisOrder_one _ _ _ hi] at g2 g4
  refine ⟨r, g1, ?_, g3, ?_⟩
  · rw [g2]; exact permute_rollaxisOrder a.ndim _ _ a.shape rfl
  · intro c hc
    rw [← g4 c hc]; congr 1
    exact (permute_rollaxisOrder a.ndim _ _ c (inRange_length _ _ hc)).symm

/-- **rollaxis, coordinate form**: coordinate `axis` is taken out and re-inserted at position `start` -/
theorem rollaxis_spec (a : Arr α) (zero : α) (axis : Int) (start : Option Int) (hwf : a.WF) (ax st : Nat)
    (hax : ax = normalizeAxis a.ndim axis) (hst : st = startOf a.ndim start) (h1 : ax < a.ndim) (h2 : st < a.ndim) :
    ∃ r, a.rollaxis zero axis start = .ok r ∧ r.shape = (a.shape.eraseIdx ax).insertIdx st (a.shape.getD ax 0) ∧ r.WF ∧
      ∀ c, inRange a.shape c = true → r.get? ((c.eraseIdx ax).insertIdx st (c.getD ax 0)) = a.get? c := by
  subst hax hst
  rw [rollaxis_eq_transpose a zero axis start h1 h2]
  obtain ⟨r, g1, g2, g3, g4⟩ := transpose_nat_spec a zero _ hwf (rollaxisOrder_perm a.ndim _ _ h1 h2)
  refine ⟨r, g1, ?_, g3, ?_⟩
  · rw [g2]; exact permute_rollaxisOrder a.ndim _ _ a.shape rfl
  · intro c hc
    rw [← g4 c hc]; congr 1
    exact (permute_rollaxisOrder a.ndim _ _ c (inRange_length _ _ hc)).symm

/-- **swapaxes, coordinate form**: coordinates `i` and `j` are exchanged, nothing else moves -/
theorem swapaxes_spec (a : Arr α) (zero : α) (ax1 ax2 : Int) (hwf : a.WF) (i j : Nat)
    (hi : i = normalizeAxis a.ndim ax1) (hj : j = normalizeAxis a.ndim ax2) (h1 : i < a.ndim) (h2 : j < a.ndim) :
    ∃ r, a.swapaxes zero ax1 ax2 = .ok r ∧
      r.shape = (a.shape.set i (a.shape.getD j 0)).set j (a.shape.getD i 0) ∧ r.WF ∧
      ∀ c, inRange a.shape c = true → r.get? ((c.set i (c.getD j 0)).set j (c.getD i 0)) = a.get? c := by
  subst hi hj
  rw [swapaxes_eq_transpose a zero ax1 ax2 h1 h2]
  obtain ⟨r, g1, g2, g3, g4⟩ := transpose_nat_spec a zero _ hwf (swapOrder_perm a.ndim _ _ h1 h2)
  refine ⟨r, g1, ?_, g3, ?_⟩
  · rw [g2]; exact permute_swapOrder a.ndim _ _ a.shape rfl h1 h2
  · intro c hc
    rw [← g4 c hc]; congr 1
    exact (permute_swapOrder a.ndim _ _ c (inRange_length _ _ hc) h1 h2).symm

/-- **moving `s → d` and then `d → s` restores the array** -/
theorem moveaxis_inverse (a : Arr α) (zero : α) (src dst : List Int) (hwf : a.WF)
    (h1 : src.Nodup) (h2 : src.length = dst.length)
    (h3 : (src.map (normalizeAxis a.ndim)).Nodup) (h4 : (dst.map (normalizeAxis a.ndim)).Nodup)
    (h5 : ∀ x ∈ src.map (normalizeAxis a.ndim), x < a.ndim) (h6 : ∀ x ∈ dst.map (normalizeAxis a.ndim), x < a.ndim) :
    (a.moveaxis zero src dst >>= fun r => r.moveaxis zero dst src) = .ok a := by
  have hl : (src.map (normalizeAxis a.ndim)).length = (dst.map (normalizeAxis a.ndim)).length := by simpa using h2
  have hp := moveaxisOrder_perm a.ndim _ _ h3 hl h5
  obtain ⟨r, g1, g2, _, _⟩ := moveaxis_spec a zero src dst hwf h1 h2 h3 h4 h5 _ rfl
  have hrnd : r.ndim = a.ndim := by
    simp only [Arr.ndim, g2, permute, List.length_map]; simpa [Arr.ndim] using hp.length_eq
  have hinv := transpose_inv a zero _ hwf hp
  rw [← moveaxis_eq_transpose a zero src dst h1 h2 h3 h4, g1] at hinv
  rw [g1]
  simp only [Res.bind_ok] at hinv ⊢
  rw [moveaxis_eq_transpose r zero dst src (List.Nodup.of_map _ h4) h2.symm (by rw [hrnd]; exact h4) (by rw [hrnd]; exact h3),
    hrnd, moveaxisOrder_inverse a.ndim _ _ h3 h4 hl h5 h6]
  exact hinv

/-! ### `moveaxis` refusals -/

/-- **a repeated source axis (as written or after normalisation), a repeated destination axis or lists of different
lengths are refused with an error** -/
theorem moveaxis_rejects (a : Arr α) (zero : α) (src dst : List Int)
    (h : ¬ (src.Nodup ∧ src.length = dst.length ∧
      (src.map (normalizeAxis a.ndim)).Nodup ∧ (dst.map (normalizeAxis a.ndim)).Nodup)) :
    ∃ e, a.moveaxis zero src dst = .err e := by
  unfold Arr.moveaxis
  by_cases h1 : src.Nodup
  · by_cases h2 : src.length = dst.length
    · by_cases h3 : (src.map (normalizeAxis a.ndim)).Nodup
      · have h4 : ¬ (dst.map (normalizeAxis a.ndim)).Nodup := fun h4 => h ⟨h1, h2, h3, h4⟩
        exact ⟨.MustBeUnique, by simp [h1, h2, h3, h4]⟩
      · exact ⟨.MustBeUnique, by simp [h1, h2, h3]⟩
    · exact ⟨.MustBeEqual, by simp [h1, h2]⟩
  · exact ⟨.MustBeUnique, by simp [h1]⟩

/-- **an out-of-range source axis is refused with an error** (the constructed order then contains it, so `transpose`
refuses the order).  Out-of-range *destinations* are not refused: the code clamps them to the end
(`moveaxis_spec` has no hypothesis on the destinations' range, `moveaxis_single` shows the clamp). -/
theorem moveaxis_rejects_source_range (a : Arr α) (zero : α) (src dst : List Int)
    (h : ∃ x ∈ src.map (normalizeAxis a.ndim), a.ndim ≤ x) :
    ∃ e, a.moveaxis zero src dst = .err e := by
  by_cases hacc : src.Nodup ∧ src.length = dst.length ∧
      (src.map (normalizeAxis a.ndim)).Nodup ∧ (dst.map (normalizeAxis a.ndim)).Nodup
  · obtain ⟨h1, h2, h3, h4⟩ := hacc
    rw [moveaxis_eq_transpose a zero src dst h1 h2 h3 h4]
    apply transpose_rejects
    simp only [axesOf, map_normalizeAxis_ofNat]
    intro hperm
    obtain ⟨x, hx, hge⟩ := h
    have hxo : x ∈ moveaxisOrder a.ndim (src.map (normalizeAxis a.ndim)) (dst.map (normalizeAxis a.ndim)) := by
      rw [moveaxisOrder_eq, (insAll_perm _ _).mem_iff, List.mem_append]
      left
      have := (List.mergeSort_perm ((dst.map (normalizeAxis a.ndim)).zip (src.map (normalizeAxis a.ndim))) pairLe).map (·.2)
      rw [List.map_snd_zip (by simp [h2])] at this
      exact this.mem_iff.2 hx
    have := hperm.mem_iff.1 hxo
    simp only [List.mem_range] at this
    omega
  · exact moveaxis_rejects a zero src dst hacc

/-- **no input makes the axis operations panic** -/
theorem transpose_never_panics (a : Arr α) (zero : α) (axes : Option (List Int)) : a.transpose zero axes ≠ .panic := by
  unfold Arr.transpose
  cases hv : validAxes a.ndim (axesOf a.ndim axes) with
  | ok u => simp only [hv, Res.bind_ok, Arr.new]; split <;> simp
  | err e => simp [hv]
  | panic => exact absurd hv (validAxes_not_panic _ _)

theorem moveaxis_never_panics (a : Arr α) (zero : α) (src dst : List Int) : a.moveaxis zero src dst ≠ .panic := by
  unfold Arr.moveaxis
  by_cases h1 : src.Nodup
  · by_cases h2 : src.length = dst.length
    · by_cases h3 : (src.map (normalizeAxis a.ndim)).Nodup
      · by_cases h4 : (dst.map (normalizeAxis a.ndim)).Nodup
        · simp only [h1, h2, h3, h4, not_true_eq_false, ne_eq, if_false]
          exact transpose_never_panics a zero _
        · simp [h1, h2, h3, h4]
      · simp [h1, h2, h3]
    · simp [h1, h2]
  · simp [h1]

/-! ### non-vacuity -/
example : (axesOf 3 (some [2, 0, -2])).Perm (List.range 3) := by decide
example : (⟨List.range 24, [2, 3, 4]⟩ : Arr Nat).WF := by decide
example : (⟨List.range 6, [2, 3]⟩ : Arr Nat).transpose 0 none = .ok ⟨[0, 3, 1, 4, 2, 5], [3, 2]⟩ := by decide
example : rollaxisOrder 4 2 0 = [2, 0, 1, 3] := by decide

/-! ### non-vacuity (moveaxis extension) -/
-- unsorted destinations: axis 0 lands at position 3, axis 1 at position 1, the rest `[2, 3]` stays ascending
example : moveaxisOrder 4 [0, 1] [3, 1] = [2, 1, 3, 0] := by
  simp [moveaxisOrder, List.mergeSort, pairLe]; decide
-- a destination past the end is clamped to "last"
example : moveaxisOrder 3 [0] [7] = [1, 2, 0] := by
  simp [moveaxisOrder]; decide
-- both spellings normalise to the lists the theorems talk about
example : ([0, -3] : List Int).map (normalizeAxis 4) = [0, 1] ∧ ([-1, 1] : List Int).map (normalizeAxis 4) = [3, 1] := by decide
-- the hypotheses of `moveaxis_spec` / `moveaxis_inverse` are satisfiable
example : ∃ r, (⟨List.range 24, [2, 3, 4]⟩ : Arr Nat).moveaxis 0 [0, -1] [-1, 0] = .ok r ∧ r.WF :=
  let ⟨r, h, _, hw, _⟩ := moveaxis_spec (⟨List.range 24, [2, 3, 4]⟩ : Arr Nat) 0 [0, -1] [-1, 0]
    (by decide) (by decide) (by decide) (by decide) (by decide) (by decide) _ rfl
  ⟨r, h, hw⟩
example : ((⟨List.range 24, [2, 3, 4]⟩ : Arr Nat).moveaxis 0 [0, -1] [1, 0] >>= fun r => r.moveaxis 0 [1, 0] [0, -1]) =
    .ok ⟨List.range 24, [2, 3, 4]⟩ :=
  moveaxis_inverse _ 0 [0, -1] [1, 0] (by decide) (by decide) (by decide) (by decide) (by decide) (by decide) (by decide)
example : (⟨List.range 6, [2, 3]⟩ : Arr Nat).moveaxis 0 [0] [-1] = .ok ⟨[0, 3, 1, 4, 2, 5], [3, 2]⟩ := by
  rw [moveaxis_eq_transpose _ _ _ _ (by decide) (by decide) (by decide) (by decide)]
  have : moveaxisOrder 2 [0] [1] = [1, 0] := by simp [moveaxisOrder]; decide
  simp only [show (⟨List.range 6, [2, 3]⟩ : Arr Nat).ndim = 2 from rfl, List.map,
    show normalizeAxis 2 0 = 0 from by decide, show normalizeAxis 2 (-1) = 1 from by decide, this]
  decide
-- refusals
example : (⟨List.range 6, [2, 3]⟩ : Arr Nat).moveaxis 0 [0, -2] [1, 0] = .err .MustBeUnique := by decide
example : (⟨List.range 6, [2, 3]⟩ : Arr Nat).moveaxis 0 [0, 1] [1] = .err .MustBeEqual := by decide
example : ∃ e, (⟨List.range 6, [2, 3]⟩ : Arr Nat).moveaxis 0 [5] [0] = .err e :=
  moveaxis_rejects_source_range _ _ _ _ ⟨5, by decide, by decide⟩

/-! ## The same properties for the code as TRANSLATED FROM THE SOURCE

`ArrModel.Gen.Core.Array_moveaxis`, `Array_rollaxis`, `Array_swapaxes` are regenerated from `src/core/operations/axis.rs` by
`tools/rs2lean.py` on every run.  `transpose` itself is outside the translated subset; the generated definitions take it as a
parameter, instantiated here with the hand-written `Arr.transpose zero` (the model of the theorems above).
`ArrProofs/Lemmas/GenCoreAxis.lean` proves the generated definitions equal to the hand-written ones for all inputs. -/

open ArrModel.Gen.Core in
/-- **moveaxis (translated source)**: on a well-formed array with distinct in-range sources the result has the shape permuted by the
constructed order, and every element moves to the permuted coordinate.
(Uses the equivalence up to the error variant, `moveaxis_sim`: the order of the validations in the source is immaterial.) -/
theorem gen_moveaxis_spec (a : Arr α) (zero : α) (src dst : List Int) (hwf : a.WF)
    (h1 : src.Nodup) (h2 : src.length = dst.length)
    (h3 : (src.map (normalizeAxis a.ndim)).Nodup) (h4 : (dst.map (normalizeAxis a.ndim)).Nodup)
    (h5 : ∀ x ∈ src.map (normalizeAxis a.ndim), x < a.ndim)
    (o : List Nat) (ho : o = moveaxisOrder a.ndim (src.map (normalizeAxis a.ndim)) (dst.map (normalizeAxis a.ndim))) :
    ∃ r, Array_moveaxis (fun x ax => x.transpose zero ax) a src dst = .ok r ∧ r.shape = permute o a.shape ∧ r.WF ∧
      ∀ c, inRange a.shape c = true → r.get? (permute o c) = a.get? c := by
  obtain ⟨r, hr, rest⟩ := moveaxis_spec a zero src dst hwf h1 h2 h3 h4 h5 o ho
  exact ⟨r, Res.sameClass_ok_right (hr ▸ moveaxis_sim a zero src dst), rest⟩

open ArrModel.Gen.Core in
/-- a repeated source / destination axis or lists of different lengths are refused with an error -/
theorem gen_moveaxis_rejects (a : Arr α) (zero : α) (src dst : List Int)
    (h : ¬ (src.Nodup ∧ src.length = dst.length ∧
      (src.map (normalizeAxis a.ndim)).Nodup ∧ (dst.map (normalizeAxis a.ndim)).Nodup)) :
    ∃ e, Array_moveaxis (fun x ax => x.transpose zero ax) a src dst = .err e := by
  obtain ⟨e, he⟩ := moveaxis_rejects a zero src dst h
  exact Res.sameClass_err_right (he ▸ moveaxis_sim a zero src dst)

open ArrModel.Gen.Core in
theorem gen_moveaxis_never_panics (a : Arr α) (zero : α) (src dst : List Int) :
    Array_moveaxis (fun x ax => x.transpose zero ax) a src dst ≠ .panic :=
  Res.sameClass_not_panic (moveaxis_sim a zero src dst) (moveaxis_never_panics a zero src dst)

open ArrModel.Gen.Core in
/-- **rollaxis (translated source)** is, up to the error variant, the transposition by `rollaxisOrder` for in-range arguments … -/
theorem gen_rollaxis_eq_transpose (a : Arr α) (zero : α) (axis : Int) (start : Option Int)
    (h1 : normalizeAxis a.ndim axis < a.ndim) (h2 : startOf a.ndim start < a.ndim) :
    Res.sameClass (Array_rollaxis (fun x ax => x.transpose zero ax) a axis start)
      (a.transpose zero (some ((rollaxisOrder a.ndim (normalizeAxis a.ndim axis) (startOf a.ndim start)).map Int.ofNat))) := by
  rw [← rollaxis_eq_transpose a zero axis start h1 h2]; exact rollaxis_sim a zero axis start

open ArrModel.Gen.Core in
/-- **swapaxes (translated source)** is, up to the error variant, the transposition by `swapOrder` for in-range axes, and refuses the others -/
theorem gen_swapaxes_eq_transpose (a : Arr α) (zero : α) (ax1 ax2 : Int)
    (h1 : normalizeAxis a.ndim ax1 < a.ndim) (h2 : normalizeAxis a.ndim ax2 < a.ndim) :
    Res.sameClass (Array_swapaxes (fun x ax => x.transpose zero ax) a ax1 ax2)
      (a.transpose zero (some ((swapOrder a.ndim (normalizeAxis a.ndim ax1) (normalizeAxis a.ndim ax2)).map Int.ofNat))) := by
  rw [← swapaxes_eq_transpose a zero ax1 ax2 h1 h2]; exact swapaxes_sim a zero ax1 ax2

open ArrModel.Gen.Core in
theorem gen_swapaxes_rejects (a : Arr α) (zero : α) (ax1 ax2 : Int)
    (h : ¬ (normalizeAxis a.ndim ax1 < a.ndim ∧ normalizeAxis a.ndim ax2 < a.ndim)) :
    ∃ e, Array_swapaxes (fun x ax => x.transpose zero ax) a ax1 ax2 = .err e :=
  Res.sameClass_err_right (swapaxes_rejects a zero ax1 ax2 h ▸ swapaxes_sim a zero ax1 ax2)

example : ArrModel.Gen.Core.Array_moveaxis (fun x ax => x.transpose 0 ax) (⟨List.range 6, [2, 3]⟩ : Arr Nat) [0, 1] [1] = .err .MustBeEqual := by decide
example : ArrModel.Gen.Core.Array_swapaxes (fun x ax => x.transpose 0 ax) (⟨List.range 6, [2, 3]⟩ : Arr Nat) 0 (-1)
    = .ok ⟨[0, 3, 1, 4, 2, 5], [3, 2]⟩ := by decide

end ArrModel.C06
