import ArrProofs.Lemmas.C19Along
import ArrProofs.Lemmas.C19Ext
/-!
# C19 — bit unpacking and packing are inverse; `binary_repr` parses back

Property theorems only (helpers in `ArrProofs/Lemmas/C19.lean`).  Model under test: `ArrModel/C19.lean`
(`toBitOrder`, `unpackByte`, `unpackFlat`, `unpackFlatArr`, `unpackLane`, `packGroup`, `pad8`, `packFlat`,
`packFlatArr`, `packLane`, `unpackBits`, `packBits`, `binaryRepr`, `binaryReprSigned`).

Scope of this file: the flat form (`axis = None`); the lane functions handed to `apply_along_axis`; the lifting
of the lane round trip through *any* `apply_along_axis` that satisfies `AlongLifts`; and the axis forms exactly as
`binary_bits.rs` wraps them — `normalize_axis`, then `apply_along_axis` with the flat lane function — for
* `alongPipe` = the shared pipeline model `Arr.applyAlongAxis` of the crate's (repaired) `apply_along_axis`
  (moveaxis / ravel / split / map / reshape / move back), via the central lemma `applyAlongAxis_spec`
  (`pack_unpack_axis`, `unpack_axis_at`, `pack_axis_at`), and
* `alongRef` = a coordinate-level reference lane semantics (`pack_unpack_axis_ref`, `unpack_axis_ref`).
The driver runs both and reports a split, so their agreement is part of the tie.

Extension round (helpers and the specification-side definitions `emptyAnswer`, `orderAccepted`, `axisAccepted`,
`countKeep` in `ArrProofs/Lemmas/C19Ext.lean`): complete outcome on arrays without elements / with a zero-length axis,
totality (never a panic) on every well-formed array, `count` for every count flat and by axis, canonical form of
`binary_repr` at every width.
-/
namespace ArrModel.C19
open ArrModel

/-! ## `BitOrder` spellings -/

/-- a text is accepted exactly when it is in the spelling table, with the table's meaning -/
theorem toBitOrder_text_ok_iff (s : List Char) (o : BitOrder) :
    toBitOrder (.text s) = .ok o ↔ (s, o) ∈ bitOrderTable := by
  unfold toBitOrder bitOrderTable
  by_cases h1 : s = ['b', 'i', 'g']
  · subst h1; cases o <;> simp
  · by_cases h2 : s = ['l', 'i', 't', 't', 'l', 'e']
    · subst h2; cases o <;> simp
    · simp [h1, h2]

/-- any other text is an error value (not a panic, not a default) -/
theorem toBitOrder_unknown (s : List Char) (h : ∀ o, (s, o) ∉ bitOrderTable) :
    toBitOrder (.text s) = .err .ParameterError := by
  have h1 : s ≠ ['b', 'i', 'g'] := fun e => h .big (by simp [bitOrderTable, e])
  have h2 : s ≠ ['l', 'i', 't', 't', 'l', 'e'] := fun e => h .little (by simp [bitOrderTable, e])
  simp [toBitOrder, h1, h2]

theorem toBitOrder_enum (o : BitOrder) : toBitOrder (.enum o) = .ok o := rfl

theorem toBitOrder_never_panics (s : Spelling) : toBitOrder s ≠ .panic := by
  cases s with
  | enum o => simp [toBitOrder]
  | text s =>
    by_cases h1 : s = ['b', 'i', 'g']
    · simp [toBitOrder, h1]
    · by_cases h2 : s = ['l', 'i', 't', 't', 'l', 'e']
      · simp [toBitOrder, h2]
      · simp [toBitOrder, h1, h2]

/-- both orders are reachable in the enum and in the text spelling, and mean the same -/
theorem spellings_agree :
    toBitOrder (.text ['b', 'i', 'g']) = toBitOrder (.enum .big) ∧
    toBitOrder (.text ['l', 'i', 't', 't', 'l', 'e']) = toBitOrder (.enum .little) ∧
    optOrder none = .ok .big := by decide

/-- an unknown order name: both operations return the error, whatever the array (empty ones included: the order is
parsed before the empty-array shortcut, commit 97c65b7), the axis and the count -/
theorem bad_order_rejected (along : Along) (a : Arr Nat) (axis count : Option Int) (s : List Char)
    (h : ∀ o, (s, o) ∉ bitOrderTable) :
    unpackBits along a axis count (some (.text s)) = .err .ParameterError ∧
    packBits along a axis (some (.text s)) = .err .ParameterError := by
  simp [unpackBits, packBits, optOrder, toBitOrder_unknown s h]

/-! ## one byte -/

/-- **what unpacking a byte is**: big order lists the binary digits most significant first, little order
least significant first (for every natural number, not only bytes) -/
theorem unpackByte_digits (b : Nat) :
    unpackByte .big b = [b / 128 % 2, b / 64 % 2, b / 32 % 2, b / 16 % 2, b / 8 % 2, b / 4 % 2, b / 2 % 2, b % 2] ∧
    unpackByte .little b = [b % 2, b / 2 % 2, b / 4 % 2, b / 8 % 2, b / 16 % 2, b / 32 % 2, b / 64 % 2, b / 128 % 2] := by
  have hr : (List.range 8).reverse = [7, 6, 5, 4, 3, 2, 1, 0] := by decide
  constructor <;> simp [unpackByte, hr, Nat.shiftRight_eq_div_pow, Nat.and_one_is_mod]

/-- **the finite table**: for each of the 256 byte values and both orders, packing the unpacked bits returns the
byte (all 512 rows evaluated by the kernel) -/
theorem unpack_byte_pack_byte : ∀ b, b < 256 → ∀ o : BitOrder, packGroup o (unpackByte o b) = .ok b :=
  packGroup_unpackByte

/-- and conversely every group of eight bits is recovered from its byte (2 · 256 rows) -/
theorem pack_group_unpack_byte (o : BitOrder) (x0 x1 x2 x3 x4 x5 x6 x7 : Nat)
    (h0 : x0 < 2) (h1 : x1 < 2) (h2 : x2 < 2) (h3 : x3 < 2) (h4 : x4 < 2) (h5 : x5 < 2) (h6 : x6 < 2) (h7 : x7 < 2) :
    (packGroup o [x0, x1, x2, x3, x4, x5, x6, x7]).map (unpackByte o) = .ok [x0, x1, x2, x3, x4, x5, x6, x7] :=
  unpackByte_packGroup o x0 h0 x1 h1 x2 h2 x3 h3 x4 h4 x5 h5 x6 h6 x7 h7

/-- values other than 0/1 count as set bits (`if i > &0`) -/
theorem pack_group_nonbinary (o : BitOrder) (g : List Nat) :
    packGroup o (g.map (fun i => if i > 0 then 1 else 0)) = packGroup o g := packGroup_norm o g

/-! ## lists of bytes (flat order) -/

/-- unpacking replaces every byte by eight elements, all of them bits -/
theorem unpack_flat_length (o : BitOrder) (bs : List Nat) : (unpackFlat o bs).length = 8 * bs.length :=
  unpackFlat_length o bs

theorem unpack_flat_bits (o : BitOrder) (bs : List Nat) : ∀ x ∈ unpackFlat o bs, x < 2 := by
  intro x hx
  simp only [unpackFlat, List.mem_flatMap] at hx
  obtain ⟨b, _, hb⟩ := hx
  exact unpackByte_bits o b x hb

/-- byte `i` of the input becomes elements `8i … 8i+7` of the output -/
theorem unpack_flat_at (o : BitOrder) : ∀ (bs : List Nat) (i : Nat) (b : Nat), bs[i]? = some b →
    ((unpackFlat o bs).drop (8 * i)).take 8 = unpackByte o b
  | [], i, b, h => by simp at h
  | x :: xs, 0, b, h => by
    simp only [List.getElem?_cons_zero, Option.some.injEq] at h; subst h
    rw [unpackFlat_cons]; simp [unpackByte_length]
  | x :: xs, i + 1, b, h => by
    rw [unpackFlat_cons]
    have : 8 * (i + 1) = (unpackByte o x).length + 8 * i := by rw [unpackByte_length]; omega
    rw [this, List.drop_append]
    simp only [Nat.add_sub_cancel_left]
    rw [List.drop_eq_nil_of_le (by omega), List.nil_append]
    exact unpack_flat_at o xs i b (by simpa using h)

/-- **pack ∘ unpack = id** for every list of bytes, in either order -/
theorem pack_unpack_flat (o : BitOrder) (bs : List Nat) (h : ∀ b ∈ bs, b < 256) :
    packFlat o (unpackFlat o bs) = .ok bs := packFlat_unpackFlat o bs h

/-- **padding**: packing a bit list whose length is not a multiple of eight is packing it with the final short
group filled up with zero bits -/
theorem pack_pad (o : BitOrder) (xs : List Nat) (h : xs.length % 8 ≠ 0) :
    packFlat o xs = packFlat o (xs ++ List.replicate (8 - xs.length % 8) 0) := by
  have hp : pad8 xs = xs ++ List.replicate (8 - xs.length % 8) 0 := by simp [pad8, h]
  have : packFlat o xs = packFlat o (pad8 xs) := by
    unfold packFlat; simp only [pad8_idem]
  rw [this, hp]

/-- a list whose length is a multiple of eight is packed as it is -/
theorem pack_no_pad (xs : List Nat) (h : xs.length % 8 = 0) : pad8 xs = xs := pad8_of_dvd xs h

/-- the number of bytes is the number of groups, `⌈len / 8⌉` -/
theorem pack_length (o : BitOrder) (xs r : List Nat) (h : packFlat o xs = .ok r) :
    r.length = (xs.length + 7) / 8 := packFlat_length o xs r h

/-- packing groups eight at a time: the first eight elements make the first byte, the rest the rest -/
theorem pack_step (o : BitOrder) (g rest : List Nat) (hg : g.length = 8) :
    packFlat o (g ++ rest) = (packGroup o g >>= fun b => packFlat o rest >>= fun bs => .ok (b :: bs)) :=
  packFlat_append8 o g rest hg

/-- **unpack ∘ pack = zero padding**: packing a list of bits and unpacking the bytes gives the bits followed by
the padding zeros -/
theorem unpack_pack_flat (o : BitOrder) (xs : List Nat) (hb : ∀ x ∈ xs, x < 2) :
    (packFlat o xs).map (unpackFlat o) = .ok (pad8 xs) := unpackFlat_packFlat o xs hb

/-! ## arrays: flat form and lanes -/

/-- the flat form of `unpack_bits` (no `count`): a 1-D array of `8 · len` bits -/
theorem unpack_flat_arr (o : BitOrder) (a : Arr Nat) :
    unpackFlatArr o none a = .ok (Arr.flat (unpackFlat o a.elems)) := by
  unfold unpackFlatArr
  simp only [Option.getD_none]
  have : (Int.ofNat a.elems.length * 8).toNat = (unpackFlat o a.elems).length := by
    rw [unpackFlat_length]; simp; omega
  rw [if_pos (by simp; omega), this, slice1_full]

/-- **the lane round trip** (what `apply_along_axis` is given): for every lane of bytes, packing the unpacked
lane returns the lane — including the empty lane -/
theorem lane_roundtrip (o : BitOrder) (lane : Arr Nat) (h : ∀ b ∈ lane.elems, b < 256) :
    (unpackLane o none lane >>= packLane o) = .ok (Arr.flat lane.elems) := by
  unfold unpackLane
  by_cases he : lane.isEmpty = true
  · have : lane.elems = [] := by simpa [Arr.isEmpty] using he
    simp [packLane, Arr.isEmpty, Arr.flat, this]
  · have hne : lane.elems ≠ [] := by simpa [Arr.isEmpty] using he
    have hu : (Arr.flat (unpackFlat o lane.elems)).isEmpty = false := by
      have hl := unpackFlat_length o lane.elems
      have hn : lane.elems.length ≠ 0 := by simpa using hne
      simp only [Arr.isEmpty, Arr.flat, beq_eq_false_iff_ne, ne_eq]
      omega
    rw [if_neg he, unpack_flat_arr]
    simp only [Res.bind_ok, packLane, hu]
    simp only [packFlatArr, Arr.flat, pack_unpack_flat o _ h, Res.bind_ok]
    simp

/-- **`pack_bits(unpack_bits(a))` in flat order returns the original bytes** (as a 1-D array: the flat form
discards the shape by design), for every accepted spelling of the order -/
theorem pack_unpack_flat_arr (along : Along) (a : Arr Nat) (ord : Option Spelling) (o : BitOrder)
    (ho : optOrder ord = .ok o) (hne : a.isEmpty = false) (h : ∀ b ∈ a.elems, b < 256) :
    (unpackBits along a none none ord >>= fun u => packBits along u none ord) = .ok (Arr.flat a.elems) := by
  have hl := lane_roundtrip o a h
  simp only [unpackLane, hne] at hl
  simp only [unpackBits, hne, ho, axisCheck]
  simp only [Bool.false_eq_true, if_false] at hl ⊢
  rw [unpack_flat_arr] at hl ⊢
  simp only [Res.bind_ok] at hl ⊢
  simp only [packBits, ho, axisCheck]
  simp only [packLane] at hl
  exact hl

/-- unpacking a non-empty lane (no `count`) always succeeds with `8·n` bits -/
theorem unpackLane_flat (o : BitOrder) (l : List Nat) (hl : l ≠ []) :
    unpackLane o none (Arr.flat l) = .ok (Arr.flat (unpackFlat o l)) := by
  have he : (Arr.flat l).isEmpty = false := by simpa [Arr.isEmpty, Arr.flat] using hl
  simp only [unpackLane, he, Bool.false_eq_true, if_false]
  simpa [Arr.flat] using unpack_flat_arr o (Arr.flat l)

/-- packing a non-empty lane always succeeds (whatever the values) with `⌈len / 8⌉` bytes -/
theorem packLane_flat (o : BitOrder) (l : List Nat) (hl : l ≠ []) :
    ∃ r : List Nat, packFlat o l = .ok r ∧ r.length = (l.length + 7) / 8 ∧ packLane o (Arr.flat l) = .ok (Arr.flat r) := by
  obtain ⟨r, hr⟩ := packFlat_total o l
  have he : (Arr.flat l).isEmpty = false := by simpa [Arr.isEmpty, Arr.flat] using hl
  refine ⟨r, hr, packFlat_length o l r hr, ?_⟩
  rw [packLane, if_neg (by simp [he])]
  simp only [packFlatArr, Arr.flat, hr, Res.bind_ok]

/-- the two lane functions form an inverse pair in the sense `AlongLifts` asks for: a lane of `n > 0` bytes
goes to a 1-D array of `8·n` bits and comes back -/
theorem lane_pair (o : BitOrder) (l : List Nat) (hl : l ≠ []) (h : ∀ b ∈ l, b < 256) :
    (unpackFlat o l).length = 8 * l.length ∧
    unpackLane o none (Arr.flat l) = .ok (Arr.flat (unpackFlat o l)) ∧
    packLane o (Arr.flat (unpackFlat o l)) = .ok (Arr.flat l) := by
  have hn : l.length ≠ 0 := by simpa using hl
  have he : (Arr.flat l).isEmpty = false := by simpa [Arr.isEmpty, Arr.flat] using hl
  have hu : (Arr.flat (unpackFlat o l)).isEmpty = false := by
    have := unpackFlat_length o l
    simp only [Arr.isEmpty, Arr.flat, beq_eq_false_iff_ne, ne_eq]; omega
  refine ⟨unpackFlat_length o l, ?_, ?_⟩
  · simp only [unpackLane, he, Bool.false_eq_true, if_false]
    simpa [Arr.flat] using unpack_flat_arr o (Arr.flat l)
  · simp only [packLane, hu, Bool.false_eq_true, if_false, packFlatArr]
    simp only [Arr.flat, pack_unpack_flat o l h, Res.bind_ok]

/-- the length along an in-range axis of a non-empty well-formed array is positive -/
theorem axis_len_pos (a : Arr Nat) (k : Nat) (hwf : a.WF) (hk : k < a.ndim) (hne : a.isEmpty = false) :
    0 < a.shape.getD k 0 := by
  have hlen : a.elems.length = (a.shape.take k).prod * a.shape.getD k 0 * (a.shape.drop (k + 1)).prod := by
    rw [hwf]; exact prod_split a.shape k hk
  have : a.elems.length ≠ 0 := by simpa [Arr.isEmpty] using hne
  apply Nat.pos_of_ne_zero
  intro h0; rw [h0] at hlen; simp at hlen; exact this (by simp [hlen])

/-- **round trip along an axis**, for any `apply_along_axis` satisfying `AlongLifts`: same axis, same order ⇒
the original bytes *and shape* -/
theorem pack_unpack_axis_of_lifts (along : Along) (a : Arr Nat) (ax : Int) (ord : Option Spelling) (o : BitOrder)
    (ho : optOrder ord = .ok o) (hwf : a.WF) (hk : normalizeAxis a.ndim ax < a.ndim) (hne : a.isEmpty = false)
    (h : ∀ b ∈ a.elems, b < 256) (hal : AlongLifts along a (normalizeAxis a.ndim ax)) :
    (unpackBits along a (some ax) none ord >>= fun u => packBits along u (some ax) ord) = .ok a := by
  have hn := axis_len_pos a _ hwf hk hne
  have hne' : ∀ (l : List Nat) (n : Nat), 0 < n → l.length = n → l ≠ [] :=
    fun l n hn hl e => by have h0 : l.length = 0 := (by simp [e]); omega
  obtain ⟨u, hu, hnd, hue, hback⟩ := hal (unpackLane o none) (packLane o) (8 * a.shape.getD (normalizeAxis a.ndim ax) 0)
    (by omega)
    (fun l hl hmem => by
      obtain ⟨h1, h2, h3⟩ := lane_pair o l (hne' l _ hn hl) (fun b hb => h b (hmem b hb))
      exact ⟨unpackFlat o l, by rw [h1, hl], h2, h3⟩)
    (fun l hl => ⟨_, unpackLane_flat o l (hne' l _ hn hl), by simp [Arr.flat, unpackFlat_length, hl]⟩)
    (fun l hl => by
      obtain ⟨r, _, hr2, hr3⟩ := packLane_flat o l (hne' l _ (by omega) hl)
      exact ⟨_, hr3, by simp only [Arr.flat]; rw [hr2, hl]; omega⟩)
  rw [unpackBits_axis along a ax none ord o ho hk hne, hu]
  simp only [Res.bind_ok]
  rw [packBits_axis along u ax ord o ho (by rw [hnd]; exact hk) hue, hnd]
  exact hback

/-- a well-formed array without a zero-length axis is not empty -/
theorem not_empty_of_no_zero_axis (a : Arr Nat) (hwf : a.WF) (hnz : 0 ∉ a.shape) : a.isEmpty = false := by
  have : 0 < a.shape.prod := prod_pos_of_not_mem _ hnz
  rw [← hwf] at this
  simp only [Arr.isEmpty, beq_eq_false_iff_ne, ne_eq]; omega

/-- **C19, axis form, on the model of the crate's own `apply_along_axis` pipeline**: packing what was unpacked
along the same axis with the same order returns the original bytes and the original shape — every rank, every
axis (either spelling), both orders (any accepted spelling), all byte values. -/
theorem pack_unpack_axis (a : Arr Nat) (ax : Int) (ord : Option Spelling) (o : BitOrder)
    (ho : optOrder ord = .ok o) (hwf : a.WF) (hnz : 0 ∉ a.shape) (hk : normalizeAxis a.ndim ax < a.ndim)
    (h : ∀ b ∈ a.elems, b < 256) :
    (unpackBits alongPipe a (some ax) none ord >>= fun u => packBits alongPipe u (some ax) ord) = .ok a :=
  pack_unpack_axis_of_lifts alongPipe a ax ord o ho hwf hk (not_empty_of_no_zero_axis a hwf hnz) h
    (alongPipe_lifts a _ hwf hk hnz)

/-- **unpacking along an axis, per coordinate** (pipeline model): the axis becomes eight times as long, the other
axes are kept, and the element at coordinate `c` is bit `c[axis]` of the flat unpacking of the lane through `c` —
i.e. bit `c[axis] % 8` of the byte at position `c[axis] / 8` of that lane (`unpack_flat_at`). -/
theorem unpack_axis_at (a : Arr Nat) (ax : Int) (ord : Option Spelling) (o : BitOrder)
    (ho : optOrder ord = .ok o) (hwf : a.WF) (hnz : 0 ∉ a.shape) (hk : normalizeAxis a.ndim ax < a.ndim) :
    ∃ u, unpackBits alongPipe a (some ax) none ord = .ok u ∧
      u.shape = a.shape.set (normalizeAxis a.ndim ax) (8 * a.shape.getD (normalizeAxis a.ndim ax) 0) ∧ u.WF ∧
      ∀ c, inRange u.shape c = true →
        u.get? c = (unpackFlat o (laneOf a (normalizeAxis a.ndim ax) c))[c.getD (normalizeAxis a.ndim ax) 0]? := by
  have hne := not_empty_of_no_zero_axis a hwf hnz
  have hn := axis_len_pos a _ hwf hk hne
  have hne' : ∀ (l : List Nat), l.length = a.shape.getD (normalizeAxis a.ndim ax) 0 → l ≠ [] :=
    fun l hl e => by have h0 : l.length = 0 := (by simp [e]); omega
  obtain ⟨u, hu, hs, huwf, hget⟩ := applyAlongAxis_spec a 0 0 (normalizeAxis a.ndim ax)
    (8 * a.shape.getD (normalizeAxis a.ndim ax) 0) (unpackLane o none) hwf hk hnz
    (fun l hl => ⟨_, unpackLane_flat o l (hne' l hl), by simp [Arr.flat, unpackFlat_length, hl]⟩)
  refine ⟨u, by rw [unpackBits_axis alongPipe a ax none ord o ho hk hne]; exact hu, hs, huwf, ?_⟩
  intro c hc
  obtain ⟨y, hy1, hy2⟩ := hget c hc
  have hL : (laneOf a (normalizeAxis a.ndim ax) c).length = a.shape.getD (normalizeAxis a.ndim ax) 0 :=
    laneOf_length a _ _ c hwf (by rw [← hs]; exact hc)
  rw [unpackLane_flat o _ (hne' _ hL)] at hy1
  cases hy1
  exact hy2

/-- **packing along an axis, per coordinate** (pipeline model): the axis shrinks to `⌈n / 8⌉`, and the element at
coordinate `c` is byte `c[axis]` of the flat packing of the lane through `c` -/
theorem pack_axis_at (a : Arr Nat) (ax : Int) (ord : Option Spelling) (o : BitOrder)
    (ho : optOrder ord = .ok o) (hwf : a.WF) (hnz : 0 ∉ a.shape) (hk : normalizeAxis a.ndim ax < a.ndim) :
    ∃ u, packBits alongPipe a (some ax) ord = .ok u ∧
      u.shape = a.shape.set (normalizeAxis a.ndim ax) ((a.shape.getD (normalizeAxis a.ndim ax) 0 + 7) / 8) ∧ u.WF ∧
      ∀ c, inRange u.shape c = true → ∃ r, packFlat o (laneOf a (normalizeAxis a.ndim ax) c) = .ok r ∧
        u.get? c = r[c.getD (normalizeAxis a.ndim ax) 0]? := by
  have hne := not_empty_of_no_zero_axis a hwf hnz
  have hn := axis_len_pos a _ hwf hk hne
  have hne' : ∀ (l : List Nat), l.length = a.shape.getD (normalizeAxis a.ndim ax) 0 → l ≠ [] :=
    fun l hl e => by have h0 : l.length = 0 := (by simp [e]); omega
  obtain ⟨u, hu, hs, huwf, hget⟩ := applyAlongAxis_spec a 0 0 (normalizeAxis a.ndim ax)
    ((a.shape.getD (normalizeAxis a.ndim ax) 0 + 7) / 8) (packLane o) hwf hk hnz
    (fun l hl => by
      obtain ⟨r, _, hr2, hr3⟩ := packLane_flat o l (hne' l hl)
      exact ⟨_, hr3, by simp only [Arr.flat]; rw [hr2, hl]⟩)
  refine ⟨u, by rw [packBits_axis alongPipe a ax ord o ho hk hne]; exact hu, hs, huwf, ?_⟩
  intro c hc
  obtain ⟨y, hy1, hy2⟩ := hget c hc
  have hL : (laneOf a (normalizeAxis a.ndim ax) c).length = a.shape.getD (normalizeAxis a.ndim ax) 0 :=
    laneOf_length a _ _ c hwf (by rw [← hs]; exact hc)
  obtain ⟨r, hr1, _, hr3⟩ := packLane_flat o _ (hne' _ hL)
  rw [hr3] at hy1
  cases hy1
  exact ⟨r, hr1, hy2⟩

/-- an axis outside the rank is an error value in both operations — for every array, empty ones included, and
whatever `apply_along_axis` is: the axis is validated before the empty-array shortcut and before any lane work
(commit 97c65b7) -/
theorem axis_out_of_range (along : Along) (a : Arr Nat) (ax : Int) (count : Option Int) (ord : Option Spelling)
    (o : BitOrder) (ho : optOrder ord = .ok o) (hk : a.ndim ≤ normalizeAxis a.ndim ax) :
    unpackBits along a (some ax) count ord = .err .AxisOutOfBounds ∧
    packBits along a (some ax) ord = .err .AxisOutOfBounds := by
  simp only [unpackBits, packBits, ho, axisCheck_err _ _ hk, and_self]

/-- the empty-array shortcut, reached only with an accepted order and an axis inside the rank (or the flat form):
both operations answer `Array::empty()` -/
theorem empty_after_validation (along : Along) (a : Arr Nat) (axis count : Option Int) (ord : Option Spelling)
    (o : BitOrder) (ho : optOrder ord = .ok o) (he : a.isEmpty = true)
    (hax : ∀ ax, axis = some ax → normalizeAxis a.ndim ax < a.ndim) :
    unpackBits along a axis count ord = .ok ⟨[], [0]⟩ ∧ packBits along a axis ord = .ok ⟨[], [0]⟩ := by
  cases axis with
  | none => simp [unpackBits, packBits, ho, axisCheck, he]
  | some ax => simp [unpackBits, packBits, ho, axisCheck_ok _ _ (hax ax rfl), he]

/-- **round trip along every axis for the reference lane semantics** -/
theorem pack_unpack_axis_ref (a : Arr Nat) (ax : Int) (ord : Option Spelling) (o : BitOrder)
    (ho : optOrder ord = .ok o) (hwf : a.WF) (hk : normalizeAxis a.ndim ax < a.ndim) (hne : a.isEmpty = false)
    (h : ∀ b ∈ a.elems, b < 256) :
    (unpackBits alongRef a (some ax) none ord >>= fun u => packBits alongRef u (some ax) ord) = .ok a :=
  pack_unpack_axis_of_lifts alongRef a ax ord o ho hwf hk hne h (alongRef_lifts a _ hwf hk hne)

/-- **what unpacking along an axis is** (reference lane semantics): the axis becomes eight times as long, every
other axis is kept, and every lane along the axis is replaced by its flat unpacking -/
theorem unpack_axis_ref (a : Arr Nat) (ax : Int) (ord : Option Spelling) (o : BitOrder)
    (ho : optOrder ord = .ok o) (hwf : a.WF) (hk : normalizeAxis a.ndim ax < a.ndim) (hne : a.isEmpty = false) :
    let k := normalizeAxis a.ndim ax
    let O := (a.shape.take k).prod
    let n := a.shape.getD k 0
    let I := (a.shape.drop (k + 1)).prod
    unpackBits alongRef a (some ax) none ord =
      .ok ⟨unlanes ((lanes a.elems O n I).map (unpackFlat o)) O (8 * n) I, a.shape.set k (8 * n)⟩ := by
  intro k O n I
  have hn : 0 < n := axis_len_pos a _ hwf hk hne
  rw [unpackBits_axis alongRef a ax none ord o ho hk hne]
  exact alongRef_ok a k hwf hk hne (unpackLane o none) (unpackFlat o) (8 * n) (fun l hl => by
    have hl' : l.length = n := hl
    have hl0 : l ≠ [] := fun e => by have h0 : l.length = 0 := (by simp [e]); omega
    have he : (Arr.flat l).isEmpty = false := by simpa [Arr.isEmpty, Arr.flat] using hl0
    refine ⟨?_, by rw [unpackFlat_length, hl']⟩
    simp only [unpackLane, he, Bool.false_eq_true, if_false]
    simpa [Arr.flat] using unpack_flat_arr o (Arr.flat l))

/-- an axis outside the rank is an error value in both operations (reference lane semantics; instance of
`axis_out_of_range`, kept under its old name) -/
theorem axis_out_of_range_ref (a : Arr Nat) (ax : Int) (count : Option Int) (ord : Option Spelling) (o : BitOrder)
    (ho : optOrder ord = .ok o) (hk : a.ndim ≤ normalizeAxis a.ndim ax) :
    unpackBits alongRef a (some ax) count ord = .err .AxisOutOfBounds ∧
    packBits alongRef a (some ax) ord = .err .AxisOutOfBounds :=
  axis_out_of_range alongRef a ax count ord o ho hk

/-! ## the `count` argument (repaired negative arm) -/

/-- `count ≥ 0` keeps the first `count` bits; more than there are is an error -/
theorem unpack_count_nonneg (o : BitOrder) (a : Arr Nat) (c : Nat) :
    unpackFlatArr o (some (Int.ofNat c)) a =
      if c ≤ 8 * a.elems.length then .ok (Arr.flat ((unpackFlat o a.elems).take c)) else .err .OutOfBounds := by
  unfold unpackFlatArr
  simp only [Option.getD_some]
  rw [if_pos (by simp)]
  have : (Int.ofNat c).toNat = c := by simp
  rw [this]
  split
  · exact slice1_ok _ _ (by rw [unpackFlat_length]; assumption)
  · exact slice1_err _ _ (by rw [unpackFlat_length]; omega)

/-- `count < 0` trims `|count|` bits off the end; trimming more than there are is an error.  (The pinned code
subtracts the wrapped cast from the *byte* count instead: fixes/C19-unpack-negative-count.) -/
theorem unpack_count_neg (o : BitOrder) (a : Arr Nat) (c : Nat) (hc : 0 < c) :
    unpackFlatArr o (some (-(Int.ofNat c))) a =
      if c ≤ 8 * a.elems.length then .ok (Arr.flat ((unpackFlat o a.elems).take (8 * a.elems.length - c)))
      else .err .OutOfBounds := by
  have hneg : ¬ (-(Int.ofNat c) ≥ 0) := by simp; omega
  have habs : (-(Int.ofNat c)).natAbs = c := by simp
  simp only [unpackFlatArr, Option.getD_some, hneg, if_false, habs, unpackFlat_length]
  by_cases h : c ≤ 8 * a.elems.length
  · rw [if_neg (by omega), if_pos h]
    exact slice1_ok _ _ (by rw [unpackFlat_length]; omega)
  · rw [if_pos (by omega), if_neg h]

/-- **`count` undoes the padding**: unpacking the packed bits with `count` = the original number of bits
returns exactly the original bits, whatever their number -/
theorem unpack_count_undoes_padding (o : BitOrder) (xs : List Nat) (hb : ∀ x ∈ xs, x < 2) :
    (packFlat o xs >>= fun bs => unpackFlatArr o (some (Int.ofNat xs.length)) (Arr.flat bs)) = .ok (Arr.flat xs) := by
  obtain ⟨bs, h1, h2⟩ := res_map_ok _ _ _ (unpack_pack_flat o xs hb)
  rw [h1]; simp only [Res.bind_ok]
  rw [unpack_count_nonneg]
  have hl : 8 * bs.length = (pad8 xs).length := by rw [← h2, unpackFlat_length]
  have hle : xs.length ≤ (pad8 xs).length := by unfold pad8; split <;> simp
  have : (Arr.flat bs).elems = bs := rfl
  rw [this, if_pos (by omega), h2, take_pad8]

/-- whatever the `count`, the flat form answers with a value or an error value, never a panic -/
theorem unpack_count_never_panics (o : BitOrder) (a : Arr Nat) (count : Option Int) :
    unpackFlatArr o count a ≠ .panic := by
  unfold unpackFlatArr slice1
  simp only
  split
  · split <;> simp
  · split
    · simp
    · split <;> simp

/-! ## `binary_repr` -/

/-- **the binary text of a natural number parses back to it** (`from_str_radix(·, 2)`) -/
theorem binaryRepr_parse (n : Nat) : parseRadix2 (binaryRepr n) = some n := by
  unfold binaryRepr
  rw [parseRadix2_digits _ (by unfold binaryDigits; simpa using reprLoop_ne_nil n n)
    (by unfold binaryDigits; intro d hd; exact reprLoop_digits _ _ d (by simpa using hd)),
    binaryDigits_value]

/-- … also with the overflow check of a `w`-bit unsigned type -/
theorem binaryRepr_parse_unsigned (w n : Nat) (h : n < 2 ^ w) : parseRadix2U w (binaryRepr n) = some n := by
  simp [parseRadix2U, binaryRepr_parse, h]

/-- **a value of a `w`-bit signed type**: the text is the two's-complement pattern; parsed as the unsigned
`w`-bit type and reinterpreted as signed it is the value again (negative values included) -/
theorem binaryReprSigned_parse (w : Nat) (v : Int) (hw : 0 < w)
    (hlo : -(2 ^ (w - 1) : Int) ≤ v) (hhi : v < (2 ^ (w - 1) : Int)) :
    (parseRadix2U w (binaryReprSigned w v)).map (toSigned w) = some v := by
  -- name the powers: P = 2^(w-1), 2^w = 2P
  obtain ⟨P, hP⟩ : ∃ P : Nat, 2 ^ (w - 1) = P := ⟨_, rfl⟩
  have hPpos : 0 < P := by rw [← hP]; exact Nat.two_pow_pos _
  have hW : 2 ^ w = 2 * P := by rw [← hP]; exact two_pow_pred w hw
  have hPi : (2 ^ (w - 1) : Int) = (P : Int) := by rw [← hP]; simp
  have hWi : (2 ^ w : Int) = 2 * (P : Int) := by
    have : ((2 ^ w : Nat) : Int) = ((2 * P : Nat) : Int) := by rw [hW]
    simpa using this
  rw [hPi] at hlo hhi
  -- the bit pattern
  have hmod : v % (2 ^ w : Int) = if 0 ≤ v then v else v + 2 * (P : Int) := by
    rw [hWi]
    split
    · exact Int.emod_eq_of_lt (by assumption) (by omega)
    · rw [← Int.add_emod_right, Int.emod_eq_of_lt (by omega) (by omega)]
  obtain ⟨u, hu⟩ : ∃ u : Nat, (v % (2 ^ w : Int)).toNat = u := ⟨_, rfl⟩
  have hui : (u : Int) = if 0 ≤ v then v else v + 2 * (P : Int) := by
    rw [← hmod, ← hu]; exact Int.toNat_of_nonneg (by rw [hmod]; split <;> omega)
  have hult : u < 2 ^ w := by rw [hW]; split at hui <;> omega
  unfold binaryReprSigned
  rw [hu, binaryRepr_parse_unsigned w u hult]
  simp only [Option.map_some, Option.some.injEq, toSigned, hP, hWi]
  split at hui <;> split <;> simp only [Int.ofNat_eq_natCast] <;> omega

/-! ## non-vacuity -/

example : unpackByte .big 23 = [0, 0, 0, 1, 0, 1, 1, 1] ∧ unpackByte .little 23 = [1, 1, 1, 0, 1, 0, 0, 0] := by decide
example : packFlat .big [0, 0, 0, 1, 0, 1, 1, 1, 1] = .ok [23, 128] ∧ packFlat .little [0, 0, 0, 1, 0, 1, 1, 1, 1] = .ok [232, 1] := by decide
example : packFlat .big [0, 0, 0, 1, 0, 1, 1, 1, 1] = packFlat .big [0, 0, 0, 1, 0, 1, 1, 1, 1, 0, 0, 0, 0, 0, 0, 0] := by decide
example : unpackBits alongRef ⟨[2, 3, 5], [3, 1]⟩ (some 1) none none
    = .ok ⟨[0, 0, 0, 0, 0, 0, 1, 0, 0, 0, 0, 0, 0, 0, 1, 1, 0, 0, 0, 0, 0, 1, 0, 1], [3, 8]⟩ := by decide
example : (unpackBits alongRef ⟨[1, 200, 37, 255], [2, 2]⟩ (some 0) none (some (.text ['l', 'i', 't', 't', 'l', 'e'])) >>= fun u =>
    packBits alongRef u (some 0) (some (.enum .little))) = .ok ⟨[1, 200, 37, 255], [2, 2]⟩ := by decide
example : unpackFlatArr .big (some (-3)) ⟨[2, 3, 5], [3]⟩ = .ok (Arr.flat [0, 0, 0, 0, 0, 0, 1, 0, 0, 0, 0, 0, 0, 0, 1, 1, 0, 0, 0, 0, 0]) := by decide
example : unpackFlatArr .big (some (-25)) ⟨[2, 3, 5], [3]⟩ = .err .OutOfBounds := by decide
example : toBitOrder (.text ['B', 'i', 'g']) = .err .ParameterError := by decide
-- empty arrays: unknown order / axis outside the rank are refused, an accepted call gives the empty 1-D array
example : packBits alongRef ⟨[], [0]⟩ (some 1) (some (.enum .little)) = .err .AxisOutOfBounds := by decide
example : unpackBits alongRef ⟨[], [0, 2]⟩ none none (some (.text ['b', 'o', 'g'])) = .err .ParameterError := by decide
example : unpackBits alongRef ⟨[], [2, 0]⟩ (some (-1)) none none = .ok ⟨[], [0]⟩ := by decide
example : binaryRepr 10 = ['1', '0', '1', '0'] ∧ binaryRepr 0 = ['0'] := by decide
example : binaryReprSigned 8 (-3) = ['1', '1', '1', '1', '1', '1', '0', '1'] := by decide
example : (-(2 ^ (8 - 1) : Int) ≤ -128) ∧ ((-128 : Int) < 2 ^ (8 - 1)) := by decide

/-! ## extension round — empty arrays and zero-length axes (complete outcome, never a panic) -/

/-- **arrays without elements, complete outcome of both operations**, whatever `apply_along_axis` is, whatever the
count, for every axis and order option (no side condition): the order option is judged first (`ParameterError`), the axis
second (`AxisOutOfBounds`), and only then the answer is `Array::empty()` — the 1-D array of shape `[0]`, NOT the input
shape (`emptyAnswer`, `Lemmas/C19Ext.lean`; `orderAccepted` / `axisAccepted` are characterised by `order_accepted_iff` /
`axis_accepted_iff` below) -/
theorem empty_outcome (along : Along) (a : Arr Nat) (he : a.isEmpty = true) (axis count : Option Int)
    (ord : Option Spelling) :
    unpackBits along a axis count ord = emptyAnswer a.ndim axis ord ∧
    packBits along a axis ord = emptyAnswer a.ndim axis ord :=
  ⟨unpackBits_of_isEmpty along a he axis count ord, packBits_of_isEmpty along a he axis ord⟩

/-- … in particular for every well-formed array with a zero-length axis (any rank, any position of the zero) -/
theorem zero_axis_outcome (along : Along) (a : Arr Nat) (hwf : a.WF) (h0 : 0 ∈ a.shape) (axis count : Option Int)
    (ord : Option Spelling) :
    unpackBits along a axis count ord = emptyAnswer a.ndim axis ord ∧
    packBits along a axis ord = emptyAnswer a.ndim axis ord :=
  empty_outcome along a (isEmpty_of_zero_mem a hwf h0) axis count ord

/-- for well-formed arrays the shortcut `is_empty()` fires exactly on the arrays with a zero-length axis -/
theorem empty_iff_zero_axis (a : Arr Nat) (hwf : a.WF) : a.isEmpty = true ↔ 0 ∈ a.shape := isEmpty_iff_zero_mem a hwf

/-- the order option is accepted exactly when `to_bit_order` answers a value (absent, either enum value, or a text of the
table, `toBitOrder_text_ok_iff`) -/
theorem order_accepted_iff (ord : Option Spelling) : orderAccepted ord = true ↔ ∃ o, optOrder ord = .ok o :=
  orderAccepted_iff ord

/-- the axis option is accepted exactly when it is absent or `-rank ≤ axis < rank` (for every `isize` axis; ranks below
`2^63`) -/
theorem axis_accepted_iff (ndim : Nat) (ax : Int) (hnd : ndim < 2 ^ 63) (hax : -(2 ^ 63 : Int) ≤ ax) :
    (axisAccepted ndim none = true) ∧
    (axisAccepted ndim (some ax) = true ↔ (-(Int.ofNat ndim) ≤ ax ∧ ax < Int.ofNat ndim)) := by
  refine ⟨rfl, ?_⟩
  simp only [axisAccepted, decide_eq_true_eq]
  exact normalizeAxis_lt_iff ndim ax hnd hax

/-- **the round trip on an array without elements, complete outcome**: the unpacked value is the 1-D empty array, so
`pack_bits` validates the SAME axis against rank 1 — an axis other than `0` / `-1` (accepted for the input of rank ≥ 2)
is refused there -/
theorem roundtrip_empty (along : Along) (a : Arr Nat) (he : a.isEmpty = true) (axis count : Option Int)
    (ord : Option Spelling) :
    (unpackBits along a axis count ord >>= fun u => packBits along u axis ord) =
      if orderAccepted ord = false then .err .ParameterError
      else if axisAccepted a.ndim axis = false ∨ axisAccepted 1 axis = false then .err .AxisOutOfBounds
      else .ok ⟨[], [0]⟩ := by
  rw [unpackBits_of_isEmpty along a he]
  unfold emptyAnswer
  cases ho : orderAccepted ord with
  | false => simp
  | true =>
    cases h1 : axisAccepted a.ndim axis with
    | false => simp
    | true =>
      simp only [Bool.true_eq_false, if_false, Res.bind_ok, false_or]
      rw [packBits_of_isEmpty along ⟨[], [0]⟩ rfl]
      simp [emptyAnswer, ho, Arr.ndim]

/-- instance: on a well-formed array with a zero-length axis the round trip along an inner axis `ax ≥ 1` (in range for the
array) is an `AxisOutOfBounds` error value — not the input, not a panic -/
theorem roundtrip_zero_axis_inner (along : Along) (a : Arr Nat) (hwf : a.WF) (h0 : 0 ∈ a.shape) (ax : Int) (h1 : 1 ≤ ax)
    (count : Option Int) (ord : Option Spelling) (o : BitOrder) (ho : optOrder ord = .ok o) :
    (unpackBits along a (some ax) count ord >>= fun u => packBits along u (some ax) ord) = .err .AxisOutOfBounds := by
  rw [roundtrip_empty along a (isEmpty_of_zero_mem a hwf h0)]
  have hacc : orderAccepted ord = true := (orderAccepted_iff ord).2 ⟨o, ho⟩
  have hn1 : ¬ normalizeAxis 1 ax < 1 := by
    unfold normalizeAxis; rw [if_neg (by omega)]; omega
  have h2 : axisAccepted 1 (some ax) = false := by simp [axisAccepted, hn1]
  simp [hacc, h2]

/-- **never a panic, total**: on the model of the crate's own `apply_along_axis` pipeline, for EVERY well-formed byte
array (zero-length axes included), every axis, count and order option, `unpack_bits` answers `Ok` with a well-formed
array or `Err` -/
theorem unpack_total (a : Arr Nat) (hwf : a.WF) (axis count : Option Int) (ord : Option Spelling) :
    (∃ u, unpackBits alongPipe a axis count ord = .ok u ∧ u.WF) ∨ (∃ e, unpackBits alongPipe a axis count ord = .err e) :=
  unpackBits_pipe_total a hwf axis count ord

/-- the same for `pack_bits` (any element values) -/
theorem pack_total (a : Arr Nat) (hwf : a.WF) (axis : Option Int) (ord : Option Spelling) :
    (∃ u, packBits alongPipe a axis ord = .ok u ∧ u.WF) ∨ (∃ e, packBits alongPipe a axis ord = .err e) :=
  packBits_pipe_total a hwf axis ord

theorem unpack_never_panics (a : Arr Nat) (hwf : a.WF) (axis count : Option Int) (ord : Option Spelling) :
    unpackBits alongPipe a axis count ord ≠ .panic := by
  rcases unpack_total a hwf axis count ord with ⟨u, h, _⟩ | ⟨e, h⟩ <;> rw [h] <;> exact fun h => nomatch h

theorem pack_never_panics (a : Arr Nat) (hwf : a.WF) (axis : Option Int) (ord : Option Spelling) :
    packBits alongPipe a axis ord ≠ .panic := by
  rcases pack_total a hwf axis ord with ⟨u, h, _⟩ | ⟨e, h⟩ <;> rw [h] <;> exact fun h => nomatch h

/-- … and for the chained round trip (even with different axis / order options in the two calls) -/
theorem roundtrip_never_panics (a : Arr Nat) (hwf : a.WF) (axis axis' count : Option Int) (ord ord' : Option Spelling) :
    (unpackBits alongPipe a axis count ord >>= fun u => packBits alongPipe u axis' ord') ≠ .panic := by
  rcases unpack_total a hwf axis count ord with ⟨u, h, huwf⟩ | ⟨e, h⟩
  · rw [h]; exact pack_never_panics u huwf axis' ord'
  · rw [h]; exact fun h => nomatch h

/-- **the shortcut decides**: on a well-formed array with a zero-length axis the lane pipeline itself (the crate's
`apply_along_axis` with the very lane closures of the two operations) would answer `ParameterError` when an axis other
than the processed one has length 0 and the INPUT array otherwise (`C08Empty`: `applyAlongAxis_other_zero`,
`applyAlongAxis_axis_zero`) — never the `[0]`-shaped `Array::empty()` that `zero_axis_outcome` states; so dropping or
moving the shortcut changes the answer on every such array -/
theorem lanes_on_zero_axis (a : Arr Nat) (hwf : a.WF) (k : Nat) (hk : k < a.ndim) (h0 : 0 ∈ a.shape) (o : BitOrder)
    (count : Option Int) :
    alongPipe a k (unpackLane o count) = (if 0 ∈ a.shape.eraseIdx k then .err .ParameterError else .ok a) ∧
    alongPipe a k (packLane o) = (if 0 ∈ a.shape.eraseIdx k then .err .ParameterError else .ok a) :=
  ⟨alongPipe_zero_axis a hwf k hk h0 _ (unpackLane_nil o count), alongPipe_zero_axis a hwf k hk h0 _ (packLane_nil o)⟩

/-! ## extension round — `count`, for every count, flat and by axis -/

/-- what `countKeep` (`Lemmas/C19Ext.lean`) is: absent keeps all `total` bits; `c ≥ 0` keeps the first `c` and is refused
beyond `total`; `-c < 0` keeps all but the last `c` and is refused when `c > total` -/
theorem count_keep_spec (total : Nat) :
    countKeep total none = some total ∧
    (∀ c : Nat, countKeep total (some (Int.ofNat c)) = if c ≤ total then some c else none) ∧
    (∀ c : Nat, 0 < c → countKeep total (some (-(Int.ofNat c))) = if c ≤ total then some (total - c) else none) := by
  refine ⟨rfl, fun c => ?_, fun c hc => ?_⟩
  · simp [countKeep]
  · have hneg : ¬ (0 ≤ -(Int.ofNat c)) := by simp; omega
    have habs : (-(Int.ofNat c)).natAbs = c := by simp
    simp only [countKeep, if_neg hneg, habs]

/-- **`count` in the flat form, every count** (through the whole operation: accepted order, non-empty array): the result
is the 1-D array of the first `m` bits of the full unpacking, `m = countKeep (8·len) count`, or the `OutOfBounds` error
value when the count is refused — `count = 0` and `count = -8·len` give the empty 1-D array, `count = 8·len` the same as
no count -/
theorem unpack_count_flat (along : Along) (a : Arr Nat) (count : Option Int) (ord : Option Spelling) (o : BitOrder)
    (ho : optOrder ord = .ok o) (hne : a.isEmpty = false) :
    unpackBits along a none count ord =
      match countKeep (8 * a.elems.length) count with
      | some m => .ok (Arr.flat ((unpackFlat o a.elems).take m))
      | none => .err .OutOfBounds := by
  rw [unpackBits_flat along a count ord o ho hne]
  exact unpackFlatArr_count o count a

/-- **`count` along an axis, every accepted count** (pipeline model): the count applies to every lane separately —
`m = countKeep (8·n) count` with `n` the length of the axis — the axis takes length `m`, the other axes are kept, and the
element at `c` is bit `c[axis]` of the flat unpacking of the lane through `c`: the result is the prefix of length `m`
along the axis of the unpacking without count (`unpack_axis_at`) -/
theorem unpack_count_axis_ok (a : Arr Nat) (ax : Int) (count : Option Int) (ord : Option Spelling) (o : BitOrder) (m : Nat)
    (ho : optOrder ord = .ok o) (hwf : a.WF) (hnz : 0 ∉ a.shape) (hk : normalizeAxis a.ndim ax < a.ndim)
    (hm : countKeep (8 * a.shape.getD (normalizeAxis a.ndim ax) 0) count = some m) :
    ∃ u, unpackBits alongPipe a (some ax) count ord = .ok u ∧
      u.shape = a.shape.set (normalizeAxis a.ndim ax) m ∧ u.WF ∧
      ∀ c, inRange u.shape c = true →
        u.get? c = (unpackFlat o (laneOf a (normalizeAxis a.ndim ax) c))[c.getD (normalizeAxis a.ndim ax) 0]? := by
  have hne := not_empty_of_no_zero_axis a hwf hnz
  have hn := axis_len_pos a _ hwf hk hne
  have hk' : normalizeAxis a.ndim ax < a.shape.length := hk
  have hle := countKeep_le _ _ _ hm
  have hne' : ∀ (l : List Nat), l.length = a.shape.getD (normalizeAxis a.ndim ax) 0 → l ≠ [] :=
    fun l hl e => by have h0 : l.length = 0 := (by simp [e]); omega
  have hlane : ∀ l : List Nat, l.length = a.shape.getD (normalizeAxis a.ndim ax) 0 →
      unpackLane o count (Arr.flat l) = .ok (Arr.flat ((unpackFlat o l).take m)) := by
    intro l hl
    rw [unpackLane_count_flat o count l (hne' l hl), hl, hm]
  obtain ⟨u, hu, hs, huwf, hget⟩ := applyAlongAxis_spec a 0 0 (normalizeAxis a.ndim ax) m (unpackLane o count) hwf hk hnz
    (fun l hl => ⟨_, hlane l hl, by simp only [Arr.flat, List.length_take, unpackFlat_length, hl]; omega⟩)
  refine ⟨u, by rw [unpackBits_axis alongPipe a ax count ord o ho hk hne]; exact hu, hs, huwf, ?_⟩
  intro c hc
  obtain ⟨y, hy1, hy2⟩ := hget c hc
  have hL : (laneOf a (normalizeAxis a.ndim ax) c).length = a.shape.getD (normalizeAxis a.ndim ax) 0 :=
    laneOf_length a _ _ c hwf (by rw [← hs]; exact hc)
  rw [hlane _ hL] at hy1
  cases hy1
  have hck : c.getD (normalizeAxis a.ndim ax) 0 < m := by
    have := inRange_getD_lt u.shape c (normalizeAxis a.ndim ax) hc (by rw [hs, List.length_set]; exact hk')
    rwa [hs, getD_set_self _ _ _ hk'] at this
  rw [hy2]
  simp only [Arr.flat, List.getElem?_take, hck, if_true]

/-- **`count` along an axis, every refused count**: more than the `8·n` bits of a lane (either sign) is the `OutOfBounds`
error value — for every rank, axis, order -/
theorem unpack_count_axis_err (a : Arr Nat) (ax : Int) (count : Option Int) (ord : Option Spelling) (o : BitOrder)
    (ho : optOrder ord = .ok o) (hwf : a.WF) (hnz : 0 ∉ a.shape) (hk : normalizeAxis a.ndim ax < a.ndim)
    (hm : countKeep (8 * a.shape.getD (normalizeAxis a.ndim ax) 0) count = none) :
    unpackBits alongPipe a (some ax) count ord = .err .OutOfBounds := by
  have hne := not_empty_of_no_zero_axis a hwf hnz
  have hn := axis_len_pos a _ hwf hk hne
  rw [unpackBits_axis alongPipe a ax count ord o ho hk hne]
  apply applyAlongAxis_all_err a 0 0 _ _ _ hwf hk hnz
  intro l hl
  have hl0 : l ≠ [] := fun e => by have h0 : l.length = 0 := (by simp [e]); omega
  rw [unpackLane_count_flat o count l hl0, hl, hm]

/-! ## extension round — `binary_repr`: canonical form, every width -/

/-- **the text is canonical**: for a positive value it starts with `1` (no leading zeros, no sign, no prefix) and has
exactly as many characters as the value needs, `2^(len-1) ≤ n < 2^len`; zero is `"0"` -/
theorem binaryRepr_canonical (n : Nat) (hn : 0 < n) :
    (binaryRepr n).head? = some '1' ∧
    2 ^ ((binaryRepr n).length - 1) ≤ n ∧ n < 2 ^ (binaryRepr n).length := by
  refine ⟨?_, ?_⟩
  · have := reprLoop_getLast (n + 1) n hn (by omega)
    simp only [binaryRepr, binaryDigits, List.head?_map, List.head?_reverse, this]
    rfl
  · rw [binaryRepr_length]; exact reprLoop_length_bounds (n + 1) n hn (by omega)

/-- different values have different texts -/
theorem binaryRepr_injective (m n : Nat) (h : binaryRepr m = binaryRepr n) : m = n := by
  have := binaryRepr_parse m
  rw [h, binaryRepr_parse n] at this
  exact (Option.some.inj this).symm

/-- a non-negative value of a `w`-bit signed type prints like the unsigned value (no padding to the width) -/
theorem binaryReprSigned_nonneg (w : Nat) (v : Int) (hw : 0 < w) (h0 : 0 ≤ v) (hhi : v < (2 ^ (w - 1) : Int)) :
    binaryReprSigned w v = binaryRepr v.toNat := by
  obtain ⟨u, hu, _, h1, _⟩ := signed_pattern w v hw (by have : (0 : Int) ≤ 2 ^ (w - 1) := Int.pow_nonneg (by decide); omega) hhi
  unfold binaryReprSigned
  rw [hu]
  congr 1
  have := (h1 h0).1
  omega

/-- **a negative value of a `w`-bit signed type, every width**: the text has exactly `w` characters, starts with `1`, and
its value read as a plain binary number is `v + 2^w ≥ 2^(w-1)` — a minus sign never appears, and the text does not fit
the non-negative range of the same signed type -/
theorem binaryReprSigned_neg (w : Nat) (v : Int) (hw : 0 < w) (hlo : -(2 ^ (w - 1) : Int) ≤ v) (hneg : v < 0) :
    (binaryReprSigned w v).length = w ∧ (binaryReprSigned w v).head? = some '1' ∧
    ∃ u : Nat, parseRadix2 (binaryReprSigned w v) = some u ∧ (u : Int) = v + (2 ^ w : Int) ∧ 2 ^ (w - 1) ≤ u := by
  obtain ⟨u, hu, hlt, _, h2⟩ := signed_pattern w v hw hlo
    (by have : (0 : Int) ≤ 2 ^ (w - 1) := Int.pow_nonneg (by decide); omega)
  obtain ⟨hui, hge⟩ := h2 hneg
  have hpos : 0 < u := Nat.lt_of_lt_of_le (Nat.two_pow_pos _) hge
  obtain ⟨hc1, hc2, hc3⟩ := binaryRepr_canonical u hpos
  unfold binaryReprSigned
  rw [hu]
  exact ⟨pow_window_unique u _ w hc2 hc3 hge hlt, hc1, u, binaryRepr_parse u, hui, hge⟩

/-- **every width at once** (`w ≥ 1`; a 0-bit type does not exist): every value of the `w`-bit unsigned type and every
value of the `w`-bit signed type parses back from its `binary_repr`, and within either type different values have
different texts -/
theorem binaryRepr_every_width (w : Nat) (hw : 0 < w) :
    (∀ n : Nat, n < 2 ^ w → parseRadix2U w (binaryRepr n) = some n) ∧
    (∀ v : Int, -(2 ^ (w - 1) : Int) ≤ v → v < (2 ^ (w - 1) : Int) →
      (parseRadix2U w (binaryReprSigned w v)).map (toSigned w) = some v) ∧
    (∀ v v' : Int, -(2 ^ (w - 1) : Int) ≤ v → v < (2 ^ (w - 1) : Int) → -(2 ^ (w - 1) : Int) ≤ v' →
      v' < (2 ^ (w - 1) : Int) → binaryReprSigned w v = binaryReprSigned w v' → v = v') := by
  refine ⟨fun n h => binaryRepr_parse_unsigned w n h, fun v h1 h2 => binaryReprSigned_parse w v hw h1 h2, ?_⟩
  intro v v' h1 h2 h3 h4 he
  have a := binaryReprSigned_parse w v hw h1 h2
  rw [he, binaryReprSigned_parse w v' hw h3 h4] at a
  exact (Option.some.inj a).symm

/-- **the converse — `binary_repr` is the inverse of parsing on canonical texts**: every non-empty text of binary digits
without a leading zero (or the text `"0"`), given by its digit list, parses to a value whose `binary_repr` is that very
text; with `binaryRepr_parse` the two functions are mutually inverse between the natural numbers and the canonical texts.
(A text with a leading zero parses too, but is not what `binary_repr` prints — example below.) -/
theorem binaryRepr_of_parse (ds : List Nat) (hne : ds ≠ []) (hd : ∀ d ∈ ds, d < 2) (hc : ds = [0] ∨ ds.head? = some 1) :
    ∃ n, parseRadix2 (ds.map digitChar) = some n ∧ binaryRepr n = ds.map digitChar :=
  ⟨ofDigitsBE ds, parseRadix2_digits ds hne hd, by rw [binaryRepr, binaryDigits_ofDigitsBE ds hne hd hc]⟩

/-! ## non-vacuity of the extension round -/

example : emptyAnswer 2 (some 1) none = .ok ⟨[], [0]⟩ ∧ emptyAnswer 2 (some 2) none = .err .AxisOutOfBounds ∧
    emptyAnswer 2 (some 2) (some (.text ['B'])) = .err .ParameterError ∧
    emptyAnswer 2 (some (-2)) (some (.text ['l', 'i', 't', 't', 'l', 'e'])) = .ok ⟨[], [0]⟩ := by decide
example : unpackBits alongPipe ⟨[], [2, 0]⟩ (some 1) (some 3) none = .ok ⟨[], [0]⟩ := by decide
example : (unpackBits alongPipe ⟨[], [2, 0]⟩ (some 1) none none >>= fun u => packBits alongPipe u (some 1) none)
    = .err .AxisOutOfBounds := by decide
example : (unpackBits alongPipe ⟨[], [2, 0]⟩ (some (-1)) none none >>= fun u => packBits alongPipe u (some (-1)) none)
    = .ok ⟨[], [0]⟩ := by decide
example : (0 : Nat) ∈ ([2, 0] : List Nat).eraseIdx 0 ∧ (0 : Nat) ∉ ([2, 0] : List Nat).eraseIdx 1 := by decide
example : countKeep 16 (some 5) = some 5 ∧ countKeep 16 (some (-5)) = some 11 ∧ countKeep 16 (some 17) = none ∧
    countKeep 16 (some (-17)) = none ∧ countKeep 16 (some 0) = some 0 ∧ countKeep 16 (some (-16)) = some 0 ∧
    countKeep 16 none = some 16 := by decide
example : unpackBits alongRef ⟨[2, 3, 5, 7], [2, 2]⟩ none (some (-27)) none = .ok (Arr.flat [0, 0, 0, 0, 0]) := by decide
example : unpackBits alongRef ⟨[2, 3, 5, 7], [2, 2]⟩ none (some 33) none = .err .OutOfBounds := by decide
example : binaryReprSigned 8 (-128) = ['1', '0', '0', '0', '0', '0', '0', '0'] ∧ binaryReprSigned 8 127 = binaryRepr 127 ∧
    (binaryRepr 127).length = 7 ∧ binaryReprSigned 3 (-1) = ['1', '1', '1'] := by decide

example : parseRadix2 ['0', '1'] = some 1 ∧ binaryRepr 1 = ['1'] ∧
    parseRadix2 ([1, 0, 1, 0].map digitChar) = some 10 ∧ binaryRepr 10 = [1, 0, 1, 0].map digitChar := by decide

end ArrModel.C19
