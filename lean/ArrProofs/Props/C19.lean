import ArrProofs.Lemmas.C19Along
/-!
# C19 — bit unpacking and packing are inverse; `binary_repr` parses back

Property theorems only (helpers in `ArrProofs/Lemmas/C19.lean`).  Model under test: `ArrModel/C19.lean`
(`toBitOrder`, `unpackByte`, `unpackFlat`, `unpackFlatArr`, `unpackLane`, `packGroup`, `pad8`, `packFlat`,
`packFlatArr`, `packLane`, `unpackBits`, `packBits`, `binaryRepr`, `binaryReprSigned`).

Scope of this file: the flat form (`axis = None`); the lane functions handed to `apply_along_axis`; the lifting
of the lane round trip through *any* `apply_along_axis` that satisfies `AlongLifts`; and the axis forms exactly as
`binary_bits.rs` wraps them — `normalize_axis`, then `apply_along_axis` with the flat lane function — for
* `alongPipe` = the shared pipeline model `Arr.applyAlongAxis` of the crate's (repaired) `apply_along_axis`
  (moveaxis / ravel / split / map / reshape / move back), via the central lemma `applyAlongAxis_spec`
  (`pack_unpack_axis`, `unpack_axis_at`, `pack_axis_at`), and
* `alongRef` = a coordinate-level reference lane semantics (`pack_unpack_axis_ref`, `unpack_axis_ref`).
The driver runs both and reports a split, so their agreement is part of the tie.
-/
namespace ArrModel.C19
open ArrModel

/-! ## `BitOrder` spellings -/

/-- a text is accepted exactly when it is in the spelling table, with the table's meaning -/
theorem toBitOrder_text_ok_iff (s : List Char) (o : BitOrder) :
    toBitOrder (.text s) = .ok o ↔ (s, o) ∈ bitOrderTable := by
  unfold toBitOrder bitOrderTable
  by_cases h1 : s = ['b', 'i', 'g']
  · subst h1; cases o <;> simp
  · by_cases h2 : s = ['l', 'i', 't', 't', 'l', 'e']
    · subst h2; cases o <;> simp
    · simp [h1, h2]

/-- any other text is an error value (not a panic, not a default) -/
theorem toBitOrder_unknown (s : List Char) (h : ∀ o, (s, o) ∉ bitOrderTable) :
    toBitOrder (.text s) = .err .ParameterError := by
  have h1 : s ≠ ['b', 'i', 'g'] := fun e => h .big (by simp [bitOrderTable, e])
  have h2 : s ≠ ['l', 'i', 't', 't', 'l', 'e'] := fun e => h .little (by simp [bitOrderTable, e])
  simp [toBitOrder, h1, h2]

theorem toBitOrder_enum (o : BitOrder) : toBitOrder (.enum o) = .ok o := rfl

theorem toBitOrder_never_panics (s : Spelling) : toBitOrder s ≠ .panic := by
  cases s with
  | enum o => simp [toBitOrder]
  | text s =>
    by_cases h1 : s = ['b', 'i', 'g']
    · simp [toBitOrder, h1]
    · by_cases h2 : s = ['l', 'i', 't', 't', 'l', 'e']
      · simp [toBitOrder, h2]
      · simp [toBitOrder, h1, h2]

/-- both orders are reachable in the enum and in the text spelling, and mean the same -/
theorem spellings_agree :
    toBitOrder (.text ['b', 'i', 'g']) = toBitOrder (.enum .big) ∧
    toBitOrder (.text ['l', 'i', 't', 't', 'l', 'e']) = toBitOrder (.enum .little) ∧
    optOrder none = .ok .big := by decide

/-- an unknown order name: both operations return the error, whatever the array (empty ones included: the order is
parsed before the empty-array shortcut, commit 97c65b7), the axis and the count -/
theorem bad_order_rejected (along : Along) (a : Arr Nat) (axis count : Option Int) (s : List Char)
    (h : ∀ o, (s, o) ∉ bitOrderTable) :
    unpackBits along a axis count (some (.text s)) = .err .ParameterError ∧
    packBits along a axis (some (.text s)) = .err .ParameterError := by
  simp [unpackBits, packBits, optOrder, toBitOrder_unknown s h]

/-! ## one byte -/

/-- **what unpacking a byte is**: big order lists the binary digits most significant first, little order
least significant first (for every natural number, not only bytes) -/
theorem unpackByte_digits (b : Nat) :
    unpackByte .big b = [b / 128 % 2, b / 64 % 2, b / 32 % 2, b / 16 % 2, b / 8 % 2, b / 4 % 2, b / 2 % 2, b % 2] ∧
    unpackByte .little b = [b % 2, b / 2 % 2, b / 4 % 2, b / 8 % 2, b / 16 % 2, b / 32 % 2, b / 64 % 2, b / 128 % 2] := by
  have hr : (List.range 8).reverse = [7, 6, 5, 4, 3, 2, 1, 0] := by decide
  constructor <;> simp [unpackByte, hr, Nat.shiftRight_eq_div_pow, Nat.and_one_is_mod]

/-- **the finite table**: for each of the 256 byte values and both orders, packing the unpacked bits returns the
byte (all 512 rows evaluated by the kernel) -/
theorem unpack_byte_pack_byte : ∀ b, b < 256 → ∀ o : BitOrder, packGroup o (unpackByte o b) = .ok b :=
  packGroup_unpackByte

/-- and conversely every group of eight bits is recovered from its byte (2 · 256 rows) -/
theorem pack_group_unpack_byte (o : BitOrder) (x0 x1 x2 x3 x4 x5 x6 x7 : Nat)
    (h0 : x0 < 2) (h1 : x1 < 2) (h2 : x2 < 2) (h3 : x3 < 2) (h4 : x4 < 2) (h5 : x5 < 2) (h6 : x6 < 2) (h7 : x7 < 2) :
    (packGroup o [x0, x1, x2, x3, x4, x5, x6, x7]).map (unpackByte o) = .ok [x0, x1, x2, x3, x4, x5, x6, x7] :=
  unpackByte_packGroup o x0 h0 x1 h1 x2 h2 x3 h3 x4 h4 x5 h5 x6 h6 x7 h7

/-- values other than 0/1 count as set bits (`if i > &0`) -/
theorem pack_group_nonbinary (o : BitOrder) (g : List Nat) :
    packGroup o (g.map (fun i => if i > 0 then 1 else 0)) = packGroup o g := packGroup_norm o g

/-! ## lists of bytes (flat order) -/

/-- unpacking replaces every byte by eight elements, all of them bits -/
theorem unpack_flat_length (o : BitOrder) (bs : List Nat) : (unpackFlat o bs).length = 8 * bs.length :=
  unpackFlat_length o bs

theorem unpack_flat_bits (o : BitOrder) (bs : List Nat) : ∀ x ∈ unpackFlat o bs, x < 2 := by
  intro x hx
  simp only [unpackFlat, List.mem_flatMap] at hx
  obtain ⟨b, _, hb⟩ := hx
  exact unpackByte_bits o b x hb

/-- byte `i` of the input becomes elements `8i … 8i+7` of the output -/
theorem unpack_flat_at (o : BitOrder) : ∀ (bs : List Nat) (i : Nat) (b : Nat), bs[i]? = some b →
    ((unpackFlat o bs).drop (8 * i)).take 8 = unpackByte o b
  | [], i, b, h => by simp at h
  | x :: xs, 0, b, h => by
    simp only [List.getElem?_cons_zero, Option.some.injEq] at h; subst h
    rw [unpackFlat_cons]; simp [unpackByte_length]
  | x :: xs, i + 1, b, h => by
    rw [unpackFlat_cons]
    have : 8 * (i + 1) = (unpackByte o x).length + 8 * i := by rw [unpackByte_length]; omega
    rw [this, List.drop_append]
    simp only [Nat.add_sub_cancel_left]
    rw [List.drop_eq_nil_of_le (by omega), List.nil_append]
    exact unpack_flat_at o xs i b (by simpa using h)

/-- **pack ∘ unpack = id** for every list of bytes, in either order -/
theorem pack_unpack_flat (o : BitOrder) (bs : List Nat) (h : ∀ b ∈ bs, b < 256) :
    packFlat o (unpackFlat o bs) = .ok bs := packFlat_unpackFlat o bs h

/-- **padding**: packing a bit list whose length is not a multiple of eight is packing it with the final short
group filled up with zero bits -/
theorem pack_pad (o : BitOrder) (xs : List Nat) (h : xs.length % 8 ≠ 0) :
    packFlat o xs = packFlat o (xs ++ List.replicate (8 - xs.length % 8) 0) := by
  have hp : pad8 xs = xs ++ List.replicate (8 - xs.length % 8) 0 := by simp [pad8, h]
  have : packFlat o xs = packFlat o (pad8 xs) := by
    unfold packFlat; simp only [pad8_idem]
  rw [this, hp]

/-- a list whose length is a multiple of eight is packed as it is -/
theorem pack_no_pad (xs : List Nat) (h : xs.length % 8 = 0) : pad8 xs = xs := pad8_of_dvd xs h

/-- the number of bytes is the number of groups, `⌈len / 8⌉` -/
theorem pack_length (o : BitOrder) (xs r : List Nat) (h : packFlat o xs = .ok r) :
    r.length = (xs.length + 7) / 8 := packFlat_length o xs r h

/-- packing groups eight at a time: the first eight elements make the first byte, the rest the rest -/
theorem pack_step (o : BitOrder) (g rest : List Nat) (hg : g.length = 8) :
    packFlat o (g ++ rest) = (packGroup o g >>= fun b => packFlat o rest >>= fun bs => .ok (b :: bs)) :=
  packFlat_append8 o g rest hg

/-- **unpack ∘ pack = zero padding**: packing a list of bits and unpacking the bytes gives the bits followed by
the padding zeros -/
theorem unpack_pack_flat (o : BitOrder) (xs : List Nat) (hb : ∀ x ∈ xs, x < 2) :
    (packFlat o xs).map (unpackFlat o) = .ok (pad8 xs) := unpackFlat_packFlat o xs hb

/-! ## arrays: flat form and lanes -/

/-- the flat form of `unpack_bits` (no `count`): a 1-D array of `8 · len` bits -/
theorem unpack_flat_arr (o : BitOrder) (a : Arr Nat) :
    unpackFlatArr o none a = .ok (Arr.flat (unpackFlat o a.elems)) := by
  unfold unpackFlatArr
  simp only [Option.getD_none]
  have : (Int.ofNat a.elems.length * 8).toNat = (unpackFlat o a.elems).length := by
    rw [unpackFlat_length]; simp; omega
  rw [if_pos (by simp; omega), this, slice1_full]

/-- **the lane round trip** (what `apply_along_axis` is given): for every lane of bytes, packing the unpacked
lane returns the lane — including the empty lane -/
theorem lane_roundtrip (o : BitOrder) (lane : Arr Nat) (h : ∀ b ∈ lane.elems, b < 256) :
    (unpackLane o none lane >>= packLane o) = .ok (Arr.flat lane.elems) := by
  unfold unpackLane
  by_cases he : lane.isEmpty = true
  · have : lane.elems = [] := by simpa [Arr.isEmpty] using he
    simp [packLane, Arr.isEmpty, Arr.flat, this]
  · have hne : lane.elems ≠ [] := by simpa [Arr.isEmpty] using he
    have hu : (Arr.flat (unpackFlat o lane.elems)).isEmpty = false := by
      have hl := unpackFlat_length o lane.elems
      have hn : lane.elems.length ≠ 0 := by simpa using hne
      simp only [Arr.isEmpty, Arr.flat, beq_eq_false_iff_ne, ne_eq]
      omega
    rw [if_neg he, unpack_flat_arr]
    simp only [Res.bind_ok, packLane, hu]
    simp only [packFlatArr, Arr.flat, pack_unpack_flat o _ h, Res.bind_ok]
    simp

/-- **`pack_bits(unpack_bits(a))` in flat order returns the original bytes** (as a 1-D array: the flat form
discards the shape by design), for every accepted spelling of the order -/
theorem pack_unpack_flat_arr (along : Along) (a : Arr Nat) (ord : Option Spelling) (o : BitOrder)
    (ho : optOrder ord = .ok o) (hne : a.isEmpty = false) (h : ∀ b ∈ a.elems, b < 256) :
    (unpackBits along a none none ord >>= fun u => packBits along u none ord) = .ok (Arr.flat a.elems) := by
  have hl := lane_roundtrip o a h
  simp only [unpackLane, hne] at hl
  simp only [unpackBits, hne, ho, axisCheck]
  simp only [Bool.false_eq_true, if_false] at hl ⊢
  rw [unpack_flat_arr] at hl ⊢
  simp only [Res.bind_ok] at hl ⊢
  simp only [packBits, ho, axisCheck]
  simp only [packLane] at hl
  exact hl

/-- unpacking a non-empty lane (no `count`) always succeeds with `8·n` bits -/
theorem unpackLane_flat (o : BitOrder) (l : List Nat) (hl : l ≠ []) :
    unpackLane o none (Arr.flat l) = .ok (Arr.flat (unpackFlat o l)) := by
  have he : (Arr.flat l).isEmpty = false := by simpa [Arr.isEmpty, Arr.flat] using hl
  simp only [unpackLane, he, Bool.false_eq_true, if_false]
  simpa [Arr.flat] using unpack_flat_arr o (Arr.flat l)

/-- packing a non-empty lane always succeeds (whatever the values) with `⌈len / 8⌉` bytes -/
theorem packLane_flat (o : BitOrder) (l : List Nat) (hl : l ≠ []) :
    ∃ r : List Nat, packFlat o l = .ok r ∧ r.length = (l.length + 7) / 8 ∧ packLane o (Arr.flat l) = .ok (Arr.flat r) := by
  obtain ⟨r, hr⟩ := packFlat_total o l
  have he : (Arr.flat l).isEmpty = false := by simpa [Arr.isEmpty, Arr.flat] using hl
  refine ⟨r, hr, packFlat_length o l r hr, ?_⟩
  rw [packLane, if_neg (by simp [he])]
  simp only [packFlatArr, Arr.flat, hr, Res.bind_ok]

/-- the two lane functions form an inverse pair in the sense `AlongLifts` asks for: a lane of `n > 0` bytes
goes to a 1-D array of `8·n` bits and comes back -/
theorem lane_pair (o : BitOrder) (l : List Nat) (hl : l ≠ []) (h : ∀ b ∈ l, b < 256) :
    (unpackFlat o l).length = 8 * l.length ∧
    unpackLane o none (Arr.flat l) = .ok (Arr.flat (unpackFlat o l)) ∧
    packLane o (Arr.flat (unpackFlat o l)) = .ok (Arr.flat l) := by
  have hn : l.length ≠ 0 := by simpa using hl
  have he : (Arr.flat l).isEmpty = false := by simpa [Arr.isEmpty, Arr.flat] using hl
  have hu : (Arr.flat (unpackFlat o l)).isEmpty = false := by
    have := unpackFlat_length o l
    simp only [Arr.isEmpty, Arr.flat, beq_eq_false_iff_ne, ne_eq]; omega
  refine ⟨unpackFlat_length o l, ?_, ?_⟩
  · simp only [unpackLane, he, Bool.false_eq_true, if_false]
    simpa [Arr.flat] using unpack_flat_arr o (Arr.flat l)
  · simp only [packLane, hu, Bool.false_eq_true, if_false, packFlatArr]
    simp only [Arr.flat, pack_unpack_flat o l h, Res.bind_ok]

/-- the length along an in-range axis of a non-empty well-formed array is positive -/
theorem axis_len_pos (a : Arr Nat) (k : Nat) (hwf : a.WF) (hk : k < a.ndim) (hne : a.isEmpty = false) :
    0 < a.shape.getD k 0 := by
  have hlen : a.elems.length = (a.shape.take k).prod * a.shape.getD k 0 * (a.shape.drop (k + 1)).prod := by
    rw [hwf]; exact prod_split a.shape k hk
  have : a.elems.length ≠ 0 := by simpa [Arr.isEmpty] using hne
  apply Nat.pos_of_ne_zero
  intro h0; rw [h0] at hlen; simp at hlen; exact this (by simp [hlen])

/-- **round trip along an axis**, for any `apply_along_axis` satisfying `AlongLifts`: same axis, same order ⇒
the original bytes *and shape* -/
theorem pack_unpack_axis_of_lifts (along : Along) (a : Arr Nat) (ax : Int) (ord : Option Spelling) (o : BitOrder)
    (ho : optOrder ord = .ok o) (hwf : a.WF) (hk : normalizeAxis a.ndim ax < a.ndim) (hne : a.isEmpty = false)
    (h : ∀ b ∈ a.elems, b < 256) (hal : AlongLifts along a (normalizeAxis a.ndim ax)) :
    (unpackBits along a (some ax) none ord >>= fun u => packBits along u (some ax) ord) = .ok a := by
  have hn := axis_len_pos a _ hwf hk hne
  have hne' : ∀ (l : List Nat) (n : Nat), 0 < n → l.length = n → l ≠ [] :=
    fun l n hn hl e => by have h0 : l.length = 0 := (by simp [e]); omega
  obtain ⟨u, hu, hnd, hue, hback⟩ := hal (unpackLane o none) (packLane o) (8 * a.shape.getD (normalizeAxis a.ndim ax) 0)
    (by omega)
    (fun l hl hmem => by
      obtain ⟨h1, h2, h3⟩ := lane_pair o l (hne' l _ hn hl) (fun b hb => h b (hmem b hb))
      exact ⟨unpackFlat o l, by rw [h1, hl], h2, h3⟩)
    (fun l hl => ⟨_, unpackLane_flat o l (hne' l _ hn hl), by simp [Arr.flat, unpackFlat_length, hl]⟩)
    (fun l hl => by
      obtain ⟨r, _, hr2, hr3⟩ := packLane_flat o l (hne' l _ (by omega) hl)
      exact ⟨_, hr3, by simp only [Arr.flat]; rw [hr2, hl]; omega⟩)
  rw [unpackBits_axis along a ax none ord o ho hk hne, hu]
  simp only [Res.bind_ok]
  rw [packBits_axis along u ax ord o ho (by rw [hnd]; exact hk) hue, hnd]
  exact hback

/-- a well-formed array without a zero-length axis is not empty -/
theorem not_empty_of_no_zero_axis (a : Arr Nat) (hwf : a.WF) (hnz : 0 ∉ a.shape) : a.isEmpty = false := by
  have : 0 < a.shape.prod := prod_pos_of_not_mem _ hnz
  rw [← hwf] at this
  simp only [Arr.isEmpty, beq_eq_false_iff_ne, ne_eq]; omega

/-- **C19, axis form, on the model of the crate's own `apply_along_axis` pipeline**: packing what was unpacked
along the same axis with the same order returns the original bytes and the original shape — every rank, every
axis (either spelling), both orders (any accepted spelling), all byte values. -/
theorem pack_unpack_axis (a : Arr Nat) (ax : Int) (ord : Option Spelling) (o : BitOrder)
    (ho : optOrder ord = .ok o) (hwf : a.WF) (hnz : 0 ∉ a.shape) (hk : normalizeAxis a.ndim ax < a.ndim)
    (h : ∀ b ∈ a.elems, b < 256) :
    (unpackBits alongPipe a (some ax) none ord >>= fun u => packBits alongPipe u (some ax) ord) = .ok a :=
  pack_unpack_axis_of_lifts alongPipe a ax ord o ho hwf hk (not_empty_of_no_zero_axis a hwf hnz) h
    (alongPipe_lifts a _ hwf hk hnz)

/-- **unpacking along an axis, per coordinate** (pipeline model): the axis becomes eight times as long, the other
axes are kept, and the element at coordinate `c` is bit `c[axis]` of the flat unpacking of the lane through `c` —
i.e. bit `c[axis] % 8` of the byte at position `c[axis] / 8` of that lane (`unpack_flat_at`). -/
theorem unpack_axis_at (a : Arr Nat) (ax : Int) (ord : Option Spelling) (o : BitOrder)
    (ho : optOrder ord = .ok o) (hwf : a.WF) (hnz : 0 ∉ a.shape) (hk : normalizeAxis a.ndim ax < a.ndim) :
    ∃ u, unpackBits alongPipe a (some ax) none ord = .ok u ∧
      u.shape = a.shape.set (normalizeAxis a.ndim ax) (8 * a.shape.getD (normalizeAxis a.ndim ax) 0) ∧ u.WF ∧
      ∀ c, inRange u.shape c = true →
        u.get? c = (unpackFlat o (laneOf a (normalizeAxis a.ndim ax) c))[c.getD (normalizeAxis a.ndim ax) 0]? := by
  have hne := not_empty_of_no_zero_axis a hwf hnz
  have hn := axis_len_pos a _ hwf hk hne
  have hne' : ∀ (l : List Nat), l.length = a.shape.getD (normalizeAxis a.ndim ax) 0 → l ≠ [] :=
    fun l hl e => by have h0 : l.length = 0 := (by simp [e]); omega
  obtain ⟨u, hu, hs, huwf, hget⟩ := applyAlongAxis_spec a 0 0 (normalizeAxis a.ndim ax)
    (8 * a.shape.getD (normalizeAxis a.ndim ax) 0) (unpackLane o none) hwf hk hnz
    (fun l hl => ⟨_, unpackLane_flat o l (hne' l hl), by simp [Arr.flat, unpackFlat_length, hl]⟩)
  refine ⟨u, by rw [unpackBits_axis alongPipe a ax none ord o ho hk hne]; exact hu, hs, huwf, ?_⟩
  intro c hc
  obtain ⟨y, hy1, hy2⟩ := hget c hc
  have hL : (laneOf a (normalizeAxis a.ndim ax) c).length = a.shape.getD (normalizeAxis a.ndim ax) 0 :=
    laneOf_length a _ _ c hwf (by rw [← hs]; exact hc)
  rw [unpackLane_flat o _ (hne' _ hL)] at hy1
  cases hy1
  exact hy2

/-- **packing along an axis, per coordinate** (pipeline model): the axis shrinks to `⌈n / 8⌉`, and the element at
coordinate `c` is byte `c[axis]` of the flat packing of the lane through `c` -/
theorem pack_axis_at (a : Arr Nat) (ax : Int) (ord : Option Spelling) (o : BitOrder)
    (ho : optOrder ord = .ok o) (hwf : a.WF) (hnz : 0 ∉ a.shape) (hk : normalizeAxis a.ndim ax < a.ndim) :
    ∃ u, packBits alongPipe a (some ax) ord = .ok u ∧
      u.shape = a.shape.set (normalizeAxis a.ndim ax) ((a.shape.getD (normalizeAxis a.ndim ax) 0 + 7) / 8) ∧ u.WF ∧
      ∀ c, inRange u.shape c = true → ∃ r, packFlat o (laneOf a (normalizeAxis a.ndim ax) c) = .ok r ∧
        u.get? c = r[c.getD (normalizeAxis a.ndim ax) 0]? := by
  have hne := not_empty_of_no_zero_axis a hwf hnz
  have hn := axis_len_pos a _ hwf hk hne
  have hne' : ∀ (l : List Nat), l.length = a.shape.getD (normalizeAxis a.ndim ax) 0 → l ≠ [] :=
    fun l hl e => by have h0 : l.length = 0 := (by simp [e]); omega
  obtain ⟨u, hu, hs, huwf, hget⟩ := applyAlongAxis_spec a 0 0 (normalizeAxis a.ndim ax)
    ((a.shape.getD (normalizeAxis a.ndim ax) 0 + 7) / 8) (packLane o) hwf hk hnz
    (fun l hl => by
      obtain ⟨r, _, hr2, hr3⟩ := packLane_flat o l (hne' l hl)
      exact ⟨_, hr3, by simp only [Arr.flat]; rw [hr2, hl]⟩)
  refine ⟨u, by rw [packBits_axis alongPipe a ax ord o ho hk hne]; exact hu, hs, huwf, ?_⟩
  intro c hc
  obtain ⟨y, hy1, hy2⟩ := hget c hc
  have hL : (laneOf a (normalizeAxis a.ndim ax) c).length = a.shape.getD (normalizeAxis a.ndim ax) 0 :=
    laneOf_length a _ _ c hwf (by rw [← hs]; exact hc)
  obtain ⟨r, hr1, _, hr3⟩ := packLane_flat o _ (hne' _ hL)
  rw [hr3] at hy1
  cases hy1
  exact ⟨r, hr1, hy2⟩

/-- an axis outside the rank is an error value in both operations — for every array, empty ones included, and
whatever `apply_along_axis` is: the axis is validated before the empty-array shortcut and before any lane work
(commit 97c65b7) -/
theorem axis_out_of_range (along : Along) (a : Arr Nat) (ax : Int) (count : Option Int) (ord : Option Spelling)
    (o : BitOrder) (ho : optOrder ord = .ok o) (hk : a.ndim ≤ normalizeAxis a.ndim ax) :
    unpackBits along a (some ax) count ord = .err .AxisOutOfBounds ∧
    packBits along a (some ax) ord = .err .AxisOutOfBounds := by
  simp only [unpackBits, packBits, ho, axisCheck_err _ _ hk, and_self]

/-- the empty-array shortcut, reached only with an accepted order and an axis inside the rank (or the flat form):
both operations answer `Array::empty()` -/
theorem empty_after_validation (along : Along) (a : Arr Nat) (axis count : Option Int) (ord : Option Spelling)
    (o : BitOrder) (ho : optOrder ord = .ok o) (he : a.isEmpty = true)
    (hax : ∀ ax, axis = some ax → normalizeAxis a.ndim ax < a.ndim) :
    unpackBits along a axis count ord = .ok ⟨[], [0]⟩ ∧ packBits along a axis ord = .ok ⟨[], [0]⟩ := by
  cases axis with
  | none => simp [unpackBits, packBits, ho, axisCheck, he]
  | some ax => simp [unpackBits, packBits, ho, axisCheck_ok _ _ (hax ax rfl), he]

/-- **round trip along every axis for the reference lane semantics** -/
theorem pack_unpack_axis_ref (a : Arr Nat) (ax : Int) (ord : Option Spelling) (o : BitOrder)
    (ho : optOrder ord = .ok o) (hwf : a.WF) (hk : normalizeAxis a.ndim ax < a.ndim) (hne : a.isEmpty = false)
    (h : ∀ b ∈ a.elems, b < 256) :
    (unpackBits alongRef a (some ax) none ord >>= fun u => packBits alongRef u (some ax) ord) = .ok a :=
  pack_unpack_axis_of_lifts alongRef a ax ord o ho hwf hk hne h (alongRef_lifts a _ hwf hk hne)

/-- **what unpacking along an axis is** (reference lane semantics): the axis becomes eight times as long, every
other axis is kept, and every lane along the axis is replaced by its flat unpacking -/
theorem unpack_axis_ref (a : Arr Nat) (ax : Int) (ord : Option Spelling) (o : BitOrder)
    (ho : optOrder ord = .ok o) (hwf : a.WF) (hk : normalizeAxis a.ndim ax < a.ndim) (hne : a.isEmpty = false) :
    let k := normalizeAxis a.ndim ax
    let O := (a.shape.take k).prod
    let n := a.shape.getD k 0
    let I := (a.shape.drop (k + 1)).prod
    unpackBits alongRef a (some ax) none ord =
      .ok ⟨unlanes ((lanes a.elems O n I).map (unpackFlat o)) O (8 * n) I, a.shape.set k (8 * n)⟩ := by
  intro k O n I
  have hn : 0 < n := axis_len_pos a _ hwf hk hne
  rw [unpackBits_axis alongRef a ax none ord o ho hk hne]
  exact alongRef_ok a k hwf hk hne (unpackLane o none) (unpackFlat o) (8 * n) (fun l hl => by
    have hl' : l.length = n := hl
    have hl0 : l ≠ [] := fun e => by have h0 : l.length = 0 := (by simp [e]); omega
    have he : (Arr.flat l).isEmpty = false := by simpa [Arr.isEmpty, Arr.flat] using hl0
    refine ⟨?_, by rw [unpackFlat_length, hl']⟩
    simp only [unpackLane, he, Bool.false_eq_true, if_false]
    simpa [Arr.flat] using unpack_flat_arr o (Arr.flat l))

/-- an axis outside the rank is an error value in both operations (reference lane semantics; instance of
`axis_out_of_range`, kept under its old name) -/
theorem axis_out_of_range_ref (a : Arr Nat) (ax : Int) (count : Option Int) (ord : Option Spelling) (o : BitOrder)
    (ho : optOrder ord = .ok o) (hk : a.ndim ≤ normalizeAxis a.ndim ax) :
    unpackBits alongRef a (some ax) count ord = .err .AxisOutOfBounds ∧
    packBits alongRef a (some ax) ord = .err .AxisOutOfBounds :=
  axis_out_of_range alongRef a ax count ord o ho hk

/-! ## the `count` argument (repaired negative arm) -/

/-- `count ≥ 0` keeps the first `count` bits; more than there are is an error -/
theorem unpack_count_nonneg (o : BitOrder) (a : Arr Nat) (c : Nat) :
    unpackFlatArr o (some (Int.ofNat c)) a =
      if c ≤ 8 * a.elems.length then .ok (Arr.flat ((unpackFlat o a.elems).take c)) else .err .OutOfBounds := by
  unfold unpackFlatArr
  simp only [Option.getD_some]
  rw [if_pos (by simp)]
  have : (Int.ofNat c).toNat = c := by simp
  rw [this]
  split
  · exact slice1_ok _ _ (by rw [unpackFlat_length]; assumption)
  · exact slice1_err _ _ (by rw [unpackFlat_length]; omega)

/-- `count < 0` trims `|count|` bits off the end; trimming more than there are is an error.  (The pinned code
subtracts the wrapped cast from the *byte* count instead: fixes/C19-unpack-negative-count.) -/
theorem unpack_count_neg (o : BitOrder) (a : Arr Nat) (c : Nat) (hc : 0 < c) :
    unpackFlatArr o (some (-(Int.ofNat c))) a =
      if c ≤ 8 * a.elems.length then .ok (Arr.flat ((unpackFlat o a.elems).take (8 * a.elems.length - c)))
      else .err .OutOfBounds := by
  have hneg : ¬ (-(Int.ofNat c) ≥ 0) := by simp; omega
  have habs : (-(Int.ofNat c)).natAbs = c := by simp
  simp only [unpackFlatArr, Option.getD_some, hneg, if_false, habs, unpackFlat_length]
  by_cases h : c ≤ 8 * a.elems.length
  · rw [if_neg (by omega), if_pos h]
    exact slice1_ok _ _ (by rw [unpackFlat_length]; omega)
  · rw [if_pos (by omega), if_neg h]

/-- **`count` undoes the padding**: unpacking the packed bits with `count` = the original number of bits
returns exactly the original bits, whatever their number -/
theorem unpack_count_undoes_padding (o : BitOrder) (xs : List Nat) (hb : ∀ x ∈ xs, x < 2) :
    (packFlat o xs >>= fun bs => unpackFlatArr o (some (Int.ofNat xs.length)) (Arr.flat bs)) = .ok (Arr.flat xs) := by
  obtain ⟨bs, h1, h2⟩ := res_map_ok _ _ _ (unpack_pack_flat o xs hb)
  rw [h1]; simp only [Res.bind_ok]
  rw [unpack_count_nonneg]
  have hl : 8 * bs.length = (pad8 xs).length := by rw [← h2, unpackFlat_length]
  have hle : xs.length ≤ (pad8 xs).length := by unfold pad8; split <;> simp
  have : (Arr.flat bs).elems = bs := rfl
  rw [this, if_pos (by omega), h2, take_pad8]

/-- whatever the `count`, the flat form answers with a value or an error value, never a panic -/
theorem unpack_count_never_panics (o : BitOrder) (a : Arr Nat) (count : Option Int) :
    unpackFlatArr o count a ≠ .panic := by
  unfold unpackFlatArr slice1
  simp only
  split
  · split <;> simp
  · split
    · simp
    · split <;> simp

/-! ## `binary_repr` -/

/-- **the binary text of a natural number parses back to it** (`from_str_radix(·, 2)`) -/
theorem binaryRepr_parse (n : Nat) : parseRadix2 (binaryRepr n) = some n := by
  unfold binaryRepr
  rw [parseRadix2_digits _ (by unfold binaryDigits; simpa using reprLoop_ne_nil n n)
    (by unfold binaryDigits; intro d hd; exact reprLoop_digits _ _ d (by simpa using hd)),
    binaryDigits_value]

/-- … also with the overflow check of a `w`-bit unsigned type -/
theorem binaryRepr_parse_unsigned (w n : Nat) (h : n < 2 ^ w) : parseRadix2U w (binaryRepr n) = some n := by
  simp [parseRadix2U, binaryRepr_parse, h]

/-- **a value of a `w`-bit signed type**: the text is the two's-complement pattern; parsed as the unsigned
`w`-bit type and reinterpreted as signed it is the value again (negative values included) -/
theorem binaryReprSigned_parse (w : Nat) (v : Int) (hw : 0 < w)
    (hlo : -(2 ^ (w - 1) : Int) ≤ v) (hhi : v < (2 ^ (w - 1) : Int)) :
    (parseRadix2U w (binaryReprSigned w v)).map (toSigned w) = some v := by
  -- name the powers: P = 2^(w-1), 2^w = 2P
  obtain ⟨P, hP⟩ : ∃ P : Nat, 2 ^ (w - 1) = P := ⟨_, rfl⟩
  have hPpos : 0 < P := by rw [← hP]; exact Nat.two_pow_pos _
  have hW : 2 ^ w = 2 * P := by rw [← hP]; exact two_pow_pred w hw
  have hPi : (2 ^ (w - 1) : Int) = (P : Int) := by rw [← hP]; simp
  have hWi : (2 ^ w : Int) = 2 * (P : Int) := by
    have : ((2 ^ w : Nat) : Int) = ((2 * P : Nat) : Int) := by rw [hW]
    simpa using this
  rw [hPi] at hlo hhi
  -- the bit pattern
  have hmod : v % (2 ^ w : Int) = if 0 ≤ v then v else v + 2 * (P : Int) := by
    rw [hWi]
    split
    · exact Int.emod_eq_of_lt (by assumption) (by omega)
    · rw [← Int.add_emod_right, Int.emod_eq_of_lt (by omega) (by omega)]
  obtain ⟨u, hu⟩ : ∃ u : Nat, (v % (2 ^ w : Int)).toNat = u := ⟨_, rfl⟩
  have hui : (u : Int) = if 0 ≤ v then v else v + 2 * (P : Int) := by
    rw [← hmod, ← hu]; exact Int.toNat_of_nonneg (by rw [hmod]; split <;> omega)
  have hult : u < 2 ^ w := by rw [hW]; split at hui <;> omega
  unfold binaryReprSigned
  rw [hu, binaryRepr_parse_unsigned w u hult]
  simp only [Option.map_some, Option.some.injEq, toSigned, hP, hWi]
  split at hui <;> split <;> simp only [Int.ofNat_eq_natCast] <;> omega

/-! ## non-vacuity -/

example : unpackByte .big 23 = [0, 0, 0, 1, 0, 1, 1, 1] ∧ unpackByte .little 23 = [1, 1, 1, 0, 1, 0, 0, 0] := by decide
example : packFlat .big [0, 0, 0, 1, 0, 1, 1, 1, 1] = .ok [23, 128] ∧ packFlat .little [0, 0, 0, 1, 0, 1, 1, 1, 1] = .ok [232, 1] := by decide
example : packFlat .big [0, 0, 0, 1, 0, 1, 1, 1, 1] = packFlat .big [0, 0, 0, 1, 0, 1, 1, 1, 1, 0, 0, 0, 0, 0, 0, 0] := by decide
example : unpackBits alongRef ⟨[2, 3, 5], [3, 1]⟩ (some 1) none none
    = .ok ⟨[0, 0, 0, 0, 0, 0, 1, 0, 0, 0, 0, 0, 0, 0, 1, 1, 0, 0, 0, 0, 0, 1, 0, 1], [3, 8]⟩ := by decide
example : (unpackBits alongRef ⟨[1, 200, 37, 255], [2, 2]⟩ (some 0) none (some (.text ['l', 'i', 't', 't', 'l', 'e'])) >>= fun u =>
    packBits alongRef u (some 0) (some (.enum .little))) = .ok ⟨[1, 200, 37, 255], [2, 2]⟩ := by decide
example : unpackFlatArr .big (some (-3)) ⟨[2, 3, 5], [3]⟩ = .ok (Arr.flat [0, 0, 0, 0, 0, 0, 1, 0, 0, 0, 0, 0, 0, 0, 1, 1, 0, 0, 0, 0, 0]) := by decide
example : unpackFlatArr .big (some (-25)) ⟨[2, 3, 5], [3]⟩ = .err .OutOfBounds := by decide
example : toBitOrder (.text ['B', 'i', 'g']) = .err .ParameterError := by decide
-- empty arrays: unknown order / axis outside the rank are refused, an accepted call gives the empty 1-D array
example : packBits alongRef ⟨[], [0]⟩ (some 1) (some (.enum .little)) = .err .AxisOutOfBounds := by decide
example : unpackBits alongRef ⟨[], [0, 2]⟩ none none (some (.text ['b', 'o', 'g'])) = .err .ParameterError := by decide
example : unpackBits alongRef ⟨[], [2, 0]⟩ (some (-1)) none none = .ok ⟨[], [0]⟩ := by decide
example : binaryRepr 10 = ['1', '0', '1', '0'] ∧ binaryRepr 0 = ['0'] := by decide
example : binaryReprSigned 8 (-3) = ['1', '1', '1', '1', '1', '1', '0', '1'] := by decide
example : (-(2 ^ (8 - 1) : Int) ≤ -128) ∧ ((-128 : Int) < 2 ^ (8 - 1)) := by decide

end ArrModel.C19
