import ArrProofs.Lemmas.C12Rot
import ArrProofs.Lemmas.C12FlipAll
import ArrProofs.Lemmas.C12Roll
import ArrProofs.Lemmas.C12Empty
/-!
# C12 — flip, roll and quarter-turn rotation are exact coordinate maps with inverses

Model under test: `ArrModel/Reorder.lean` (`flipAxis` / `rollAxis` with their three arms on the flat element vector,
`accumShifts`, `Arr.flip/flipud/fliplr/roll/rot90`).  Every statement is for every rank, every axis length and every
integer shift (no bound).  Standing hypotheses of the coordinate theorems: the array is well formed
(`elems.length = shape.prod`) and has no axis of length zero (on an empty array there is no coordinate to speak about and
the Rust code may refuse the split — exactly when, is the subject of the last section: `flip_list_empty`, `roll_axis_empty`,
`rot90_empty`, and the statements for every well-formed array `flip_total`, `roll_total`, `rot90_total`, `…_never_panics`).

Vocabulary (definitions in `Lemmas/C12Perm.lean`, `Lemmas/C12Arr.lean`):
`flipCoord shape k c = c.set k (shape[k] − 1 − c[k])`, `rollIdx s n i = ((i − s) mod n)` (Euclidean remainder on `Int`),
`rollCoord shape k s c = c.set k (rollIdx s shape[k] c[k])`, `totalShift ps k` = sum of the shifts paired with axis `k`,
`rollPairs nd shift axes` = the (normalised axis, shift) pairs, `flipAll shape c` = every coordinate mirrored
(`Lemmas/C12FlipAll.lean`), `Arr.turn` / `Arr.turns` = one / `n` quarter turns (`Lemmas/C12Rot.lean`).
The three-arm induction is done once, on the common skeleton `permAxis` of `flipAxis` and `rollAxis`
(`Lemmas/C12Axis.lean`: `flipAxis_eq_permAxis`, `rollAxis_eq_permAxis`, `permAxis_at`).
-/
namespace ArrModel.C12
open ArrModel Arr
variable {α : Type}

/-! ### flip -/

/-- **core of flip**: on the flat element vector of an array of shape `shape`, `flip_axis(ax)` succeeds, keeps the
length, and the element at coordinate `c` of the result is the input element at `c` with `c[ax] ↦ n − 1 − c[ax]`
(proved by induction on the axis number through the three arms of the code: first axis, last axis, inner axis) -/
theorem flipAxis_at (ax : Nat) (shape : List Nat) (elems : List α)
    (hpos : ∀ d ∈ shape, 0 < d) (hlen : elems.length = shape.prod) (hax : ax < shape.length) :
    ∃ es, flipAxis ax shape elems = .ok es ∧ es.length = elems.length ∧
      ∀ c, inRange shape c = true →
        es[ravel shape c]? = elems[ravel shape (c.set ax (shape.getD ax 0 - 1 - c.getD ax 0))]? :=
  flipAxis_spec ax shape elems hpos hlen hax

/-- **flip along a list of axes** (any spelling, repetitions allowed): shape kept, and the element at `c` comes from the
coordinate obtained by applying the single-axis maps of the listed axes -/
theorem flip_list_at (a : Arr α) (axes : List Int) (hwf : a.WF) (hpos : ∀ d ∈ a.shape, 0 < d)
    (hv : ∀ x ∈ axes, normalizeAxis a.ndim x < a.ndim) :
    ∃ r, a.flip (some axes) = .ok r ∧ r.shape = a.shape ∧ r.WF ∧
      ∀ c, inRange a.shape c = true →
        r.get? c = a.get? ((axes.map (normalizeAxis a.ndim)).foldr (flipCoord a.shape) c) :=
  flip_list_spec a axes hwf hpos hv

/-- **flip along one axis** (either spelling of the axis): shape kept; the index along that axis is sent to `n − 1 − i`,
every other coordinate stays -/
theorem flip_at (a : Arr α) (ax : Int) (hwf : a.WF) (hpos : ∀ d ∈ a.shape, 0 < d)
    (hk : normalizeAxis a.ndim ax < a.ndim) :
    ∃ r, a.flip (some [ax]) = .ok r ∧ r.shape = a.shape ∧ r.WF ∧
      ∀ c, inRange a.shape c = true →
        r.get? c = a.get? (c.set (normalizeAxis a.ndim ax)
          (a.shape.getD (normalizeAxis a.ndim ax) 0 - 1 - c.getD (normalizeAxis a.ndim ax) 0)) :=
  flip_list_at a [ax] hwf hpos (fun x hx => by simp at hx; subst hx; exact hk)

/-- **both spellings of an axis name the same flip**: `k` and `k − ndim` -/
theorem flip_spellings (a : Arr α) (k : Nat) (hk : k < a.ndim) :
    a.flip (some [(k : Int) - a.ndim]) = a.flip (some [(k : Int)]) := by
  have e1 : normalizeAxis a.ndim ((k : Int) - a.ndim) = k := by
    unfold normalizeAxis; rw [if_pos (by omega)]
    have : ¬ ((k : Int) - a.ndim + a.ndim < 0) := by omega
    simp only [this, if_false]; omega
  have e2 : normalizeAxis a.ndim (k : Int) = k := normalizeAxis_ofNat _ _
  unfold Arr.flip
  simp only [List.map_cons, List.map_nil, e1, e2]

/-- **flip without axes reverses the flat order**: element `i` of the result is element `len − 1 − i` -/
theorem flip_none (a : Arr α) (hwf : a.WF) :
    ∃ r, a.flip none = .ok r ∧ r.shape = a.shape ∧ r.WF ∧
      ∀ i, i < a.elems.length → r.elems[i]? = a.elems[a.elems.length - 1 - i]? := by
  have hl : a.shape.prod = a.elems.reverse.length := by rw [List.length_reverse]; exact hwf.symm
  refine ⟨⟨a.elems.reverse, a.shape⟩, ?_, rfl, hl.symm, fun i hi => List.getElem?_reverse hi⟩
  simp only [Arr.flip, Arr.new, hl, if_true]

/-- **flip without axes, in coordinates**: every coordinate `c[k]` is mirrored to `n_k − 1 − c[k]`
(`flipAll shape c = zipWith (fun d x => d − 1 − x) shape c`) -/
theorem flip_none_at (a : Arr α) (hwf : a.WF) :
    ∃ r, a.flip none = .ok r ∧ r.shape = a.shape ∧ r.WF ∧
      ∀ c, inRange a.shape c = true → r.get? c = a.get? (flipAll a.shape c) :=
  flip_none_spec a hwf

/-- **flip without axes is the flip along all axes** -/
theorem flip_none_eq_all_axes (a : Arr α) (hwf : a.WF) (hpos : ∀ d ∈ a.shape, 0 < d) :
    a.flip none = a.flip (some ((List.range a.ndim).map Int.ofNat)) :=
  flip_none_eq_all a hwf hpos

/-- **the multi-axis flip is the composition of the single-axis flips**, in list order -/
theorem flip_cons (a : Arr α) (x : Int) (xs : List Int) (hwf : a.WF) (hpos : ∀ d ∈ a.shape, 0 < d)
    (hk : normalizeAxis a.ndim x < a.ndim) :
    a.flip (some (x :: xs)) = a.flip (some [x]) >>= fun r => r.flip (some xs) := by
  obtain ⟨es, h1, h2, _⟩ := flipAxis_spec (normalizeAxis a.ndim x) a.shape a.elems hpos hwf hk
  have hl : a.shape.prod = es.length := by rw [h2]; exact hwf.symm
  have hnot : ¬ normalizeAxis a.ndim x ≥ a.ndim := by omega
  have hsingle : a.flip (some [x]) = .ok ⟨es, a.shape⟩ := by
    unfold Arr.flip
    simp only [List.map_cons, List.map_nil, List.any_cons, List.any_nil, hnot, decide_false, Bool.or_false,
      Bool.false_eq_true, if_false, List.foldl_cons, List.foldl_nil, Res.bind_ok, h1, Arr.reshape, Arr.flat, Arr.new, hl, if_true]
  rw [hsingle, Res.bind_ok]
  unfold Arr.flip
  simp only [Arr.ndim] at hnot h1
  simp only [List.map_cons, List.any_cons, hnot, decide_false, Bool.false_or, List.foldl_cons, Res.bind_ok, h1, Arr.ndim]
  rfl

theorem flip_nil (a : Arr α) (hwf : a.WF) : a.flip (some []) = .ok a := by
  unfold Arr.flip
  simp only [List.map_nil, List.any_nil, Bool.false_eq_true, if_false, List.foldl_nil, Res.bind_ok, Arr.reshape, Arr.flat,
    Arr.new, hwf.symm, if_true]

/-- **flipping twice along the same axis restores the array** -/
theorem flip_flip (a : Arr α) (ax : Int) (hwf : a.WF) (hpos : ∀ d ∈ a.shape, 0 < d)
    (hk : normalizeAxis a.ndim ax < a.ndim) :
    (a.flip (some [ax]) >>= fun r => r.flip (some [ax])) = .ok a := by
  obtain ⟨r, h1, h2, h3, h4⟩ := flip_list_at a [ax] hwf hpos (fun x hx => by simp at hx; subst hx; exact hk)
  have hnd : r.ndim = a.ndim := by simp only [Arr.ndim, h2]
  obtain ⟨r2, g1, g2, g3, g4⟩ := flip_list_at r [ax] h3 (by rw [h2]; exact hpos)
    (fun x hx => by simp at hx; subst hx; rw [hnd]; exact hk)
  rw [h1, Res.bind_ok, g1]
  congr 1
  apply Arr.ext_get r2 a g3 hwf (by rw [g2, h2])
  intro c hc
  rw [g2] at hc
  rw [g4 c hc]
  rw [h2] at hc
  simp only [List.map_cons, List.map_nil, List.foldr_cons, List.foldr_nil, hnd, h2] at g4 h4 ⊢
  rw [h4 _ (inRange_flipCoord a.shape c _ hc hk), flipCoord_flipCoord a.shape c _ hc hk]

/-- **reversing the flat order twice restores the array** -/
theorem flip_none_flip_none (a : Arr α) (hwf : a.WF) : (a.flip none >>= fun r => r.flip none) = .ok a := by
  have hl : a.shape.prod = a.elems.length := hwf.symm
  simp only [Arr.flip, Arr.new, List.length_reverse, hl, if_true, Res.bind_ok, List.reverse_reverse]

/-- **an axis outside the rank is refused with an error** (no panic, no data), wherever it stands in the list -/
theorem flip_rejects (a : Arr α) (axes : List Int) (h : ∃ x ∈ axes, normalizeAxis a.ndim x ≥ a.ndim) :
    a.flip (some axes) = .err .AxisOutOfBounds := by
  obtain ⟨x, hx, hge⟩ := h
  have hany : (axes.map (normalizeAxis a.ndim)).any (fun x => decide (x ≥ a.ndim)) = true := by
    rw [List.any_eq_true]
    exact ⟨_, List.mem_map.2 ⟨x, hx, rfl⟩, by simpa using hge⟩
  unfold Arr.flip
  simp only [hany, if_true]

/-- **`flipud` flips axis 0** (rank ≥ 1), **`fliplr` flips axis 1** (rank ≥ 2); below these ranks they refuse -/
theorem flipud_at (a : Arr α) (hwf : a.WF) (hpos : ∀ d ∈ a.shape, 0 < d) (hnd : 1 ≤ a.ndim) :
    ∃ r, a.flipud = .ok r ∧ r.shape = a.shape ∧ r.WF ∧
      ∀ c, inRange a.shape c = true → r.get? c = a.get? (c.set 0 (a.shape.getD 0 0 - 1 - c.getD 0 0)) := by
  have e : normalizeAxis a.ndim 0 = 0 := normalizeAxis_ofNat _ 0
  have := flip_at a 0 hwf hpos (by rw [e]; omega)
  rw [e] at this
  unfold Arr.flipud
  rw [if_neg (by omega)]
  exact this

theorem fliplr_at (a : Arr α) (hwf : a.WF) (hpos : ∀ d ∈ a.shape, 0 < d) (hnd : 2 ≤ a.ndim) :
    ∃ r, a.fliplr = .ok r ∧ r.shape = a.shape ∧ r.WF ∧
      ∀ c, inRange a.shape c = true → r.get? c = a.get? (c.set 1 (a.shape.getD 1 0 - 1 - c.getD 1 0)) := by
  have e : normalizeAxis a.ndim 1 = 1 := normalizeAxis_ofNat _ 1
  have := flip_at a 1 hwf hpos (by rw [e]; omega)
  rw [e] at this
  unfold Arr.fliplr
  rw [if_neg (by omega)]
  exact this

theorem flipud_fliplr_reject (a : Arr α) :
    (a.ndim = 0 → a.flipud = .err .UnsupportedDimension) ∧ (a.ndim < 2 → a.fliplr = .err .UnsupportedDimension) := by
  refine ⟨fun h => ?_, fun h => ?_⟩
  · unfold Arr.flipud; rw [if_pos h]
  · unfold Arr.fliplr; rw [if_pos (by omega)]

/-! ### roll -/

/-- **core of roll**: on the flat element vector, `roll_axis(ax, s)` for EVERY integer `s` succeeds, keeps the length,
and the element at coordinate `c` of the result is the input element at `c` with `c[ax] ↦ (c[ax] − s) mod n` -/
theorem rollAxis_at (ax : Nat) (shape : List Nat) (s : Int) (elems : List α)
    (hpos : ∀ d ∈ shape, 0 < d) (hlen : elems.length = shape.prod) (hax : ax < shape.length) :
    ∃ es, rollAxis ax shape s elems = .ok es ∧ es.length = elems.length ∧
      ∀ c, inRange shape c = true →
        es[ravel shape c]? =
          elems[ravel shape (c.set ax ((((c.getD ax 0 : Nat) : Int) - s) % ((shape.getD ax 0 : Nat) : Int)).toNat)]? :=
  rollAxis_spec ax shape s elems hpos hlen hax

/-- **`Vec::rotate_right(s mod len)` as an index map**, every integer `s` -/
theorem rotateRight_at (l : List α) (s : Int) (i : Nat) (hi : i < l.length) :
    (rotateRight l (s % (l.length : Int)).toNat)[i]? = l[(((i : Int) - s) % (l.length : Int)).toNat]? :=
  (rollPerm_permSpec s).get α l i hi

/-- **roll along the flattened order** (no axis given): shape kept; flat position `i` of the result holds the element
that was at flat position `(i − s) mod len` — i.e. the element at `j` moves to `(j + s) mod len` -/
theorem roll_flat (a : Arr α) (s : Int) (hwf : a.WF) :
    ∃ r, a.roll [s] none = .ok r ∧ r.shape = a.shape ∧ r.WF ∧
      ∀ i, i < a.elems.length → r.elems[i]? = a.elems[(((i : Int) - s) % (a.elems.length : Int)).toNat]? := by
  have hbc := broadcast_flat_same [s] [0] rfl (by simp)
  have hl : a.shape.prod = (rotateRight a.elems (s % (a.elems.length : Int)).toNat).length := by
    rw [rotateRight_length]; exact hwf.symm
  refine ⟨⟨rotateRight a.elems (s % (a.elems.length : Int)).toNat, a.shape⟩, ?_, rfl, hl.symm,
    fun i hi => rotateRight_at a.elems s i hi⟩
  unfold Arr.roll
  simp only [Option.isNone_none, if_true, Option.getD_none, hbc, Res.bind_ok]
  simp only [Arr.ndim, Arr.ravel, Arr.flat, List.length_cons, List.length_nil, List.zip_cons_cons, List.zip_nil_right,
    List.map_cons, List.map_nil, accumShifts, List.find?_nil, List.any_cons, List.any_nil, List.foldl_cons, List.foldl_nil,
    Arr.reshape, Arr.new, hl, if_true]
  simp [normalizeAxis]

/-- **roll with a list of shifts paired with a list of axes of the same length** (repeated axes allowed, any spelling):
shape kept, and the element at `c` comes from the coordinate obtained by composing the single-axis maps of the
accumulated (axis, total shift) pairs -/
theorem roll_list_at (a : Arr α) (shift axs : List Int) (hlen : shift.length = axs.length) (hne : shift ≠ [])
    (hwf : a.WF) (hpos : ∀ d ∈ a.shape, 0 < d) (hv : ∀ x ∈ axs, normalizeAxis a.ndim x < a.ndim) :
    ∃ r, a.roll shift (some axs) = .ok r ∧ r.shape = a.shape ∧ r.WF ∧
      ∀ c, inRange a.shape c = true →
        r.get? c = a.get? ((accumShifts (rollPairs a.ndim shift axs)).foldr (fun p c => rollCoord a.shape p.1 p.2 c) c) := by
  have hbc := broadcast_flat_same shift axs hlen hne
  have hne' : shift.zip axs ≠ [] := by
    cases shift with
    | nil => exact absurd rfl hne
    | cons _ _ => cases axs with
      | nil => simp at hlen
      | cons _ _ => simp
  exact roll_of_bc a shift axs _ _ hbc hne' hwf hpos (fun p hp => hv _ (List.of_mem_zip hp).2)

/-- **one shift for several axes**: the shift is applied along every listed axis (a repeated axis receives it repeatedly) -/
theorem roll_one_shift_at (a : Arr α) (s : Int) (axs : List Int) (hn : 2 ≤ axs.length)
    (hwf : a.WF) (hpos : ∀ d ∈ a.shape, 0 < d) (hv : ∀ x ∈ axs, normalizeAxis a.ndim x < a.ndim) :
    ∃ r, a.roll [s] (some axs) = .ok r ∧ r.shape = a.shape ∧ r.WF ∧
      ∀ c, inRange a.shape c = true →
        r.get? c = a.get? ((accumShifts (axs.map (fun x => (normalizeAxis a.ndim x, s)))).foldr
          (fun p c => rollCoord a.shape p.1 p.2 c) c) := by
  have hbc := broadcast_flat_one_left s axs hn
  have hne' : axs.map (fun x => (s, x)) ≠ [] := by cases axs with | nil => simp at hn | cons _ _ => simp
  obtain ⟨r, h1, h2, h3, h4⟩ := roll_of_bc a [s] axs _ _ hbc hne' hwf hpos
    (fun p hp => by obtain ⟨x, hx, rfl⟩ := List.mem_map.1 hp; exact hv x hx)
  refine ⟨r, h1, h2, h3, ?_⟩
  intro c hc
  rw [h4 c hc]
  simp only [pairsOf, List.map_map]
  rfl

/-- **several shifts for one axis**: they add up -/
theorem roll_one_axis_at (a : Arr α) (shift : List Int) (ax : Int) (hn : 2 ≤ shift.length)
    (hwf : a.WF) (hpos : ∀ d ∈ a.shape, 0 < d) (hk : normalizeAxis a.ndim ax < a.ndim) :
    ∃ r, a.roll shift (some [ax]) = .ok r ∧ r.shape = a.shape ∧ r.WF ∧
      ∀ c, inRange a.shape c = true →
        r.get? c = a.get? (rollCoord a.shape (normalizeAxis a.ndim ax) shift.sum c) := by
  have hbc := broadcast_flat_one_right shift ax hn
  have hne' : shift.map (fun s => (s, ax)) ≠ [] := by cases shift with | nil => simp at hn | cons _ _ => simp
  obtain ⟨r, h1, h2, h3, h4⟩ := roll_of_bc a shift [ax] _ _ hbc hne' hwf hpos
    (fun p hp => by obtain ⟨x, hx, rfl⟩ := List.mem_map.1 hp; exact hk)
  refine ⟨r, h1, h2, h3, ?_⟩
  intro c hc
  rw [h4 c hc]
  have hvalid := pairsOf_valid a.ndim (shift.map (fun s => (s, ax))) (fun p hp => by obtain ⟨x, hx, rfl⟩ := List.mem_map.1 hp; exact hk)
  have hin := inRange_foldr (fun (p : Nat × Int) c => rollCoord a.shape p.1 p.2 c) a.shape (fun p => p.1 < a.shape.length)
      (fun x hx c hc => inRange_rollCoord a.shape c x.1 x.2 hc hx) _ hvalid c hc
  have hl := inRange_length _ _ hc
  congr 1
  apply coord_ext _ _ (by rw [inRange_length _ _ hin, rollCoord_length, hl])
  intro m hm
  rw [inRange_length _ _ hin] at hm
  rw [foldr_rollCoord_getD a.shape hpos _ hvalid c hc m hm, accumShifts_total, getD_rollCoord _ _ _ _ _ (by rw [hl]; exact hk)]
  have htot : ∀ (l : List Int), totalShift (pairsOf a.ndim (l.map (fun s => (s, ax)))) m
      = if normalizeAxis a.ndim ax = m then l.sum else 0 := by
    intro l
    induction l with
    | nil => simp [pairsOf, totalShift]
    | cons x xs ih =>
      simp only [pairsOf, List.map_cons] at ih ⊢
      rw [totalShift_cons, ih]
      split <;> simp
  rw [htot]
  by_cases e : m = normalizeAxis a.ndim ax
  · rw [if_pos e, if_pos e.symm, e]
  · rw [if_neg e, if_neg (fun h => e h.symm)]
    exact rollIdx_zero _ _ (inRange_getD_lt a.shape c hc m hm)

/-- **roll along one axis** (either spelling) by EVERY integer shift: shape kept; the index along the axis is sent to
`(i − s) mod n` (the element at index `j` moves to `(j + s) mod n`), every other coordinate stays -/
theorem roll_at (a : Arr α) (s ax : Int) (hwf : a.WF) (hpos : ∀ d ∈ a.shape, 0 < d)
    (hk : normalizeAxis a.ndim ax < a.ndim) :
    ∃ r, a.roll [s] (some [ax]) = .ok r ∧ r.shape = a.shape ∧ r.WF ∧
      ∀ c, inRange a.shape c = true →
        r.get? c = a.get? (c.set (normalizeAxis a.ndim ax)
          ((((c.getD (normalizeAxis a.ndim ax) 0 : Nat) : Int) - s) % ((a.shape.getD (normalizeAxis a.ndim ax) 0 : Nat) : Int)).toNat) := by
  obtain ⟨r, h1, h2, h3, h4⟩ := roll_list_at a [s] [ax] rfl (by simp) hwf hpos (fun x hx => by simp at hx; subst hx; exact hk)
  refine ⟨r, h1, h2, h3, ?_⟩
  intro c hc
  rw [h4 c hc]
  simp only [rollPairs, List.zip_cons_cons, List.zip_nil_right, List.map_cons, List.map_nil, accumShifts, List.find?_nil,
    List.foldr_cons, List.foldr_nil]
  rfl

/-- **accumulated shifts**: in the multi-axis roll every source coordinate is `(c[k] − S_k) mod n_k`, where `S_k` is the
SUM of all shifts listed for axis `k` (shifts for a repeated axis add up; axes not listed stay) -/
theorem roll_list_total (a : Arr α) (shift axs : List Int) (hlen : shift.length = axs.length) (hne : shift ≠ [])
    (hwf : a.WF) (hpos : ∀ d ∈ a.shape, 0 < d) (hv : ∀ x ∈ axs, normalizeAxis a.ndim x < a.ndim) :
    ∃ r, a.roll shift (some axs) = .ok r ∧ r.shape = a.shape ∧
      ∀ c, inRange a.shape c = true → ∃ c', inRange a.shape c' = true ∧ r.get? c = a.get? c' ∧
        ∀ k, k < a.ndim →
          c'.getD k 0 = ((((c.getD k 0 : Nat) : Int) - totalShift (rollPairs a.ndim shift axs) k) % ((a.shape.getD k 0 : Nat) : Int)).toNat := by
  have hbc := broadcast_flat_same shift axs hlen hne
  have hne' : shift.zip axs ≠ [] := by
    cases shift with
    | nil => exact absurd rfl hne
    | cons _ _ => cases axs with
      | nil => simp at hlen
      | cons _ _ => simp
  exact roll_total_of_bc a shift axs _ _ hbc hne' hwf hpos (fun p hp => hv _ (List.of_mem_zip hp).2)

/-- **rolling by `s` and then by `−s` along the same axis restores the array** -/
theorem roll_roll_neg (a : Arr α) (s ax : Int) (hwf : a.WF) (hpos : ∀ d ∈ a.shape, 0 < d)
    (hk : normalizeAxis a.ndim ax < a.ndim) :
    (a.roll [s] (some [ax]) >>= fun r => r.roll [-s] (some [ax])) = .ok a := by
  obtain ⟨r, h1, h2, h3, h4⟩ := roll_at a s ax hwf hpos hk
  have hnd : r.ndim = a.ndim := by simp only [Arr.ndim, h2]
  obtain ⟨r2, g1, g2, g3, g4⟩ := roll_at r (-s) ax h3 (by rw [h2]; exact hpos) (by rw [hnd]; exact hk)
  rw [h1, Res.bind_ok, g1]
  congr 1
  apply Arr.ext_get r2 a g3 hwf (by rw [g2, h2])
  intro c hc
  rw [g2] at hc
  rw [g4 c hc]
  rw [h2] at hc
  rw [hnd, h2]
  have hkl : normalizeAxis a.ndim ax < c.length := by rw [inRange_length _ _ hc]; exact hk
  have hd : 0 < a.shape.getD (normalizeAxis a.ndim ax) 0 := by
    have := inRange_getD_lt a.shape c hc _ hk; omega
  have e := rollCoord_rollCoord a.shape c (normalizeAxis a.ndim ax) s (-s) hkl hd
  rw [Int.add_right_neg, rollCoord_zero a.shape c _ hc hk] at e
  have hin := inRange_rollCoord a.shape c (normalizeAxis a.ndim ax) (-s) hc hk
  have := h4 _ hin
  simp only [rollCoord, rollIdx] at e hin this
  rw [this, e]

/-- **rolling the flat order by `s` and then by `−s` restores the array** -/
theorem roll_flat_roll_neg (a : Arr α) (s : Int) (hwf : a.WF) :
    (a.roll [s] none >>= fun r => r.roll [-s] none) = .ok a := by
  obtain ⟨r, h1, h2, h3, h4⟩ := roll_flat a s hwf
  obtain ⟨r2, g1, g2, g3, g4⟩ := roll_flat r (-s) h3
  have hl : r.elems.length = a.elems.length := by rw [h3, hwf, h2]
  rw [h1, Res.bind_ok, g1]
  congr 1
  cases r2 with | mk e2 s2 =>
  cases a with | mk ea sa =>
  simp only at g2 h2 hl g4 h4 hwf g3 ⊢
  simp only [Arr.WF] at g3 hwf h3
  subst g2
  congr 1
  · apply List.ext_getElem?
    intro i
    by_cases hi : i < ea.length
    · rw [g4 i (by omega), hl]
      have hlt := rollIdx_lt (-s) ea.length i hi
      have := h4 _ hlt
      simp only [rollIdx] at hlt this
      rw [this]
      have e := rollIdx_rollIdx s (-s) ea.length i (by omega)
      rw [Int.add_right_neg, rollIdx_zero _ _ hi] at e
      simp only [rollIdx] at e
      rw [e]
    · rw [List.getElem?_eq_none (by omega), List.getElem?_eq_none (by omega)]

/-- **axes outside the rank are refused with an error** -/
theorem roll_rejects (a : Arr α) (s ax : Int) (h : normalizeAxis a.ndim ax ≥ a.ndim) :
    a.roll [s] (some [ax]) = .err .AxisOutOfBounds := by
  have hbc := broadcast_flat_same [s] [ax] rfl (by simp)
  unfold Arr.roll
  simp only [Option.isNone_some, Bool.false_eq_true, if_false, Option.getD_some, hbc, Res.bind_ok]
  simp only [Arr.ndim, List.length_cons, List.length_nil, List.zip_cons_cons, List.zip_nil_right,
    List.map_cons, List.map_nil, accumShifts, List.find?_nil, List.any_cons, List.any_nil]
  simp only [Arr.ndim] at h
  simp [h]

/-! ### rot90

`Arr.turn a zero i j` (Lemmas/C12Rot.lean) is ONE quarter turn in the plane of axes `(i, j)`: flip axis `j`, then exchange
axes `i` and `j`; `Arr.turns a zero i j n` is `n` successive turns.  Valid axes: rank ≥ 2 and `−ndim ≤ a0, a1 < ndim`
(the two axes may even coincide). -/

/-- **the turn count only matters modulo 4** (every input, valid or not) -/
theorem rot90_add_four (a : Arr α) (zero : α) (k : Nat) (axes : List Int) :
    a.rot90 zero (k + 4) axes = a.rot90 zero k axes := by
  unfold Arr.rot90; simp only [Nat.add_mod_right]

/-- **zero turns (mod 4) return the array** -/
theorem rot90_zero (a : Arr α) (zero : α) (k : Nat) (a0 a1 : Int) (hnd : 2 ≤ a.ndim)
    (h0 : -(a.ndim : Int) ≤ a0 ∧ a0 < a.ndim) (h1 : -(a.ndim : Int) ≤ a1 ∧ a1 < a.ndim) (hk : k % 4 = 0) :
    a.rot90 zero k [a0, a1] = .ok a := by
  rw [rot90_unfold a zero k a0 a1 hnd h0 h1, if_pos hk]

/-- **one quarter turn is: flip the second axis, then exchange the two axes** (`swapaxes`) -/
theorem rot90_one (a : Arr α) (zero : α) (k : Nat) (a0 a1 : Int) (hnd : 2 ≤ a.ndim)
    (h0 : -(a.ndim : Int) ≤ a0 ∧ a0 < a.ndim) (h1 : -(a.ndim : Int) ≤ a1 ∧ a1 < a.ndim) (hk : k % 4 = 1) :
    a.rot90 zero k [a0, a1] = a.flip (some [a1]) >>= fun r => r.swapaxes zero a0 a1 := by
  rw [rot90_unfold a zero k a0 a1 hnd h0 h1, if_neg (by omega), if_neg (by omega), if_pos hk]
  exact turn_eq_flip_swapaxes a zero a0 a1 (normalize_lt _ _ h0.1 h0.2) (normalize_lt _ _ h1.1 h1.2)

/-- the same single turn, named: `turn` unfolds to exactly that composition -/
theorem turn_def (a : Arr α) (zero : α) (a0 a1 : Int)
    (hi : normalizeAxis a.ndim a0 < a.ndim) (hj : normalizeAxis a.ndim a1 < a.ndim) :
    a.turn zero (normalizeAxis a.ndim a0) (normalizeAxis a.ndim a1)
      = a.flip (some [a1]) >>= fun r => r.swapaxes zero a0 a1 :=
  turn_eq_flip_swapaxes a zero a0 a1 hi hj

/-- **rotating by `k` quarter turns equals `k` successive single turns** — every `k`, every rank ≥ 2, every valid ordered
axis pair in either spelling.  (`k mod 4 = 2` is computed by the code as two flips and `k mod 4 = 3` as exchange-then-flip;
both are proved equal to 2 resp. 3 successive turns through their coordinate maps, and 4 turns are the identity.) -/
theorem rot90_eq_turns (a : Arr α) (zero : α) (k : Nat) (a0 a1 : Int) (hwf : a.WF) (hpos : ∀ d ∈ a.shape, 0 < d)
    (hnd : 2 ≤ a.ndim) (h0 : -(a.ndim : Int) ≤ a0 ∧ a0 < a.ndim) (h1 : -(a.ndim : Int) ≤ a1 ∧ a1 < a.ndim) :
    a.rot90 zero k [a0, a1] = a.turns zero (normalizeAxis a.ndim a0) (normalizeAxis a.ndim a1) k := by
  have hi := normalize_lt _ _ h0.1 h0.2
  have hj := normalize_lt _ _ h1.1 h1.2
  rw [turns_mod a zero _ _ hwf hpos hi hj k, rot90_unfold a zero k a0 a1 hnd h0 h1]
  rcases (by omega : k % 4 = 0 ∨ k % 4 = 1 ∨ k % 4 = 2 ∨ k % 4 = 3) with h | h | h | h
  · rw [h]; rfl
  · rw [h, if_neg (by omega), if_neg (by omega), if_pos rfl]
    simp only [Arr.turns, Res.bind_ok]
  · rw [h, if_neg (by omega), if_pos rfl]
    obtain ⟨r, p1, p2, p3, p4⟩ := rot2_at a a0 a1 _ _ hwf hpos rfl rfl hi hj
    obtain ⟨r', q1, q2, q3, q4⟩ := turns2_at a zero _ _ hwf hpos hi hj
    rw [p1, q1]; congr 1
    apply Arr.ext_get r r' p3 q3 (by rw [p2, q2])
    intro c hc
    rw [p2] at hc
    rw [p4 c hc, q4 c hc]
  · rw [h, if_neg (by omega), if_neg (by omega), if_neg (by omega)]
    obtain ⟨r, p1, p2, p3, p4⟩ := rot3_at a zero _ _ hwf hpos hi hj
    obtain ⟨r', q1, q2, q3, q4⟩ := turns3_at a zero _ _ hwf hpos hi hj
    rw [p1, q1]; congr 1
    apply Arr.ext_get r r' p3 q3 (by rw [p2, q2])
    intro c hc
    rw [p4 c hc, q4 c (by rw [q2, ← p2]; exact hc)]

/-- **coordinates of one, two and three turns**; `i`, `j` the normalised axes, `sw` the exchange of entries `i` and `j`
of a coordinate vector (`permute (swapOrder ndim i j)`):
one turn: shape exchanged, `r[c] = a[flip_j (sw c)]`; two turns: shape kept, both axes flipped; three turns: shape exchanged,
`r[c] = a[flip_i (sw c)]` -/
theorem rot90_at (a : Arr α) (zero : α) (k : Nat) (a0 a1 : Int) (hwf : a.WF) (hpos : ∀ d ∈ a.shape, 0 < d)
    (hnd : 2 ≤ a.ndim) (h0 : -(a.ndim : Int) ≤ a0 ∧ a0 < a.ndim) (h1 : -(a.ndim : Int) ≤ a1 ∧ a1 < a.ndim) :
    ∃ r, a.rot90 zero k [a0, a1] = .ok r ∧ r.WF ∧
      r.shape = (if k % 2 = 0 then a.shape
                 else permute (swapOrder a.ndim (normalizeAxis a.ndim a0) (normalizeAxis a.ndim a1)) a.shape) ∧
      ∀ c, inRange r.shape c = true →
        r.get? c = a.get?
          (if k % 4 = 0 then c
           else if k % 4 = 1 then
             flipCoord a.shape (normalizeAxis a.ndim a1)
               (permute (swapOrder a.ndim (normalizeAxis a.ndim a0) (normalizeAxis a.ndim a1)) c)
           else if k % 4 = 2 then
             flipCoord a.shape (normalizeAxis a.ndim a1) (flipCoord a.shape (normalizeAxis a.ndim a0) c)
           else
             flipCoord a.shape (normalizeAxis a.ndim a0)
               (permute (swapOrder a.ndim (normalizeAxis a.ndim a0) (normalizeAxis a.ndim a1)) c)) := by
  have hi := normalize_lt _ _ h0.1 h0.2
  have hj := normalize_lt _ _ h1.1 h1.2
  rw [rot90_unfold a zero k a0 a1 hnd h0 h1]
  rcases (by omega : k % 4 = 0 ∨ k % 4 = 1 ∨ k % 4 = 2 ∨ k % 4 = 3) with h | h | h | h
  · have h2 : k % 2 = 0 := by omega
    rw [h, h2]; exact ⟨a, rfl, hwf, rfl, fun c _ => rfl⟩
  · have h2 : ¬ k % 2 = 0 := by omega
    rw [h, if_neg h2]
    obtain ⟨r, p1, p2, p3, p4⟩ := turn_at a zero _ _ hwf hpos hi hj
    exact ⟨r, p1, p3, p2, p4⟩
  · have h2 : k % 2 = 0 := by omega
    rw [h, h2]
    obtain ⟨r, p1, p2, p3, p4⟩ := rot2_at a a0 a1 _ _ hwf hpos rfl rfl hi hj
    exact ⟨r, p1, p3, p2, fun c hc => p4 c (by rw [← p2]; exact hc)⟩
  · have h2 : ¬ k % 2 = 0 := by omega
    rw [h, if_neg h2]
    obtain ⟨r, p1, p2, p3, p4⟩ := rot3_at a zero _ _ hwf hpos hi hj
    exact ⟨r, p1, p3, p2, p4⟩

/-- **shape under rotation**: kept for even `k`; for odd `k` the lengths of the two axes are exchanged and every other
axis keeps its length -/
theorem rot90_shape (a : Arr α) (zero : α) (k : Nat) (a0 a1 : Int) (hwf : a.WF) (hpos : ∀ d ∈ a.shape, 0 < d)
    (hnd : 2 ≤ a.ndim) (h0 : -(a.ndim : Int) ≤ a0 ∧ a0 < a.ndim) (h1 : -(a.ndim : Int) ≤ a1 ∧ a1 < a.ndim) :
    ∃ r, a.rot90 zero k [a0, a1] = .ok r ∧ r.ndim = a.ndim ∧
      (k % 2 = 0 → r.shape = a.shape) ∧
      (k % 2 = 1 → ∀ m, m < a.ndim →
        r.shape.getD m 0 = a.shape.getD (if m = normalizeAxis a.ndim a0 then normalizeAxis a.ndim a1
                                          else if m = normalizeAxis a.ndim a1 then normalizeAxis a.ndim a0 else m) 0) := by
  obtain ⟨r, p1, _, p3, _⟩ := rot90_at a zero k a0 a1 hwf hpos hnd h0 h1
  refine ⟨r, p1, ?_, ?_, ?_⟩
  · rw [Arr.ndim, p3]; split
    · rfl
    · exact permute_swap_length _ _ _ _
  · intro h; rw [p3, if_pos h]
  · intro h m hm
    rw [p3, if_neg (by omega), permute_swap_getD _ _ _ _ _ hm]; rfl

/-- **rotations compose additively**: `k` turns followed by `m` turns are `k + m` turns -/
theorem rot90_add (a : Arr α) (zero : α) (k m : Nat) (a0 a1 : Int) (hwf : a.WF) (hpos : ∀ d ∈ a.shape, 0 < d)
    (hnd : 2 ≤ a.ndim) (h0 : -(a.ndim : Int) ≤ a0 ∧ a0 < a.ndim) (h1 : -(a.ndim : Int) ≤ a1 ∧ a1 < a.ndim) :
    (a.rot90 zero k [a0, a1] >>= fun r => r.rot90 zero m [a0, a1]) = a.rot90 zero (k + m) [a0, a1] := by
  have hi := normalize_lt _ _ h0.1 h0.2
  have hj := normalize_lt _ _ h1.1 h1.2
  rw [rot90_eq_turns a zero k a0 a1 hwf hpos hnd h0 h1, rot90_eq_turns a zero (k + m) a0 a1 hwf hpos hnd h0 h1, turns_add]
  obtain ⟨r, q1, q2, q3, q4⟩ := turns_ok a zero _ _ hwf hpos hi hj k
  rw [q1, Res.bind_ok, Res.bind_ok]
  rw [rot90_eq_turns r zero m a0 a1 q2 q3 (by omega) (by rw [q4]; exact h0) (by rw [q4]; exact h1), q4]

/-- **four successive quarter turns restore the array** -/
theorem rot90_four_turns (a : Arr α) (zero : α) (a0 a1 : Int) (hwf : a.WF) (hpos : ∀ d ∈ a.shape, 0 < d)
    (hnd : 2 ≤ a.ndim) (h0 : -(a.ndim : Int) ≤ a0 ∧ a0 < a.ndim) (h1 : -(a.ndim : Int) ≤ a1 ∧ a1 < a.ndim) :
    (((a.rot90 zero 1 [a0, a1] >>= fun r => r.rot90 zero 1 [a0, a1]) >>= fun r => r.rot90 zero 1 [a0, a1])
      >>= fun r => r.rot90 zero 1 [a0, a1]) = .ok a := by
  rw [rot90_add a zero 1 1 a0 a1 hwf hpos hnd h0 h1, rot90_add a zero (1 + 1) 1 a0 a1 hwf hpos hnd h0 h1,
    rot90_add a zero (1 + 1 + 1) 1 a0 a1 hwf hpos hnd h0 h1]
  exact rot90_zero a zero _ a0 a1 hnd h0 h1 rfl

/-- **a rotation followed by the complementary rotation restores the array** -/
theorem rot90_inverse (a : Arr α) (zero : α) (k : Nat) (a0 a1 : Int) (hwf : a.WF) (hpos : ∀ d ∈ a.shape, 0 < d)
    (hnd : 2 ≤ a.ndim) (h0 : -(a.ndim : Int) ≤ a0 ∧ a0 < a.ndim) (h1 : -(a.ndim : Int) ≤ a1 ∧ a1 < a.ndim) :
    (a.rot90 zero k [a0, a1] >>= fun r => r.rot90 zero (4 - k % 4) [a0, a1]) = .ok a := by
  rw [rot90_add a zero k _ a0 a1 hwf hpos hnd h0 h1]
  exact rot90_zero a zero _ a0 a1 hnd h0 h1 (by omega)

/-- **refusals**: rank below 2, an axis list that is not a pair, or an axis outside `[−ndim, ndim)` give an error -/
theorem rot90_rejects_rank (a : Arr α) (zero : α) (k : Nat) (axes : List Int) (h : a.ndim < 2) :
    a.rot90 zero k axes = .err .UnsupportedDimension := by
  unfold Arr.rot90; rw [if_pos (by omega)]

theorem rot90_rejects_axes (a : Arr α) (zero : α) (k : Nat) (a0 a1 : Int) (hnd : 2 ≤ a.ndim)
    (h : ¬ ((-(a.ndim : Int) ≤ a0 ∧ a0 < a.ndim) ∧ (-(a.ndim : Int) ≤ a1 ∧ a1 < a.ndim))) :
    a.rot90 zero k [a0, a1] = .err .ParameterError := by
  unfold Arr.rot90; rw [if_neg (by omega)]
  simp only []
  rw [if_pos (by omega)]

/-! ### non-vacuity -/

example : (⟨List.range 24, [2, 3, 4]⟩ : Arr Nat).WF := by decide
example : ∀ d ∈ (⟨List.range 24, [2, 3, 4]⟩ : Arr Nat).shape, 0 < d := by decide
/-- the inner-axis arm (axis 1 of `[2,3,4]`), the input on which the pinned tree misplaced elements -/
example : (⟨List.range 24, [2, 3, 4]⟩ : Arr Nat).flip (some [1]) =
    .ok ⟨[8, 9, 10, 11, 4, 5, 6, 7, 0, 1, 2, 3, 20, 21, 22, 23, 16, 17, 18, 19, 12, 13, 14, 15], [2, 3, 4]⟩ := by decide
example : (⟨List.range 9, [1, 3, 3]⟩ : Arr Nat).flip (some [-2]) = .ok ⟨[6, 7, 8, 3, 4, 5, 0, 1, 2], [1, 3, 3]⟩ := by decide
/-- a shift larger than the axis (7 on length 3): the pinned tree panicked here -/
example : (⟨[10, 11, 12], [3]⟩ : Arr Nat).roll [7] (some [0]) = .ok ⟨[12, 10, 11], [3]⟩ := by decide
example : (⟨[10, 11, 12], [3]⟩ : Arr Nat).roll [-7] none = .ok ⟨[11, 12, 10], [3]⟩ := by decide
example : (⟨List.range 6, [2, 3]⟩ : Arr Nat).roll [7] (some [1]) = .ok ⟨[2, 0, 1, 5, 3, 4], [2, 3]⟩ := by decide
example : (⟨List.range 6, [2, 3]⟩ : Arr Nat).roll [1, 1] (some [1, -1]) = .ok ⟨[1, 2, 0, 4, 5, 3], [2, 3]⟩ := by decide
example : accumShifts [(1, 1), (0, 5), (1, 1)] = [(0, 5), (1, 2)] := by decide
example : (⟨List.range 6, [2, 3]⟩ : Arr Nat).roll [1] (some [0, 1]) = .ok ⟨[5, 3, 4, 2, 0, 1], [2, 3]⟩ := by decide
example : (⟨List.range 6, [2, 3]⟩ : Arr Nat).roll [1, 2] (some [1]) = .ok ⟨[0, 1, 2, 3, 4, 5], [2, 3]⟩ := by decide
example : (⟨List.range 6, [2, 3]⟩ : Arr Nat).flip none = (⟨List.range 6, [2, 3]⟩ : Arr Nat).flip (some [0, 1]) := by decide
example : (⟨List.range 6, [2, 3]⟩ : Arr Nat).rot90 0 1 [0, 1] = .ok ⟨[2, 5, 1, 4, 0, 3], [3, 2]⟩ := by decide
example : (⟨List.range 6, [2, 3]⟩ : Arr Nat).rot90 0 7 [0, -1] = .ok ⟨[3, 0, 4, 1, 5, 2], [3, 2]⟩ := by decide
example : (2 : Nat) ≤ (⟨List.range 6, [2, 3]⟩ : Arr Nat).ndim ∧ (-(2 : Int) ≤ -1 ∧ (-1 : Int) < 2) := by decide
example : (⟨List.range 6, [2, 3]⟩ : Arr Nat).flip (some [2]) = .err .AxisOutOfBounds := by decide

/-! ### arrays with a zero-length axis, and the total statements (extension; proofs in `Lemmas/C12Empty.lean`)

The coordinate theorems above assume that no axis has length 0.  What follows says what the MODEL does on every well-formed
array that HAS a zero-length axis (such an array has no elements), for every rank and every axis, and closes with
statements about EVERY well-formed array.  The code still CUTS the empty element vector: the first-axis arm into `shape[0]`
blocks, the last-axis arm into `prod shape[..ax]` rows, the inner-axis arm into `shape[0]` blocks with recursion; a cut
into 0 parts is refused (`ParameterError`), a cut of the empty vector into `p > 0` parts gives the single empty piece.
`cutAxes ax shape` (`Lemmas/C12Empty.lean`) = the axes the code cuts along for axis `ax`: `shape[0..ax]`, except that the
last axis of an array of rank ≥ 2 needs `shape[0..ax−1]` only.  Outcome: `Err(ParameterError)` when one of these has length
0, otherwise the array unchanged.  (So the operation is NOT total on empty arrays: `[0,3]` cannot be flipped along any
axis, `[2,0]` along both.)  That the real crate does the same is established by the zero-length stream of the tie. -/

/-- **core, empty vector**: `flip_axis` / `roll_axis` on the empty element vector of a shape with a zero-length axis -/
theorem flipAxis_rollAxis_empty (ax : Nat) (shape : List Nat) (s : Int) (h0 : 0 ∈ shape) (hax : ax < shape.length) :
    flipAxis ax shape ([] : List α) = (if 0 ∈ cutAxes ax shape then .err .ParameterError else .ok []) ∧
    rollAxis ax shape s ([] : List α) = (if 0 ∈ cutAxes ax shape then .err .ParameterError else .ok []) :=
  ⟨flipAxis_nil ax shape (prod_eq_zero_of_mem _ h0) hax, rollAxis_nil ax shape s (prod_eq_zero_of_mem _ h0) hax⟩

/-- the axes cut along are among `shape[0..ax]`: when all of these are non-empty the operation succeeds -/
theorem cutAxes_subset (ax : Nat) (shape : List Nat) : ∀ d ∈ cutAxes ax shape, d ∈ shape.take (ax + 1) := by
  intro d hd
  unfold cutAxes at hd
  split at hd
  · have : shape.take ax = (shape.take (ax + 1)).take ax := by rw [List.take_take]; congr 1; omega
    rw [this] at hd; exact List.mem_of_mem_take hd
  · exact hd

/-- **flip of an empty array along a list of valid axes** (any spelling, repetitions allowed) -/
theorem flip_list_empty (a : Arr α) (axes : List Int) (hwf : a.WF) (h0 : 0 ∈ a.shape)
    (hv : ∀ x ∈ axes, normalizeAxis a.ndim x < a.ndim) :
    a.flip (some axes) =
      if axes.any (fun x => decide (0 ∈ cutAxes (normalizeAxis a.ndim x) a.shape)) then .err .ParameterError else .ok a :=
  flip_empty a axes hwf h0 hv

/-- **flip of an empty array along one axis** -/
theorem flip_axis_empty (a : Arr α) (ax : Int) (hwf : a.WF) (h0 : 0 ∈ a.shape) (hk : normalizeAxis a.ndim ax < a.ndim) :
    a.flip (some [ax]) = if 0 ∈ cutAxes (normalizeAxis a.ndim ax) a.shape then .err .ParameterError else .ok a := by
  rw [flip_empty a [ax] hwf h0 (fun x hx => by simp at hx; subst hx; exact hk)]
  simp only [List.any_cons, List.any_nil, Bool.or_false, decide_eq_true_eq]

/-- **flip without axes, `flipud`, `fliplr` on an empty array** -/
theorem flip_none_ud_lr_empty (a : Arr α) (hwf : a.WF) (h0 : 0 ∈ a.shape) :
    a.flip none = .ok a ∧
    (1 ≤ a.ndim → a.flipud = if 0 ∈ cutAxes 0 a.shape then .err .ParameterError else .ok a) ∧
    (2 ≤ a.ndim → a.fliplr = if 0 ∈ cutAxes 1 a.shape then .err .ParameterError else .ok a) := by
  refine ⟨flip_none_empty a hwf h0, fun h => ?_, fun h => ?_⟩
  · have e : normalizeAxis a.ndim 0 = 0 := normalizeAxis_ofNat _ 0
    have := flip_axis_empty a 0 hwf h0 (by rw [e]; omega)
    rw [e] at this
    unfold Arr.flipud; rw [if_neg (by omega)]; exact this
  · have e : normalizeAxis a.ndim 1 = 1 := normalizeAxis_ofNat _ 1
    have := flip_axis_empty a 1 hwf h0 (by rw [e]; omega)
    rw [e] at this
    unfold Arr.fliplr; rw [if_neg (by omega)]; exact this

/-- **flip is total up to the refusal on empty arrays**: EVERY well-formed array, every list of valid axes: the call
succeeds with the shape kept, or — only possible when the array has a zero-length axis — answers `Err(ParameterError)` -/
theorem flip_total (a : Arr α) (axes : List Int) (hwf : a.WF) (hv : ∀ x ∈ axes, normalizeAxis a.ndim x < a.ndim) :
    (∃ r, a.flip (some axes) = .ok r ∧ r.shape = a.shape ∧ r.WF) ∨
    (0 ∈ a.shape ∧ a.flip (some axes) = .err .ParameterError) := by
  by_cases h0 : 0 ∈ a.shape
  · rw [flip_empty a axes hwf h0 hv]; split
    · exact Or.inr ⟨h0, rfl⟩
    · exact Or.inl ⟨a, rfl, rfl, hwf⟩
  · have hpos : ∀ d ∈ a.shape, 0 < d := fun d hd => Nat.pos_of_ne_zero (fun e => h0 (e ▸ hd))
    obtain ⟨r, h1, h2, h3, _⟩ := flip_list_spec a axes hwf hpos hv
    exact Or.inl ⟨r, h1, h2, h3⟩

/-- **flip never panics**: every well-formed array, every axes argument (none, valid, invalid, any spelling) -/
theorem flip_never_panics (a : Arr α) (axes : Option (List Int)) (hwf : a.WF) : a.flip axes ≠ .panic := by
  cases axes with
  | none => obtain ⟨r, h, _⟩ := flip_none a hwf; rw [h]; exact fun h => nomatch h
  | some axes =>
    by_cases hv : ∀ x ∈ axes, normalizeAxis a.ndim x < a.ndim
    · rcases flip_total a axes hwf hv with ⟨r, h, _⟩ | ⟨_, h⟩ <;> rw [h] <;> exact fun h => nomatch h
    · have : ∃ x ∈ axes, normalizeAxis a.ndim x ≥ a.ndim := by
        apply Classical.byContradiction
        intro hn; apply hv; intro x hx
        apply Classical.byContradiction
        intro hlt; exact hn ⟨x, hx, by omega⟩
      rw [flip_rejects a axes this]; exact fun h => nomatch h

/-- **roll of an empty array along one axis**: rank 1 — unchanged (the rank-1 arm rotates the vector itself, no cut);
rank ≥ 2 — refused when the code cuts along a zero-length axis, otherwise unchanged -/
theorem roll_axis_empty (a : Arr α) (s ax : Int) (hwf : a.WF) (h0 : 0 ∈ a.shape) (hk : normalizeAxis a.ndim ax < a.ndim) :
    a.roll [s] (some [ax]) =
      if 2 ≤ a.ndim ∧ 0 ∈ cutAxes (normalizeAxis a.ndim ax) a.shape then .err .ParameterError else .ok a := by
  have hbc := broadcast_flat_same [s] [ax] rfl (by simp)
  rw [roll_empty_of_bc a [s] [ax] _ _ hbc hwf h0 (fun p hp => by simp at hp; subst hp; exact hk)]
  simp only [pairsOf, List.zip_cons_cons, List.zip_nil_right, List.map_cons, List.map_nil, accumShifts, List.find?_nil,
    List.any_cons, List.any_nil, Bool.or_false, decide_eq_true_eq]

/-- **roll of an empty array with equally long shift / axis lists** (repeated axes allowed) -/
theorem roll_list_empty (a : Arr α) (shift axs : List Int) (hlen : shift.length = axs.length) (hne : shift ≠ [])
    (hwf : a.WF) (h0 : 0 ∈ a.shape) (hv : ∀ x ∈ axs, normalizeAxis a.ndim x < a.ndim) :
    a.roll shift (some axs) =
      if 2 ≤ a.ndim ∧ (accumShifts (rollPairs a.ndim shift axs)).any (fun p => decide (0 ∈ cutAxes p.1 a.shape)) = true
      then .err .ParameterError else .ok a :=
  roll_empty_of_bc a shift axs _ _ (broadcast_flat_same shift axs hlen hne) hwf h0
    (fun _ hp => hv _ (List.of_mem_zip hp).2)

/-- **roll along the flattened order on an empty array**: unchanged -/
theorem roll_flat_of_empty (a : Arr α) (s : Int) (hwf : a.WF) (h0 : 0 ∈ a.shape) : a.roll [s] none = .ok a :=
  roll_flat_empty a s hwf h0

/-- **roll is total up to the refusal on empty arrays**: EVERY well-formed array, equally long shift / axis lists of valid
axes (in particular one shift and one axis), every integer shift: success with the shape kept, or — only when the array has
a zero-length axis — `Err(ParameterError)`; the no-axis form always succeeds (`roll_flat`) -/
theorem roll_total (a : Arr α) (shift axs : List Int) (hlen : shift.length = axs.length) (hne : shift ≠ [])
    (hwf : a.WF) (hv : ∀ x ∈ axs, normalizeAxis a.ndim x < a.ndim) :
    (∃ r, a.roll shift (some axs) = .ok r ∧ r.shape = a.shape ∧ r.WF) ∨
    (0 ∈ a.shape ∧ a.roll shift (some axs) = .err .ParameterError) := by
  by_cases h0 : 0 ∈ a.shape
  · rw [roll_list_empty a shift axs hlen hne hwf h0 hv]; split
    · exact Or.inr ⟨h0, rfl⟩
    · exact Or.inl ⟨a, rfl, rfl, hwf⟩
  · have hpos : ∀ d ∈ a.shape, 0 < d := fun d hd => Nat.pos_of_ne_zero (fun e => h0 (e ▸ hd))
    obtain ⟨r, h1, h2, h3, _⟩ := roll_list_at a shift axs hlen hne hwf hpos hv
    exact Or.inl ⟨r, h1, h2, h3⟩

/-- **roll with one shift never panics**: every well-formed array, every axis argument (none, valid, invalid) -/
theorem roll_never_panics (a : Arr α) (s : Int) (ax : Option Int) (hwf : a.WF) :
    a.roll [s] (ax.map (fun x => [x])) ≠ .panic := by
  cases ax with
  | none => obtain ⟨r, h, _⟩ := roll_flat a s hwf; simp only [Option.map_none, h]; exact fun h => nomatch h
  | some ax =>
    simp only [Option.map_some]
    by_cases hk : normalizeAxis a.ndim ax < a.ndim
    · rcases roll_total a [s] [ax] rfl (by simp) hwf (fun x hx => by simp at hx; subst hx; exact hk) with ⟨r, h, _⟩ | ⟨_, h⟩ <;>
        rw [h] <;> exact fun h => nomatch h
    · rw [roll_rejects a s ax (by omega)]; exact fun h => nomatch h

/-- **roll with equally long lists refuses an axis outside the rank**, wherever it stands in the list (every array) -/
theorem roll_list_rejects_axis (a : Arr α) (shift axs : List Int) (hlen : shift.length = axs.length) (hne : shift ≠ [])
    (h : ∃ x ∈ axs, normalizeAxis a.ndim x ≥ a.ndim) : a.roll shift (some axs) = .err .AxisOutOfBounds :=
  roll_list_rejects a shift axs hlen hne h

/-- **roll with equally long shift / axis lists never panics**: every well-formed array, every axes (valid or not,
repeated or not), every integer shift -/
theorem roll_list_never_panics (a : Arr α) (shift axs : List Int) (hlen : shift.length = axs.length) (hne : shift ≠ [])
    (hwf : a.WF) : a.roll shift (some axs) ≠ .panic := by
  by_cases hv : ∀ x ∈ axs, normalizeAxis a.ndim x < a.ndim
  · rcases roll_total a shift axs hlen hne hwf hv with ⟨r, h, _⟩ | ⟨_, h⟩ <;> rw [h] <;> exact fun h => nomatch h
  · have : ∃ x ∈ axs, normalizeAxis a.ndim x ≥ a.ndim := by
      apply Classical.byContradiction
      intro hn; apply hv; intro x hx
      apply Classical.byContradiction
      intro hlt; exact hn ⟨x, hx, by omega⟩
    rw [roll_list_rejects a shift axs hlen hne this]; exact fun h => nomatch h

/-- **rot90 of an empty array** (rank ≥ 2, valid axes), arm by arm: `k ≡ 0`: unchanged; `k ≡ 2`: the two flips; `k ≡ 1`:
the flip of the second axis, then the exchanged (empty) shape; `k ≡ 3`: the exchange, then the flip on the exchanged shape -/
theorem rot90_empty (a : Arr α) (zero : α) (k : Nat) (a0 a1 : Int) (hwf : a.WF) (hz : 0 ∈ a.shape)
    (hnd : 2 ≤ a.ndim) (h0 : -(a.ndim : Int) ≤ a0 ∧ a0 < a.ndim) (h1 : -(a.ndim : Int) ≤ a1 ∧ a1 < a.ndim) :
    a.rot90 zero k [a0, a1] =
      if k % 4 = 0 then .ok a
      else if k % 4 = 2 then
        (if 0 ∈ cutAxes (normalizeAxis a.ndim a1) a.shape ∨ 0 ∈ cutAxes (normalizeAxis a.ndim a0) a.shape
         then .err .ParameterError else .ok a)
      else if k % 4 = 1 then
        (if 0 ∈ cutAxes (normalizeAxis a.ndim a1) a.shape then .err .ParameterError
         else .ok ⟨[], permute (swapOrder a.ndim (normalizeAxis a.ndim a0) (normalizeAxis a.ndim a1)) a.shape⟩)
      else
        (if 0 ∈ cutAxes (normalizeAxis a.ndim a1)
              (permute (swapOrder a.ndim (normalizeAxis a.ndim a0) (normalizeAxis a.ndim a1)) a.shape)
         then .err .ParameterError
         else .ok ⟨[], permute (swapOrder a.ndim (normalizeAxis a.ndim a0) (normalizeAxis a.ndim a1)) a.shape⟩) := by
  have hi := normalize_lt _ _ h0.1 h0.2
  have hj := normalize_lt _ _ h1.1 h1.2
  obtain ⟨hsw, hzT⟩ := swap_empty a zero _ _ hwf hz hi hj
  have ej : normalizeAxis a.ndim (Int.ofNat (normalizeAxis a.ndim a1)) = normalizeAxis a.ndim a1 := normalizeAxis_ofNat _ _
  rw [rot90_unfold a zero k a0 a1 hnd h0 h1]
  rcases (by omega : k % 4 = 0 ∨ k % 4 = 1 ∨ k % 4 = 2 ∨ k % 4 = 3) with h | h | h | h
  · rw [h]; rfl
  · rw [h, if_neg (by omega), if_neg (by omega), if_pos rfl, if_neg (by omega), if_neg (by omega), if_pos rfl]
    unfold Arr.turn
    rw [flip_axis_empty a _ hwf hz (by rw [ej]; exact hj), ej]
    split
    · rfl
    · rw [Res.bind_ok, hsw]
  · rw [h, if_neg (by omega), if_pos rfl, if_neg (by omega), if_pos rfl]
    rw [flip_axis_empty a a1 hwf hz hj]
    by_cases c1 : 0 ∈ cutAxes (normalizeAxis a.ndim a1) a.shape
    · rw [if_pos c1, if_pos (Or.inl c1)]; rfl
    · rw [if_neg c1, Res.bind_ok, flip_axis_empty a a0 hwf hz hi]
      by_cases c0 : 0 ∈ cutAxes (normalizeAxis a.ndim a0) a.shape
      · rw [if_pos c0, if_pos (Or.inr c0)]
      · rw [if_neg c0, if_neg (by rintro (h | h); exact c1 h; exact c0 h)]
  · rw [h, if_neg (by omega), if_neg (by omega), if_neg (by omega), if_neg (by omega), if_neg (by omega), if_neg (by omega)]
    rw [hsw, Res.bind_ok]
    have hTwf : (⟨[], permute (swapOrder a.ndim (normalizeAxis a.ndim a0) (normalizeAxis a.ndim a1)) a.shape⟩ : Arr α).WF := by
      simp only [Arr.WF, List.length_nil]; exact (prod_eq_zero_of_mem _ hzT).symm
    have hTnd : (⟨[], permute (swapOrder a.ndim (normalizeAxis a.ndim a0) (normalizeAxis a.ndim a1)) a.shape⟩ : Arr α).ndim = a.ndim :=
      permute_swap_length _ _ _ _
    have := flip_axis_empty _ (Int.ofNat (normalizeAxis a.ndim a1)) hTwf hzT (by rw [hTnd, ej]; exact hj)
    rw [hTnd, ej] at this
    exact this

/-- **rot90 is total up to the refusal on empty arrays**: EVERY well-formed array of rank ≥ 2, every `k`, every valid ordered
axis pair: success with a well-formed result whose shape is kept (even `k`) or has the two axis lengths exchanged (odd `k`),
or — only when the array has a zero-length axis — `Err(ParameterError)` -/
theorem rot90_total (a : Arr α) (zero : α) (k : Nat) (a0 a1 : Int) (hwf : a.WF)
    (hnd : 2 ≤ a.ndim) (h0 : -(a.ndim : Int) ≤ a0 ∧ a0 < a.ndim) (h1 : -(a.ndim : Int) ≤ a1 ∧ a1 < a.ndim) :
    (∃ r, a.rot90 zero k [a0, a1] = .ok r ∧ r.WF ∧
      r.shape = (if k % 2 = 0 then a.shape
                 else permute (swapOrder a.ndim (normalizeAxis a.ndim a0) (normalizeAxis a.ndim a1)) a.shape)) ∨
    (0 ∈ a.shape ∧ a.rot90 zero k [a0, a1] = .err .ParameterError) := by
  by_cases hz : 0 ∈ a.shape
  · have hi := normalize_lt _ _ h0.1 h0.2
    have hj := normalize_lt _ _ h1.1 h1.2
    obtain ⟨_, hzT⟩ := swap_empty a zero _ _ hwf hz hi hj
    have hTwf : (⟨[], permute (swapOrder a.ndim (normalizeAxis a.ndim a0) (normalizeAxis a.ndim a1)) a.shape⟩ : Arr α).WF := by
      simp only [Arr.WF, List.length_nil]; exact (prod_eq_zero_of_mem _ hzT).symm
    rw [rot90_empty a zero k a0 a1 hwf hz hnd h0 h1]
    rcases (by omega : k % 4 = 0 ∨ k % 4 = 1 ∨ k % 4 = 2 ∨ k % 4 = 3) with h | h | h | h
    · rw [if_pos h]; exact Or.inl ⟨a, rfl, hwf, by rw [if_pos (by omega)]⟩
    · rw [if_neg (by omega), if_neg (by omega), if_pos h]
      split
      · exact Or.inr ⟨hz, rfl⟩
      · exact Or.inl ⟨_, rfl, hTwf, by rw [if_neg (by omega)]⟩
    · rw [if_neg (by omega), if_pos h]
      split
      · exact Or.inr ⟨hz, rfl⟩
      · exact Or.inl ⟨a, rfl, hwf, by rw [if_pos (by omega)]⟩
    · rw [if_neg (by omega), if_neg (by omega), if_neg (by omega)]
      split
      · exact Or.inr ⟨hz, rfl⟩
      · exact Or.inl ⟨_, rfl, hTwf, by rw [if_neg (by omega)]⟩
  · have hpos : ∀ d ∈ a.shape, 0 < d := fun d hd => Nat.pos_of_ne_zero (fun e => hz (e ▸ hd))
    obtain ⟨r, p1, p2, p3, _⟩ := rot90_at a zero k a0 a1 hwf hpos hnd h0 h1
    exact Or.inl ⟨r, p1, p2, p3⟩

/-- **rot90 never panics**: every well-formed array (any rank, zero-length axes or not), every `k`, every axes list
(a pair or not, in range or not) -/
theorem rot90_never_panics (a : Arr α) (zero : α) (k : Nat) (axes : List Int) (hwf : a.WF) :
    a.rot90 zero k axes ≠ .panic := by
  by_cases hnd : 2 ≤ a.ndim
  swap
  · rw [rot90_rejects_rank a zero k axes (by omega)]; exact fun h => nomatch h
  rcases axes with _ | ⟨a0, _ | ⟨a1, _ | ⟨a2, rest⟩⟩⟩
  · unfold Arr.rot90; split <;> exact fun h => nomatch h
  · unfold Arr.rot90; split <;> exact fun h => nomatch h
  · by_cases hv : (-(a.ndim : Int) ≤ a0 ∧ a0 < a.ndim) ∧ (-(a.ndim : Int) ≤ a1 ∧ a1 < a.ndim)
    · rcases rot90_total a zero k a0 a1 hwf hnd hv.1 hv.2 with ⟨r, h, _⟩ | ⟨_, h⟩ <;> rw [h] <;> exact fun h => nomatch h
    · rw [rot90_rejects_axes a zero k a0 a1 hnd hv]; exact fun h => nomatch h
  · unfold Arr.rot90; split <;> exact fun h => nomatch h

/-! ### non-vacuity of the extension: shapes `[2,0]`, `[0,3]`, `[2,0,3]` -/
example : (⟨[], [2, 0]⟩ : Arr Nat).WF ∧ (⟨[], [0, 3]⟩ : Arr Nat).WF ∧ (⟨[], [2, 0, 3]⟩ : Arr Nat).WF := by decide
example : cutAxes 0 [2, 0] = [2] ∧ cutAxes 1 [2, 0] = [2] ∧ cutAxes 0 [0, 3] = [0] ∧ cutAxes 1 [0, 3] = [0] ∧
    cutAxes 0 [2, 0, 3] = [2] ∧ cutAxes 1 [2, 0, 3] = [2, 0] ∧ cutAxes 2 [2, 0, 3] = [2, 0] ∧ cutAxes 0 [0] = [0] := by decide
example := flip_axis_empty (⟨[], [2, 0, 3]⟩ : Arr Nat) (-3) (by decide) (by decide) (by decide)
example := rot90_empty (⟨[], [2, 0]⟩ : Arr Nat) 0 3 0 1 (by decide) (by decide) (by decide) (by decide) (by decide)
example : (⟨[], [2, 0]⟩ : Arr Nat).flip (some [0]) = .ok ⟨[], [2, 0]⟩ ∧ (⟨[], [2, 0]⟩ : Arr Nat).flip (some [1]) = .ok ⟨[], [2, 0]⟩ := by decide
example : (⟨[], [0, 3]⟩ : Arr Nat).flip (some [0]) = .err .ParameterError ∧
    (⟨[], [0, 3]⟩ : Arr Nat).flip (some [-1]) = .err .ParameterError ∧ (⟨[], [0, 3]⟩ : Arr Nat).flip none = .ok ⟨[], [0, 3]⟩ := by decide
example : (⟨[], [2, 0, 3]⟩ : Arr Nat).flip (some [0]) = .ok ⟨[], [2, 0, 3]⟩ ∧
    (⟨[], [2, 0, 3]⟩ : Arr Nat).flip (some [1]) = .err .ParameterError ∧
    (⟨[], [2, 0, 3]⟩ : Arr Nat).flip (some [2]) = .err .ParameterError ∧
    (⟨[], [2, 0, 3]⟩ : Arr Nat).flip (some [0, 0]) = .ok ⟨[], [2, 0, 3]⟩ := by decide
example : (⟨[], [0]⟩ : Arr Nat).flip (some [0]) = .err .ParameterError ∧ (⟨[], [0]⟩ : Arr Nat).roll [5] (some [0]) = .ok ⟨[], [0]⟩ := by decide
example : (⟨[], [2, 0]⟩ : Arr Nat).roll [7] (some [1]) = .ok ⟨[], [2, 0]⟩ ∧ (⟨[], [2, 0]⟩ : Arr Nat).roll [-1] (some [0]) = .ok ⟨[], [2, 0]⟩ ∧
    (⟨[], [0, 3]⟩ : Arr Nat).roll [1] (some [0]) = .err .ParameterError ∧ (⟨[], [0, 3]⟩ : Arr Nat).roll [1] (some [1]) = .err .ParameterError ∧
    (⟨[], [0, 3]⟩ : Arr Nat).roll [1] none = .ok ⟨[], [0, 3]⟩ := by decide
example : (⟨[], [2, 0, 3]⟩ : Arr Nat).roll [1, 2] (some [0, 0]) = .ok ⟨[], [2, 0, 3]⟩ ∧
    (⟨[], [2, 0, 3]⟩ : Arr Nat).roll [1, 2] (some [0, 2]) = .err .ParameterError := by decide
example : (⟨[], [2, 0]⟩ : Arr Nat).rot90 0 1 [0, 1] = .ok ⟨[], [0, 2]⟩ ∧ (⟨[], [2, 0]⟩ : Arr Nat).rot90 0 2 [0, 1] = .ok ⟨[], [2, 0]⟩ ∧
    (⟨[], [2, 0]⟩ : Arr Nat).rot90 0 3 [0, 1] = .err .ParameterError ∧ (⟨[], [2, 0]⟩ : Arr Nat).rot90 0 4 [0, 1] = .ok ⟨[], [2, 0]⟩ := by decide
example : (⟨[], [0, 3]⟩ : Arr Nat).rot90 0 1 [0, 1] = .err .ParameterError ∧ (⟨[], [0, 3]⟩ : Arr Nat).rot90 0 3 [0, 1] = .ok ⟨[], [3, 0]⟩ := by decide
example : (⟨[], [2, 0, 3]⟩ : Arr Nat).rot90 0 1 [0, 2] = .err .ParameterError ∧
    (⟨[], [2, 0, 3]⟩ : Arr Nat).rot90 0 1 [2, 0] = .ok ⟨[], [3, 0, 2]⟩ := by decide

end ArrModel.C12
