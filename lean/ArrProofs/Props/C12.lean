import ArrModel.Reorder
namespace ArrModel.C12
end ArrModel.C12
