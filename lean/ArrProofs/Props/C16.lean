import ArrProofs.Lemmas.C16
/-!
# C16 — structured constructors put the right value at every coordinate

Property theorems only (helpers: `ArrProofs/Lemmas/C16.lean`).  Model under test: `ArrModel/C16.lean`, which
transcribes `create.rs:389-581`, `create_from.rs:147-257` and the `array_*!` macros arm for arm.
Coordinates are the specification language: `r.get? c = r.elems[ravel r.shape c]?` (C02 makes `ravel` a bijection).

Machine integers: the model is over unbounded `Nat`/`Int`; the two places where the code now names machine bounds
(`saturating_add` in `tri/tril/triu`, the checked side of `diag_1d`) are modelled, and the coordinate theorems carry
the corresponding size hypothesis (`m ≤ isizeMax`, `(len + |k|)² ≤ usizeMax`), true of every array that exists.

What is NOT proved here (tie only, see `claims.d/C16.json`): the `f64` rounding of `linspace/geomspace/logspace`
(the theorems are about exact rationals / an abstract power domain), the `N::from(f64)` casts, and that the values
`N::rand` draws lie in the unit interval (`rand_shape` only says every element *is* a draw).
-/
namespace ArrModel.C16
open ArrModel

variable {α : Type}

/-! ### constant fills -/

/-- **full**: the requested shape, and the value at every coordinate — for every shape of every rank. -/
theorem full_at (shape : List Nat) (v : α) :
    ∃ r, full shape v = .ok r ∧ r.shape = shape ∧ r.WF ∧
      ∀ c, inRange shape c = true → r.get? c = some v := by
  refine ⟨⟨List.replicate shape.prod v, shape⟩, new_ok _ _ (by simp), rfl, by simp [Arr.WF], ?_⟩
  intro c hc
  have := ravel_lt _ _ hc
  simp [Arr.get?, this]

/-- **full_like**: shape of the other array, the value everywhere. -/
theorem fullLike_at (other : Arr α) (v : α) :
    ∃ r, fullLike other v = .ok r ∧ r.shape = other.shape ∧ r.WF ∧
      ∀ c, inRange other.shape c = true → r.get? c = some v :=
  full_at other.shape v

/-- **zeros / ones / *_like** are the fills with 0 and 1. -/
theorem zeros_ones_are_fills (shape : List Nat) (other : Arr Int) :
    zeros shape = full shape 0 ∧ ones shape = full shape 1 ∧
    zerosLike other = full other.shape 0 ∧ onesLike other = full other.shape 1 :=
  ⟨rfl, rfl, rfl, rfl⟩

theorem zeros_at (shape : List Nat) :
    ∃ r, zeros shape = .ok r ∧ r.shape = shape ∧ r.WF ∧ ∀ c, inRange shape c = true → r.get? c = some 0 :=
  full_at shape 0

theorem ones_at (shape : List Nat) :
    ∃ r, ones shape = .ok r ∧ r.shape = shape ∧ r.WF ∧ ∀ c, inRange shape c = true → r.get? c = some 1 :=
  full_at shape 1

/-- **rand**: requested shape, as many elements as the shape's product, and every element is one of the draws
(so a predicate every draw satisfies — "inside the unit interval" — holds for every element). -/
theorem rand_shape (draw : Nat → α) (shape : List Nat) :
    ∃ r, rand draw shape = .ok r ∧ r.shape = shape ∧ r.elems.length = shape.prod ∧
      ∀ (P : α → Prop), (∀ i, P (draw i)) → ∀ x ∈ r.elems, P x := by
  refine ⟨⟨(List.range shape.prod).map draw, shape⟩, new_ok _ _ (by simp), rfl, by simp, ?_⟩
  intro P hP x hx
  obtain ⟨i, _, rfl⟩ := List.mem_map.1 hx
  exact hP i

/-! ### identity-like -/

/-- **eye**: one exactly where `col = row + k`, zero elsewhere — every `n`, `m`, every offset the API can express
(`k : usize`), defaults `m = n`, `k = 0`. -/
theorem eye_at (n : Nat) (m k : Option Nat) :
    ∃ r, eye n m k = .ok r ∧ r.shape = [n, m.getD n] ∧ r.WF ∧
      ∀ i j, i < n → j < m.getD n → r.get? [i, j] = some (if j = i + k.getD 0 then 1 else 0) := by
  refine ⟨_, new_ok _ _ (by simp), rfl, by simp [Arr.WF], ?_⟩
  intro i j hi hj
  rw [get_rangeMap n (m.getD n) _ i j hi hj]
  obtain ⟨h1, h2⟩ := divmod2 (m.getD n) i j hj
  simp only [h1, h2]
  congr 1
  by_cases h : j = i + k.getD 0
  · simp [h]
  · have : ¬ (j ≥ k.getD 0 ∧ j - k.getD 0 = i) := by omega
    simp [h, this]

/-- an offset beyond the matrix gives the zero matrix -/
theorem eye_offset_beyond (n m k : Nat) (h : m ≤ k) :
    ∃ r, eye n (some m) (some k) = .ok r ∧ ∀ i j, i < n → j < m → r.get? [i, j] = some 0 := by
  obtain ⟨r, h1, _, _, h4⟩ := eye_at n (some m) (some k)
  refine ⟨r, h1, fun i j hi hj => ?_⟩
  rw [h4 i j hi hj]
  have : ¬ (j = i + k) := by omega
  simp [this]

/-- **identity = eye n n 0** (the `i % (n+1) == 0` test picks exactly the main diagonal) -/
theorem identity_eq_eye (n : Nat) : identity n = eye n none none ∧ identity n = eye n (some n) (some 0) := by
  have key : identity n = eye n (some n) (some 0) := by
    unfold identity eye
    congr 1
    apply List.map_congr_left
    intro i hi
    have hi' : i < n * n := by simpa using hi
    have := identity_diag n i hi'
    by_cases h : i % (n + 1) = 0
    · simp [h, this.1 h]
    · have h2 : ¬ (i % n = i / n) := fun e => h (this.2 e)
      simp [h, h2]
  exact ⟨key, key⟩

theorem identity_at (n : Nat) :
    ∃ r, identity n = .ok r ∧ r.shape = [n, n] ∧ r.WF ∧
      ∀ i j, i < n → j < n → r.get? [i, j] = some (if j = i then 1 else 0) := by
  rw [(identity_eq_eye n).2]
  simpa using eye_at n (some n) (some 0)

/-- **tri**: ones on and below the k-th diagonal (`col ≤ row + k`), zeros above, for every integer offset
(the code's `saturating_add` agrees with exact addition whenever the column count fits `isize`) -/
theorem tri_at (n : Nat) (m : Option Nat) (k : Option Int) (hm : ((m.getD n : Nat) : Int) ≤ isizeMax) :
    ∃ r, tri n m k = .ok r ∧ r.shape = [n, m.getD n] ∧ r.WF ∧
      ∀ i j, i < n → j < m.getD n →
        r.get? [i, j] = some (if (j : Int) ≤ (i : Int) + k.getD 0 then 1 else 0) := by
  refine ⟨_, new_ok _ _ (by rw [length_flatMap_uniform]; simp), rfl, by simp only [Arr.WF]; rw [length_flatMap_uniform]; simp, ?_⟩
  intro i j hi hj
  simp only [Arr.get?, ravel2]
  rw [getElem?_flatMap_uniform (m.getD n) _ _ i j hj]
  have hs := (satAdd_cmp (j : Int) (i : Int) (k.getD 0) (by omega) (by omega) (by omega)).1
  simp [hi, hs]

/-! ### triangular masks -/

/-- **tril**, every rank ≥ 2 (a stack of `r × m` matrices): the entry at `[…, i, j]` is kept iff `j ≤ i + k`,
otherwise it is zero; shape unchanged. -/
theorem tril_at (a : Arr Int) (k : Option Int) (pre cp : List Nat) (r m i j : Nat)
    (hwf : a.WF) (hs : a.shape = pre ++ [r, m]) (hm : (m : Int) ≤ isizeMax)
    (hc : inRange a.shape (cp ++ [i, j]) = true) :
    ∃ t, tril a k = .ok t ∧ t.shape = a.shape ∧ t.WF ∧
      t.get? (cp ++ [i, j]) = if (j : Int) ≤ (i : Int) + k.getD 0 then a.get? (cp ++ [i, j]) else some 0 := by
  refine ⟨_, applyTriangular_eq a _ _ pre r m hwf hs, rfl, by simp [Arr.WF]; exact hwf, ?_⟩
  have hlt : ravel a.shape (cp ++ [i, j]) < a.elems.length := by rw [hwf]; exact ravel_lt _ _ hc
  rw [hs] at hc
  obtain ⟨e1, e2⟩ := ravel_row_col pre cp r m i j hc
  rw [hs] at hlt
  simp only [Arr.get?, List.getElem?_mapIdx, hs, List.getElem?_eq_getElem hlt, Option.map_some, maskAt, e1, e2]
  have hjm : j < m := (inRange_snoc2 r m i j pre cp (by have := inRange_length _ _ hc; simp at this; omega) hc).2.2
  have hsat := (satAdd_cmp (j : Int) (i : Int) (k.getD 0) (by omega) (by omega) (by omega)).2.1
  by_cases h : (j : Int) ≤ (i : Int) + k.getD 0
  · have : ¬ ((j : Int) > satAdd (i : Int) (k.getD 0)) := by rw [hsat]; omega
    simp [h, this]
  · have : (j : Int) > satAdd (i : Int) (k.getD 0) := by rw [hsat]; omega
    simp [h, this]

/-- **triu**: kept iff `j ≥ i + k`, otherwise zero. -/
theorem triu_at (a : Arr Int) (k : Option Int) (pre cp : List Nat) (r m i j : Nat)
    (hwf : a.WF) (hs : a.shape = pre ++ [r, m]) (hm : (m : Int) ≤ isizeMax)
    (hc : inRange a.shape (cp ++ [i, j]) = true) :
    ∃ t, triu a k = .ok t ∧ t.shape = a.shape ∧ t.WF ∧
      t.get? (cp ++ [i, j]) = if (i : Int) + k.getD 0 ≤ (j : Int) then a.get? (cp ++ [i, j]) else some 0 := by
  refine ⟨_, applyTriangular_eq a _ _ pre r m hwf hs, rfl, by simp [Arr.WF]; exact hwf, ?_⟩
  have hlt : ravel a.shape (cp ++ [i, j]) < a.elems.length := by rw [hwf]; exact ravel_lt _ _ hc
  rw [hs] at hc
  obtain ⟨e1, e2⟩ := ravel_row_col pre cp r m i j hc
  rw [hs] at hlt
  simp only [Arr.get?, List.getElem?_mapIdx, hs, List.getElem?_eq_getElem hlt, Option.map_some, maskAt, e1, e2]
  have hjm : j < m := (inRange_snoc2 r m i j pre cp (by have := inRange_length _ _ hc; simp at this; omega) hc).2.2
  have hsat := (satAdd_cmp (j : Int) (i : Int) (k.getD 0) (by omega) (by omega) (by omega)).2.2
  by_cases h : (i : Int) + k.getD 0 ≤ (j : Int)
  · have : ¬ ((j : Int) < satAdd (i : Int) (k.getD 0)) := by rw [hsat]; omega
    simp [h, this]
  · have : (j : Int) < satAdd (i : Int) (k.getD 0) := by rw [hsat]; omega
    simp [h, this]

/-- **lower(k) + upper(k+1) reassemble the input** (elementwise sum over the whole element list), and both
results are well-formed arrays of the input's shape.  Holds for empty matrices too (zero-length sides). -/
theorem tril_add_triu (a : Arr Int) (k : Int) (pre : List Nat) (r m : Nat)
    (hwf : a.WF) (hs : a.shape = pre ++ [r, m]) (hm : (m : Int) ≤ isizeMax) :
    ∃ l u, tril a (some k) = .ok l ∧ triu a (some (k + 1)) = .ok u ∧
      l.shape = a.shape ∧ u.shape = a.shape ∧ l.WF ∧ u.WF ∧
      List.zipWith (· + ·) l.elems u.elems = a.elems := by
  refine ⟨_, _, applyTriangular_eq a _ _ pre r m hwf hs, applyTriangular_eq a _ _ pre r m hwf hs, rfl, rfl,
    by simp [Arr.WF]; exact hwf, by simp [Arr.WF]; exact hwf, ?_⟩
  apply List.ext_getElem (by simp)
  intro idx h1 h2
  simp only [List.getElem_zipWith, List.getElem_mapIdx, maskAt, Option.getD_some]
  simp only [decide_eq_true_eq]
  have hm0 : 0 < m := by
    rcases Nat.eq_zero_or_pos m with h0 | h0
    · have : a.elems.length = 0 := by rw [hwf, hs, h0]; simp [List.prod_append]
      omega
    · exact h0
  have hjm : idx % m < m := Nat.mod_lt _ hm0
  have s1 := (satAdd_cmp ((idx % m : Nat) : Int) ((idx / m % r : Nat) : Int) k (by omega) (by omega) (by omega)).2.1
  have s2 := (satAdd_cmp ((idx % m : Nat) : Int) ((idx / m % r : Nat) : Int) (k + 1) (by omega) (by omega) (by omega)).2.2
  simp only [s1, s2]
  split <;> split <;> omega

/-- **exactly one of the two keeps each entry**: at every coordinate, either the lower part holds the input's
entry and the upper part holds zero (`j ≤ i + k`), or the other way round (`j > i + k`). -/
theorem tril_triu_partition (a : Arr Int) (k : Int) (pre cp : List Nat) (r m i j : Nat)
    (hwf : a.WF) (hs : a.shape = pre ++ [r, m]) (hm : (m : Int) ≤ isizeMax)
    (hc : inRange a.shape (cp ++ [i, j]) = true) :
    ∃ l u, tril a (some k) = .ok l ∧ triu a (some (k + 1)) = .ok u ∧
      (((j : Int) ≤ (i : Int) + k ∧ l.get? (cp ++ [i, j]) = a.get? (cp ++ [i, j]) ∧ u.get? (cp ++ [i, j]) = some 0) ∨
       ((j : Int) > (i : Int) + k ∧ l.get? (cp ++ [i, j]) = some 0 ∧ u.get? (cp ++ [i, j]) = a.get? (cp ++ [i, j]))) := by
  obtain ⟨l, hl, _, _, hl4⟩ := tril_at a (some k) pre cp r m i j hwf hs hm hc
  obtain ⟨u, hu, _, _, hu4⟩ := triu_at a (some (k + 1)) pre cp r m i j hwf hs hm hc
  refine ⟨l, u, hl, hu, ?_⟩
  simp only [Option.getD_some] at hl4 hu4
  by_cases h : (j : Int) ≤ (i : Int) + k
  · left
    have : ¬ ((i : Int) + (k + 1) ≤ (j : Int)) := by omega
    exact ⟨h, by rw [hl4, if_pos h], by rw [hu4, if_neg this]⟩
  · right
    have : (i : Int) + (k + 1) ≤ (j : Int) := by omega
    exact ⟨by omega, by rw [hl4, if_neg h], by rw [hu4, if_pos this]⟩

/-- ranks 0 and 1 have no diagonal: both masks refuse with an error value (never a panic) -/
theorem tril_triu_rank_lt_two (a : Arr Int) (k : Option Int) (h : a.shape.length < 2) :
    tril a k = .err .UnsupportedDimension ∧ triu a k = .err .UnsupportedDimension := by
  unfold tril triu applyTriangular
  simp [h]

/-- neither mask ever panics on a well-formed array -/
theorem tril_triu_never_panic (a : Arr Int) (k : Option Int) : tril a k ≠ .panic ∧ triu a k ≠ .panic := by
  have key : ∀ cmp, applyTriangular a (k.getD 0) cmp ≠ .panic := by
    intro cmp
    unfold applyTriangular
    split
    · simp
    · simp only [chunks]
      rw [if_neg (by omega)]
      simp only [Arr.new]
      split <;> simp
  exact ⟨key _, key _⟩

/-! ### diag / diagflat -/

/-- **vector → matrix**: side `len + |k|`, the vector on the k-th diagonal (`col = row + k`), zero elsewhere -/
theorem diag_vector_at (v : List Int) (k : Int)
    (hb : (v.length + k.natAbs) * (v.length + k.natAbs) ≤ usizeMax) :
    ∃ d, diag (Arr.flat v) (some k) = .ok d ∧ d.shape = [v.length + k.natAbs, v.length + k.natAbs] ∧ d.WF ∧
      ∀ i j, i < v.length + k.natAbs → j < v.length + k.natAbs →
        d.get? [i, j] = some (if (j : Int) = (i : Int) + k then v.getD (min i j) 0 else 0) := by
  refine ⟨⟨(List.range ((v.length + k.natAbs) * (v.length + k.natAbs))).map (diag1dAt v k),
    [v.length + k.natAbs, v.length + k.natAbs]⟩, ?_, rfl, by simp [Arr.WF], ?_⟩
  · unfold diag
    simp only [Arr.flat, Arr.ndim, List.length_cons, List.length_nil, Option.getD_some]
    simpa [Arr.flat] using diag1d_eq v k hb
  · intro i j hi hj
    rw [get_rangeMap _ _ _ i j hi hj, diag1dAt_coord v k i j hi hj]

/-- a result whose element count `(len + |k|)²` does not fit `usize` is refused with an error value (no panic) -/
theorem diag_vector_too_large (v : List Int) (k : Int)
    (hb : (v.length + k.natAbs) * (v.length + k.natAbs) > usizeMax) :
    diag (Arr.flat v) (some k) = .err .OutOfBounds := by
  unfold diag
  simp only [Arr.flat, Arr.ndim, List.length_cons, List.length_nil, Option.getD_some]
  simpa [Arr.flat] using diag1d_too_large v k hb

/-- **matrix → vector**: the k-th diagonal of an `r × c` matrix, entry `t` read at `[(-k)⁺ + t, k⁺ + t]`,
as long as the diagonal is (`min (r - (-k)⁺) (c - k⁺)` entries; empty when the offset is beyond the matrix) -/
theorem diag_matrix_at (a : Arr Int) (r c : Nat) (k : Int) (hwf : a.WF) (hs : a.shape = [r, c]) :
    ∃ d, diag a (some k) = .ok d ∧ d.shape = [d.elems.length] ∧
      d.elems.length = min (r - (-k).toNat) (c - k.toNat) ∧
      ∀ t, t < d.elems.length → d.elems[t]? = a.get? [(-k).toNat + t, k.toNat + t] := by
  refine ⟨Arr.flat ((diagPairs r c k).map fun p => a.elems.getD (p.1 * c + p.2) 0), ?_, by simp [Arr.flat],
    by simp [Arr.flat, diagPairs_length], ?_⟩
  · unfold diag
    simp only [Arr.ndim, hs, List.length_cons, List.length_nil, Option.getD_some]
    simpa using diag2d_eq a r c k hwf hs
  · intro t ht
    simp only [Arr.flat, List.length_map] at ht
    have hp := diagPairs_getElem r c k t ht
    have hm := diagPairs_mem r c k _ (List.getElem_mem ht)
    rw [hp] at hm
    have hlen : a.elems.length = r * c := by rw [hwf, hs]; simp
    have hlt : ((-k).toNat + t) * c + (k.toNat + t) < a.elems.length := by rw [hlen]; exact lt2 r c _ _ hm.1 hm.2
    simp only [Arr.flat, Arr.get?, hs, ravel2, List.getElem?_map, List.getElem?_eq_getElem ht, hp, Option.map_some]
    simp [List.getD_eq_getElem?_getD, hlt]

/-- **building a diagonal matrix from a vector and extracting that diagonal are inverse**, every vector, every offset -/
theorem diag_diag (v : List Int) (k : Int)
    (hb : (v.length + k.natAbs) * (v.length + k.natAbs) ≤ usizeMax) :
    ∃ d, diag (Arr.flat v) (some k) = .ok d ∧ diag d (some k) = .ok (Arr.flat v) := by
  obtain ⟨d, hd, hshape, hwf, hat⟩ := diag_vector_at v k hb
  obtain ⟨e, he, heshape, helen, heat⟩ := diag_matrix_at d _ _ k hwf hshape
  refine ⟨d, hd, ?_⟩
  rw [he]
  have hl : e.elems.length = v.length := by rw [helen]; omega
  have hel : e.elems = v := by
    apply List.ext_getElem?
    intro t
    by_cases ht : t < v.length
    · rw [heat t (by omega), hat _ _ (by omega) (by omega)]
      have h1 : ((k.toNat + t : Nat) : Int) = (((-k).toNat + t : Nat) : Int) + k := by omega
      have h2 : min ((-k).toNat + t) (k.toNat + t) = t := by omega
      simp [h1, h2, List.getD_eq_getElem?_getD, ht]
    · rw [List.getElem?_eq_none (by omega), List.getElem?_eq_none (by omega)]
  cases e with
  | mk elems shape =>
    simp only at hel heshape
    subst hel
    simp [Arr.flat, heshape]

/-- **diagflat = diag ∘ ravel**: for an array of any rank the result holds its elements, in row-major order,
on the k-th diagonal of a square matrix of side `len + |k|` -/
theorem diagflat_at (a : Arr Int) (k : Int)
    (hb : (a.elems.length + k.natAbs) * (a.elems.length + k.natAbs) ≤ usizeMax) :
    diagflat a (some k) = diag (Arr.flat a.elems) (some k) ∧
    ∃ d, diagflat a (some k) = .ok d ∧ d.shape = [a.elems.length + k.natAbs, a.elems.length + k.natAbs] ∧
      ∀ i j, i < a.elems.length + k.natAbs → j < a.elems.length + k.natAbs →
        d.get? [i, j] = some (if (j : Int) = (i : Int) + k then a.elems.getD (min i j) 0 else 0) := by
  refine ⟨rfl, ?_⟩
  obtain ⟨d, h1, h2, _, h4⟩ := diag_vector_at a.elems k hb
  exact ⟨d, h1, h2, h4⟩

/-- ranks other than 1 and 2 are refused with an error value -/
theorem diag_unsupported (a : Arr Int) (k : Option Int) (h : a.ndim ≠ 1 ∧ a.ndim ≠ 2) :
    diag a k = .err .UnsupportedDimension := by
  unfold diag
  rw [if_pos (by omega)]

/-! ### vander -/

/-- **power matrix**: row `i`, column `j` holds `xᵢ ^ (n-1-j)` (decreasing, the default) or `xᵢ ^ j` (increasing) -/
theorem vander_at (v : List Int) (n : Option Nat) (increasing : Option Bool) :
    ∃ r, vander (Arr.flat v) n increasing = .ok r ∧ r.shape = [v.length, n.getD v.length] ∧ r.WF ∧
      ∀ i j, i < v.length → j < n.getD v.length →
        r.get? [i, j] = some (v.getD i 0 ^ (if increasing.getD false then j else n.getD v.length - j - 1)) := by
  refine ⟨⟨v.flatMap fun item => (List.range (n.getD v.length)).map fun i =>
      item ^ (if increasing.getD false then i else n.getD v.length - i - 1), [v.length, n.getD v.length]⟩,
    ?_, rfl, by simp only [Arr.WF]; rw [length_flatMap_uniform]; simp, ?_⟩
  · unfold vander
    simp only [Arr.flat, Arr.ndim, List.length_cons, List.length_nil, Res.idx, List.getElem?_cons_zero]
    simp only [ne_eq, not_true_eq_false, if_false]
    exact new_ok _ _ (by rw [length_flatMap_uniform]; simp)
  · intro i j hi hj
    simp only [Arr.get?, ravel2]
    rw [getElem?_flatMap_uniform (n.getD v.length) _ _ i j hj]
    simp [List.getD_eq_getElem?_getD, hi]

/-! ### ranges -/

/-- **arange**, step ≥ 1 (in particular every positive whole-number step): the terms are `start + i·step`, and
none passes the stop.  (The count is `⌊(stop + 1 − start)/step⌋`, clipped at 0; it is *not* always the largest
count with that property — `arange 0 4 2 = [0, 2]` — and the statement does not ask for that.) -/
theorem arange_spec (start stop step : Rat) (hstep : 1 ≤ step) :
    ∃ r, arange start stop (some step) = .ok r ∧
      r.shape = [r.elems.length] ∧ r.elems.length = ((stop + 1 - start) / step).floor.toNat ∧
      ∀ i, i < r.elems.length → r.elems[i]? = some (start + (i : Rat) * step) ∧ start + (i : Rat) * step ≤ stop := by
  have hne : step ≠ 0 := by grind
  refine ⟨Arr.flat (arangeLoop step ((stop + 1 - start) / step).floor.toNat start), ?_, rfl,
    by simp [Arr.flat, arangeLoop_length], ?_⟩
  · unfold arange
    simp only [Option.getD_some]
    rw [if_neg hne]
  · intro i hi
    simp only [Arr.flat, arangeLoop_length] at hi
    exact ⟨arangeLoop_getElem? step _ start i hi, arange_bound start stop step hstep i hi⟩

/-- default step 1 -/
theorem arange_default_step (start stop : Rat) : arange start stop none = arange start stop (some 1) := rfl

/-- a zero step is refused with an error value (no panic, no array) -/
theorem arange_zero_step_refused (start stop : Rat) : arange start stop (some 0) = .err .ParameterError := by
  unfold arange; simp

/-! ### evenly spaced -/

/-- `linspace` never fails; closed form of its result -/
theorem linspace_ok (start stop : Rat) (n : Nat) (e : Bool) :
    linspace start stop (some n) (some e) = .ok (Arr.flat ((List.range n).map fun i =>
      if e = true ∧ i = n - 1 then stop
      else (i : Rat) * ((stop - start) / ((n - (if e then 1 else 0) : Nat) : Rat)) + start)) := by
  unfold linspace
  simp only [Option.getD_some]

/-- **count**: the requested number of points, as a 1-D array -/
theorem linspace_len (start stop : Rat) (n : Nat) (e : Bool) (r : Arr Rat)
    (h : linspace start stop (some n) (some e) = .ok r) : r.shape = [n] ∧ r.elems.length = n := by
  rw [linspace_ok start stop n e] at h
  cases h
  simp [Arr.flat]

/-- **zero points**: the empty 1-D array, with either endpoint setting (no underflow, no panic) -/
theorem linspace_zero (start stop : Rat) (e : Option Bool) :
    linspace start stop (some 0) e = .ok (Arr.flat []) := by
  unfold linspace; simp

/-- **two or more points begin at the start value** -/
theorem linspace_first (start stop : Rat) (n : Nat) (e : Bool) (hn : 2 ≤ n) (r : Arr Rat)
    (h : linspace start stop (some n) (some e) = .ok r) : r.elems[0]? = some start := by
  rw [linspace_ok start stop n e] at h
  cases h
  have : ¬ (0 = n - 1) := by omega
  simp [Arr.flat, this, Rat.zero_mul, Rat.zero_add, show 0 < n by omega]

/-- **and end at the stop value when the endpoint is requested** -/
theorem linspace_last (start stop : Rat) (n : Nat) (hn : 1 ≤ n) (r : Arr Rat)
    (h : linspace start stop (some n) (some true) = .ok r) : r.elems[n - 1]? = some stop := by
  rw [linspace_ok start stop n true] at h
  cases h
  simp [Arr.flat, show n - 1 < n by omega]

/-- **constant difference** `(stop − start)/(n − 1)` with the endpoint, `(stop − start)/n` without, between every two
consecutive points (including the last pair, whose second member is the stop value itself) — exact arithmetic -/
theorem linspace_step (start stop : Rat) (n : Nat) (e : Bool) (hn : 2 ≤ n) (r : Arr Rat)
    (h : linspace start stop (some n) (some e) = .ok r) (i : Nat) (hi : i + 1 < n) :
    ∃ x y, r.elems[i]? = some x ∧ r.elems[i + 1]? = some y ∧
      y - x = (stop - start) / ((n - (if e then 1 else 0) : Nat) : Rat) := by
  rw [linspace_ok start stop n e] at h
  cases h
  simp only [Arr.flat, List.getElem?_map, List.getElem?_range hi, List.getElem?_range (show i < n by omega), Option.map_some]
  refine ⟨_, _, rfl, rfl, ?_⟩
  have h1 : ¬ (i = n - 1) := by omega
  have hc : ((i + 1 : Nat) : Rat) = (i : Rat) + 1 := by simp
  by_cases hl : i + 1 = n - 1
  · cases e
    · simp [h1, hc]; grind
    · -- the last pair: stop − ((n−2)·step + start) = step  since (n−1)·step = stop − start
      have hd : ((n - 1 : Nat) : Rat) = (i : Rat) + 1 := by rw [← hl]; simp
      have hne : (i : Rat) + 1 ≠ 0 := by
        have : (0 : Rat) ≤ (i : Rat) := Rat.natCast_nonneg
        grind
      simp [h1, hl, hd]
      grind
  · simp [h1, hl, hc]; grind

/-! ### geometrically spaced (abstract power domain) -/

/-- the laws of multiplication, division and real powers on the positive reals that the theorems use -/
structure PowLaws {R : Type} (P : PowOps R) : Prop where
  mul_assoc : ∀ a b c, P.mul (P.mul a b) c = P.mul a (P.mul b c)
  powf_add : ∀ x p q, P.mul (P.powf x p) (P.powf x q) = P.powf x (p + q)
  powf_powf : ∀ x p q, P.powf (P.powf x p) q = P.powf x (p * q)
  powf_one : ∀ x, P.powf x 1 = x
  mul_powf_zero : ∀ a x, P.mul a (P.powf x 0) = a
  mul_div_cancel : ∀ s t, P.mul s (P.div t s) = t
  div_powf : ∀ b p q, P.div (P.powf b p) (P.powf b q) = P.powf b (p - q)

/-- the laws are satisfiable: logarithmic coordinates (`x ↦ log x`: mul is +, div is −, powf is scaling) -/
def logDomain : PowOps Rat := ⟨(· + ·), (· - ·), (· * ·)⟩

theorem logDomain_laws : PowLaws logDomain := by
  constructor <;> intros <;> grind [logDomain]

variable {R : Type} (P : PowOps R)

theorem geomspace_ok (isZero : R → Bool) (s t : R) (n : Nat) (e : Bool)
    (hs : isZero s = false) (ht : isZero t = false) :
    geomspace P isZero s t (some n) (some e) = .ok ((List.range n).map fun i =>
      if e = true ∧ i = n - 1 then t
      else P.mul s (P.powf (P.powf (P.div t s) (1 / ((n - (if e then 1 else 0) : Nat) : Rat))) (i : Rat))) := by
  unfold geomspace
  simp only [Option.getD_some, hs, ht, Bool.false_eq_true, if_false]

/-- zero points: the empty sequence (no underflow, no panic) -/
theorem geomspace_zero_points (isZero : R → Bool) (s t : R) (e : Option Bool)
    (hs : isZero s = false) (ht : isZero t = false) :
    geomspace P isZero s t (some 0) e = .ok [] := by
  unfold geomspace; simp [hs, ht]

/-- a zero start or stop is refused with an error value -/
theorem geomspace_zero (isZero : R → Bool) (s t : R) (n : Option Nat) (e : Option Bool)
    (h : isZero s = true ∨ isZero t = true) : geomspace P isZero s t n e = .err .ParameterError := by
  unfold geomspace
  rcases h with h | h
  · simp [h]
  · cases hs : isZero s <;> simp [h]

/-- **count, first, last, constant ratio** of a geometric sequence of two or more points: consecutive terms differ by
the factor `ratio = (stop/start)^(1/(n−1))` (endpoint) or `(stop/start)^(1/n)` (no endpoint), the sequence begins at
`start` and, with the endpoint, ends at `stop` — which is itself `previous · ratio`. -/
theorem geomspace_spec (L : PowLaws P) (isZero : R → Bool) (s t : R) (n : Nat) (e : Bool) (hn : 2 ≤ n) (r : List R)
    (h : geomspace P isZero s t (some n) (some e) = .ok r) :
    r.length = n ∧ r[0]? = some s ∧ (e = true → r[n - 1]? = some t) ∧
    ∀ i, i + 1 < n → ∃ x y, r[i]? = some x ∧ r[i + 1]? = some y ∧
      y = P.mul x (P.powf (P.div t s) (1 / ((n - (if e then 1 else 0) : Nat) : Rat))) := by
  have hs : isZero s = false := by
    cases hz : isZero s
    · rfl
    · rw [geomspace_zero P isZero s t _ _ (Or.inl hz)] at h; cases h
  have ht : isZero t = false := by
    cases hz : isZero t
    · rfl
    · rw [geomspace_zero P isZero s t _ _ (Or.inr hz)] at h; cases h
  rw [geomspace_ok P isZero s t n e hs ht] at h
  cases h
  refine ⟨by simp, ?_, ?_, ?_⟩
  · have : ¬ (0 = n - 1) := by omega
    simp [this, show 0 < n by omega, L.mul_powf_zero]
  · intro he
    simp [he, show n - 1 < n by omega]
  · intro i hi
    simp only [List.getElem?_map, List.getElem?_range hi, List.getElem?_range (show i < n by omega), Option.map_some]
    refine ⟨_, _, rfl, rfl, ?_⟩
    have h1 : ¬ (i = n - 1) := by omega
    have hc : ((i + 1 : Nat) : Rat) = (i : Rat) + 1 := by simp
    -- x · ratio = start · ratio^(i+1)
    have step : ∀ ratio : R, P.mul (P.mul s (P.powf ratio (i : Rat))) ratio = P.mul s (P.powf ratio ((i : Rat) + 1)) := by
      intro ratio
      have := L.powf_add ratio (i : Rat) 1
      rw [L.powf_one] at this
      rw [L.mul_assoc, this]
    by_cases hl : i + 1 = n - 1
    · cases e
      · simp only [h1, Bool.false_eq_true, false_and, if_false, hc, step]
      · -- the last pair: stop = start · ratio^(n−1) = start · (stop/start)
        have hd : ((n - 1 : Nat) : Rat) = (i : Rat) + 1 := by rw [← hl]; simp
        have hne : (i : Rat) + 1 ≠ 0 := by
          have : (0 : Rat) ≤ (i : Rat) := Rat.natCast_nonneg
          grind
        simp only [h1, hl, true_and, if_true, if_false, hd, step]
        rw [L.powf_powf, show 1 / ((i : Rat) + 1) * ((i : Rat) + 1) = 1 by grind, L.powf_one, L.mul_div_cancel]
    · have h2 : ¬ (i + 1 = n - 1) := hl
      simp only [h1, h2, and_false, if_false, hc, step]

/-- **the logarithmic form is the base raised to evenly spaced exponents**: whenever both succeed,
`logspace base start stop n e = (linspace start stop n e).map (base ^ ·)`, element for element — every count,
both endpoint settings, defaults included. -/
theorem logspace_eq_base_pow_linspace (L : PowLaws P) (base : R) (start stop : Rat) (n : Option Nat) (e : Option Bool)
    (r : List R) (l : Arr Rat)
    (hr : logspace P base start stop n e = .ok r) (hl : linspace start stop n e = .ok l) :
    r = l.elems.map (P.powf base) := by
  unfold logspace at hr
  unfold linspace at hl
  simp only at hr hl
  cases hr
  cases hl
  simp only [Arr.flat, List.map_map]
  apply List.map_congr_left
  intro i _
  simp only [Function.comp]
  split
  · rfl
  · rw [L.div_powf, L.powf_powf, L.powf_powf, L.powf_add]
    congr 1
    grind

/-- `logspace` and `linspace` never fail (in particular not for zero points), and have the requested count -/
theorem logspace_linspace_total (base : R) (start stop : Rat) (n : Option Nat) (e : Option Bool) :
    (∃ r, logspace P base start stop n e = .ok r ∧ r.length = n.getD 50) ∧
    (∃ l, linspace start stop n e = .ok l ∧ l.elems.length = n.getD 50) := by
  unfold logspace linspace
  exact ⟨⟨_, rfl, by simp⟩, ⟨_, rfl, by simp [Arr.flat]⟩⟩

/-! ### the `array_*!` macros -/

/-- `array_eye!(T, n)`, `array_eye!(T, n, m)`, `array_eye!(T, n, m, k)`: the `eye` predicate with the macro's defaults -/
theorem macro_eye_at (n : Nat) (m k : Option Nat) :
    ∃ r, macroEye n m k = .ok r ∧ r.shape = [n, m.getD n] ∧
      ∀ i j, i < n → j < m.getD n → r.get? [i, j] = some (if j = i + k.getD 0 then 1 else 0) := by
  obtain ⟨r, h1, h2, _, h4⟩ := eye_at n (some (m.getD n)) (some (k.getD 0))
  exact ⟨r, h1, h2, h4⟩

/-! ### non-vacuity: concrete instances meeting the hypotheses, evaluated on the very definitions -/

example : eye 2 (some 3) (some 1) = .ok ⟨[0, 1, 0, 0, 0, 1], [2, 3]⟩ := by decide
example : identity 3 = .ok ⟨[1, 0, 0, 0, 1, 0, 0, 0, 1], [3, 3]⟩ := by decide
example : tri 3 none (some (-1)) = .ok ⟨[0, 0, 0, 1, 0, 0, 1, 1, 0], [3, 3]⟩ := by decide
-- a 2 × 3 × 3 stack: `pre = [2]`, `r = m = 3`
example : (⟨(List.range 18).map (fun (i : Nat) => (i : Int) + 1), [2, 3, 3]⟩ : Arr Int).WF ∧
    inRange [2, 3, 3] ([1] ++ [2, 1]) = true := by decide
example : tril ⟨[1, 2, 3, 4, 5, 6], [2, 3]⟩ (some 0) = .ok ⟨[1, 0, 0, 4, 5, 0], [2, 3]⟩ := by decide
example : triu ⟨[1, 2, 3, 4, 5, 6], [2, 3]⟩ (some 1) = .ok ⟨[0, 2, 3, 0, 0, 6], [2, 3]⟩ := by decide
example : tril ⟨[], [0, 3]⟩ none = .ok ⟨[], [0, 3]⟩ := by decide
-- the size hypotheses (`m ≤ isizeMax`, `(len + |k|)² ≤ usizeMax`) hold for every array that fits in memory
example : ((3 : Nat) : Int) ≤ isizeMax ∧ (3 + (2 : Int).natAbs) * (3 + (2 : Int).natAbs) ≤ usizeMax := by decide
-- extreme offsets: saturating arithmetic, an error value instead of an impossible allocation
example : tril ⟨[1, 2, 3, 4, 5, 6], [2, 3]⟩ (some 9223372036854775807) = .ok ⟨[1, 2, 3, 4, 5, 6], [2, 3]⟩ := by decide +kernel
example : triu ⟨[1, 2, 3, 4, 5, 6], [2, 3]⟩ (some 9223372036854775807) = .ok ⟨[0, 0, 0, 0, 0, 0], [2, 3]⟩ := by decide +kernel
example : tri 2 none (some (-9223372036854775808)) = .ok ⟨[0, 0, 0, 0], [2, 2]⟩ := by decide
example : diag (Arr.flat [1]) (some 9223372036854775807) = .err .OutOfBounds := by decide
example : diag ⟨[1, 2, 3, 4, 5, 6], [2, 3]⟩ (some (-9223372036854775808)) = .ok ⟨[], [0]⟩ := by decide
example : tril ⟨[1, 2, 3], [3]⟩ none = .err .UnsupportedDimension := by decide
example : diag (Arr.flat [1, 2, 3]) (some (-1)) = .ok ⟨[0, 0, 0, 0, 1, 0, 0, 0, 0, 2, 0, 0, 0, 0, 3, 0], [4, 4]⟩ := by decide
example : diag ⟨[1, 2, 3, 4, 5, 6], [2, 3]⟩ (some 1) = .ok ⟨[2, 6], [2]⟩ := by decide
example : diag ⟨[1, 2, 3, 4, 5, 6], [2, 3]⟩ (some 5) = .ok ⟨[], [0]⟩ := by decide
example : vander (Arr.flat [2, 3]) (some 3) none = .ok ⟨[4, 2, 1, 9, 3, 1], [2, 3]⟩ := by decide
example : arange 0 5 none = .ok (Arr.flat [0, 1, 2, 3, 4, 5]) := by decide +kernel
-- not maximal (4 would still be ≤ stop), and the statement does not ask for it
example : arange 0 4 (some 2) = .ok (Arr.flat [0, 2]) := by decide +kernel
example : linspace 0 10 (some 5) none = .ok (Arr.flat [0, 5 / 2, 5, 15 / 2, 10]) := by decide +kernel
example : linspace 0 10 (some 5) (some false) = .ok (Arr.flat [0, 2, 4, 6, 8]) := by decide +kernel
example : linspace 0 10 (some 0) (some true) = .ok (Arr.flat []) := by decide +kernel
example : arange 0 5 (some 0) = .err .ParameterError := by decide +kernel
-- in logarithmic coordinates `geomspace` is `linspace`: log 1 = 0, log 1000 = 3 (base 10)
example : geomspace logDomain (fun _ => false) 0 3 (some 4) none = .ok [0, 1, 2, 3] := by decide +kernel
example : logspace logDomain 1 0 3 (some 4) none = .ok [0, 1, 2, 3] := by decide +kernel

end ArrModel.C16
