import ArrModel.Index
import ArrProofs.Lemmas.C05
import ArrProofs.Lemmas.C05Float
/-!
# C05 — one-operand functions and closure iteration keep shape, order, multiplicity

Property theorems only.  Model under test: `ArrModel/C05.lean` (`iter.rs`: map, map_e, filter, filter_e, filter_map(_e),
fold, for_each(_e), into_iter, same-shape zip; the unary math pattern `self.map(kernel)`) and `ArrModel/C05Float.lean`
(`floating.rs`: `_frexp`, `_ldexp` with their `while` loops, `frexp`, `ldexp`).

Reading guide.
* "arbitrary, stateful, order-observing closure" = any `f : Nat → α → StateM σ β` (any state type, any function).
  `stateAfter f 0 s xs` is the closure's state after having been called on `xs` left to right; `logged f` wraps `f` with a
  recorder of the `(position, element)` pairs it is called with.
* the plain variants are, by definition, the enumerating variants with a closure that ignores the position
  (`Iter.plain_eq_enumerating`, a lemma); `loggedPlain f` records the elements a position-less closure is called with.
* `stamp` / `stampFold` are the counter-stamping closures the correspondence harness runs on the real crate; the `_stamp`
  theorems give the transcript (result + log) in closed form.
* the scalar kernels of the math functions are parameters (`unary k`); which `f64` method each public op uses is tied
  natively in Rust, not proved.
-/
namespace ArrModel.C05
open ArrModel ArrModel.Iter ArrModel.Flt

variable {α β γ σ : Type}

/-! ## map / map_e with an arbitrary stateful closure -/

/-- **map_e, any closure**: the result has the receiver's shape; position `p` holds the closure's answer on
`(p, element p)`, evaluated in the state left by the calls on elements `0 … p-1` in flat order; the final closure state is
the state after exactly those `n` calls.  (Hence: one call per element, in flat order, the flat position passed.) -/
theorem mapEM_stateful (a : Arr α) (hwf : a.WF) (f : Nat → α → StateM σ β) (s : σ) :
    ∃ ys : List β, (mapEM a f).run s = (.ok ⟨ys, a.shape⟩, stateAfter f 0 s a.elems) ∧
      ys.length = a.shape.prod ∧
      ∀ (p : Nat) (h : p < a.elems.length) (h' : p < ys.length),
        ys[p] = ((f p a.elems[p]).run (stateAfter f 0 s (a.elems.take p))).1 := by
  refine ⟨((traverseIdx f 0 a.elems).run s).1, ?_, ?_, ?_⟩
  · rw [mapEM_run, collect_reshape _ _ (by rw [traverseIdx_length]; exact hwf.symm), traverseIdx_state]
  · rw [traverseIdx_length]; exact hwf
  · intro p h _
    have := traverseIdx_getElem f 0 a.elems s p h
    simpa using this

/-- **map, any closure** -/
theorem mapM_stateful (a : Arr α) (hwf : a.WF) (f : α → StateM σ β) (s : σ) :
    ∃ ys : List β, (mapM a f).run s = (.ok ⟨ys, a.shape⟩, stateAfter (fun _ => f) 0 s a.elems) ∧
      ys.length = a.shape.prod ∧
      ∀ (p : Nat) (h : p < a.elems.length) (h' : p < ys.length),
        ys[p] = ((f a.elems[p]).run (stateAfter (fun _ => f) 0 s (a.elems.take p))).1 :=
  mapEM_stateful a hwf (fun _ => f) s

/-! ## trace theorems: what any closure gets to see -/

/-- **map_e trace**: wrapping any closure with a recorder changes neither the result nor the closure's own state, and
the record is exactly `elems` zipped with the positions `0 … n-1`: every element once, in flat order, with its flat position. -/
theorem mapEM_trace (a : Arr α) (f : Nat → α → StateM σ β) (s : σ) :
    (mapEM a (logged f)).run (s, []) =
      (((mapEM a f).run s).1, (((mapEM a f).run s).2, (List.range a.elems.length).zip a.elems)) := by
  rw [mapEM_run, mapEM_run, traverseIdx_logged, enumFrom_zero_eq_zip]; simp

theorem filterEM_trace (a : Arr α) (f : Nat → α → StateM σ Bool) (s : σ) :
    (filterEM a (logged f)).run (s, []) =
      (((filterEM a f).run s).1, (((filterEM a f).run s).2, (List.range a.elems.length).zip a.elems)) := by
  rw [filterEM_run, filterEM_run, filterIdxM_eq_traverse, filterIdxM_eq_traverse, traverseIdx_logged,
    enumFrom_zero_eq_zip]; simp

theorem filterMapEM_trace (a : Arr α) (f : Nat → α → StateM σ (Option β)) (s : σ) :
    (filterMapEM a (logged f)).run (s, []) =
      (((filterMapEM a f).run s).1, (((filterMapEM a f).run s).2, (List.range a.elems.length).zip a.elems)) := by
  rw [filterMapEM_run, filterMapEM_run, filterMapIdxM_eq_traverse, filterMapIdxM_eq_traverse, traverseIdx_logged,
    enumFrom_zero_eq_zip]; simp

theorem forEachEM_trace (a : Arr α) (f : Nat → α → StateM σ Unit) (s : σ) :
    (forEachEM a (logged f)).run (s, []) =
      (.ok (), (((forEachEM a f).run s).2, (List.range a.elems.length).zip a.elems)) := by
  rw [forEachEM_run, forEachEM_run, forEachIdxM_eq_traverse, forEachIdxM_eq_traverse, traverseIdx_logged,
    enumFrom_zero_eq_zip]; simp

/-- **map / filter / filter_map / for_each traces** (closures that are not handed a position): the record is exactly
`elems` — every element once, in flat order — and recording changes nothing else. -/
theorem mapM_trace (a : Arr α) (f : α → StateM σ β) (s : σ) :
    (mapM a (loggedPlain f)).run (s, []) = (((mapM a f).run s).1, (((mapM a f).run s).2, a.elems)) := by
  show (mapEM a (fun _ => loggedPlain f)).run (s, []) = (((mapEM a (fun _ => f)).run s).1, (((mapEM a (fun _ => f)).run s).2, _))
  rw [mapEM_run, mapEM_run, traverseIdx_loggedPlain]; simp

theorem filterM_trace (a : Arr α) (f : α → StateM σ Bool) (s : σ) :
    (filterM a (loggedPlain f)).run (s, []) = (((filterM a f).run s).1, (((filterM a f).run s).2, a.elems)) := by
  show (filterEM a (fun _ => loggedPlain f)).run (s, []) =
    (((filterEM a (fun _ => f)).run s).1, (((filterEM a (fun _ => f)).run s).2, _))
  rw [filterEM_run, filterEM_run, filterIdxM_eq_traverse, filterIdxM_eq_traverse, traverseIdx_loggedPlain]; simp

theorem filterMapM_trace (a : Arr α) (f : α → StateM σ (Option β)) (s : σ) :
    (filterMapM a (loggedPlain f)).run (s, []) = (((filterMapM a f).run s).1, (((filterMapM a f).run s).2, a.elems)) := by
  show (filterMapEM a (fun _ => loggedPlain f)).run (s, []) =
    (((filterMapEM a (fun _ => f)).run s).1, (((filterMapEM a (fun _ => f)).run s).2, _))
  rw [filterMapEM_run, filterMapEM_run, filterMapIdxM_eq_traverse, filterMapIdxM_eq_traverse, traverseIdx_loggedPlain]; simp

theorem forEachM_trace (a : Arr α) (f : α → StateM σ Unit) (s : σ) :
    (forEachM a (loggedPlain f)).run (s, []) = (.ok (), (((forEachM a f).run s).2, a.elems)) := by
  show (forEachEM a (fun _ => loggedPlain f)).run (s, []) = (.ok (), (((forEachEM a (fun _ => f)).run s).2, _))
  rw [forEachEM_run, forEachEM_run, forEachIdxM_eq_traverse, forEachIdxM_eq_traverse, traverseIdx_loggedPlain]; simp

/-- **fold trace**: the folding closure is called once per element, in flat order -/
theorem foldM_trace (a : Arr α) (init : γ) (f : γ → α → StateM σ γ) (s : σ) :
    (foldM a init (loggedAcc f)).run (s, []) =
      (((foldM a init f).run s).1, (((foldM a init f).run s).2, a.elems)) := by
  rw [foldM_run, foldM_run, foldIdxM_loggedAcc]; simp

/-- **fold, any closure**: `List.foldl` over the elements on (accumulator, closure state) pairs — strictly left to right -/
theorem foldM_stateful (a : Arr α) (init : γ) (f : γ → α → StateM σ γ) (s : σ) :
    (foldM a init f).run s =
      (.ok (a.elems.foldl (fun (p : γ × σ) x => (f p.1 x).run p.2) (init, s)).1,
       (a.elems.foldl (fun (p : γ × σ) x => (f p.1 x).run p.2) (init, s)).2) := by
  rw [foldM_run, foldIdxM_eq_foldl]

/-! ## filter / filter_map with an arbitrary stateful closure -/

/-- **filter_e, any closure**: the result is the flat `[k]` array of the elements whose call answered `true`
(`select elems answers`), a sublist of the elements — original order, multiplicities kept — whatever the closure does. -/
theorem filterEM_stateful (a : Arr α) (f : Nat → α → StateM σ Bool) (s : σ) :
    ∃ ys : List α, (filterEM a f).run s = (.ok ⟨ys, [ys.length]⟩, stateAfter f 0 s a.elems) ∧
      ys = select a.elems ((traverseIdx f 0 a.elems).run s).1 ∧ ys.Sublist a.elems := by
  refine ⟨select a.elems ((traverseIdx f 0 a.elems).run s).1, ?_, rfl, select_sublist _ _⟩
  rw [filterEM_run, filterIdxM_eq_traverse, collect_ravel, traverseIdx_state]

/-- **filter_map_e, any closure**: the flat array of the `Some` answers, in call order -/
theorem filterMapEM_stateful (a : Arr α) (f : Nat → α → StateM σ (Option β)) (s : σ) :
    ∃ ys : List β, (filterMapEM a f).run s = (.ok ⟨ys, [ys.length]⟩, stateAfter f 0 s a.elems) ∧
      ys = somes ((traverseIdx f 0 a.elems).run s).1 := by
  refine ⟨somes ((traverseIdx f 0 a.elems).run s).1, ?_, rfl⟩
  rw [filterMapEM_run, filterMapIdxM_eq_traverse, collect_ravel, traverseIdx_state]

/-! ## pure closures (`m = Id`): the classical readings -/

/-- **map_at**: same shape; the element list is `elems.map f`, i.e. position `p` holds `f (in[p])`;
in coordinates: `out.at c = f (in.at c)` for every coordinate vector. -/
theorem map_at (a : Arr α) (hwf : a.WF) (f : α → β) :
    ∃ b : Arr β, map a f = .ok b ∧ b.shape = a.shape ∧ b.WF ∧ b.elems = a.elems.map f ∧
      (∀ (p : Nat) (h : p < a.elems.length) (h' : p < b.elems.length), b.elems[p] = f a.elems[p]) ∧
      (∀ c : List Nat, b.get? c = (a.get? c).map f) := by
  have hr : map a f = .ok ⟨a.elems.map f, a.shape⟩ := by
    rw [map_unfold, collect_reshape _ _ (by simpa using hwf.symm)]
  refine ⟨⟨a.elems.map f, a.shape⟩, hr, rfl, by simpa [Arr.WF] using hwf, rfl, ?_, ?_⟩
  · intro p h h'; simp
  · intro c; simp [Arr.get?]

/-- **map_e index**: position `p` holds `f p (in[p])` — the enumerating variant passes the flat position -/
theorem mapE_index (a : Arr α) (hwf : a.WF) (f : Nat → α → β) :
    ∃ b : Arr β, mapE a f = .ok b ∧ b.shape = a.shape ∧ b.elems = a.elems.mapIdx f ∧
      (∀ (p : Nat) (h : p < a.elems.length) (h' : p < b.elems.length), b.elems[p] = f p a.elems[p]) := by
  have hr : mapE a f = .ok ⟨a.elems.mapIdx f, a.shape⟩ := by
    rw [mapE_unfold, imapFrom_eq_mapIdx, collect_reshape _ _ (by simpa using hwf.symm)]
  refine ⟨_, hr, rfl, rfl, ?_⟩
  intro p h h'; simp

/-- without the C01 invariant the final `reshape` refuses (never a panic, never a wrong shape) -/
theorem map_not_wf (a : Arr α) (hwf : ¬ a.WF) (f : α → β) : map a f = .err .ShapeMustMatchValuesLength := by
  rw [map_unfold, collect_reshape_err _ _ (by simpa [Arr.WF, eq_comm] using hwf)]

/-- **one-operand math functions**: for every scalar kernel `k`, same shape and `out[p] = k (in[p])` -/
theorem unary_at (k : α → β) (a : Arr α) (hwf : a.WF) :
    ∃ b : Arr β, unary k a = .ok b ∧ b.shape = a.shape ∧ b.elems = a.elems.map k ∧
      (∀ c : List Nat, b.get? c = (a.get? c).map k) := by
  obtain ⟨b, h1, h2, _, h4, _, h6⟩ := map_at a hwf k
  exact ⟨b, h1, h2, h4, h6⟩

/-- **filter_spec**: `List.filter` on the elements, as a flat `[k]` array, order kept -/
theorem filter_spec (a : Arr α) (p : α → Bool) :
    filter a p = .ok ⟨a.elems.filter p, [(a.elems.filter p).length]⟩ := by
  show filterE a (fun _ x => p x) = _
  rw [filterE_unfold, imapFrom_const, select_pure, collect_ravel]

/-- **filter_e**: the predicate sees `(flat position, element)` -/
theorem filterE_spec (a : Arr α) (p : Nat → α → Bool) :
    ∃ ys, filterE a p = .ok ⟨ys, [ys.length]⟩ ∧
      ys = (((List.range a.elems.length).zip a.elems).filter (fun e => p e.1 e.2)).map (·.2) := by
  refine ⟨_, ?_, rfl⟩
  rw [filterE_unfold, select_imapFrom, enumFrom_zero_eq_zip, collect_ravel]

/-- **filter_map**: `List.filterMap`, flat -/
theorem filterMap_spec (a : Arr α) (f : α → Option β) :
    filterMap a f = .ok ⟨a.elems.filterMap f, [(a.elems.filterMap f).length]⟩ := by
  show filterMapE a (fun _ x => f x) = _
  rw [filterMapE_unfold, imapFrom_const, somes_pure, collect_ravel]

theorem filterMapE_spec (a : Arr α) (f : Nat → α → Option β) :
    ∃ ys, filterMapE a f = .ok ⟨ys, [ys.length]⟩ ∧
      ys = ((List.range a.elems.length).zip a.elems).filterMap (fun e => f e.1 e.2) := by
  refine ⟨_, ?_, rfl⟩
  rw [filterMapE_unfold, somes_imapFrom, enumFrom_zero_eq_zip, collect_ravel]

/-- **fold_spec**: `List.foldl`, left to right -/
theorem fold_spec (a : Arr α) (init : γ) (f : γ → α → γ) : fold a init f = .ok (a.elems.foldl f init) := by
  exact fold_unfold a init f

/-- **zip of equal shapes** keeps the shape and pairs position by position -/
theorem zipSame_spec (a : Arr α) (b : Arr β) (ha : a.WF) (hb : b.WF) (hs : b.shape = a.shape) :
    zipSame a b = .ok ⟨a.elems.zip b.elems, a.shape⟩ := by
  have hlen : b.elems.length = a.elems.length := by rw [ha, hb, hs]
  have h1 : reshape b a.shape = .ok ⟨b.elems, a.shape⟩ := by
    simp [reshape, Arr.new, ← hs, hb.symm]
  unfold zipSame
  rw [h1]; simp only [Res.bind_ok]
  exact collect_reshape _ _ (by simp [hlen, ha.symm])

/-! ## the counter-stamping closures run by the harness: the transcript in closed form -/

/-- **map_e transcript**: call number = flat position = passed position, for every call; the closure's answer to call `k`
lands at position `k`; `n` calls in total. -/
theorem mapEM_stamp (a : Arr α) (hwf : a.WF) (g : Nat → Option Nat → α → β) :
    (mapEM a (fun i => stamp g (some i))).run (0, []) =
      (.ok ⟨a.elems.mapIdx (fun k x => g k (some k) x), a.shape⟩,
       (a.elems.length, a.elems.mapIdx (fun k x => ((k, some k, x) : Entry α)))) := by
  rw [mapEM_run, traverse_stampE]
  simp only [imapFrom_eq_mapIdx, List.nil_append, Nat.zero_add]
  rw [collect_reshape _ _ (by simpa using hwf.symm)]

/-- **map transcript** (no position passed) -/
theorem mapM_stamp (a : Arr α) (hwf : a.WF) (g : Nat → Option Nat → α → β) :
    (mapM a (stamp g none)).run (0, []) =
      (.ok ⟨a.elems.mapIdx (fun k x => g k none x), a.shape⟩,
       (a.elems.length, a.elems.mapIdx (fun k x => ((k, none, x) : Entry α)))) := by
  show (mapEM a (fun _ => stamp g none)).run (0, []) = _
  rw [mapEM_run, traverse_stamp]
  simp only [imapFrom_eq_mapIdx, List.nil_append, Nat.zero_add]
  rw [collect_reshape _ _ (by simpa using hwf.symm)]

/-- **filter_e transcript** -/
theorem filterEM_stamp (a : Arr α) (g : Nat → Option Nat → α → Bool) :
    ∃ ys, (filterEM a (fun i => stamp g (some i))).run (0, []) =
      (.ok ⟨ys, [ys.length]⟩, (a.elems.length, a.elems.mapIdx (fun k x => ((k, some k, x) : Entry α)))) ∧
      ys = (((List.range a.elems.length).zip a.elems).filter (fun e => g e.1 (some e.1) e.2)).map (·.2) := by
  refine ⟨_, ?_, rfl⟩
  rw [filterEM_run, filterIdxM_eq_traverse, traverse_stampE]
  simp only [imapFrom_eq_mapIdx, List.nil_append, Nat.zero_add]
  rw [← imapFrom_eq_mapIdx, select_imapFrom, enumFrom_zero_eq_zip, collect_ravel]

/-- **filter transcript** -/
theorem filterM_stamp (a : Arr α) (g : Nat → Option Nat → α → Bool) :
    ∃ ys, (filterM a (stamp g none)).run (0, []) =
      (.ok ⟨ys, [ys.length]⟩, (a.elems.length, a.elems.mapIdx (fun k x => ((k, none, x) : Entry α)))) ∧
      ys = (((List.range a.elems.length).zip a.elems).filter (fun e => g e.1 none e.2)).map (·.2) := by
  refine ⟨_, ?_, rfl⟩
  show (filterEM a (fun _ => stamp g none)).run (0, []) = _
  rw [filterEM_run, filterIdxM_eq_traverse, traverse_stamp]
  simp only [imapFrom_eq_mapIdx, List.nil_append, Nat.zero_add]
  rw [← imapFrom_eq_mapIdx, select_imapFrom, enumFrom_zero_eq_zip, collect_ravel]

/-- **filter_map_e transcript** -/
theorem filterMapEM_stamp (a : Arr α) (g : Nat → Option Nat → α → Option β) :
    ∃ ys, (filterMapEM a (fun i => stamp g (some i))).run (0, []) =
      (.ok ⟨ys, [ys.length]⟩, (a.elems.length, a.elems.mapIdx (fun k x => ((k, some k, x) : Entry α)))) ∧
      ys = ((List.range a.elems.length).zip a.elems).filterMap (fun e => g e.1 (some e.1) e.2) := by
  refine ⟨_, ?_, rfl⟩
  rw [filterMapEM_run, filterMapIdxM_eq_traverse, traverse_stampE]
  simp only [imapFrom_eq_mapIdx, List.nil_append, Nat.zero_add]
  rw [← imapFrom_eq_mapIdx, somes_imapFrom, enumFrom_zero_eq_zip, collect_ravel]

/-- **filter_map transcript** -/
theorem filterMapM_stamp (a : Arr α) (g : Nat → Option Nat → α → Option β) :
    ∃ ys, (filterMapM a (stamp g none)).run (0, []) =
      (.ok ⟨ys, [ys.length]⟩, (a.elems.length, a.elems.mapIdx (fun k x => ((k, none, x) : Entry α)))) ∧
      ys = ((List.range a.elems.length).zip a.elems).filterMap (fun e => g e.1 none e.2) := by
  refine ⟨_, ?_, rfl⟩
  show (filterMapEM a (fun _ => stamp g none)).run (0, []) = _
  rw [filterMapEM_run, filterMapIdxM_eq_traverse, traverse_stamp]
  simp only [imapFrom_eq_mapIdx, List.nil_append, Nat.zero_add]
  rw [← imapFrom_eq_mapIdx, somes_imapFrom, enumFrom_zero_eq_zip, collect_ravel]

/-- **for_each_e / for_each transcripts** -/
theorem forEachEM_stamp (a : Arr α) (g : Nat → Option Nat → α → Unit) :
    (forEachEM a (fun i => stamp g (some i))).run (0, []) =
      (.ok (), (a.elems.length, a.elems.mapIdx (fun k x => ((k, some k, x) : Entry α)))) := by
  rw [forEachEM_run, forEachIdxM_eq_traverse, traverse_stampE]
  simp [imapFrom_eq_mapIdx]

theorem forEachM_stamp (a : Arr α) (g : Nat → Option Nat → α → Unit) :
    (forEachM a (stamp g none)).run (0, []) =
      (.ok (), (a.elems.length, a.elems.mapIdx (fun k x => ((k, none, x) : Entry α)))) := by
  show (forEachEM a (fun _ => stamp g none)).run (0, []) = _
  rw [forEachEM_run, forEachIdxM_eq_traverse, traverse_stamp]
  simp [imapFrom_eq_mapIdx]

/-- **fold transcript**: the accumulator is threaded left to right through the calls `0, 1, …, n-1` -/
theorem foldM_stamp (a : Arr α) (init : γ) (g : Nat → γ → α → γ) :
    (foldM a init (stampFold g)).run (0, []) =
      (.ok (((List.range a.elems.length).zip a.elems).foldl (fun acc e => g e.1 acc e.2) init),
       (a.elems.length, a.elems.mapIdx (fun k x => ((k, none, x) : Entry α)))) := by
  rw [foldM_run, fold_stamp, enumFrom_zero_eq_zip]
  simp [imapFrom_eq_mapIdx]

/-! ## frexp / ldexp -/

/-- **frexp_spec**: for a finite non-zero `x` the (repaired) loops end within the fuel bound with a mantissa `m`,
`½ ≤ |m| < 1`, and exponent `e` such that `m · 2^e = x` exactly. -/
theorem frexp_spec (q : Rat) (hq : q ≠ 0) :
    ∃ (m : Rat) (e : Int), frexp (.fin q) = some (.fin m, e) ∧ 1 / 2 ≤ m.abs ∧ m.abs < 1 ∧ m * (2 : Rat) ^ e = q := by
  have habs : 0 < q.abs := Rat.abs_pos_iff.2 hq
  let n := q.num.natAbs + q.den
  have hnum : q.abs.num.natAbs + q.abs.den ≤ n := by
    by_cases h : 0 ≤ q
    · rw [Rat.abs_of_nonneg h]; exact Nat.le_refl _
    · have h' : q ≤ 0 := by grind
      rw [Rat.abs_of_nonpos h']; simp [n]
  obtain ⟨q1, e1, q2, e2, hl1, hl2, hge, hlt, hval⟩ :=
    loops_fin n q.abs habs (up_bound _ n hnum) (by have := down_bound _ habs n hnum; grind)
  have hz : ¬ (q.abs = 0) := by grind
  by_cases hneg : q < 0
  · refine ⟨q2 * (-1), e2, ?_, ?_, ?_, ?_⟩
    · simp only [frexp, frexp1, fuelFor, Dbl.abs, Dbl.isZero, Dbl.isFinite, Dbl.signum, hz, hneg, decide_false, if_true,
        Bool.not_true, Bool.and_false, Bool.false_eq_true, if_false]
      rw [show q.num.natAbs + q.den + 1 = n + 1 from rfl, hl1]; simp only; rw [hl2]; simp [Dbl.mul]
    · have : (q2 * (-1)).abs = q2 := by
        rw [Rat.mul_neg, Rat.mul_one, Rat.abs_neg, Rat.abs_of_nonneg (by grind)]
      rw [this]; exact hge
    · have : (q2 * (-1)).abs = q2 := by
        rw [Rat.mul_neg, Rat.mul_one, Rat.abs_neg, Rat.abs_of_nonneg (by grind)]
      rw [this]; exact hlt
    · have hq' : q.abs = -q := Rat.abs_of_nonpos (by grind)
      rw [hq'] at hval; grind
  · have hnn : 0 ≤ q := by grind
    refine ⟨q2 * 1, e2, ?_, ?_, ?_, ?_⟩
    · simp only [frexp, frexp1, fuelFor, Dbl.abs, Dbl.isZero, Dbl.isFinite, Dbl.signum, hz, hneg, decide_false, if_false,
        Bool.not_true, Bool.and_false, Bool.false_eq_true]
      rw [show q.num.natAbs + q.den + 1 = n + 1 from rfl, hl1]; simp only; rw [hl2]; simp [Dbl.mul]
    · rw [Rat.mul_one, Rat.abs_of_nonneg (by grind)]; exact hge
    · rw [Rat.mul_one, Rat.abs_of_nonneg (by grind)]; exact hlt
    · rw [Rat.abs_of_nonneg hnn] at hval; rw [Rat.mul_one]; exact hval

/-- zero, infinities and NaN: `(0, 0)`, `(±∞, 0)`, `(NaN, 0)` (the last two arms are the repair; numpy agrees) -/
theorem frexp_special :
    frexp (.fin 0) = some (.fin 0, 0) ∧ (∀ b, frexp (.inf b) = some (.inf b, 0)) ∧ frexp .nan = some (.nan, 0) := by
  refine ⟨by decide +kernel, fun b => by cases b <;> decide +kernel, by decide +kernel⟩

/-- **termination**: the repaired `_frexp` returns on every input … -/
theorem frexp_total (x : Dbl) : ∃ r, frexp x = some r := by
  cases x with
  | fin q =>
    by_cases hq : q = 0
    · subst hq; exact ⟨_, frexp_special.1⟩
    · obtain ⟨m, e, h, _⟩ := frexp_spec q hq; exact ⟨_, h⟩
  | inf b => exact ⟨_, frexp_special.2.1 b⟩
  | nan => exact ⟨_, frexp_special.2.2⟩

/-- … and the fuel bound is a bound: any larger fuel gives the same answer -/
theorem frexp_fuel_bound (x : Dbl) (fuel : Nat) (h : fuelFor x ≤ fuel) : frexp1 true fuel x = frexp x := by
  obtain ⟨r, hr⟩ := frexp_total x
  have := frexp1_mono true (fuelFor x) (fuel - fuelFor x) x r hr
  rw [show fuelFor x + (fuel - fuelFor x) = fuel by omega] at this
  rw [this, hr]

/-- **the pinned code hangs on ±∞**: without the repair arm no amount of fuel ends the first loop … -/
theorem frexp_pinned_diverges_on_inf (fuel : Nat) (b : Bool) : frexp1 false fuel (.inf b) = none := by
  have h : ∀ (n : Nat) (e : Int), loopUp n (.inf false) e = none := by
    intro n; induction n with
    | zero => intro e; rfl
    | succ n ih => intro e; simp [loopUp, Dbl.ge1, Dbl.half, ih]
  cases b <;> simp [frexp1, Dbl.abs, Dbl.isZero, h]

/-- … and the repair changes nothing on finite values and NaN -/
theorem frexp_repair_conservative (fuel : Nat) (hf : 0 < fuel) (x : Dbl) (hx : ∀ b, x ≠ .inf b) :
    frexp1 true fuel x = frexp1 false fuel x := by
  cases x with
  | fin q => simp [frexp1, Dbl.abs, Dbl.isFinite]
  | inf b => exact absurd rfl (hx b)
  | nan =>
    cases fuel with
    | zero => omega
    | succ n => simp [frexp1, Dbl.abs, Dbl.isZero, Dbl.isFinite, Dbl.signum, Dbl.mul, loopUp, loopDown, Dbl.ge1, Dbl.ltHalf]

/-- **ldexp_spec**: `ldexp m e = m · 2^e` on finite values (exact arithmetic), within `|e| + 1` loop tests -/
theorem ldexp_spec (m : Rat) (e : Int) : ldexp (.fin m) e = some (.fin (m * (2 : Rat) ^ e)) := by
  unfold ldexp ldexp1
  by_cases hm : m = 0
  · subst hm; simp [Dbl.isZero]
  · simp only [Dbl.isZero, hm, decide_false, Bool.false_eq_true, if_false]
    rw [ldUp_fin e.natAbs m e (by omega)]
    simp only
    obtain ⟨e', hd⟩ := ldDown_fin e.natAbs (m * (2 : Rat) ^ e.toNat) (min e 0) (by omega)
    rw [hd]; simp only [Option.some.injEq, Dbl.fin.injEq]
    by_cases he : 0 ≤ e
    · have h0 : (-(min e 0)).toNat = 0 := by omega
      rw [h0, two_zpow_of_nonneg e he]; grind
    · have he' : e < 0 := by omega
      have h0 : e.toNat = 0 := by omega
      have h1 : (-(min e 0)).toNat = (-e).toNat := by omega
      rw [h0, h1, two_zpow_of_neg e he', Rat.div_def]; grind

/-- **ldexp ∘ frexp = id**: mantissa and exponent recombine to the original value, for every value
(finite, zero, ±∞, NaN). -/
theorem ldexp_frexp (x m : Dbl) (e : Int) (h : frexp x = some (m, e)) : ldexp m e = some x := by
  cases x with
  | fin q =>
    by_cases hq : q = 0
    · subst hq
      rw [frexp_special.1] at h
      cases h; decide +kernel
    · obtain ⟨m', e', h', _, _, hval⟩ := frexp_spec q hq
      rw [h'] at h; cases h
      rw [ldexp_spec, hval]
  | inf b =>
    rw [frexp_special.2.1 b] at h; cases h
    cases b <;> decide +kernel
  | nan =>
    rw [frexp_special.2.2] at h; cases h
    decide +kernel

/-! ## frexp / ldexp on arrays -/

/-- **frexp on arrays**: both results have the receiver's shape; position `p` holds mantissa / exponent of element `p` -/
theorem frexpArr_spec (a : Arr Dbl) (hwf : a.WF) :
    ∃ ms es, frexpArr a = some (.ok (⟨ms, a.shape⟩, ⟨es, a.shape⟩)) ∧
      ms.length = a.elems.length ∧ es.length = a.elems.length ∧
      ∀ (p : Nat) (h : p < a.elems.length) (h1 : p < ms.length) (h2 : p < es.length),
        frexp a.elems[p] = some (ms[p], es[p]) := by
  obtain ⟨ms, es, hrun, hm, he, hget⟩ := forEach_frexpPush frexp_total 0 a.elems ([], [])
  refine ⟨ms, es, ?_, hm, he, hget⟩
  have hfe : (forEachM a frexpPush).run ([], []) = some (.ok (), (ms, es)) := by
    show ((forEachIdxM (fun _ => frexpPush) 0 a.elems).run ([], []) >>= fun p => some (Res.ok (), p.2)) = _
    rw [hrun]; simp
  unfold frexpArr
  rw [hfe]
  simp [flat, reshape, Arr.new, hm, he, hwf.symm]

/-- **ldexp(frexp(a)) = a on arrays**: same shape, every position recombines to the original element -/
theorem ldexpArr_frexpArr (a : Arr Dbl) (hwf : a.WF) (mn : Arr Dbl) (ex : Arr Int)
    (h : frexpArr a = some (.ok (mn, ex))) : ldexpArr mn ex = .ok ⟨a.elems.map some, a.shape⟩ := by
  obtain ⟨ms, es, hrun, hm, he, hget⟩ := frexpArr_spec a hwf
  rw [hrun] at h
  have h1 : mn = ⟨ms, a.shape⟩ := by cases h; rfl
  have h2 : ex = ⟨es, a.shape⟩ := by cases h; rfl
  subst h1 h2
  unfold ldexpArr
  have hz := zipSame_spec (⟨ms, a.shape⟩ : Arr Dbl) (⟨es, a.shape⟩ : Arr Int)
    (by simp [Arr.WF, hm]; exact hwf) (by simp [Arr.WF, he]; exact hwf) rfl
  rw [hz]; simp only [Res.bind_ok]
  obtain ⟨b, hb, hsh, _, hel, _, _⟩ := map_at (⟨ms.zip es, a.shape⟩ : Arr (Dbl × Int))
    (by simp [Arr.WF, hm, he]; exact hwf) (fun p => ldexp p.1 p.2)
  rw [hb]
  have : b = ⟨a.elems.map some, a.shape⟩ := by
    cases b with
    | mk bel bsh =>
      simp only at hsh hel
      subst hsh
      congr 1
      rw [hel]
      apply List.ext_getElem
      · simp [hm, he]
      · intro p hp1 hp2
        simp only [List.getElem_map, List.getElem_zip]
        have hp : p < a.elems.length := by simpa using hp2
        exact ldexp_frexp _ _ _ (hget p hp (by omega) (by omega))
  rw [this]

/-! ## non-vacuity -/

/-- a `[2,3]` array, a stateful closure answering `10·call# + element`: the transcript -/
example :
    (mapEM (⟨[5, 5, 7, 5, 9, 7], [2, 3]⟩ : Arr Int) (fun i => stamp (fun k _ v => 10 * (k : Int) + v) (some i))).run (0, []) =
      (.ok ⟨[5, 15, 27, 35, 49, 57], [2, 3]⟩,
       (6, [(0, some 0, 5), (1, some 1, 5), (2, some 2, 7), (3, some 3, 5), (4, some 4, 9), (5, some 5, 7)])) := by
  rfl

/-- a stateful filter keeping every other *call* (not a function of the element): repeated elements keep their multiplicity -/
example :
    ((filterM (⟨[5, 5, 7, 5, 9, 7], [2, 3]⟩ : Arr Int) (stamp (fun k _ _ => k % 2 == 0) none)).run (0, [])).1 =
      .ok ⟨[5, 7, 9], [3]⟩ := by decide

example : fold (⟨[1, 2, 3, 4], [2, 2]⟩ : Arr Int) 0 (fun acc x => acc * 10 + x) = .ok 1234 := by decide

example : (⟨[5, 5, 7, 5, 9, 7], [2, 3]⟩ : Arr Int).WF := by decide

/-- `frexp 8 = (½, 4)`, `frexp (-3) = (-¾, 2)`, `frexp (1/1024) = (½, -9)` -/
example : frexp (.fin 8) = some (.fin (1 / 2), 4) ∧ frexp (.fin (-3)) = some (.fin (-3 / 4), 2) ∧
    frexp (.fin (1 / 1024)) = some (.fin (1 / 2), -9) := by decide +kernel

example : ldexp (.fin (-3 / 4)) 2 = some (.fin (-3)) := by decide +kernel

end ArrModel.C05
