import ArrProofs.Lemmas.C17Replace
import ArrProofs.Lemmas.C17Misc
import ArrProofs.Lemmas.C17Lift
/-!
# C17 — string-array operations apply the per-string function at every position

Property theorems only (helpers: `ArrProofs/Lemmas/C17*.lean`).  Models under test: `ArrModel/C17.lean` (the
per-string primitives of `impl Alphanumeric for String`, after the repairs `fixes/C17-*.diff`) and
`ArrModel/C17Lift.lean` (the array operations).  All statements are for every string (`List Char`), every separator
including the empty one, every limit including 0 — no bound.
-/
set_option linter.unusedSimpArgs false
namespace ArrModel.C17
open ArrModel

/-! ## 1. substring search -/

/-- `find` answers `Some(i)` exactly for the first position at which the pattern occurs -/
theorem find_spec (s pat : Str) (i : Nat) :
    find s pat = some i ↔ (pat.isPrefixOf (s.drop i) = true ∧ ∀ j, j < i → pat.isPrefixOf (s.drop j) = false) := by
  constructor
  · intro h; exact ⟨find_some_prefix s pat i h, find_some_first s pat i h⟩
  · rintro ⟨hp, hfirst⟩
    cases hf : find s pat with
    | none => rw [find_none s pat hf i] at hp; cases hp
    | some k =>
      rcases Nat.lt_trichotomy k i with hlt | heq | hgt
      · have h1 := hfirst k hlt; have h2 := find_some_prefix s pat k hf; rw [h1] at h2; cases h2
      · rw [heq]
      · have := find_some_first s pat k hf i hgt; rw [this] at hp; cases hp

/-- `find` answers `None` exactly when the pattern occurs nowhere -/
theorem find_none_iff (s pat : Str) : find s pat = none ↔ ∀ j, pat.isPrefixOf (s.drop j) = false := by
  constructor
  · exact find_none s pat
  · intro h
    cases hf : find s pat with
    | none => rfl
    | some k => have := find_some_prefix s pat k hf; rw [h k] at this; cases this

/-- `rfind` answers `Some(i)` exactly for the last position at which the pattern occurs -/
theorem rfind_spec (s pat : Str) (i : Nat) :
    rfind s pat = some i ↔ (i ≤ s.length ∧ pat.isPrefixOf (s.drop i) = true ∧
      ∀ j, i < j → j ≤ s.length → pat.isPrefixOf (s.drop j) = false) := by
  constructor
  · intro h; exact ⟨rfind_some_le_length s pat i h, rfind_some_prefix s pat i h, rfind_some_last s pat i h⟩
  · rintro ⟨hle, hp, hlast⟩
    cases hf : rfind s pat with
    | none => rw [rfind_none s pat hf i] at hp; cases hp
    | some k =>
      rcases Nat.lt_trichotomy k i with hlt | heq | hgt
      · have := rfind_some_last s pat k hf i hlt hle; rw [this] at hp; cases hp
      · rw [heq]
      · have h1 := hlast k hgt (rfind_some_le_length s pat k hf)
        have h2 := rfind_some_prefix s pat k hf
        rw [h1] at h2; cases h2

theorem startsWith_iff (s pat : Str) : startsWith s pat = true ↔ ∃ t, s = pat ++ t := by
  unfold startsWith
  rw [List.isPrefixOf_iff_prefix]
  constructor <;> rintro ⟨t, h⟩ <;> exact ⟨t, h.symm⟩

theorem endsWith_iff (s pat : Str) : endsWith s pat = true ↔ ∃ t, s = t ++ pat := by
  unfold endsWith
  rw [List.isSuffixOf_iff_suffix]
  constructor <;> rintro ⟨t, h⟩ <;> exact ⟨t, h.symm⟩

/-! ## 2. splitting and partitioning lose nothing -/

/-- **join ∘ split = id**, left form: unlimited (`none`) and limited (`some n`, every `n`), every separator -/
theorem join_split (s sep : Str) (m : Option Nat) : joinWith sep (split s sep m) = s := by
  unfold split
  cases m with
  | none =>
    simp only
    split
    · rename_i h; have : sep = [] := by cases sep <;> simp_all
      subst this; exact join_splitEmpty s
    · exact join_splitF sep _ s
  | some n =>
    obtain ⟨k, hk⟩ : ∃ k, max n 1 = k + 1 := ⟨max n 1 - 1, by omega⟩
    simp only [hk]
    split
    · rename_i h; have : sep = [] := by cases sep <;> simp_all
      subst this; exact join_splitnEmpty k s
    · exact join_splitnF sep _ k s

/-- **join ∘ rsplit = id**, right form, unlimited and limited -/
theorem join_rsplit (s sep : Str) (m : Option Nat) : joinWith sep (rsplit s sep m) = s := by
  unfold rsplit
  have h := joinWith_reverse sep.reverse (split s.reverse sep.reverse m)
  rw [List.reverse_reverse, join_split, List.reverse_reverse] at h
  exact h

/-- a limit of `n` gives at most `n` pieces (and never none: a limit of 0 is read as 1) -/
theorem split_limit (s sep : Str) (n : Nat) :
    (split s sep (some n)).length ≤ max n 1 ∧ split s sep (some n) ≠ [] := by
  unfold split
  simp only
  split
  · refine ⟨splitnEmpty_length_le _ _, ?_⟩
    intro h; have := join_splitnEmpty (max n 1 - 1) s
    rw [show max n 1 - 1 + 1 = max n 1 by omega, h] at this
    cases s with
    | nil => obtain ⟨k, hk⟩ : ∃ k, max n 1 = k + 1 := ⟨max n 1 - 1, by omega⟩
             rw [hk] at h; cases k <;> simp [splitnEmpty] at h
    | cons c cs => simp [joinWith] at this
  · refine ⟨splitnF_length_le _ _ _ _, ?_⟩
    obtain ⟨k, hk⟩ : ∃ k, max n 1 = k + 1 := ⟨max n 1 - 1, by omega⟩
    rw [hk]; exact splitnF_ne_nil _ _ _ _

theorem rsplit_limit (s sep : Str) (n : Nat) :
    (rsplit s sep (some n)).length ≤ max n 1 ∧ rsplit s sep (some n) ≠ [] := by
  have h := split_limit s.reverse sep.reverse n
  unfold rsplit
  refine ⟨by simpa using h.1, ?_⟩
  intro hh; apply h.2
  simpa using hh

/-- with a non-empty separator and no limit, no piece contains the separator -/
theorem split_pieces_sep_free (s sep : Str) (hsep : sep ≠ []) :
    ∀ p ∈ split s sep none, find p sep = none := by
  have hne : sep.isEmpty = false := by cases sep <;> simp_all
  simp only [split, hne, Bool.false_eq_true, if_false]
  exact splitF_pieces_sep_free sep hsep _ s (by omega)

/-- **partition**: the three parts concatenate to the original -/
theorem partition_concat (s sep : Str) :
    (partition s sep).1 ++ (partition s sep).2.1 ++ (partition s sep).2.2 = s := by
  unfold partition
  cases h : find s sep with
  | none => simp
  | some i => simpa [List.drop_drop] using (find_some_decomp s sep i h).symm

theorem rpartition_concat (s sep : Str) :
    (rpartition s sep).1 ++ (rpartition s sep).2.1 ++ (rpartition s sep).2.2 = s := by
  unfold rpartition
  cases h : rfind s sep with
  | none => simp
  | some i => simpa [List.drop_drop] using (rfind_some_decomp s sep i h).symm

/-- `partition` cuts around the FIRST occurrence; without an occurrence the text comes back whole -/
theorem partition_first (s sep : Str) :
    (∃ i, partition s sep = (s.take i, sep, s.drop (i + sep.length)) ∧ sep.isPrefixOf (s.drop i) = true ∧
        ∀ j, j < i → sep.isPrefixOf (s.drop j) = false) ∨
    (partition s sep = (s, [], []) ∧ ∀ j, sep.isPrefixOf (s.drop j) = false) := by
  unfold partition
  cases h : find s sep with
  | none => exact .inr ⟨rfl, find_none s sep h⟩
  | some i => exact .inl ⟨i, by simp [List.drop_drop], find_some_prefix s sep i h, find_some_first s sep i h⟩

/-- `rpartition` cuts around the LAST occurrence -/
theorem rpartition_last (s sep : Str) :
    (∃ i, rpartition s sep = (s.take i, sep, s.drop (i + sep.length)) ∧ sep.isPrefixOf (s.drop i) = true ∧
        ∀ j, i < j → j ≤ s.length → sep.isPrefixOf (s.drop j) = false) ∨
    (rpartition s sep = (s, [], []) ∧ ∀ j, sep.isPrefixOf (s.drop j) = false) := by
  unfold rpartition
  cases h : rfind s sep with
  | none => exact .inr ⟨rfl, rfind_none s sep h⟩
  | some i => exact .inl ⟨i, by simp [List.drop_drop], rfind_some_prefix s sep i h, rfind_some_last s sep i h⟩

/-- `splitlines` with `keep_ends`: the lines concatenate to the original -/
theorem splitlines_keep_concat (s : Str) : (splitlines s true).flatten = s := by
  simpa [splitlines] using splitlinesAux_keep_flatten s []

/-- `splitlines` without `keep_ends`: no line contains a line break -/
theorem splitlines_lines_clean (s : Str) : ∀ l ∈ splitlines s false, ∀ c ∈ l, c ≠ '\n' ∧ c ≠ '\r' :=
  splitlinesAux_clean s [] (by simp)

/-- `count` = number of separators between the pieces of `split` (non-overlapping, left to right) -/
theorem count_eq_pieces (s pat : Str) : count s pat + 1 = (split s pat none).length := by
  unfold count split
  simp only
  split
  · simp [splitEmpty]
  · rw [splitF_length]

/-! ## 3. replace -/

/-- **replace = join new ∘ split old** (no limit; every `old`, the empty one included) -/
theorem replace_eq_join_split (s old new : Str) : replace s old new none = joinWith new (split s old none) := by
  unfold replace split
  simp only
  split
  · rename_i h; have : old = [] := by cases old <;> simp_all
    subst this
    simpa using replaceLoop_empty_none new s (s.length + 1) [] 0 (by omega)
  · rename_i h; have hold : old ≠ [] := by cases old <;> simp_all
    simpa using replaceLoop_none old new hold (s.length + 1) [] s 0

/-- **replace with a count**: at most `k` occurrences, left to right = `splitn(k + 1)` joined by `new` -/
theorem replace_count (s old new : Str) (k : Nat) :
    replace s old new (some k) = joinWith new (split s old (some (k + 1))) := by
  unfold replace split
  have hm : max (k + 1) 1 = k + 1 := by omega
  simp only [hm]
  split
  · rename_i h; have : old = [] := by cases old <;> simp_all
    subst this
    simpa using replaceLoop_empty_some new k s (s.length + 1) [] 0 (by omega) (by omega)
  · rename_i h; have hold : old ≠ [] := by cases old <;> simp_all
    simpa using replaceLoop_some old new hold k (s.length + 1) [] s 0 (by omega)

/-- **termination**: `length + 1` units of fuel are never exhausted — any larger fuel gives the same text.
(For the pinned loop, which searches the whole text again after every replacement, no such bound exists:
`"a".replace("a", "aa")` never returns.) -/
theorem replace_fuel (s old new : Str) (cnt : Option Nat) (f : Nat) (hf : s.length < f) :
    replaceLoop old new cnt f [] s 0 = replace s old new cnt :=
  replaceLoop_fuel old new cnt f (s.length + 1) [] s 0 hf (by omega)

theorem split_fuel (s sep : Str) (hsep : sep ≠ []) (f : Nat) (hf : s.length < f) :
    splitF sep f s = split s sep none := by
  have hne : sep.isEmpty = false := by cases sep <;> simp_all
  simp only [split, hne, Bool.false_eq_true, if_false]
  exact splitF_fuel sep hsep f (s.length + 1) s hf (by omega)

theorem count_fuel (s pat : Str) (hp : pat ≠ []) (f : Nat) (hf : s.length < f) : countF pat f s = count s pat := by
  have hne : pat.isEmpty = false := by cases pat <;> simp_all
  simp only [count, hne, Bool.false_eq_true, if_false]
  exact countF_fuel pat hp f (s.length + 1) s hf (by omega)

/-! ## 4. strip and pad -/

/-- **strip**: what is removed is a prefix and a suffix made of characters of the set; what is left neither
starts nor ends with one -/
theorem strip_spec (s cs : Str) :
    ∃ pre post, s = pre ++ strip s cs ++ post ∧ (∀ c ∈ pre, cs.contains c = true) ∧ (∀ c ∈ post, cs.contains c = true) ∧
      (∀ h, (strip s cs).head? = some h → cs.contains h = false) ∧
      (∀ l, (strip s cs).getLast? = some l → cs.contains l = false) := by
  obtain ⟨pre, hpre, hpin, hhead⟩ := lstrip_decomp s cs
  obtain ⟨post, hpost, hpoin, hlast⟩ := rstrip_decomp (lstrip s cs) cs
  refine ⟨pre, post, ?_, hpin, hpoin, ?_, hlast⟩
  · unfold strip; rw [List.append_assoc, ← hpost]; exact hpre
  · intro h hh
    unfold strip at hh
    cases hl : (lstrip s cs).head? with
    | none =>
      have : lstrip s cs = [] := by
        cases hx : lstrip s cs with
        | nil => rfl
        | cons y ys => rw [hx] at hl; simp at hl
      rw [this] at hh; simp [rstrip] at hh
    | some x =>
      have hx := hhead x hl
      rw [rstrip_head _ _ x hl hx] at hh
      cases hh; exact hx

theorem lstrip_spec (s cs : Str) :
    ∃ pre, s = pre ++ lstrip s cs ∧ (∀ c ∈ pre, cs.contains c = true) ∧
      (∀ h, (lstrip s cs).head? = some h → cs.contains h = false) := lstrip_decomp s cs

theorem rstrip_spec (s cs : Str) :
    ∃ post, s = rstrip s cs ++ post ∧ (∀ c ∈ post, cs.contains c = true) ∧
      (∀ l, (rstrip s cs).getLast? = some l → cs.contains l = false) := rstrip_decomp s cs

/-- **center**: the result has exactly the requested width; a shorter text sits between ⌈d/2⌉ fill characters on the
left and ⌊d/2⌋ on the right, a longer one is cut to the width -/
theorem center_spec (s : Str) (w : Nat) (c : Char) :
    (center s w c).length = w ∧
    (s.length ≤ w → ∃ l r, center s w c = List.replicate l c ++ s ++ List.replicate r c ∧
        l + r = w - s.length ∧ (l = r ∨ l = r + 1)) ∧
    (w ≤ s.length → center s w c = s.take w) := by
  unfold center
  refine ⟨?_, ?_, ?_⟩
  · split <;> simp <;> omega
  · intro h
    by_cases hw : w ≤ s.length
    · have : w = s.length := by omega
      refine ⟨0, 0, ?_, by omega, .inl rfl⟩
      simp [hw, this]
    · exact ⟨(w - s.length + 1) / 2, (w - s.length) / 2, by simp [hw], by omega, by omega⟩
  · intro h; simp [h]

/-- **ljust** -/
theorem ljust_spec (s : Str) (w : Nat) (c : Char) :
    (ljust s w c).length = w ∧ (s.length ≤ w → ljust s w c = s ++ List.replicate (w - s.length) c) ∧
    (w ≤ s.length → ljust s w c = s.take w) := by
  unfold ljust
  refine ⟨?_, ?_, ?_⟩
  · split <;> simp <;> omega
  · intro h
    by_cases hw : w ≤ s.length
    · have : w = s.length := by omega
      simp [hw, this]
    · simp [hw]
  · intro h; simp [h]

/-- **rjust** -/
theorem rjust_spec (s : Str) (w : Nat) (c : Char) :
    (rjust s w c).length = w ∧ (s.length ≤ w → rjust s w c = List.replicate (w - s.length) c ++ s) ∧
    (w ≤ s.length → rjust s w c = s.take w) := by
  unfold rjust
  refine ⟨?_, ?_, ?_⟩
  · split <;> simp <;> omega
  · intro h
    by_cases hw : w ≤ s.length
    · have : w = s.length := by omega
      simp [hw, this]
    · simp [hw]
  · intro h; simp [h]

/-! ## 5. the six comparisons = lexicographic order with trailing spaces ignored -/

/-- `rs` (the `_rstrip(" ")` every comparison starts with) removes exactly the trailing spaces -/
theorem rs_spec (s : Str) :
    ∃ n, s = rs s ++ List.replicate n ' ' ∧ ∀ l, (rs s).getLast? = some l → l ≠ ' ' := by
  obtain ⟨t, ht, hin, hlast⟩ := rstrip_decomp s [' ']
  refine ⟨t.length, ?_, ?_⟩
  · have : t = List.replicate t.length ' ' := by
      apply List.eq_replicate_iff.2
      exact ⟨rfl, fun c hc => by simpa using hin c hc⟩
    rw [← this]; exact ht
  · intro l hl h; subst h
    have := hlast ' ' hl
    simp at this

/-- `<` below is the lexicographic order of `List Char` (core `List.Lex` over the code points) -/
theorem cmp_lex (a b : Str) :
    (less a b = true ↔ rs a < rs b) ∧ (greater a b = true ↔ rs b < rs a) ∧
    (lessEqual a b = true ↔ ¬ rs b < rs a) ∧ (greaterEqual a b = true ↔ ¬ rs a < rs b) ∧
    (equal a b = true ↔ rs a = rs b) ∧ (notEqual a b = true ↔ rs a ≠ rs b) := by
  refine ⟨?_, ?_, ?_, ?_, ?_, ?_⟩
  · unfold less; rw [← cmpStr_lt_iff]; simp
  · unfold greater; rw [← cmpStr_gt_iff]; simp
  · unfold lessEqual; rw [← cmpStr_gt_iff]; simp
  · unfold greaterEqual; rw [← cmpStr_lt_iff]; simp
  · unfold equal; simp
  · unfold notEqual equal; simp

/-- the order is total: exactly one of `<`, `==`, `>` holds -/
theorem cmp_trichotomy (a b : Str) :
    (less a b = true ∧ equal a b = false ∧ greater a b = false) ∨
    (less a b = false ∧ equal a b = true ∧ greater a b = false) ∨
    (less a b = false ∧ equal a b = false ∧ greater a b = true) := by
  unfold less equal greater
  cases h : cmpStr (rs a) (rs b) with
  | lt =>
    have : rs a ≠ rs b := by intro e; rw [(cmpStr_eq_iff _ _).2 e] at h; cases h
    simp [this]
  | eq => simp [(cmpStr_eq_iff _ _).1 h]
  | gt =>
    have : rs a ≠ rs b := by intro e; rw [(cmpStr_eq_iff _ _).2 e] at h; cases h
    simp [this]

/-! ## 6. case mapping and the small ones -/

/-- `_capitalize` is total (the pinned code indexes `chars[0]`); only the first character changes -/
theorem capitalize_total : capitalize [] = [] ∧ ∀ c cs, capitalize (c :: cs) = toUpperC c :: cs := ⟨rfl, fun _ _ => rfl⟩

theorem case_length (s : Str) :
    (lower s).length = s.length ∧ (upper s).length = s.length ∧ (swapcase s).length = s.length ∧
    (capitalize s).length = s.length := by
  refine ⟨by simp [lower], by simp [upper], by simp [swapcase], by cases s <;> simp [capitalize]⟩

theorem multiply_length (s : Str) (n : Nat) : (multiply s n).length = n * s.length := by
  unfold multiply
  induction n with
  | zero => simp
  | succ n ih => rw [List.replicate_succ, List.flatten_cons, List.length_append, ih, Nat.succ_mul]; omega

/-- `zfill`: the result is as wide as asked, never shorter than the text (also for width 0 on a negative number,
where the pinned code underflows) -/
theorem zfill_length (w : Nat) (s : Str) : (zfill1 w s).length = max w s.length := by
  unfold zfill1
  cases s with
  | nil => simp; split <;> simp <;> omega
  | cons c cs =>
    by_cases hc : c = '-'
    · subst hc
      simp only [decide_true, if_true, List.drop_one, List.tail_cons, List.length_cons]
      split
      · simp only [List.length_append, List.length_replicate]; omega
      · omega
    · simp only [hc, decide_false, Bool.false_eq_true, if_false, List.length_cons, Nat.sub_zero]
      split
      · simp only [List.length_append, List.length_replicate, List.length_cons]; omega
      · simp only [List.length_cons]; omega

/-- `_join` puts the separator between the characters -/
theorem joinChars_eq (s sep : Str) : joinChars s sep = joinWith sep (s.map (fun c => [c])) := joinChars_eq_joinWith s sep

/-! ## 7. array lifting: position `p` of the result holds the per-string function of the operands at `p`

Parametric in the per-string function and in the broadcasting primitives `B`. -/

variable {α β γ δ : Type}

/-- one operand -/
theorem lift1_at (f : α → β) (a : Arr α) (hwf : a.WF) :
    ∃ r, lift1 f a = .ok r ∧ r.shape = a.shape ∧ r.WF ∧
      ∀ p (h : p < a.elems.length), r.elems[p]? = some (f a.elems[p]) := by
  refine ⟨⟨a.elems.map f, a.shape⟩, ?_, rfl, ?_, ?_⟩
  · unfold lift1 Arr.new; rw [if_pos]; simpa [Arr.WF] using hwf.symm
  · simpa [Arr.WF] using hwf
  · intro p h; simp [h]

/-- two operands through `broadcast`: whatever pairing `B.pair` produces, the result holds `f` of each pair,
in the same shape -/
theorem lift2_at (B : Bcast) (f : α → β → γ) (a : Arr α) (b : Arr β) (t : Arr (α × β))
    (ht : B.pair a b = .ok t) (hwf : t.WF) :
    ∃ r, lift2 B f a b = .ok r ∧ r.shape = t.shape ∧ r.WF ∧
      ∀ p (h : p < t.elems.length), r.elems[p]? = some (f t.elems[p].1 t.elems[p].2) := by
  refine ⟨⟨t.elems.map (fun p => f p.1 p.2), t.shape⟩, ?_, rfl, ?_, ?_⟩
  · unfold lift2; rw [ht]; simp only [Res.bind_ok]
    unfold Arr.new; rw [if_pos]; simpa [Arr.WF] using hwf.symm
  · simpa [Arr.WF] using hwf
  · intro p h; simp [h]

/-- a refused broadcast is passed on unchanged -/
theorem lift2_err (B : Bcast) (f : α → β → γ) (a : Arr α) (b : Arr β) (e : Err) (h : B.pair a b = .err e) :
    lift2 B f a b = .err e := by
  unfold lift2; rw [h]; rfl

/-- string operand + heterogeneous operand through `broadcast_h2` -/
theorem lift2h_at (B : Bcast) (z : α) (f : α → β → γ) (a : Arr α) (b : Arr β) (a' : Arr α) (b' : Arr β)
    (hh : h2 B z a b = .ok (a', b')) (hwf : a'.WF) (hlen : b'.elems.length = a'.elems.length) :
    ∃ r, lift2h B z f a b = .ok r ∧ r.shape = a'.shape ∧ r.WF ∧
      ∀ p (h : p < a'.elems.length), r.elems[p]? = some (f a'.elems[p] (b'.elems[p]'(hlen ▸ h))) := by
  refine ⟨⟨List.zipWith f a'.elems b'.elems, a'.shape⟩, ?_, rfl, ?_, ?_⟩
  · unfold lift2h; rw [hh]; simp only [Res.bind_ok]
    unfold Arr.new; rw [if_pos]; simp [hlen]; exact hwf.symm
  · simp [Arr.WF, hlen]; exact hwf
  · intro p h; simp [List.getElem?_zipWith, h, hlen]

/-- string operand + two heterogeneous operands through `broadcast_h3` (`center`, `ljust`, `rjust`): the result
has the BROADCAST shape (the pinned code rebuilt with the receiver's shape) -/
theorem lift3h_at (B : Bcast) (z : α) (f : α → β → γ → δ) (a : Arr α) (b : Arr β) (c : Arr γ)
    (a' : Arr α) (b' : Arr β) (c' : Arr γ) (hh : h3 B z a b c = .ok (a', b', c')) (hwf : a'.WF)
    (hb : b'.elems.length = a'.elems.length) (hc : c'.elems.length = a'.elems.length) :
    ∃ r, lift3h B z f a b c = .ok r ∧ r.shape = a'.shape ∧ r.WF ∧
      ∀ p (h : p < a'.elems.length),
        r.elems[p]? = some (f a'.elems[p] (b'.elems[p]'(hb ▸ h)) (c'.elems[p]'(hc ▸ h))) := by
  have hl := zipWith3_length f a'.elems b'.elems c'.elems hb hc
  refine ⟨⟨zipWith3 f a'.elems b'.elems c'.elems, a'.shape⟩, ?_, rfl, ?_, ?_⟩
  · unfold lift3h; rw [hh]; simp only [Res.bind_ok]
    unfold Arr.new; rw [if_pos]; rw [hl]; exact hwf.symm
  · simp only [Arr.WF, hl]; exact hwf
  · intro p h; exact zipWith3_getElem? f a'.elems b'.elems c'.elems hb hc p h

/-- three string operands through `broadcast_arrays` (`replace`) -/
theorem lift3_at (B : Bcast) (f : α → α → α → β) (a b c a' b' c' : Arr α)
    (hh : B.arrays [a, b, c] = .ok [a', b', c']) (hwf : a'.WF)
    (hb : b'.elems.length = a'.elems.length) (hc : c'.elems.length = a'.elems.length) :
    ∃ r, lift3 B f a b c = .ok r ∧ r.shape = a'.shape ∧ r.WF ∧
      ∀ p (h : p < a'.elems.length),
        r.elems[p]? = some (f a'.elems[p] (b'.elems[p]'(hb ▸ h)) (c'.elems[p]'(hc ▸ h))) :=
  lift3_ok B f a b c a' b' c' hh hwf hb hc

/-- `split` / `rsplit`: pair with the separator; the limit (when given) is stretched to the pair shape -/
theorem liftSplit_at (B : Bcast) (f : α → α → Option Nat → β) (a sep : Arr α) (t : Arr (α × α))
    (ht : B.pair a sep = .ok t) (hwf : t.WF) :
    (∃ r, liftSplit B f a sep none = .ok r ∧ r.shape = t.shape ∧ r.WF ∧
      ∀ p (h : p < t.elems.length), r.elems[p]? = some (f t.elems[p].1 t.elems[p].2 none)) ∧
    (∀ (m m' : Arr Nat), B.to m t.shape = .ok m' → m'.elems.length = t.elems.length →
      ∃ r, liftSplit B f a sep (some m) = .ok r ∧ r.shape = t.shape ∧ r.WF ∧
        ∀ p (h : p < t.elems.length), r.elems[p]? = some (f t.elems[p].1 t.elems[p].2 m'.elems[p]?)) :=
  ⟨liftSplit_none_ok B f a sep t ht hwf, fun m m' hm hl => liftSplit_some_ok B f a sep t ht hwf m m' hm hl⟩

/-- with the model of `broadcast.rs` plugged in and operands of one shape, position `p` pairs `a[p]` with `b[p]` -/
theorem lift2_same_shape (f : α → β → γ) (a : Arr α) (b : Arr β) (ha : a.WF) (hb : b.WF)
    (hs : a.shape = b.shape) (hpos : ∀ d ∈ a.shape, d ≠ 0) :
    lift2 Bcast.std f a b = .ok ⟨List.zipWith f a.elems b.elems, a.shape⟩ :=
  lift2_std_same_shape f a b ha hb hs hpos

/-! ## non-vacuity -/

example : split ['a', '-', 'b', '-', '-', 'c'] ['-'] none = [['a'], ['b'], [], ['c']] := by decide
example : split ['a', '-', 'b', '-', 'c'] ['-'] (some 2) = [['a'], ['b', '-', 'c']] := by decide
example : split ['a', '-', 'b'] ['-'] (some 0) = [['a', '-', 'b']] := by decide
example : split ['a', 'b'] [] none = [[], ['a'], ['b'], []] := by decide
example : rsplit ['a', 'b', '-', 'c', 'd', '-', 'e', 'f'] ['-'] (some 2) = [['a', 'b', '-', 'c', 'd'], ['e', 'f']] := by decide
example : rsplit ['a', '<', '>', 'b', '<', '>', 'c'] ['<', '>'] none = [['a'], ['b'], ['c']] := by decide
example : rsplit ['a', 'a', 'a'] ['a', 'a'] none = [['a'], []] := by decide
example : split ['a', 'a', 'a'] ['a', 'a'] none = [[], ['a']] := by decide
example : replace ['a'] ['a'] ['a', 'a'] none = ['a', 'a'] := by decide
example : replace ['a', 'a', 'b'] ['a', 'b'] ['b'] none = ['a', 'b'] := by decide
example : replace ['a', 'b'] [] ['-'] none = ['-', 'a', '-', 'b', '-'] := by decide
example : replace ['a', 'b', 'a', 'b'] ['a'] ['b', 'a'] (some 1) = ['b', 'a', 'b', 'a', 'b'] := by decide
example : partition ['a', '-', 'b', '-', 'c'] ['-'] = (['a'], ['-'], ['b', '-', 'c']) := by decide
example : rpartition ['a', '-', 'b', '-', 'c'] ['-'] = (['a', '-', 'b'], ['-'], ['c']) := by decide
example : strip [' ', 'a', ' ', 'b', ' '] [' '] = ['a', ' ', 'b'] := by decide
example : center ['a', 'b'] 5 '*' = ['*', '*', 'a', 'b', '*'] := by decide
example : less ['a', ' ', ' '] ['a', 'b'] = true ∧ equal ['a', ' '] ['a'] = true ∧ greater ['b'] ['a', 'b'] = true := by decide
example : count ['a', 'a', 'a'] ['a', 'a'] = 1 ∧ count ['a', 'b'] [] = 3 := by decide
example : splitlines ['a', '\n', 'b', '\r', '\n', 'c', '\r'] true = [['a', '\n'], ['b', '\r', '\n'], ['c', '\r']] := by decide
example : lift2 Bcast.std append ⟨[['a'], ['b']], [2]⟩ ⟨[['c'], ['d']], [2]⟩ = .ok ⟨[['a', 'c'], ['b', 'd']], [2]⟩ := by decide

end ArrModel.C17
