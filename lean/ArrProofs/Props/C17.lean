import ArrProofs.Lemmas.C17Replace
import ArrProofs.Lemmas.C17Misc
import ArrProofs.Lemmas.C17Lift
import ArrProofs.Lemmas.C17Ext
/-!
# C17 — string-array operations apply the per-string function at every position

Property theorems only (helpers: `ArrProofs/Lemmas/C17*.lean`).  Models under test: `ArrModel/C17.lean` (the
per-string primitives of `impl Alphanumeric for String`, after the repairs `fixes/C17-*.diff`) and
`ArrModel/C17Lift.lean` (the array operations).  All statements are for every string (`List Char`), every separator
including the empty one, every limit including 0 — no bound.
-/
set_option linter.unusedSimpArgs false
namespace ArrModel.C17
open ArrModel

/-! ## 1. substring search -/

/-- `find` answers `Some(i)` exactly for the first position at which the pattern occurs -/
theorem find_spec (s pat : Str) (i : Nat) :
    find s pat = some i ↔ (pat.isPrefixOf (s.drop i) = true ∧ ∀ j, j < i → pat.isPrefixOf (s.drop j) = false) := by
  constructor
  · intro h; exact ⟨find_some_prefix s pat i h, find_some_first s pat i h⟩
  · rintro ⟨hp, hfirst⟩
    cases hf : find s pat with
    | none => rw [find_none s pat hf i] at hp; cases hp
    | some k =>
      rcases Nat.lt_trichotomy k i with hlt | heq | hgt
      · have h1 := hfirst k hlt; have h2 := find_some_prefix s pat k hf; rw [h1] at h2; cases h2
      · rw [heq]
      · have := find_some_first s pat k hf i hgt; rw [this] at hp; cases hp

/-- `find` answers `None` exactly when the pattern occurs nowhere -/
theorem find_none_iff (s pat : Str) : find s pat = none ↔ ∀ j, pat.isPrefixOf (s.drop j) = false := by
  constructor
  · exact find_none s pat
  · intro h
    cases hf : find s pat with
    | none => rfl
    | some k => have := find_some_prefix s pat k hf; rw [h k] at this; cases this

/-- `rfind` answers `Some(i)` exactly for the last position at which the pattern occurs -/
theorem rfind_spec (s pat : Str) (i : Nat) :
    rfind s pat = some i ↔ (i ≤ s.length ∧ pat.isPrefixOf (s.drop i) = true ∧
      ∀ j, i < j → j ≤ s.length → pat.isPrefixOf (s.drop j) = false) := by
  constructor
  · intro h; exact ⟨rfind_some_le_length s pat i h, rfind_some_prefix s pat i h, rfind_some_last s pat i h⟩
  · rintro ⟨hle, hp, hlast⟩
    cases hf : rfind s pat with
    | none => rw [rfind_none s pat hf i] at hp; cases hp
    | some k =>
      rcases Nat.lt_trichotomy k i with hlt | heq | hgt
      · have := rfind_some_last s pat k hf i hlt hle; rw [this] at hp; cases hp
      · rw [heq]
      · have h1 := hlast k hgt (rfind_some_le_length s pat k hf)
        have h2 := rfind_some_prefix s pat k hf
        rw [h1] at h2; cases h2

theorem startsWith_iff (s pat : Str) : startsWith s pat = true ↔ ∃ t, s = pat ++ t := by
  unfold startsWith
  rw [List.isPrefixOf_iff_prefix]
  constructor <;> rintro ⟨t, h⟩ <;> exact ⟨t, h.symm⟩

theorem endsWith_iff (s pat : Str) : endsWith s pat = true ↔ ∃ t, s = t ++ pat := by
  unfold endsWith
  rw [List.isSuffixOf_iff_suffix]
  constructor <;> rintro ⟨t, h⟩ <;> exact ⟨t, h.symm⟩

/-! ## 2. splitting and partitioning lose nothing -/

/-- **join ∘ split = id**, left form: unlimited (`none`) and limited (`some n`, every `n`), every separator -/
theorem join_split (s sep : Str) (m : Option Nat) : joinWith sep (split s sep m) = s := by
  unfold split
  cases m with
  | none =>
    simp only
    split
    · rename_i h; have : sep = [] := by cases sep <;> simp_all
      subst this; exact join_splitEmpty s
    · exact join_splitF sep _ s
  | some n =>
    obtain ⟨k, hk⟩ : ∃ k, max n 1 = k + 1 := ⟨max n 1 - 1, by omega⟩
    simp only [hk]
    split
    · rename_i h; have : sep = [] := by cases sep <;> simp_all
      subst this; exact join_splitnEmpty k s
    · exact join_splitnF sep _ k s

/-- **join ∘ rsplit = id**, right form, unlimited and limited -/
theorem join_rsplit (s sep : Str) (m : Option Nat) : joinWith sep (rsplit s sep m) = s := by
  unfold rsplit
  have h := joinWith_reverse sep.reverse (split s.reverse sep.reverse m)
  rw [List.reverse_reverse, join_split, List.reverse_reverse] at h
  exact h

/-- a limit of `n` gives at most `n` pieces (and never none: a limit of 0 is read as 1) -/
theorem split_limit (s sep : Str) (n : Nat) :
    (split s sep (some n)).length ≤ max n 1 ∧ split s sep (some n) ≠ [] := by
  unfold split
  simp only
  split
  · refine ⟨splitnEmpty_length_le _ _, ?_⟩
    intro h; have := join_splitnEmpty (max n 1 - 1) s
    rw [show max n 1 - 1 + 1 = max n 1 by omega, h] at this
    cases s with
    | nil => obtain ⟨k, hk⟩ : ∃ k, max n 1 = k + 1 := ⟨max n 1 - 1, by omega⟩
             rw [hk] at h; cases k <;> simp [splitnEmpty] at h
    | cons c cs => simp [joinWith] at this
  · refine ⟨splitnF_length_le _ _ _ _, ?_⟩
    obtain ⟨k, hk⟩ : ∃ k, max n 1 = k + 1 := ⟨max n 1 - 1, by omega⟩
    rw [hk]; exact splitnF_ne_nil _ _ _ _

theorem rsplit_limit (s sep : Str) (n : Nat) :
    (rsplit s sep (some n)).length ≤ max n 1 ∧ rsplit s sep (some n) ≠ [] := by
  have h := split_limit s.reverse sep.reverse n
  unfold rsplit
  refine ⟨by simpa using h.1, ?_⟩
  intro hh; apply h.2
  simpa using hh

/-- with a non-empty separator and no limit, no piece contains the separator -/
theorem split_pieces_sep_free (s sep : Str) (hsep : sep ≠ []) :
    ∀ p ∈ split s sep none, find p sep = none := by
  have hne : sep.isEmpty = false := by cases sep <;> simp_all
  simp only [split, hne, Bool.false_eq_true, if_false]
  exact splitF_pieces_sep_free sep hsep _ s (by omega)

/-- **partition**: the three parts concatenate to the original -/
theorem partition_concat (s sep : Str) :
    (partition s sep).1 ++ (partition s sep).2.1 ++ (partition s sep).2.2 = s := by
  unfold partition
  cases h : find s sep with
  | none => simp
  | some i => simpa [List.drop_drop] using (find_some_decomp s sep i h).symm

theorem rpartition_concat (s sep : Str) :
    (rpartition s sep).1 ++ (rpartition s sep).2.1 ++ (rpartition s sep).2.2 = s := by
  unfold rpartition
  cases h : rfind s sep with
  | none => simp
  | some i => simpa [List.drop_drop] using (rfind_some_decomp s sep i h).symm

/-- `partition` cuts around the FIRST occurrence; without an occurrence the text comes back whole -/
theorem partition_first (s sep : Str) :
    (∃ i, partition s sep = (s.take i, sep, s.drop (i + sep.length)) ∧ sep.isPrefixOf (s.drop i) = true ∧
        ∀ j, j < i → sep.isPrefixOf (s.drop j) = false) ∨
    (partition s sep = (s, [], []) ∧ ∀ j, sep.isPrefixOf (s.drop j) = false) := by
  unfold partition
  cases h : find s sep with
  | none => exact .inr ⟨rfl, find_none s sep h⟩
  | some i => exact .inl ⟨i, by simp [List.drop_drop], find_some_prefix s sep i h, find_some_first s sep i h⟩

/-- `rpartition` cuts around the LAST occurrence -/
theorem rpartition_last (s sep : Str) :
    (∃ i, rpartition s sep = (s.take i, sep, s.drop (i + sep.length)) ∧ sep.isPrefixOf (s.drop i) = true ∧
        ∀ j, i < j → j ≤ s.length → sep.isPrefixOf (s.drop j) = false) ∨
    (rpartition s sep = (s, [], []) ∧ ∀ j, sep.isPrefixOf (s.drop j) = false) := by
  unfold rpartition
  cases h : rfind s sep with
  | none => exact .inr ⟨rfl, rfind_none s sep h⟩
  | some i => exact .inl ⟨i, by simp [List.drop_drop], rfind_some_prefix s sep i h, rfind_some_last s sep i h⟩

/-- `splitlines` with `keep_ends`: the lines concatenate to the original -/
theorem splitlines_keep_concat (s : Str) : (splitlines s true).flatten = s := by
  simpa [splitlines] using splitlinesAux_keep_flatten s []

/-- `splitlines` without `keep_ends`: no line contains a line break -/
theorem splitlines_lines_clean (s : Str) : ∀ l ∈ splitlines s false, ∀ c ∈ l, c ≠ '\n' ∧ c ≠ '\r' :=
  splitlinesAux_clean s [] (by simp)

/-- `count` = number of separators between the pieces of `split` (non-overlapping, left to right) -/
theorem count_eq_pieces (s pat : Str) : count s pat + 1 = (split s pat none).length := by
  unfold count split
  simp only
  split
  · simp [splitEmpty]
  · rw [splitF_length]

/-! ## 3. replace -/

/-- **replace = join new ∘ split old** (no limit; every `old`, the empty one included) -/
theorem replace_eq_join_split (s old new : Str) : replace s old new none = joinWith new (split s old none) := by
  unfold replace split
  simp only
  split
  · rename_i h; have : old = [] := by cases old <;> simp_all
    subst this
    simpa using replaceLoop_empty_none new s (s.length + 1) [] 0 (by omega)
  · rename_i h; have hold : old ≠ [] := by cases old <;> simp_all
    simpa using replaceLoop_none old new hold (s.length + 1) [] s 0

/-- **replace with a count**: at most `k` occurrences, left to right = `splitn(k + 1)` joined by `new` -/
theorem replace_count (s old new : Str) (k : Nat) :
    replace s old new (some k) = joinWith new (split s old (some (k + 1))) := by
  unfold replace split
  have hm : max (k + 1) 1 = k + 1 := by omega
  simp only [hm]
  split
  · rename_i h; have : old = [] := by cases old <;> simp_all
    subst this
    simpa using replaceLoop_empty_some new k s (s.length + 1) [] 0 (by omega) (by omega)
  · rename_i h; have hold : old ≠ [] := by cases old <;> simp_all
    simpa using replaceLoop_some old new hold k (s.length + 1) [] s 0 (by omega)

/-- **termination**: `length + 1` units of fuel are never exhausted — any larger fuel gives the same text.
(For the pinned loop, which searches the whole text again after every replacement, no such bound exists:
`"a".replace("a", "aa")` never returns.) -/
theorem replace_fuel (s old new : Str) (cnt : Option Nat) (f : Nat) (hf : s.length < f) :
    replaceLoop old new cnt f [] s 0 = replace s old new cnt :=
  replaceLoop_fuel old new cnt f (s.length + 1) [] s 0 hf (by omega)

theorem split_fuel (s sep : Str) (hsep : sep ≠ []) (f : Nat) (hf : s.length < f) :
    splitF sep f s = split s sep none := by
  have hne : sep.isEmpty = false := by cases sep <;> simp_all
  simp only [split, hne, Bool.false_eq_true, if_false]
  exact splitF_fuel sep hsep f (s.length + 1) s hf (by omega)

theorem count_fuel (s pat : Str) (hp : pat ≠ []) (f : Nat) (hf : s.length < f) : countF pat f s = count s pat := by
  have hne : pat.isEmpty = false := by cases pat <;> simp_all
  simp only [count, hne, Bool.false_eq_true, if_false]
  exact countF_fuel pat hp f (s.length + 1) s hf (by omega)

/-! ## 4. strip and pad -/

/-- **strip**: what is removed is a prefix and a suffix made of characters of the set; what is left neither
starts nor ends with one -/
theorem strip_spec (s cs : Str) :
    ∃ pre post, s = pre ++ strip s cs ++ post ∧ (∀ c ∈ pre, cs.contains c = true) ∧ (∀ c ∈ post, cs.contains c = true) ∧
      (∀ h, (strip s cs).head? = some h → cs.contains h = false) ∧
      (∀ l, (strip s cs).getLast? = some l → cs.contains l = false) := by
  obtain ⟨pre, hpre, hpin, hhead⟩ := lstrip_decomp s cs
  obtain ⟨post, hpost, hpoin, hlast⟩ := rstrip_decomp (lstrip s cs) cs
  refine ⟨pre, post, ?_, hpin, hpoin, ?_, hlast⟩
  · unfold strip; rw [List.append_assoc, ← hpost]; exact hpre
  · intro h hh
    unfold strip at hh
    cases hl : (lstrip s cs).head? with
    | none =>
      have : lstrip s cs = [] := by
        cases hx : lstrip s cs with
        | nil => rfl
        | cons y ys => rw [hx] at hl; simp at hl
      rw [this] at hh; simp [rstrip] at hh
    | some x =>
      have hx := hhead x hl
      rw [rstrip_head _ _ x hl hx] at hh
      cases hh; exact hx

theorem lstrip_spec (s cs : Str) :
    ∃ pre, s = pre ++ lstrip s cs ∧ (∀ c ∈ pre, cs.contains c = true) ∧
      (∀ h, (lstrip s cs).head? = some h → cs.contains h = false) := lstrip_decomp s cs

theorem rstrip_spec (s cs : Str) :
    ∃ post, s = rstrip s cs ++ post ∧ (∀ c ∈ post, cs.contains c = true) ∧
      (∀ l, (rstrip s cs).getLast? = some l → cs.contains l = false) := rstrip_decomp s cs

/-- **center**: the result has exactly the requested width; a shorter text sits between ⌈d/2⌉ fill characters on the
left and ⌊d/2⌋ on the right, a longer one is cut to the width -/
theorem center_spec (s : Str) (w : Nat) (c : Char) :
    (center s w c).length = w ∧
    (s.length ≤ w → ∃ l r, center s w c = List.replicate l c ++ s ++ List.replicate r c ∧
        l + r = w - s.length ∧ (l = r ∨ l = r + 1)) ∧
    (w ≤ s.length → center s w c = s.take w) := by
  unfold center
  refine ⟨?_, ?_, ?_⟩
  · split <;> simp <;> omega
  · intro h
    by_cases hw : w ≤ s.length
    · have : w = s.length := by omega
      refine ⟨0, 0, ?_, by omega, .inl rfl⟩
      simp [hw, this]
    · exact ⟨(w - s.length + 1) / 2, (w - s.length) / 2, by simp [hw], by omega, by omega⟩
  · intro h; simp [h]

/-- **ljust** -/
theorem ljust_spec (s : Str) (w : Nat) (c : Char) :
    (ljust s w c).length = w ∧ (s.length ≤ w → ljust s w c = s ++ List.replicate (w - s.length) c) ∧
    (w ≤ s.length → ljust s w c = s.take w) := by
  unfold ljust
  refine ⟨?_, ?_, ?_⟩
  · split <;> simp <;> omega
  · intro h
    by_cases hw : w ≤ s.length
    · have : w = s.length := by omega
      simp [hw, this]
    · simp [hw]
  · intro h; simp [h]

/-- **rjust** -/
theorem rjust_spec (s : Str) (w : Nat) (c : Char) :
    (rjust s w c).length = w ∧ (s.length ≤ w → rjust s w c = List.replicate (w - s.length) c ++ s) ∧
    (w ≤ s.length → rjust s w c = s.take w) := by
  unfold rjust
  refine ⟨?_, ?_, ?_⟩
  · split <;> simp <;> omega
  · intro h
    by_cases hw : w ≤ s.length
    · have : w = s.length := by omega
      simp [hw, this]
    · simp [hw]
  · intro h; simp [h]

/-! ## 5. the six comparisons = lexicographic order with trailing spaces ignored -/

/-- `rs` (the `_rstrip(" ")` every comparison starts with) removes exactly the trailing spaces -/
theorem rs_spec (s : Str) :
    ∃ n, s = rs s ++ List.replicate n ' ' ∧ ∀ l, (rs s).getLast? = some l → l ≠ ' ' := by
  obtain ⟨t, ht, hin, hlast⟩ := rstrip_decomp s [' ']
  refine ⟨t.length, ?_, ?_⟩
  · have : t = List.replicate t.length ' ' := by
      apply List.eq_replicate_iff.2
      exact ⟨rfl, fun c hc => by simpa using hin c hc⟩
    rw [← this]; exact ht
  · intro l hl h; subst h
    have := hlast ' ' hl
    simp at this

/-- `<` below is the lexicographic order of `List Char` (core `List.Lex` over the code points) -/
theorem cmp_lex (a b : Str) :
    (less a b = true ↔ rs a < rs b) ∧ (greater a b = true ↔ rs b < rs a) ∧
    (lessEqual a b = true ↔ ¬ rs b < rs a) ∧ (greaterEqual a b = true ↔ ¬ rs a < rs b) ∧
    (equal a b = true ↔ rs a = rs b) ∧ (notEqual a b = true ↔ rs a ≠ rs b) := by
  refine ⟨?_, ?_, ?_, ?_, ?_, ?_⟩
  · unfold less; rw [← cmpStr_lt_iff]; simp
  · unfold greater; rw [← cmpStr_gt_iff]; simp
  · unfold lessEqual; rw [← cmpStr_gt_iff]; simp
  · unfold greaterEqual; rw [← cmpStr_lt_iff]; simp
  · unfold equal; simp
  · unfold notEqual equal; simp

/-- the order is total: exactly one of `<`, `==`, `>` holds -/
theorem cmp_trichotomy (a b : Str) :
    (less a b = true ∧ equal a b = false ∧ greater a b = false) ∨
    (less a b = false ∧ equal a b = true ∧ greater a b = false) ∨
    (less a b = false ∧ equal a b = false ∧ greater a b = true) := by
  unfold less equal greater
  cases h : cmpStr (rs a) (rs b) with
  | lt =>
    have : rs a ≠ rs b := by intro e; rw [(cmpStr_eq_iff _ _).2 e] at h; cases h
    simp [this]
  | eq => simp [(cmpStr_eq_iff _ _).1 h]
  | gt =>
    have : rs a ≠ rs b := by intro e; rw [(cmpStr_eq_iff _ _).2 e] at h; cases h
    simp [this]

/-! ## 6. case mapping and the small ones -/

/-- `_capitalize` is total (the pinned code indexes `chars[0]`); only the first character changes -/
theorem capitalize_total : capitalize [] = [] ∧ ∀ c cs, capitalize (c :: cs) = toUpperC c :: cs := ⟨rfl, fun _ _ => rfl⟩

theorem case_length (s : Str) :
    (lower s).length = s.length ∧ (upper s).length = s.length ∧ (swapcase s).length = s.length ∧
    (capitalize s).length = s.length := by
  refine ⟨by simp [lower], by simp [upper], by simp [swapcase], by cases s <;> simp [capitalize]⟩

theorem multiply_length (s : Str) (n : Nat) : (multiply s n).length = n * s.length := by
  unfold multiply
  induction n with
  | zero => simp
  | succ n ih => rw [List.replicate_succ, List.flatten_cons, List.length_append, ih, Nat.succ_mul]; omega

/-- `zfill`: the result is as wide as asked, never shorter than the text (also for width 0 on a negative number,
where the pinned code underflows) -/
theorem zfill_length (w : Nat) (s : Str) : (zfill1 w s).length = max w s.length := by
  unfold zfill1
  cases s with
  | nil => simp; split <;> simp <;> omega
  | cons c cs =>
    by_cases hc : c = '-'
    · subst hc
      simp only [decide_true, if_true, List.drop_one, List.tail_cons, List.length_cons]
      split
      · simp only [List.length_append, List.length_replicate]; omega
      · omega
    · simp only [hc, decide_false, Bool.false_eq_true, if_false, List.length_cons, Nat.sub_zero]
      split
      · simp only [List.length_append, List.length_replicate, List.length_cons]; omega
      · simp only [List.length_cons]; omega

/-- `_join` puts the separator between the characters -/
theorem joinChars_eq (s sep : Str) : joinChars s sep = joinWith sep (s.map (fun c => [c])) := joinChars_eq_joinWith s sep

/-! ## 7. array lifting: position `p` of the result holds the per-string function of the operands at `p`

Parametric in the per-string function and in the broadcasting primitives `B`. -/

variable {α β γ δ : Type}

/-- one operand -/
theorem lift1_at (f : α → β) (a : Arr α) (hwf : a.WF) :
    ∃ r, lift1 f a = .ok r ∧ r.shape = a.shape ∧ r.WF ∧
      ∀ p (h : p < a.elems.length), r.elems[p]? = some (f a.elems[p]) := by
  refine ⟨⟨a.elems.map f, a.shape⟩, ?_, rfl, ?_, ?_⟩
  · unfold lift1 Arr.new; rw [if_pos]; simpa [Arr.WF] using hwf.symm
  · simpa [Arr.WF] using hwf
  · intro p h; simp [h]

/-- two operands through `broadcast`: whatever pairing `B.pair` produces, the result holds `f` of each pair,
in the same shape -/
theorem lift2_at (B : Bcast) (f : α → β → γ) (a : Arr α) (b : Arr β) (t : Arr (α × β))
    (ht : B.pair a b = .ok t) (hwf : t.WF) :
    ∃ r, lift2 B f a b = .ok r ∧ r.shape = t.shape ∧ r.WF ∧
      ∀ p (h : p < t.elems.length), r.elems[p]? = some (f t.elems[p].1 t.elems[p].2) := by
  refine ⟨⟨t.elems.map (fun p => f p.1 p.2), t.shape⟩, ?_, rfl, ?_, ?_⟩
  · unfold lift2; rw [ht]; simp only [Res.bind_ok]
    unfold Arr.new; rw [if_pos]; simpa [Arr.WF] using hwf.symm
  · simpa [Arr.WF] using hwf
  · intro p h; simp [h]

/-- a refused broadcast is passed on unchanged -/
theorem lift2_err (B : Bcast) (f : α → β → γ) (a : Arr α) (b : Arr β) (e : Err) (h : B.pair a b = .err e) :
    lift2 B f a b = .err e := by
  unfold lift2; rw [h]; rfl

/-- string operand + heterogeneous operand through `broadcast_h2` -/
theorem lift2h_at (B : Bcast) (z : α) (f : α → β → γ) (a : Arr α) (b : Arr β) (a' : Arr α) (b' : Arr β)
    (hh : h2 B z a b = .ok (a', b')) (hwf : a'.WF) (hlen : b'.elems.length = a'.elems.length) :
    ∃ r, lift2h B z f a b = .ok r ∧ r.shape = a'.shape ∧ r.WF ∧
      ∀ p (h : p < a'.elems.length), r.elems[p]? = some (f a'.elems[p] (b'.elems[p]'(hlen ▸ h))) := by
  refine ⟨⟨List.zipWith f a'.elems b'.elems, a'.shape⟩, ?_, rfl, ?_, ?_⟩
  · unfold lift2h; rw [hh]; simp only [Res.bind_ok]
    unfold Arr.new; rw [if_pos]; simp [hlen]; exact hwf.symm
  · simp [Arr.WF, hlen]; exact hwf
  · intro p h; simp [List.getElem?_zipWith, h, hlen]

/-- string operand + two heterogeneous operands through `broadcast_h3` (`center`, `ljust`, `rjust`): the result
has the BROADCAST shape (the pinned code rebuilt with the receiver's shape) -/
theorem lift3h_at (B : Bcast) (z : α) (f : α → β → γ → δ) (a : Arr α) (b : Arr β) (c : Arr γ)
    (a' : Arr α) (b' : Arr β) (c' : Arr γ) (hh : h3 B z a b c = .ok (a', b', c')) (hwf : a'.WF)
    (hb : b'.elems.length = a'.elems.length) (hc : c'.elems.length = a'.elems.length) :
    ∃ r, lift3h B z f a b c = .ok r ∧ r.shape = a'.shape ∧ r.WF ∧
      ∀ p (h : p < a'.elems.length),
        r.elems[p]? = some (f a'.elems[p] (b'.elems[p]'(hb ▸ h)) (c'.elems[p]'(hc ▸ h))) := by
  have hl := zipWith3_length f a'.elems b'.elems c'.elems hb hc
  refine ⟨⟨zipWith3 f a'.elems b'.elems c'.elems, a'.shape⟩, ?_, rfl, ?_, ?_⟩
  · unfold lift3h; rw [hh]; simp only [Res.bind_ok]
    unfold Arr.new; rw [if_pos]; rw [hl]; exact hwf.symm
  · simp only [Arr.WF, hl]; exact hwf
  · intro p h; exact zipWith3_getElem? f a'.elems b'.elems c'.elems hb hc p h

/-- three string operands through `broadcast_arrays` (`replace`) -/
theorem lift3_at (B : Bcast) (f : α → α → α → β) (a b c a' b' c' : Arr α)
    (hh : B.arrays [a, b, c] = .ok [a', b', c']) (hwf : a'.WF)
    (hb : b'.elems.length = a'.elems.length) (hc : c'.elems.length = a'.elems.length) :
    ∃ r, lift3 B f a b c = .ok r ∧ r.shape = a'.shape ∧ r.WF ∧
      ∀ p (h : p < a'.elems.length),
        r.elems[p]? = some (f a'.elems[p] (b'.elems[p]'(hb ▸ h)) (c'.elems[p]'(hc ▸ h))) :=
  lift3_ok B f a b c a' b' c' hh hwf hb hc

/-- `split` / `rsplit`: pair with the separator; the limit (when given) is stretched to the pair shape -/
theorem liftSplit_at (B : Bcast) (f : α → α → Option Nat → β) (a sep : Arr α) (t : Arr (α × α))
    (ht : B.pair a sep = .ok t) (hwf : t.WF) :
    (∃ r, liftSplit B f a sep none = .ok r ∧ r.shape = t.shape ∧ r.WF ∧
      ∀ p (h : p < t.elems.length), r.elems[p]? = some (f t.elems[p].1 t.elems[p].2 none)) ∧
    (∀ (m m' : Arr Nat), B.to m t.shape = .ok m' → m'.elems.length = t.elems.length →
      ∃ r, liftSplit B f a sep (some m) = .ok r ∧ r.shape = t.shape ∧ r.WF ∧
        ∀ p (h : p < t.elems.length), r.elems[p]? = some (f t.elems[p].1 t.elems[p].2 m'.elems[p]?)) :=
  ⟨liftSplit_none_ok B f a sep t ht hwf, fun m m' hm hl => liftSplit_some_ok B f a sep t ht hwf m m' hm hl⟩

/-- with the model of `broadcast.rs` plugged in and operands of one shape, position `p` pairs `a[p]` with `b[p]` -/
theorem lift2_same_shape (f : α → β → γ) (a : Arr α) (b : Arr β) (ha : a.WF) (hb : b.WF)
    (hs : a.shape = b.shape) (hpos : ∀ d ∈ a.shape, d ≠ 0) :
    lift2 Bcast.std f a b = .ok ⟨List.zipWith f a.elems b.elems, a.shape⟩ :=
  lift2_std_same_shape f a b ha hb hs hpos

/-! ## non-vacuity -/

example : split ['a', '-', 'b', '-', '-', 'c'] ['-'] none = [['a'], ['b'], [], ['c']] := by decide
example : split ['a', '-', 'b', '-', 'c'] ['-'] (some 2) = [['a'], ['b', '-', 'c']] := by decide
example : split ['a', '-', 'b'] ['-'] (some 0) = [['a', '-', 'b']] := by decide
example : split ['a', 'b'] [] none = [[], ['a'], ['b'], []] := by decide
example : rsplit ['a', 'b', '-', 'c', 'd', '-', 'e', 'f'] ['-'] (some 2) = [['a', 'b', '-', 'c', 'd'], ['e', 'f']] := by decide
example : rsplit ['a', '<', '>', 'b', '<', '>', 'c'] ['<', '>'] none = [['a'], ['b'], ['c']] := by decide
example : rsplit ['a', 'a', 'a'] ['a', 'a'] none = [['a'], []] := by decide
example : split ['a', 'a', 'a'] ['a', 'a'] none = [[], ['a']] := by decide
example : replace ['a'] ['a'] ['a', 'a'] none = ['a', 'a'] := by decide
example : replace ['a', 'a', 'b'] ['a', 'b'] ['b'] none = ['a', 'b'] := by decide
example : replace ['a', 'b'] [] ['-'] none = ['-', 'a', '-', 'b', '-'] := by decide
example : replace ['a', 'b', 'a', 'b'] ['a'] ['b', 'a'] (some 1) = ['b', 'a', 'b', 'a', 'b'] := by decide
example : partition ['a', '-', 'b', '-', 'c'] ['-'] = (['a'], ['-'], ['b', '-', 'c']) := by decide
example : rpartition ['a', '-', 'b', '-', 'c'] ['-'] = (['a', '-', 'b'], ['-'], ['c']) := by decide
example : strip [' ', 'a', ' ', 'b', ' '] [' '] = ['a', ' ', 'b'] := by decide
example : center ['a', 'b'] 5 '*' = ['*', '*', 'a', 'b', '*'] := by decide
example : less ['a', ' ', ' '] ['a', 'b'] = true ∧ equal ['a', ' '] ['a'] = true ∧ greater ['b'] ['a', 'b'] = true := by decide
example : count ['a', 'a', 'a'] ['a', 'a'] = 1 ∧ count ['a', 'b'] [] = 3 := by decide
example : splitlines ['a', '\n', 'b', '\r', '\n', 'c', '\r'] true = [['a', '\n'], ['b', '\r', '\n'], ['c', '\r']] := by decide
example : lift2 Bcast.std append ⟨[['a'], ['b']], [2]⟩ ⟨[['c'], ['d']], [2]⟩ = .ok ⟨[['a', 'c'], ['b', 'd']], [2]⟩ := by decide

/-! ## 8. extension: the ASCII tables of the case maps and of the `is_*` classes, `translate`, `zfill` -/

/-- the model's ASCII tables are the ones core Lean's `Char` defines independently
(`char::is_whitespace` additionally has VT and FF) -/
theorem tables_eq_core (c : Char) :
    isUpperC c = c.isUpper ∧ isLowerC c = c.isLower ∧ isAlphaC c = c.isAlpha ∧ isDigitC c = c.isDigit ∧
    isAlnumC c = c.isAlphanum ∧ toLowerC c = c.toLower ∧ toUpperC c = c.toUpper ∧
    isSpaceC c = (c.isWhitespace || c == Char.ofNat 11 || c == Char.ofNat 12) := by
  refine ⟨isUpperC_eq_core c, isLowerC_eq_core c, ?_, isDigitC_eq_core c, ?_, toLowerC_eq_core c, toUpperC_eq_core c,
    isSpaceC_eq_core c⟩
  · simp only [isAlphaC, Char.isAlpha, isUpperC_eq_core, isLowerC_eq_core]
  · simp only [isAlnumC, isAlphaC, Char.isAlphanum, Char.isAlpha, isUpperC_eq_core, isLowerC_eq_core, isDigitC_eq_core]

theorem case_maps_eq_core (s : Str) : lower s = s.map Char.toLower ∧ upper s = s.map Char.toUpper := by
  constructor
  · unfold lower; congr 1; funext c; exact toLowerC_eq_core c
  · unfold upper; congr 1; funext c; exact toUpperC_eq_core c

/-- the tables in numbers: `lower` adds 32 to the code points 65..90, `upper` subtracts 32 from 97..122, `swapcase`
does both, every other character (non-ASCII included) is left alone — and `Char.ofNat` never leaves the valid range -/
theorem case_codepoints (s : Str) (i : Nat) (c : Char) (h : s[i]? = some c) :
    (∃ d, (lower s)[i]? = some d ∧ d.toNat = if 65 ≤ c.toNat ∧ c.toNat ≤ 90 then c.toNat + 32 else c.toNat) ∧
    (∃ d, (upper s)[i]? = some d ∧ d.toNat = if 97 ≤ c.toNat ∧ c.toNat ≤ 122 then c.toNat - 32 else c.toNat) ∧
    (∃ d, (swapcase s)[i]? = some d ∧ d.toNat = if 97 ≤ c.toNat ∧ c.toNat ≤ 122 then c.toNat - 32
        else if 65 ≤ c.toNat ∧ c.toNat ≤ 90 then c.toNat + 32 else c.toNat) := by
  refine ⟨⟨toLowerC c, by simp [lower, h], toNat_toLowerC c⟩, ⟨toUpperC c, by simp [upper, h], toNat_toUpperC c⟩,
    ⟨swapC c, by simp [swapcase_eq_map, h], toNat_swapC c⟩⟩

/-- the algebra of the case maps (every string, non-ASCII characters included: the model leaves them alone) -/
theorem case_algebra (s : Str) :
    lower (lower s) = lower s ∧ upper (upper s) = upper s ∧ upper (lower s) = upper s ∧ lower (upper s) = lower s ∧
    swapcase (swapcase s) = s ∧ lower (swapcase s) = lower s ∧ upper (swapcase s) = upper s ∧
    swapcase (lower s) = upper s ∧ swapcase (upper s) = lower s := by
  simp only [swapcase_eq_map, lower, upper, List.map_map]
  refine ⟨?_, ?_, ?_, ?_, ?_, ?_, ?_, ?_, ?_⟩
  · congr 1; funext c; exact toLowerC_idem c
  · congr 1; funext c; exact toUpperC_idem c
  · congr 1; funext c; exact toUpperC_toLowerC c
  · congr 1; funext c; exact toLowerC_toUpperC c
  · conv => rhs; rw [← List.map_id s]
    congr 1; funext c; exact swapC_swapC c
  · congr 1; funext c; exact toLowerC_swapC c
  · congr 1; funext c; exact toUpperC_swapC c
  · congr 1; funext c; exact swapC_toLowerC c
  · congr 1; funext c; exact swapC_toUpperC c

/-- `lower` leaves a text unchanged exactly when it has no upper-case letter; its result never has one -/
theorem lower_fixed_iff (s : Str) :
    (lower s = s ↔ ∀ c ∈ s, isUpperC c = false) ∧ (∀ c ∈ lower s, isUpperC c = false) := by
  refine ⟨lower_eq_self_iff s, ?_⟩
  intro c hc
  obtain ⟨d, _, rfl⟩ := List.mem_map.1 hc
  exact isUpperC_toLowerC d

theorem upper_fixed_iff (s : Str) :
    (upper s = s ↔ ∀ c ∈ s, isLowerC c = false) ∧ (∀ c ∈ upper s, isLowerC c = false) := by
  refine ⟨upper_eq_self_iff s, ?_⟩
  intro c hc
  obtain ⟨d, _, rfl⟩ := List.mem_map.1 hc
  exact isLowerC_toUpperC d

/-- comparing without regard to case: through `lower` or through `upper` is the same relation -/
theorem caseless_eq (s t : Str) : lower s = lower t ↔ upper s = upper t := by
  constructor
  · intro h; have := congrArg upper h
    rwa [(case_algebra s).2.2.1, (case_algebra t).2.2.1] at this
  · intro h; have := congrArg lower h
    rwa [(case_algebra s).2.2.2.1, (case_algebra t).2.2.2.1] at this

/-- **is_lower**: there is a lower-case letter and no upper-case letter (characters without case are ignored) -/
theorem isLower_iff (s : Str) :
    isLower s = true ↔ (∃ c ∈ s, isLowerC c = true) ∧ ∀ c ∈ s, isUpperC c = false := by
  rw [isLower_eq]; simp

/-- **is_upper**: there is an upper-case letter and no lower-case letter -/
theorem isUpper_iff (s : Str) :
    isUpper s = true ↔ (∃ c ∈ s, isUpperC c = true) ∧ ∀ c ∈ s, isLowerC c = false := by
  rw [isUpper_eq]; simp

/-- … equivalently: the text has a letter and is a fixed point of `lower` / `upper` -/
theorem isLower_iff_fixed (s : Str) :
    (isLower s = true ↔ lower s = s ∧ ∃ c ∈ s, isAlphaC c = true) ∧
    (isUpper s = true ↔ upper s = s ∧ ∃ c ∈ s, isAlphaC c = true) := by
  rw [isLower_iff, isUpper_iff, lower_eq_self_iff, upper_eq_self_iff]
  constructor
  · constructor
    · rintro ⟨⟨c, hc, hl⟩, hall⟩; exact ⟨hall, c, hc, (isAlphaC_iff c).2 (.inr hl)⟩
    · rintro ⟨hall, c, hc, ha⟩
      refine ⟨⟨c, hc, ?_⟩, hall⟩
      rcases (isAlphaC_iff c).1 ha with hu | hl
      · rw [hall c hc] at hu; cases hu
      · exact hl
  · constructor
    · rintro ⟨⟨c, hc, hl⟩, hall⟩; exact ⟨hall, c, hc, (isAlphaC_iff c).2 (.inl hl)⟩
    · rintro ⟨hall, c, hc, ha⟩
      refine ⟨⟨c, hc, ?_⟩, hall⟩
      rcases (isAlphaC_iff c).1 ha with hu | hl
      · exact hu
      · rw [hall c hc] at hl; cases hl

/-- the case maps and the case tests: `lower s` is lower-case as soon as `s` has a letter, never upper-case;
`swapcase` exchanges the two tests; no text is both -/
theorem isLower_case_maps (s : Str) :
    isLower (lower s) = s.any isAlphaC ∧ isUpper (upper s) = s.any isAlphaC ∧
    isUpper (lower s) = false ∧ isLower (upper s) = false ∧
    isLower (swapcase s) = isUpper s ∧ isUpper (swapcase s) = isLower s ∧
    (isLower s = true → isUpper s = false) := by
  simp only [isLower_eq, isUpper_eq, lower, upper, swapcase_eq_map, List.any_map, List.all_map]
  refine ⟨?_, ?_, ?_, ?_, ?_, ?_, ?_⟩
  · have h1 : (isLowerC ∘ toLowerC) = isAlphaC := funext isLowerC_toLowerC
    have h2 : ((fun c => !isUpperC c) ∘ toLowerC) = fun _ => true := by
      funext c; simp [isUpperC_toLowerC]
    rw [h1, h2]; simp
  · have h1 : (isUpperC ∘ toUpperC) = isAlphaC := funext isUpperC_toUpperC
    have h2 : ((fun c => !isLowerC c) ∘ toUpperC) = fun _ => true := by
      funext c; simp [isLowerC_toUpperC]
    rw [h1, h2]; simp
  · have h1 : (isUpperC ∘ toLowerC) = fun _ => false := funext isUpperC_toLowerC
    rw [h1]; simp
  · have h1 : (isLowerC ∘ toUpperC) = fun _ => false := funext isLowerC_toUpperC
    rw [h1]; simp
  · have h1 : (isLowerC ∘ swapC) = isUpperC := funext isLowerC_swapC
    have h2 : ((fun c => !isUpperC c) ∘ swapC) = fun c => !isLowerC c := by
      funext c; simp [isUpperC_swapC]
    rw [h1, h2]
  · have h1 : (isUpperC ∘ swapC) = isLowerC := funext isUpperC_swapC
    have h2 : ((fun c => !isLowerC c) ∘ swapC) = fun c => !isUpperC c := by
      funext c; simp [isLowerC_swapC]
    rw [h1, h2]
  · intro h
    simp only [Bool.and_eq_true, List.any_eq_true, List.all_eq_true, Bool.not_eq_true'] at h
    obtain ⟨⟨c, hc, hl⟩, hall⟩ := h
    rw [Bool.and_eq_false_iff]; right
    rw [List.all_eq_false]
    exact ⟨c, hc, by simp [hl]⟩

/-- **the class tests** in terms of core Lean's character classes: non-empty and every character in the class;
`is_digit` demands exactly one character; `is_numeric` = `is_decimal` on ASCII -/
theorem class_spec (s : Str) :
    (isAlpha s = true ↔ s ≠ [] ∧ ∀ c ∈ s, c.isAlpha = true) ∧
    (isAlnum s = true ↔ s ≠ [] ∧ ∀ c ∈ s, c.isAlphanum = true) ∧
    (isDecimal s = true ↔ s ≠ [] ∧ ∀ c ∈ s, c.isDigit = true) ∧
    (isNumeric s = isDecimal s) ∧
    (isDigit s = true ↔ ∃ c, s = [c] ∧ c.isDigit = true) ∧
    (isSpace s = true ↔ s ≠ [] ∧ ∀ c ∈ s, (9 ≤ c.toNat ∧ c.toNat ≤ 13) ∨ c.toNat = 32) := by
  have hA : isAlphaC = Char.isAlpha := funext fun c => (tables_eq_core c).2.2.1
  have hN : isAlnumC = Char.isAlphanum := funext fun c => (tables_eq_core c).2.2.2.2.1
  have hD : isDigitC = Char.isDigit := funext fun c => (tables_eq_core c).2.2.2.1
  refine ⟨?_, ?_, ?_, rfl, ?_, ?_⟩
  · simp [isAlpha, hA]
  · simp [isAlnum, hN]
  · simp [isDecimal, hD]
  · unfold isDigit; rw [hD]
    constructor
    · intro h
      simp only [Bool.and_eq_true, beq_iff_eq, List.all_eq_true] at h
      obtain ⟨c, rfl⟩ := List.length_eq_one_iff.1 h.1
      exact ⟨c, rfl, h.2 c (by simp)⟩
    · rintro ⟨c, rfl, hc⟩; simp [hc]
  · simp [isSpace, isSpaceC]

/-- how the tests relate: digit ⊆ decimal ⊆ alnum ⊇ alpha; alnum = every character a letter or a digit;
letters, digits and white space exclude one another -/
theorem class_lattice (s : Str) :
    (isDigit s = true → isDecimal s = true) ∧ (isDecimal s = true → isAlnum s = true) ∧
    (isAlpha s = true → isAlnum s = true) ∧
    (isAlnum s = true ↔ s ≠ [] ∧ ∀ c ∈ s, isAlphaC c = true ∨ isDigitC c = true) ∧
    (isAlpha s = true → isDecimal s = false ∧ isSpace s = false) ∧
    (isDecimal s = true → isAlpha s = false ∧ isSpace s = false) ∧
    (isSpace s = true → isAlnum s = false) := by
  cases s with
  | nil => simp [isDigit, isDecimal, isAlnum, isAlpha, isSpace]
  | cons x xs =>
    have hx := class_disjoint x
    simp only [isDigit, isDecimal, isAlnum, isAlpha, isSpace, List.isEmpty_cons, Bool.not_false, Bool.true_and,
      List.all_cons, Bool.and_eq_true, List.all_eq_true, ne_eq, reduceCtorEq, not_false_eq_true, true_and,
      List.mem_cons, forall_eq_or_imp, beq_iff_eq, Bool.and_eq_false_iff]
    refine ⟨?_, ?_, ?_, ?_, ?_, ?_, ?_⟩
    · rintro ⟨_, h1, h2⟩; exact ⟨h1, h2⟩
    · rintro ⟨h1, h2⟩; exact ⟨by simp [isAlnumC, h1], fun c hc => by simp [isAlnumC, h2 c hc]⟩
    · rintro ⟨h1, h2⟩; exact ⟨by simp [isAlnumC, h1], fun c hc => by simp [isAlnumC, h2 c hc]⟩
    · simp [isAlnumC]
    · rintro ⟨h1, _⟩
      rcases (isAlphaC_iff x).1 h1 with h | h
      · exact ⟨.inl (hx.1 h).2.1, .inl (hx.1 h).2.2⟩
      · exact ⟨.inl (hx.2.1 h).2.1, .inl (hx.2.1 h).2.2⟩
    · rintro ⟨h1, _⟩
      exact ⟨.inl (hx.2.2.1 h1).1, .inl (hx.2.2.1 h1).2⟩
    · rintro ⟨h1, _⟩
      exact .inl (hx.2.2.2 h1)

/-- the class tests do not see the case maps -/
theorem class_case_invariant (s : Str) :
    (isAlpha (lower s) = isAlpha s ∧ isAlpha (upper s) = isAlpha s ∧ isAlpha (swapcase s) = isAlpha s) ∧
    (isAlnum (lower s) = isAlnum s ∧ isAlnum (upper s) = isAlnum s ∧ isAlnum (swapcase s) = isAlnum s) ∧
    (isDecimal (lower s) = isDecimal s ∧ isDecimal (upper s) = isDecimal s ∧ isDecimal (swapcase s) = isDecimal s) ∧
    (isSpace (lower s) = isSpace s ∧ isSpace (upper s) = isSpace s ∧ isSpace (swapcase s) = isSpace s) ∧
    (isDigit (lower s) = isDigit s ∧ isDigit (upper s) = isDigit s ∧ isDigit (swapcase s) = isDigit s) := by
  simp only [isAlpha, isAlnum, isDecimal, isSpace, isDigit, lower, upper, swapcase_eq_map, List.isEmpty_map,
    List.length_map]
  refine ⟨⟨?_, ?_, ?_⟩, ⟨?_, ?_, ?_⟩, ⟨?_, ?_, ?_⟩, ⟨?_, ?_, ?_⟩, ⟨?_, ?_, ?_⟩⟩
  · rw [all_map_class _ _ isAlphaC_toLowerC]
  · rw [all_map_class _ _ isAlphaC_toUpperC]
  · rw [all_map_class _ _ isAlphaC_swapC]
  · rw [all_map_class _ _ isAlnumC_toLowerC]
  · rw [all_map_class _ _ isAlnumC_toUpperC]
  · rw [all_map_class _ _ isAlnumC_swapC]
  · rw [all_map_class _ _ isDigitC_toLowerC]
  · rw [all_map_class _ _ isDigitC_toUpperC]
  · rw [all_map_class _ _ isDigitC_swapC]
  · rw [all_map_class _ _ isSpaceC_toLowerC]
  · rw [all_map_class _ _ isSpaceC_toUpperC]
  · rw [all_map_class _ _ isSpaceC_swapC]
  · rw [all_map_class _ _ isDigitC_toLowerC]
  · rw [all_map_class _ _ isDigitC_toUpperC]
  · rw [all_map_class _ _ isDigitC_swapC]

/-- on a text of letters only, `is_lower` / `is_upper` say exactly that `lower` / `upper` change nothing -/
theorem isAlpha_cased (s : Str) (h : isAlpha s = true) :
    (isLower s = true ↔ lower s = s) ∧ (isUpper s = true ↔ upper s = s) := by
  have hex : ∃ c ∈ s, isAlphaC c = true := by
    cases s with
    | nil => simp [isAlpha] at h
    | cons x xs =>
      simp only [isAlpha, List.isEmpty_cons, Bool.not_false, Bool.true_and, List.all_cons, Bool.and_eq_true] at h
      exact ⟨x, by simp, h.1⟩
  rw [(isLower_iff_fixed s).1, (isLower_iff_fixed s).2]
  exact ⟨⟨fun h => h.1, fun h => ⟨h, hex⟩⟩, ⟨fun h => h.1, fun h => ⟨h, hex⟩⟩⟩

/-- a concatenation is in a class exactly when it is non-empty and both parts are in it or empty -/
theorem class_append (s t : Str) :
    (isAlpha (s ++ t) = true ↔ (s = [] ∨ isAlpha s = true) ∧ (t = [] ∨ isAlpha t = true) ∧ (s ≠ [] ∨ t ≠ [])) ∧
    (isAlnum (s ++ t) = true ↔ (s = [] ∨ isAlnum s = true) ∧ (t = [] ∨ isAlnum t = true) ∧ (s ≠ [] ∨ t ≠ [])) ∧
    (isDecimal (s ++ t) = true ↔ (s = [] ∨ isDecimal s = true) ∧ (t = [] ∨ isDecimal t = true) ∧ (s ≠ [] ∨ t ≠ [])) ∧
    (isSpace (s ++ t) = true ↔ (s = [] ∨ isSpace s = true) ∧ (t = [] ∨ isSpace t = true) ∧ (s ≠ [] ∨ t ≠ [])) := by
  cases s <;> cases t <;> simp [isAlpha, isAlnum, isDecimal, isSpace] <;> grind

/-! ### capitalize -/

/-- `_capitalize` = `upper` of the first character followed by the rest UNCHANGED (not lower-cased: the crate
differs from Python's `capitalize` here) -/
theorem capitalize_spec (s : Str) : capitalize s = upper (s.take 1) ++ s.drop 1 := by
  cases s <;> simp [capitalize, upper]

theorem capitalize_algebra (s t : Str) :
    capitalize (capitalize s) = capitalize s ∧ upper (capitalize s) = upper s ∧ lower (capitalize s) = lower s ∧
    (s ≠ [] → capitalize (s ++ t) = capitalize s ++ t) ∧
    (capitalize s = s ↔ ∀ h, s.head? = some h → isLowerC h = false) := by
  cases s with
  | nil => simp [capitalize, upper, lower]
  | cons x xs =>
    simp only [capitalize, upper, lower, List.map_cons, toUpperC_idem, toLowerC_toUpperC, List.cons_append, ne_eq,
      reduceCtorEq, not_false_eq_true, forall_const, List.head?_cons, Option.some.injEq, forall_eq', true_and,
      List.cons.injEq, and_true]
    exact toUpperC_eq_self_iff x

/-! ### translate -/

/-- **translate**, character by character: the length is kept, and position `i` holds the value of the FIRST table
row whose key is the character at `i`, or that character itself when no row has it as key -/
theorem translate_spec (t : List (Char × Char)) (s : Str) :
    (translate t s).length = s.length ∧
    ∀ (i : Nat) (c : Char), s[i]? = some c →
      (∃ k, ∃ hk : k < t.length, t[k].1 = c ∧ (∀ j (hj : j < k), (t[j]'(by omega)).1 ≠ c) ∧
          (translate t s)[i]? = some t[k].2) ∨
      ((∀ r ∈ t, r.1 ≠ c) ∧ (translate t s)[i]? = some c) := by
  refine ⟨by simp [translate_eq_map], ?_⟩
  intro i c hi
  have hget : (translate t s)[i]? = some (trC t c) := by simp [translate_eq_map, hi]
  rcases trC_cases t c with ⟨k, hk, hkey, hfirst, hv⟩ | ⟨hno, hv⟩
  · exact .inl ⟨k, hk, hkey, hfirst, by rw [hget, hv]⟩
  · exact .inr ⟨hno, by rw [hget, hv]⟩

/-- one more row in front: it takes the characters equal to its key, all others go through the rest of the table -/
theorem translate_cons (k v : Char) (t : List (Char × Char)) (s : Str) :
    translate ((k, v) :: t) s = List.zipWith (fun c d => if c = k then v else d) s (translate t s) := by
  simp only [translate_eq_map]
  induction s with
  | nil => rfl
  | cons x xs ih => simp only [List.map_cons, List.zipWith_cons_cons, ih, trC_cons]

theorem translate_algebra (t t2 : List (Char × Char)) (s u : Str) :
    translate [] s = s ∧ translate t (s ++ u) = translate t s ++ translate t u ∧
    ((∀ c ∈ s, ∀ r ∈ t, r.1 ≠ c) → translate t s = s) ∧
    ((∀ c ∈ s, ∃ r ∈ t, r.1 = c) → translate (t ++ t2) s = translate t s) ∧
    ((∀ c ∈ s, ∀ r ∈ t, r.1 ≠ c) → translate (t ++ t2) s = translate t2 s) := by
  simp only [translate_eq_map]
  refine ⟨?_, by simp, ?_, ?_, ?_⟩
  · rw [map_eq_self_iff]; intro c _; rfl
  · intro h; rw [map_eq_self_iff]; intro c hc; exact trC_of_not_key t c (h c hc)
  · intro h; apply List.map_congr_left; intro c hc
    rw [trC_append, if_pos]
    obtain ⟨r, hr, hk⟩ := h c hc
    exact List.any_eq_true.2 ⟨r, hr, by simp [hk]⟩
  · intro h; apply List.map_congr_left; intro c hc
    rw [trC_append, if_neg]
    intro hany
    obtain ⟨r, hr, hk⟩ := List.any_eq_true.1 hany
    exact h c hc r hr (by simpa using hk)

/-- `lower` and `upper` ARE translations: by the 26-row tables `A..Z ↦ a..z` and `a..z ↦ A..Z` -/
theorem case_maps_eq_translate (s : Str) :
    lower s = translate ((List.range 26).map (fun i => (Char.ofNat (65 + i), Char.ofNat (97 + i)))) s ∧
    upper s = translate ((List.range 26).map (fun i => (Char.ofNat (97 + i), Char.ofNat (65 + i)))) s := by
  simp only [translate_eq_map, lower, upper]
  exact ⟨List.map_congr_left fun c _ => (trC_lowerTable c).symm, List.map_congr_left fun c _ => (trC_upperTable c).symm⟩

/-! ### zfill -/

/-- **zfill** in closed form: zeros go between a leading `-` and the rest, otherwise in front; never cut -/
theorem zfill_spec (w : Nat) (s : Str) :
    (∀ b, s = '-' :: b → zfill1 w s = '-' :: (List.replicate (w - 1 - b.length) '0' ++ b)) ∧
    (s.head? ≠ some '-' → zfill1 w s = List.replicate (w - s.length) '0' ++ s) ∧
    (w ≤ s.length → zfill1 w s = s) := by
  refine ⟨fun b hb => hb ▸ zfill1_neg w b, zfill1_nonneg w s, ?_⟩
  intro hw
  by_cases h : s.head? = some '-'
  · obtain ⟨b, rfl⟩ : ∃ b, s = '-' :: b := by
      cases s with
      | nil => simp at h
      | cons c cs => simp at h; exact ⟨cs, by rw [h]⟩
    rw [zfill1_neg]
    have : w - 1 - b.length = 0 := by simp at hw; omega
    rw [this]; rfl
  · rw [zfill1_nonneg w s h]
    have : w - s.length = 0 := by omega
    rw [this]; rfl

/-- filling twice = filling once to the larger width (so `zfill` is idempotent) -/
theorem zfill_zfill (w1 w2 : Nat) (s : Str) : zfill1 w2 (zfill1 w1 s) = zfill1 (max w1 w2) s := by
  by_cases h : s.head? = some '-'
  · obtain ⟨b, rfl⟩ : ∃ b, s = '-' :: b := by
      cases s with
      | nil => simp at h
      | cons c cs => simp at h; exact ⟨cs, by rw [h]⟩
    rw [zfill1_neg, zfill1_neg, zfill1_neg, ← List.append_assoc, List.replicate_append_replicate]
    simp only [List.length_append, List.length_replicate]
    congr 3; omega
  · rw [zfill1_nonneg w1 s h, zfill1_nonneg (max w1 w2) s h]
    have h2 : (List.replicate (w1 - s.length) '0' ++ s).head? ≠ some '-' := by
      cases hn : w1 - s.length with
      | zero => simpa using h
      | succ n => simp [List.replicate_succ]
    rw [zfill1_nonneg _ _ h2, ← List.append_assoc, List.replicate_append_replicate]
    simp only [List.length_append, List.length_replicate]
    congr 2; omega

/-- for a text without a leading `-` that is not longer than the width, `zfill` is `rjust` with fill `'0'`;
after a `-`, it is `rjust` of the rest to one less -/
theorem zfill_rjust (w : Nat) (s : Str) :
    (s.head? ≠ some '-' → s.length ≤ w → zfill1 w s = rjust s w '0') ∧
    (∀ b, s = '-' :: b → b.length ≤ w - 1 → zfill1 w s = '-' :: rjust b (w - 1) '0') := by
  constructor
  · intro h hl
    rw [zfill1_nonneg w s h, (rjust_spec s w '0').2.1 hl]
  · rintro b rfl hl
    rw [zfill1_neg, (rjust_spec b (w - 1) '0').2.1 hl]

/-- `zfill` does not change the number the digits denote (`digitsVal`: base-10 value of a digit text) -/
theorem zfill_value (w : Nat) (s : Str) :
    (s.head? ≠ some '-' → digitsVal (zfill1 w s) = digitsVal s) ∧
    (∀ b, s = '-' :: b → ∃ z, zfill1 w s = '-' :: z ∧ digitsVal z = digitsVal b ∧ z.all isDigitC = b.all isDigitC) ∧
    (isDecimal s = true → isDecimal (zfill1 w s) = true) := by
  refine ⟨?_, ?_, ?_⟩
  · intro h; rw [zfill1_nonneg w s h, digitsVal_zeros]
  · rintro b rfl
    exact ⟨_, zfill1_neg w b, digitsVal_zeros _ _, all_digit_append_zeros _ _⟩
  · intro hd
    have hne : s ≠ [] := by rintro rfl; simp [isDecimal] at hd
    have hall : s.all isDigitC = true := by simp [isDecimal] at hd; simpa using hd.2
    have hh : s.head? ≠ some '-' := by
      cases s with
      | nil => simp
      | cons c cs =>
        have hc : isDigitC c = true := by simp at hall; exact hall.1
        simp; rintro rfl; revert hc; decide
    rw [zfill1_nonneg w s hh]
    unfold isDecimal
    rw [all_digit_append_zeros, hall]
    cases s with
    | nil => exact absurd rfl hne
    | cons c cs => simp

/-- the refusal test of `zfill` lets every (signed) run of decimal digits through, and refuses the empty text -/
theorem zfill_accepts_integers (s : Str) (h : isDecimal s = true) :
    isF64Literal s = true ∧ isF64Literal ('-' :: s) = true ∧ isF64Literal ('+' :: s) = true ∧
    isF64Literal [] = false := by
  have hne : s ≠ [] := by rintro rfl; simp [isDecimal] at h
  have hall : s.all isDigitC = true := by simp [isDecimal] at h; simpa using h.2
  exact ⟨isF64Literal_digits s hne hall, isF64Literal_signed_digits '-' (.inl rfl) s hne hall,
    isF64Literal_signed_digits '+' (.inr rfl) s hne hall, by decide⟩

/-- **the refusal test of `zfill`** (`parse::<f64>().is_err()`) accepts exactly the texts of the grammar
`[+|-] ( digits [. digits] | . digits ) [ (e|E) [+|-] digits⁺ ]  |  [+|-] (inf | infinity | nan)` in any letter case
(`a`, `b`, `d` are runs of decimal digits, `m` the mantissa, `e` the exponent part) -/
theorem zfill_literal_grammar (s : Str) :
    isF64Literal s = true ↔
      ∃ sg body, s = sg ++ body ∧ (sg = [] ∨ sg = ['-'] ∨ sg = ['+']) ∧
        ((∃ m e, body = m ++ e ∧
            (∃ a b, (∀ c ∈ a, isDigitC c = true) ∧ (∀ c ∈ b, isDigitC c = true) ∧
              ((m = a ∧ a ≠ []) ∨ (m = a ++ '.' :: b ∧ (a ≠ [] ∨ b ≠ [])))) ∧
            (e = [] ∨ ∃ c sg' d, (c = 'e' ∨ c = 'E') ∧ (sg' = [] ∨ sg' = ['-'] ∨ sg' = ['+']) ∧ d ≠ [] ∧
              (∀ x ∈ d, isDigitC x = true) ∧ e = c :: (sg' ++ d))) ∨
         (lower body = ['i', 'n', 'f'] ∨ lower body = ['i', 'n', 'f', 'i', 'n', 'i', 't', 'y'] ∨
          lower body = ['n', 'a', 'n'])) :=
  isF64Literal_iff_grammar s

/-- hence the array operation, on an array of (signed) digit runs, is never refused and fills every position -/
theorem zfillA_integers (a : SArr) (w : Nat) (hwf : a.WF)
    (hd : ∀ s ∈ a.elems, isDecimal s = true ∨ ∃ b, s = '-' :: b ∧ isDecimal b = true) :
    ∃ r, zfillA a w = .ok r ∧ r.shape = a.shape ∧
      ∀ p (h : p < a.elems.length), r.elems[p]? = some (zfill1 w a.elems[p]) := by
  have hno : a.elems.any (fun s => !isF64Literal s) = false := by
    rw [List.any_eq_false]
    intro s hs
    rcases hd s hs with h | ⟨b, rfl, h⟩
    · simp [(zfill_accepts_integers s h).1]
    · simp [(zfill_accepts_integers b h).2.1]
  obtain ⟨r, hr, hshape, _, hat⟩ := lift1_at (zfill1 w) a hwf
  exact ⟨r, by unfold zfillA; rw [hno]; simpa using hr, hshape, hat⟩

/-! ### non-vacuity (extension) -/

example : lower ['A', 'b', '-', 'Z'] = ['a', 'b', '-', 'z'] ∧ upper ['a', 'B', '1', 'z'] = ['A', 'B', '1', 'Z'] ∧
    swapcase ['a', 'B', '1'] = ['A', 'b', '1'] ∧ capitalize ['a', 'B', 'c'] = ['A', 'B', 'c'] := by decide
example : isLower ['a', '1', ' '] = true ∧ isLower ['a', 'B'] = false ∧ isLower ['1'] = false ∧
    isUpper ['A', '-'] = true ∧ isUpper [] = false := by decide
example : isAlpha ['a', 'B'] = true ∧ isAlpha [] = false ∧ isAlpha ['a', '1'] = false ∧ isAlnum ['a', '1'] = true ∧
    isDigit ['1', '2'] = false ∧ isDigit ['7'] = true ∧ isDecimal ['1', '2'] = true ∧
    isSpace [' ', '\t', '\n'] = true ∧ isSpace [' ', 'a'] = false := by decide
example : translate [('a', 'x'), ('a', 'y'), ('b', 'a')] ['a', 'b', 'c'] = ['x', 'a', 'c'] := by decide
example : zfill1 5 ['-', '4', '2'] = ['-', '0', '0', '4', '2'] ∧ zfill1 5 ['4', '2'] = ['0', '0', '0', '4', '2'] ∧
    zfill1 0 ['-', '1'] = ['-', '1'] ∧ zfill1 4 ['+', '5'] = ['0', '0', '+', '5'] := by decide
example : digitsVal ['0', '4', '2'] = 42 := by decide
example : isF64Literal ['1', '.', '5', 'e', '3'] = true ∧ isF64Literal ['a'] = false ∧
    isF64Literal ['-', '7'] = true ∧ isF64Literal ['.', '5'] = true ∧ isF64Literal ['.'] = false ∧
    isF64Literal ['1', 'e'] = false ∧ isF64Literal ['+', 'N', 'a', 'N'] = true ∧ isF64Literal ['-', '-', '1'] = false ∧
    isF64Literal ['1', '.', 'E', '-', '2'] = true := by decide
example : zfillA ⟨[['7'], ['-', '7']], [2]⟩ 3 = .ok ⟨[['0', '0', '7'], ['-', '0', '7']], [2]⟩ := by decide

end ArrModel.C17
