import ArrProofs.Lemmas.C15Arr
import ArrProofs.Lemmas.C15QR
/-!
# C15 — solve, QR, determinant and norm satisfy their defining equations

Property theorems only; helper lemmas live in `ArrProofs/Lemmas/C15{Basic,LU,Solve,Arr}.lean`.
Model under test: `ArrModel/C15.lean` (`detArr`/`detN`, `solveArr`/`solveMat`/`lu`/`forwardSubst`/`backSubst`,
`normArr`), the same definitions the driver executes.

Scope of what is *proved* here: the algorithms evaluated in exact rational arithmetic.  The Rust evaluates the
same expressions in `f64`; "to rounding accuracy" is a statement about IEEE arithmetic and is decided by the tie
(model value vs code value and residual oracles with tolerance `1e-9`), not by these theorems.  The square root of
`norm` stays symbolic (`Sym.root 2 q`).  For `qr` the theorems are about the un-normalised Gram–Schmidt vectors
`us[k]` (rational); the factors are `Q[i][k] = us[k][i] / √nrm2[k]`, `R[k][c] = ru[k][c] / √nrm2[k]`, so the three
defining equations are stated with the roots multiplied out.
-/
namespace ArrModel.C15
open ArrModel

/-! ## triangular solves are exact -/

/-- **forward substitution** solves the unit lower-triangular system `L̂ y = b`
(`L̂` = strictly lower part of `l` plus a unit diagonal; the diagonal and upper part of `l` are never read). -/
theorem forward_subst_spec (n k : Nat) (l b : Mat) (hl : ∀ i, i < n → (l.getD i []).length = n) :
    ∀ i c, i < n → c < k →
      entry (forwardSubst n k l b) i c + sumTo i (fun t => entry l i t * entry (forwardSubst n k l b) t c)
        = entry b i c := by
  intro i c hi hc
  rw [forwardSubst_eq, fwd_spec k l b n (fun i hi => by rw [hl i hi]; omega) i c hi hc]
  ring

/-- **back substitution** solves the upper-triangular system `U x = y` whenever the diagonal has no zero
(only the diagonal and the strictly upper part of `u` are read; `htri` says the rest is zero). -/
theorem back_subst_spec (n k : Nat) (u y : Mat) (hu : ∀ i, i < n → (u.getD i []).length = n)
    (htri : ∀ i c, i < n → c < n → c < i → entry u i c = 0) (hpiv : ∀ i, i < n → entry u i i ≠ 0) :
    ∀ i c, i < n → c < k →
      sumTo n (fun t => entry u i t * entry (backSubst n k u y) t c) = entry y i c :=
  upper_row_apply n k u y hu htri hpiv

/-! ## solve -/

/-- **matrix level**: for every `n × n` matrix (`n ≥ 2`, the sizes `solve` accepts) with non-zero determinant and every
`n × k` right-hand side, the elimination with partial pivoting, the permutation of `b` and the two substitutions
produce `x` with `A · x = b` — whatever row exchanges the pivot search performs. -/
theorem solve_mat_spec (n k : Nat) (a b : Mat) (hn : 2 ≤ n) (ha : ∀ i, i < n → (a.getD i []).length = n)
    (hdet : detN n a ≠ 0) :
    ∀ r c, r < n → c < k → entry (matMulK n k a (solveMat n k a b)) r c = entry b r c := by
  intro r c hr hc
  rw [matMulK, entry_build_lt _ hr hc]
  exact solveMat_apply n k a b hn ha hdet r c hr hc

/-- **several right-hand sides**: a well-formed `[n, n]` array that passes the singularity test and a well-formed
`[n, k]` right-hand side give `ok x` with `x` of the shape of `b` and `A · x = b` in row-major coordinates. -/
theorem solve_spec (n k : Nat) (a b : Arr Rat) (hn : 2 ≤ n) (hk : 0 < k)
    (ha : a.shape = [n, n]) (hb : b.shape = [n, k])
    (hdet : singTol ≤ absR (detN n (toMat n n a.elems))) :
    ∃ x, solveArr a b = .ok x ∧ x.shape = [n, k] ∧ x.WF ∧
      ∀ r c, r < n → c < k →
        sumTo n (fun t => vget a.elems (r * n + t) * vget x.elems (t * k + c)) = vget b.elems (r * k + c) := by
  have hdet0 : detN n (toMat n n a.elems) ≠ 0 := by
    intro h; rw [h] at hdet
    have : absR 0 = 0 := by simp [absR]
    rw [this] at hdet; exact absurd singTol_pos (not_lt.2 hdet)
  obtain ⟨hrows1, hrows2⟩ := solveMat_rows n k (toMat n n a.elems) (toMat n k b.elems)
  refine ⟨⟨flatten (solveMat n k (toMat n n a.elems) (toMat n k b.elems)), b.shape⟩, ?_, hb, ?_, ?_⟩
  · unfold solveArr
    have h2 : ¬ (n < 2) := by omega
    have hk0 : k ≠ 0 := by omega
    simp [Arr.ndim, ha, hb, isSquare2, h2, Res.idx, not_lt.2 hdet, hk0, bind, Res.bind]
  · show (flatten _).length = b.shape.prod
    unfold flatten
    rw [flatten_length k _ hrows2, hrows1, hb]; simp
  · intro r c hr hc
    have := solveMat_apply n k (toMat n n a.elems) (toMat n k b.elems) hn (toMat_rows n n _) hdet0 r c hr hc
    rw [entry_toMat _ hr hc] at this
    rw [← this]
    apply sumTo_congr; intro t ht
    rw [entry_toMat _ hr ht]
    show _ * vget (flatten _) (t * k + c) = _
    unfold flatten
    rw [vget_flatten k _ hrows2 t c hc]

/-- **vector right-hand side**: `b` of shape `[n]` is treated as one column; the answer has shape `[n]`. -/
theorem solve_spec_vector (n : Nat) (a b : Arr Rat) (hn : 2 ≤ n)
    (ha : a.shape = [n, n]) (hb : b.shape = [n])
    (hdet : singTol ≤ absR (detN n (toMat n n a.elems))) :
    ∃ x, solveArr a b = .ok x ∧ x.shape = [n] ∧ x.WF ∧
      ∀ r, r < n → sumTo n (fun t => vget a.elems (r * n + t) * vget x.elems t) = vget b.elems r := by
  have hdet0 : detN n (toMat n n a.elems) ≠ 0 := by
    intro h; rw [h] at hdet
    have : absR 0 = 0 := by simp [absR]
    rw [this] at hdet; exact absurd singTol_pos (not_lt.2 hdet)
  obtain ⟨hrows1, hrows2⟩ := solveMat_rows n 1 (toMat n n a.elems) (toMat n 1 b.elems)
  refine ⟨⟨flatten (solveMat n 1 (toMat n n a.elems) (toMat n 1 b.elems)), b.shape⟩, ?_, hb, ?_, ?_⟩
  · unfold solveArr
    have h2 : ¬ (n < 2) := by omega
    simp [Arr.ndim, ha, hb, isSquare2, h2, Res.idx, not_lt.2 hdet, bind, Res.bind]
  · show (flatten _).length = b.shape.prod
    unfold flatten
    rw [flatten_length 1 _ hrows2, hrows1, hb]; simp
  · intro r hr
    have := solveMat_apply n 1 (toMat n n a.elems) (toMat n 1 b.elems) hn (toMat_rows n n _) hdet0 r 0 hr (by omega)
    rw [entry_toMat _ hr (by omega)] at this
    simp only [Nat.mul_one, Nat.add_zero] at this
    rw [← this]
    apply sumTo_congr; intro t ht
    rw [entry_toMat _ hr ht]
    show _ * vget (flatten _) t = _
    unfold flatten
    have := vget_flatten 1 _ hrows2 t 0 (by omega)
    simp only [Nat.mul_one, Nat.add_zero] at this
    rw [this]

/-- **a singular matrix is refused with the singular-matrix error** (whatever the right-hand side with `n` rows) -/
theorem singular_refused (n : Nat) (a b : Arr Rat) (rest : List Nat) (hn : 2 ≤ n)
    (ha : a.shape = [n, n]) (hb : b.shape = n :: rest)
    (hdet : detN n (toMat n n a.elems) = 0) :
    solveArr a b = .err .SingularMatrix := by
  unfold solveArr
  have h2 : ¬ (n < 2) := by omega
  have : absR 0 < singTol := by simp [absR, singTol_pos]
  simp [Arr.ndim, ha, hb, isSquare2, h2, Res.idx, hdet, this, bind, Res.bind]

/-- more generally, everything below the threshold of the code's test (`|det| < 1e-12`) is refused -/
theorem near_singular_refused (n : Nat) (a b : Arr Rat) (rest : List Nat) (hn : 2 ≤ n)
    (ha : a.shape = [n, n]) (hb : b.shape = n :: rest)
    (hdet : absR (detN n (toMat n n a.elems)) < singTol) :
    solveArr a b = .err .SingularMatrix := by
  unfold solveArr
  have h2 : ¬ (n < 2) := by omega
  simp [Arr.ndim, ha, hb, isSquare2, h2, Res.idx, hdet, bind, Res.bind]

/-! ## det -/

/-- **the list model of `det` (2×2 closed form, cofactor expansion down column 0 through `minor`) is the determinant** -/
theorem det_eq_matrix_det (n : Nat) (m : Mat) (hn : 2 ≤ n) : detN n m = (toM n m).det := detN_eq_det n m hn

/-- `Array::det` of a square matrix returns the one-element array holding `Matrix.det` -/
theorem detArr_matrix (n : Nat) (a : Arr Rat) (hn : 2 ≤ n) (ha : a.shape = [n, n]) :
    detArr a = .ok ⟨[(toM n (toMat n n a.elems)).det], [1]⟩ := by
  unfold detArr
  have h2 : ¬ (n < 2) := by omega
  simp [Arr.ndim, ha, isSquare2, h2, bind, Res.bind, detN_eq_det n _ hn]

/-- **multiplicative** -/
theorem det_mul (n : Nat) (a b : Mat) (hn : 2 ≤ n) : detN n (matMul n a b) = detN n a * detN n b := by
  rw [detN_eq_det n _ hn, detN_eq_det n _ hn, detN_eq_det n _ hn, toM_matMul, Matrix.det_mul]

/-- **a row exchange changes the sign** -/
theorem det_swap_rows (n : Nat) (a : Mat) (i j : Nat) (hn : 2 ≤ n) (hi : i < n) (hj : j < n) (hij : i ≠ j) :
    detN n (swapRows n n a i j) = - detN n a := by
  rw [detN_eq_det n _ hn, detN_eq_det n _ hn, toM_swapRows n a i j hi hj, Matrix.det_permute,
    Equiv.Perm.sign_swap (by intro e; exact hij (congrArg Fin.val e))]
  simp

/-- **the determinant equals the value obtained by elimination**: the product of the pivots of the very elimination
`solve` runs, negated once per row exchange. -/
theorem det_eq_elimination (n : Nat) (a : Mat) (hn : 2 ≤ n) (ha : ∀ i, i < n → (a.getD i []).length = n) :
    detN n a = detByElim n a := detN_eq_detByElim n a hn ha

/-- **stacks**: `det` of an `[s, n, n]` array is the list of the determinants of its `s` consecutive blocks -/
theorem det_stack (s n : Nat) (a : Arr Rat) (hs : 0 < s) (hn : 2 ≤ n) (ha : a.shape = [s, n, n]) (hw : a.WF) :
    detArr a = .ok ⟨(List.range s).map (fun b => detN n (toMat n n ((a.elems.drop (b * (n * n))).take (n * n)))), [s]⟩ := by
  have hlen : a.elems.length = s * (n * n) := by rw [hw, ha]; simp
  have hnn : 0 < n * n := Nat.mul_pos (by omega) (by omega)
  have hcount : a.elems.length / (n * n) = s := by rw [hlen]; exact Nat.mul_div_cancel _ hnn
  unfold detArr
  have h2 : ¬ (n < 2) := by omega
  have hs0 : s ≠ 0 := by omega
  simp [Arr.ndim, ha, isSquareLast, h2, bind, Res.bind, hcount, hs0, blocks]

/-! ## norm -/

/-- **default norm**: the square of the value is the sum of the squares of all elements (any shape) -/
theorem norm_default_sq (a : Arr Rat) :
    normArr a none none false = .ok ⟨[.root 2 ((a.elems.map fun x => x * x).sum)], [1]⟩ := by
  simp [normArr, normSimple, sumL_eq_sum]

/-- **two-norm of a vector** (explicit order, or along its only axis) is the same root of the sum of squares -/
theorem norm_2 (a : Arr Rat) (m : Nat) (hs : a.shape = [m]) (hw : a.elems.length = m) :
    normArr a (some (.int 2)) none false = .ok ⟨[.root 2 ((a.elems.map fun x => x * x).sum)], [1]⟩ ∧
    normArr a (some (.int 2)) (some [0]) false = .ok ⟨[.root 2 ((a.elems.map fun x => x * x).sum)], [1]⟩ := by
  have hnd : a.ndim = 1 := by simp [Arr.ndim, hs]
  constructor
  · simp [normArr, normSimple, sumL_eq_sum, hnd]
  · have hsq : (a.elems.map fun x => absR (x * x)) = a.elems.map fun x => x * x := by
      apply List.map_congr_left; intro x _
      rw [absR_eq_abs, abs_of_nonneg (mul_self_nonneg x)]
    have := reduceAxis_vec sumL (mapArr (fun x => absR (x * x)) a) m (by simpa [mapArr] using hs)
      (by simpa [mapArr] using hw) 0 (Or.inl rfl)
    simp only [mapArr, hsq] at this
    simp [normArr, this, Res.map, rootArr, mapArr, hsq, sumL_eq_sum]

/-- **one-norm of a vector**: the sum of the absolute values -/
theorem norm_1 (a : Arr Rat) (m : Nat) (hs : a.shape = [m]) (hw : a.elems.length = m) :
    normArr a (some (.int 1)) none false = .ok ⟨[.rat ((a.elems.map fun x => |x|).sum)], [1]⟩ := by
  have hnd : a.ndim = 1 := by simp [Arr.ndim, hs]
  have habs : (a.elems.map absR) = a.elems.map fun x => |x| := by
    apply List.map_congr_left; intro x _; exact absR_eq_abs x
  have := reduceAxis_vec sumL (mapArr absR a) m (by simpa [mapArr] using hs) (by simpa [mapArr] using hw) 0 (Or.inl rfl)
  simp only [mapArr, habs] at this
  simp [normArr, hnd, this, Res.map, symArr, mapArr, habs, sumL_eq_sum]

/-- **infinity-norm of a non-empty vector**: a value `r` that is the absolute value of some element and bounds all of them -/
theorem norm_inf (a : Arr Rat) (m : Nat) (hm : 0 < m) (hs : a.shape = [m]) (hw : a.elems.length = m) :
    ∃ r, normArr a (some .inf) none false = .ok ⟨[.rat r], [1]⟩ ∧
      (∃ x ∈ a.elems, r = |x|) ∧ ∀ x ∈ a.elems, |x| ≤ r := by
  have hnd : a.ndim = 1 := by simp [Arr.ndim, hs]
  have habs : (a.elems.map absR) = a.elems.map fun x => |x| := by
    apply List.map_congr_left; intro x _; exact absR_eq_abs x
  have hred := reduceAxis_vec maxL (mapArr absR a) m (by simpa [mapArr] using hs) (by simpa [mapArr] using hw) 0 (Or.inl rfl)
  simp only [mapArr, habs] at hred
  have hne : (a.elems.map fun x => |x|) ≠ [] := by
    intro h; have := congrArg List.length h; simp [hw] at this; omega
  obtain ⟨hmem, hmax⟩ := maxL_spec _ hne
  refine ⟨maxL (a.elems.map fun x => |x|), ?_, ?_, ?_⟩
  · simp [normArr, hnd, hred, Res.map, symArr, mapArr, habs]
  · obtain ⟨x, hx, hxe⟩ := List.mem_map.1 hmem
    exact ⟨x, hx, hxe.symm⟩
  · intro x hx; exact hmax _ (List.mem_map.2 ⟨x, hx, rfl⟩)

/-- the two-axis arm refuses an axis outside the rank (repair e1ca2b8): whatever the order and `keepdims`, when either
normalised axis is below `0` or not below the rank the answer is an error value (`ParameterError` when the two
normalised axes coincide — that check comes first — and `AxisOutOfBounds` otherwise), never a norm along a wrapped axis. -/
theorem norm_two_axes_out_of_range (a : Arr Rat) (ord : Option Ord) (ax0 ax1 : Int) (keep : Bool)
    (h : normAxis a.ndim ax0 < 0 ∨ normAxis a.ndim ax0 ≥ a.ndim ∨ normAxis a.ndim ax1 < 0 ∨ normAxis a.ndim ax1 ≥ a.ndim) :
    normArr a ord (some [ax0, ax1]) keep = .err .ParameterError ∨
    normArr a ord (some [ax0, ax1]) keep = .err .AxisOutOfBounds := by
  unfold normArr
  by_cases heq : normAxis a.ndim ax0 = normAxis a.ndim ax1
  · left; simp [heq]
  · right
    by_cases h0 : normAxis a.ndim ax0 < 0 ∨ normAxis a.ndim ax0 ≥ a.ndim
    · simp [heq, h0]
    · have h1 : normAxis a.ndim ax1 < 0 ∨ normAxis a.ndim ax1 ≥ a.ndim := by omega
      simp [heq, h0, h1]


/-! ## qr (exact Gram–Schmidt; `Q[i][k] = us[k][i] / √nrm2[k]`, `R[k][c] = ru[k][c] / √nrm2[k]`) -/

/-- **orthonormal columns**: distinct Gram–Schmidt vectors are orthogonal, and `nrm2[k]` is the squared length of the
`k`-th one — i.e. `(QᵀQ)[j][k] = us[j]·us[k] / (√nrm2[j] √nrm2[k])` is the identity. -/
theorem qr_orthogonal (n : Nat) (a : Mat) (hnz : (0 : Rat) ∉ (qrMat n a).nrm2) :
    ∀ j k, j < n → k < n →
      dotV n ((qrMat n a).us.getD j []) ((qrMat n a).us.getD k []) = if j = k then vget (qrMat n a).nrm2 k else 0 := by
  intro j k hj hk
  by_cases h : j = k
  · rw [if_pos h, vget_nrm2 n a k hk, h]; rfl
  · rw [if_neg h]
    exact gramU_orth n (columns n a) (qr_nonzero_of n a hnz) j k (by rw [columns_length]; exact hj)
      (by rw [columns_length]; exact hk) h

/-- **upper-triangular second factor**: `R[k][c] = 0` below the diagonal -/
theorem qr_upper (n : Nat) (a : Mat) (hnz : (0 : Rat) ∉ (qrMat n a).nrm2) :
    ∀ k c, k < n → c < n → c < k → entry (qrMat n a).ru k c = 0 := by
  intro k c hk hc hck
  show entry (build n n fun k c => dotV n ((gramU n (columns n a)).getD k []) ((columns n a).getD c [])) k c = 0
  rw [entry_build_lt _ hk hc, gram_dot_column n (columns n a) (qr_nonzero_of n a hnz) k c
    (by rw [columns_length]; exact hk) (by rw [columns_length]; exact hc) (le_of_lt hck), if_neg (by omega)]

/-- **the factors multiply back**: `(Q R)[i][c] = Σ_k us[k][i] · ru[k][c] / nrm2[k] = A[i][c]` -/
theorem qr_product (n : Nat) (a : Mat) (hnz : (0 : Rat) ∉ (qrMat n a).nrm2) :
    ∀ i c, i < n → c < n →
      sumTo n (fun k => vget ((qrMat n a).us.getD k []) i * entry (qrMat n a).ru k c / vget (qrMat n a).nrm2 k)
        = entry a i c := by
  intro i c hi hc
  have hnz' := qr_nonzero_of n a hnz
  have hcl := columns_length n a
  have hus : (qrMat n a).us = gramU n (columns n a) := rfl
  simp only [hus]
  have hcol : vget ((columns n a).getD c []) i = entry a i c := by
    unfold columns; rw [build_getD _ _ _ _ hc, vget_map_range, if_pos hi]
  have hru : ∀ k, k < n → entry (qrMat n a).ru k c
      = dotV n ((gramU n (columns n a)).getD k []) ((columns n a).getD c []) := by
    intro k hk
    show entry (build n n fun k c => dotV n ((gramU n (columns n a)).getD k []) ((columns n a).getD c [])) k c = _
    rw [entry_build_lt _ hk hc]
  rw [← hcol, column_expand n (columns n a) hnz' c (by rw [hcl]; exact hc) i hi, sumTo_eq_sum, sum_split n c hc]
  have hmem : ∀ k, k < n → (gramU n (columns n a)).getD k [] ∈ gramU n (columns n a) := by
    intro k hk
    rw [getD_eq_getElem' _ _ (by rw [gramU_length, hcl]; exact hk)]; exact List.getElem_mem _
  -- the diagonal term
  have hdiag : vget ((gramU n (columns n a)).getD c []) i * entry (qrMat n a).ru c c / vget (qrMat n a).nrm2 c
      = vget ((gramU n (columns n a)).getD c []) i := by
    rw [hru c hc, vget_nrm2 n a c hc, gram_dot_column n (columns n a) hnz' c c (by rw [hcl]; exact hc)
      (by rw [hcl]; exact hc) (le_refl _), if_pos rfl]
    have := hnz' _ (hmem c hc)
    field_simp
  -- the terms above the diagonal vanish
  have hupper : ∑ r ∈ Finset.range (n - c - 1),
      vget ((gramU n (columns n a)).getD (c + 1 + r) []) i * entry (qrMat n a).ru (c + 1 + r) c / vget (qrMat n a).nrm2 (c + 1 + r) = 0 := by
    apply Finset.sum_eq_zero; intro r hr
    have hr' := Finset.mem_range.1 hr
    rw [qr_upper n a hnz (c + 1 + r) c (by omega) hc (by omega)]; ring
  -- the terms below the diagonal are the projections
  have hlower : ∑ k ∈ Finset.range c,
      vget ((gramU n (columns n a)).getD k []) i * entry (qrMat n a).ru k c / vget (qrMat n a).nrm2 k
      = ∑ t ∈ Finset.range c, dotV n ((gramU n (columns n a)).getD t []) ((columns n a).getD c []) /
        dotV n ((gramU n (columns n a)).getD t []) ((gramU n (columns n a)).getD t []) *
          vget ((gramU n (columns n a)).getD t []) i := by
    refine Finset.sum_congr rfl fun k hk => ?_
    have hk' := Finset.mem_range.1 hk
    rw [hru k (by omega), vget_nrm2 n a k (by omega)]
    ring
  rw [hdiag, hupper, hlower]; ring

/-- `Array::qr` of a square matrix returns the one pair described by `qrMat` -/
theorem qrArr_matrix (n : Nat) (a : Arr Rat) (hn : 2 ≤ n) (ha : a.shape = [n, n]) :
    qrArr a = .ok [qrMat n (toMat n n a.elems)] := by
  unfold qrArr
  have h2 : ¬ (n < 2) := by omega
  simp [Arr.ndim, ha, isSquareLast, h2, bind, Res.bind]

/-- **stacks**: `qr` of an `[s, n, n]` array is the list of the factor pairs of its `s` consecutive blocks
(so the three equations above hold for each matrix of the stack) -/
theorem qr_stack (s n : Nat) (a : Arr Rat) (hs : 0 < s) (hn : 2 ≤ n) (ha : a.shape = [s, n, n]) (hw : a.WF) :
    qrArr a = .ok ((List.range s).map fun b => qrMat n (toMat n n ((a.elems.drop (b * (n * n))).take (n * n)))) := by
  have hlen : a.elems.length = s * (n * n) := by rw [hw, ha]; simp
  have hnn : 0 < n * n := Nat.mul_pos (by omega) (by omega)
  have hcount : a.elems.length / (n * n) = s := by rw [hlen]; exact Nat.mul_div_cancel _ hnn
  unfold qrArr
  have h2 : ¬ (n < 2) := by omega
  have hs0 : s ≠ 0 := by omega
  simp [Arr.ndim, ha, isSquareLast, h2, bind, Res.bind, hcount, hs0, blocks]

/-! ## non-vacuity: concrete instances meeting the hypotheses -/

/-- the pivot-forcing witness of the pinned defect: `[[0,1],[1,0]] x = [2,3]` gives `[3,2]` -/
example : solveArr ⟨[0, 1, 1, 0], [2, 2]⟩ ⟨[2, 3], [2]⟩ = .ok ⟨[3, 2], [2]⟩ := by decide +kernel
/-- hypotheses of `solve_spec` hold for a 3×3 system that needs an exchange, with two right-hand sides -/
example : singTol ≤ absR (detN 3 (toMat 3 3 [1, 1, 0, 4, 5, 1, 0, 1, 6])) := by decide +kernel
example : solveArr ⟨[1, 1, 0, 4, 5, 1, 0, 1, 6], [3, 3]⟩ ⟨[1, 2, 3, 4, 5, 6], [3, 2]⟩
    = .ok ⟨[16/5, 8, -11/5, -6, 6/5, 2], [3, 2]⟩ := by decide +kernel
example : swapCount 3 (toMat 3 3 [1, 1, 0, 4, 5, 1, 0, 1, 6]) = 2 := by decide +kernel
example : solveArr ⟨[1, 2, 2, 4], [2, 2]⟩ ⟨[1, 1], [2]⟩ = .err .SingularMatrix := by decide +kernel
example : detArr ⟨[3, 8, 4, 6], [2, 2]⟩ = .ok ⟨[-14], [1]⟩ := by decide +kernel
example : detArr ⟨[2, 1, 1, 3, 0, 1, 1, 0, 1, 2, 3, 5], [3, 2, 2]⟩ = .ok ⟨[5, -1, -1], [3]⟩ := by decide +kernel
example : detByElim 3 (toMat 3 3 [1, 1, 0, 4, 5, 1, 0, 1, 6]) = 5 ∧ detN 3 (toMat 3 3 [1, 1, 0, 4, 5, 1, 0, 1, 6]) = 5 := by
  decide +kernel
example : (0 : Rat) ∉ (qrMat 3 (toMat 3 3 [1, 1, 0, 4, 5, 1, 0, 1, 6])).nrm2 := by decide +kernel
example : (qrMat 2 (toMat 2 2 [2, 1, 1, 3])).us = [[2, 1], [-1, 2]] ∧ (qrMat 2 (toMat 2 2 [2, 1, 1, 3])).ru = [[5, 5], [0, 5]] := by
  decide +kernel
example : normArr ⟨[3, -4], [2]⟩ (some .inf) none false = .ok ⟨[.rat 4], [1]⟩ := by decide +kernel
example : normArr ⟨[3, -4], [2]⟩ none none false = .ok ⟨[.root 2 25], [1]⟩ := by decide +kernel

example : normArr ⟨[-7], [1]⟩ (some (.int 1)) (some [0, 1]) false = .err .AxisOutOfBounds := by decide +kernel
example : normArr ⟨[1, 2, 3, 4], [2, 2]⟩ (some .inf) (some [0, -3]) true = .err .AxisOutOfBounds := by decide +kernel

end ArrModel.C15
