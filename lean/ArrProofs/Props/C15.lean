import ArrProofs.Lemmas.C15Arr
import ArrProofs.Lemmas.C15QR
import ArrProofs.Lemmas.C15NormPow
/-!
# C15 — solve, QR, determinant and norm satisfy their defining equations

Property theorems only; helper lemmas live in `ArrProofs/Lemmas/C15{Basic,LU,Solve,Arr}.lean`.
Model under test: `ArrModel/C15.lean` (`detArr`/`detN`, `solveArr`/`solveMat`/`lu`/`forwardSubst`/`backSubst`,
`normArr`), the same definitions the driver executes.

Scope of what is *proved* here: the algorithms evaluated in exact rational arithmetic.  The Rust evaluates the
same expressions in `f64`; "to rounding accuracy" is a statement about IEEE arithmetic and is decided by the tie
(model value vs code value and residual oracles with tolerance `1e-9`), not by these theorems.  The square root of
`norm` stays symbolic (`Sym.root 2 q`).  For `qr` the theorems are about the un-normalised Gram–Schmidt vectors
`us[k]` (rational); the factors are `Q[i][k] = us[k][i] / √nrm2[k]`, `R[k][c] = ru[k][c] / √nrm2[k]`, so the three
defining equations are stated with the roots multiplied out.
-/
namespace ArrModel.C15
open ArrModel

/-! ## triangular solves are exact -/

/-- **forward substitution** solves the unit lower-triangular system `L̂ y = b`
(`L̂` = strictly lower part of `l` plus a unit diagonal; the diagonal and upper part of `l` are never read). -/
theorem forward_subst_spec (n k : Nat) (l b : Mat) (hl : ∀ i, i < n → (l.getD i []).length = n) :
    ∀ i c, i < n → c < k →
      entry (forwardSubst n k l b) i c + sumTo i (fun t => entry l i t * entry (forwardSubst n k l b) t c)
        = entry b i c := by
  intro i c hi hc
  rw [forwardSubst_eq, fwd_spec k l b n (fun i hi => by rw [hl i hi]; omega) i c hi hc]
  ring

/-- **back substitution** solves the upper-triangular system `U x = y` whenever the diagonal has no zero
(only the diagonal and the strictly upper part of `u` are read; `htri` says the rest is zero). -/
theorem back_subst_spec (n k : Nat) (u y : Mat) (hu : ∀ i, i < n → (u.getD i []).length = n)
    (htri : ∀ i c, i < n → c < n → c < i → entry u i c = 0) (hpiv : ∀ i, i < n → entry u i i ≠ 0) :
    ∀ i c, i < n → c < k →
      sumTo n (fun t => entry u i t * entry (backSubst n k u y) t c) = entry y i c :=
  upper_row_apply n k u y hu htri hpiv

/-! ## solve -/

/-- **matrix level**: for every `n × n` matrix (`n ≥ 2`, the sizes `solve` accepts) with non-zero determinant and every
`n × k` right-hand side, the elimination with partial pivoting, the permutation of `b` and the two substitutions
produce `x` with `A · x = b` — whatever row exchanges the pivot search performs. -/
theorem solve_mat_spec (n k : Nat) (a b : Mat) (hn : 2 ≤ n) (ha : ∀ i, i < n → (a.getD i []).length = n)
    (hdet : detN n a ≠ 0) :
    ∀ r c, r < n → c < k → entry (matMulK n k a (solveMat n k a b)) r c = entry b r c := by
  intro r c hr hc
  rw [matMulK, entry_build_lt _ hr hc]
  exact solveMat_apply n k a b hn ha hdet r c hr hc

/-- **several right-hand sides**: a well-formed `[n, n]` array that passes the singularity test and a well-formed
`[n, k]` right-hand side give `ok x` with `x` of the shape of `b` and `A · x = b` in row-major coordinates. -/
theorem solve_spec (n k : Nat) (a b : Arr Rat) (hn : 2 ≤ n) (hk : 0 < k)
    (ha : a.shape = [n, n]) (hb : b.shape = [n, k])
    (hdet : singTol ≤ absR (detN n (toMat n n a.elems))) :
    ∃ x, solveArr a b = .ok x ∧ x.shape = [n, k] ∧ x.WF ∧
      ∀ r c, r < n → c < k →
        sumTo n (fun t => vget a.elems (r * n + t) * vget x.elems (t * k + c)) = vget b.elems (r * k + c) := by
  have hdet0 : detN n (toMat n n a.elems) ≠ 0 := by
    intro h; rw [h] at hdet
    have : absR 0 = 0 := by simp [absR]
    rw [this] at hdet; exact absurd singTol_pos (not_lt.2 hdet)
  obtain ⟨hrows1, hrows2⟩ := solveMat_rows n k (toMat n n a.elems) (toMat n k b.elems)
  refine ⟨⟨flatten (solveMat n k (toMat n n a.elems) (toMat n k b.elems)), b.shape⟩, ?_, hb, ?_, ?_⟩
  · unfold solveArr
    have h2 : ¬ (n < 2) := by omega
    have hk0 : k ≠ 0 := by omega
    simp [Arr.ndim, ha, hb, isSquare2, h2, Res.idx, not_lt.2 hdet, hk0, bind, Res.bind]
  · show (flatten _).length = b.shape.prod
    unfold flatten
    rw [flatten_length k _ hrows2, hrows1, hb]; simp
  · intro r c hr hc
    have := solveMat_apply n k (toMat n n a.elems) (toMat n k b.elems) hn (toMat_rows n n _) hdet0 r c hr hc
    rw [entry_toMat _ hr hc] at this
    rw [← this]
    apply sumTo_congr; intro t ht
    rw [entry_toMat _ hr ht]
    show _ * vget (flatten _) (t * k + c) = _
    unfold flatten
    rw [vget_flatten k _ hrows2 t c hc]

/-- **vector right-hand side**: `b` of shape `[n]` is treated as one column; the answer has shape `[n]`. -/
theorem solve_spec_vector (n : Nat) (a b : Arr Rat) (hn : 2 ≤ n)
    (ha : a.shape = [n, n]) (hb : b.shape = [n])
    (hdet : singTol ≤ absR (detN n (toMat n n a.elems))) :
    ∃ x, solveArr a b = .ok x ∧ x.shape = [n] ∧ x.WF ∧
      ∀ r, r < n → sumTo n (fun t => vget a.elems (r * n + t) * vget x.elems t) = vget b.elems r := by
  have hdet0 : detN n (toMat n n a.elems) ≠ 0 := by
    intro h; rw [h] at hdet
    have : absR 0 = 0 := by simp [absR]
    rw [this] at hdet; exact absurd singTol_pos (not_lt.2 hdet)
  obtain ⟨hrows1, hrows2⟩ := solveMat_rows n 1 (toMat n n a.elems) (toMat n 1 b.elems)
  refine ⟨⟨flatten (solveMat n 1 (toMat n n a.elems) (toMat n 1 b.elems)), b.shape⟩, ?_, hb, ?_, ?_⟩
  · unfold solveArr
    have h2 : ¬ (n < 2) := by omega
    simp [Arr.ndim, ha, hb, isSquare2, h2, Res.idx, not_lt.2 hdet, bind, Res.bind]
  · show (flatten _).length = b.shape.prod
    unfold flatten
    rw [flatten_length 1 _ hrows2, hrows1, hb]; simp
  · intro r hr
    have := solveMat_apply n 1 (toMat n n a.elems) (toMat n 1 b.elems) hn (toMat_rows n n _) hdet0 r 0 hr (by omega)
    rw [entry_toMat _ hr (by omega)] at this
    simp only [Nat.mul_one, Nat.add_zero] at this
    rw [← this]
    apply sumTo_congr; intro t ht
    rw [entry_toMat _ hr ht]
    show _ * vget (flatten _) t = _
    unfold flatten
    have := vget_flatten 1 _ hrows2 t 0 (by omega)
    simp only [Nat.mul_one, Nat.add_zero] at this
    rw [this]

/-- **a singular matrix is refused with the singular-matrix error** (whatever the right-hand side with `n` rows) -/
theorem singular_refused (n : Nat) (a b : Arr Rat) (rest : List Nat) (hn : 2 ≤ n)
    (ha : a.shape = [n, n]) (hb : b.shape = n :: rest)
    (hdet : detN n (toMat n n a.elems) = 0) :
    solveArr a b = .err .SingularMatrix := by
  unfold solveArr
  have h2 : ¬ (n < 2) := by omega
  have : absR 0 < singTol := by simp [absR, singTol_pos]
  simp [Arr.ndim, ha, hb, isSquare2, h2, Res.idx, hdet, this, bind, Res.bind]

/-- more generally, everything below the threshold of the code's test (`|det| < 1e-12`) is refused -/
theorem near_singular_refused (n : Nat) (a b : Arr Rat) (rest : List Nat) (hn : 2 ≤ n)
    (ha : a.shape = [n, n]) (hb : b.shape = n :: rest)
    (hdet : absR (detN n (toMat n n a.elems)) < singTol) :
    solveArr a b = .err .SingularMatrix := by
  unfold solveArr
  have h2 : ¬ (n < 2) := by omega
  simp [Arr.ndim, ha, hb, isSquare2, h2, Res.idx, hdet, bind, Res.bind]

/-! ## det -/

/-- **the list model of `det` (2×2 closed form, cofactor expansion down column 0 through `minor`) is the determinant** -/
theorem det_eq_matrix_det (n : Nat) (m : Mat) (hn : 2 ≤ n) : detN n m = (toM n m).det := detN_eq_det n m hn

/-- `Array::det` of a square matrix returns the one-element array holding `Matrix.det` -/
theorem detArr_matrix (n : Nat) (a : Arr Rat) (hn : 2 ≤ n) (ha : a.shape = [n, n]) :
    detArr a = .ok ⟨[(toM n (toMat n n a.elems)).det], [1]⟩ := by
  unfold detArr
  have h2 : ¬ (n < 2) := by omega
  simp [Arr.ndim, ha, isSquare2, h2, bind, Res.bind, detN_eq_det n _ hn]

/-- **multiplicative** -/
theorem det_mul (n : Nat) (a b : Mat) (hn : 2 ≤ n) : detN n (matMul n a b) = detN n a * detN n b := by
  rw [detN_eq_det n _ hn, detN_eq_det n _ hn, detN_eq_det n _ hn, toM_matMul, Matrix.det_mul]

/-- **a row exchange changes the sign** -/
theorem det_swap_rows (n : Nat) (a : Mat) (i j : Nat) (hn : 2 ≤ n) (hi : i < n) (hj : j < n) (hij : i ≠ j) :
    detN n (swapRows n n a i j) = - detN n a := by
  rw [detN_eq_det n _ hn, detN_eq_det n _ hn, toM_swapRows n a i j hi hj, Matrix.det_permute,
    Equiv.Perm.sign_swap (by intro e; exact hij (congrArg Fin.val e))]
  simp

/-- **the determinant equals the value obtained by elimination**: the product of the pivots of the very elimination
`solve` runs, negated once per row exchange. -/
theorem det_eq_elimination (n : Nat) (a : Mat) (hn : 2 ≤ n) (ha : ∀ i, i < n → (a.getD i []).length = n) :
    detN n a = detByElim n a := detN_eq_detByElim n a hn ha

/-- **stacks**: `det` of an `[s, n, n]` array is the list of the determinants of its `s` consecutive blocks -/
theorem det_stack (s n : Nat) (a : Arr Rat) (hs : 0 < s) (hn : 2 ≤ n) (ha : a.shape = [s, n, n]) (hw : a.WF) :
    detArr a = .ok ⟨(List.range s).map (fun b => detN n (toMat n n ((a.elems.drop (b * (n * n))).take (n * n)))), [s]⟩ := by
  have hlen : a.elems.length = s * (n * n) := by rw [hw, ha]; simp
  have hnn : 0 < n * n := Nat.mul_pos (by omega) (by omega)
  have hcount : a.elems.length / (n * n) = s := by rw [hlen]; exact Nat.mul_div_cancel _ hnn
  unfold detArr
  have h2 : ¬ (n < 2) := by omega
  have hs0 : s ≠ 0 := by omega
  simp [Arr.ndim, ha, isSquareLast, h2, bind, Res.bind, hcount, hs0, blocks]

/-! ## norm -/

/-- **default norm**: the square of the value is the sum of the squares of all elements (any shape) -/
theorem norm_default_sq (a : Arr Rat) :
    normArr a none none false = .ok ⟨[.root 2 ((a.elems.map fun x => x * x).sum)], [1]⟩ := by
  simp [normArr, normSimple, sumL_eq_sum]

/-- **two-norm of a vector** (explicit order, or along its only axis) is the same root of the sum of squares -/
theorem norm_2 (a : Arr Rat) (m : Nat) (hs : a.shape = [m]) (hw : a.elems.length = m) :
    normArr a (some (.int 2)) none false = .ok ⟨[.root 2 ((a.elems.map fun x => x * x).sum)], [1]⟩ ∧
    normArr a (some (.int 2)) (some [0]) false = .ok ⟨[.root 2 ((a.elems.map fun x => x * x).sum)], [1]⟩ := by
  have hnd : a.ndim = 1 := by simp [Arr.ndim, hs]
  constructor
  · simp [normArr, normSimple, sumL_eq_sum, hnd]
  · have hsq : (a.elems.map fun x => absR (x * x)) = a.elems.map fun x => x * x := by
      apply List.map_congr_left; intro x _
      rw [absR_eq_abs, abs_of_nonneg (mul_self_nonneg x)]
    have := reduceAxis_vec sumL (mapArr (fun x => absR (x * x)) a) m (by simpa [mapArr] using hs)
      (by simpa [mapArr] using hw) 0 (Or.inl rfl)
    simp only [mapArr, hsq] at this
    simp [normArr, this, Res.map, rootArr, mapArr, hsq, sumL_eq_sum]

/-- **one-norm of a vector**: the sum of the absolute values -/
theorem norm_1 (a : Arr Rat) (m : Nat) (hs : a.shape = [m]) (hw : a.elems.length = m) :
    normArr a (some (.int 1)) none false = .ok ⟨[.rat ((a.elems.map fun x => |x|).sum)], [1]⟩ := by
  have hnd : a.ndim = 1 := by simp [Arr.ndim, hs]
  have habs : (a.elems.map absR) = a.elems.map fun x => |x| := by
    apply List.map_congr_left; intro x _; exact absR_eq_abs x
  have := reduceAxis_vec sumL (mapArr absR a) m (by simpa [mapArr] using hs) (by simpa [mapArr] using hw) 0 (Or.inl rfl)
  simp only [mapArr, habs] at this
  simp [normArr, hnd, this, Res.map, symArr, mapArr, habs, sumL_eq_sum]

/-- **infinity-norm of a non-empty vector**: a value `r` that is the absolute value of some element and bounds all of them -/
theorem norm_inf (a : Arr Rat) (m : Nat) (hm : 0 < m) (hs : a.shape = [m]) (hw : a.elems.length = m) :
    ∃ r, normArr a (some .inf) none false = .ok ⟨[.rat r], [1]⟩ ∧
      (∃ x ∈ a.elems, r = |x|) ∧ ∀ x ∈ a.elems, |x| ≤ r := by
  have hnd : a.ndim = 1 := by simp [Arr.ndim, hs]
  have habs : (a.elems.map absR) = a.elems.map fun x => |x| := by
    apply List.map_congr_left; intro x _; exact absR_eq_abs x
  have hred := reduceAxis_vec maxL (mapArr absR a) m (by simpa [mapArr] using hs) (by simpa [mapArr] using hw) 0 (Or.inl rfl)
  simp only [mapArr, habs] at hred
  have hne : (a.elems.map fun x => |x|) ≠ [] := by
    intro h; have := congrArg List.length h; simp [hw] at this; omega
  obtain ⟨hmem, hmax⟩ := maxL_spec _ hne
  refine ⟨maxL (a.elems.map fun x => |x|), ?_, ?_, ?_⟩
  · simp [normArr, hnd, hred, Res.map, symArr, mapArr, habs]
  · obtain ⟨x, hx, hxe⟩ := List.mem_map.1 hmem
    exact ⟨x, hx, hxe.symm⟩
  · intro x hx; exact hmax _ (List.mem_map.2 ⟨x, hx, rfl⟩)

/-- the two-axis arm refuses an axis outside the rank (repair e1ca2b8): whatever the order and `keepdims`, when either
normalised axis is below `0` or not below the rank the answer is an error value (`ParameterError` when the two
normalised axes coincide — that check comes first — and `AxisOutOfBounds` otherwise), never a norm along a wrapped axis. -/
theorem norm_two_axes_out_of_range (a : Arr Rat) (ord : Option Ord) (ax0 ax1 : Int) (keep : Bool)
    (h : normAxis a.ndim ax0 < 0 ∨ normAxis a.ndim ax0 ≥ a.ndim ∨ normAxis a.ndim ax1 < 0 ∨ normAxis a.ndim ax1 ≥ a.ndim) :
    normArr a ord (some [ax0, ax1]) keep = .err .ParameterError ∨
    normArr a ord (some [ax0, ax1]) keep = .err .AxisOutOfBounds := by
  unfold normArr
  by_cases heq : normAxis a.ndim ax0 = normAxis a.ndim ax1
  · left; simp [heq]
  · right
    by_cases h0 : normAxis a.ndim ax0 < 0 ∨ normAxis a.ndim ax0 ≥ a.ndim
    · simp [heq, h0]
    · have h1 : normAxis a.ndim ax1 < 0 ∨ normAxis a.ndim ax1 ≥ a.ndim := by omega
      simp [heq, h0, h1]


/-! ## qr (exact Gram–Schmidt; `Q[i][k] = us[k][i] / √nrm2[k]`, `R[k][c] = ru[k][c] / √nrm2[k]`) -/

/-- **orthonormal columns**: distinct Gram–Schmidt vectors are orthogonal, and `nrm2[k]` is the squared length of the
`k`-th one — i.e. `(QᵀQ)[j][k] = us[j]·us[k] / (√nrm2[j] √nrm2[k])` is the identity. -/
theorem qr_orthogonal (n : Nat) (a : Mat) (hnz : (0 : Rat) ∉ (qrMat n a).nrm2) :
    ∀ j k, j < n → k < n →
      dotV n ((qrMat n a).us.getD j []) ((qrMat n a).us.getD k []) = if j = k then vget (qrMat n a).nrm2 k else 0 := by
  intro j k hj hk
  by_cases h : j = k
  · rw [if_pos h, vget_nrm2 n a k hk, h]; rfl
  · rw [if_neg h]
    exact gramU_orth n (columns n a) (qr_nonzero_of n a hnz) j k (by rw [columns_length]; exact hj)
      (by rw [columns_length]; exact hk) h

/-- **upper-triangular second factor**: `R[k][c] = 0` below the diagonal -/
theorem qr_upper (n : Nat) (a : Mat) (hnz : (0 : Rat) ∉ (qrMat n a).nrm2) :
    ∀ k c, k < n → c < n → c < k → entry (qrMat n a).ru k c = 0 := by
  intro k c hk hc hck
  show entry (build n n fun k c => dotV n ((gramU n (columns n a)).getD k []) ((columns n a).getD c [])) k c = 0
  rw [entry_build_lt _ hk hc, gram_dot_column n (columns n a) (qr_nonzero_of n a hnz) k c
    (by rw [columns_length]; exact hk) (by rw [columns_length]; exact hc) (le_of_lt hck), if_neg (by omega)]

/-- **the factors multiply back**: `(Q R)[i][c] = Σ_k us[k][i] · ru[k][c] / nrm2[k] = A[i][c]` -/
theorem qr_product (n : Nat) (a : Mat) (hnz : (0 : Rat) ∉ (qrMat n a).nrm2) :
    ∀ i c, i < n → c < n →
      sumTo n (fun k => vget ((qrMat n a).us.getD k []) i * entry (qrMat n a).ru k c / vget (qrMat n a).nrm2 k)
        = entry a i c := by
  intro i c hi hc
  have hnz' := qr_nonzero_of n a hnz
  have hcl := columns_length n a
  have hus : (qrMat n a).us = gramU n (columns n a) := rfl
  simp only [hus]
  have hcol : vget ((columns n a).getD c []) i = entry a i c := by
    unfold columns; rw [build_getD _ _ _ _ hc, vget_map_range, if_pos hi]
  have hru : ∀ k, k < n → entry (qrMat n a).ru k c
      = dotV n ((gramU n (columns n a)).getD k []) ((columns n a).getD c []) := by
    intro k hk
    show entry (build n n fun k c => dotV n ((gramU n (columns n a)).getD k []) ((columns n a).getD c [])) k c = _
    rw [entry_build_lt _ hk hc]
  rw [← hcol, column_expand n (columns n a) hnz' c (by rw [hcl]; exact hc) i hi, sumTo_eq_sum, sum_split n c hc]
  have hmem : ∀ k, k < n → (gramU n (columns n a)).getD k [] ∈ gramU n (columns n a) := by
    intro k hk
    rw [getD_eq_getElem' _ _ (by rw [gramU_length, hcl]; exact hk)]; exact List.getElem_mem _
  -- the diagonal term
  have hdiag : vget ((gramU n (columns n a)).getD c []) i * entry (qrMat n a).ru c c / vget (qrMat n a).nrm2 c
      = vget ((gramU n (columns n a)).getD c []) i := by
    rw [hru c hc, vget_nrm2 n a c hc, gram_dot_column n (columns n a) hnz' c c (by rw [hcl]; exact hc)
      (by rw [hcl]; exact hc) (le_refl _), if_pos rfl]
    have := hnz' _ (hmem c hc)
    field_simp
  -- the terms above the diagonal vanish
  have hupper : ∑ r ∈ Finset.range (n - c - 1),
      vget ((gramU n (columns n a)).getD (c + 1 + r) []) i * entry (qrMat n a).ru (c + 1 + r) c / vget (qrMat n a).nrm2 (c + 1 + r) = 0 := by
    apply Finset.sum_eq_zero; intro r hr
    have hr' := Finset.mem_range.1 hr
    rw [qr_upper n a hnz (c + 1 + r) c (by omega) hc (by omega)]; ring
  -- the terms below the diagonal are the projections
  have hlower : ∑ k ∈ Finset.range c,
      vget ((gramU n (columns n a)).getD k []) i * entry (qrMat n a).ru k c / vget (qrMat n a).nrm2 k
      = ∑ t ∈ Finset.range c, dotV n ((gramU n (columns n a)).getD t []) ((columns n a).getD c []) /
        dotV n ((gramU n (columns n a)).getD t []) ((gramU n (columns n a)).getD t []) *
          vget ((gramU n (columns n a)).getD t []) i := by
    refine Finset.sum_congr rfl fun k hk => ?_
    have hk' := Finset.mem_range.1 hk
    rw [hru k (by omega), vget_nrm2 n a k (by omega)]
    ring
  rw [hdiag, hupper, hlower]; ring

/-- `Array::qr` of a square matrix returns the one pair described by `qrMat` -/
theorem qrArr_matrix (n : Nat) (a : Arr Rat) (hn : 2 ≤ n) (ha : a.shape = [n, n]) :
    qrArr a = .ok [qrMat n (toMat n n a.elems)] := by
  unfold qrArr
  have h2 : ¬ (n < 2) := by omega
  simp [Arr.ndim, ha, isSquareLast, h2, bind, Res.bind]

/-- **stacks**: `qr` of an `[s, n, n]` array is the list of the factor pairs of its `s` consecutive blocks
(so the three equations above hold for each matrix of the stack) -/
theorem qr_stack (s n : Nat) (a : Arr Rat) (hs : 0 < s) (hn : 2 ≤ n) (ha : a.shape = [s, n, n]) (hw : a.WF) :
    qrArr a = .ok ((List.range s).map fun b => qrMat n (toMat n n ((a.elems.drop (b * (n * n))).take (n * n)))) := by
  have hlen : a.elems.length = s * (n * n) := by rw [hw, ha]; simp
  have hnn : 0 < n * n := Nat.mul_pos (by omega) (by omega)
  have hcount : a.elems.length / (n * n) = s := by rw [hlen]; exact Nat.mul_div_cancel _ hnn
  unfold qrArr
  have h2 : ¬ (n < 2) := by omega
  have hs0 : s ≠ 0 := by omega
  simp [Arr.ndim, ha, isSquareLast, h2, bind, Res.bind, hcount, hs0, blocks]

/-! ## non-vacuity: concrete instances meeting the hypotheses -/

/-- the pivot-forcing witness of the pinned defect: `[[0,1],[1,0]] x = [2,3]` gives `[3,2]` -/
example : solveArr ⟨[0, 1, 1, 0], [2, 2]⟩ ⟨[2, 3], [2]⟩ = .ok ⟨[3, 2], [2]⟩ := by decide +kernel
/-- hypotheses of `solve_spec` hold for a 3×3 system that needs an exchange, with two right-hand sides -/
example : singTol ≤ absR (detN 3 (toMat 3 3 [1, 1, 0, 4, 5, 1, 0, 1, 6])) := by decide +kernel
example : solveArr ⟨[1, 1, 0, 4, 5, 1, 0, 1, 6], [3, 3]⟩ ⟨[1, 2, 3, 4, 5, 6], [3, 2]⟩
    = .ok ⟨[16/5, 8, -11/5, -6, 6/5, 2], [3, 2]⟩ := by decide +kernel
example : swapCount 3 (toMat 3 3 [1, 1, 0, 4, 5, 1, 0, 1, 6]) = 2 := by decide +kernel
example : solveArr ⟨[1, 2, 2, 4], [2, 2]⟩ ⟨[1, 1], [2]⟩ = .err .SingularMatrix := by decide +kernel
example : detArr ⟨[3, 8, 4, 6], [2, 2]⟩ = .ok ⟨[-14], [1]⟩ := by decide +kernel
example : detArr ⟨[2, 1, 1, 3, 0, 1, 1, 0, 1, 2, 3, 5], [3, 2, 2]⟩ = .ok ⟨[5, -1, -1], [3]⟩ := by decide +kernel
example : detByElim 3 (toMat 3 3 [1, 1, 0, 4, 5, 1, 0, 1, 6]) = 5 ∧ detN 3 (toMat 3 3 [1, 1, 0, 4, 5, 1, 0, 1, 6]) = 5 := by
  decide +kernel
example : (0 : Rat) ∉ (qrMat 3 (toMat 3 3 [1, 1, 0, 4, 5, 1, 0, 1, 6])).nrm2 := by decide +kernel
example : (qrMat 2 (toMat 2 2 [2, 1, 1, 3])).us = [[2, 1], [-1, 2]] ∧ (qrMat 2 (toMat 2 2 [2, 1, 1, 3])).ru = [[5, 5], [0, 5]] := by
  decide +kernel
example : normArr ⟨[3, -4], [2]⟩ (some .inf) none false = .ok ⟨[.rat 4], [1]⟩ := by decide +kernel
example : normArr ⟨[3, -4], [2]⟩ none none false = .ok ⟨[.root 2 25], [1]⟩ := by decide +kernel

example : normArr ⟨[-7], [1]⟩ (some (.int 1)) (some [0, 1]) false = .err .AxisOutOfBounds := by decide +kernel
example : normArr ⟨[1, 2, 3, 4], [2, 2]⟩ (some .inf) (some [0, -3]) true = .err .AxisOutOfBounds := by decide +kernel

open Arr

/-! ## norm, extension: every arm of the dispatch that needs no SVD, on the branch-faithful reductions (`normX`)

Model under test: `normX` of `ArrModel/C15Ext.lean` — the dispatch of `norms.rs:57-146` written over the SHARED model of
`sum(Some(axis))` / `max(Some(axis))` / `min(Some(axis))` (`Arr.reduceAxis` of `ArrModel/C08.lean`: `normalize_axis`,
`apply_along_axis`, `reshape(remove_at_if)`), the definitions the driver executes for every case of at most
`Driver.C15.normXLimit` elements (and cross-checks against `normArr` there).  `laneOf a k c` is the lane of `a` along axis `k`
through `c` (`norm_axis_lane` says what its entries are).  Hypotheses `a.WF`, `0 ∉ a.shape`: a well-formed array with at
least one element; arrays without elements are the subject of `norm_empty_*`.  Roots stay symbolic (`Sym.root 2 q = √q`). -/

/-- **the lane through a position**: for a position `c` of the remaining axes, the lane has the length of the reduced
axis and its `j`-th entry is `a[c with j inserted at the axis]` -/
theorem norm_axis_lane (a : Arr Rat) (ax : Int) (c : List Nat) (hwf : a.WF) (hax : normalizeAxis a.ndim ax < a.ndim)
    (hc : inRange (a.shape.eraseIdx (normalizeAxis a.ndim ax)) c = true) :
    (laneOf a (normalizeAxis a.ndim ax) (c.insertIdx (normalizeAxis a.ndim ax) 0)).length
        = a.shape.getD (normalizeAxis a.ndim ax) 0 ∧
    ∀ j, j < a.shape.getD (normalizeAxis a.ndim ax) 0 →
      (laneOf a (normalizeAxis a.ndim ax) (c.insertIdx (normalizeAxis a.ndim ax) 0))[j]?
        = a.get? (c.insertIdx (normalizeAxis a.ndim ax) j) :=
  ⟨lane_length a ax c hwf hax hc, fun j hj => lane_entry a ax c hwf hax hc j hj⟩

/-- **one-norm along an axis** of an array of any rank (negative axis spellings included through `normalizeAxis`): the
result has the shape of the input without the axis (`[1]` for a vector) and its entry at `c` is `Σ |x|` over the lane
through `c`.  `keepdims` is not looked at by this arm. -/
theorem norm_axis_one (a : Arr Rat) (ax : Int) (keep : Bool) (hwf : a.WF) (hnz : 0 ∉ a.shape)
    (hax : normalizeAxis a.ndim ax < a.ndim) :
    ∃ r, normX a (some (.int 1)) (some [ax]) keep = .ok r ∧
      r.shape = (if a.ndim > 1 then a.shape.eraseIdx (normalizeAxis a.ndim ax) else [1]) ∧ r.WF ∧
      ∀ c, inRange (a.shape.eraseIdx (normalizeAxis a.ndim ax)) c = true →
        r.get? (if a.ndim > 1 then c else [0]) =
          some (.rat (((laneOf a (normalizeAxis a.ndim ax) (c.insertIdx (normalizeAxis a.ndim ax) 0)).map fun x => |x|).sum)) := by
  obtain ⟨r, h1, h2, h3, h4⟩ := vec_arm_spec a ax absR sumBody sumL Sym.rat (fun lane _ => sumBody_flat lane) hwf hnz hax
  refine ⟨r, ?_, h2, h3, ?_⟩
  · rw [normX_one_axis]; exact h1
  · intro c hc
    rw [h4 c hc, abs_lane_sum]

/-- **zero-"norm" along an axis**: the number of non-zero entries of the lane -/
theorem norm_axis_zero (a : Arr Rat) (ax : Int) (keep : Bool) (hwf : a.WF) (hnz : 0 ∉ a.shape)
    (hax : normalizeAxis a.ndim ax < a.ndim) :
    ∃ r, normX a (some (.int 0)) (some [ax]) keep = .ok r ∧
      r.shape = (if a.ndim > 1 then a.shape.eraseIdx (normalizeAxis a.ndim ax) else [1]) ∧ r.WF ∧
      ∀ c, inRange (a.shape.eraseIdx (normalizeAxis a.ndim ax)) c = true →
        r.get? (if a.ndim > 1 then c else [0]) =
          some (.rat (((laneOf a (normalizeAxis a.ndim ax) (c.insertIdx (normalizeAxis a.ndim ax) 0)).filter
            fun x => decide (x ≠ 0)).length : Rat)) := by
  obtain ⟨r, h1, h2, h3, h4⟩ := vec_arm_spec a ax (fun x => if x = 0 then 0 else 1) sumBody sumL Sym.rat
    (fun lane _ => sumBody_flat lane) hwf hnz hax
  refine ⟨r, ?_, h2, h3, ?_⟩
  · rw [normX_one_axis]; exact h1
  · intro c hc
    rw [h4 c hc, sumL_indicator]

/-- **two-norm along an axis** (explicit order 2, or no order with an explicit axis): `√(Σ x²)` over the lane -/
theorem norm_axis_two (a : Arr Rat) (ax : Int) (keep : Bool) (hwf : a.WF) (hnz : 0 ∉ a.shape)
    (hax : normalizeAxis a.ndim ax < a.ndim) :
    ∃ r, normX a (some (.int 2)) (some [ax]) keep = .ok r ∧ normX a none (some [ax]) keep = .ok r ∧
      r.shape = (if a.ndim > 1 then a.shape.eraseIdx (normalizeAxis a.ndim ax) else [1]) ∧ r.WF ∧
      ∀ c, inRange (a.shape.eraseIdx (normalizeAxis a.ndim ax)) c = true →
        r.get? (if a.ndim > 1 then c else [0]) =
          some (.root 2 (((laneOf a (normalizeAxis a.ndim ax) (c.insertIdx (normalizeAxis a.ndim ax) 0)).map fun x => x * x).sum)) := by
  obtain ⟨r, h1, h2, h3, h4⟩ := vec_arm_spec a ax (fun x => absR (x * x)) sumBody sumL (Sym.root 2)
    (fun lane _ => sumBody_flat lane) hwf hnz hax
  have e : normVecX a (.int 2) ax = .ok r := by
    simp only [normVecX, show ((2 : Int) = 0) = False from by decide, show ((2 : Int) = 1) = False from by decide,
      if_false, if_true, bcastGuard_ok a hnz, bind, Res.bind]
    exact h1
  refine ⟨r, ?_, ?_, h2, h3, ?_⟩
  · rw [normX_one_axis]; exact e
  · simp only [normX, Option.getD_none, Option.getD_some]; exact e
  · intro c hc
    rw [h4 c hc, sq_lane_sum]

/-- **infinity-norm along an axis**: the entry at `c` is the absolute value of some element of the lane through `c`
and bounds the absolute values of all of them -/
theorem norm_axis_inf (a : Arr Rat) (ax : Int) (keep : Bool) (hwf : a.WF) (hnz : 0 ∉ a.shape)
    (hax : normalizeAxis a.ndim ax < a.ndim) :
    ∃ r, normX a (some .inf) (some [ax]) keep = .ok r ∧
      r.shape = (if a.ndim > 1 then a.shape.eraseIdx (normalizeAxis a.ndim ax) else [1]) ∧ r.WF ∧
      ∀ c, inRange (a.shape.eraseIdx (normalizeAxis a.ndim ax)) c = true →
        ∃ v, r.get? (if a.ndim > 1 then c else [0]) = some (.rat v) ∧
          (∃ x ∈ laneOf a (normalizeAxis a.ndim ax) (c.insertIdx (normalizeAxis a.ndim ax) 0), v = |x|) ∧
          ∀ x ∈ laneOf a (normalizeAxis a.ndim ax) (c.insertIdx (normalizeAxis a.ndim ax) 0), |x| ≤ v := by
  obtain ⟨r, h1, h2, h3, h4⟩ := vec_arm_spec a ax absR maxBody maxL Sym.rat maxBody_flat hwf hnz hax
  refine ⟨r, ?_, h2, h3, ?_⟩
  · rw [normX_one_axis]; exact h1
  · intro c hc
    have hlen := lane_length a ax c hwf hax hc
    have hpos := getD_pos_of_not_mem a.shape _ hax hnz
    have hne : (laneOf a (normalizeAxis a.ndim ax) (c.insertIdx (normalizeAxis a.ndim ax) 0)).map absR ≠ [] := by
      intro h; have := congrArg List.length h; rw [List.length_map, hlen, List.length_nil] at this; exact hpos this
    obtain ⟨hmem, hmax⟩ := maxL_spec _ hne
    refine ⟨_, h4 c hc, ?_, ?_⟩
    · obtain ⟨x, hx, hxe⟩ := List.mem_map.1 hmem
      exact ⟨x, hx, by rw [← hxe, absR_eq_abs]⟩
    · intro x hx; rw [← absR_eq_abs]; exact hmax _ (List.mem_map.2 ⟨x, hx, rfl⟩)

/-- **minus-infinity-"norm" along an axis**: the least absolute value of the lane -/
theorem norm_axis_neg_inf (a : Arr Rat) (ax : Int) (keep : Bool) (hwf : a.WF) (hnz : 0 ∉ a.shape)
    (hax : normalizeAxis a.ndim ax < a.ndim) :
    ∃ r, normX a (some .negInf) (some [ax]) keep = .ok r ∧
      r.shape = (if a.ndim > 1 then a.shape.eraseIdx (normalizeAxis a.ndim ax) else [1]) ∧ r.WF ∧
      ∀ c, inRange (a.shape.eraseIdx (normalizeAxis a.ndim ax)) c = true →
        ∃ v, r.get? (if a.ndim > 1 then c else [0]) = some (.rat v) ∧
          (∃ x ∈ laneOf a (normalizeAxis a.ndim ax) (c.insertIdx (normalizeAxis a.ndim ax) 0), v = |x|) ∧
          ∀ x ∈ laneOf a (normalizeAxis a.ndim ax) (c.insertIdx (normalizeAxis a.ndim ax) 0), v ≤ |x| := by
  obtain ⟨r, h1, h2, h3, h4⟩ := vec_arm_spec a ax absR minBody minL Sym.rat minBody_flat hwf hnz hax
  refine ⟨r, ?_, h2, h3, ?_⟩
  · rw [normX_one_axis]; exact h1
  · intro c hc
    have hlen := lane_length a ax c hwf hax hc
    have hpos := getD_pos_of_not_mem a.shape _ hax hnz
    have hne : (laneOf a (normalizeAxis a.ndim ax) (c.insertIdx (normalizeAxis a.ndim ax) 0)).map absR ≠ [] := by
      intro h; have := congrArg List.length h; rw [List.length_map, hlen, List.length_nil] at this; exact hpos this
    obtain ⟨hmem, hmin⟩ := minL_spec _ hne
    refine ⟨_, h4 c hc, ?_, ?_⟩
    · obtain ⟨x, hx, hxe⟩ := List.mem_map.1 hmem
      exact ⟨x, hx, by rw [← hxe, absR_eq_abs]⟩
    · intro x hx; rw [← absR_eq_abs]; exact hmin _ (List.mem_map.2 ⟨x, hx, rfl⟩)

/-- the one-axis arm does not look at `keepdims` (numpy would keep the reduced axis with length 1) and, for a vector
without an explicit axis and an order other than 2, `axis = None` means axis 0 -/
theorem norm_one_axis_ignores_keepdims (a : Arr Rat) (ord : Option Ord) (ax : Int) :
    normX a ord (some [ax]) true = normX a ord (some [ax]) false := by
  simp [normX]

/-- **Frobenius norm of a matrix and the default norm of any array with an element**: `√(Σ x²)` over all elements;
under `keepdims` the one-element result is reshaped to `[ndim]`, which only fits a vector -/
theorem norm_frobenius (a : Arr Rat) (hne : a.elems.length ≠ 0) :
    normX a none none false = .ok ⟨[.root 2 ((a.elems.map fun x => x * x).sum)], [1]⟩ ∧
    (a.ndim = 2 → normX a (some .fro) none false = .ok ⟨[.root 2 ((a.elems.map fun x => x * x).sum)], [1]⟩) ∧
    (a.ndim = 1 → normX a none none true = .ok ⟨[.root 2 ((a.elems.map fun x => x * x).sum)], [1]⟩) ∧
    (a.ndim ≠ 1 → normX a none none true = .err .ShapeMustMatchValuesLength) := by
  refine ⟨?_, ?_, ?_, ?_⟩
  · simp [normX, normSimpleX, normSimple, hne, sumL_eq_sum]
  · intro h; simp [normX, normSimpleX, normSimple, hne, sumL_eq_sum, h]
  · intro h; simp [normX, normSimpleX, normSimple, hne, sumL_eq_sum, h]
  · intro h; simp [normX, normSimpleX, normSimple, hne, h]

/-- **matrix 1-norm and (-1)-"norm"** of an `m × n` matrix over the axes `(0, 1)` (any spelling, e.g. `(-2, -1)`):
the greatest / least column sum of absolute values.  `keepdims` appends ONE trailing unit axis (numpy: shape `[1, 1]`
here as well, but by keeping both reduced axes in place). -/
theorem norm_matrix_one (a : Arr Rat) (m n : Nat) (hm : 0 < m) (hn : 0 < n) (hs : a.shape = [m, n]) (hwf : a.WF)
    (ax0 ax1 : Int) (h0 : normAxis 2 ax0 = 0) (h1 : normAxis 2 ax1 = 1) (keep : Bool) :
    normX a (some (.int 1)) (some [ax0, ax1]) keep
      = .ok ⟨[.rat (maxL (colAbsSums a m n))], if keep then [1, 1] else [1]⟩ ∧
    normX a (some (.int (-1))) (some [ax0, ax1]) keep
      = .ok ⟨[.rat (minL (colAbsSums a m n))], if keep then [1, 1] else [1]⟩ := by
  have hnd : a.ndim = 2 := by simp [Arr.ndim, hs]
  have hlen : (colAbsSums a m n).length = n := by simp [colAbsSums]
  constructor
  · rw [normX_two_axes a _ ax0 ax1 keep 0 1 (by rw [hnd]; exact h0) (by rw [hnd]; exact h1) (by decide)
      (by rw [hnd]; omega) (by rw [hnd]; omega)]
    simp only [normMatX, if_true, show ((1 : Int) > 0) from by decide, bind, Res.bind,
      sumAx_abs_axis0 a m n hm hn hs hwf, maxAx_vec _ n hn hlen (-1) (Or.inr rfl)]
    cases keep <;> rfl
  · rw [normX_two_axes a _ ax0 ax1 keep 0 1 (by rw [hnd]; exact h0) (by rw [hnd]; exact h1) (by decide)
      (by rw [hnd]; omega) (by rw [hnd]; omega)]
    simp only [normMatX, show ((-1 : Int) = 1) = False from by decide, if_false, if_true, show ((1 : Int) > 0) from by decide,
      bind, Res.bind, sumAx_abs_axis0 a m n hm hn hs hwf, minAx_vec _ n hn hlen (-1) (Or.inr rfl)]
    cases keep <;> rfl

/-- **matrix inf-norm and (-inf)-"norm"** over the axes `(0, 1)`: the greatest / least row sum of absolute values -/
theorem norm_matrix_inf (a : Arr Rat) (m n : Nat) (hm : 0 < m) (hn : 0 < n) (hs : a.shape = [m, n]) (hwf : a.WF)
    (ax0 ax1 : Int) (h0 : normAxis 2 ax0 = 0) (h1 : normAxis 2 ax1 = 1) (keep : Bool) :
    normX a (some .inf) (some [ax0, ax1]) keep
      = .ok ⟨[.rat (maxL (rowAbsSums a m n))], if keep then [1, 1] else [1]⟩ ∧
    normX a (some .negInf) (some [ax0, ax1]) keep
      = .ok ⟨[.rat (minL (rowAbsSums a m n))], if keep then [1, 1] else [1]⟩ := by
  have hnd : a.ndim = 2 := by simp [Arr.ndim, hs]
  have hlen : (rowAbsSums a m n).length = m := by simp [rowAbsSums]
  constructor
  · rw [normX_two_axes a _ ax0 ax1 keep 0 1 (by rw [hnd]; exact h0) (by rw [hnd]; exact h1) (by decide)
      (by rw [hnd]; omega) (by rw [hnd]; omega)]
    simp only [normMatX, show ((0 : Int) > 1) = False from by decide, if_false, bind, Res.bind,
      sumAx_abs_axis1 a m n hm hn hs hwf, maxAx_vec _ m hm hlen 0 (Or.inl rfl)]
    cases keep <;> rfl
  · rw [normX_two_axes a _ ax0 ax1 keep 0 1 (by rw [hnd]; exact h0) (by rw [hnd]; exact h1) (by decide)
      (by rw [hnd]; omega) (by rw [hnd]; omega)]
    simp only [normMatX, show ((0 : Int) > 1) = False from by decide, if_false, bind, Res.bind,
      sumAx_abs_axis1 a m n hm hn hs hwf, minAx_vec _ m hm hlen 0 (Or.inl rfl)]
    cases keep <;> rfl

/-- **the axes given the other way round, `(1, 0)`** (row axis 1, column axis 0), are the norms of the transposed
matrix: order 1 / -1 take the extreme ROW sum, order inf / -inf the extreme COLUMN sum -/
theorem norm_matrix_swapped_axes (a : Arr Rat) (m n : Nat) (hm : 0 < m) (hn : 0 < n) (hs : a.shape = [m, n]) (hwf : a.WF)
    (ax0 ax1 : Int) (h0 : normAxis 2 ax0 = 1) (h1 : normAxis 2 ax1 = 0) (keep : Bool) :
    normX a (some (.int 1)) (some [ax0, ax1]) keep
      = .ok ⟨[.rat (maxL (rowAbsSums a m n))], if keep then [1, 1] else [1]⟩ ∧
    normX a (some (.int (-1))) (some [ax0, ax1]) keep
      = .ok ⟨[.rat (minL (rowAbsSums a m n))], if keep then [1, 1] else [1]⟩ ∧
    normX a (some .inf) (some [ax0, ax1]) keep
      = .ok ⟨[.rat (maxL (colAbsSums a m n))], if keep then [1, 1] else [1]⟩ ∧
    normX a (some .negInf) (some [ax0, ax1]) keep
      = .ok ⟨[.rat (minL (colAbsSums a m n))], if keep then [1, 1] else [1]⟩ := by
  have hnd : a.ndim = 2 := by simp [Arr.ndim, hs]
  have hlr : (rowAbsSums a m n).length = m := by simp [rowAbsSums]
  have hlc : (colAbsSums a m n).length = n := by simp [colAbsSums]
  have hu : ∀ ord, normX a (some ord) (some [ax0, ax1]) keep =
      (if keep then (normMatX a ord 1 0) >>= fun r => .ok (symArr ⟨r.elems, r.shape ++ [1]⟩)
       else (normMatX a ord 1 0).map symArr) := fun ord =>
    normX_two_axes a ord ax0 ax1 keep 1 0 (by rw [hnd]; exact h0) (by rw [hnd]; exact h1) (by decide)
      (by rw [hnd]; omega) (by rw [hnd]; omega)
  refine ⟨?_, ?_, ?_, ?_⟩
  · rw [hu]
    simp only [normMatX, if_true, show ((0 : Int) > 1) = False from by decide, if_false, bind, Res.bind,
      sumAx_abs_axis1 a m n hm hn hs hwf, maxAx_vec _ m hm hlr 0 (Or.inl rfl)]
    cases keep <;> rfl
  · rw [hu]
    simp only [normMatX, show ((-1 : Int) = 1) = False from by decide, if_true, show ((0 : Int) > 1) = False from by decide,
      if_false, bind, Res.bind, sumAx_abs_axis1 a m n hm hn hs hwf, minAx_vec _ m hm hlr 0 (Or.inl rfl)]
    cases keep <;> rfl
  · rw [hu]
    simp only [normMatX, show ((1 : Int) > 0) from by decide, if_true, bind, Res.bind,
      sumAx_abs_axis0 a m n hm hn hs hwf, maxAx_vec _ n hn hlc (-1) (Or.inr rfl)]
    cases keep <;> rfl
  · rw [hu]
    simp only [normMatX, show ((1 : Int) > 0) from by decide, if_true, bind, Res.bind,
      sumAx_abs_axis0 a m n hm hn hs hwf, minAx_vec _ n hn hlc (-1) (Or.inr rfl)]
    cases keep <;> rfl

/-- with an order other than `fro` and no axis, a rank-2 array takes the two-axis arm with the axes `(0, 1)` -/
theorem norm_matrix_axis_none (a : Arr Rat) (ord : Ord) (keep : Bool) (hnd : a.ndim = 2) (ho : ord ≠ .fro) :
    normX a (some ord) none keep = normX a (some ord) (some [0, 1]) keep := by
  simp [normX, hnd, ho, List.range]
  rfl

/-- what "greatest" / "least" mean for the lists above: `maxL` / `minL` of a non-empty list is an element of it that
bounds all the others -/
theorem norm_matrix_extreme (l : List Rat) (hne : l ≠ []) :
    (maxL l ∈ l ∧ ∀ x ∈ l, x ≤ maxL l) ∧ (minL l ∈ l ∧ ∀ x ∈ l, minL l ≤ x) :=
  ⟨maxL_spec l hne, minL_spec l hne⟩

/-! ### refusals of `normX` (error values, never a norm of something else) -/

/-- `fro` and `nuc` are refused by the one-axis arm, whatever the array and the axis -/
theorem norm_vector_fro_nuc_refused (a : Arr Rat) (ax : Int) (keep : Bool) :
    normX a (some .fro) (some [ax]) keep = .err .ParameterError ∧
    normX a (some .nuc) (some [ax]) keep = .err .ParameterError := by
  constructor <;> simp [normX, normVecX]

/-- the two-axis arm implements the orders `1`, `-1`, `inf`, `-inf` only: `fro`, `nuc`, `2`, `-2` and every other integer
order are refused (no SVD and no Frobenius norm over two explicit axes; numpy computes those) — also when no order is
given (`None` means `fro` there) -/
theorem norm_matrix_order_refused (a : Arr Rat) (ord : Option Ord) (ax0 ax1 : Int) (keep : Bool)
    (ho : ord = none ∨ ord = some .fro ∨ ord = some .nuc ∨ ∃ v : Int, ord = some (.int v) ∧ v ≠ 1 ∧ v ≠ -1) :
    ∃ e, normX a ord (some [ax0, ax1]) keep = .err e := by
  have hm : normMatX a (ord.getD .fro) (normAxis a.ndim ax0) (normAxis a.ndim ax1) = .err .ParameterError := by
    rcases ho with h | h | h | ⟨v, h, h1, h2⟩ <;> subst h <;> simp [normMatX, *]
  unfold normX
  simp only [Option.getD_some, hm]
  by_cases hd : normAxis a.ndim ax0 = normAxis a.ndim ax1
  · exact ⟨.ParameterError, by simp [hd]⟩
  · by_cases hr : normAxis a.ndim ax0 < 0 ∨ normAxis a.ndim ax0 ≥ a.ndim
    · exact ⟨.AxisOutOfBounds, by simp [hd, hr]⟩
    · by_cases hc : normAxis a.ndim ax1 < 0 ∨ normAxis a.ndim ax1 ≥ a.ndim
      · exact ⟨.AxisOutOfBounds, by simp [hd, hr, hc]⟩
      · cases keep <;> exact ⟨.ParameterError, by simp [hd, hr, hc, bind, Res.bind, Res.map]⟩

/-- the same axis twice is refused; so is an axis outside the rank (mirror of `norm_two_axes_out_of_range` for `normX`) -/
theorem norm_two_axes_refused (a : Arr Rat) (ord : Option Ord) (ax0 ax1 : Int) (keep : Bool)
    (h : normAxis a.ndim ax0 = normAxis a.ndim ax1 ∨ normAxis a.ndim ax0 < 0 ∨ normAxis a.ndim ax0 ≥ a.ndim ∨
      normAxis a.ndim ax1 < 0 ∨ normAxis a.ndim ax1 ≥ a.ndim) :
    normX a ord (some [ax0, ax1]) keep = .err .ParameterError ∨
    normX a ord (some [ax0, ax1]) keep = .err .AxisOutOfBounds := by
  unfold normX
  by_cases heq : normAxis a.ndim ax0 = normAxis a.ndim ax1
  · left; simp [heq]
  · right
    by_cases h0 : normAxis a.ndim ax0 < 0 ∨ normAxis a.ndim ax0 ≥ a.ndim
    · simp [heq, h0]
    · have h1 : normAxis a.ndim ax1 < 0 ∨ normAxis a.ndim ax1 ≥ a.ndim := by omega
      simp [heq, h0, h1]

/-- no axis, three or more axes, or — without an axis argument — an order on an array of rank 0 or ≥ 3:
"improper number of dimensions" -/
theorem norm_axes_count_refused (a : Arr Rat) (ord : Option Ord) (keep : Bool) :
    normX a ord (some []) keep = .err .ParameterError ∧
    (∀ x y z rest, normX a ord (some (x :: y :: z :: rest)) keep = .err .ParameterError) ∧
    (∀ o, a.ndim = 0 ∨ a.ndim ≥ 3 → normX a (some o) none keep = .err .ParameterError) := by
  refine ⟨by simp [normX], fun x y z rest => by simp [normX], ?_⟩
  intro o h
  have h1 : a.ndim ≠ 2 := by omega
  have h2 : a.ndim ≠ 1 := by omega
  unfold normX
  simp only [h1, h2, false_and, or_self, decide_false, Option.getD_none]
  rcases h with h | h
  · simp [h]
  · obtain ⟨k, hk⟩ : ∃ k, a.ndim = k + 3 := ⟨a.ndim - 3, by omega⟩
    simp [hk, List.range_succ_eq_map]

/-- an axis outside the rank is refused by the one-axis arm (orders `inf`, `-inf`, `0`, `1`: by `axis_in_bounds` of the
reduction; the other orders may already have been refused by `is_broadcastable`) -/
theorem norm_axis_out_of_range (a : Arr Rat) (ax : Int) (keep : Bool) (h : normalizeAxis a.ndim ax ≥ a.ndim) :
    normX a (some .inf) (some [ax]) keep = .err .AxisOutOfBounds ∧
    normX a (some .negInf) (some [ax]) keep = .err .AxisOutOfBounds ∧
    normX a (some (.int 0)) (some [ax]) keep = .err .AxisOutOfBounds ∧
    normX a (some (.int 1)) (some [ax]) keep = .err .AxisOutOfBounds := by
  have hr : ∀ (f : Rat → Rat) (body : Arr Rat → Res (Arr Rat)),
      (mapArr f a).reduceAxis 0 0 (some ax) body = .err .AxisOutOfBounds := fun f body =>
    (C08.axis_out_of_range (mapArr f a) 0 0 ax h body none (fun x _ => body x)).1
  simp only [normX_one_axis, normVecX, maxAx, minAx, sumAx, hr, Res.map, if_true,
    show ((1 : Int) = 0) = False from by decide, if_false, and_self]

/-! ### arrays without elements -/

/-- **no element**: the default / Frobenius / two-norm forms are refused (`dot`, `multiply`, `float_power` go through
`is_broadcastable`, which rejects a zero-length axis), and so is every one-axis order ≥ 2 or < 0; `inf` / `-inf` along the
only axis of an empty vector are refused by `max` / `min` ("cannot be empty"), while the orders `0` and `1` SUM the empty
lane and answer `0` with shape `[1]` -/
theorem norm_empty (a : Arr Rat) (hwf : a.WF) (h0 : 0 ∈ a.shape) (keep : Bool) :
    normX a none none keep = .err .BroadcastShapeMismatch ∧
    (a.ndim = 2 → normX a (some .fro) none keep = .err .BroadcastShapeMismatch) ∧
    (∀ ax v, v ≠ 0 → v ≠ 1 → normX a (some (.int v)) (some [ax]) keep = .err .BroadcastShapeMismatch) ∧
    (a.shape = [0] → normX a (some .inf) (some [0]) keep = .err .ParameterError ∧
      normX a (some .negInf) (some [0]) keep = .err .ParameterError ∧
      normX a (some (.int 1)) (some [0]) keep = .ok ⟨[.rat 0], [1]⟩ ∧
      normX a (some (.int 0)) (some [0]) keep = .ok ⟨[.rat 0], [1]⟩) := by
  have he : a.elems = [] := elems_nil_of_zero_mem a hwf h0
  have hg : bcastGuard a = .err .BroadcastShapeMismatch := by simp [bcastGuard, h0]
  refine ⟨?_, ?_, ?_, ?_⟩
  · simp [normX, normSimpleX, he]
  · intro h; simp [normX, normSimpleX, he, h]
  · intro ax v hv0 hv1
    rw [normX_one_axis]
    by_cases hv2 : v = 2
    · subst hv2; simp [normVecX, hg, bind, Res.bind]
    · simp [normVecX, hv0, hv1, hv2, hg, bind, Res.bind]
  · intro hs
    obtain ⟨el, sh⟩ := a
    simp only at hs he; subst hs; subst he
    refine ⟨?_, ?_, ?_, ?_⟩ <;> rw [normX_one_axis] <;> decide +kernel

/-! ### solve with a 0-dimensional right-hand side -/

/-- **a 0-dimensional right-hand side**: for a square matrix (`n ≥ 2`) the read `other.get_shape()[0]` is an index into an
empty shape — the call PANICS (before the singularity test; whatever the matrix); when the receiver is not a matrix or not
square the validation error comes first.  (That it is a panic and not an error value is a defect with respect to C09, not
C15; the tie compares the outcome class.) -/
theorem solve_zero_dim_rhs (a b : Arr Rat) (hb : b.shape = []) :
    (∀ n, 2 ≤ n → a.shape = [n, n] → solveArr a b = .panic) ∧
    (a.ndim ≠ 2 → solveArr a b = .err .UnsupportedDimension) := by
  constructor
  · intro n hn ha
    have h2 : ¬ (n < 2) := by omega
    simp [solveArr, Arr.ndim, ha, hb, isSquare2, h2, Res.idx, bind, Res.bind]
  · intro h
    simp [solveArr, h]

/-! ### the general integer orders of the one-axis arm (`abs().float_power(p).sum(axis).float_power(1/p)`) -/

/-- **order `p ≥ 3` along an axis**: the `p`-th root (symbolic) of `Σ |x|^p` over the lane -/
theorem norm_axis_p (a : Arr Rat) (ax : Int) (keep : Bool) (p : Nat) (hp : 3 ≤ p) (hwf : a.WF) (hnz : 0 ∉ a.shape)
    (hax : normalizeAxis a.ndim ax < a.ndim) :
    ∃ r, normX a (some (.int p)) (some [ax]) keep = .ok r ∧
      r.shape = (if a.ndim > 1 then a.shape.eraseIdx (normalizeAxis a.ndim ax) else [1]) ∧ r.WF ∧
      ∀ c, inRange (a.shape.eraseIdx (normalizeAxis a.ndim ax)) c = true →
        r.get? (if a.ndim > 1 then c else [0]) =
          some (.root p (((laneOf a (normalizeAxis a.ndim ax) (c.insertIdx (normalizeAxis a.ndim ax) 0)).map fun x => |x| ^ p).sum)) := by
  obtain ⟨r, h1, h2, h3, h4⟩ := pow_arm_spec a ax (p : Int) (by omega) (by omega) (by omega) hwf hnz hax
  refine ⟨r, by rw [normX_one_axis]; exact h1, h2, h3, ?_⟩
  intro c hc
  rw [h4 c hc, sumE_pow_pos (p : Int) (by omega)]
  simp [rootE]

/-- **negative order `-p` along an axis** (`p ≥ 1`): `0` when the lane holds a zero (`0^(-p) = +inf`, `inf^(-1/p) = 0` in the
IEEE arithmetic of the code), otherwise `(Σ |x|^(-p))^(-1/p) = (1 / Σ 1/|x|^p)^(1/p)` — an exact rational for `p = 1`
(the harmonic-type sum), a symbolic `p`-th root otherwise -/
theorem norm_axis_negative (a : Arr Rat) (ax : Int) (keep : Bool) (p : Nat) (hp : 1 ≤ p) (hwf : a.WF) (hnz : 0 ∉ a.shape)
    (hax : normalizeAxis a.ndim ax < a.ndim) :
    ∃ r, normX a (some (.int (-(p : Int)))) (some [ax]) keep = .ok r ∧
      r.shape = (if a.ndim > 1 then a.shape.eraseIdx (normalizeAxis a.ndim ax) else [1]) ∧ r.WF ∧
      ∀ c, inRange (a.shape.eraseIdx (normalizeAxis a.ndim ax)) c = true →
        r.get? (if a.ndim > 1 then c else [0]) =
          some (if (0 : Rat) ∈ laneOf a (normalizeAxis a.ndim ax) (c.insertIdx (normalizeAxis a.ndim ax) 0) then .rat 0
            else if p = 1 then
              .rat (1 / ((laneOf a (normalizeAxis a.ndim ax) (c.insertIdx (normalizeAxis a.ndim ax) 0)).map fun x => 1 / |x| ^ p).sum)
            else
              .root p (1 / ((laneOf a (normalizeAxis a.ndim ax) (c.insertIdx (normalizeAxis a.ndim ax) 0)).map fun x => 1 / |x| ^ p).sum)) := by
  obtain ⟨r, h1, h2, h3, h4⟩ := pow_arm_spec a ax (-(p : Int)) (by omega) (by omega) (by omega) hwf hnz hax
  refine ⟨r, by rw [normX_one_axis]; exact h1, h2, h3, ?_⟩
  intro c hc
  have hneg : (-(p : Int)) < 0 := by omega
  have hna : (-(p : Int)).natAbs = p := by omega
  rw [h4 c hc, sumE_pow_neg _ hneg, hna]
  congr 1
  split
  · rfl
  · have h1' : ((-(p : Int)) = -1) = (p = 1) := by apply propext; omega
    simp only [rootE, hneg, if_true, hna, h1']

/-! ### non-vacuity of the extension and what `normX` computes on concrete inputs -/

-- the hypotheses of the lane theorems hold for a `[2,3]` matrix and both spellings of its last axis
example : (⟨[1, -2, 3, -4, 5, -6], [2, 3]⟩ : Arr Rat).WF ∧ 0 ∉ ([2, 3] : List Nat) ∧
    normalizeAxis 2 (-1) < 2 ∧ normalizeAxis 2 (-1) = 1 ∧ normAxis 2 (-2) = 0 ∧ normAxis 2 (-1) = 1 := by decide
example : normX ⟨[1, -2, 3, -4, 5, -6], [2, 3]⟩ (some (.int 1)) (some [0]) false = .ok ⟨[.rat 5, .rat 7, .rat 9], [3]⟩ := by
  decide +kernel
example : normX ⟨[1, -2, 3, -4, 5, -6], [2, 3]⟩ (some .inf) (some [-1]) true = .ok ⟨[.rat 3, .rat 6], [2]⟩ := by decide +kernel
example : normX ⟨[1, -2, 3, -4, 5, -6], [2, 3]⟩ none (some [1]) false = .ok ⟨[.root 2 14, .root 2 77], [2]⟩ := by decide +kernel
example : normX ⟨[1, -2, 0, -4, 5, 0], [2, 3]⟩ (some (.int 0)) (some [0]) false = .ok ⟨[.rat 2, .rat 2, .rat 0], [3]⟩ := by
  decide +kernel
-- matrix norms: max column sum 9, max row sum 15; `keepdims` appends one unit axis
example : colAbsSums ⟨[1, -2, 3, -4, 5, -6], [2, 3]⟩ 2 3 = [5, 7, 9] ∧ rowAbsSums ⟨[1, -2, 3, -4, 5, -6], [2, 3]⟩ 2 3 = [6, 15] := by
  decide +kernel
example : normX ⟨[1, -2, 3, -4, 5, -6], [2, 3]⟩ (some (.int 1)) (some [0, 1]) true = .ok ⟨[.rat 9], [1, 1]⟩ := by decide +kernel
example : normX ⟨[1, -2, 3, -4, 5, -6], [2, 3]⟩ (some .inf) (some [-2, -1]) false = .ok ⟨[.rat 15], [1]⟩ := by decide +kernel
example : normX ⟨[1, -2, 3, -4, 5, -6], [2, 3]⟩ (some .negInf) none false = .ok ⟨[.rat 6], [1]⟩ := by decide +kernel
-- a stack: the sign trick on the second axis makes `(1, 2)` of a rank-3 array reduce the STACK axis second
-- (numpy: [6, 15], the 1-norm of each matrix; see fixes/C15-norm-keepdims-and-stack-axes.md)
example : normX ⟨[1, 2, 3, 4, 5, 6, 7, 9], [2, 2, 2]⟩ (some (.int 1)) (some [1, 2]) false = .ok ⟨[.rat 12, .rat 15], [2]⟩ := by
  decide +kernel
-- negative orders
example : normX ⟨[1, -2, 2], [3]⟩ (some (.int (-1))) none false = .ok ⟨[.rat (1 / 2)], [1]⟩ := by decide +kernel
example : normX ⟨[1, -2, 2], [3]⟩ (some (.int (-2))) (some [0]) false = .ok ⟨[.root 2 (2 / 3)], [1]⟩ := by decide +kernel
example : normX ⟨[1, -2, 0, 4], [2, 2]⟩ (some (.int (-2))) (some [1]) false = .ok ⟨[.root 2 (4 / 5), .rat 0], [2]⟩ := by
  decide +kernel
-- arrays without elements, 0-dimensional operands
example : normX ⟨[], [1, 0]⟩ (some (.int 1)) (some [1]) false = .ok ⟨[.rat 0], [1]⟩ := by decide +kernel
example : normX ⟨[], [2, 0]⟩ (some (.int 1)) (some [1]) false = .err .ShapeMustMatchValuesLength := by decide +kernel
example : normX ⟨[], [2, 0]⟩ (some (.int 1)) (some [0]) false = .err .ParameterError := by decide +kernel
example : normX ⟨[], [1, 0]⟩ (some .inf) (some [0, 1]) true = .ok ⟨[.rat 0], [1, 1]⟩ := by decide +kernel
example : normX ⟨[5], []⟩ (some (.int 3)) (some [0]) false = .ok ⟨[.root 3 125], [1]⟩ := by decide +kernel
example : normX ⟨[5], []⟩ (some (.int 2)) (some [0]) false = .err .AxisOutOfBounds := by decide +kernel
example : solveArr ⟨[1, 2, 3, 4], [2, 2]⟩ ⟨[5], []⟩ = .panic := by decide +kernel
example : solveArr ⟨[1, 2, 3, 4, 5, 6], [2, 3]⟩ ⟨[5], []⟩ = .err .MustBeEqual := by decide +kernel

end ArrModel.C15
