import ArrModel.AlongAxis
import ArrModel.Broadcast
/-!
# ArrModel.C13 — `delete`, flat `insert`, flat `append`, `repeat`, `trim_zeros`

Mirrors `manipulate.rs:238-341, 382-393` and `tiling.rs` (after the `fix:` commits recorded in known_findings.json).
-/
namespace ArrModel

/-- `sort_unstable(); dedup(); reverse()` on indices -/
def dedupSorted : List Nat → List Nat
  | a :: b :: r => if a = b then dedupSorted (b :: r) else a :: dedupSorted (b :: r)
  | l => l

def deleteOrder (indices : List Nat) : List Nat := (dedupSorted (sortNat indices)).reverse

/-- stable sort of (index, value) pairs by index (`sorted_by(|(a,_),(b,_)| a.cmp(b))`) -/
def sortByIdx {α} (l : List (Nat × α)) : List (Nat × α) := l.mergeSort (fun p q => decide (p.1 ≤ q.1))

namespace Arr
variable {α : Type}

/-- `delete(indices, None)` on the flat elements -/
def deleteFlat (a : Arr α) (indices : List Nat) : Res (Arr α) :=
  let idx := deleteOrder indices
  if idx.any (fun i => decide (i ≥ a.elems.length)) then .err .OutOfBounds
  else .ok (Arr.flat (idx.foldl (fun es i => es.eraseIdx i) a.elems))

/-- `delete(indices, axis)` -/
def delete (a : Arr α) (zero : α) (indices : List Nat) (axis : Option Nat) : Res (Arr α) :=
  match axis with
  | some ax => a.applyAlongAxis zero zero ax (fun lane => lane.deleteFlat indices)
  | none => a.deleteFlat indices

/-- `insert(indices, values, None)`: positions refer to the flattened OLD array -/
def insertFlat (a : Arr α) (indices : List Nat) (values : Arr α) : Res (Arr α) :=
  if indices.any (fun i => decide (i > a.elems.length)) then .err .OutOfBounds
  else if !(decide (1 ≤ values.ndim) && decide (values.ndim ≤ a.ndim)) then .err .UnsupportedDimension
  else if values.ndim ≠ 1 then .err .UnsupportedDimension
  else
    (Arr.flat indices).broadcastH2 0 values.ravel >>= fun iv =>
    let pairs := (sortByIdx (iv.1.elems.zip iv.2.elems)).reverse
    (pairs.foldl (fun (acc : Res (List α)) p => acc >>= fun es => vecInsert es p.1 p.2) (.ok a.elems)) >>= fun es =>
    .ok (Arr.flat es)

/-- `append(values, None)` -/
def appendFlat (a values : Arr α) : Arr α := Arr.flat (a.elems ++ values.elems)

/-- `repeat(repeats, None)`: one count per element of the flattened array (counts broadcast to the array's shape) -/
def repeatFlat (a : Arr α) (repeats : List Nat) : Res (Arr α) :=
  (Arr.flat repeats).broadcastTo a.shape >>= fun reps =>
  .ok (Arr.flat ((a.elems.zip reps.elems).flatMap (fun p => List.replicate p.2 p.1)))

/-- `repeat(repeats, Some(axis))`: per-index counts along the axis -/
def repeatAxis (a : Arr α) (zero : α) (repeats : List Nat) (axis : Nat) : Res (Arr α) :=
  if axis ≥ a.ndim then .err .AxisOutOfBounds else
  (Res.idx a.shape axis) >>= fun n =>
  (Arr.flat repeats).broadcastTo [n] >>= fun reps =>
  let newAxisLen := reps.elems.sum
  let newShape := a.shape.set axis newAxisLen
  -- `new_shape.clone().swap_ext(0, axis)`
  let tmpShape := (newShape.set 0 newAxisLen).set axis (newShape.getD 0 0)
  a.split zero n (some axis) >>= fun pieces =>
  let partialElems := ((pieces.zip reps.elems).flatMap (fun p => List.replicate p.2 p.1)).flatMap (·.elems)
  (Arr.flat partialElems).reshape tmpShape >>= fun t =>
  t.moveaxis zero [0] [Int.ofNat axis] >>= fun m =>
  m.reshape newShape

/-- `trim_zeros` (1-D only) -/
def trimZeros [DecidableEq α] (a : Arr α) (zero : α) : Res (Arr α) :=
  if a.ndim ≠ 1 then .err .UnsupportedDimension
  else .ok (Arr.flat (((a.elems.reverse.dropWhile (· = zero)).reverse).dropWhile (· = zero)))

end Arr
end ArrModel
