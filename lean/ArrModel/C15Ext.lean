import ArrModel.C15
import ArrModel.C08
/-!
# ArrModel.C15Ext — `norm` branch for branch on top of the shared model of the axis reductions

`ArrModel/C15.lean` writes the reductions of `norm` as lane reductions (`C15.reduceAxis`, an abstraction that is only
justified by the tie, and that answers `0` on lanes without elements).  Here the same dispatch of
`src/linalg/operations/norms.rs:57-146` is written over the SHARED branch-faithful model of
`sum(Some(axis))` / `max(Some(axis))` / `min(Some(axis))` (`math/operations/sum_prod_diff.rs:229-237`,
`extrema.rs:236-303`): `Arr.reduceAxis` of `ArrModel/C08.lean` = `normalize_axis`, `apply_along_axis` (`ArrModel/AlongAxis.lean`:
`axis_in_bounds`, move the axis last, ravel, `split`, 1-D body per lane, flatten, reshape, move back) and
`reshape(shape.remove_at_if(axis, ndim > 1))`, with the three 1-D bodies below.  That model is the one the C08 theorems are
about (`reduce_spec`, `reduce_empty_axis`, …), so they apply to every arm of `normX`.

Additional arms with respect to `normArr`:
* **negative vector orders** `Int(p)`, `p < 0`: `abs().float_power(p).sum(axis).float_power(1/p)` in IEEE arithmetic is
  `0^p = +inf`, `inf + x = inf`, `inf^(1/p) = 0`; modelled with `ERat` (a rational or `+inf`).  The result for a lane
  without a zero is `(Σ |x|^p)^(1/p) = (1 / Σ |x|^p)^(1/|p|)`: exact for `p = -1`, a symbolic root otherwise;
* **arrays without elements**: `multiply`, `float_power` and `dot` (`vdot` → `zip` → `broadcast_to`) go through
  `is_broadcastable`, which refuses every zero-length axis (`validators/shape.rs:18-26`); the reductions behave as the C08
  model says (`max`/`min` of an empty lane: `ParameterError "cannot be empty"`; `sum` of the single empty lane: `0`;
  another axis empty: `split(0)` refuses);
* **0-dimensional receiver** in the general `Int(p)` arm: `float_power(&single(p))` broadcasts `[]` with `[1]` to `[1]`,
  so `norm(Int(3), Some([0]))` of a 0-d array is accepted (all the other one-axis orders refuse axis `0` of a 0-d array).

`keepdims`: ignored by the one-axis arm; the two-axis arm appends ONE trailing `1` to the shape of the result;
`norm_simple` reshapes to `[ndim]`, which only fits when `ndim = 1`.  (numpy keeps every reduced axis with length 1 in
place: see `fixes/C15-norm-keepdims-and-stack-axes.md`.)
-/
namespace ArrModel.C15
open ArrModel

/-! ## 1-D bodies (`op(None)`) -/

/-- `sum(None)`: `Self::single(fold(zero, +))` -/
def sumBody (a : Arr Rat) : Res (Arr Rat) := .ok (Arr.single (sumL a.elems))

/-- `max(None)`: empty → `ParameterError`; otherwise `fold(self[0], |a, b| if a < b { b } else { a })` (no NaN in `Rat`) -/
def maxBody (a : Arr Rat) : Res (Arr Rat) :=
  if a.elems.length = 0 then .err .ParameterError else .ok (Arr.single (maxL a.elems))

/-- `min(None)` -/
def minBody (a : Arr Rat) : Res (Arr Rat) :=
  if a.elems.length = 0 then .err .ParameterError else .ok (Arr.single (minL a.elems))

/-- `sum(Some(axis))`, `max(Some(axis))`, `min(Some(axis))` -/
def sumAx (a : Arr Rat) (axis : Int) : Res (Arr Rat) := a.reduceAxis 0 0 (some axis) sumBody
def maxAx (a : Arr Rat) (axis : Int) : Res (Arr Rat) := a.reduceAxis 0 0 (some axis) maxBody
def minAx (a : Arr Rat) (axis : Int) : Res (Arr Rat) := a.reduceAxis 0 0 (some axis) minBody

/-! ## values of `float_power` with a possibly negative exponent -/

/-- a non-negative rational or `+inf` -/
inductive ERat
  | fin (q : Rat)
  | inf
  deriving DecidableEq, Repr

def ERat.add : ERat → ERat → ERat
  | .fin a, .fin b => .fin (a + b)
  | _, _ => .inf

def sumE (l : List ERat) : ERat := l.foldl ERat.add (.fin 0)

def sumBodyE (a : Arr ERat) : Res (Arr ERat) := .ok (Arr.single (sumE a.elems))

/-- `|x|.powf(p)` for an integer `p ≠ 0`: `|x|^p`, `1 / |x|^(-p)`, and `+inf` for `0^negative` -/
def powE (p : Int) (x : Rat) : ERat :=
  if p < 0 then (if x = 0 then .inf else .fin (1 / ratPow (absR x) p.natAbs))
  else .fin (ratPow (absR x) p.natAbs)

/-- `s.powf(1/p)` of a lane sum: `p > 0`: the `p`-th root; `p < 0`: `inf ↦ 0`, `q ↦ (1/q)^(1/|p|)` (exact when `p = -1`).
(`p > 0` with `inf`, and `p < 0` with `q = 0`, do not occur: a lane sum of finite powers is finite, and a lane of an array
that passed `is_broadcastable` has an element, whose negative power is positive.) -/
def rootE (p : Int) : ERat → Sym
  | .inf => .rat 0
  | .fin q =>
    if p < 0 then (if p = -1 then .rat (1 / q) else .root p.natAbs (1 / q))
    else .root p.natAbs q

/-- `is_broadcastable` on the way into `multiply(self)`, `float_power(&single)`, `vdot`: a zero-length axis is refused -/
def bcastGuard (a : Arr Rat) : Res Unit :=
  if 0 ∈ a.shape then .err .BroadcastShapeMismatch else .ok ()

/-- `abs().float_power(&single(p))`: elementwise power; a 0-dimensional receiver comes back with shape `[1]` -/
def powArr (p : Int) (a : Arr Rat) : Arr ERat :=
  ⟨a.elems.map (powE p), if a.shape = [] then [1] else a.shape⟩

/-! ## norm -/

/-- `norm_simple`: `ravel().dot(ravel()).sqrt()`, then `reshape(&[ndim])` under `keepdims` -/
def normSimpleX (a : Arr Rat) (keepdims : Bool) : Res (Arr Sym) :=
  -- `dot`: one element → `multiply`; otherwise `vdot` → `zip` → `broadcast_to`: no element → refused
  if a.elems.length = 0 then .err .BroadcastShapeMismatch else normSimple a keepdims

/-- the one-axis arm (`keepdims` is not looked at) -/
def normVecX (a : Arr Rat) (ord : Ord) (ax : Int) : Res (Arr Sym) :=
  match ord with
  | .inf => (maxAx (mapArr absR a) ax).map symArr
  | .negInf => (minAx (mapArr absR a) ax).map symArr
  | .int v =>
    if v = 0 then (sumAx (mapArr (fun x => if x = 0 then 0 else 1) a) ax).map symArr
    else if v = 1 then (sumAx (mapArr absR a) ax).map symArr
    else if v = 2 then do
      bcastGuard a
      (sumAx (mapArr (fun x => absR (x * x)) a) ax).map (rootArr 2)
    else do
      bcastGuard a
      let s ← (powArr v a).reduceAxis (.fin 0) (.fin 0) (some ax) sumBodyE
      .ok ⟨s.elems.map (rootE v), s.shape⟩
  | .fro => .err .ParameterError
  | .nuc => .err .ParameterError

/-- the two-axis arm before `keepdims` -/
def normMatX (a : Arr Rat) (ord : Ord) (row col : Int) : Res (Arr Rat) :=
  match ord with
  | .int v =>
    if v = 1 then do
      let col' := if col > row then -col else col
      let s ← sumAx (mapArr absR a) row
      maxAx s col'
    else if v = -1 then do
      let col' := if col > row then -col else col
      let s ← sumAx (mapArr absR a) row
      minAx s col'
    else .err .ParameterError
  | .inf => do
    let row' := if row > col then -row else row
    let s ← sumAx (mapArr absR a) col
    maxAx s row'
  | .negInf => do
    let row' := if row > col then -row else row
    let s ← sumAx (mapArr absR a) col
    minAx s row'
  | _ => .err .ParameterError

/-- `Array::norm(ord, axis, keepdims)` -/
def normX (a : Arr Rat) (ord : Option Ord) (axis : Option (List Int)) (keepdims : Bool) : Res (Arr Sym) :=
  let ndim := a.ndim
  let simple : Bool := match axis, ord with
    | none, none => true
    | none, some o => (ndim = 2 ∧ o = .fro) ∨ (ndim = 1 ∧ o = .int 2)
    | some _, _ => false
  if simple then normSimpleX a keepdims else
  let axes : List Int := axis.getD ((List.range ndim).map Int.ofNat)
  match axes with
  | [ax] => normVecX a (ord.getD (.int 2)) ax
  | [ax0, ax1] =>
    let row := normAxis ndim ax0
    let col := normAxis ndim ax1
    if row = col then .err .ParameterError else
    if row < 0 ∨ row ≥ ndim then .err .AxisOutOfBounds else
    if col < 0 ∨ col ≥ ndim then .err .AxisOutOfBounds else
    let result := normMatX a (ord.getD .fro) row col
    if keepdims then do
      let r ← result
      -- `new_shape.push(1); result.reshape(&new_shape)`: the element count is unchanged
      .ok (symArr ⟨r.elems, r.shape ++ [1]⟩)
    else result.map symArr
  | _ => .err .ParameterError

/-- does `normArr` (the lane-reduction form of `ArrModel/C15.lean`) model this call?  It does not for arrays with a
zero-length axis, for 0-dimensional receivers and for negative orders in the one-axis arm. -/
def normArrCovers (a : Arr Rat) (ord : Option Ord) (axis : Option (List Int)) : Bool :=
  let oneAxis := match axis with | some ax => ax.length == 1 | none => a.shape.length == 1
  let negInt := match ord with | some (.int v) => decide (v < 0) | _ => false
  !(a.shape.contains 0) && a.shape.length != 0 && !(oneAxis && negInt)

/-! ## lane form of the negative vector orders (used by the driver above `normXLimit` elements, cross-checked below it) -/

/-- `(Σ |x|^(-p))^(-1/p)` to the power `p` for one lane: `0` when the lane holds a zero, else `1 / Σ 1/|x|^p` -/
def negLaneVal (p : Nat) (lane : List Rat) : Rat :=
  if lane.any (fun x => x == 0) then 0 else 1 / sumL (lane.map fun x => 1 / ratPow (absR x) p)

/-- the one-axis arm for `Int(v)`, `v < 0`, written with the lane reduction of `ArrModel/C15.lean`
(non-empty arrays of rank ≥ 1 only: see `normLaneCovers`) -/
def normNegLane (a : Arr Rat) (v : Int) (ax : Int) : Res (Arr Sym) :=
  (reduceAxis (negLaneVal v.natAbs) a ax).map fun r =>
    ⟨r.elems.map (fun q => if q = 0 then Sym.rat 0 else if v = -1 then Sym.rat q else Sym.root v.natAbs q), r.shape⟩

/-- the lane-form answer where one exists: `normArr`, or `normNegLane` for a negative order in the one-axis arm -/
def normLane (a : Arr Rat) (ord : Option Ord) (axis : Option (List Int)) (keepdims : Bool) : Option (Res (Arr Sym)) :=
  if normArrCovers a ord axis then some (normArr a ord axis keepdims)
  else if a.shape.contains 0 || a.shape.length == 0 then none
  else match ord, axis with
    | some (.int v), some [ax] => if v < 0 then some (normNegLane a v ax) else none
    | some (.int v), none => if v < 0 ∧ a.shape.length = 1 then some (normNegLane a v 0) else none
    | _, _ => none

end ArrModel.C15
