import ArrModel.Gen.Tables
import ArrModel.Basic
/-!
# ArrModel.C09 — option parsers defined FROM the regenerated tables, `Result`-receiver lifting, error names

* `Err.nameChars` — the model's error variants as `List Char` (tied to `Tables.errorVariants` by a theorem).
* `lookup` / `parseWith` — the five option parsers (`parse_kind`, `parse_op`, `to_bit_order`, `parse_ord`, `to_mode`)
  are ONE generic function instantiated with the spelling rows `tools/gen_tables.py` reads from the Rust `match` arms.
  `str::to_lowercase` is a parameter `lc` (the theorems hold for every lower-casing function; the driver uses ASCII).
* `parseI32` — `i32::from_str` (optional sign, at least one ASCII digit, value in range), the `NormOrd::Int` fall-back.
* `liftR` / `liftRM` — `impl Trait for Result<Array<T>, ArrayError> { fn m(&self, args…) { self.clone()?.m(args…) } }`.
-/
namespace ArrModel

def Err.nameChars : Err → List Char
  | .BroadcastShapeMismatch => ['B','r','o','a','d','c','a','s','t','S','h','a','p','e','M','i','s','m','a','t','c','h']
  | .ConcatenateShapeMismatch => ['C','o','n','c','a','t','e','n','a','t','e','S','h','a','p','e','M','i','s','m','a','t','c','h']
  | .ShapeMustMatchValuesLength => ['S','h','a','p','e','M','u','s','t','M','a','t','c','h','V','a','l','u','e','s','L','e','n','g','t','h']
  | .ShapesMustMatch => ['S','h','a','p','e','s','M','u','s','t','M','a','t','c','h']
  | .SqueezeShapeOfAxisMustBeOne => ['S','q','u','e','e','z','e','S','h','a','p','e','O','f','A','x','i','s','M','u','s','t','B','e','O','n','e']
  | .AxisOutOfBounds => ['A','x','i','s','O','u','t','O','f','B','o','u','n','d','s']
  | .OutOfBounds => ['O','u','t','O','f','B','o','u','n','d','s']
  | .ParameterError => ['P','a','r','a','m','e','t','e','r','E','r','r','o','r']
  | .UnsupportedDimension => ['U','n','s','u','p','p','o','r','t','e','d','D','i','m','e','n','s','i','o','n']
  | .MustBeUnique => ['M','u','s','t','B','e','U','n','i','q','u','e']
  | .MustBeEqual => ['M','u','s','t','B','e','E','q','u','a','l']
  | .MustBeAtLeast => ['M','u','s','t','B','e','A','t','L','e','a','s','t']
  | .MustBeOneOf => ['M','u','s','t','B','e','O','n','e','O','f']
  | .NotImplemented => ['N','o','t','I','m','p','l','e','m','e','n','t','e','d']
  | .SingularMatrix => ['S','i','n','g','u','l','a','r','M','a','t','r','i','x']

/-- the variant a regenerated name denotes -/
def Err.ofChars? (s : List Char) : Option Err := Err.all.find? (fun e => e.nameChars == s)

namespace C09
open ArrModel.Gen.Tables

/-- first row whose spelling equals `s` (a Rust `match` on string literals: first matching arm) -/
def lookup : List (List Char × Nat) → List Char → Option Nat
  | [], _ => none
  | (k, v) :: rest, s => if s = k then some v else lookup rest s

def digitVal? (c : Char) : Option Nat :=
  if '0'.toNat ≤ c.toNat ∧ c.toNat ≤ '9'.toNat then some (c.toNat - '0'.toNat) else none

/-- all characters ASCII digits: the value; `none` otherwise (the empty list gives 0 and is excluded by the callers) -/
def parseDigits : List Char → Option Nat
  | s => s.foldl (fun acc c => match acc, digitVal? c with | some a, some d => some (a * 10 + d) | _, _ => none) (some 0)

/-- `i32::from_str`: `[+-]?[0-9]+` within `i32::MIN ..= i32::MAX` -/
def parseI32 : List Char → Option Int
  | [] => none
  | '-' :: r => if r.isEmpty then none else
      match parseDigits r with
      | some n => if n ≤ 2147483648 then some (-(n : Int)) else none
      | none => none
  | '+' :: r => if r.isEmpty then none else
      match parseDigits r with
      | some n => if n ≤ 2147483647 then some (n : Int) else none
      | none => none
  | s =>
      match parseDigits s with
      | some n => if n ≤ 2147483647 then some (n : Int) else none
      | none => none

/-- what an option parser returns: a payload-free constructor, or the `i32` constructor with its value -/
inductive Parsed
  | ctor (i : Nat)
  | int (i : Nat) (v : Int)
  deriving DecidableEq, Repr

/-- the error value of the `_` arm (a variant name the model does not know would be a panic of the *model*;
`C09.fall_known` proves this never happens for the regenerated tables) -/
def errOf {β} (fall : List Char) : Res β :=
  match Err.ofChars? fall with
  | some e => .err e
  | none => .panic

/-- one option parser: optional lower-casing, table lookup, optional `i32::from_str(value)` fall-back on the
ORIGINAL text, else the error of the `_` arm -/
def parseWith (lc : List Char → List Char) (rows : List (List Char × Nat)) (lower : Bool) (intFb : Option Nat)
    (fall : List Char) (s : List Char) : Res Parsed :=
  match lookup rows (if lower then lc s else s) with
  | some i => .ok (.ctor i)
  | none =>
    match intFb with
    | some k =>
      match parseI32 s with
      | some v => .ok (.int k v)
      | none => errOf fall
    | none => errOf fall

/-- the `&str` impl -/
def parseStr (lc : List Char → List Char) (p : OptionParser) (s : List Char) : Res Parsed :=
  parseWith lc p.rowsStr p.lowerStr p.intFallbackStr p.fallStr s

/-- the `String` impl -/
def parseString (lc : List Char → List Char) (p : OptionParser) (s : List Char) : Res Parsed :=
  parseWith lc p.rowsString p.lowerString p.intFallbackString p.fallString s

/-- ASCII lower-casing (what the driver uses; non-ASCII spellings are decided by the tie only) -/
def lowerAscii (s : List Char) : List Char := s.map Char.toLower

/-- `str::to_lowercase` restricted to what can reach an ASCII table row: ASCII letters, plus U+212A KELVIN SIGN, the only
non-ASCII scalar whose lower-case form is an ASCII letter (`k`). Every other non-ASCII character lower-cases to
non-ASCII text and can therefore not produce a table spelling. (Used by the driver; the theorems take `lc` as a parameter.) -/
def lowerRust (s : List Char) : List Char := s.map (fun c => if c.toNat = 0x212A then 'k' else c.toLower)

/-- `Option<impl XType>` argument: `None` takes the default constructor, `Some(enum value)` is the identity impl
(`Ok(self)`), `Some(text)` goes through the parser -/
inductive OptArg
  | none
  | enum (i : Nat)
  | text (s : List Char)

def resolve (lc : List Char → List Char) (p : OptionParser) (dflt : Nat) : OptArg → Res Parsed
  | .none => .ok (.ctor dflt)
  | .enum i => .ok (.ctor i)
  | .text s => parseStr lc p s

/-! ## `Result`-receiver lifting -/

/-- `self.clone()?.m(args…)`: an `Err` receiver is returned as is, `m` is not evaluated -/
def liftR {α β} (op : α → Res β) (r : Res α) : Res β :=
  match r with
  | .ok a => op a
  | .err e => .err e
  | .panic => .panic

/-- the same in an arbitrary effect monad (closures passed as arguments, allocation, …): on an `Err` receiver no
effect of `m` happens at all -/
def liftRM {m : Type → Type} [Monad m] {α β} (op : α → m (Res β)) (r : Res α) : m (Res β) :=
  match r with
  | .ok a => op a
  | .err e => pure (.err e)
  | .panic => pure .panic

/-! ## coverage accounting over the regenerated inventory (used by the driver's `inv.*` answers) -/

def Method.key (m : Method) : List Char := m.trait ++ ['.'] ++ m.name
def ResultImpl.key (m : ResultImpl) : List Char := m.trait ++ ['.'] ++ m.name

def fallibleKeys : List (List Char) := (traitMethods.filter (·.fallible)).map Method.key
def resultImplKeys : List (List Char) := resultImpls.map ResultImpl.key

/-- (missing from `covered`, extra in `covered`) relative to `wanted` -/
def coverage (wanted covered : List (List Char)) : List (List Char) × List (List Char) :=
  (wanted.filter (fun k => !covered.contains k), covered.filter (fun k => !wanted.contains k))

end C09
end ArrModel
