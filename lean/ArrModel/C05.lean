import ArrModel.Basic
/-!
# ArrModel.C05 — closure iteration (`src/core/operations/iter.rs`) and the unary math pattern

Core Lean only.  Every closure-taking operation is polymorphic in a monad `m`, so the caller's closure
may be stateful and observe the order of its calls (`m = StateM σ`); the pure reading is `m = Id`.

Rust pipelines and their model:
* `elements.iter().map(f).collect::<Array<S>>()`            ↦ `traverseIdx` (one call per element, left to right) then `collect`
* `.enumerate()`                                            ↦ the position argument of `traverseIdx` (starts at 0, +1 per element)
* `.filter(..)`, `.filter_map(..)`                          ↦ `filterIdxM`, `filterMapIdxM`
* `.fold(init, ..)`                                         ↦ `foldIdxM`
* `.for_each(..)`                                           ↦ `forEachIdxM`
* `collect::<Array<_>>()` = `Array::flat(v).unwrap()`       ↦ `collect` (the `unwrap` is modelled: not-ok ⇒ panic)
* `.reshape(&self.get_shape()?)`                            ↦ `reshape` (`matches_values_len` then `Array::new`)
* `.ravel()` = `self.elements.to_array()` = `Array::flat`   ↦ `ravel`
-/

namespace ArrModel.Iter

variable {α β γ : Type} {m : Type → Type} [Monad m]

/-! ## the funnels -/

/-- `Array::reshape` (`manipulate.rs:343-346`): `shape.matches_values_len(elements)?; Array::new(elements, shape)` -/
def reshape (a : Arr α) (shape : List Nat) : Res (Arr α) :=
  if shape.prod = a.elems.length then Arr.new a.elems shape else .err .ShapeMustMatchValuesLength

/-- `Array::flat` (`create.rs:143-145`): `Array::new(elements, vec![elements.len()])` -/
def flat (xs : List α) : Res (Arr α) := Arr.new xs [xs.length]

/-- `FromIterator::from_iter` (`iter.rs:24-29`): `Array::flat(iter.collect()).unwrap()` -/
def collect (xs : List α) : Res (Arr α) :=
  match flat xs with
  | .ok a => .ok a
  | _ => .panic

/-- `ravel` (`manipulate.rs:368-370`): `self.elements.to_array()` = `Array::flat(self.elements.clone())` -/
def ravel (a : Arr α) : Res (Arr α) := flat a.elems

/-! ## element pipelines (one closure call per element, left to right, position counted from `i`) -/

def traverseIdx (f : Nat → α → m β) : Nat → List α → m (List β)
  | _, [] => pure []
  | i, x :: xs => do
    let y ← f i x
    let ys ← traverseIdx f (i + 1) xs
    pure (y :: ys)

def filterIdxM (f : Nat → α → m Bool) : Nat → List α → m (List α)
  | _, [] => pure []
  | i, x :: xs => do
    let keep ← f i x
    let ys ← filterIdxM f (i + 1) xs
    pure (if keep then x :: ys else ys)

def filterMapIdxM (f : Nat → α → m (Option β)) : Nat → List α → m (List β)
  | _, [] => pure []
  | i, x :: xs => do
    let r ← f i x
    let ys ← filterMapIdxM f (i + 1) xs
    pure (match r with | some y => y :: ys | none => ys)

def foldIdxM (f : Nat → γ → α → m γ) : Nat → γ → List α → m γ
  | _, acc, [] => pure acc
  | i, acc, x :: xs => do
    let acc' ← f i acc x
    foldIdxM f (i + 1) acc' xs

def forEachIdxM (f : Nat → α → m Unit) : Nat → List α → m Unit
  | _, [] => pure ()
  | i, x :: xs => do
    f i x
    forEachIdxM f (i + 1) xs

/-! ## `ArrayIter` / `ArrayIterMut` for `Array<T>` (`iter.rs:117-150`, `273-317`) -/

/-- `map`: `self.elements.iter().map(f).collect::<Array<S>>().reshape(&self.get_shape()?)` -/
def mapM (a : Arr α) (f : α → m β) : m (Res (Arr β)) := do
  let ys ← traverseIdx (fun _ x => f x) 0 a.elems
  pure (collect ys >>= fun c => reshape c a.shape)

/-- `map_e`: `….iter().enumerate().map(|(idx, item)| f(idx, item)).collect().reshape(shape)` -/
def mapEM (a : Arr α) (f : Nat → α → m β) : m (Res (Arr β)) := do
  let ys ← traverseIdx f 0 a.elems
  pure (collect ys >>= fun c => reshape c a.shape)

/-- `filter`: `elements.clone().into_iter().filter(|item| f(item)).collect::<Self>().ravel()` -/
def filterM (a : Arr α) (f : α → m Bool) : m (Res (Arr α)) := do
  let ys ← filterIdxM (fun _ x => f x) 0 a.elems
  pure (collect ys >>= ravel)

/-- `filter_e`: `….enumerate().filter(|(idx, item)| f(*idx, item)).map(|i| i.1).collect::<Self>().ravel()` -/
def filterEM (a : Arr α) (f : Nat → α → m Bool) : m (Res (Arr α)) := do
  let ys ← filterIdxM f 0 a.elems
  pure (collect ys >>= ravel)

/-- `filter_map` -/
def filterMapM (a : Arr α) (f : α → m (Option β)) : m (Res (Arr β)) := do
  let ys ← filterMapIdxM (fun _ x => f x) 0 a.elems
  pure (collect ys >>= ravel)

/-- `filter_map_e` -/
def filterMapEM (a : Arr α) (f : Nat → α → m (Option β)) : m (Res (Arr β)) := do
  let ys ← filterMapIdxM f 0 a.elems
  pure (collect ys >>= ravel)

/-- `fold`: `Ok(self.elements.iter().fold(init, |a, b| f(&a, b)))` -/
def foldM (a : Arr α) (init : γ) (f : γ → α → m γ) : m (Res γ) := do
  let r ← foldIdxM (fun _ acc x => f acc x) 0 init a.elems
  pure (.ok r)

/-- `for_each`: `self.elements.iter().for_each(f); Ok(())` -/
def forEachM (a : Arr α) (f : α → m Unit) : m (Res Unit) := do
  forEachIdxM (fun _ x => f x) 0 a.elems
  pure (.ok ())

/-- `for_each_e` -/
def forEachEM (a : Arr α) (f : Nat → α → m Unit) : m (Res Unit) := do
  forEachIdxM f 0 a.elems
  pure (.ok ())

/-- the two `IntoIterator` impls (`iter.rs:6-22`): `self.elements.into_iter()` / `self.elements.iter()` -/
def intoIter (a : Arr α) : List α := a.elems

/-- `zip` (`iter.rs:309-316`) on the arm where `other` already has the receiver's shape:
`other.broadcast_to(self.shape)` passes `is_broadcastable`, takes the equal-count arm `self.reshape(&shape)`,
then `elements.zip(other.elements).collect().reshape(self.shape)`.
Unequal shapes (stretching) belong to C03 and are **not** modelled here: the driver refuses them. -/
def zipSame (a : Arr α) (b : Arr β) : Res (Arr (α × β)) :=
  reshape b a.shape >>= fun other =>
  collect (a.elems.zip other.elems) >>= fun c => reshape c a.shape

/-! ## pure readings (`m = Id`) -/

def map (a : Arr α) (f : α → β) : Res (Arr β) := Id.run (mapM a (fun x => pure (f x)))
def mapE (a : Arr α) (f : Nat → α → β) : Res (Arr β) := Id.run (mapEM a (fun i x => pure (f i x)))
def filter (a : Arr α) (p : α → Bool) : Res (Arr α) := Id.run (filterM a (fun x => pure (p x)))
def filterE (a : Arr α) (p : Nat → α → Bool) : Res (Arr α) := Id.run (filterEM a (fun i x => pure (p i x)))
def filterMap (a : Arr α) (f : α → Option β) : Res (Arr β) := Id.run (filterMapM a (fun x => pure (f x)))
def filterMapE (a : Arr α) (f : Nat → α → Option β) : Res (Arr β) := Id.run (filterMapEM a (fun i x => pure (f i x)))
def fold (a : Arr α) (init : γ) (f : γ → α → γ) : Res γ := Id.run (foldM a init (fun acc x => pure (f acc x)))

/-- the one-operand math pattern `self.map(|x| N::from(f(x.to_f64())))`
(`rounding.rs` fix/trunc/floor/ceil, `exp_log.rs` exp/exp2/exp_m1/log2/log10/log_1p, `trigonometric.rs` sin…radians,
`hyperbolic.rs`, `misc.rs` sqrt/cbrt/square/absolute/sign/nan_to_num, `special.rs` i0/sinc, `floating.rs` signbit/spacing).
The scalar kernel `k` is a parameter; its identity is tied natively in Rust. -/
def unary (k : α → β) (a : Arr α) : Res (Arr β) := map a k

/-! ## instrumented closures used by the tie (and by the trace theorems) -/

/-- log entry: call number, position passed by the enumerating variant (`none` for the plain variant), element -/
abbrev Entry (α : Type) := Nat × Option Nat × α
/-- closure state: number of calls so far, log of calls -/
abbrev St (α : Type) := Nat × List (Entry α)

/-- a counter-stamping closure: records `(call#, position?, element)` and answers `g call# position? element` -/
def stamp (g : Nat → Option Nat → α → β) (idx : Option Nat) (x : α) : StateM (St α) β :=
  fun (s : St α) => (g s.1 idx x, (s.1 + 1, s.2 ++ [(s.1, idx, x)]))

/-- the family of closures the harness runs (same arithmetic on both sides) -/
structure Clo where
  a : Int
  b : Int
  c : Int
  m : Int
  t : Int
  deriving Repr

/-- value returned by the mapping closures: depends on the call number, the passed position and the element -/
def Clo.val (p : Clo) (k : Nat) (idx : Option Nat) (v : Int) : Int :=
  p.a * (k : Int) + p.b * v + p.c + (match idx with | some i => 1000 * (i : Int) | none => 0)

/-- acceptance predicate of the filtering closures -/
def Clo.acc (p : Clo) (k : Nat) (idx : Option Nat) (v : Int) : Bool :=
  decide ((p.val k idx v) % p.m < p.t)

/-- `filter_map` closure -/
def Clo.opt (p : Clo) (k : Nat) (idx : Option Nat) (v : Int) : Option Int :=
  if p.acc k idx v then some (p.val k idx v + 7) else none

/-- the (non-commutative, non-associative) folding step -/
def Clo.step (p : Clo) (k : Nat) (acc v : Int) : Int :=
  (acc * 31 + p.b * v + p.a * (k : Int) + p.c) % 1000003

/-- folding closure with the accumulator: logs the element, answers `step call# acc element` -/
def stampFold (g : Nat → γ → α → γ) (acc : γ) (x : α) : StateM (St α) γ :=
  fun (s : St α) => (g s.1 acc x, (s.1 + 1, s.2 ++ [(s.1, none, x)]))

end ArrModel.Iter
