import ArrModel.Split
import ArrModel.Broadcast
/-!
# ArrModel.Reorder — `flip`, `flipud`, `fliplr`, `roll`, `rot90`

Mirrors `src/core/operations/reorder.rs` (after the `fix:` commits: the inner-axis arm cuts along the FIRST axis,
rolling uses the shift modulo the length, axes are validated).
The Rust works on the flat element vector: `Self::flat(elements).split(parts, …)` cuts it into `parts` equal blocks.
-/
namespace ArrModel

/-- cut a list into consecutive blocks of `k` elements (`k > 0`; the last block may be short — never happens here) -/
def chunksOf {α} (k : Nat) (l : List α) : List (List α) :=
  if k = 0 then [] else (List.range ((l.length + k - 1) / k)).map (fun i => (l.drop (i * k)).take k)

/-- `Self::flat(elements).split(parts, None | Some(0))` seen on element lists -/
def splitFlat {α} (parts : Nat) (l : List α) : Res (List (List α)) :=
  if parts = 0 then .err .ParameterError
  else if l.isEmpty then .ok [l]
  else if l.length % parts ≠ 0 then .err .ParameterError
  else .ok (chunksOf (l.length / parts) l)

/-- `Vec::rotate_right(k mod len)` -/
def rotateRight {α} (l : List α) (k : Nat) : List α :=
  if l.isEmpty then l else l.rotateRight (k % l.length)

/-- one axis of `flip`, on the flat elements of an array of shape `shape` (three arms: first axis, last axis, inner axis by
recursion on the blocks of the first axis) -/
def flipAxis {α} : Nat → List Nat → List α → Res (List α)
  | 0, shape, elems =>
    (Res.idx shape 0) >>= fun d0 => splitFlat d0 elems >>= fun blocks => .ok blocks.reverse.flatten
  | ax + 1, shape, elems =>
    if ax + 1 = shape.length - 1 then
      splitFlat ((shape.take (ax + 1)).prod) elems >>= fun rows => .ok (rows.map List.reverse).flatten
    else
      (Res.idx shape 0) >>= fun d0 => splitFlat d0 elems >>= fun blocks =>
      Res.mapM' (fun b => if (shape.drop 1).prod = b.length then flipAxis ax (shape.drop 1) b else .err .ShapeMustMatchValuesLength) blocks >>= fun bs =>
      .ok bs.flatten

/-- one axis of `roll` by an integer shift -/
def rollAxis {α} : Nat → List Nat → Int → List α → Res (List α)
  | 0, shape, sh, elems =>
    (Res.idx shape 0) >>= fun d0 => splitFlat d0 elems >>= fun blocks =>
    .ok (rotateRight blocks (sh % (blocks.length : Int)).toNat).flatten
  | ax + 1, shape, sh, elems =>
    if ax + 1 = shape.length - 1 then
      splitFlat ((shape.take (ax + 1)).prod) elems >>= fun rows =>
      .ok (rows.map (fun r => rotateRight r (sh % (r.length : Int)).toNat)).flatten
    else
      (Res.idx shape 0) >>= fun d0 => splitFlat d0 elems >>= fun blocks =>
      Res.mapM' (fun b => if (shape.drop 1).prod = b.length then rollAxis ax (shape.drop 1) sh b else .err .ShapeMustMatchValuesLength) blocks >>= fun bs =>
      .ok bs.flatten

/-- accumulate the shift per axis (`HashMap<usize, isize>`); order of first appearance -/
def accumShifts : List (Nat × Int) → List (Nat × Int)
  | [] => []
  | (a, s) :: rest =>
    let r := accumShifts rest
    match r.find? (fun p => p.1 == a) with
    | some _ => r.map (fun p => if p.1 == a then (p.1, p.2 + s) else p)
    | none => (a, s) :: r

namespace Arr
variable {α : Type}

/-- `flip(axes)` -/
def flip (a : Arr α) (axes : Option (List Int)) : Res (Arr α) :=
  match axes with
  | none => Arr.new a.elems.reverse a.shape
  | some axes =>
    let ax := axes.map (normalizeAxis a.ndim)
    if ax.any (fun x => decide (x ≥ a.ndim)) then .err .AxisOutOfBounds else
    (ax.foldl (fun (acc : Res (List α)) x => acc >>= fun es => flipAxis x a.shape es) (.ok a.elems)) >>= fun es =>
    (Arr.flat es).reshape a.shape

/-- `flipud` -/
def flipud (a : Arr α) : Res (Arr α) :=
  if a.ndim = 0 then .err .UnsupportedDimension else a.flip (some [0])

/-- `fliplr` -/
def fliplr (a : Arr α) : Res (Arr α) :=
  if a.ndim = 0 ∨ a.ndim = 1 then .err .UnsupportedDimension else a.flip (some [1])

/-- `roll(shift, axes)` -/
def roll (a : Arr α) (shift : List Int) (axes : Option (List Int)) : Res (Arr α) :=
  let array : Arr α := if axes.isNone then a.ravel else a
  let axs := axes.getD [0]
  (Arr.flat shift).broadcast (Arr.flat axs) >>= fun bc =>
  if bc.ndim > 1 then .err .ParameterError else
  let pairs := bc.elems.map (fun p => (normalizeAxis a.ndim p.2, p.1))
  let shifts := accumShifts pairs
  if shifts.any (fun p => decide (p.1 ≥ array.ndim)) then .err .AxisOutOfBounds else
  match array.ndim with
  | 0 => .ok ⟨[], [0]⟩
  | 1 =>
    let es := shifts.foldl (fun es p => rotateRight es (p.2 % (es.length : Int)).toNat) array.elems
    (Arr.flat es).reshape a.shape
  | _ =>
    (shifts.foldl (fun (acc : Res (List α)) p => acc >>= fun es => rollAxis p.1 a.shape p.2 es) (.ok array.elems)) >>= fun es =>
    Arr.new es a.shape

/-- `rot90(k, axes)` -/
def rot90 (a : Arr α) (zero : α) (k : Nat) (axes : List Int) : Res (Arr α) :=
  if a.ndim = 0 ∨ a.ndim = 1 then .err .UnsupportedDimension
  else match axes with
  | [a0, a1] =>
    let nd : Int := a.ndim
    if a0 ≥ nd ∨ a0 < -nd ∨ a1 ≥ nd ∨ a1 < -nd then .err .ParameterError
    else
      let k := k % 4
      if k = 0 then .ok a
      else if k = 2 then a.flip (some [a1]) >>= fun r => r.flip (some [a0])
      else
        let i := normalizeAxis a.ndim a0
        let j := normalizeAxis a.ndim a1
        let axesList := (swapOrder a.ndim i j).map Int.ofNat
        if k = 1 then a.flip (some [Int.ofNat j]) >>= fun r => r.transpose zero (some axesList)
        else a.transpose zero (some axesList) >>= fun r => r.flip (some [Int.ofNat j])
  | _ => .err .ParameterError

end Arr
end ArrModel
