import ArrModel.Index
/-!
# ArrModel.C20 — operator overloads

Transcribes, arm for arm,
* `src/numeric/operations/ops.rs`  (`impl_op!` : Add/Sub/Mul/Div/Rem and the `*Assign` forms for
  `Array<N>` and scalar `N`; `Neg`),
* `src/boolean/operations/ops.rs`  (`impl_bitwise_ops!` : BitAnd/BitOr/BitXor and `*Assign`; `Not`),
* `src/core/operations/ops.rs:34-70` (`PartialEq`, `PartialOrd`),
* the helpers they call: `Array::new`, `Array::flat`/`FromIterator`, `map` (`iter.rs:275`), `reshape`
  (`manipulate.rs:343`).

Everything is generic in the element type and in the scalar function (DESIGN §3.5): `f` is the scalar
operator (`a.add(b)` …), `g` the scalar compound assignment seen as a function (`{ let mut z = x; z += y; z }`),
`eq` the scalar `==`, `pcmp` the scalar `partial_cmp`.  That those are the native Rust operators is what the
tie checks natively; nothing about machine arithmetic is modelled.

`assert_eq!(self.get_shape(), other.get_shape())` fails ⇒ `Res.panic` (operators cannot return `Result`).
-/

namespace ArrModel.C20
open ArrModel

variable {α β : Type}

/-- `Array::new(elements, shape).unwrap()` (`Array::new` = `shape.matches_values_len(&elements)?; Ok(..)`) -/
def newUnwrap (elems : List α) (shape : List Nat) : Res (Arr α) :=
  match Arr.new elems shape with
  | .ok r => .ok r
  | _ => .panic

/-- `impl FromIterator for Array`: `Self::flat(iter.collect()).unwrap()`, `flat(v) = new(v, vec![v.len()])` -/
def collectArr (elems : List α) : Res (Arr α) := newUnwrap elems [elems.length]

/-- `reshape` (`manipulate.rs:343-346`):
`shape.to_vec().matches_values_len(&self.get_elements()?)?; Self::new(self.elements.clone(), shape.to_vec())` -/
def reshape (a : Arr α) (shape : List Nat) : Res (Arr α) :=
  if shape.prod = a.elems.length then Arr.new a.elems shape else .err .ShapeMustMatchValuesLength

/-- `map` (`iter.rs:275-280`): `self.elements.iter().map(f).collect::<Array<S>>().reshape(&self.get_shape()?)` -/
def mapArr (f : α → β) (a : Arr α) : Res (Arr β) :=
  collectArr (a.elems.map f) >>= fun r => reshape r a.shape

/-! ### `impl_op!` -/

/-- `impl $op_trait<Array<N>> for Array<N>`:
```
assert_eq!(self.get_shape(), other.get_shape());
let elements = self.elements.into_iter().zip(other.elements.into_iter()).map(|(a, b)| a.$op_func(b)).collect();
Array::new(elements, self.shape).unwrap()
``` -/
def binop (f : α → α → α) (a b : Arr α) : Res (Arr α) :=
  if a.shape ≠ b.shape then .panic
  else newUnwrap (List.zipWith f a.elems b.elems) a.shape

/-- `impl $op_trait<N> for Array<N>` (`Output = Result<Array<N>, ArrayError>`):
`self.map(|i| i.$op_func(other)).reshape(&self.shape)` — the second `reshape` is the `Result` receiver form
`self.clone()?.reshape(shape)`. -/
def scalarop (f : α → α → α) (a : Arr α) (s : α) : Res (Arr α) :=
  mapArr (fun x => f x s) a >>= fun r => reshape r a.shape

/-- `self.elements.iter_mut().zip(other.elements.into_iter()).for_each(|(a, b)| …)`:
the first `min` slots are rewritten, the remaining slots of the receiver keep their value. -/
def zipAssign (g : α → α → α) : List α → List α → List α
  | x :: xs, y :: ys => g x y :: zipAssign g xs ys
  | [], _ => []
  | xs, [] => xs

/-- `impl $op_assign_trait<Array<N>> for Array<N>`: shape assertion, then in-place `a.$op_assign_func(b)`;
the receiver keeps its `shape` field.  Returns the receiver's new state. -/
def assignop (g : α → α → α) (a b : Arr α) : Res (Arr α) :=
  if a.shape ≠ b.shape then .panic
  else .ok ⟨zipAssign g a.elems b.elems, a.shape⟩

/-- `impl $op_assign_trait<N> for Array<N>`: `self.elements.iter_mut().for_each(|a| a.$op_assign_func(other))`
(no assertion, cannot fail). -/
def assignScalar (g : α → α → α) (a : Arr α) (s : α) : Res (Arr α) :=
  .ok ⟨a.elems.map (fun x => g x s), a.shape⟩

/-- `Neg` (and `Not` with `f x = (!x).into()`):
`Self::new(self.elements.into_iter().map(f).collect(), self.shape).unwrap()` -/
def unop (f : α → α) (a : Arr α) : Res (Arr α) :=
  newUnwrap (a.elems.map f) a.shape

/-! ### `impl_bitwise_ops!` — struct literal `Array { elements, shape: self.shape }`, no validation -/

def bitop (f : α → α → α) (a b : Arr α) : Res (Arr α) :=
  if a.shape ≠ b.shape then .panic
  else .ok ⟨List.zipWith f a.elems b.elems, a.shape⟩

/-- `impl $op_trait<N> for Array<N>` (`Output = Array<N>`, not a `Result`) -/
def bitScalar (f : α → α → α) (a : Arr α) (s : α) : Res (Arr α) :=
  .ok ⟨a.elems.map (fun x => f x s), a.shape⟩

/-- `*a = a.$op_func(b)` over the zipped prefix — the *same* scalar function as the plain form -/
def bitAssign (f : α → α → α) (a b : Arr α) : Res (Arr α) := assignop f a b

def bitAssignScalar (f : α → α → α) (a : Arr α) (s : α) : Res (Arr α) := assignScalar f a s

/-! ### `PartialEq`, `PartialOrd` -/

/-- `self.elements.iter().zip(&other.elements).all(|(a, b)| a == b)` after the shape assertion -/
def opEq (eq : α → α → Bool) (a b : Arr α) : Res Bool :=
  if a.shape ≠ b.shape then .panic
  else .ok ((a.elems.zip b.elems).all (fun p => eq p.1 p.2))

/-- `PartialEq::ne` is the provided method `!self.eq(other)` -/
def opNe (eq : α → α → Bool) (a b : Arr α) : Res Bool := (opEq eq a b).map (!·)

/-- `<[T] as PartialOrd>::partial_cmp` (std): compare the common prefix element by element, the first
result other than `Some(Equal)` is the answer; if the prefix is all-equal compare the lengths. -/
def slicePartialCmp (pcmp : α → α → Option Ordering) : List α → List α → Option Ordering
  | [], [] => some .eq
  | [], _ :: _ => some .lt
  | _ :: _, [] => some .gt
  | x :: xs, y :: ys =>
    match pcmp x y with
    | some .eq => slicePartialCmp pcmp xs ys
    | r => r

def opPartialCmp (pcmp : α → α → Option Ordering) (a b : Arr α) : Res (Option Ordering) :=
  if a.shape ≠ b.shape then .panic
  else .ok (slicePartialCmp pcmp a.elems b.elems)

/-- `self.elements.lt(&other.elements)` = `matches!(partial_cmp, Some(Less))` -/
def opLt (pcmp : α → α → Option Ordering) (a b : Arr α) : Res Bool :=
  (opPartialCmp pcmp a b).map (fun o => o == some .lt)

/-- `le` = `matches!(partial_cmp, Some(Less | Equal))` -/
def opLe (pcmp : α → α → Option Ordering) (a b : Arr α) : Res Bool :=
  (opPartialCmp pcmp a b).map (fun o => o == some .lt || o == some .eq)

def opGt (pcmp : α → α → Option Ordering) (a b : Arr α) : Res Bool :=
  (opPartialCmp pcmp a b).map (fun o => o == some .gt)

def opGe (pcmp : α → α → Option Ordering) (a b : Arr α) : Res Bool :=
  (opPartialCmp pcmp a b).map (fun o => o == some .gt || o == some .eq)

/-! ### the free scalar algebra used by the driver (index protocol, DESIGN §4.2)

The driver runs the generic definitions above on *terms*: element `i` of the receiver is `a i`, of the
other operand `b i`, the scalar operand `s`; `op`/`asg`/`un` record an application of the scalar operator, of
the scalar compound assignment and of the unary scalar operator.  The harness evaluates the terms natively. -/
inductive Sym
  | a (i : Nat)
  | b (i : Nat)
  | s
  | op (x y : Sym)
  | asg (x y : Sym)
  | un (x : Sym)
  deriving DecidableEq, Repr, Inhabited

/-- float-like scalars for the comparison operators: an integer or NaN (`none`) -/
abbrev Flt := Option Int

/-- scalar `==` on `Flt`: NaN equals nothing -/
def Flt.eq : Flt → Flt → Bool
  | some x, some y => x == y
  | _, _ => false

/-- scalar `partial_cmp` on `Flt`: NaN is incomparable -/
def Flt.pcmp : Flt → Flt → Option Ordering
  | some x, some y => some (compare x y)
  | _, _ => none

end ArrModel.C20
