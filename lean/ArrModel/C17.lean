import ArrModel.Basic
/-!
# ArrModel.C17 — the per-string primitives of `impl Alphanumeric for String`

Mirrors `src/alphanumeric/types/string.rs:23-215` (after the repairs of `fixes/C17-*.diff`), the per-element
closures of `src/alphanumeric/operations/{manipulate,indexing,validate}.rs` and `extensions/chars_ext.rs`.

Strings are `List Char`, restricted to ASCII (the crate measures widths in bytes; on ASCII bytes = chars).
`std` primitives are modelled by what they compute:
* `str::find` / `str::rfind`: index of the first / last occurrence (`Some(0)` / `Some(len)` for the empty needle);
* `str::split` / `splitn` / `match_indices`: one `find` per piece, the search resuming after the match
  (the `TwoWay` arm of `StrSearcher`), or one match at every boundary (the `Empty` arm, for the empty needle);
* `str::rsplit` / `rsplitn`: the mirror image of the forward forms;
* `to_uppercase` / `to_lowercase` / `char::is_*`: their ASCII tables.
Loops (`while let Some(index) = …find(…)`, the searcher loops) take fuel; `ArrProofs/Props/C17.lean`
proves that the fuel used (`length + 1`) is never exhausted (`*_fuel`).
-/
namespace ArrModel.C17

abbrev Str := List Char

/-! ## searching -/

/-- `str::find(pat)`: index of the first occurrence -/
def find : Str → Str → Option Nat
  | [], pat => if pat.isPrefixOf [] then some 0 else none
  | c :: cs, pat => if pat.isPrefixOf (c :: cs) then some 0 else (find cs pat).map (· + 1)

/-- `str::rfind(pat)`: index of the last occurrence -/
def rfind : Str → Str → Option Nat
  | [], pat => if pat.isPrefixOf [] then some 0 else none
  | c :: cs, pat =>
    match rfind cs pat with
    | some i => some (i + 1)
    | none => if pat.isPrefixOf (c :: cs) then some 0 else none

/-- `find(..).map_or(-1, |idx| idx.to_isize())` (`indexing.rs:215-235`) -/
def findI (s pat : Str) : Int := match find s pat with | some i => Int.ofNat i | none => -1
def rfindI (s pat : Str) : Int := match rfind s pat with | some i => Int.ofNat i | none => -1

/-- `match_indices(pat).count()` for a non-empty needle: non-overlapping matches, left to right -/
def countF (pat : Str) : Nat → Str → Nat
  | 0, _ => 0
  | f + 1, s =>
    match find s pat with
    | none => 0
    | some i => 1 + countF pat f (s.drop (i + pat.length))

/-- `_count` (`string.rs:212`): the empty needle matches at every boundary -/
def count (s pat : Str) : Nat :=
  if pat.isEmpty then s.length + 1 else countF pat (s.length + 1) s

/-! ## split / rsplit / partition -/

/-- `str::split(sep)`, non-empty separator: piece = text before the next match, resume after it -/
def splitF (sep : Str) : Nat → Str → List Str
  | 0, s => [s]
  | f + 1, s =>
    match find s sep with
    | none => [s]
    | some i => s.take i :: splitF sep f (s.drop (i + sep.length))

/-- `str::split("")`: a match at every boundary: `"ab"` ↦ `["", "a", "b", ""]` -/
def splitEmpty (s : Str) : List Str := [] :: (s.map (fun c => [c]) ++ [[]])

/-- `str::splitn(n, sep)`, non-empty separator: at most `n` pieces, the last one is the unsplit remainder -/
def splitnF (sep : Str) : Nat → Nat → Str → List Str
  | _, 0, _ => []
  | _, 1, s => [s]
  | 0, _ + 2, s => [s]
  | f + 1, n + 2, s =>
    match find s sep with
    | none => [s]
    | some i => s.take i :: splitnF sep f (n + 1) (s.drop (i + sep.length))

/-- the pieces after the initial empty match of `splitn(n, "")` -/
def splitnEmptyGo : Nat → Str → List Str
  | 0, _ => []
  | 1, s => [s]
  | _ + 2, [] => [[]]
  | k + 2, c :: cs => [c] :: splitnEmptyGo (k + 1) cs

/-- `str::splitn(n, "")` -/
def splitnEmpty : Nat → Str → List Str
  | 0, _ => []
  | 1, s => [s]
  | n + 2, s => [] :: splitnEmptyGo (n + 1) s

/-- `_split` (`string.rs:91-96`, repaired: a limit of 0 pieces is read as 1 — "at most `max_split` splits are done") -/
def split (s sep : Str) (maxSplit : Option Nat) : List Str :=
  match maxSplit with
  | none => if sep.isEmpty then splitEmpty s else splitF sep (s.length + 1) s
  | some n => if sep.isEmpty then splitnEmpty (max n 1) s else splitnF sep (s.length + 1) (max n 1) s

/-- `_rsplit` (`string.rs:98-100`, repaired: `str::rsplit` / `rsplitn`, then the list reversed).
The reverse searcher is the mirror image of the forward one. -/
def rsplit (s sep : Str) (maxSplit : Option Nat) : List Str :=
  ((split s.reverse sep.reverse maxSplit).map List.reverse).reverse

/-- `_partition` (`string.rs:75-81`) -/
def partition (s sep : Str) : Str × Str × Str :=
  match find s sep with
  | none => (s, [], [])
  | some i => (s.take i, sep, (s.drop i).drop sep.length)

/-- `_rpartition` (`string.rs:83-89`) -/
def rpartition (s sep : Str) : Str × Str × Str :=
  match rfind s sep with
  | none => (s, [], [])
  | some i => (s.take i, sep, (s.drop i).drop sep.length)

/-- `Vec<String>::join(sep)` — the specification-side inverse of `split` -/
def joinWith (sep : Str) : List Str → Str
  | [] => []
  | [x] => x
  | x :: y :: r => x ++ sep ++ joinWith sep (y :: r)

/-- `_splitlines` (`string.rs:102-134`): `cur` = the characters of the current line, reversed -/
def splitlinesAux (keep : Bool) : Str → Str → List Str
  | [], cur => if cur.isEmpty then [] else [cur.reverse]
  | [c], cur =>
    if c = '\n' ∨ c = '\r' then [if keep then (c :: cur).reverse else cur.reverse]
    else [(c :: cur).reverse]
  | c :: d :: rest, cur =>
    if c = '\r' ∧ d = '\n' then
      (if keep then (d :: c :: cur).reverse else cur.reverse) :: splitlinesAux keep rest []
    else if c = '\n' ∨ c = '\r' then
      (if keep then (c :: cur).reverse else cur.reverse) :: splitlinesAux keep (d :: rest) []
    else splitlinesAux keep (d :: rest) (c :: cur)

def splitlines (s : Str) (keep : Bool) : List Str := splitlinesAux keep s []

/-! ## replace -/

/-- `count.is_some() && replaced_count >= count.unwrap()` -/
def limitReached : Option Nat → Nat → Bool
  | some c, k => decide (c ≤ k)
  | none, _ => false

/-- the `while let` loop of `_replace` (`string.rs:136-150`, repaired: the search resumes after the inserted text).
`done ++ rest` is `replaced_string`, `done.length` is `start`, `k` is `replaced_count`. -/
def replaceLoop (old new : Str) (cnt : Option Nat) : Nat → Str → Str → Nat → Str
  | 0, done, rest, _ => done ++ rest
  | f + 1, done, rest, k =>
    match find rest old with
    | none => done ++ rest
    | some i =>
      if limitReached cnt k then done ++ rest
      else if old.isEmpty then
        -- `start = index + new.len() + 1; if start > replaced_string.len() { break }`
        match rest.drop i with
        | [] => done ++ rest.take i ++ new
        | c :: after => replaceLoop old new cnt f (done ++ rest.take i ++ new ++ [c]) after (k + 1)
      else replaceLoop old new cnt f (done ++ rest.take i ++ new) (rest.drop (i + old.length)) (k + 1)

/-- `_replace` -/
def replace (s old new : Str) (cnt : Option Nat) : Str :=
  replaceLoop old new cnt (s.length + 1) [] s 0

/-! ## strip / pad -/

/-- `_rstrip` (`string.rs:176-186`): pop the last character while it is in `chars` -/
def rstrip (s chars : Str) : Str := (s.reverse.dropWhile (fun c => chars.contains c)).reverse

/-- `_lstrip` (`string.rs:164-166`): reverse, `_rstrip`, reverse -/
def lstrip (s chars : Str) : Str := (rstrip s.reverse chars).reverse

/-- `_strip` (`string.rs:152-154`) -/
def strip (s chars : Str) : Str := rstrip (lstrip s chars) chars

/-- `_center` (`string.rs:61-69`): `width <= len` truncates to `width`; otherwise ⌈d/2⌉ fill characters on the left
and ⌊d/2⌋ on the right -/
def center (s : Str) (width : Nat) (fill : Char) : Str :=
  if width ≤ s.length then s.take width
  else List.replicate ((width - s.length + 1) / 2) fill ++ s ++ List.replicate ((width - s.length) / 2) fill

/-- `_ljust` (`string.rs:156-162`) -/
def ljust (s : Str) (width : Nat) (fill : Char) : Str :=
  if width ≤ s.length then s.take width else s ++ List.replicate (width - s.length) fill

/-- `_rjust` (`string.rs:168-174`) -/
def rjust (s : Str) (width : Nat) (fill : Char) : Str :=
  if width ≤ s.length then s.take width else List.replicate (width - s.length) fill ++ s

/-! ## case, classes (ASCII tables of `char::to_uppercase`, `is_alphabetic`, …) -/

def isUpperC (c : Char) : Bool := decide (65 ≤ c.toNat ∧ c.toNat ≤ 90)
def isLowerC (c : Char) : Bool := decide (97 ≤ c.toNat ∧ c.toNat ≤ 122)
def isAlphaC (c : Char) : Bool := isUpperC c || isLowerC c
def isDigitC (c : Char) : Bool := decide (48 ≤ c.toNat ∧ c.toNat ≤ 57)
def isAlnumC (c : Char) : Bool := isAlphaC c || isDigitC c
/-- `char::is_whitespace` on ASCII: U+0009..U+000D and U+0020 -/
def isSpaceC (c : Char) : Bool := decide ((9 ≤ c.toNat ∧ c.toNat ≤ 13) ∨ c.toNat = 32)
def toUpperC (c : Char) : Char := if isLowerC c then Char.ofNat (c.toNat - 32) else c
def toLowerC (c : Char) : Char := if isUpperC c then Char.ofNat (c.toNat + 32) else c

/-- `_capitalize` (`string.rs:39-43`, repaired: the empty string is returned unchanged) -/
def capitalize : Str → Str
  | [] => []
  | c :: cs => toUpperC c :: cs

def lower (s : Str) : Str := s.map toLowerC
def upper (s : Str) : Str := s.map toUpperC
/-- `_swapcase` (`string.rs:53-59`) -/
def swapcase (s : Str) : Str :=
  s.map (fun c => if isLowerC c then toUpperC c else if isUpperC c then toLowerC c else c)

/-- `validate.rs:149-210` -/
def isAlpha (s : Str) : Bool := !s.isEmpty && s.all isAlphaC
def isAlnum (s : Str) : Bool := !s.isEmpty && s.all isAlnumC
def isDecimal (s : Str) : Bool := !s.isEmpty && s.all isDigitC
def isNumeric (s : Str) : Bool := !s.isEmpty && s.all isDigitC
def isDigit (s : Str) : Bool := s.length == 1 && s.all isDigitC
def isSpace (s : Str) : Bool := !s.isEmpty && s.all isSpaceC
def isLower (s : Str) : Bool := let f := s.filter isAlphaC; !f.isEmpty && f.all isLowerC
def isUpper (s : Str) : Bool := let f := s.filter isAlphaC; !f.isEmpty && f.all isUpperC

/-! ## small ones -/

/-- `_append` -/
def append (s t : Str) : Str := s ++ t
/-- `_multiply` = `str::repeat(n)` -/
def multiply (s : Str) (n : Nat) : Str := (List.replicate n s).flatten
/-- `_join` = `CharsJoin::join` (`chars_ext.rs:10-16`): fold, the separator goes in front of every character
once the accumulator is non-empty -/
def joinChars (s sep : Str) : Str :=
  s.foldl (fun acc c => (if acc.isEmpty then acc else acc ++ sep) ++ [c]) []
/-- the closure of `translate` (`manipulate.rs:639-648`): first table row whose key is the character -/
def translate (table : List (Char × Char)) (s : Str) : Str :=
  s.map (fun c => match table.find? (fun t => c == t.1) with | some t => t.2 | none => c)
def startsWith (s pat : Str) : Bool := pat.isPrefixOf s
def endsWith (s pat : Str) : Bool := pat.isSuffixOf s
def strLen (s : Str) : Nat := s.length

/-! ## comparisons (`string.rs:188-210`): byte-lexicographic `Ord for str` on `_rstrip(" ")` -/

/-- `Ord::cmp` for `str` = lexicographic comparison of the bytes -/
def cmpStr : Str → Str → Ordering
  | [], [] => .eq
  | [], _ :: _ => .lt
  | _ :: _, [] => .gt
  | a :: as, b :: bs =>
    if a.toNat < b.toNat then .lt else if b.toNat < a.toNat then .gt else cmpStr as bs

def rs (s : Str) : Str := rstrip s [' ']
def equal (a b : Str) : Bool := rs a == rs b
def notEqual (a b : Str) : Bool := !equal a b
def greaterEqual (a b : Str) : Bool := cmpStr (rs a) (rs b) != .lt
def lessEqual (a b : Str) : Bool := cmpStr (rs a) (rs b) != .gt
def greater (a b : Str) : Bool := cmpStr (rs a) (rs b) == .gt
def less (a b : Str) : Bool := cmpStr (rs a) (rs b) == .lt

/-! ## zfill (`manipulate.rs:620-637`) -/

/-- does `str::parse::<f64>()` accept the text?  (`core::num::dec2flt`: optional sign, then either
`digits [. digits] [e|E [sign] digits]` with at least one mantissa digit, or `inf` / `infinity` / `nan`
in any letter case) -/
def isF64Literal (s : Str) : Bool :=
  let body := match s with
    | c :: r => if c = '-' ∨ c = '+' then r else s
    | [] => []
  if body.isEmpty then false
  else
    let intPart := body.takeWhile isDigitC
    let r1 := body.dropWhile isDigitC
    let (fracPart, r2) := match r1 with
      | c :: r => if c = '.' then (r.takeWhile isDigitC, r.dropWhile isDigitC) else ([], r1)
      | [] => ([], [])
    let mantissaOk := decide (intPart.length + fracPart.length ≠ 0)
    let expOk := match r2 with
      | [] => true
      | c :: r =>
        if c = 'e' ∨ c = 'E' then
          let r' := match r with
            | d :: r'' => if d = '-' ∨ d = '+' then r'' else r
            | [] => []
          !r'.isEmpty && r'.all isDigitC
        else false
    let special := let l := lower body
      l == ['i','n','f'] || l == ['i','n','f','i','n','i','t','y'] || l == ['n','a','n']
    (mantissaOk && expOk) || special

/-- the per-element closure of `zfill` (repaired: `width.saturating_sub(prefix.len())`) -/
def zfill1 (width : Nat) (s : Str) : Str :=
  let neg := match s with | c :: _ => decide (c = '-') | [] => false
  let body := if neg then s.drop 1 else s
  let zerosLen := width - (if neg then 1 else 0)
  let body' := if body.length < zerosLen then List.replicate (zerosLen - body.length) '0' ++ body else body
  if neg then '-' :: body' else body'

end ArrModel.C17
