import ArrModel.C13
import ArrModel.Joining
/-!
# ArrModel.C01Diff — `ediff1d`, `diff`, `insert` with an axis, `convolve`

Mirrors `src/math/operations/sum_prod_diff.rs:315-379` (`diff`, `ediff1d`, after the `fix:` commit that validates the axis),
`src/core/operations/manipulate.rs:238-289` (`insert(indices, values, Some(axis))`, after the `fix:` commits for the axis check, for the
1-D receiver (delegation to the flat insert), for a zero-length axis of `values` and for whole slices that cannot be distributed over the insertion points, /repo 34ccd75) and
`src/math/operations/misc.rs:211-234` (`convolve`).  One Lean arm per Rust arm; the places where the Rust can panic
(`Vec::remove` / `Vec::insert` outside the vector, `%` and `/` by zero) are `Res.panic`.

The element formulas are over any type with a subtraction (`diff`, `ediff1d`) and over `Int` (`convolve`: the Rust computes in
`f64` and converts back, which is exact on the integers the tie runs on).

**As the code is**: the N-D arm of `diff` re-lays the lanes with `reshape(new_shape.swap_ext(axis, ndim - 1))` followed by
`transpose(None)` (axis 0) / `moveaxis([axis], [ndim])` (other axes).  That is the inverse of the first `moveaxis` only when the
axis is one of the last two (or the rank is 2); for the other axes of a rank >= 3 array the elements are permuted before the lane
differences are taken, and for an inner axis even the SHAPE comes out permuted (`[2,3,4,5]`, axis 1 -> `[2,3,3,5]` for `n = 1`,
computed from the re-laid `[2,4,3,5]`).  The model reproduces exactly that (the result is still a consistent array, which is all
C01 speaks about); `fixes/C01-diff-inner-axis.md` describes the observation.
-/
namespace ArrModel

/-- `(1..len).map(|i| array[i] - array[i - 1])` -/
def adjDiff {α} [Sub α] : List α → List α
  | a :: b :: r => (b - a) :: adjDiff (b :: r)
  | _ => []

/-- specification function: the `n`-fold iteration of `adjDiff` (the `n`-th order difference of a lane) -/
def iterDiff {α} [Sub α] : Nat → List α → List α
  | 0, l => l
  | n + 1, l => iterDiff n (adjDiff l)

/-- specification function: coefficient `k` of the product of the polynomials with coefficient lists `x`, `y`, written as the
double sum over all index pairs `(i, j)` with `i + j = k` -/
def convCoeff (x y : List Int) (k : Nat) : Int :=
  ((List.range x.length).map fun i =>
    ((List.range y.length).map fun j => if i + j = k then x.getD i 0 * y.getD j 0 else 0).sum).sum

/-- `Vec::swap(i, j)` on a shape (both positions are inside the vector wherever the model calls it) -/
def swapExt (s : List Nat) (i j : Nat) : List Nat := (s.set i (s.getD j 0)).set j (s.getD i 0)

/-- the accumulation loop of `convolve`: `for i in 0..n { for j in 0..m { out[i + j] += x[i] * y[j] } }` on `vec![0; n + m - 1]`
(`i + j ≤ n + m - 2` is always inside `out`) -/
def convFull (x y : List Int) : List Int :=
  (List.range x.length).foldl (fun out i =>
    (List.range y.length).foldl (fun out j => out.set (i + j) (out.getD (i + j) 0 + x.getD i 0 * y.getD j 0)) out)
    (List.replicate (x.length + y.length - 1) 0)

inductive ConvMode | full | valid | same
  deriving Repr, DecidableEq

/-- `impl ConvolveModeType for &str / String`: exact, case-sensitive spellings -/
def parseConvMode (s : List Char) : Option ConvMode :=
  if s = ['f', 'u', 'l', 'l'] then some .full
  else if s = ['v', 'a', 'l', 'i', 'd'] then some .valid
  else if s = ['s', 'a', 'm', 'e'] then some .same
  else none

/-- the window a mode cuts out of the full convolution (`n ≥ m` are the lengths of the longer / shorter operand) -/
def convWindow (md : ConvMode) (n m : Nat) (out : List Int) : List Int :=
  match md with
  | .full => out
  | .valid => (out.drop (m - 1)).take (n - m + 1)
  | .same => (out.drop ((m - 1) / 2)).take n

/-- `match mode { Some(cm) => cm.to_mode()?, None => ConvolveMode::Full }`; `none` = the parse error -/
def convModeOf : Option (List Char) → Option ConvMode
  | some s => parseConvMode s
  | none => some .full

/-- specification: where a window starts in the full product, and how long it is -/
def convOffset (md : ConvMode) (m : Nat) : Nat :=
  match md with | .full => 0 | .valid => m - 1 | .same => (m - 1) / 2
def convLen (md : ConvMode) (n m : Nat) : Nat :=
  match md with | .full => n + m - 1 | .valid => n - m + 1 | .same => n

namespace Arr
variable {α : Type}

/-- the elements of an optional array argument: `x.unwrap_or(Self::empty()?).get_elements()?` -/
def optElems (o : Option (Arr α)) : List α := (o.getD Arr.empty).elems

/-- `ediff1d(to_end, to_begin)`: never fails -/
def ediff1d [Sub α] (a : Arr α) (toEnd toBegin : Option (Arr α)) : Arr α :=
  Arr.flat (optElems toBegin ++ adjDiff a.ravel.elems ++ optElems toEnd)

/-- `for _ in 0..n { elements = Self::flat(elements.clone()).ediff1d(None, None).get_elements()? }` -/
def diffLoop [Sub α] : Nat → List α → List α
  | 0, l => l
  | n + 1, l => diffLoop n ((Arr.flat l).ediff1d none none).elems

/-- the rank-1 arm of `diff` (`n ≥ 1`) -/
def diffFlat [Sub α] (a : Arr α) (n : Nat) (prepend append : Option (Arr α)) : Arr α :=
  Arr.flat (diffLoop n (optElems prepend ++ a.elems ++ optElems append))

/-- the lane call `arr.diff(n, None, None, None)` inside the N-D arm: a lane is a piece of a ravelled array (rank 1) and `n ≥ 1`
there, so the call takes the rank-1 arm -/
def diffLane [Sub α] (n : Nat) (lane : Arr α) : Res (Arr α) := .ok (lane.diffFlat n none none)

/-- `diff_extend_partial(self, partial, other, axis, rev)` -/
def diffExtend (a : Arr α) (zero : α) (partials : List (Arr α)) (other : Option (Arr α)) (axis : Nat) (rev : Bool) :
    Res (List (Arr α)) :=
  match other with
  | none => .ok partials
  | some o =>
    if a.ndim ≠ o.ndim then .err .MustBeEqual
    else if a.shape.eraseIdx axis ≠ o.shape.eraseIdx axis then .err .MustBeEqual
    else
      o.moveaxis zero [Int.ofNat axis] [Int.ofNat a.ndim] >>= fun m =>
      m.ravel.split zero (o.shape.eraseIdx axis).prod none >>= fun pp =>
      -- `tmp_v = [partial, p_partial]; if rev { reverse }`; `zip` stops at the shorter list
      let x := if rev then pp else partials
      let y := if rev then partials else pp
      .ok ((x.zip y).map fun p => Arr.flat (p.2.elems ++ p.1.elems))

/-- the axis length an optional array adds: `if let Some(p) = prepend { new_shape[axis] += p.get_shape()?[axis] }` -/
def optAxisLen (o : Option (Arr α)) (axis : Nat) : Nat :=
  match o with | some p => p.shape.getD axis 0 | none => 0

/-- the array `diff` hands to `apply_along_axis` in its N-D arm (axis already normalised, inside the rank):
move the axis last, cut into lanes, glue `prepend` / `append` lanes on, flatten, `reshape(new_shape.swap_ext(axis, ndim - 1))`,
then `transpose(None)` (axis 0) or `moveaxis([axis], [ndim])` -/
def diffRelay (a : Arr α) (zero : α) (ax : Nat) (prepend append : Option (Arr α)) : Res (Arr α) :=
  let parts := (a.shape.eraseIdx ax).prod
  a.moveaxis zero [Int.ofNat ax] [Int.ofNat a.ndim] >>= fun m =>
  m.ravel.split zero parts none >>= fun p0 =>
  diffExtend a zero p0 prepend ax false >>= fun p1 =>
  diffExtend a zero p1 append ax true >>= fun p2 =>
  let newShape := a.shape.set ax (a.shape.getD ax 0 + optAxisLen prepend ax + optAxisLen append ax)
  (Arr.flat (p2.flatMap (·.elems))).reshape (swapExt newShape ax (a.ndim - 1)) >>= fun arr =>
  if ax = 0 then arr.transpose zero none else arr.moveaxis zero [Int.ofNat ax] [Int.ofNat a.ndim]

/-- `if let Some(axis) = axis { self.axis_in_bounds(self.normalize_axis(axis))?; }`: `true` = refused -/
def diffAxisBad (nd : Nat) : Option Int → Bool
  | some ax => decide (normalizeAxis nd ax ≥ nd)
  | none => false

/-- `diff(n, axis, prepend, append)` -/
def diff [Sub α] (a : Arr α) (zero : α) (n : Nat) (axis : Option Int) (prepend append : Option (Arr α)) : Res (Arr α) :=
  if diffAxisBad a.ndim axis then .err .AxisOutOfBounds
  else if n = 0 then .ok Arr.empty
  else if a.ndim = 1 then .ok (a.diffFlat n prepend append)
  else
    let ax := normalizeAxis a.ndim (axis.getD (-1))
    -- `self.get_shape()?.remove_at(axis)`: `Vec::remove` panics outside the vector (rank 0 and no axis given)
    if ax ≥ a.ndim then .panic else
    a.diffRelay zero ax prepend append >>= fun relaid =>
    relaid.applyAlongAxis zero zero ax (diffLane n)

/-- `insert(indices, values, Some(axis))` -/
def insertAxis (a : Arr α) (zero : α) (indices : List Nat) (values : Arr α) (axis : Nat) : Res (Arr α) :=
  if axis ≥ a.ndim then .err .AxisOutOfBounds
  else if indices.any (fun i => decide (i > a.shape.getD axis 0)) then .err .OutOfBounds
  else if !(decide (1 ≤ values.ndim) && decide (values.ndim ≤ a.ndim)) then .err .UnsupportedDimension
  -- `if axis.is_some() && self.ndim()? == 1 { return self.insert(indices, values, None) }`
  else if a.ndim = 1 then a.insertFlat indices values
  -- `vec![indices.len()].is_broadcastable(&self.get_shape()?[..1])?`
  else if !(isBroadcastable [indices.length] (a.shape.take 1)) then .err .BroadcastShapeMismatch
  else
    a.splitAxis zero axis >>= fun arrays =>
    let selfRemLen := (a.shape.eraseIdx axis).prod
    -- `to_array_ndim(ndim)` = `Self::create(elements, shape, Some(ndim))`
    Arr.create values.elems values.shape (some a.ndim) >>= fun v0 =>
    let vst := swapExt v0.shape 0 axis
    (((List.range a.ndim).eraseIdx axis).reverse.foldl (fun (acc : Res (Arr α)) i => acc >>= fun v =>
        let si := a.shape.getD i 0
        let ti := vst.getD i 0
        if ti = 0 then .err .BroadcastShapeMismatch
        else if ti > si then .err .BroadcastShapeMismatch
        else if si % ti ≠ 0 then .err .BroadcastShapeMismatch
        else if ti < si then
          v.repeatAxis zero [si / ti] 0 >>= fun w => Arr.create w.elems w.shape (some a.ndim)
        else .ok v) (.ok v0)) >>= fun v1 =>
    (if indices.length > 1 then
        (if v1.len = selfRemLen then v1.repeatAxis zero [indices.length] 0 else .ok v1) >>= fun v2 =>
        -- `if values.len()? % (self_rem_len * indices.len()) != 0 { return Err(BroadcastShapeMismatch) }` (/repo 34ccd75)
        if v2.len % (selfRemLen * indices.length) ≠ 0 then .err .BroadcastShapeMismatch else
        v2.moveaxis zero [Int.ofNat axis] [0] >>= fun m =>
        m.ravel.split zero indices.length none
      else .ok [v1]) >>= fun vals =>
    -- `for (i, v) in indices.reversed().zip(values.reversed()) { arrays.insert(i, v) }`: `Vec::insert` panics when `i > len`
    ((indices.reverse.zip vals.reverse).foldl (fun (acc : Res (List (Arr α))) p => acc >>= fun arrs => vecInsert arrs p.1 p.2)
        (.ok arrays)) >>= fun arrays' =>
    let partialA : Arr α := Arr.flat (arrays'.flatMap (·.elems))
    -- `partial.len()? / self_rem_len`
    if selfRemLen = 0 then .panic else
    partialA.reshape (swapExt (a.shape.set axis (partialA.len / selfRemLen)) 0 axis) >>= fun p =>
    p.transpose zero (some (((List.range' 1 (a.ndim - 1)).insertIdx axis 0).map Int.ofNat))

/-- `convolve(other, mode)` (operands of any rank are read as their flat element lists) -/
def convolve (a b : Arr Int) (mode : Option (List Char)) : Res (Arr Int) :=
  if a.len = 0 || b.len = 0 then .err .ParameterError
  else
    match convModeOf mode with
    | none => .err .ParameterError
    | some md =>
      -- `if arrays.1.len() > arrays.0.len() { swap }`
      let x := if b.len > a.len then b.elems else a.elems
      let y := if b.len > a.len then a.elems else b.elems
      .ok (Arr.flat (convWindow md x.length y.length (convFull x y)))

end Arr
end ArrModel
