import ArrModel.Reshape
/-!
# ArrModel.IndexExt — `slice`, `indices_at`

Mirrors `src/core/operations/indexing.rs:183-234`, one Lean arm per Rust arm: `slice` as it is after /repo commit
d32700c ("slice on arrays of rank >= 2 checks the row window"), `indices_at` as it is after the repair
fixes/C02-indices-at-empty-rows.diff (the index bound of the rank >= 2 arm is `shape[0]`, not the number of pieces
`split_axis(0)` returns — which is 1 for an empty array — and an empty array yields the empty result directly).
`usize` overflow of `new_shape[0] * range.start` is not modelled (both factors are bounded by the
element count of an array that exists in memory).
-/
namespace ArrModel

/-- `&v[i..j]` on a `Vec`: panics unless `i ≤ j ≤ len` -/
def Res.vrange {α} (l : List α) (i j : Nat) : Res (List α) :=
  if i ≤ j ∧ j ≤ l.length then .ok ((l.drop i).take (j - i)) else .panic

/-- positions visited by `(lo..lo+n).step_by(step)`: `lo, lo+step, …` below `lo+n` — `⌈n/step⌉` of them -/
def stepPositions (lo n step : Nat) : List Nat :=
  (List.range ((n + step - 1) / step)).map (fun k => lo + k * step)

/-- the copy loop of `slice`, over the list of visited positions:
`for_each(|idx| new_elements.extend_from_slice(&self.elements[idx..idx + stride]))` -/
def gatherChunks {α} (elems : List α) (stride : Nat) : List Nat → Res (List α)
  | [] => .ok []
  | idx :: rest =>
    Res.vrange elems idx (idx + stride) >>= fun c =>
    gatherChunks elems stride rest >>= fun r => .ok (c ++ r)

namespace Arr
variable {α : Type}

/-- `slice(start..stop)` (`indexing.rs:183-210`) -/
def slice (a : Arr α) (start stop : Nat) : Res (Arr α) :=
  -- `if !(range.start <= range.end && range.end <= self.elements.len())`
  if !(decide (start ≤ stop) && decide (stop ≤ a.elems.length)) then .err .OutOfBounds
  -- `if self.shape.len() == 1 { Self::flat(self.elements[range].into()) }`
  else if a.shape.length = 1 then
    Res.vrange a.elems start stop >>= fun sub => .ok (Arr.flat sub)
  else
    -- `self.shape[0]` (panics on a rank-0 array)
    Res.idx a.shape 0 >>= fun d0 =>
    -- `else if range.len() >= self.shape[0] { Ok(self.clone()) }`
    if stop - start ≥ d0 then .ok a
    else
      let tail := a.shape.drop 1                                  -- `self.shape[1..]`
      let newShape := if stop - start > 1 then (stop - start) :: tail else tail
      let items := newShape.prod
      Res.idx newShape 0 >>= fun n0 =>                            -- `new_shape[0]`
      let startIndex := n0 * start
      if items = 0 ∨ startIndex + items > a.elems.length then .err .OutOfBounds
      else
        let stride := items / n0
        if stride = 0 then .panic                                 -- `step_by(0)` asserts
        else
          gatherChunks a.elems stride (stepPositions startIndex items stride) >>= fun ne =>
          Arr.new ne newShape

/-- the element lists of the pieces `split_axis(0)` returns for an array of rank ≥ 2
(`split.rs:196-200` → `array_split(shape[0], Some(0))`): the single piece `self` for an empty array, otherwise the
`shape[0]` consecutive blocks of `len / shape[0]` elements.  That `array_split` along axis 0 returns exactly these
blocks (piece `i` at `c` = input at `c` shifted by `i` on axis 0) is theorem `C11.arraySplit_at`; here the blocks are
modelled directly. -/
def axis0Pieces (a : Arr α) : List (List α) :=
  if a.isEmpty then [a.elems]
  else
    let d0 := a.shape.headD 0
    let stride := a.len / d0
    (List.range d0).map (fun i => (a.elems.drop (i * stride)).take stride)

/-- `indices_at(indices)` (`indexing.rs:212-234`) -/
def indicesAt (a : Arr α) (indices : List Nat) : Res (Arr α) :=
  if a.ndim = 1 then
    -- `for &i in indices { if i >= self.len()? { return Err(OutOfBounds) } }`
    if indices.any (fun i => decide (i ≥ a.len)) then .err .OutOfBounds
    -- `indices.iter().map(|&i| self[i].clone()).collect::<Vec<T>>().to_array()`
    else Res.mapM' (fun i => a.opIndex i) indices >>= fun l => .ok (Arr.flat l)
  else
    -- `self.split_axis(0)?`: `axis_in_bounds(0)`
    if 0 ≥ a.ndim then .err .AxisOutOfBounds
    else
      let arrs := a.axis0Pieces
      -- `for &i in indices { if i >= self.shape[0] { return Err(OutOfBounds) } }`
      Res.idx a.shape 0 >>= fun d0 =>
      if indices.any (fun i => decide (i ≥ d0)) then .err .OutOfBounds
      else
        -- `self.get_shape()?.update_at(0, indices.len())`
        let newShape := a.shape.set 0 indices.length
        -- `if self.is_empty()? { return Self::new(vec![], new_shape) }`
        if a.isEmpty then Arr.new [] newShape
        else
          -- `indices.iter().flat_map(|&i| arrs[i].clone()).collect::<Vec<T>>().to_array().reshape(&new_shape)`
          Res.mapM' (fun i => Res.idx arrs i) indices >>= fun ls =>
          (Arr.flat ls.flatten).reshape newShape

end Arr
end ArrModel
