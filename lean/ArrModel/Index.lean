import ArrModel.Basic
/-!
# ArrModel.Index — `index_at`, `index_to_coord`, `at`, the two `Index` impls

Mirrors `src/core/operations/indexing.rs:149-181` and `src/core/operations/ops.rs:8-24`.
-/

namespace ArrModel

/-- Rust: `shape.iter().enumerate().rev().fold((0,1), |(index,stride),(i,&dim)| (index + coords[i]*stride, stride*dim)).0`
    modelled on the reversed zipped list. -/
def indexAtFold (shape coords : List Nat) : Nat × Nat :=
  (shape.zip coords).reverse.foldl
    (fun (acc : Nat × Nat) (dc : Nat × Nat) => (acc.1 + dc.2 * acc.2, acc.2 * dc.1)) (0, 1)

/-- every coordinate inside its axis, and lengths agree -/
def inRange : List Nat → List Nat → Bool
  | [], [] => true
  | d :: ds, c :: cs => decide (c < d) && inRange ds cs
  | _, _ => false

/-- structural row-major position -/
def ravel : List Nat → List Nat → Nat
  | d :: ds, c :: cs => c * ds.prod + ravel ds cs
  | _, _ => 0

/-- Rust `index_to_coord`:
`shape.iter().rev().fold((idx, vec![]), |(ri, coords), &dim| { coords.push(ri % dim); (ri / dim, coords) }).1` reversed -/
def unravelFold (shape : List Nat) (idx : Nat) : List Nat :=
  (shape.reverse.foldl (fun (acc : Nat × List Nat) dim => (acc.1 / dim, acc.2 ++ [acc.1 % dim])) (idx, [])).2.reverse

/-- structural inverse of `ravel` -/
def unravel : List Nat → Nat → List Nat
  | [], _ => []
  | _ :: ds, i => (i / ds.prod) :: unravel ds (i % ds.prod)

/-- Rust `coords.iter().enumerate().any(|(i, _)| coords[i] >= self.shape[i])` (lengths already equal) -/
def anyOut (shape coords : List Nat) : Bool :=
  (shape.zip coords).any (fun dc => decide (dc.2 ≥ dc.1))

namespace Arr
variable {α : Type}

/-- `index_at` (`indexing.rs:149-162`) -/
def indexAt (a : Arr α) (coords : List Nat) : Res Nat :=
  if a.shape.length ≠ coords.length then .err .ParameterError
  else if anyOut a.shape coords then .err .ParameterError
  else .ok (indexAtFold a.shape coords).1

/-- `index_to_coord` (`indexing.rs:164-174`) -/
def indexToCoord (a : Arr α) (idx : Nat) : Res (List Nat) :=
  if idx ≥ a.len then .err .ParameterError
  else .ok (unravelFold a.shape idx)

/-- `at` (`indexing.rs:176-181`): `self.elements[idx]` — the slice index may panic. -/
def atc (a : Arr α) (coords : List Nat) : Res α :=
  match a.indexAt coords with
  | .ok i => Res.idx a.elems i
  | .err e => .err e
  | .panic => .panic

/-- `impl Index<usize>`: `&self.elements[index]` -/
def opIndex (a : Arr α) (i : Nat) : Res α := Res.idx a.elems i

/-- `impl Index<&[usize]>`: `index_at(coords).unwrap_or_else(panic)` then `elements[index]` -/
def opIndexCoords (a : Arr α) (coords : List Nat) : Res α :=
  match a.indexAt coords with
  | .ok i => Res.idx a.elems i
  | _ => .panic

/-- coordinate read used as specification language: `a.elems[ravel shape c]?` -/
def get? (a : Arr α) (c : List Nat) : Option α := a.elems[ravel a.shape c]?

end Arr
end ArrModel
