import ArrModel.Basic
/-!
# ArrModel.RsPrelude — the meaning of the Rust `std` pieces used by the translated core funnel

Hand-written, core Lean only.  `tools/rs2lean.py` translates the Rust subset construct by construct into terms over
this file; `ArrModel/Gen/Core.lean` is its output.  This file is part of the TRUSTED BASE: each definition below is meant
to be read against the `std` documentation of the item named in its doc comment.

Conventions of the translation (stated once, here):
* `usize` ↦ `Nat`, `isize` ↦ `Int`.  Wrap-around / overflow at `2^64` is outside the generated model, as it is outside
  the hand-written model; the three places where the range of `usize` is visible in the translated code are modelled
  explicitly: subtraction below zero (`usub`: panic), `!x` on a `usize` (`usizeNot`: bitwise complement in 64 bits) and
  the cast `isize as usize` of a negative number (`toUsize`: two's complement).
* `Vec<T>`, `&[T]`, `[T; n]`, and every finite iterator over them ↦ `List`; `&`, `&mut`, `clone`, `to_vec`, `into`, `iter`,
  `into_iter`, `copied`, `cloned`, `collect::<Vec<_>>` are erased (values, no aliasing: the state-space obligation of
  `check` establishes that the crate has no shared mutable state).  A `&mut self` helper returns the new value.
* `Result<T, ArrayError>` ↦ `Res T` (`ArrModel/Basic.lean`), `Err(ArrayError::V { .. })` ↦ `Res.err .V` (payload dropped).
  A panic (`v[i]` out of range, `unwrap` on `None`/`Err`, `Vec::remove/insert/swap` out of range, `/ 0`, `% 0`) ↦ `Res.panic`.
  `e?` is `>>=`.  A `Result` value bound to a local is evaluated first (`Res.strict`).
-/

namespace ArrModel.Rs

/-! ## evaluation order -/

/-- `let r = e; k r` where `e : Result<_, _>` is a computation: a panic inside `e` happens now; `Ok`/`Err` are values -/
@[inline] def strict {α β} (x : Res α) (k : Res α → Res β) : Res β :=
  match x with
  | .panic => .panic
  | v => k v

@[simp] theorem strict_ok {α β} (a : α) (k : Res α → Res β) : strict (.ok a) k = k (.ok a) := rfl
@[simp] theorem strict_err {α β} (e : Err) (k : Res α → Res β) : strict (.err e) k = k (.err e) := rfl
@[simp] theorem strict_panic {α β} (k : Res α → Res β) : strict (.panic : Res α) k = .panic := rfl

/-! ## integers -/

/-- `usize::MAX + 1` -/
def USIZE : Nat := 2 ^ 64

/-- `a - b` on `usize`: overflow panic ("attempt to subtract with overflow") when `a < b` -/
def usub (a b : Nat) : Res Nat := if a < b then .panic else .ok (a - b)

/-- `a / b` on `usize`: panics when `b == 0` -/
def udiv (a b : Nat) : Res Nat := if b = 0 then .panic else .ok (a / b)

/-- `a % b` on `usize`: panics when `b == 0` -/
def urem (a b : Nat) : Res Nat := if b = 0 then .panic else .ok (a % b)

/-- `!x` on a `usize`: bitwise complement of a 64-bit word -/
def usizeNot (x : Nat) : Nat := USIZE - 1 - x

/-- `usize::min` / `usize::max` (`Ord::min`, `Ord::max`) -/
abbrev umin (a b : Nat) : Nat := min a b
abbrev umax (a b : Nat) : Nat := max a b

/-- `usize::saturating_sub` -/
abbrev saturatingSub (a b : Nat) : Nat := a - b

/-- `x.to_isize()` = `x as isize` (for `x < 2^63`) -/
abbrev toIsize (x : Nat) : Int := Int.ofNat x

/-- `x.to_usize()` = `x as usize` on an `isize`: a negative number wraps to `x + 2^64` -/
def toUsize (x : Int) : Nat := if x < 0 then (x + (USIZE : Int)).toNat else x.toNat

/-! ## `Option`, `Result` -/

/-- `Option::unwrap` -/
abbrev unwrap {α} (o : Option α) : Res α := Res.unwrap o

/-- `Result::unwrap` (on `Result<_, ArrayError>`): `Err` panics -/
def unwrapRes {α} : Res α → Res α
  | .ok a => .ok a
  | _ => .panic

/-- `Option::unwrap_or` -/
abbrev unwrapOr {α} (o : Option α) (d : α) : α := o.getD d

/-- `Option::is_none` / `is_some` -/
abbrev isNone {α} (o : Option α) : Bool := o.isNone
abbrev isSome {α} (o : Option α) : Bool := o.isSome

/-- `Option::ok_or(err)` -/
def okOr {α} (o : Option α) (e : Err) : Res α := match o with | some a => .ok a | none => .err e

/-- `Option::map_or_else(default, f)` / `map_or(default, f)` with pure arguments -/
def mapOr {α β} (o : Option α) (d : β) (f : α → β) : β := match o with | some a => f a | none => d

/-- `Option::map_or(default, f)` with a closure that can panic -/
def mapOrM {α β} (o : Option α) (d : β) (f : α → Res β) : Res β := match o with | some a => f a | none => .ok d

/-- `Option::map_or_else(|| d, f)` (both in the same representation: values, or computations) -/
def mapOrElse {α β} (o : Option α) (d : β) (f : α → β) : β := match o with | some a => f a | none => d

/-- `Result::err` (on an evaluated `Result` value) -/
def resErr {α} : Res α → Option Err
  | .err e => some e
  | _ => none

/-- `Result::is_ok` / `is_err` (on an evaluated `Result` value) -/
abbrev isOk {α} (r : Res α) : Bool := r.isOk
abbrev isErr {α} (r : Res α) : Bool := r.isErr

/-! ## `Vec` / slice operations -/

/-- `v[i]`: panics when out of bounds -/
abbrev index {α} (l : List α) (i : Nat) : Res α := Res.idx l i

/-- `&v[i..]`: panics when `i > len` -/
def sliceFrom {α} (l : List α) (i : Nat) : Res (List α) := if i > l.length then .panic else .ok (l.drop i)

/-- `&v[..j]`: panics when `j > len` -/
def sliceTo {α} (l : List α) (j : Nat) : Res (List α) := if j > l.length then .panic else .ok (l.take j)

/-- `&v[i..j]`: panics when `i > j` or `j > len` -/
def slice {α} (l : List α) (i j : Nat) : Res (List α) :=
  if i > j ∨ j > l.length then .panic else .ok ((l.take j).drop i)

/-- `v[i] = x` -/
def vecSet {α} (l : List α) (i : Nat) (x : α) : Res (List α) := if i < l.length then .ok (l.set i x) else .panic

/-- `Vec::push` -/
abbrev push {α} (l : List α) (x : α) : List α := l ++ [x]

/-- `Vec::extend` / `extend_from_slice` -/
abbrev extend {α} (l m : List α) : List α := l ++ m

/-- `Vec::insert(i, x)`: panics when `i > len` -/
def vecInsert {α} (l : List α) (i : Nat) (x : α) : Res (List α) := if i > l.length then .panic else .ok (l.insertIdx i x)

/-- `Vec::remove(i)` (the vector afterwards): panics when `i >= len` -/
def vecRemove {α} (l : List α) (i : Nat) : Res (List α) := if i ≥ l.length then .panic else .ok (l.eraseIdx i)

/-- `slice::swap(i, j)`: panics when either index is out of bounds -/
def vecSwap {α} (l : List α) (i j : Nat) : Res (List α) :=
  match l[i]?, l[j]? with
  | some x, some y => .ok ((l.set i y).set j x)
  | _, _ => .panic

/-- `slice::reverse` -/
abbrev reverse {α} (l : List α) : List α := l.reverse

/-- `slice::contains` -/
abbrev contains {α} [BEq α] (l : List α) (x : α) : Bool := l.contains x

/-- `vec![x; n]` -/
abbrev vecRepeat {α} (x : α) (n : Nat) : List α := List.replicate n x

/-! ## `Ord`, `sort`, `HashSet` -/

/-- `T: Ord` as `sort` uses it: a total order given by its `<=` test.  Instances: the integers, and tuples compared
lexicographically (first components first), as `#[derive(Ord)]` / the std impl for tuples do. -/
class Ord (α : Type) where
  le : α → α → Bool

instance : Ord Nat := ⟨fun a b => decide (a ≤ b)⟩
instance : Ord Int := ⟨fun a b => decide (a ≤ b)⟩
instance {α β} [Ord α] [Ord β] : Ord (α × β) :=
  ⟨fun p q => (Ord.le p.1 q.1 && !Ord.le q.1 p.1) || (Ord.le p.1 q.1 && Ord.le q.1 p.1 && Ord.le p.2 q.2)⟩

/-- `slice::sort` (stable; "the sort is stable, i.e. does not reorder equal elements"): core's stable merge sort -/
def sort {α} [Ord α] (l : List α) : List α := l.mergeSort Ord.le

/-- `iter.collect::<HashSet<T>>()` as far as the translated code observes it (its `len`): the distinct elements.
Each element is kept once (its last occurrence); `Eq`/`Hash` are taken to be lawful (`==` decides equality). -/
def toHashSet {α} [BEq α] : List α → List α
  | [] => []
  | x :: xs => if xs.contains x then toHashSet xs else x :: toHashSet xs

/-! ## iterator adaptors (finite iterators are lists) -/

/-- `Iterator::enumerate` from a start index -/
def enumFrom {α} : Nat → List α → List (Nat × α)
  | _, [] => []
  | n, x :: xs => (n, x) :: enumFrom (n + 1) xs

/-- `Iterator::enumerate` -/
abbrev enumerate {α} (l : List α) : List (Nat × α) := enumFrom 0 l

/-- `a..b` as an iterator -/
abbrev range (a b : Nat) : List Nat := List.range' a (b - a)

/-- `a..b` over `isize` -/
def rangeInt (a b : Int) : List Int := (List.range (b - a).toNat).map (fun k => a + Int.ofNat k)

abbrev rev {α} (l : List α) : List α := l.reverse
abbrev zip {α β} (l : List α) (m : List β) : List (α × β) := l.zip m
abbrev map {α β} (l : List α) (f : α → β) : List β := l.map f
abbrev filter {α} (l : List α) (p : α → Bool) : List α := l.filter p
abbrev skipWhile {α} (l : List α) (p : α → Bool) : List α := l.dropWhile p
abbrev takeWhile {α} (l : List α) (p : α → Bool) : List α := l.takeWhile p
abbrev take {α} (l : List α) (n : Nat) : List α := l.take n
abbrev skip {α} (l : List α) (n : Nat) : List α := l.drop n
abbrev chain {α} (l m : List α) : List α := l ++ m

/-- `it.chain(std::iter::repeat(x)).take(n)`: the items of `it`, then `x` for ever, cut after `n` -/
def padTake {α} (l : List α) (x : α) (n : Nat) : List α := (l ++ List.replicate n x).take n

/-- `it.cycle().take(n)`, as `Cycle::next` runs: when the current pass is exhausted restart from a clone of the original;
an empty original yields nothing -/
def cycleAux {α} (orig : List α) : Nat → List α → List α
  | 0, _ => []
  | n + 1, x :: xs => x :: cycleAux orig n xs
  | n + 1, [] =>
    match orig with
    | [] => []
    | x :: xs => x :: cycleAux orig n xs

/-- `it.cycle().take(n)` -/
def cycleTake {α} (l : List α) (n : Nat) : List α := cycleAux l n l

/-- `it.step_by(k)` for `k > 0` (`step_by(0)` panics) -/
def stepByAux {α} (k : Nat) : Nat → List α → List α
  | _, [] => []
  | 0, x :: xs => x :: stepByAux k (k - 1) xs
  | j + 1, _ :: xs => stepByAux k j xs

def stepBy {α} (l : List α) (k : Nat) : Res (List α) := if k = 0 then .panic else .ok (stepByAux k 0 l)

/-! ## iterator consumers -/

/-- `Iterator::fold` -/
abbrev fold {α β} (l : List α) (init : β) (f : β → α → β) : β := l.foldl f init

/-- `Iterator::fold` with a closure that can panic -/
def foldM {α β} (l : List α) (init : β) (f : β → α → Res β) : Res β :=
  match l with
  | [] => .ok init
  | x :: xs => f init x >>= fun b => foldM xs b f

abbrev any {α} (l : List α) (p : α → Bool) : Bool := l.any p
abbrev all {α} (l : List α) (p : α → Bool) : Bool := l.all p

/-- `Iterator::any` (short-circuits at the first `true`) with a closure that can panic -/
def anyM {α} (l : List α) (p : α → Res Bool) : Res Bool :=
  match l with
  | [] => .ok false
  | x :: xs => p x >>= fun b => if b then .ok true else anyM xs p

/-- `Iterator::all` (short-circuits at the first `false`) with a closure that can panic -/
def allM {α} (l : List α) (p : α → Res Bool) : Res Bool :=
  match l with
  | [] => .ok true
  | x :: xs => p x >>= fun b => if b then allM xs p else .ok false

/-- `.map(f).collect::<Vec<_>>()` with a closure that can panic -/
def mapM {α β} (l : List α) (f : α → Res β) : Res (List β) :=
  match l with
  | [] => .ok []
  | x :: xs => f x >>= fun y => mapM xs f >>= fun ys => .ok (y :: ys)

/-- `Iterator::sum::<usize>` -/
abbrev sum (l : List Nat) : Nat := l.foldl (· + ·) 0

/-- `Iterator::product::<usize>` -/
abbrev product (l : List Nat) : Nat := l.foldl (· * ·) 1

abbrev count {α} (l : List α) : Nat := l.length
abbrev last {α} (l : List α) : Option α := l.getLast?
abbrev first {α} (l : List α) : Option α := l.head?
abbrev find {α} (l : List α) (p : α → Bool) : Option α := l.find? p
abbrev position {α} (l : List α) (p : α → Bool) : Option Nat := l.findIdx? p

/-- `for x in it { body }` over the mutated locals `s`; `body` can panic / return an error -/
abbrev forM {α σ} (l : List α) (s : σ) (body : σ → α → Res σ) : Res σ := foldM l s body

end ArrModel.Rs
