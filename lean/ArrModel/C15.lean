import ArrModel.Basic
/-!
# ArrModel.C15 — `det`, `solve`, `norm`, `qr` over an exact field

Mirrors `src/linalg/operations/norms.rs` (`det`, `minor`, `norm`), `solving_inverting.rs` (`solve`),
`decompositions.rs` (`qr`, `gram_schmidt`) and the helpers of `common.rs` (`to_matrix`, `get_rows`,
`get_columns`).  The Rust computes in `f64`; the model computes the same expressions in `Rat` (core Lean),
so rounding is *not* modelled: the tie compares to rounding accuracy, the theorems are about exact arithmetic.
Square roots stay symbolic (`Sym.root`).

Conventions: a matrix is a list of rows; `entry` is total (out-of-range reads give `0`; every index the
modelled code uses is in range by the validators that run first, see `solveArr`/`detArr`).  In-place
updates of `Vec<Vec<f64>>` are written as `build n n (fun i c => …)` of the old value: one `if` per
index condition of the Rust loop.

`solve` is modelled **after the repair** `fixes/C15-solve-rhs.diff`: the row exchanges of the elimination
are recorded in `perm` and applied to the rows of `b`, and the triangular substitutions multiply the
coefficient row with the *matrix* of already computed rows (the pinned code multiplied with the flattened
rows and silently replaced the failing product by zeros).
-/
namespace ArrModel.C15
open ArrModel

abbrev Mat := List (List Rat)

/-- total 2-D read -/
def entry (m : Mat) (i j : Nat) : Rat := (m.getD i []).getD j 0
/-- total 1-D read -/
def vget (v : List Rat) (i : Nat) : Rat := v.getD i 0

/-- the `r × c` matrix with entries `f i j` -/
def build (r c : Nat) (f : Nat → Nat → Rat) : Mat :=
  (List.range r).map fun i => (List.range c).map (f i)

/-- `Σ_{i<n} f i`, accumulated left to right from `0` like `Iterator::sum` / `fold(0., +)` -/
def sumTo : Nat → (Nat → Rat) → Rat
  | 0, _ => 0
  | n + 1, f => sumTo n f + f n

def absR (x : Rat) : Rat := if x < 0 then -x else x

/-- `to_matrix`: `elements.chunks(shape[1])` of a well-formed `r × c` array -/
def toMat (r c : Nat) (elems : List Rat) : Mat := build r c fun i j => vget elems (i * c + j)

def flatten (m : Mat) : List Rat := m.flatten

def matMul (n : Nat) (a b : Mat) : Mat := build n n fun i j => sumTo n fun t => entry a i t * entry b t j
def matVec (n : Nat) (a : Mat) (x : List Rat) : List Rat := (List.range n).map fun i => sumTo n fun t => entry a i t * vget x t
/-- `A · X` for an `n × n` matrix and an `n × k` matrix -/
def matMulK (n k : Nat) (a x : Mat) : Mat := build n k fun i c => sumTo n fun t => entry a i t * entry x t c

/-! ## det -/

/-- `minor(arr, row, col)`: the elements whose row is not `row` and whose column is not `col` -/
def minor (m : Mat) (r c : Nat) : Mat := (m.eraseIdx r).map (·.eraseIdx c)

/-- `f64::powi(-1., i)` -/
def sgn (i : Nat) : Rat := if i % 2 = 0 then 1 else -1

/-- 2×2 arm: `self[0].mul_add(self[3], -self[1] * self[2])` -/
def det2 (m : Mat) : Rat := entry m 0 0 * entry m 1 1 - entry m 0 1 * entry m 1 0

/-- `det` of an `n × n` matrix as written: closed form for `n = 2`, otherwise cofactor expansion down
column 0, `Σ_i self[i*n] · (-1)^(i+2) · det(minor(i, 0))`.  Sizes 0 and 1 are refused by `is_square`
before this point (`detArr`); the value given here for them is never observed. -/
def detN : Nat → Mat → Rat
  | 0, _ => 0
  | 1, _ => 0
  | 2, m => det2 m
  | n + 3, m => sumTo (n + 3) fun i => entry m i 0 * sgn (i + 2) * detN (n + 2) (minor m i 0)

/-- `Array::is_square` (2-D receiver): both axes at least 2 and equal -/
def isSquare2 (shape : List Nat) : Res Unit :=
  match shape with
  | r :: c :: _ =>
    if r < 2 then .err .MustBeAtLeast else if c < 2 then .err .MustBeAtLeast
    else if r ≠ c then .err .MustBeEqual else .ok ()
  | _ => .err .UnsupportedDimension

/-- `Vec<usize>::is_square` (stacks): the last two axes at least 2 and equal -/
def isSquareLast (shape : List Nat) : Res Unit :=
  if shape.length < 2 then .err .MustBeAtLeast else
  let last := shape.getD (shape.length - 1) 0
  let prev := shape.getD (shape.length - 2) 0
  if last < 2 then .err .MustBeAtLeast else if prev < 2 then .err .MustBeAtLeast
  else if last ≠ prev then .err .MustBeEqual else .ok ()

/-- the `count` consecutive blocks of `len` elements (`ravel().split(count)` of a well-formed stack) -/
def blocks (count len : Nat) (elems : List Rat) : List (List Rat) :=
  (List.range count).map fun b => (elems.drop (b * len)).take len

/-- `Array::det` -/
def detArr (a : Arr Rat) : Res (Arr Rat) :=
  if a.ndim = 0 then .err .MustBeAtLeast
  else if a.ndim = 1 then .ok a
  else if a.ndim = 2 then do
    isSquare2 a.shape
    let n := a.shape.getD 0 0
    .ok ⟨[detN n (toMat n n a.elems)], [1]⟩
  else do
    isSquareLast a.shape
    let n := a.shape.getD (a.shape.length - 1) 0
    let count := a.elems.length / (n * n)
    -- `split(0)` refuses ("number of sections must be larger than 0")
    if count = 0 then .err .ParameterError else
    let ds := (blocks count (n * n) a.elems).map fun blk => detN n (toMat n n blk)
    .ok ⟨ds, [ds.length]⟩

/-! ## solve -/

/-- the threshold of the singularity test, `det.abs() < 1e-12` (on integer matrices: `det = 0`) -/
def singTol : Rat := 1 / 1000000000000

def identity (n : Nat) : Mat := build n n fun i j => if i = j then 1 else 0

/-- `for i in j+1..n { if u[i][j].abs() > u[pivot_row][j].abs() { pivot_row = i } }` -/
def pivotRow (u : Mat) (n j : Nat) : Nat :=
  (List.range' (j + 1) (n - (j + 1))).foldl
    (fun p i => if absR (entry u i j) > absR (entry u p j) then i else p) j

/-- exchange rows `a` and `b` (`tmp = m[b].clone(); m[b] = m[a].clone(); m[a] = tmp`) -/
def swapRows (n c : Nat) (m : Mat) (a b : Nat) : Mat :=
  build n c fun i cc => entry m (if i = a then b else if i = b then a else i) cc

/-- exchange the first `j` entries of rows `j` and `p` of `L` -/
def swapPrefix (n : Nat) (l : Mat) (j p : Nat) : Mat :=
  build n n fun i c => if c < j then entry l (if i = j then p else if i = p then j else i) c else entry l i c

/-- `perm.swap(a, b)` -/
def swapList (perm : List Nat) (a b : Nat) : List Nat :=
  (perm.set a (perm.getD b 0)).set b (perm.getD a 0)

structure LU where
  l : Mat
  u : Mat
  perm : List Nat

/-- rows below the pivot: `factor = u[i][j] / u[j][j]; l[i][j] = factor; u[i][jj] -= u[j][jj] * factor (jj ≥ j)` -/
def eliminate (n j : Nat) (s : LU) : LU :=
  { l := build n n fun i c => if j < i ∧ c = j then entry s.u i j / entry s.u j j else entry s.l i c
    u := build n n fun i c =>
      if j < i ∧ j ≤ c then entry s.u i c - entry s.u j c * (entry s.u i j / entry s.u j j) else entry s.u i c
    perm := s.perm }

/-- one column of the elimination: choose the pivot, exchange when it is not in place, eliminate -/
def luStep (n : Nat) (s : LU) (j : Nat) : LU :=
  let p := pivotRow s.u n j
  let s1 : LU :=
    if p ≠ j then { l := swapPrefix n s.l j p, u := swapRows n n s.u p j, perm := swapList s.perm j p }
    else s
  eliminate n j s1

def luInit (n : Nat) (a : Mat) : LU := { l := identity n, u := a, perm := List.range n }

def lu (n : Nat) (a : Mat) : LU := (List.range n).foldl (luStep n) (luInit n a)

/-- `coef.dot(rows)` for a coefficient vector of length `i` and the `i × k` matrix of computed rows,
with the fall-back of the call site: arm 0 — the product of two empty operands is an error, replaced by
`k` zeros; arm 1 — one operand has a single element: `multiply`; arm 2 — vector · matrix, one `vdot` per
column. -/
def dotRows (coef : List Rat) (rows : Mat) (k : Nat) : List Rat :=
  if coef.length = 0 then List.replicate k 0
  else if coef.length = 1 then (List.range k).map fun c => vget coef 0 * entry rows 0 c
  else (List.range k).map fun c => sumTo coef.length fun t => vget coef t * entry rows t c

def subRow (k : Nat) (a b : List Rat) : List Rat := (List.range k).map fun c => vget a c - vget b c

/-- forward substitution: `y[i] = b[i] − l[i][..i] · y[..i]` (the diagonal of `L` is not read) -/
def forwardSubst (n k : Nat) (l pb : Mat) : Mat :=
  (List.range n).foldl (fun ys i =>
    ys ++ [subRow k (pb.getD i []) (dotRows ((l.getD i []).take i) ys k)]) []

/-- back substitution, last row first: `x[i] = (y[i] − u[i][i+1..] · x[i+1..]) / u[i][i]` -/
def backSubst (n k : Nat) (u y : Mat) : Mat :=
  (List.range n).foldr (fun i xs =>
    ((subRow k (y.getD i []) (dotRows ((u.getD i []).drop (i + 1)) xs k)).map (· / entry u i i)) :: xs) []

/-- the matrix-level body of `solve` after validation: `n × n` system, `n × k` right-hand side -/
def solveMat (n k : Nat) (a b : Mat) : Mat :=
  let f := lu n a
  let pb : Mat := (List.range n).map fun i => b.getD (f.perm.getD i 0) []
  backSubst n k f.u (forwardSubst n k f.l pb)

/-- `Array::solve` -/
def solveArr (a b : Arr Rat) : Res (Arr Rat) :=
  if a.ndim ≠ 2 then .err .UnsupportedDimension else do
  let n := a.shape.getD 0 0
  isSquare2 a.shape
  -- `other.get_shape()?[0]` : a 0-dimensional right-hand side panics on the index
  let b0 ← Res.idx b.shape 0
  if b0 ≠ n then .err .MustBeEqual else
  let am := toMat n n a.elems
  if absR (detN n am) < singTol then .err .SingularMatrix else
  -- `get_rows`: a vector is split into `n` one-element rows; otherwise `shape[0]` rows of `shape[1]` elements
  let k := if b.ndim = 1 then 1 else b.shape.getD 1 0
  -- a zero-length row: the product of the substitutions cannot be formed (`broadcast` refuses a zero axis)
  if k = 0 then .err .BroadcastShapeMismatch else
  let x := solveMat n k am (toMat n k b.elems)
  -- `.reshape(&other.get_shape()?)`
  if b.shape.prod = n * k then .ok ⟨flatten x, b.shape⟩ else .err .ShapeMustMatchValuesLength

/-! ## norm -/

/-- a value with a symbolic root: `rat q` is `q`; `root p q` is `q^(1/p)` (`p = 2`: `sqrt`) -/
inductive Sym
  | rat (q : Rat)
  | root (p : Nat) (q : Rat)
  deriving DecidableEq, Repr

inductive Ord
  | int (v : Int)
  | inf
  | negInf
  | fro
  | nuc
  deriving DecidableEq, Repr

/-- `normalize_axis`: negative axes count from the end (`isize → usize` wrap-around is not reached by
in-range spellings; an out-of-range result is refused by `axis_in_bounds` in the reduction) -/
def normAxis (ndim : Nat) (axis : Int) : Int := if axis < 0 then axis + ndim else axis

def ravelC : List Nat → List Nat → Nat
  | _ :: ds, c :: cs => c * ds.prod + ravelC ds cs
  | _, _ => 0

def unravelC : List Nat → Nat → List Nat
  | [], _ => []
  | _ :: ds, i => (i / ds.prod) :: unravelC ds (i % ds.prod)

def insertAt (l : List Nat) (i : Nat) (x : Nat) : List Nat := l.take i ++ x :: l.drop i

/-- reduction along one axis (`sum(Some(axis))`, `max(Some(axis))`, `min(Some(axis))`): every lane along
`axis` is reduced by `f`; the axis is removed from the shape (a vector reduces to shape `[1]`). -/
def reduceAxis (f : List Rat → Rat) (a : Arr Rat) (axis : Int) : Res (Arr Rat) :=
  let ax := normAxis a.ndim axis
  if ax < 0 ∨ ax ≥ a.ndim then .err .AxisOutOfBounds else
  let ax := ax.toNat
  let len := a.shape.getD ax 0
  let rest := a.shape.eraseIdx ax
  let out := (List.range rest.prod).map fun o =>
    let c := unravelC rest o
    f ((List.range len).map fun t => vget a.elems (ravelC a.shape (insertAt c ax t)))
  .ok ⟨out, if a.ndim > 1 then rest else [1]⟩

def sumL (l : List Rat) : Rat := l.foldl (· + ·) 0
def maxL (l : List Rat) : Rat := l.foldl (fun a b => if a < b then b else a) (l.headD 0)
def minL (l : List Rat) : Rat := l.foldl (fun a b => if a > b then b else a) (l.headD 0)

def mapArr (f : Rat → Rat) (a : Arr Rat) : Arr Rat := ⟨a.elems.map f, a.shape⟩
def ratPow (x : Rat) (p : Nat) : Rat := (List.replicate p x).foldl (· * ·) 1

/-- `norm_simple`: `sqrt(ravel · ravel)`; `keepdims` reshapes the one-element result to `[ndim; 1]`,
i.e. to the shape `[ndim]`, which only holds one element when `ndim = 1` -/
def normSimple (a : Arr Rat) (keepdims : Bool) : Res (Arr Sym) :=
  let r : Sym := .root 2 (sumL (a.elems.map fun x => x * x))
  if keepdims then (if a.ndim = 1 then .ok ⟨[r], [1]⟩ else .err .ShapeMustMatchValuesLength)
  else .ok ⟨[r], [1]⟩

def symArr (a : Arr Rat) : Arr Sym := ⟨a.elems.map .rat, a.shape⟩
def rootArr (p : Nat) (a : Arr Rat) : Arr Sym := ⟨a.elems.map (.root p), a.shape⟩

/-- `Array::norm(ord, axis, keepdims)`; `ord = none` is `None`, string spellings are parsed by the driver
with the table of `parse_ord`. Orders `Int(p)` with `p < 0` or `p > 2` go through `float_power`: `p ≥ 3`
is `root p (Σ |x|^p)`; negative `p` is outside the model (the driver does not send it). -/
def normArr (a : Arr Rat) (ord : Option Ord) (axis : Option (List Int)) (keepdims : Bool) : Res (Arr Sym) :=
  let ndim := a.ndim
  let simple : Bool := match axis, ord with
    | none, none => true
    | none, some o => (ndim = 2 ∧ o = .fro) ∨ (ndim = 1 ∧ o = .int 2)
    | some _, _ => false
  if simple then normSimple a keepdims else
  let axes : List Int := axis.getD ((List.range ndim).map Int.ofNat)
  match axes with
  | [ax] =>
    match ord.getD (.int 2) with
    | .inf => (reduceAxis maxL (mapArr absR a) ax).map symArr
    | .negInf => (reduceAxis minL (mapArr absR a) ax).map symArr
    | .int v =>
      if v = 0 then (reduceAxis sumL (mapArr (fun x => if x = 0 then 0 else 1) a) ax).map symArr
      else if v = 1 then (reduceAxis sumL (mapArr absR a) ax).map symArr
      else if v = 2 then (reduceAxis sumL (mapArr (fun x => absR (x * x)) a) ax).map (rootArr 2)
      else (reduceAxis sumL (mapArr (fun x => ratPow (absR x) v.toNat) a) ax).map (rootArr v.toNat)
    | .fro => .err .ParameterError
    | .nuc => .err .ParameterError
  | [ax0, ax1] =>
    let row := normAxis ndim ax0
    let col := normAxis ndim ax1
    if row = col then .err .ParameterError else
    -- `axis_in_bounds(normalize_axis(axis[0]))?; axis_in_bounds(normalize_axis(axis[1]))?` (repair e1ca2b8,
    -- `fixes/C09-norm-two-axes-in-bounds.diff`; before it an axis below `-ndim` wrapped round to the last axis)
    if row < 0 ∨ row ≥ ndim then .err .AxisOutOfBounds else
    if col < 0 ∨ col ≥ ndim then .err .AxisOutOfBounds else
    let result : Res (Arr Rat) :=
      match ord.getD .fro with
      | .int v =>
        if v = 1 then do
          let col' := if col > row then -col else col
          let s ← reduceAxis sumL (mapArr absR a) row
          reduceAxis maxL s col'
        else if v = -1 then do
          let col' := if col > row then -col else col
          let s ← reduceAxis sumL (mapArr absR a) row
          reduceAxis minL s col'
        else .err .ParameterError
      | .inf => do
        let row' := if row > col then -row else row
        let s ← reduceAxis sumL (mapArr absR a) col
        reduceAxis maxL s row'
      | .negInf => do
        let row' := if row > col then -row else row
        let s ← reduceAxis sumL (mapArr absR a) col
        reduceAxis minL s row'
      | _ => .err .ParameterError
    if keepdims then do
      let r ← result
      -- `new_shape.push(1); reshape`
      .ok (symArr ⟨r.elems, r.shape ++ [1]⟩)
    else result.map symArr
  | _ => .err .ParameterError

/-! ## qr (Gram–Schmidt with the normalisation left symbolic) -/

def dotV (n : Nat) (u v : List Rat) : Rat := sumTo n fun i => vget u i * vget v i

/-- `a -= project(u, a)` with `project(u, a) = inner(u, a) / inner(u, u) * u` -/
def subProj (n : Nat) (a u : List Rat) : List Rat :=
  (List.range n).map fun i => vget a i - dotV n u a / dotV n u u * vget u i

/-- the un-normalised vectors `u_0, u_1, …` of `gram_schmidt`: each column minus, in turn, its projection
on every earlier `u` (each projection uses the already reduced column) -/
def gramU (n : Nat) (cols : Mat) : Mat :=
  cols.foldl (fun us col => us ++ [us.foldl (subProj n) col]) []

def columns (n : Nat) (m : Mat) : Mat := build n n fun j i => entry m i j

structure QRSym where
  /-- `us[k]` = the k-th un-normalised column; `Q[i][k] = us[k][i] / sqrt nrm2[k]` -/
  us : Mat
  /-- `nrm2[k] = us[k] · us[k]` -/
  nrm2 : List Rat
  /-- `ru[k][c] = us[k] · A[:,c]`; `R[k][c] = ru[k][c] / sqrt nrm2[k]` -/
  ru : Mat

def qrMat (n : Nat) (a : Mat) : QRSym :=
  let cols := columns n a
  let us := gramU n cols
  { us := us
    nrm2 := us.map fun u => dotV n u u
    ru := build n n fun k c => dotV n (us.getD k []) (cols.getD c []) }

/-- `Array::qr`: one pair per matrix of the stack.  Modelled after the repair `fixes/C15-qr-stack-square.diff`:
squareness is checked on the last two axes (the pinned code checked the first two, refusing e.g. a `[3,2,2]` stack). -/
def qrArr (a : Arr Rat) : Res (List QRSym) :=
  if a.ndim = 0 ∨ a.ndim = 1 then .err .UnsupportedDimension else do
  isSquareLast a.shape
  let n := a.shape.getD (a.shape.length - 1) 0
  if a.ndim = 2 then
    .ok [qrMat n (toMat n n a.elems)]
  else
    let count := a.elems.length / (n * n)
    -- `split(0)` refuses
    if count = 0 then .err .ParameterError else
    .ok ((blocks count (n * n) a.elems).map fun blk => qrMat n (toMat n n blk))

/-! ## determinant by elimination, `parse_ord` -/

/-- number of row exchanges the elimination of `a` performs -/
def swapCount (n : Nat) (a : Mat) : Nat :=
  ((List.range n).foldl (fun (sc : LU × Nat) j =>
      (luStep n sc.1 j, if pivotRow sc.1.u n j ≠ j then sc.2 + 1 else sc.2)) (luInit n a, 0)).2

def prodTo : Nat → (Nat → Rat) → Rat
  | 0, _ => 1
  | n + 1, f => prodTo n f * f n

/-- the value obtained by elimination: the product of the pivots, negated once per row exchange -/
def detByElim (n : Nat) (a : Mat) : Rat :=
  sgn (swapCount n a) * prodTo n fun i => entry (lu n a).u i i

/-- `parse_ord`: lower-cased spelling table, otherwise `i32::from_str` of the original text -/
def parseOrd (s : String) : Res Ord :=
  let l := s.toLower
  if l = "inf" then .ok .inf
  else if l = "-inf" then .ok .negInf
  else if l = "fro" then .ok .fro
  else if l = "nuc" then .ok .nuc
  else match s.toInt? with
    | some v => if -2147483648 ≤ v ∧ v ≤ 2147483647 then .ok (.int v) else .err .ParameterError
    | none => .err .ParameterError

end ArrModel.C15
