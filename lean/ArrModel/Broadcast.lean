import ArrModel.Reshape
/-!
# ArrModel.Broadcast — `is_broadcastable`, `broadcast_shape`, `broadcast_to`, `broadcast`,
`common_broadcast_shape`, `broadcast_arrays`, `zip`, `broadcast_h2`, `broadcast_h3`

Mirrors `src/validators/shape.rs:18-29`, `src/core/operations/broadcast.rs`, `src/core/operations/iter.rs:308-315`
(after the `fix:` commits recorded in known_findings.json).
-/
namespace ArrModel

/-- the per-axis clash test of `is_broadcastable` -/
def dimClash (d1 d2 : Nat) : Bool := (d1 != d2 && d1 != 1 && d2 != 1) || d1 == 0 || d2 == 0

/-- `is_broadcastable`: shapes are zipped from the trailing axis; `true` = `Ok(())` -/
def isBroadcastable (s t : List Nat) : Bool :=
  !((s.reverse.zip t.reverse).any (fun p => dimClash p.1 p.2))

/-- `shape.iter().rev().copied().chain(repeat(1)).take(n)` -/
def padRev (s : List Nat) (n : Nat) : List Nat := (s.reverse ++ List.replicate n 1).take n

/-- the per-axis rule of `broadcast_shape` -/
def bdim (d1 d2 : Nat) : Res Nat :=
  if d1 = 1 then .ok d2 else if d2 = 1 ∨ d1 = d2 then .ok d1 else .err .BroadcastShapeMismatch

/-- `broadcast_shape` -/
def broadcastShape (s t : List Nat) : Res (List Nat) :=
  let n := max s.length t.length
  (Res.sequence (((padRev s n).zip (padRev t n)).map (fun p => bdim p.1 p.2))).map List.reverse

/-- the source coordinate of `broadcast_to`'s gather: drop the added leading axes, 0 on unit axes -/
def bsrc (s : List Nat) (c : List Nat) : List Nat :=
  ((c.drop (c.length - s.length)).zip s).map (fun p => if p.2 = 1 then 0 else p.1)

/-- `common_broadcast_shape` -/
def commonBroadcastShape (shapes : List (List Nat)) : Res (List Nat) :=
  let maxDim := (shapes.map List.length).foldl max 0
  let padded := shapes.map (fun s => padRev s maxDim)
  let common := (List.range maxDim).map (fun k => (padded.map (fun s => s.getD k 1)).foldl max 0)
  let compatible := padded.all (fun s => (List.range maxDim).all (fun k =>
      let dim := s.getD k 1; let cd := common.getD k 1
      dim == cd || dim == 1 || cd == 1))
  if compatible then .ok common.reverse else .err .BroadcastShapeMismatch

namespace Arr
variable {α β : Type}

/-- `broadcast_to` -/
def broadcastTo (a : Arr α) (shape : List Nat) : Res (Arr α) :=
  if !isBroadcastable a.shape shape then .err .BroadcastShapeMismatch
  else if a.shape.prod = shape.prod then a.reshape shape
  else if shape.length < a.shape.length then .err .BroadcastShapeMismatch
  else
    let offset := shape.length - a.shape.length
    if (a.shape.zip (shape.drop offset)).any (fun p => p.1 != p.2 && p.1 != 1) then .err .BroadcastShapeMismatch
    else
      (Res.sequence ((List.range shape.prod).map (fun idx => a.atc (bsrc a.shape (unravelFold shape idx))))) >>= fun es =>
      Arr.new es shape

/-- `broadcast` -/
def broadcast (a : Arr α) (b : Arr β) : Res (Arr (α × β)) :=
  if !isBroadcastable a.shape b.shape then .err .BroadcastShapeMismatch
  else if a.shape = b.shape then (Arr.flat (a.elems.zip b.elems)).reshape a.shape
  else
    broadcastShape a.shape b.shape >>= fun fs =>
    a.broadcastTo fs >>= fun a' =>
    b.broadcastTo fs >>= fun b' =>
    Arr.new (a'.elems.zip b'.elems) fs

/-- `broadcast_arrays` -/
def broadcastArrays (arrs : List (Arr α)) : Res (List (Arr α)) :=
  commonBroadcastShape (arrs.map (·.shape)) >>= fun cs =>
  Res.sequence (arrs.map (fun a => a.broadcastTo cs))

/-- `zip` (`iter.rs:308`): only the argument is stretched, to the receiver's shape -/
def zip (a : Arr α) (b : Arr β) : Res (Arr (α × β)) :=
  b.broadcastTo a.shape >>= fun b' =>
  (Arr.flat (a.elems.zip b'.elems)).reshape a.shape

/-- `broadcast_h2(self, other)`: both operands stretched to their common shape (element types may differ).
`tmp_other = single(zero).broadcast_to(other.shape)`, `self.broadcast(tmp_other)`, then `other.broadcast_to(result shape)`. -/
def broadcastH2 (a : Arr α) (zero : α) (b : Arr β) : Res (Arr α × Arr β) :=
  (Arr.mk [zero] [1]).broadcastTo b.shape >>= fun tmpOther =>
  a.broadcast tmpOther >>= fun tmp =>
  (Arr.flat (tmp.elems.map (·.1))).reshape tmp.shape >>= fun arr =>
  b.broadcastTo arr.shape >>= fun other =>
  .ok (arr, other)

/-- `broadcast_h3(self, other_1, other_2)` -/
def broadcastH3 {γ : Type} (a : Arr α) (zero : α) (b : Arr β) (c : Arr γ) : Res (Arr α × Arr β × Arr γ) :=
  (Arr.mk [zero] [1]).broadcastTo b.shape >>= fun t1 =>
  (Arr.mk [zero] [1]).broadcastTo c.shape >>= fun t2 =>
  broadcastArrays [a, t1, t2] >>= fun bs =>
  (Res.idx bs 0) >>= fun arr =>
  b.broadcastTo arr.shape >>= fun o1 =>
  c.broadcastTo arr.shape >>= fun o2 =>
  .ok (arr, o1, o2)

end Arr
end ArrModel
