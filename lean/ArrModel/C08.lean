import ArrModel.AlongAxis
/-!
# ArrModel.C08 — the per-operation wrappers around `apply_along_axis`

* reductions (`sum`, `prod`, `nansum`, `nanprod`, `max`, `min`, `nanmax`, `nanmin`; `sum_prod_diff.rs`, `extrema.rs`):
  `apply_along_axis(axis, |arr| arr.op(None))` then `reshape(shape.remove_at_if(axis, ndim > 1))`
* position / count queries (`count_nonzero`, `argmax`, `argmin`; `count.rs`, `search.rs`) with `keepdims`
* scans (`cumsum`, `cumprod`, `nancumsum`, `nancumprod`): `apply_along_axis(axis, |arr| arr.op(None))`, or the 1-D body on `ravel`
The 1-D bodies are parameters (`f1`).
-/
namespace ArrModel.Arr
variable {α β : Type}

def reduceAxis (a : Arr α) (zero : α) (zb : β) (axis : Option Int) (f1 : Arr α → Res (Arr β)) : Res (Arr β) :=
  match axis with
  | some ax =>
    let axis := normalizeAxis a.ndim ax
    a.applyAlongAxis zero zb axis f1 >>= fun r =>
    if r.ndim > 1 then (vecRemove r.shape axis) >>= fun sh => r.reshape sh else r.reshape r.shape
  | none => f1 a

def countAxis (a : Arr α) (zero : α) (zb : β) (axis : Option Int) (keepdims : Option Bool)
    (f1 : Arr α → Option Bool → Res (Arr β)) : Res (Arr β) :=
  match axis with
  | some ax =>
    let axis := normalizeAxis a.ndim ax
    a.applyAlongAxis zero zb axis (fun arr => f1 arr keepdims) >>= fun r =>
    if keepdims = some true then .ok r
    else (vecRemove a.shape axis) >>= fun sh => r.reshape sh
  | none => f1 a keepdims

def scanAxis (a : Arr α) (zero : α) (zb : β) (axis : Option Int) (f1 : Arr α → Res (Arr β)) : Res (Arr β) :=
  match axis with
  | some ax => a.applyAlongAxis zero zb (normalizeAxis a.ndim ax) f1
  | none => f1 a.ravel

/-- the shape of every 1-D reduction body: `Self::single(fold …)` -/
def single (x : β) : Arr β := ⟨[x], [1]⟩

/-- the `keepdims` tail of `count_nonzero(None, …)` / `argmax(None, …)`: `if keepdims == Some(true) { result.atleast(self.ndim()?) } else { result }` -/
def keepdimsTail (nd : Nat) (keepdims : Option Bool) (r : Arr β) : Res (Arr β) :=
  if keepdims = some true then r.atleast nd else .ok r

end ArrModel.Arr
