import ArrModel.Basic
/-!
# ArrModel.C19 — bit unpacking / packing, `BitOrder` parsing, `binary_repr`

Transcribes
* `src/numeric/operations/binary_bits.rs:59-113` (`unpack_bits`, `pack_bits` for `Array<u8>`),
* `src/numeric/types/binary.rs:17-50` (`BitOrderType::to_bit_order` for `BitOrder`, `&str`, `String`),
* `binary_repr` of `impl_numeric!` in `src/numeric/types/numeric.rs` (`format!("{self:b}")`),
* the helpers they call: `slice` on a 1-D array (`indexing.rs:183-189`), `Array::empty`, `FromIterator`.

Bytes are `Nat` (the Rust type is `u8`; theorems carry `b < 256` where it matters).  Texts are `List Char`.

**Repair mirrored by this model** (fixes/C19-unpack-negative-count): the pinned `unpack_bits` computes, for a
negative `count`, `self.len()? - count.to_usize()` — byte count minus the *wrapped* cast of a negative number —
which overflows (panic in a checked build, `len + |count|` in an unchecked one).  The model is the repaired code:
trim `|count|` bits off the end, `OutOfBounds` when there are fewer bits than that.

**Order of the checks** (commit 97c65b7 of the crate): both operations parse the bit order, then validate the axis
(`axis_in_bounds(normalize_axis(axis))`), and only then take the empty-array shortcut — an unknown order name or an axis
outside the rank is refused for empty arrays too.

The axis forms go through `apply_along_axis`; that function is a parameter (`Along`) here.  `alongRef` is a
coordinate-level reference semantics used for the tie on rank ≤ 3 (the pipeline model of `apply_along_axis`
itself, with its rank ≥ 4 defect, belongs to the shared axis model).
-/

namespace ArrModel.C19
open ArrModel

inductive BitOrder
  | big
  | little
  deriving DecidableEq, Repr, Inhabited

/-- how the caller spelled the option: the enum value, or text (`&str` and `String` impls are the same match) -/
inductive Spelling
  | enum (o : BitOrder)
  | text (s : List Char)
  deriving DecidableEq, Repr

/-- the spelling table of `to_bit_order` (exact match, no case folding) -/
def bitOrderTable : List (List Char × BitOrder) :=
  [(['b', 'i', 'g'], .big), (['l', 'i', 't', 't', 'l', 'e'], .little)]

/-- `BitOrderType::to_bit_order` -/
def toBitOrder : Spelling → Res BitOrder
  | .enum o => .ok o
  | .text s =>
    if s = ['b', 'i', 'g'] then .ok .big
    else if s = ['l', 'i', 't', 't', 'l', 'e'] then .ok .little
    else .err .ParameterError

/-- `match bit_order { Some(bo) => bo.to_bit_order()?, None => BitOrder::Big }` -/
def optOrder : Option Spelling → Res BitOrder
  | none => .ok .big
  | some s => toBitOrder s

/-! ### unpack -/

/-- ```
let mut elems = (0..8).rev().map(move |idx| (a >> idx) & 1).collect::<Vec<u8>>();
if bit_order == BitOrder::Little { elems.reverse_ext() } else { elems }
``` -/
def unpackByte (o : BitOrder) (a : Nat) : List Nat :=
  let elems := (List.range 8).reverse.map (fun idx => (a >>> idx) &&& 1)
  if o = .little then elems.reverse else elems

/-- `self.ravel()?.into_iter().flat_map(..).collect::<Self>()` — element list of the 1-D result -/
def unpackFlat (o : BitOrder) (bytes : List Nat) : List Nat := bytes.flatMap (unpackByte o)

/-- `slice(lo..hi)` on a 1-D array (`indexing.rs:183-189`):
range check → `OutOfBounds`; `Self::flat(self.elements[range].into())` -/
def slice1 (xs : List Nat) (lo hi : Nat) : Res (Arr Nat) :=
  if ¬ (lo ≤ hi ∧ hi ≤ xs.length) then .err .OutOfBounds
  else .ok (Arr.flat ((xs.drop lo).take (hi - lo)))

/-- the `axis == None` arm of `unpack_bits` once the order is known (repaired negative-`count` arm) -/
def unpackFlatArr (o : BitOrder) (count : Option Int) (a : Arr Nat) : Res (Arr Nat) :=
  let result := unpackFlat o a.elems
  let count := count.getD (Int.ofNat a.elems.length * 8)
  if count ≥ 0 then slice1 result 0 count.toNat
  else
    let trim := count.natAbs
    if trim > result.length then .err .OutOfBounds
    else slice1 result 0 (result.length - trim)

/-- the closure handed to `apply_along_axis`: `|arr| arr.unpack_bits(None, count, Some(bit_order))` -/
def unpackLane (o : BitOrder) (count : Option Int) (lane : Arr Nat) : Res (Arr Nat) :=
  if lane.isEmpty then .ok ⟨[], [0]⟩ else unpackFlatArr o count lane

/-! ### pack -/

/-- `.map(|i| if i > &0 { "1" } else { "0" })` -/
def bitChar (i : Nat) : Char := if i > 0 then '1' else '0'

/-- `from_str_radix(s, 2)` on texts without sign: empty → error, a character other than `0`/`1` → error,
otherwise the most-significant-first value.  (A leading `+` that std also accepts never occurs here.) -/
def parseRadix2 (s : List Char) : Option Nat :=
  if s = [] then none
  else s.foldl (fun acc c => acc.bind fun v =>
    if c = '0' then some (v * 2) else if c = '1' then some (v * 2 + 1) else none) (some 0)

/-- `uN::from_str_radix(s, 2)`: additionally an error when the value does not fit `bits` bits -/
def parseRadix2U (bits : Nat) (s : List Char) : Option Nat :=
  (parseRadix2 s).bind fun v => if v < 2 ^ bits then some v else none

/-- one group of eight:
```
let subarray = elements[p*8..(p+1)*8].iter().map(|i| if i > &0 {"1"} else {"0"}).collect::<Vec<&str>>().join("");
let subarray = if bit_order == BitOrder::Little { subarray.chars().rev().collect() } else { subarray };
u8::from_str_radix(&subarray, 2).unwrap()
``` -/
def packGroup (o : BitOrder) (g : List Nat) : Res Nat :=
  let sub := g.map bitChar
  let sub := if o = .little then sub.reverse else sub
  Res.unwrap (parseRadix2U 8 sub)

/-- `if elements.len() % 8 != 0 { elements.extend_from_slice(&vec![0; 8 - elements.len() % 8]) }` -/
def pad8 (xs : List Nat) : List Nat :=
  if xs.length % 8 ≠ 0 then xs ++ List.replicate (8 - xs.length % 8) 0 else xs

/-- `elements[p * 8..(p + 1) * 8]` (panics when out of range) -/
def group8 (elements : List Nat) (p : Nat) : Res (List Nat) :=
  if (p + 1) * 8 ≤ elements.length then .ok ((elements.drop (p * 8)).take 8) else .panic

/-- `(0..parts).map(|p| …).collect()` -/
def packFlat (o : BitOrder) (xs : List Nat) : Res (List Nat) :=
  let elements := pad8 xs
  let parts := elements.length / 8
  Res.mapM' (fun p => group8 elements p >>= packGroup o) (List.range parts)

/-- the `axis == None` arm of `pack_bits`: the collected bytes become a 1-D array -/
def packFlatArr (o : BitOrder) (a : Arr Nat) : Res (Arr Nat) :=
  packFlat o a.elems >>= fun r => .ok (Arr.flat r)

/-- `|arr| arr.pack_bits(None, Some(bit_order))` -/
def packLane (o : BitOrder) (lane : Arr Nat) : Res (Arr Nat) :=
  if lane.isEmpty then .ok ⟨[], [0]⟩ else packFlatArr o lane

/-! ### the two public operations, `apply_along_axis` as a parameter -/

/-- `apply_along_axis(axis, f)` -/
abbrev Along := Arr Nat → Nat → (Arr Nat → Res (Arr Nat)) → Res (Arr Nat)

/-- `normalize_axis` (`manipulate.rs:476-479`): `(axis + ndim as isize) as usize` wraps for a too-negative axis -/
def normalizeAxis (ndim : Nat) (axis : Int) : Nat :=
  if axis < 0 then ((axis + Int.ofNat ndim) % (2 ^ 64 : Int)).toNat else axis.toNat

/-- `if let Some(axis) = axis { self.axis_in_bounds(self.normalize_axis(axis))?; }` (commit 97c65b7; `axis_in_bounds`:
`if axis >= self.ndim()? { Err(AxisOutOfBounds) } else { Ok(()) }`) -/
def axisCheck (ndim : Nat) : Option Int → Res Unit
  | none => .ok ()
  | some ax => if normalizeAxis ndim ax ≥ ndim then .err .AxisOutOfBounds else .ok ()

/-- `unpack_bits` as of 97c65b7: parse the order, validate the axis, only then the empty-array shortcut
(`if self.is_empty()? { return Self::empty() }`), then the flat arm or `apply_along_axis` -/
def unpackBits (along : Along) (a : Arr Nat) (axis : Option Int) (count : Option Int)
    (order : Option Spelling) : Res (Arr Nat) :=
  match optOrder order with
  | .err e => .err e
  | .panic => .panic
  | .ok o =>
    match axisCheck a.ndim axis with
    | .err e => .err e
    | .panic => .panic
    | .ok _ =>
      if a.isEmpty then .ok ⟨[], [0]⟩
      else match axis with
        | none => unpackFlatArr o count a
        | some ax => along a (normalizeAxis a.ndim ax) (unpackLane o count)

/-- `pack_bits`, same order of the checks -/
def packBits (along : Along) (a : Arr Nat) (axis : Option Int) (order : Option Spelling) : Res (Arr Nat) :=
  match optOrder order with
  | .err e => .err e
  | .panic => .panic
  | .ok o =>
    match axisCheck a.ndim axis with
    | .err e => .err e
    | .panic => .panic
    | .ok _ =>
      if a.isEmpty then .ok ⟨[], [0]⟩
      else match axis with
        | none => packFlatArr o a
        | some ax => along a (normalizeAxis a.ndim ax) (packLane o)

/-! ### reference semantics of "apply `f` to every lane along `axis`" (coordinates; used for rank ≤ 3) -/

/-- lane `(o, i)` of a row-major element list seen as `outer × n × inner` -/
def laneAt (elems : List Nat) (n inner o i : Nat) : List Nat :=
  (List.range n).map (fun j => elems.getD ((o * n + j) * inner + i) 0)

/-- all lanes, `(o, i)` in row-major order -/
def lanes (elems : List Nat) (outer n inner : Nat) : List (List Nat) :=
  (List.range (outer * inner)).map (fun q => laneAt elems n inner (q / inner) (q % inner))

/-- put lanes of length `m` back: position `(o, j, i)` holds element `j` of lane `(o, i)` -/
def unlanes (ls : List (List Nat)) (outer m inner : Nat) : List Nat :=
  (List.range (outer * m * inner)).map (fun p =>
    (ls.getD ((p / (m * inner)) * inner + p % inner) []).getD (p / inner % m) 0)

/-- `axis_in_bounds`, then every lane through `f`; the axis takes the length of the first transformed lane
(`partial[0].len()`) -/
def alongRef : Along := fun a axis f =>
  if axis ≥ a.ndim then .err .AxisOutOfBounds
  else
    let outer := (a.shape.take axis).prod
    let n := a.shape.getD axis 0
    let inner := (a.shape.drop (axis + 1)).prod
    Res.mapM' (fun l => f (Arr.flat l)) (lanes a.elems outer n inner) >>= fun rs =>
      match rs with
      | [] => .panic
      | r0 :: _ =>
        let m := r0.elems.length
        .ok ⟨unlanes (rs.map (·.elems)) outer m inner, a.shape.set axis m⟩

/-! ### `binary_repr` -/

/-- std's `{:b}` digit loop (`fmt::num`): `loop { push(x % 2); x /= 2; if x == 0 { break } }`,
least significant digit first; `fuel` bounds the loop -/
def reprLoop : Nat → Nat → List Nat
  | 0, _ => []
  | fuel + 1, x => (x % 2) :: (if x / 2 = 0 then [] else reprLoop fuel (x / 2))

/-- the digits of `format!("{n:b}")` for an unsigned value, most significant first (`0` ↦ `"0"`) -/
def binaryDigits (n : Nat) : List Nat := (reprLoop (n + 1) n).reverse

def digitChar (d : Nat) : Char := if d = 0 then '0' else '1'

/-- `binary_repr` of an unsigned value -/
def binaryRepr (n : Nat) : List Char := (binaryDigits n).map digitChar

/-- `binary_repr` of a value of a `w`-bit *signed* type: `{:b}` prints the two's-complement bit pattern -/
def binaryReprSigned (w : Nat) (v : Int) : List Char := binaryRepr (v % (2 ^ w : Int)).toNat

/-- reinterpret a `w`-bit pattern as signed (`u as iN`) -/
def toSigned (w : Nat) (u : Nat) : Int := if u < 2 ^ (w - 1) then Int.ofNat u else Int.ofNat u - (2 ^ w : Int)

end ArrModel.C19
