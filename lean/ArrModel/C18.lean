import ArrModel.Basic
/-!
# ArrModel.C18 — array literals (`array!` and its front ends), `Display`, text forms of `Tuple2/Tuple3/List`

Char-level model (`Str = List Char`) of

* `src/macros/create.rs:14-53`   `array!` — the generic arm and the dispatch to the typed front ends,
* `src/macros/helpers.rs:1-170`  `array_parse_shape!`, `array_parse_input!`, `array_tuple!`, `array_list!`,
                                 `array_char!`, `array_string!`,
* `src/macros/flat.rs`           `array_flat!` (only the text that reaches the same front ends differs),
* `src/core/operations/display.rs:7-41`  `build_string`,
* `src/core/types/tuple/tuple2.rs`, `tuple3.rs`, `src/core/types/collection/mod.rs`  `FromStr`/`Display`.

The macros expand to ordinary run-time string surgery on `format!("{:?}", vec![…])`.  The model takes that Debug text
as its input (the tie feeds the *real* Debug text, and separately checks that `nest` below reproduces it) and
returns the shape and the **element texts** that are handed to `str::parse`; parsing an element is a parameter.

Rust `std` string primitives are modelled by the structural functions of the first section (`find`, `replace`,
`split(..).count()`, `split_terminator`, slicing, `replace_range`).  Indices are in characters; the code only ever
adds/subtracts lengths of ASCII patterns to indices returned by `find`, so byte and character arithmetic agree.
Patterns passed to `replace`/`split` are never empty in the code modelled here.

Arms that differ from the pinned tree (each is a repair, see `/verif/fixes/C18-*.diff`):
* `array!(Tuple3<…>, …)` wraps every argument in its own `vec!` like the `Tuple2` arm (pinned: `ndim` off by one /
  `1 - 2` underflow);
* `array_char!` takes its elements from the quoted pieces it has already cut out (`string_elems`); pinned: splits the
  raw text on `,` and parses `" b"` as a `char` → panic for every row with two or more characters;
* `array_string!` likewise takes `string_elems` and derives the shape from the text with the pieces blanked out;
* `build_string` has no `len == 1` arm (pinned: prints `[x]` for every one-element array whatever its rank, without
  the precision);
* `List::from_str` strips `[`/`]` as well as `(`/`)` and accepts the empty text as the empty list.
-/

namespace ArrModel.C18
open ArrModel

abbrev Str := List Char

/-! ## `std` string primitives -/

/-- `"x".repeat(n)` -/
abbrev rep (c : Char) (n : Nat) : Str := List.replicate n c

/-- `str::find(&str)`: index of the first occurrence (the empty pattern is found at 0) -/
def find (pat : Str) : Str → Option Nat
  | [] => if pat.isPrefixOf [] then some 0 else none
  | c :: t => if pat.isPrefixOf (c :: t) then some 0 else (find pat t).map (· + 1)

/-- `str::contains(&str)` -/
def contains (pat s : Str) : Bool := (find pat s).isSome

/-- `str::find(|c| p c)` -/
def findP (p : Char → Bool) : Str → Option Nat
  | [] => none
  | c :: t => if p c then some 0 else (findP p t).map (· + 1)

/-- `str::replace(pat, to)` (non-overlapping, leftmost first), `pat ≠ ""`.
`k` counts characters of the current match that are still to be skipped. -/
def replaceAux (pat to : Str) : Nat → Str → Str
  | _, [] => []
  | k + 1, _ :: t => replaceAux pat to k t
  | 0, c :: t => if pat.isPrefixOf (c :: t) then to ++ replaceAux pat to (pat.length - 1) t
                 else c :: replaceAux pat to 0 t

def replace (pat to s : Str) : Str := replaceAux pat to 0 s

/-- number of non-overlapping occurrences, leftmost first (`str::matches(pat).count()`), `pat ≠ ""` -/
def occAux (pat : Str) : Nat → Str → Nat
  | _, [] => 0
  | k + 1, _ :: t => occAux pat k t
  | 0, c :: t => if pat.isPrefixOf (c :: t) then occAux pat (pat.length - 1) t + 1 else occAux pat 0 t

/-- `s.split(pat).count()` -/
def splitCount (pat s : Str) : Nat := occAux pat 0 s + 1

/-- `s.replace("c", "")` for a one-character pattern -/
def remove (c : Char) (s : Str) : Str := s.filter (· != c)

/-- `s.split(c)` for a character (or one-character string) pattern: always at least one piece -/
def splitChar (c : Char) : Str → List Str
  | [] => [[]]
  | x :: t =>
    if x = c then [] :: splitChar c t
    else match splitChar c t with
      | p :: ps => (x :: p) :: ps
      | [] => [[x]]

/-- `s.split_terminator(c)`: like `split`, a trailing empty piece is dropped -/
def splitTerminator (c : Char) (s : Str) : List Str :=
  let ps := splitChar c s
  if ps.getLast? = some [] then ps.dropLast else ps

/-- `s[..k]` — panics past the end -/
def sliceTo (s : Str) (k : Nat) : Res Str := if k ≤ s.length then .ok (s.take k) else .panic

/-- `s[a..b]` (`b` exclusive) — panics when `a > b` or `b > len` -/
def slice (s : Str) (a b : Nat) : Res Str :=
  if a ≤ b ∧ b ≤ s.length then .ok ((s.drop a).take (b - a)) else .panic

/-- `s.replace_range(a..b, with)` (`b` exclusive) — panics when `a > b` or `b > len` -/
def replaceRange (s : Str) (a b : Nat) (w : Str) : Res Str :=
  if a ≤ b ∧ b ≤ s.length then .ok (s.take a ++ w ++ s.drop b) else .panic

/-- `trim_start_matches(cs)` for a set of characters -/
def trimStart (cs : List Char) (s : Str) : Str := s.dropWhile (cs.contains ·)
/-- `trim_end_matches(cs)` -/
def trimEnd (cs : List Char) (s : Str) : Str := (s.reverse.dropWhile (cs.contains ·)).reverse

/-- `v.join(sep)` -/
def joinWith (sep : Str) : List Str → Str
  | [] => []
  | [x] => x
  | x :: y :: r => x ++ sep ++ joinWith sep (y :: r)

/-- `n` consecutive chunks of `k` items -/
def chunks {α} (k : Nat) : Nat → List α → List (List α)
  | 0, _ => []
  | n + 1, l => l.take k :: chunks k n (l.drop k)

/-! ## Debug text of a regular nested literal

`nest s es`: the text `format!("{:?}", …)` prints for a regular nesting of arrays/`Vec`s of shape `s` whose leaves,
in reading order, print as `es` (`[` items joined by `", "` `]`, recursively).  `vec![lit,]` adds one more level:
`debugVec s es = nest (1 :: s) es`. -/

def nest : List Nat → List Str → Str
  | [], es => es.headD []
  | n :: s, es => '[' :: joinWith [',', ' '] ((chunks s.prod n es).map (nest s)) ++ [']']

/-- `format!("{:?}", vec![lit,])` for a literal of shape `s` -/
def debugVec (s : List Nat) (es : List Str) : Str := nest (1 :: s) es

/-! ## `array_parse_shape!` (`helpers.rs:1-16`) -/

/-- `format!("{},{}", "]".repeat(i), "[".repeat(i))` -/
def sepPat (i : Nat) : Str := rep ']' i ++ ',' :: rep '[' i

def hashSep : Str := [']', '#', '[']

/-- the loop `for i in (0..ndim).rev()`; `parseShapeLoop (i+1) s` runs the iterations `i, i-1, …, 0`.
Per iteration: `tmp = s.replace(sepPat i, "]#[")`, `s = s[..s.find("]".repeat(i)).unwrap() + i]`,
`shape.push(tmp.split("]#[").count())`. -/
def parseShapeLoop : Nat → Str → Res (List Nat)
  | 0, _ => .ok []
  | i + 1, s =>
    let tmp := replace (sepPat i) hashSep s
    match find (rep ']' i) s with
    | none => .panic
    | some k =>
      match sliceTo s (k + i) with
      | .ok s' =>
        match parseShapeLoop i s' with
        | .ok rest => .ok (splitCount hashSep tmp :: rest)
        | .err e => .err e
        | .panic => .panic
      | .err e => .err e
      | .panic => .panic

def parseShape (ndim : Nat) (s : Str) : Res (List Nat) := parseShapeLoop ndim s

/-- `string.find(|p| p != '[').unwrap_or(1) - off`, then `if ndim == 0 { 1 } else { ndim }`;
the subtraction underflows (panic; the harness builds with overflow checks) when fewer than `off` brackets lead. -/
def ndimOf (off : Nat) (s : Str) : Res Nat :=
  let lead := (findP (· != '[') s).getD 1
  if lead < off then .panic
  else if lead - off = 0 then .ok 1 else .ok (lead - off)

/-! ## the generic arm of `array!` (`create.rs:30-52`) -/

def quoteSepL : Str := ['"', ',', ' ', '"']
def quoteSepT : Str := ['"', ',', '"']
def brSepL : Str := [']', ',', ' ', '[']
def brSepT : Str := [']', ',', '[']

/-- returns the shape and the element texts (each goes to `.parse().unwrap()`, then `Array::new(elems, shape)`) -/
def arrayGeneric (dbg : Str) : Res (List Nat × List Str) :=
  let string := replace brSepL brSepT (replace quoteSepL quoteSepT dbg)
  match ndimOf 1 string with
  | .ok ndim =>
    match parseShape ndim string with
    | .ok shape =>
      let elems := splitTerminator ','
        (remove '"' (replace [',', ' '] [','] (remove ']' (remove '[' string))))
      .ok (shape, elems)
    | .err e => .err e
    | .panic => .panic
  | .err e => .err e
  | .panic => .panic

/-- `array_parse_input!` (`helpers.rs:18-30`) -/
def parseInput (s : Str) : Str :=
  replace ['\\', '0'] ['\x00']
    (replace ['\\', '\\'] ['\\']
      (replace ['\\', 't'] ['\t']
        (replace ['\\', 'r'] ['\r']
          (replace ['\\', 'n'] ['\n']
            (replace brSepL brSepT (replace quoteSepL quoteSepT s))))))

/-! ## cut-out loops of the typed front ends

Every typed front end replaces each element by `_` before the shape is parsed, collecting the element texts.
The loops run `while _string.contains(open)`; `fuel` bounds the iterations (`s.length + 1` suffices when every
iteration shortens the text or removes one opener; running out of fuel stands for a loop that does not end and
is reported as `panic`).  Proved in `ArrProofs/Props/C18.lean`: both loops end on every text (`tuple_loop_ends`:
`count('(') + 1` iterations, `list_loop_ends`: `count('&') + 1`; `typed_loops_fuel_suffices`: the fuel given below
is never what decides). -/

/-- `array_tuple!` (`helpers.rs:41-48`): `start = find("(")`, `end = find(")")` (from the beginning of the text),
push `s[start..=end]` without `"`, `replace_range(start..=end, "_")` -/
def cutTuples : Nat → Str → List Str → Res (List Str × Str)
  | 0, _, _ => .panic
  | fuel + 1, s, acc =>
    match find ['('] s with
    | none => .ok (acc.reverse, s)
    | some start =>
      match find [')'] s with
      | none => .panic
      | some e =>
        match slice s start (e + 1), replaceRange s start (e + 1) ['_'] with
        | .ok piece, .ok s' => cutTuples fuel s' (remove '"' piece :: acc)
        | _, _ => .panic

/-- the quote loops of `array_char!` (`q = '\''`, `helpers.rs:115-120`) and `array_string!` (`q = '"'`,
`helpers.rs:148-153`): `start = find(q)`, `end = s[start+1..].find(q)`,
char: push `s[start+1..=start+end]`; string: push `s[start+1..=start+end+1]` without `"`;
`replace_range(start..=start+end+1, "_")` -/
def cutQuoted (q : Char) (isString : Bool) : Nat → Str → List Str → Res (List Str × Str)
  | 0, _, _ => .panic
  | fuel + 1, s, acc =>
    match find [q] s with
    | none => .ok (acc.reverse, s)
    | some start =>
      match find [q] (s.drop (start + 1)) with
      | none => .panic
      | some e =>
        let piece := if isString then (slice s (start + 1) (start + e + 2)).map (remove '"')
                     else slice s (start + 1) (start + e + 1)
        match piece, replaceRange s start (start + e + 2) ['_'] with
        | .ok p, .ok s' => cutQuoted q isString fuel s' (p :: acc)
        | _, _ => .panic

/-- `array_list!`, first loop (`helpers.rs:72-85`): copy the text, writing `&[` for every `[` that opens nesting level
`ndim + 2`; `nest_level` is a `usize`, so an unmatched `]` underflows (panic) -/
def markLists (ndim : Nat) : Nat → Str → Res Str
  | _, [] => .ok []
  | lvl, c :: t =>
    if c = '[' then
      (markLists ndim (lvl + 1) t).map (fun r => if lvl + 1 = ndim + 2 then '&' :: '[' :: r else '[' :: r)
    else if c = ']' then
      if lvl = 0 then .panic else (markLists ndim (lvl - 1) t).map (']' :: ·)
    else (markLists ndim lvl t).map (c :: ·)

/-- `array_list!`, second loop (`helpers.rs:87-93`): `start = find("&")`, `end = s[start+1..].find("]")`,
push `s[start+2..=start+end]` without `"`, `replace_range(start..=start+end+1, "_")` -/
def cutLists : Nat → Str → List Str → Res (List Str × Str)
  | 0, _, _ => .panic
  | fuel + 1, s, acc =>
    match find ['&'] s with
    | none => .ok (acc.reverse, s)
    | some start =>
      match find [']'] (s.drop (start + 1)) with
      | none => .panic
      | some e =>
        match slice s (start + 2) (start + e + 1), replaceRange s start (start + e + 2) ['_'] with
        | .ok piece, .ok s' => cutLists fuel s' (remove '"' piece :: acc)
        | _, _ => .panic

/-- `array_tuple!` -/
def arrayTuple (dbg : Str) : Res (List Nat × List Str) :=
  let string := parseInput dbg
  match ndimOf 2 string with
  | .ok ndim =>
    match cutTuples (string.length + 1) string [] with
    | .ok (elems, blanked) =>
      match parseShape ndim blanked with
      | .ok shape => .ok (shape, elems)
      | .err e => .err e
      | .panic => .panic
    | .err e => .err e
    | .panic => .panic
  | .err e => .err e
  | .panic => .panic

/-- `array_list!` -/
def arrayList (dbg : Str) : Res (List Nat × List Str) :=
  let string := parseInput dbg
  match ndimOf 2 string with
  | .ok ndim =>
    match markLists ndim 0 string with
    | .ok marked =>
      match cutLists (marked.length + 1) marked [] with
      | .ok (elems, blanked) =>
        match parseShape ndim blanked with
        | .ok shape => .ok (shape, elems)
        | .err e => .err e
        | .panic => .panic
      | .err e => .err e
      | .panic => .panic
    | .err e => .err e
    | .panic => .panic
  | .err e => .err e
  | .panic => .panic

/-- `array_char!` (repaired) and `array_string!` (repaired) -/
def arrayQuoted (q : Char) (isString : Bool) (dbg : Str) : Res (List Nat × List Str) :=
  let string := parseInput dbg
  match ndimOf 1 string with
  | .ok ndim =>
    match cutQuoted q isString (string.length + 1) string [] with
    | .ok (elems, blanked) =>
      match parseShape ndim blanked with
      | .ok shape => .ok (shape, elems)
      | .err e => .err e
      | .panic => .panic
    | .err e => .err e
    | .panic => .panic
  | .err e => .err e
  | .panic => .panic

def arrayChar := arrayQuoted '\'' false
def arrayString := arrayQuoted '"' true

/-- the tail every arm shares: `.map(|e| e.parse().unwrap())` then `Array::new(elems, shape)` -/
def finish {α} (parse : Str → Option α) (r : Res (List Nat × List Str)) : Res (Arr α) :=
  match r with
  | .ok (shape, texts) =>
    match Res.mapM' (fun t => Res.unwrap (parse t)) texts with
    | .ok elems => Arr.new elems shape
    | .err e => .err e
    | .panic => .panic
  | .err e => .err e
  | .panic => .panic

/-! ## `Display` of arrays (`display.rs:14-33`, repaired: no `len == 1` arm)

`pr` is `format_with_precision(·, precision)`; `alt` is `f.alternate()`; `pre` the indentation of the next level.
`split_axis(0)` followed by `reshape(shape.remove_at(0))` yields the `shape[0]` leading-axis slabs: consecutive
chunks of `prod(shape[1..])` elements. -/

def buildString {α} (pr : α → Str) (alt : Bool) : Nat → List Nat → List α → Str
  | _, [], elems =>
    if elems.isEmpty then ['[', ']'] else '[' :: joinWith [',', ' '] (elems.map pr) ++ [']']
  | _, [_], elems =>
    if elems.isEmpty then ['[', ']'] else '[' :: joinWith [',', ' '] (elems.map pr) ++ [']']
  | pre, n :: m :: rest, elems =>
    if elems.isEmpty then ['[', ']']
    else
      let strs := (chunks (m :: rest).prod n elems).map (buildString pr alt (pre + 1) (m :: rest))
      '[' :: joinWith (if alt then ',' :: '\n' :: rep ' ' pre else [',', ' ']) strs ++ [']']

/-- `format!("{}", a)`, `format!("{:#}", a)`, `format!("{:.p}", a)` -/
def display {α} (pr : α → Str) (alt : Bool) (a : Arr α) : Str := buildString pr alt 1 a.shape a.elems

/-- the pinned `len == 1` arm: `format!("[{}]", elems[0])` with the plain (precision-free) printer -/
def displayPinnedSingle {α} (pr0 : α → Str) (a : Arr α) : Str := '[' :: (a.elems.map pr0).headD [] ++ [']']

/-! ## text forms of `Tuple2`, `Tuple3`, `List` -/

/-- `Display for Tuple2`: `"({}, {})"` -/
def showTuple2 {α β} (sa : α → Str) (sb : β → Str) (x : α × β) : Str :=
  '(' :: sa x.1 ++ [',', ' '] ++ sb x.2 ++ [')']

/-- `Display for Tuple3`: `"({}, {}, {})"` -/
def showTuple3 {α β γ} (sa : α → Str) (sb : β → Str) (sc : γ → Str) (x : α × β × γ) : Str :=
  '(' :: sa x.1 ++ [',', ' '] ++ sb x.2.1 ++ [',', ' '] ++ sc x.2.2 ++ [')']

/-- `Display for List`: `"[{}]"` around the items joined by `", "` -/
def showList {α} (sa : α → Str) (xs : List α) : Str := '[' :: joinWith [',', ' '] (xs.map sa) ++ [']']

/-- the common prologue of the two tuple `from_str`: strip every leading `(`, every trailing `)`, `", "` → `","`, split on `,` -/
def tupleParts (s : Str) : List Str :=
  splitChar ',' (replace [',', ' '] [','] (trimEnd [')'] (trimStart ['('] s)))

/-- `Tuple2::from_str` (`tuple2.rs:17-36`): `none` = `Err(..)`; parts beyond the second are ignored -/
def parseTuple2 {α β} (pa : Str → Option α) (pb : Str → Option β) (s : Str) : Option (α × β) :=
  match tupleParts s with
  | x :: y :: _ =>
    match pa x, pb y with
    | some a, some b => some (a, b)
    | _, _ => none
  | _ => none

/-- `Tuple3::from_str` (`tuple3.rs:18-40`) -/
def parseTuple3 {α β γ} (pa : Str → Option α) (pb : Str → Option β) (pc : Str → Option γ) (s : Str) :
    Option (α × β × γ) :=
  match tupleParts s with
  | x :: y :: z :: _ =>
    match pa x, pb y, pc z with
    | some a, some b, some c => some (a, b, c)
    | _, _, _ => none
  | _ => none

/-- `List::from_str` (`collection/mod.rs:17-33`, repaired): strip leading `(`/`[`, trailing `)`/`]`, `", "` → `","`;
the empty text is the empty list; otherwise every piece between commas must parse -/
def parseList {α} (pa : Str → Option α) (s : Str) : Option (List α) :=
  let t := replace [',', ' '] [','] (trimEnd [')', ']'] (trimStart ['(', '['] s))
  if t.isEmpty then some [] else (splitChar ',' t).mapM pa

/-- `List::from_str` as pinned: only `(`/`)` are stripped and the empty text is not special -/
def parseListPinned {α} (pa : Str → Option α) (s : Str) : Option (List α) :=
  (splitChar ',' (replace [',', ' '] [','] (trimEnd [')'] (trimStart ['('] s)))).mapM pa

end ArrModel.C18
