import ArrModel.C08
/-!
# ArrModel.C10 — the four hand-written sorts, `sort`/`argsort` dispatch, `argmax`/`argmin`, `unique`

Mirrors
* `src/extensions/vec_sort_ext.rs` (`merge_sort`, `quick_sort`, `heap_sort` + `shift_down`,
  `tim_sort` + `calc_min_run` / `insertion_sort` / `merge`) — **as repaired by `fixes/C10-timsort-merge.diff`**
  (the pinned `merge` copies `len1` / `len2` elements from the shorter remainders and panics whenever it is called,
  i.e. for every length >= 32; the pinned `tim_sort` panics on the empty input in `step_by(0)`),
* `src/core/types/sort/mod.rs` (`SortKind`, `parse_kind`),
* `src/core/operations/sort.rs` (`sort`, `argsort`), `search.rs` (`argmax`, `argmin`), `manipulate.rs` (`unique`);
  their `axis = Some(k)` forms go through `apply_along_axis` = `Arr.applyAlongAxis` (`ArrModel/AlongAxis.lean`) and, for
  `argmax`/`argmin`, the `keepdims` wrapper `Arr.countAxis` (`ArrModel/C08.lean`).

Conventions: arrays-in-place are `List α` with bounds-checked primitives that answer `Res.panic` exactly where the Rust
slice operation would (`v[i]`, `swap`, `arr[a..=b]`, `clone_from_slice`, `step_by(0)`, `unwrap`, `Vec::remove`).
Loops that are not structurally recursive take fuel; **running out of fuel is reported as `panic`**, so every
"never panics" theorem is at the same time the proof that the stated fuel suffices.
The element type is abstract: `Cmp α` carries the Rust comparison operators `<`, `<=`, `==` and `is_nan` as Boolean
functions (`PartialOrd`/`PartialEq` promise nothing more); the theorems assume `Cmp.Lawful` (a linear order) where
they need it.
-/
namespace ArrModel.Sort
open ArrModel

/-- `<`, `<=`, `==` and `ArrayElement::is_nan` of the element type -/
structure Cmp (α : Type) where
  lt : α → α → Bool
  le : α → α → Bool
  beq : α → α → Bool
  isNan : α → Bool

/-- `i64` (the tie's element type) -/
def Cmp.int : Cmp Int :=
  { lt := fun a b => decide (a < b), le := fun a b => decide (a ≤ b), beq := fun a b => decide (a = b), isNan := fun _ => false }

/-- `f64` restricted to integer values and NaN (`none`): every comparison with NaN is false -/
def Cmp.f64 : Cmp (Option Int) :=
  { lt := fun a b => match a, b with | some x, some y => decide (x < y) | _, _ => false
    le := fun a b => match a, b with | some x, some y => decide (x ≤ y) | _, _ => false
    beq := fun a b => match a, b with | some x, some y => decide (x = y) | _, _ => false
    isNan := fun a => a.isNone }

variable {α : Type}

/-! ## primitives on a `Vec` used as an array -/

/-- `v[i] = x` -/
def setR (a : List α) (i : Nat) (x : α) : Res (List α) :=
  if i < a.length then .ok (a.set i x) else .panic

/-- `v.swap(i, j)` -/
def swapR (a : List α) (i j : Nat) : Res (List α) :=
  match a[i]?, a[j]? with
  | some x, some y => .ok ((a.set i y).set j x)
  | _, _ => .panic

/-- `v[lo..=hi].to_vec()` : panics when `hi >= len` or `lo > hi + 1` -/
def sliceIncl (a : List α) (lo hi : Nat) : Res (List α) :=
  if hi < a.length ∧ lo ≤ hi + 1 then .ok ((a.drop lo).take (hi + 1 - lo)) else .panic

/-- `v[lo..hi].clone_from_slice(src)` : panics on an invalid range or when the two lengths differ -/
def cloneFromSlice (a : List α) (lo hi : Nat) (src : List α) : Res (List α) :=
  if lo ≤ hi ∧ hi ≤ a.length ∧ hi - lo = src.length then .ok (a.take lo ++ src ++ a.drop hi) else .panic

/-- `v[i..]` : panics when `i > len` -/
def sliceFrom (a : List α) (i : Nat) : Res (List α) :=
  if i ≤ a.length then .ok (a.drop i) else .panic

/-! ## merge_sort (`vec_sort_ext.rs:13-34`) -/

/-- inner recursion of the merge loop on the right operand (`recl r` = merge of the left tail with `r`) -/
def mergeAux (c : Cmp α) (a : α) (recl : List α → List α) : List α → List α
  | [] => a :: recl []
  | b :: r => if c.lt a b then a :: recl (b :: r) else b :: mergeAux c a recl r

/-- the `while i < left.len() && j < right.len()` loop with strict `<`, followed by the two `extend`s -/
def mergeLoop (c : Cmp α) : List α → List α → List α
  | [], r => r
  | a :: l, r => mergeAux c a (mergeLoop c l) r

/-- `merge_sort`; fuel bounds the recursion depth -/
def mergeSortF (c : Cmp α) : Nat → List α → List α
  | 0, xs => xs
  | f + 1, xs =>
    if xs.length ≤ 1 then xs
    else
      let mid := xs.length / 2
      mergeLoop c (mergeSortF c f (xs.take mid)) (mergeSortF c f (xs.drop mid))

def mergeSort (c : Cmp α) (xs : List α) : List α := mergeSortF c xs.length xs

/-! ## quick_sort (`vec_sort_ext.rs:36-48`) -/

/-- first element as pivot, `partition(|it| it < &pivot)`, recurse, `lower ++ [pivot] ++ higher` -/
def quickSortF (c : Cmp α) : Nat → List α → List α
  | 0, xs => xs
  | f + 1, xs =>
    if xs.length ≤ 1 then xs
    else match xs with
      | [] => []
      | pivot :: rest =>
        quickSortF c f (rest.filter (fun it => c.lt it pivot)) ++
          pivot :: quickSortF c f (rest.filter (fun it => !c.lt it pivot))

def quickSort (c : Cmp α) (xs : List α) : List α := quickSortF c xs.length xs

/-! ## heap_sort (`vec_sort_ext.rs:50-81`) -/

/-- `child < end && array[child] < array[child + 1]` selects the larger child -/
def pickChild (c : Cmp α) (a : List α) (child end_ : Nat) : Res Nat :=
  if child < end_ then
    Res.idx a child >>= fun x => Res.idx a (child + 1) >>= fun y =>
      .ok (if c.lt x y then child + 1 else child)
  else .ok child

/-- `shift_down(array, start, end)` — the `loop`; fuel = number of iterations allowed -/
def shiftDown (c : Cmp α) : Nat → List α → Nat → Nat → Res (List α)
  | 0, _, _, _ => .panic
  | f + 1, a, root, end_ =>
    if root * 2 + 1 > end_ then .ok a
    else
      pickChild c a (root * 2 + 1) end_ >>= fun child =>
      Res.idx a root >>= fun r => Res.idx a child >>= fun ch =>
        if c.lt r ch then swapR a root child >>= fun a' => shiftDown c f a' child end_
        else .ok a

/-- `for start in (0..len/2).rev() { shift_down(array, start, len - 1) }` ; `k` = number of starts still to do -/
def heapBuild (c : Cmp α) (n : Nat) : Nat → List α → Res (List α)
  | 0, a => .ok a
  | k + 1, a => shiftDown c (n + 1) a k (n - 1) >>= heapBuild c n k

/-- `for end in (1..len).rev() { array.swap(0, end); shift_down(array, 0, end - 1) }` ; next `end` is `e` -/
def heapExtract (c : Cmp α) (n : Nat) : Nat → List α → Res (List α)
  | 0, a => .ok a
  | e + 1, a => swapR a 0 (e + 1) >>= fun a' => shiftDown c (n + 1) a' 0 e >>= heapExtract c n e

def heapSort (c : Cmp α) (xs : List α) : Res (List α) :=
  if xs.length ≤ 1 then .ok xs
  else heapBuild c xs.length (xs.length / 2) xs >>= heapExtract c xs.length (xs.length - 1)

/-! ## tim_sort (`vec_sort_ext.rs:83-144`, repaired) -/

/-- `while n >= 32 { r |= n & 1; n >>= 1 }  n + r` -/
def calcMinRunLoop : Nat → Nat → Nat → Res Nat
  | 0, _, _ => .panic
  | f + 1, n, r => if n ≥ 32 then calcMinRunLoop f (n >>> 1) (r ||| (n &&& 1)) else .ok (n + r)

def calcMinRun (n : Nat) : Res Nat := calcMinRunLoop (n + 1) n 0

/-- `while j > left && arr[j] < arr[j - 1] { arr.swap(j, j - 1); j -= 1 }` (structural in `j`) -/
def insInner (c : Cmp α) (left : Nat) : Nat → List α → Res (List α)
  | 0, a => .ok a
  | j + 1, a =>
    if j + 1 > left then
      Res.idx a (j + 1) >>= fun x => Res.idx a j >>= fun y =>
        if c.lt x y then swapR a (j + 1) j >>= insInner c left j else .ok a
    else .ok a

/-- `for i in (left + 1)..=right` : `cnt` iterations still to do, the next one at `i` -/
def insOuter (c : Cmp α) (left : Nat) : Nat → Nat → List α → Res (List α)
  | 0, _, a => .ok a
  | cnt + 1, i, a => insInner c left i a >>= insOuter c left cnt (i + 1)

def insertionSort (c : Cmp α) (a : List α) (left right : Nat) : Res (List α) :=
  insOuter c left (right - left) (left + 1) a

/-- the `while i < len1 && j < len2` loop of `merge`, and on exit the two (repaired) remainder copies
`arr[k..k+len1-i] <- left_arr[i..]`, `arr[k+len1-i..k+len1-i+len2-j] <- right_arr[j..]` -/
def mergeWhile (c : Cmp α) (L R : List α) (len1 len2 : Nat) : Nat → List α → Nat → Nat → Nat → Res (List α)
  | 0, _, _, _, _ => .panic
  | f + 1, a, i, j, k =>
    if i < len1 ∧ j < len2 then
      Res.idx L i >>= fun x => Res.idx R j >>= fun y =>
        if c.le x y then setR a k x >>= fun a' => mergeWhile c L R len1 len2 f a' (i + 1) j (k + 1)
        else setR a k y >>= fun a' => mergeWhile c L R len1 len2 f a' i (j + 1) (k + 1)
    else
      sliceFrom L i >>= fun l' => cloneFromSlice a k (k + len1 - i) l' >>= fun a' =>
      sliceFrom R j >>= fun r' => cloneFromSlice a' (k + len1 - i) (k + len1 - i + len2 - j) r'

/-- the remainder copies of `merge` **as pinned** (before `fixes/C10-timsort-merge.diff`):
`arr[k..k+len1] <- left_arr[i..]`, `arr[k+len1..k+len1+len2] <- right_arr[j..]`.  Not used by the model of the
repaired code; kept to state that these two statements panic on every exit of the merge loop (`Props/C10.lean`). -/
def pinnedMergeTail (L R : List α) (len1 len2 : Nat) (a : List α) (i j k : Nat) : Res (List α) :=
  sliceFrom L i >>= fun l' => cloneFromSlice a k (k + len1) l' >>= fun a' =>
  sliceFrom R j >>= fun r' => cloneFromSlice a' (k + len1) (k + len1 + len2) r'

/-- `merge(arr, left, mid, right)` -/
def mergeRuns (c : Cmp α) (a : List α) (left mid right : Nat) : Res (List α) :=
  let len1 := mid - left + 1
  let len2 := right - mid
  sliceIncl a left mid >>= fun L => sliceIncl a (mid + 1) right >>= fun R =>
    mergeWhile c L R len1 len2 (len1 + len2 + 1) a 0 0 left

/-- body of a `for x in (0..n).step_by(step)` loop: next value `cur` -/
def stepLoop (body : List α → Nat → Res (List α)) (n step : Nat) : Nat → Nat → List α → Res (List α)
  | 0, _, _ => .panic
  | f + 1, cur, a => if cur < n then body a cur >>= stepLoop body n step f (cur + step) else .ok a

/-- `for x in (0..n).step_by(step) { body }` ; `step_by(0)` panics -/
def forStepBy (body : List α → Nat → Res (List α)) (n step : Nat) (a : List α) : Res (List α) :=
  if step = 0 then .panic else stepLoop body n step (n + 1) 0 a

/-- one pass of the `while size < n` loop body: `for left in (0..n).step_by(2 * size)` -/
def mergePass (c : Cmp α) (n size : Nat) (a : List α) : Res (List α) :=
  forStepBy (fun a left =>
    let mid := min (n - 1) (left + size - 1)
    let right := min (left + 2 * size - 1) (n - 1)
    if mid < right then mergeRuns c a left mid right else .ok a) n (2 * size) a

/-- `while size < n { pass; size *= 2 }` -/
def sizeLoop (c : Cmp α) (n : Nat) : Nat → Nat → List α → Res (List α)
  | 0, _, _ => .panic
  | f + 1, size, a => if size < n then mergePass c n size a >>= sizeLoop c n f (size * 2) else .ok a

def timSort (c : Cmp α) (xs : List α) : Res (List α) :=
  if xs.length ≤ 1 then .ok xs            -- the repair's early return
  else
    let n := xs.length
    calcMinRun n >>= fun minRun =>
    forStepBy (fun a start => insertionSort c a start (min (start + minRun - 1) (n - 1))) n minRun xs >>= fun a =>
    sizeLoop c n (n + 1) minRun a

/-! ## `SortKind` and its string spellings (`types/sort/mod.rs`) -/

inductive SortKind | Quicksort | Mergesort | Heapsort | Stable
  deriving DecidableEq, Repr

/-- `parse_kind` on the lower-cased text -/
def parseKindLower (s : List Char) : Res SortKind :=
  if s = ['q','u','i','c','k','s','o','r','t'] then .ok .Quicksort
  else if s = ['m','e','r','g','e','s','o','r','t'] then .ok .Mergesort
  else if s = ['h','e','a','p','s','o','r','t'] then .ok .Heapsort
  else if s = ['s','t','a','b','l','e'] then .ok .Stable
  else .err .ParameterError

/-- `str::to_lowercase` on ASCII text (non-ASCII selector names are outside the model) -/
def lowerAscii (s : List Char) : List Char := s.map Char.toLower

/-- the `kind: Option<impl SortKindType>` argument -/
inductive KindArg
  | none
  | enum (k : SortKind)
  | str (s : List Char)

def resolveKind : KindArg → Res SortKind
  | .none => .ok .Quicksort
  | .enum k => .ok k
  | .str s => parseKindLower (lowerAscii s)

/-- the `match kind { … }` dispatch on a lane -/
def sortFlat (c : Cmp α) (k : SortKind) (xs : List α) : Res (List α) :=
  match k with
  | .Mergesort => .ok (mergeSort c xs)
  | .Quicksort => .ok (quickSort c xs)
  | .Heapsort => heapSort c xs
  | .Stable => timSort c xs

/-! ## `argsort` (`sort.rs:79-110`) -/

def enumFrom : Nat → List α → List (Nat × α)
  | _, [] => []
  | n, x :: xs => (n, x) :: enumFrom (n + 1) xs

/-- one call of the `map` closure: `find(..).unwrap()`, `position(..).unwrap()`, `sorted.remove(index)` -/
def argsortStep (c : Cmp α) (sorted : List (Nat × α)) (item : α) : Res (Nat × List (Nat × α)) :=
  match sorted.find? (fun p => c.beq p.2 item) with
  | none => .panic
  | some it =>
    match sorted.findIdx? (fun q => q.1 == it.1 && c.beq q.2 it.2) with
    | none => .panic
    | some k => if k < sorted.length then .ok (it.1, sorted.eraseIdx k) else .panic

def argsortLoop (c : Cmp α) : List (Nat × α) → List α → Res (List Nat)
  | _, [] => .ok []
  | s, x :: xs =>
    argsortStep c s x >>= fun r => argsortLoop c r.2 xs >>= fun rest => .ok (r.1 :: rest)

def argsortFlat (c : Cmp α) (k : SortKind) (xs : List α) : Res (List Nat) :=
  sortFlat c k xs >>= fun sorted => argsortLoop c (enumFrom 0 sorted) xs

/-! ## `unique` (`manipulate.rs:355-366`) -/

def dedupAux (c : Cmp α) (last : α) : List α → List α
  | [] => []
  | y :: r => if c.beq y last then dedupAux c last r else y :: dedupAux c y r

/-- `Vec::dedup` : drops every element equal to the last one kept -/
def dedup (c : Cmp α) : List α → List α
  | [] => []
  | x :: r => x :: dedupAux c x r

/-- `sorted_by(partial_cmp … unwrap_or(Equal))` is the standard library's stable sort; modelled by `List.mergeSort` -/
def uniqueFlat (c : Cmp α) (xs : List α) : List α := dedup c (xs.mergeSort c.le)

/-! ## `argmax` / `argmin` (`search.rs:63-95`) -/

/-- position reported by the flat form: first NaN if any, else first element equal to the last / first element of
the quick-sorted lane (`self.sort(None, Some("quicksort"))`) -/
def argExtremePos (c : Cmp α) (isMax : Bool) (xs : List α) : Res Nat :=
  match xs.findIdx? c.isNan with
  | some i => .ok i
  | none =>
    resolveKind (.str ['q','u','i','c','k','s','o','r','t']) >>= fun k =>
    sortFlat c k xs >>= fun sorted =>
    Res.idx sorted (if isMax then sorted.length - 1 else 0) >>= fun m =>
    Res.unwrap (xs.findIdx? (fun x => c.beq x m))

/-! ## the public operations.  The flat (`axis = None`) forms are the lane functions; `axis = Some(k)` is
`normalize_axis` followed by `apply_along_axis(axis, |arr| arr.op(None, …))`.  `zero` is `T::zero()` (the filler the
transposes inside `apply_along_axis` start from). -/

def sortLane (c : Cmp α) (k : SortKind) (a : Arr α) : Res (Arr α) := (sortFlat c k a.elems).map Arr.flat
def argsortLane (c : Cmp α) (k : SortKind) (a : Arr α) : Res (Arr Nat) := (argsortFlat c k a.elems).map Arr.flat
def uniqueLane (c : Cmp α) (a : Arr α) : Res (Arr α) := .ok (Arr.flat (uniqueFlat c a.elems))

/-- `argmax(None, keepdims)` (`isMax = true`) / `argmin(None, keepdims)`: the empty array is an error value;
`Array::single(pos)`, then `atleast(ndim)` when `keepdims == Some(true)` -/
def argExtremeLane (c : Cmp α) (isMax : Bool) (a : Arr α) (keepdims : Option Bool) : Res (Arr Nat) :=
  if a.isEmpty then .err .ParameterError
  else argExtremePos c isMax a.elems >>= fun i => Arr.keepdimsTail a.ndim keepdims (Arr.single i)

def sort (c : Cmp α) (zero : α) (a : Arr α) (axis : Option Int) (kind : KindArg) : Res (Arr α) :=
  resolveKind kind >>= fun k =>
  match axis with
  | some ax => a.applyAlongAxis zero zero (normalizeAxis a.ndim ax) (sortLane c k)
  | none => sortLane c k a

def argsort (c : Cmp α) (zero : α) (a : Arr α) (axis : Option Int) (kind : KindArg) : Res (Arr Nat) :=
  resolveKind kind >>= fun k =>
  match axis with
  | some ax => a.applyAlongAxis zero (0 : Nat) (normalizeAxis a.ndim ax) (argsortLane c k)
  | none => argsortLane c k a

def unique (c : Cmp α) (zero : α) (a : Arr α) (axis : Option Int) : Res (Arr α) :=
  match axis with
  | some ax => a.applyAlongAxis zero zero (normalizeAxis a.ndim ax) (uniqueLane c)
  | none => uniqueLane c a

/-- `argmax` / `argmin` with their `axis` / `keepdims` wrapper (`search.rs:63-95` after `fix:` 3bafe0c): the lane
results are reshaped to the shape without the axis unless `keepdims == Some(true)` -/
def argExtreme (c : Cmp α) (zero : α) (isMax : Bool) (a : Arr α) (axis : Option Int) (keepdims : Option Bool) :
    Res (Arr Nat) :=
  a.countAxis zero (0 : Nat) axis keepdims (argExtremeLane c isMax)

end ArrModel.Sort
