import ArrModel.C19
import ArrModel.AlongAxis
/-!
# ArrModel.C19Pipe — the axis forms of `unpack_bits` / `pack_bits` on the shared pipeline model of the crate's
`apply_along_axis` (`ArrModel/AlongAxis.lean`), exactly as `binary_bits.rs:78-81,107-110` wraps them:
`let axis = self.normalize_axis(axis); self.apply_along_axis(axis, |arr| arr.unpack_bits(None, count, Some(bit_order)))`.
-/
namespace ArrModel.C19
open ArrModel

/-- the crate's `apply_along_axis` on byte arrays, as an `Along` (fillers `0` = `u8::zero()`) -/
def alongPipe : Along := fun a k f => a.applyAlongAxis 0 0 k f

end ArrModel.C19
