import ArrModel.Split
/-!
# ArrModel.Joining — `append(axis)`, `concatenate`, `stack`, `vstack`, `hstack`, `dstack`, `column_stack`, `row_stack`
and the split conveniences `hsplit`, `vsplit`, `dsplit`.

Mirrors `manipulate.rs:317-341`, `joining.rs`, `split.rs:214-246`, `validators/shape.rs:96-112`
(after the `fix:` commits recorded in known_findings.json; `hstack` is modelled with the correct shape validation —
the pinned refusal is an open known finding, see DESIGN.md).
-/
namespace ArrModel

/-- `Vec::swap(i, j)` (in range) -/
def listSwap {β} (l : List β) (i j : Nat) : List β :=
  match l[i]?, l[j]? with
  | some x, some y => (l.set i y).set j x
  | _, _ => l

namespace Arr
variable {α : Type}

/-- `append(values, None)`: flat concatenation -/
def appendFlat' (a v : Arr α) : Arr α := Arr.flat (a.elems ++ v.elems)

/-- `append(values, Some(axis))` -/
def appendAxis (a v : Arr α) (zero : α) (axis : Nat) : Res (Arr α) :=
  if axis ≥ a.ndim then .err .AxisOutOfBounds
  else if a.ndim ≠ v.ndim then .err .ParameterError
  else
    vecRemove a.shape axis >>= fun ra =>
    vecRemove v.shape axis >>= fun rv =>
    if ra ≠ rv then .err .ParameterError
    else
      a.splitAxis zero axis >>= fun arrays =>
      -- `self.get_shape()?[axis] + values.get_shape()?[axis]` (slice indexing)
      Res.idx a.shape axis >>= fun na =>
      Res.idx v.shape axis >>= fun nv =>
      let newAxisLen := na + nv
      v.splitAxis zero axis >>= fun vals =>
      let array : Arr α := Arr.flat ((arrays ++ vals).flatMap (·.elems))
      let newShape := a.shape.set axis newAxisLen
      let tmpShape := listSwap newShape 0 axis
      let order : List Int := ((List.range' 1 (a.ndim - 1)).insertIdx axis 0).map Int.ofNat
      array.reshape tmpShape >>= fun t =>
      t.transpose zero (some order) >>= fun tr =>
      tr.reshape newShape

/-- `append(values, axis)` -/
def append (a v : Arr α) (zero : α) (axis : Option Nat) : Res (Arr α) :=
  match axis with
  | some ax => a.appendAxis v zero ax
  | none => .ok (a.appendFlat' v)

/-- `validate_stack_shapes(axis, remove_at)` on a non-empty list -/
def validateStackShapes (arrs : List (Arr α)) (axis removeAt : Nat) : Res Unit :=
  if arrs.any (fun a => decide (axis ≥ a.ndim)) then .err .AxisOutOfBounds
  else
    let rec go : List (Arr α) → Res Unit
      | a :: b :: rest =>
        vecRemove a.shape removeAt >>= fun s1 =>
        vecRemove b.shape removeAt >>= fun s2 =>
        if s1 ≠ s2 then .err .ConcatenateShapeMismatch else go (b :: rest)
      | _ => .ok ()
    go arrs

/-- `.fold(initial, |a, b| a.append(&b, axis).unwrap())` -/
def foldAppend (a0 : Arr α) (rest : List (Arr α)) (zero : α) (axis : Option Nat) : Res (Arr α) :=
  rest.foldl (fun (acc : Res (Arr α)) b => acc >>= fun a =>
    match a.append b zero axis with
    | .ok r => .ok r
    | _ => .panic) (.ok a0)

/-- `Array::empty()` -/
def empty : Arr α := ⟨[], [0]⟩

/-- `concatenate(arrs, axis)` -/
def concatenate (arrs : List (Arr α)) (zero : α) (axis : Option Nat) : Res (Arr α) :=
  match arrs with
  | [] => .ok empty
  | a0 :: rest =>
    (match axis with | some ax => validateStackShapes arrs ax ax | none => .ok ()) >>= fun _ =>
    foldAppend a0 rest zero axis

/-- `stack(arrs, axis)` -/
def stack (arrs : List (Arr α)) (zero : α) (axis : Option Nat) : Res (Arr α) :=
  if (match axis with | some ax => arrs.any (fun a => decide (ax ≥ a.ndim)) | none => false) then .err .AxisOutOfBounds
  else match arrs with
  | [] => .ok empty
  | a0 :: rest =>
    if arrs.any (fun a => a.shape ≠ a0.shape) then .err .ParameterError
    else
      let ax := axis.getD 0
      vecInsert a0.shape ax arrs.length >>= fun newShape =>
      foldAppend a0 rest zero (some ax) >>= fun r => r.reshape newShape

/-- `vstack(arrs)` -/
def vstack (arrs : List (Arr α)) (zero : α) : Res (Arr α) :=
  match arrs with
  | [] => .ok empty
  | a0 :: _ =>
    validateStackShapes arrs 0 0 >>= fun _ =>
    (if a0.shape.length = 1 then
       -- vectors become the rows of the result: they must all have the shape of the first one
       (if arrs.any (fun a => a.shape ≠ a0.shape) then .err .ConcatenateShapeMismatch else vecInsert a0.shape 0 arrs.length)
     else
       -- `b.shape[0]` for every array (rank >= 1 guaranteed by the validation above)
       Res.mapM' (fun (b : Arr α) => Res.idx b.shape 0) arrs >>= fun ds => .ok (a0.shape.set 0 ds.sum)) >>= fun newShape =>
    concatenate arrs zero (some 0) >>= fun c => c.reshape newShape

/-- `hstack(arrs)` -/
def hstack (arrs : List (Arr α)) (zero : α) : Res (Arr α) :=
  match arrs with
  | [] => .ok empty
  | _ =>
    if arrs.all (fun a => a.ndim == 1) then concatenate arrs zero (some 0)
    else
      Res.mapM' (fun (a : Arr α) => a.atleast 2) arrs >>= fun arrs2 =>
      validateStackShapes arrs2 1 1 >>= fun _ =>
      Res.mapM' (fun (b : Arr α) => Res.idx b.shape 1) arrs2 >>= fun ds =>
      (Res.idx arrs2 0) >>= fun a0 =>
      let newShape := a0.shape.set 1 ds.sum
      concatenate arrs2 zero (some 1) >>= fun c => c.reshape newShape

/-- `dstack(arrs)` -/
def dstack (arrs : List (Arr α)) (zero : α) : Res (Arr α) :=
  match arrs with
  | [] => .ok empty
  | _ =>
    Res.mapM' (fun (a : Arr α) => a.atleast 3) arrs >>= fun arrs3 =>
    validateStackShapes arrs3 2 2 >>= fun _ =>
    Res.mapM' (fun (b : Arr α) => Res.idx b.shape 2) arrs3 >>= fun ds =>
    (Res.idx arrs3 0) >>= fun a0 =>
    let newShape := a0.shape.set 2 ds.sum
    concatenate arrs3 zero (some 2) >>= fun c => c.reshape newShape

/-- `column_stack(arrs)`: 1-D inputs become columns, 2-D inputs are laid side by side -/
def columnStack (arrs : List (Arr α)) (zero : α) : Res (Arr α) :=
  match arrs with
  | [] => .ok empty
  | a0 :: _ =>
    (Res.idx a0.shape 0) >>= fun numRows =>
    if arrs.any (fun a => !(a.ndim == 1 || a.ndim == 2)) then .err .UnsupportedDimension
    else
      Res.mapM' (fun (a : Arr α) => Res.idx a.shape 0) arrs >>= fun firsts =>
      if firsts.any (fun d => d ≠ numRows) then .err .ParameterError
      else
        let cols := arrs.map (fun a => if a.ndim = 1 then 1 else a.shape.getD 1 0)
        let totalCols := cols.sum
        -- row by row: the `array_cols` entries of that row of every input, in input order
        Res.mapM' (fun row =>
          Res.mapM' (fun (p : Arr α × Nat) =>
            Res.mapM' (fun col => Res.idx p.1.elems (row * p.2 + col)) (List.range p.2)) (arrs.zip cols) >>= fun parts =>
          .ok parts.flatten) (List.range numRows) >>= fun rows =>
        let _ := zero
        Arr.new rows.flatten [numRows, totalCols]

/-- `row_stack` = `vstack` -/
def rowStack (arrs : List (Arr α)) (zero : α) : Res (Arr α) := vstack arrs zero

/-- `hsplit(parts)` -/
def hsplit (a : Arr α) (zero : α) (parts : Nat) : Res (List (Arr α)) :=
  if a.ndim = 0 then .err .UnsupportedDimension
  else if parts = 0 then .err .ParameterError
  else if a.ndim = 1 then a.split zero parts (some 0) else a.split zero parts (some 1)

/-- `vsplit(parts)` -/
def vsplit (a : Arr α) (zero : α) (parts : Nat) : Res (List (Arr α)) :=
  if a.ndim = 0 ∨ a.ndim = 1 then .err .UnsupportedDimension
  else if parts = 0 then .err .ParameterError
  else a.split zero parts (some 0)

/-- `dsplit(parts)` -/
def dsplit (a : Arr α) (zero : α) (parts : Nat) : Res (List (Arr α)) :=
  if a.ndim = 0 ∨ a.ndim = 1 ∨ a.ndim = 2 then .err .UnsupportedDimension
  else if parts = 0 then .err .ParameterError
  else a.split zero parts (some 2)

end Arr
end ArrModel
