import ArrModel.Index
/-! `reshape`, `ravel` (`manipulate.rs:343-346, 368-370`) — shared by almost every operation -/
namespace ArrModel.Arr
variable {α : Type}

/-- `reshape`: `shape.matches_values_len(elements)?; Self::new(elements.clone(), shape)` -/
def reshape (a : Arr α) (shape : List Nat) : Res (Arr α) := Arr.new a.elems shape

/-- `ravel`: `self.elements.to_array()` = `flat` -/
def ravel (a : Arr α) : Arr α := Arr.flat a.elems

end ArrModel.Arr
