import ArrModel.Index
/-!
# ArrModel.C14 — `dot`, `vdot`, `inner`, `outer`, `matmul` and their helpers

Mirrors `src/linalg/operations/products.rs` (rank dispatch of `dot`/`matmul`/`inner`, the helpers
`matmul_iterate`, `matmul_1d_nd`, `matmul_nd`, `dot_1d`, `dot_iterate`, `inner_nd`), the two row/column
helpers of `src/linalg/operations/common.rs` and `shapes_align` of `src/validators/shape.rs:45-51`,
**as repaired by `/verif/fixes/C14-*.diff`** (see those files for what the pinned tree does instead):

* `matmul`, 2-D × 2-D arm: `shapes_align(1, other, 0)` (pinned: `(0, other, 1)`);
* `dot`, 2-D × 2-D arm: keeps the pinned extra refusal `shapes_align(0, other, 1)` in front of `matmul`,
  because `products_test::test_linalg_dot::case_15` expects `2×2 · 2×3` to be refused (open finding);
* `matmul`, 1-D × N-D arm: `shapes_align(0, other, ndim-2)` (pinned: `ndim-1`) and
  `result[j] = Σ_i a[i]·b[i,j]` (pinned: `a[i]·Σ_j b[i,j]`);
* `matmul_nd`: one chunk length per operand (pinned: the chunk length of the first operand for both).

Elements are `Int` (a commutative ring).  The Rust computes in `f64` and casts back; on the integer-valued
inputs of the tie that arithmetic is exact.  The accumulation order of the Rust folds is kept
(`mul_add(a, b, acc)` ↦ `a*b + acc`, `sum::<f64>()` ↦ `acc + x`, both left folds over the shared index).

Every Rust `v[i]` is `Res.idx` (out of bounds = panic); `usize` subtraction below zero would panic in the
Rust (overflow checks) and truncates to `0` here — at each such site the following slice access then panics
as well (`[][0]`), so the outcome class agrees.
Straight-line iterator pipelines (`split_axis(0)`, `split(parts, Some(0))`, `cycle().take(len)`,
`parse_elements`, `transpose` of a matrix) are modelled by their list equivalents on well-formed arrays.
Zero-length operands: every path through `zip` / `broadcast` (`vdot`, the 1-D arm of `inner`, the one-element arm of
`dot`) refuses an empty operand (`is_broadcastable`, `shape.rs:18-29`), `split` of an empty array is the array itself
(`innerSplit`); the index loops of `matmul` go through as written (empty sums, or a panic where `[][0]` is read).
-/

namespace ArrModel.C14
open ArrModel

abbrev A := Arr Int

/-! ### primitives -/

/-- `Vec<usize>::shapes_align(i, other, j)` (`shape.rs:45-51`): `if self[i] == other[j] { Ok } else { Err(ParameterError) }` -/
def shapesAlign (s : List Nat) (i : Nat) (t : List Nat) (j : Nat) : Res Unit :=
  match s[i]?, t[j]? with
  | some x, some y => if x = y then .ok () else .err .ParameterError
  | _, _ => .panic

/-- `Vec::remove_at(index)`: `Vec::remove` panics when out of range -/
def removeAt (l : List Nat) (i : Nat) : Res (List Nat) :=
  if i < l.length then .ok (l.eraseIdx i) else .panic

/-- `reshape(shape)` of freshly collected elements: `matches_values_len` then `Array::new` -/
def reshape (elems : List Int) (shape : List Nat) : Res A :=
  if shape.prod = elems.length then .ok ⟨elems, shape⟩ else .err .ShapeMustMatchValuesLength

/-- `.reshape(..).unwrap()` -/
def reshapeUnwrap (elems : List Int) (shape : List Nat) : Res A :=
  if shape.prod = elems.length then .ok ⟨elems, shape⟩ else .panic

/-- `iter.map(f).collect::<Vec<Result<_,_>>>().has_error()?`: every element is evaluated first
(a panic anywhere is a panic), then the first error wins. -/
def collectRes {α} (l : List (Res α)) : Res (List α) :=
  if l.any Res.isPanic then .panic else Res.sequence l

/-- a left fold whose step may panic (`(0..m).fold(..)`, `.sum::<f64>()` over an indexing closure) -/
def foldRes {β} (f : β → Nat → Res β) : List Nat → β → Res β
  | [], acc => .ok acc
  | k :: ks, acc => (f acc k).bind (fun acc' => foldRes f ks acc')

/-- `cnt` consecutive pieces of length `k` (`skip(i*k).take(k)`): `parse_elements`, and the equal-size
cut of `array_split` along axis 0 / of a raveled array -/
def pieces (k : Nat) (xs : List Int) (cnt : Nat) : List (List Int) :=
  (List.range cnt).map (fun i => (xs.drop (i * k)).take k)

/-- `Σ xs[i]·ys[i]` as the Rust left fold `fold(0., |a, b| a + b)` over the zipped products -/
def sumProd (xs ys : List Int) : Int := (List.zipWith (· * ·) xs ys).foldl (· + ·) 0

/-! ### vdot, outer -/

/-- `vdot` (`products.rs:132-138`): `len` equal, else `MustBeEqual`; ravel both, zip, multiply, sum; `Array::single`.
Zero-length operands: `zip` is `other.broadcast_to(self.shape)` whose first step `is_broadcastable` refuses every
zero-length axis (`shape.rs:18-29`), so two empty operands are refused with `BroadcastShapeMismatch`
(`C14.vdot_eq_zip` in `Lemmas/C14Ext.lean` shows this arm is the shared `Arr.zip` model on the raveled operands). -/
def vdot (a b : A) : Res A :=
  if a.len = b.len then
    (if a.len = 0 then .err .BroadcastShapeMismatch else .ok ⟨[sumProd a.elems b.elems], [1]⟩)
  else .err .MustBeEqual

/-- `outer` (`products.rs:153-159`) -/
def outer (a b : A) : Res A :=
  reshape (a.elems.flatMap (fun x => b.elems.map (fun y => x * y))) [a.len, b.len]

/-! ### inner -/

/-- 1-D × 1-D arm of `inner` (`products.rs:141-146`); `self.zip(other)?` refuses zero-length operands
(`broadcast_to` → `is_broadcastable`), see `vdot` -/
def inner11 (a b : A) : Res A := do
  shapesAlign a.shape 0 b.shape 0
  if a.len = 0 ∨ b.len = 0 then .err .BroadcastShapeMismatch
  else .ok ⟨[sumProd a.elems b.elems], [1]⟩

/-- `inner_split`: ravel, then `split(prod(shape without last axis), None)`: the rows -/
def innerSplit (a : A) : Res (List A) := do
  let outerShape ← removeAt a.shape (a.ndim - 1)
  let parts := outerShape.prod
  if parts = 0 then .err .ParameterError
  else if a.len = 0 then .ok [Arr.flat a.elems]     -- `split`: `is_empty` ⇒ `vec![self.clone()]` (one empty piece, whatever `parts` is)
  else .ok ((pieces (a.len / parts) a.elems parts).map Arr.flat)

/-- `inner_nd` (`products.rs:253-275`); the recursive `v_a1.inner(v_a2)` is on 1-D rows, i.e. `inner11` -/
def innerNd (a b : A) : Res A := do
  let s1 ← removeAt a.shape (a.ndim - 1)
  let s2 ← removeAt b.shape (b.ndim - 1)
  let v1 ← innerSplit a
  let v2 ← innerSplit b
  let rs ← collectRes (v1.flatMap (fun x => v2.map (fun y => inner11 x y)))
  reshape (rs.flatMap (·.elems)) (s1 ++ s2)

/-- `inner` (`products.rs:140-151`) -/
def inner (a b : A) : Res A :=
  if a.ndim = 1 ∧ b.ndim = 1 then inner11 a b
  else do
    shapesAlign a.shape (a.ndim - 1) b.shape (b.ndim - 1)
    innerNd a b

/-! ### matmul -/

/-- one cell of `matmul_iterate`: `(0..m).fold(0., |acc, k| a[i*m+k].mul_add(b[k*p+j], acc))` -/
def cell (a b : A) (m p i j : Nat) : Res Int :=
  foldRes (fun acc k => do
    let x ← Res.idx a.elems (i * m + k)
    let y ← Res.idx b.elems (k * p + j)
    pure (x * y + acc)) (List.range m) 0

/-- `matmul_iterate` (`products.rs:277-286`) -/
def matmulIterate (a b : A) : Res A := do
  let n ← Res.idx a.shape 0
  let m ← Res.idx a.shape 1
  let p ← Res.idx b.shape 1
  let cells ← collectRes ((List.range n).flatMap (fun i => (List.range p).map (fun j => cell a b m p i j)))
  reshape cells [n, p]

/-- 2-D × 2-D arm of `matmul` (`products.rs:168-170`, repaired check) -/
def matmul22 (a b : A) : Res A := do
  shapesAlign a.shape 1 b.shape 0
  matmulIterate a b

/-- `split_axis(0)` of an array of rank ≥ 2: `array_split(shape[0], Some(0))`, the `shape[0]` equal slabs -/
def splitAxis0 (x : A) : Res (List (List Int)) :=
  if x.len = 0 then .ok [x.elems]                 -- `is_empty` ⇒ `vec![self.clone()]`
  else do
    let s0 ← Res.idx x.shape 0
    if s0 = 0 then .err .ParameterError           -- `array_split(0, _)`
    else .ok (pieces (x.len / s0) x.elems s0)

/-- vector · matrix cell (repaired): `(0..n).map(|i| a[i] * b[i*p + j]).sum::<f64>()` -/
def vecMatCell (a b : A) (n p j : Nat) : Res Int :=
  foldRes (fun acc i => do
    let x ← Res.idx a.elems i
    let y ← Res.idx b.elems (i * p + j)
    pure (acc + x * y)) (List.range n) 0

/-- matrix · vector cell: `(0..k).map(|idx| row[idx] * b[idx]).sum::<f64>()` -/
def matVecCell (row : List Int) (b : A) (k : Nat) : Res Int :=
  foldRes (fun acc idx => do
    let x ← Res.idx row idx
    let y ← Res.idx b.elems idx
    pure (acc + x * y)) (List.range k) 0

/-- `matmul_1d_nd` (`products.rs:288-334`), four arms; recursion on the rank of the N-D operand (fuel) -/
def matmul1dNd : Nat → A → A → Res A
  | 0, _, _ => .panic
  | fuel + 1, a, b =>
    if a.ndim = 1 then
      if b.ndim > 2 then do
        let newShape ← removeAt b.shape 0
        let slabs ← splitAxis0 b
        let rs ← collectRes (slabs.map (fun sl => (reshapeUnwrap sl newShape).bind (fun s => matmul1dNd fuel a s)))
        reshape (rs.flatMap (·.elems)) newShape
      else do
        let n ← Res.idx b.shape 0
        let p ← Res.idx b.shape 1
        let cells ← collectRes ((List.range p).map (fun j => vecMatCell a b n p j))
        .ok (Arr.flat cells)
    else if a.ndim > 2 then do
      let newShape ← removeAt a.shape 0
      let slabs ← splitAxis0 a
      let rs ← collectRes (slabs.map (fun sl => (reshapeUnwrap sl newShape).bind (fun s => matmul1dNd fuel s b)))
      reshape (rs.flatMap (·.elems)) newShape
    else do
      -- rows of the matrix: `split_axis(0)` pieces of shape `[1, k]`; `arr.shape[arr.shape.len() - 1]` is `k`
      let rows ← splitAxis0 a
      let k ← Res.idx a.shape (a.ndim - 1)
      let cells ← collectRes (rows.map (fun row => matVecCell row b k))
      .ok (Arr.flat cells)

/-- `matmul_split` inside `matmul_nd` (`products.rs:337-348`):
`arr.split(arr.len()/chunk_len, Some(0))`, `cycle().take(len)`, each piece `reshape(shape_last).unwrap()` -/
def matmulSplit (x : A) (len chunk : Nat) : Res (List A) :=
  let shapeLast := (x.shape.drop (x.ndim - 2)).take 2
  if chunk = 0 then .panic                       -- division by zero
  else
    let parts := x.len / chunk
    if parts = 0 then .err .ParameterError       -- `split(0, _)`
    else match x.shape[0]? with
      | none => .panic
      | some s0 =>
        if s0 % parts ≠ 0 then .err .ParameterError   -- "array split does not result in an equal division"
        else
          let ps := pieces (x.len / parts) x.elems parts
          collectRes ((List.range len).map (fun i => reshapeUnwrap (ps.getD (i % parts) []) shapeLast))

/-- `matmul_nd` (`products.rs:336-368`, repaired chunk lengths).  The per-pair `a.matmul(b)` is on pieces that
were reshaped to their last two axes, so it is the 2-D × 2-D arm `matmul22`. -/
def matmulNd (a b : A) : Res A := do
  let base := if a.ndim ≥ b.ndim then a.shape else b.shape
  let l := base.length
  let d1 ← Res.idx a.shape (a.ndim - 2)
  let d2 ← Res.idx b.shape (b.ndim - 1)
  if l < 2 then .panic else
  let newShape := (base.set (l - 2) d1).set (l - 1) d2
  let chunk1 := (a.shape.drop (a.ndim - 2)).prod
  let chunk2 := (b.shape.drop (b.ndim - 2)).prod
  if chunk1 = 0 ∨ chunk2 = 0 then .panic else
  let len := max (a.len / chunk1) (b.len / chunk2)
  let as ← matmulSplit a len chunk1
  let bs ← matmulSplit b len chunk2
  let rs ← collectRes ((as.zip bs).map (fun ab => matmul22 ab.1 ab.2))
  reshape (rs.flatMap (·.elems)) newShape

/-- `matmul` (`products.rs:161-174`, repaired) -/
def matmul (a b : A) : Res A :=
  if a.ndim = 1 ∧ b.ndim = 1 then vdot a b
  else if a.ndim = 1 ∨ b.ndim = 1 then do
    (if a.ndim = 1 then shapesAlign a.shape 0 b.shape (b.ndim - 2)
     else shapesAlign a.shape (a.ndim - 1) b.shape 0)
    matmul1dNd (a.ndim + b.ndim) a b
  else if a.ndim = 2 ∧ b.ndim = 2 then matmul22 a b
  else matmulNd a b

/-! ### dot -/

/-- `broadcast_shape` restricted to what `dot` needs (one operand has a single element, so every dimension
pair contains a 1 and no mismatch arm is reachable): right-aligned, `if dim1 == 1 { dim2 } else { dim1 }` -/
def bshape (s t : List Nat) : List Nat :=
  let n := max s.length t.length
  let pad := fun (u : List Nat) => u.reverse ++ List.replicate (n - u.length) 1
  (List.zipWith (fun d1 d2 => if d1 = 1 then d2 else d1) (pad s) (pad t)).reverse

/-- `self.multiply(other)` when one operand has exactly one element.  An EMPTY other operand is refused: `broadcast`
ends in `other.broadcast_to(final_shape)`, whose `is_broadcastable` meets the operand's own zero-length axis. -/
def multiplyScalar (a b : A) : Res A :=
  match a.elems, b.elems with
  | [_], [] => .err .BroadcastShapeMismatch
  | [], [_] => .err .BroadcastShapeMismatch
  | [x], ys => .ok ⟨ys.map (fun y => x * y), bshape a.shape b.shape⟩
  | xs, [y] => .ok ⟨xs.map (fun x => x * y), bshape a.shape b.shape⟩
  | _, _ => .panic

/-- `get_rows` of a matrix: `parse_elements(elements, shape[0], shape[1])` -/
def getRows (a : A) : Res (List A) := do
  let rows ← Res.idx a.shape 0
  let rowLen ← Res.idx a.shape 1
  .ok ((pieces rowLen a.elems rows).map Arr.flat)

/-- `get_columns` of a matrix: the transposed elements cut into `shape[1]` pieces of length `shape[0]` -/
def getColumns (b : A) : Res (List A) := do
  let colLen ← Res.idx b.shape 0
  let cols ← Res.idx b.shape 1
  .ok ((List.range cols).map (fun j => Arr.flat ((List.range colLen).map (fun i => b.elems.getD (i * cols + j) 0))))

/-- `dot_iterate` (`products.rs:209-218`) -/
def dotIterate (v1 v2 : List A) : Res A := do
  let rs ← collectRes (v1.flatMap (fun x => v2.map (fun y => vdot x y)))
  .ok (Arr.flat (rs.flatMap (·.elems)))

/-- `dot_1d` (`products.rs:220-224`) for operands of rank ≤ 2 -/
def dot1d (a b : A) : Res A := do
  let v1 ← if a.ndim > 1 then getRows a else pure [a]
  let v2 ← if b.ndim > 1 then getColumns b else pure [b]
  dotIterate v1 v2

/-- `dot` (`products.rs:118-130`).  `none`: an arm with an operand of rank ≥ 3 (`dot_1d` on a stack, `dot_nd`),
which the property does not speak about; those two arms are modelled in `ArrModel/C14Ext.lean` (`dotFull`). -/
def dot (a b : A) : Option (Res A) :=
  if a.len = 1 ∨ b.len = 1 then some (multiplyScalar a b)
  else if a.ndim = 1 ∧ b.ndim = 1 then some (vdot a b)
  else if a.ndim = 2 ∧ b.ndim = 2 then some (do
    shapesAlign a.shape 0 b.shape 1      -- test-pinned refusal kept by the repair (open finding)
    matmul a b)
  else if a.ndim = 1 ∨ b.ndim = 1 then
    (if a.ndim ≤ 2 ∧ b.ndim ≤ 2 then some (dot1d a b) else none)
  else none

/-- which dispatch arm a call takes (reported by the driver for arm coverage) -/
def matmulArm (a b : A) : String :=
  if a.ndim = 1 ∧ b.ndim = 1 then "vdot"
  else if a.ndim = 1 ∨ b.ndim = 1 then
    (if a.ndim = 1 then (if b.ndim > 2 then "1d_nd" else "1d_2d") else (if a.ndim > 2 then "nd_1d" else "2d_1d"))
  else if a.ndim = 2 ∧ b.ndim = 2 then "2d_2d"
  else "nd"

end ArrModel.C14
