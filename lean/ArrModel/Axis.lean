import ArrModel.Reshape
/-!
# ArrModel.Axis — `normalize_axis`, `transpose`, `moveaxis`, `rollaxis`, `swapaxes`

Mirrors `src/core/operations/axis.rs:186-264` and `manipulate.rs:476-484`.
`transpose` is the scatter the Rust performs: every input position `i` (coordinates `c = unravel shape i`, enumerated
by the nested loops in row-major order) is written to output position `horner outShape (permute axes c)`,
starting from a buffer of `T::zero()`.
-/
namespace ArrModel

/-- `usize::MAX + 1` -/
def USIZE : Nat := 2 ^ 64

/-- `normalize_axis`: `if axis < 0 { (axis + ndim as isize) as usize } else { axis as usize }`
(a still-negative sum wraps around to a huge `usize`) -/
def normalizeAxis (ndim : Nat) (axis : Int) : Nat :=
  if axis < 0 then
    let v := axis + (ndim : Int)
    if v < 0 then (v + (USIZE : Int)).toNat else v.toNat
  else axis.toNat

/-- `axes.iter().map(|&ax| current_indices[ax])` (in-range axes only; validated before use) -/
def permute (axes c : List Nat) : List Nat := axes.map (fun ax => c.getD ax 0)

/-- `shape.iter().enumerate().fold(0, |acc, (dim, size)| acc * size + indices[dim])` -/
def horner (shape idx : List Nat) : Nat := (shape.zip idx).foldl (fun acc p => acc * p.1 + p.2) 0

/-- the transpose loop: `for i in 0..n { out[g i] = v i }` starting from `init` -/
def scatter {α} (g : Nat → Nat) (v : Nat → α) (init : List α) (n : Nat) : List α :=
  (List.range n).foldl (fun out i => out.set (g i) (v i)) init

/-- element buffer produced by `transpose_recursive` -/
def transposeElems {α} (shape axes : List Nat) (elems : List α) (zero : α) : List α :=
  scatter (fun i => horner (permute axes shape) (permute axes (unravel shape i)))
          (fun i => elems.getD i zero) (List.replicate elems.length zero) elems.length

/-- lexicographic `≤` on pairs, as `sorted()` on `(usize, usize)` tuples -/
def pairLe (p q : Nat × Nat) : Bool := p.1 < q.1 || (p.1 == q.1 && p.2 ≤ q.2)

/-- axes must be a permutation of `0..ndim`: right length, in bounds, no repetition -/
def validAxes (nd : Nat) (ax : List Nat) : Res Unit :=
  if ax.length ≠ nd then .err .MustBeEqual
  else if ax.any (fun x => decide (x ≥ nd)) then .err .AxisOutOfBounds
  else if ¬ ax.Nodup then .err .MustBeUnique
  else .ok ()

/-- the normalised axis list `transpose` works with: `None` = the reversed axes (`current_indices.iter().rev()`),
`Some(axes)` = each entry through `normalize_axis` -/
def axesOf (nd : Nat) : Option (List Int) → List Nat
  | none => (List.range nd).reverse
  | some l => l.map (normalizeAxis nd)

namespace Arr
variable {α : Type}

/-- `transpose(axes)`; `none` = reversed axes -/
def transpose (a : Arr α) (zero : α) (axes : Option (List Int)) : Res (Arr α) :=
  let ax := axesOf a.ndim axes
  validAxes a.ndim ax >>= fun _ =>
  Arr.new (transposeElems a.shape ax a.elems zero) (permute ax a.shape)

/-- the axis order built by `moveaxis` -/
def moveaxisOrder (nd : Nat) (s d : List Nat) : List Nat :=
  let order0 := (List.range nd).filter (fun f => !s.contains f)
  ((d.zip s).mergeSort pairLe).foldl (fun o p => o.insertIdx (min p.1 o.length) p.2) order0

/-- `moveaxis(source, destination)` -/
def moveaxis (a : Arr α) (zero : α) (src dst : List Int) : Res (Arr α) :=
  if ¬ src.Nodup then .err .MustBeUnique
  else if src.length ≠ dst.length then .err .MustBeEqual
  else
    let s := src.map (normalizeAxis a.ndim)
    let d := dst.map (normalizeAxis a.ndim)
    if ¬ s.Nodup then .err .MustBeUnique
    else if ¬ d.Nodup then .err .MustBeUnique
    else a.transpose zero (some ((moveaxisOrder a.ndim s d).map Int.ofNat))

/-- the axis order built by `rollaxis` -/
def rollaxisOrder (nd axis start : Nat) : List Nat := ((List.range nd).eraseIdx axis).insertIdx start axis

/-- `start.map_or(0, |ax| self.normalize_axis(ax))` -/
def startOf (nd : Nat) : Option Int → Nat
  | none => 0
  | some s => normalizeAxis nd s

/-- `rollaxis(axis, start)` -/
def rollaxis (a : Arr α) (zero : α) (axis : Int) (start : Option Int) : Res (Arr α) :=
  let ax := normalizeAxis a.ndim axis
  let st := startOf a.ndim start
  if ax ≥ a.ndim then .err .AxisOutOfBounds
  else if st ≥ a.ndim then .err .AxisOutOfBounds
  else a.transpose zero (some ((rollaxisOrder a.ndim ax st).map Int.ofNat))

/-- `Vec::swap` on `0..nd` -/
def swapOrder (nd i j : Nat) : List Nat :=
  (List.range nd).map (fun k => if k = i then j else if k = j then i else k)

/-- `swapaxes(axis_1, axis_2)` -/
def swapaxes (a : Arr α) (zero : α) (ax1 ax2 : Int) : Res (Arr α) :=
  let i := normalizeAxis a.ndim ax1
  let j := normalizeAxis a.ndim ax2
  if i ≥ a.ndim then .err .AxisOutOfBounds
  else if j ≥ a.ndim then .err .AxisOutOfBounds
  else a.transpose zero (some ((swapOrder a.ndim i j).map Int.ofNat))

end Arr
end ArrModel
