import ArrModel.C14
import ArrModel.Split
import ArrModel.Broadcast
/-!
# ArrModel.C14Ext — the arms of `dot` with an operand of rank ≥ 3 (`dot_1d` on a stack, `dot_nd`)

`src/linalg/operations/products.rs:126-130, 203-252` and `get_rows` / `get_columns` of
`src/linalg/operations/common.rs:28-49`, **as written**.  The C14 statement speaks of "the dot product of operands up to
rank two", so these arms are outside the statement; they are modelled so that the tie compares them (they used to be
`Open`) and so that `Props/C14.lean` can say by theorem what they compute and where that differs from the N-D × M-D
formula numpy documents (`dot(a, b)[i.., j.., m] = Σ_k a[i.., k] · b[j.., k, m]`, a sum over the LAST axis of `a` and the
SECOND-TO-LAST axis of `b`).

The pieces that come from other files of the crate are the shared executable models of this repository:
`Arr.splitAxis`, `Arr.split` (`ArrModel/Split.lean`), `Arr.transpose` (`ArrModel/Axis.lean`), with `T::zero() = 0`.
-/
namespace ArrModel.C14
open ArrModel

/-- `get_columns` (`common.rs:28-36`) for any rank ≥ 2: `col_len = shape[0]`, `cols = shape[1]`, the elements of
`transpose(None)` (ALL axes reversed) cut into `cols` pieces of length `col_len` -/
def getColumnsNd (b : A) : Res (List A) := do
  let colLen ← Res.idx b.shape 0
  let cols ← Res.idx b.shape 1
  let t ← b.transpose 0 none
  .ok ((pieces colLen t.elems cols).map Arr.flat)

/-- `dot_1d` (`products.rs:221-225`) for every rank: `get_rows` uses `shape[0]` pieces of length `shape[1]` of the
element buffer whatever the rank is (that is `getRows`), `get_columns` is `getColumnsNd` -/
def dot1dNd (a b : A) : Res A := do
  let v1 ← if a.ndim > 1 then getRows a else pure [a]
  let v2 ← if b.ndim > 1 then getColumnsNd b else pure [b]
  dotIterate v1 v2

/-- `dot_split_array(arr, axis)` (`products.rs:203-208`): `split_axis(axis)`, all pieces poured into one flat array,
that array `split` into `prod(shape without the axis)` equal parts -/
def dotSplitArray (x : A) (axis : Nat) : Res (List A) := do
  let ps ← x.splitAxis 0 axis
  let sh ← removeAt x.shape axis
  (Arr.flat (ps.flatMap (·.elems))).split 0 sh.prod none

/-- the `pairs` axis list of `dot_nd` (`products.rs:235-248`) for a result of rank `n`:
`(0..n)`, reversed if `rev`, every second item, each item mapped to one or two axes, the list of groups reversed
again if `rev`, flattened -/
def dotPairs (n : Nat) (rev : Bool) : List Int :=
  let items : List Int := (List.range n).map Int.ofNat
  let items := if rev then items.reverse else items
  let stepped := (List.range ((items.length + 1) / 2)).map (fun i => items.getD (2 * i) 0)
  let groups : List (List Int) := stepped.map (fun item =>
    if rev then (if item ≤ 1 then [item] else [item, item - 1])
    else if (n : Int) > item + 1 then [item + 1, item]
    else [item])
  let groups := if rev then groups.reverse else groups
  groups.flatten

/-- `dot_nd` (`products.rs:227-252`) -/
def dotNd (a b : A) : Res A := do
  shapesAlign a.shape (a.ndim - 1) b.shape (b.ndim - 2)
  let s1 ← removeAt a.shape (a.ndim - 2)
  let s2 ← removeAt b.shape (b.ndim - 1)
  let newShape := s1 ++ s2
  let v1 ← dotSplitArray a (a.ndim - 2)
  let v2 ← dotSplitArray b (b.ndim - 1)
  let rev := decide (b.len > a.len)
  let pairs := dotPairs newShape.length rev
  let d ← dotIterate v1 v2
  let r ← reshape d.elems newShape
  r.transpose 0 (some pairs)

/-- `dot` (`products.rs:118-130`), every arm: the arms of `C14.dot` where it answers, else `dot_1d` on a stack /
`dot_nd` -/
def dotFull (a b : A) : Res A :=
  match dot a b with
  | some r => r
  | none => if a.ndim = 1 ∨ b.ndim = 1 then dot1dNd a b else dotNd a b

/-- the N-D × M-D formula numpy documents, as a reference array (used by the deviation witnesses only):
shape `la ++ [n] ++ lb ++ [p]` for operands `la ++ [n, m]` and `lb ++ [m, p]`, entry `(i.., t, j.., u)` is
`Σ_k a[i.., t, k] · b[j.., k, u]`; operands are read through their flat buffers -/
def dotNumpy (a b : A) (la lb : List Nat) (n m p : Nat) : A :=
  ⟨(List.range (la.prod * n)).flatMap (fun it =>
      (List.range lb.prod).flatMap (fun j =>
        (List.range p).map (fun u =>
          ((List.range m).map (fun k => a.elems.getD (it * m + k) 0 * b.elems.getD ((j * m + k) * p + u) 0)).foldl (· + ·) 0))),
    la ++ [n] ++ lb ++ [p]⟩

end ArrModel.C14
