/-!
# ArrModel.Basic — data, outcomes, errors

Core-only (no Mathlib, no Std beyond core).  Mirrors `src/core/array/mod.rs`
(`Array { elements: Vec<T>, shape: Vec<usize> }`) and `src/errors/mod.rs`
(variants without payload text — payload text is part of no property).
-/

namespace ArrModel

/-- `ArrayError` variants (payloads dropped). Order = order in `src/errors/mod.rs`;
`ArrModel/Gen/Tables.lean` regenerates the list of names from source and a theorem ties them. -/
inductive Err
  | BroadcastShapeMismatch
  | ConcatenateShapeMismatch
  | ShapeMustMatchValuesLength
  | ShapesMustMatch
  | SqueezeShapeOfAxisMustBeOne
  | AxisOutOfBounds
  | OutOfBounds
  | ParameterError
  | UnsupportedDimension
  | MustBeUnique
  | MustBeEqual
  | MustBeAtLeast
  | MustBeOneOf
  | NotImplemented
  | SingularMatrix
  deriving DecidableEq, Repr, Inhabited

def Err.name : Err → String
  | .BroadcastShapeMismatch => "BroadcastShapeMismatch"
  | .ConcatenateShapeMismatch => "ConcatenateShapeMismatch"
  | .ShapeMustMatchValuesLength => "ShapeMustMatchValuesLength"
  | .ShapesMustMatch => "ShapesMustMatch"
  | .SqueezeShapeOfAxisMustBeOne => "SqueezeShapeOfAxisMustBeOne"
  | .AxisOutOfBounds => "AxisOutOfBounds"
  | .OutOfBounds => "OutOfBounds"
  | .ParameterError => "ParameterError"
  | .UnsupportedDimension => "UnsupportedDimension"
  | .MustBeUnique => "MustBeUnique"
  | .MustBeEqual => "MustBeEqual"
  | .MustBeAtLeast => "MustBeAtLeast"
  | .MustBeOneOf => "MustBeOneOf"
  | .NotImplemented => "NotImplemented"
  | .SingularMatrix => "SingularMatrix"

def Err.all : List Err :=
  [.BroadcastShapeMismatch, .ConcatenateShapeMismatch, .ShapeMustMatchValuesLength, .ShapesMustMatch,
   .SqueezeShapeOfAxisMustBeOne, .AxisOutOfBounds, .OutOfBounds, .ParameterError, .UnsupportedDimension,
   .MustBeUnique, .MustBeEqual, .MustBeAtLeast, .MustBeOneOf, .NotImplemented, .SingularMatrix]

/-- Outcome of a modelled Rust call: `Ok`, `Err(variant)` or a panic
(index out of bounds, `unwrap` on `None`, failed `assert!`, arithmetic overflow in debug …). -/
inductive Res (α : Type u) where
  | ok (a : α)
  | err (e : Err)
  | panic
  deriving Repr, DecidableEq

namespace Res

@[inline] def bind {α β} (x : Res α) (f : α → Res β) : Res β :=
  match x with
  | ok a => f a
  | err e => err e
  | panic => panic

instance : Monad Res where
  pure := ok
  bind := bind

@[simp] theorem bind_ok {α β} (a : α) (f : α → Res β) : (Res.ok a >>= f) = f a := rfl
@[simp] theorem bind_err {α β} (e : Err) (f : α → Res β) : (Res.err e >>= f) = Res.err e := rfl
@[simp] theorem bind_panic {α β} (f : α → Res β) : ((Res.panic : Res α) >>= f) = Res.panic := rfl
@[simp] theorem pure_eq {α} (a : α) : (pure a : Res α) = Res.ok a := rfl

def isOk {α} : Res α → Bool | ok _ => true | _ => false
def isErr {α} : Res α → Bool | err _ => true | _ => false
def isPanic {α} : Res α → Bool | panic => true | _ => false

def map {α β} (f : α → β) : Res α → Res β
  | ok a => ok (f a)
  | err e => err e
  | panic => panic

/-- `v[i]` on a `Vec`: panics when out of bounds. -/
def idx {α} (l : List α) (i : Nat) : Res α :=
  match l[i]? with
  | some a => ok a
  | none => panic

/-- `Option::unwrap` -/
def unwrap {α} : Option α → Res α
  | some a => ok a
  | none => panic

/-- sequence a list of results left to right (first non-ok wins) -/
def sequence {α} : List (Res α) → Res (List α)
  | [] => ok []
  | x :: xs => x >>= fun a => sequence xs >>= fun as => ok (a :: as)

def mapM' {α β} (f : α → Res β) (l : List α) : Res (List β) := sequence (l.map f)

end Res

/-- `Array<T>`: flat row-major element list plus shape. -/
structure Arr (α : Type) where
  elems : List α
  shape : List Nat
  deriving Repr, DecidableEq

namespace Arr

/-- the C01 invariant -/
def WF {α} (a : Arr α) : Prop := a.elems.length = a.shape.prod

instance {α} (a : Arr α) : Decidable a.WF := inferInstanceAs (Decidable (_ = _))

/-- `Array::new` (`create.rs`): the validating funnel. -/
def new {α} (elems : List α) (shape : List Nat) : Res (Arr α) :=
  if shape.prod = elems.length then .ok ⟨elems, shape⟩ else .err .ShapeMustMatchValuesLength

/-- `Array::flat` -/
def flat {α} (elems : List α) : Arr α := ⟨elems, [elems.length]⟩

def len {α} (a : Arr α) : Nat := a.elems.length
def ndim {α} (a : Arr α) : Nat := a.shape.length
def isEmpty {α} (a : Arr α) : Bool := a.elems.length == 0

end Arr

end ArrModel
