import ArrModel.C20
/-!
# ArrModel.C20Int — the NATIVE integer operators behind `impl_op!` / `impl_bitwise_ops!`

`ArrModel/C20.lean` is generic in the scalar function: it says WHICH operand elements are combined at each
position.  This file fixes the scalar function for the integer element types of the crate
(`impl_numeric!`: `i8 i16 i32 i64 isize u8 u16 u32 u64 usize`; `isize`/`usize` are 64 bit on the target of the
harness, `x86_64-unknown-linux-gnu`) and for `bool`, so that the driver can answer with VALUES.

## what is written in the crate (read at the pinned commit)

* `src/numeric/operations/ops.rs` `impl_op!`: `a.$op_func(b)` / `a.$op_assign_func(b)` with `N: NumericOps`, i.e. the
  trait methods `Add::add`, `Sub::sub`, `Mul::mul`, `Div::div`, `Rem::rem` and `AddAssign::add_assign` … of the
  primitive type itself.  Nothing goes through `f64`, nothing is spelled `checked_*` / `wrapping_*`: it is the
  plain built-in operator, whose overflow behaviour is decided by the `overflow-checks` code-generation flag of
  the crate that instantiates the generic code (`#[rustc_inherit_overflow_checks]` on the `core::ops` impls).
  `NumericOps` (hence `+ - * / %` on arrays) exists for `i8 i16 i32 i64` (and `f32 f64`) ONLY; `Neg` for the same
  (`SignedNumericOps`).  The unsigned types and `isize` have no arithmetic operator overloads on arrays.
* `src/boolean/operations/ops.rs` `impl_bitwise_ops!`: `a.$op_func(b)` with `N: Numeric + BitAnd<Output = N>` … —
  `& | ^` for the ten integer types and `bool`; `Not` for `N: BoolNumeric` — `bool` only (`(!x).into()`).
* there is NO `Shl` / `Shr` impl for `Array`.  The built-in shifts occur in `Numeric::left_shift` /
  `Numeric::right_shift` (`src/numeric/types/numeric.rs:146-152`: `self << other`, `self >> other`, the shift amount
  having the element type itself; `bool`: `(self.to_usize() << other.to_usize()) == 1`), and that scalar method is
  what the shift semantics below are tied to.

## how the code is built (this decides overflow)

`check` builds the harness — and with it the crate, as a path dependency inside the same profile — with
`cargo build --release --offline`, and `harness/Cargo.toml` says

    [profile.release]  opt-level = 2, debug-assertions = true, overflow-checks = true

So in the build that is executed (`Build.harness`): `+ - *`, unary `-` PANIC on overflow, `<< >>` PANIC for a shift
amount that is negative or `>= bit width`.  A plain `cargo build --release` of a user (`Build.release`,
`overflow-checks` off) WRAPS modulo `2^w` and MASKS the shift amount to its low `log2 w` bits.  Both were
observed on the real crate (scratch build, 2026-09-30: `[127i8,1] + [1,1]` panics "attempt to add with overflow"
in the harness profile and gives `[-128,2]` with overflow-checks off; `1i8.left_shift(&8)` panics / gives `1`;
`1i8.left_shift(&-1)` panics / gives `-128`).  In EVERY build `x / 0`, `x % 0`, `MIN / -1`, `MIN % -1` panic, and
`/` truncates toward zero, `%` takes the sign of the dividend.

Scalars are `BitVec w` (two's complement for the signed types), `w` arbitrary: every theorem is about every width.
-/

namespace ArrModel.C20

/-- an integer element type: bit width and signedness (`bool` is the unsigned 1-bit type: `& | ^ !` only) -/
structure IntTy where
  w : Nat
  signed : Bool
  deriving DecidableEq, Repr

namespace IntTy
def i8 : IntTy := ⟨8, true⟩
def i16 : IntTy := ⟨16, true⟩
def i32 : IntTy := ⟨32, true⟩
def i64 : IntTy := ⟨64, true⟩
def isize : IntTy := ⟨64, true⟩
def u8 : IntTy := ⟨8, false⟩
def u16 : IntTy := ⟨16, false⟩
def u32 : IntTy := ⟨32, false⟩
def u64 : IntTy := ⟨64, false⟩
def usize : IntTy := ⟨64, false⟩
def bool : IntTy := ⟨1, false⟩

/-- the mathematical integer a bit pattern denotes in this type -/
def val (ty : IntTy) (x : BitVec ty.w) : Int := if ty.signed then x.toInt else (x.toNat : Int)

/-- `T::MIN` -/
def minVal (ty : IntTy) : Int := if ty.signed then -(2 : Int) ^ (ty.w - 1) else 0
/-- `T::MAX` -/
def maxVal (ty : IntTy) : Int := if ty.signed then (2 : Int) ^ (ty.w - 1) - 1 else (2 : Int) ^ ty.w - 1

/-- the mathematical result is representable -/
def inRange (ty : IntTy) (v : Int) : Bool := decide (ty.minVal ≤ v) && decide (v ≤ ty.maxVal)

/-- the bit pattern of a representable integer (two's complement) -/
def ofVal (ty : IntTy) (v : Int) : BitVec ty.w := BitVec.ofInt ty.w v
end IntTy

/-- the code-generation setting that decides integer overflow -/
structure Build where
  overflowChecks : Bool
  deriving DecidableEq, Repr

/-- `harness/Cargo.toml`: `[profile.release] overflow-checks = true` — the build `./check` executes -/
def Build.harness : Build := ⟨true⟩
/-- a plain `cargo build --release` (overflow-checks off): wrap-around, masked shift amounts -/
def Build.release : Build := ⟨false⟩

inductive BinOp
  | add | sub | mul | div | rem | and | or | xor | shl | shr
  deriving DecidableEq, Repr

inductive UnOp
  | neg | not | id
  deriving DecidableEq, Repr

section scalar
variable {w : Nat}

/-- what the machine instruction leaves in the register: the result modulo `2^w` (`/ %` truncate toward zero for
the signed types — `sdiv`/`srem` — and are the unsigned quotient / remainder otherwise; the shift amount is
reduced modulo the width, `>>` is arithmetic for signed and logical for unsigned types) -/
def wrapBin (signed : Bool) : BinOp → BitVec w → BitVec w → BitVec w
  | .add, x, y => x + y
  | .sub, x, y => x - y
  | .mul, x, y => x * y
  | .div, x, y => if signed then x.sdiv y else x / y
  | .rem, x, y => if signed then x.srem y else x % y
  | .and, x, y => x &&& y
  | .or, x, y => x ||| y
  | .xor, x, y => x ^^^ y
  | .shl, x, k => x <<< (k.toNat % w)
  | .shr, x, k => if signed then x.sshiftRight (k.toNat % w) else x >>> (k.toNat % w)

def wrapUn : UnOp → BitVec w → BitVec w
  | .neg, x => -x
  | .not, x => ~~~x
  | .id, x => x
end scalar

/-- the mathematical (unbounded) result of `+ - *`, used to state overflow -/
def exactBin : BinOp → Int → Int → Int
  | .add, x, y => x + y
  | .sub, x, y => x - y
  | .mul, x, y => x * y
  | _, x, _ => x

/-- does the scalar operator panic?
* `+ - *`: only with overflow checks, when the mathematical result is not representable;
* `/ %`: in EVERY build for a zero divisor and for `MIN / -1`, `MIN % -1` (signed);
* `& | ^`: never;
* `<< >>`: only with overflow checks, when the amount — read as unsigned, so negative amounts too — is `>= w`. -/
def binPanics (ty : IntTy) (bld : Build) : BinOp → BitVec ty.w → BitVec ty.w → Bool
  | .add, x, y => bld.overflowChecks && !ty.inRange (ty.val x + ty.val y)
  | .sub, x, y => bld.overflowChecks && !ty.inRange (ty.val x - ty.val y)
  | .mul, x, y => bld.overflowChecks && !ty.inRange (ty.val x * ty.val y)
  | .div, x, y => y == 0 || (ty.signed && x == BitVec.intMin ty.w && y == BitVec.allOnes ty.w)
  | .rem, x, y => y == 0 || (ty.signed && x == BitVec.intMin ty.w && y == BitVec.allOnes ty.w)
  | .and, _, _ => false
  | .or, _, _ => false
  | .xor, _, _ => false
  | .shl, _, k => bld.overflowChecks && decide (ty.w ≤ k.toNat)
  | .shr, _, k => bld.overflowChecks && decide (ty.w ≤ k.toNat)

/-- **the native binary operator** `x op y` of the element type in the given build: `none` = panic -/
def scalarBin (ty : IntTy) (bld : Build) (op : BinOp) (x y : BitVec ty.w) : Option (BitVec ty.w) :=
  if binPanics ty bld op x y then none else some (wrapBin ty.signed op x y)

/-- **the native compound assignment** `{ let mut z = x; z op= y; z }`.  For a primitive integer `z op= y` IS
`z = z op y` (the `*Assign` impls of `core::ops` are `*self op= other` on the built-in place, lowered to the very
same checked / unchecked `BinOp`); it is a definition of its own so that the tie can tell the two apart. -/
def scalarAsg (ty : IntTy) (bld : Build) (op : BinOp) (x y : BitVec ty.w) : Option (BitVec ty.w) :=
  if binPanics ty bld op x y then none else some (wrapBin ty.signed op x y)

/-- unary `-x` (signed types only — the unsigned types have no `Neg`; modelled as "no such operator" = `none`)
panics with overflow checks for `x = MIN`; `!x` never panics -/
def unPanics (ty : IntTy) (bld : Build) : UnOp → BitVec ty.w → Bool
  | .neg, x => !ty.signed || (bld.overflowChecks && x == BitVec.intMin ty.w)
  | .not, _ => false
  | .id, _ => false

def scalarUn (ty : IntTy) (bld : Build) (op : UnOp) (x : BitVec ty.w) : Option (BitVec ty.w) :=
  if unPanics ty bld op x then none else some (wrapUn op x)

/-- `bool::left_shift` / `right_shift` (`src/boolean/types/mod.rs:91-97`):
`(self.to_usize() << other.to_usize()) == 1`, `(self.to_usize() >> other.to_usize()) == 1` (amount 0 or 1: never
panics) -/
def boolShl (x k : Bool) : Bool := (x.toNat <<< k.toNat) == 1
def boolShr (x k : Bool) : Bool := (x.toNat >>> k.toNat) == 1

/-! ### evaluation of the free terms of `ArrModel.C20` -/

/-- the operand values a term refers to: receiver elements, other operand's elements, scalar operand -/
structure Env (w : Nat) where
  a : Array (BitVec w)
  b : Array (BitVec w)
  s : Option (BitVec w)

/-- **evaluator**: the value of a term the generic model produced, `op` / `un` being the operator the case is
about (`o` = the operator, `g` = its compound assignment, `u` = the unary operator); `none` = the native
operator panics at this position (or the term names an element that does not exist) -/
def evalTerm (ty : IntTy) (bld : Build) (op : BinOp) (un : UnOp) (env : Env ty.w) : Sym → Option (BitVec ty.w)
  | .a i => env.a[i]?
  | .b i => env.b[i]?
  | .s => env.s
  | .op x y =>
    match evalTerm ty bld op un env x, evalTerm ty bld op un env y with
    | some u, some v => scalarBin ty bld op u v
    | _, _ => none
  | .asg x y =>
    match evalTerm ty bld op un env x, evalTerm ty bld op un env y with
    | some u, some v => scalarAsg ty bld op u v
    | _, _ => none
  | .un x =>
    match evalTerm ty bld op un env x with
    | some u => scalarUn ty bld un u
    | none => none

/-- all elements, or `none` as soon as one is `none` (the closure of `map` / `for_each` panics: the whole
operator call panics) -/
def allSome {β : Type} : List (Option β) → Option (List β)
  | [] => some []
  | none :: _ => none
  | some x :: xs => match allSome xs with
    | some r => some (x :: r)
    | none => none

/-- tail-recursive form used by the compiled driver (`allSome_eq_allSomeTR` is a `csimp` rule: same function) -/
def allSomeTR.go {β : Type} : List (Option β) → List β → Option (List β)
  | [], acc => some acc.reverse
  | none :: _, _ => none
  | some x :: xs, acc => allSomeTR.go xs (x :: acc)

def allSomeTR {β : Type} (xs : List (Option β)) : Option (List β) := allSomeTR.go xs []

theorem allSomeTR_go_eq {β : Type} : ∀ (xs : List (Option β)) (acc : List β),
    allSomeTR.go xs acc = (allSome xs).map (acc.reverse ++ ·)
  | [], acc => by simp [allSomeTR.go, allSome]
  | none :: xs, acc => by simp [allSomeTR.go, allSome]
  | some x :: xs, acc => by
    rw [allSomeTR.go, allSomeTR_go_eq xs (x :: acc), allSome]
    cases allSome xs <;> simp

@[csimp] theorem allSome_eq_allSomeTR : @allSome = @allSomeTR := by
  funext β xs
  rw [allSomeTR, allSomeTR_go_eq]
  cases allSome xs <;> simp

/-- the value-level answer for a symbolic answer of the generic model: every term evaluated; one panicking
position makes the call panic.  (An `err` answer — impossible for well-formed operands, `scalarop_at` — stays.) -/
def evalArr {β : Type} (ev : Sym → Option β) : Res (Arr Sym) → Res (Arr β)
  | .ok r => match allSome (r.elems.map ev) with
    | some vs => .ok ⟨vs, r.shape⟩
    | none => .panic
  | .err e => .err e
  | .panic => .panic

/-- the symbolic image of an operand: element `i` is named `c i` -/
def symOf {β : Type} (c : Nat → Sym) (a : Arr β) : Arr Sym := ⟨(List.range a.elems.length).map c, a.shape⟩

abbrev IArr (ty : IntTy) := Arr (BitVec ty.w)

/-! ### the integer-valued operator forms (what the driver answers for `ival` lines) -/

def envAB {ty : IntTy} (a b : IArr ty) : Env ty.w := ⟨a.elems.toArray, b.elems.toArray, none⟩
def envAS {ty : IntTy} (a : IArr ty) (s : BitVec ty.w) : Env ty.w := ⟨a.elems.toArray, #[], some s⟩

/-- `a op b` (`impl_op!`) -/
def iBinop (ty : IntTy) (bld : Build) (op : BinOp) (a b : IArr ty) : Res (IArr ty) :=
  evalArr (evalTerm ty bld op .id (envAB a b)) (binop Sym.op (symOf .a a) (symOf .b b))
/-- `a op= b` -/
def iAssign (ty : IntTy) (bld : Build) (op : BinOp) (a b : IArr ty) : Res (IArr ty) :=
  evalArr (evalTerm ty bld op .id (envAB a b)) (assignop Sym.asg (symOf .a a) (symOf .b b))
/-- `a op s` -/
def iScalar (ty : IntTy) (bld : Build) (op : BinOp) (a : IArr ty) (s : BitVec ty.w) : Res (IArr ty) :=
  evalArr (evalTerm ty bld op .id (envAS a s)) (scalarop Sym.op (symOf .a a) Sym.s)
/-- `a op= s` -/
def iAssignScalar (ty : IntTy) (bld : Build) (op : BinOp) (a : IArr ty) (s : BitVec ty.w) : Res (IArr ty) :=
  evalArr (evalTerm ty bld op .id (envAS a s)) (assignScalar Sym.asg (symOf .a a) Sym.s)
/-- `-a` / `!a` -/
def iUnop (ty : IntTy) (bld : Build) (un : UnOp) (a : IArr ty) : Res (IArr ty) :=
  evalArr (evalTerm ty bld .and un (envAB a a)) (unop Sym.un (symOf .a a))
/-- `a & b`, `a | b`, `a ^ b` (`impl_bitwise_ops!`) -/
def iBitop (ty : IntTy) (bld : Build) (op : BinOp) (a b : IArr ty) : Res (IArr ty) :=
  evalArr (evalTerm ty bld op .id (envAB a b)) (bitop Sym.op (symOf .a a) (symOf .b b))
def iBitAssign (ty : IntTy) (bld : Build) (op : BinOp) (a b : IArr ty) : Res (IArr ty) :=
  evalArr (evalTerm ty bld op .id (envAB a b)) (bitAssign Sym.op (symOf .a a) (symOf .b b))
def iBitScalar (ty : IntTy) (bld : Build) (op : BinOp) (a : IArr ty) (s : BitVec ty.w) : Res (IArr ty) :=
  evalArr (evalTerm ty bld op .id (envAS a s)) (bitScalar Sym.op (symOf .a a) Sym.s)
def iBitAssignScalar (ty : IntTy) (bld : Build) (op : BinOp) (a : IArr ty) (s : BitVec ty.w) : Res (IArr ty) :=
  evalArr (evalTerm ty bld op .id (envAS a s)) (bitAssignScalar Sym.op (symOf .a a) Sym.s)

/-- the direct lifting the theorems compare with: `f x y` at every position, panic if one position panics -/
def zipOpt {β : Type} (f : β → β → Option β) (xs ys : List β) : Option (List β) :=
  allSome (List.zipWith f xs ys)

end ArrModel.C20
