import ArrModel.C05
/-!
# ArrModel.C05Float — `frexp` / `ldexp` (`src/math/operations/floating.rs:126-180`)

Exact model: a double is `fin q` (`q : Rat`, in particular every dyadic `m·2^e`), `inf neg`, or `nan`.
On finite doubles the two `while` loops of `_frexp` only halve values `≥ 1` and double values `< ½`, which IEEE-754
performs exactly, so the rational model is exact there; `_ldexp` is exact as long as no intermediate value
overflows or loses bits (the tie only sends such cases).  One zero (`+0.0`); `NaN` payloads are not distinguished.

Loops take fuel: `none` = the loop did not finish within the fuel (a hang).  `fuelFor` is the bound under which the
theorems prove termination.

`guard = true` mirrors the code **after the minimal repair** (`fixes/C05-frexp-inf.diff`:
`if !x.is_finite() { return (x * sign, exp); }`); `guard = false` is the pinned code, whose first loop never ends on `±∞`.
-/

namespace ArrModel.Flt

inductive Dbl
  | fin (q : Rat)
  | inf (neg : Bool)
  | nan
  deriving DecidableEq, Repr

namespace Dbl

/-- `f64::signum`: `1.0` / `-1.0`, `NaN` for `NaN` (the model's single zero is `+0.0`, whose signum is `1.0`) -/
def signum : Dbl → Dbl
  | fin q => if q < 0 then fin (-1) else fin 1
  | inf neg => if neg then fin (-1) else fin 1
  | nan => nan

/-- `f64::abs` -/
def abs : Dbl → Dbl
  | fin q => fin q.abs
  | inf _ => inf false
  | nan => nan

/-- `x == 0.0` -/
def isZero : Dbl → Bool
  | fin q => decide (q = 0)
  | _ => false

/-- `x.is_finite()` -/
def isFinite : Dbl → Bool
  | fin _ => true
  | _ => false

/-- `x >= 1.0` -/
def ge1 : Dbl → Bool
  | fin q => decide (1 ≤ q)
  | inf neg => !neg
  | nan => false

/-- `x < 0.5` -/
def ltHalf : Dbl → Bool
  | fin q => decide (q < 1 / 2)
  | inf neg => neg
  | nan => false

/-- `x / 2.0` -/
def half : Dbl → Dbl
  | fin q => fin (q / 2)
  | x => x

/-- `x * 2.0` -/
def twice : Dbl → Dbl
  | fin q => fin (q * 2)
  | x => x

/-- IEEE multiplication on the extended values (`0 · ∞ = NaN`) -/
def mul : Dbl → Dbl → Dbl
  | fin p, fin q => fin (p * q)
  | fin p, inf n => if p = 0 then nan else inf (n != decide (p < 0))
  | inf n, fin p => if p = 0 then nan else inf (n != decide (p < 0))
  | inf a, inf b => inf (a != b)
  | _, _ => nan

end Dbl

open Dbl

/-! ## `_frexp` -/

/-- `while x >= 1.0 { x /= 2.0; exp += 1; }` — fuel counts evaluations of the loop condition -/
def loopUp : Nat → Dbl → Int → Option (Dbl × Int)
  | 0, _, _ => none
  | n + 1, x, e => if x.ge1 then loopUp n x.half (e + 1) else some (x, e)

/-- `while x < 0.5 { x *= 2.0; exp -= 1; }` -/
def loopDown : Nat → Dbl → Int → Option (Dbl × Int)
  | 0, _, _ => none
  | n + 1, x, e => if x.ltHalf then loopDown n x.twice (e - 1) else some (x, e)

/-- `_frexp` (`floating.rs:128-141`), arm for arm -/
def frexp1 (guard : Bool) (fuel : Nat) (x0 : Dbl) : Option (Dbl × Int) :=
  let sign := x0.signum
  let x := x0.abs
  if x.isZero then some (fin 0, 0)                         -- `if x == 0.0 { return (sig, exp); }`
  else if guard && !x.isFinite then some (x.mul sign, 0)   -- repair: `if !x.is_finite() { return (x * sign, exp); }`
  else
    match loopUp fuel x 0 with
    | none => none
    | some (x1, e1) =>
      match loopDown fuel x1 e1 with
      | none => none
      | some (x2, e2) => some (x2.mul sign, e2)            -- `(sig * sign, exp)`

/-- fuel under which termination is proved: `|numerator| + denominator + 1`
(a finite double `M·2^E` has numerator `< 2^1024` and denominator `≤ 2^1074`, i.e. at most 1025 / 1075 iterations are ever used) -/
def fuelFor : Dbl → Nat
  | fin q => q.num.natAbs + q.den + 1
  | _ => 1

/-- the repaired `_frexp` -/
def frexp (x : Dbl) : Option (Dbl × Int) := frexp1 true (fuelFor x) x

/-! ## `_ldexp` -/

/-- `while exp > 0 { sig *= 2.; exp -= 1; }` -/
def ldUp : Nat → Dbl → Int → Option (Dbl × Int)
  | 0, _, _ => none
  | n + 1, s, e => if e > 0 then ldUp n s.twice (e - 1) else some (s, e)

/-- `while exp < 0 { sig /= 2.; exp += 1; }` -/
def ldDown : Nat → Dbl → Int → Option (Dbl × Int)
  | 0, _, _ => none
  | n + 1, s, e => if e < 0 then ldDown n s.half (e + 1) else some (s, e)

/-- `_ldexp` (`floating.rs:161-170`) -/
def ldexp1 (fuel : Nat) (x : Dbl) (e : Int) : Option Dbl :=
  if x.isZero then some x                                   -- `if x == 0. { return x }`
  else
    match ldUp fuel x e with
    | none => none
    | some (s1, e1) =>
      match ldDown fuel s1 e1 with
      | none => none
      | some (s2, _) => some s2

def ldexp (x : Dbl) (e : Int) : Option Dbl := ldexp1 (e.natAbs + 1) x e

/-! ## array level -/

/-- the closure handed to `for_each` by `frexp`: `man.push(N::from(result.0)); exp.push(result.1)`;
a hang of `_frexp` is a hang of the whole call (`Option`) -/
def frexpPush (x : Dbl) : StateT (List Dbl × List Int) Option Unit :=
  fun s =>
    match frexp x with
    | none => none
    | some (mn, e) => some ((), (s.1 ++ [mn], s.2 ++ [e]))

/-- `frexp` (`floating.rs:126-157`): `for_each` collecting mantissas and exponents, both reshaped to the receiver's shape -/
def frexpArr (a : Arr Dbl) : Option (Res (Arr Dbl × Arr Int)) :=
  match (Iter.forEachM a frexpPush).run ([], []) with
  | none => none
  | some (r, (man, exp)) =>
    some (r >>= fun _ =>
      Iter.flat man >>= fun fm => Iter.reshape fm a.shape >>= fun am =>
      Iter.flat exp >>= fun fe => Iter.reshape fe a.shape >>= fun ae =>
      .ok (am, ae))

/-- `ldexp` (`floating.rs:159-180`): `self.zip(other)?.map(|item| N::from(_ldexp(item.0.to_f64(), item.1)))`
(`zip` on the equal-shape arm, see `Iter.zipSame`); `none` inside = that element's loop hung -/
def ldexpArr (a : Arr Dbl) (e : Arr Int) : Res (Arr (Option Dbl)) :=
  Iter.zipSame a e >>= fun z => Iter.map z (fun p => ldexp p.1 p.2)

end ArrModel.Flt
