import ArrModel.Split
/-!
# ArrModel.AlongAxis — `apply_along_axis` (`axis.rs:163-184`, after the `fix:` commit for the inverse move)

move the axis last, ravel, cut into `parts` lanes, apply `f` to every lane, flatten, reshape, move the axis back.
-/
namespace ArrModel.Arr
variable {α β : Type}

def applyAlongAxis (a : Arr α) (zero : α) (zb : β) (axis : Nat) (f : Arr α → Res (Arr β)) : Res (Arr β) :=
  if axis ≥ a.ndim then .err .AxisOutOfBounds
  else
    let parts := (a.shape.eraseIdx axis).prod
    a.moveaxis zero [Int.ofNat axis] [Int.ofNat a.ndim] >>= fun array =>
    array.ravel.split zero parts none >>= fun lanes =>
    Res.mapM' f lanes >>= fun parts_out =>
    -- `partial[0].len()`
    (Res.idx parts_out 0) >>= fun p0 =>
    let partialLen := p0.len
    let flatP : Arr β := Arr.flat (parts_out.flatMap (·.elems))
    -- `update_at(ndim - 1, partial_len)`: `self[index] = value` (index in range: ndim >= 1 here)
    let newShape := array.shape.set (a.ndim - 1) partialLen
    flatP.reshape newShape >>= fun p =>
    if axis = 0 then p.rollaxis zb (Int.ofNat (a.ndim - 1)) none
    else p.moveaxis zb [Int.ofNat (a.ndim - 1)] [Int.ofNat axis]

end ArrModel.Arr
