import ArrModel.C10
/-!
# ArrModel.C08Kernels — the 1-D (`axis = None`) arms of the seventeen lane operations

One definition per Rust arm, over an explicit element structure `Elem α` (the operations of `N: NumericOps` / `Numeric` /
`ArrayElement` the arms use, as Boolean / binary functions — the traits promise nothing more):

* `sum_prod_diff.rs:219-313`
  - `sum`    : `Self::single(self.elements.iter().fold(N::zero(), |acc, &x| acc + x))`
  - `prod`   : `… fold(N::one(), |acc, &x| acc * x)`
  - `nansum` : `… fold(N::zero(), |acc, &x| acc + if x.to_f64().is_nan() { N::zero() } else { x })`
  - `nanprod`: `… fold(N::one(),  |acc, &x| acc * if x.to_f64().is_nan() { N::one()  } else { x })`
  - `cumsum` : `let mut acc = N::zero(); self.ravel()?.map(|&x| { acc += x; acc })`, `cumprod` with `N::one()` / `*=`,
    `nancumsum` / `nancumprod` with the NaN replacement of `nansum` / `nanprod`
    (`map` = `iter().map(f).collect::<Array<_>>().reshape(&self.get_shape()?)`, `iter.rs:275-280`)
* `extrema.rs:236-330`
  - `max` (`amax` forwards): empty -> `Err(ParameterError)`; any NaN -> `single(N::from(f64::NAN))`;
    else `fold(self[0], |a, &b| if a < b { b } else { a })` (a later EQUAL element does not replace the accumulator)
  - `min` (`amin`): the same with `if a > b { b } else { a }`
  - `nanmax` / `nanmin`: ALL NaN (also: no element at all) -> `single(N::from(f64::NAN))`; else the fold over the non-NaN
    elements starting from the first of them.  NOTE: no emptiness test - the empty lane answers `N::from(NAN)` (`0` for integers).
* `count.rs:37-52`  `count_nonzero`: `filter(|e| e != &T::zero()).count()`, then the `keepdims` tail
* `search.rs:63-95` `argmax` / `argmin`: `ArrModel.Sort.argExtremeLane` (`ArrModel/C10.lean`: empty -> `Err(ParameterError)`, first NaN
  position, else first position `==` to the last / first element of the quick-sorted lane, then the `keepdims` tail) — reused.

The fold order and the initial value are exactly those of the code (left fold from `zero` / `one`; extrema: left fold from the
first element over ALL elements, the first included).
-/
namespace ArrModel.C08K
open ArrModel

/-- what the 1-D arms use of the element type -/
structure Elem (α : Type) where
  /-- `N::zero()` / `T::zero()` -/
  zero : α
  /-- `N::one()` -/
  one : α
  /-- `acc + x` (`acc += x`) -/
  add : α → α → α
  /-- `acc * x` (`acc *= x`) -/
  mul : α → α → α
  /-- `a < b` -/
  lt : α → α → Bool
  /-- `a > b` -/
  gt : α → α → Bool
  /-- `a <= b` (only the sorts behind `argmax` / `argmin` read it) -/
  le : α → α → Bool
  /-- `a == b`; `a != b` is its negation (`PartialEq::ne`) -/
  beq : α → α → Bool
  /-- `x.to_f64().is_nan()` / `ArrayElement::is_nan` -/
  isNan : α → Bool
  /-- `N::from(f64::NAN)` (`NaN as i64 = 0` for the integer types) -/
  nan : α

variable {α : Type}

/-- the comparison part, as the sorts of `ArrModel/C10.lean` take it -/
def Elem.cmp (E : Elem α) : Sort.Cmp α := { lt := E.lt, le := E.le, beq := E.beq, isNan := E.isNan }

/-- the integer element types (`i64`, … where no lane overflows): no NaN, `N::from(NAN) = 0` -/
def Elem.int : Elem Int :=
  { zero := 0, one := 1, add := (· + ·), mul := (· * ·)
    lt := fun a b => decide (a < b), gt := fun a b => decide (a > b), le := fun a b => decide (a ≤ b)
    beq := fun a b => decide (a = b), isNan := fun _ => false, nan := 0 }

/-- integer values plus one NaN (`none`) with the IEEE rules: NaN absorbs `+` and `*`, every comparison with NaN is false,
`NaN != x` for every `x` -/
def Elem.nanInt : Elem (Option Int) :=
  { zero := some 0, one := some 1
    add := fun a b => match a, b with | some x, some y => some (x + y) | _, _ => none
    mul := fun a b => match a, b with | some x, some y => some (x * y) | _, _ => none
    lt := fun a b => match a, b with | some x, some y => decide (x < y) | _, _ => false
    gt := fun a b => match a, b with | some x, some y => decide (x > y) | _, _ => false
    le := fun a b => match a, b with | some x, some y => decide (x ≤ y) | _, _ => false
    beq := fun a b => match a, b with | some x, some y => decide (x = y) | _, _ => false
    isNan := fun a => a.isNone, nan := none }

/-! ## the kernels on a lane (`List α` = `self.elements`) -/

/-- `if x.to_f64().is_nan() { N::zero() } else { x }` -/
def Elem.nanToZero (E : Elem α) (x : α) : α := if E.isNan x then E.zero else x
/-- `if x.to_f64().is_nan() { N::one() } else { x }` -/
def Elem.nanToOne (E : Elem α) (x : α) : α := if E.isNan x then E.one else x

def sumK (E : Elem α) (xs : List α) : α := xs.foldl (fun acc x => E.add acc x) E.zero
def prodK (E : Elem α) (xs : List α) : α := xs.foldl (fun acc x => E.mul acc x) E.one
def nansumK (E : Elem α) (xs : List α) : α := xs.foldl (fun acc x => E.add acc (E.nanToZero x)) E.zero
def nanprodK (E : Elem α) (xs : List α) : α := xs.foldl (fun acc x => E.mul acc (E.nanToOne x)) E.one

/-- `let mut acc = init; xs.map(|x| { acc = step(acc, x); acc })` -/
def runAcc (step : α → α → α) : α → List α → List α
  | _, [] => []
  | acc, x :: xs => step acc x :: runAcc step (step acc x) xs

def cumsumK (E : Elem α) (xs : List α) : List α := runAcc (fun acc x => E.add acc x) E.zero xs
def cumprodK (E : Elem α) (xs : List α) : List α := runAcc (fun acc x => E.mul acc x) E.one xs
def nancumsumK (E : Elem α) (xs : List α) : List α := runAcc (fun acc x => E.add acc (E.nanToZero x)) E.zero xs
def nancumprodK (E : Elem α) (xs : List α) : List α := runAcc (fun acc x => E.mul acc (E.nanToOne x)) E.one xs

/-- `|a, &b| if a < b { b } else { a }` -/
def Elem.maxStep (E : Elem α) (a b : α) : α := if E.lt a b then b else a
/-- `|a, &b| if a > b { b } else { a }` -/
def Elem.minStep (E : Elem α) (a b : α) : α := if E.gt a b then b else a

/-- `max(None)` / `amax(None)` -/
def maxK (E : Elem α) (xs : List α) : Res α :=
  if xs.isEmpty then .err .ParameterError
  else if xs.any E.isNan then .ok E.nan
  else Res.idx xs 0 >>= fun x0 => .ok (xs.foldl E.maxStep x0)

/-- `min(None)` / `amin(None)` -/
def minK (E : Elem α) (xs : List α) : Res α :=
  if xs.isEmpty then .err .ParameterError
  else if xs.any E.isNan then .ok E.nan
  else Res.idx xs 0 >>= fun x0 => .ok (xs.foldl E.minStep x0)

/-- `nanmax(None)`: `filtered[0]` would panic on an empty `filtered`; that arm is only reached when some element is not NaN -/
def nanmaxK (E : Elem α) (xs : List α) : Res α :=
  if xs.all E.isNan then .ok E.nan
  else
    let filtered := xs.filter (fun i => !E.isNan i)
    Res.idx filtered 0 >>= fun x0 => .ok (filtered.foldl E.maxStep x0)

/-- `nanmin(None)` -/
def nanminK (E : Elem α) (xs : List α) : Res α :=
  if xs.all E.isNan then .ok E.nan
  else
    let filtered := xs.filter (fun i => !E.isNan i)
    Res.idx filtered 0 >>= fun x0 => .ok (filtered.foldl E.minStep x0)

/-- `filter(|e| e != &T::zero()).count()` -/
def countK (E : Elem α) (xs : List α) : Nat := (xs.filter (fun e => !E.beq e E.zero)).length

/-! ## the seventeen operations, by family -/

inductive RedOp | sum | prod | nansum | nanprod | max | min | nanmax | nanmin
  deriving DecidableEq, Repr
inductive ScanOp | cumsum | cumprod | nancumsum | nancumprod
  deriving DecidableEq, Repr
inductive CntOp | countNonzero | argmax | argmin
  deriving DecidableEq, Repr

/-- the scalar a reduction computes on a lane -/
def RedOp.kernel (E : Elem α) : RedOp → List α → Res α
  | .sum, xs => .ok (sumK E xs)
  | .prod, xs => .ok (prodK E xs)
  | .nansum, xs => .ok (nansumK E xs)
  | .nanprod, xs => .ok (nanprodK E xs)
  | .max, xs => maxK E xs
  | .min, xs => minK E xs
  | .nanmax, xs => nanmaxK E xs
  | .nanmin, xs => nanminK E xs

/-- the accumulator step / initial value of a scan -/
def ScanOp.step (E : Elem α) : ScanOp → α → α → α
  | .cumsum => fun acc x => E.add acc x
  | .cumprod => fun acc x => E.mul acc x
  | .nancumsum => fun acc x => E.add acc (E.nanToZero x)
  | .nancumprod => fun acc x => E.mul acc (E.nanToOne x)
def ScanOp.init (E : Elem α) : ScanOp → α
  | .cumsum | .nancumsum => E.zero
  | .cumprod | .nancumprod => E.one
def ScanOp.kernel (E : Elem α) : ScanOp → List α → List α
  | .cumsum, xs => cumsumK E xs
  | .cumprod, xs => cumprodK E xs
  | .nancumsum, xs => nancumsumK E xs
  | .nancumprod, xs => nancumprodK E xs

/-- the number a count / position query computes on a lane (`argmax` / `argmin`: `Sort.argExtremePos`, after the emptiness test) -/
def CntOp.kernel (E : Elem α) : CntOp → List α → Res Nat
  | .countNonzero, xs => .ok (countK E xs)
  | .argmax, xs => if xs.isEmpty then .err .ParameterError else Sort.argExtremePos E.cmp true xs
  | .argmin, xs => if xs.isEmpty then .err .ParameterError else Sort.argExtremePos E.cmp false xs

/-! ## the 1-D arms as array functions (the `f1` of `ArrModel/C08.lean`) -/

/-- `Self::single(kernel)` (`single` = `Array::new(vec![x], vec![1])`, always `Ok`) -/
def RedOp.lane (E : Elem α) (op : RedOp) (a : Arr α) : Res (Arr α) :=
  op.kernel E a.elems >>= fun v => .ok (Arr.single v)

/-- `self.ravel()?.map(closure)`: the running values, collected, reshaped to the shape of the ravelled receiver -/
def ScanOp.lane (E : Elem α) (op : ScanOp) (a : Arr α) : Res (Arr α) :=
  let r := a.ravel
  (Arr.flat (op.kernel E r.elems)).reshape r.shape

/-- `count_nonzero(None, keepdims)` / `argmax(None, keepdims)` / `argmin(None, keepdims)` -/
def CntOp.lane (E : Elem α) : CntOp → Arr α → Option Bool → Res (Arr Nat)
  | .countNonzero, a, kd => Arr.keepdimsTail a.ndim kd (Arr.single (countK E a.elems))
  | .argmax, a, kd => Sort.argExtremeLane E.cmp true a kd
  | .argmin, a, kd => Sort.argExtremeLane E.cmp false a kd

/-! ## the public operations: the wrappers of `ArrModel/C08.lean` with these bodies -/

def reduceOp (E : Elem α) (op : RedOp) (a : Arr α) (axis : Option Int) : Res (Arr α) :=
  a.reduceAxis E.zero E.zero axis (op.lane E)

def scanOp (E : Elem α) (op : ScanOp) (a : Arr α) (axis : Option Int) : Res (Arr α) :=
  a.scanAxis E.zero E.zero axis (op.lane E)

def countOp (E : Elem α) (op : CntOp) (a : Arr α) (axis : Option Int) (keepdims : Option Bool) : Res (Arr Nat) :=
  a.countAxis E.zero (0 : Nat) axis keepdims (op.lane E)

end ArrModel.C08K
