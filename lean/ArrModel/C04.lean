import ArrModel.Broadcast
/-!
# ArrModel.C04 — two-operand elementwise operations

Core Lean only.  One definition per *lifting pattern* of the Rust code, generic in the scalar kernel `f`
(nothing is modelled about the kernels themselves: their identity is tied natively in Rust, bit-exactly,
by `harness/src/bin/c04.rs`, which also holds the table "public operation ↦ pattern").

Rust pipelines and their model (all after the `fix:` commits recorded in known_findings.json):

* pattern **B** — both operands stretched (`arithmetic.rs` add, subtract, multiply, power, float_power;
  `exp_log.rs` logn, log_add_exp, log_add_exp2; `trigonometric.rs` atan2, hypot):
  ```
  let broadcasted = self.broadcast(value)?;
  let elements = broadcasted.clone().into_iter().map(|t| f(t.0, t.1)).collect();
  Self::new(elements, broadcasted.get_shape()?)
  ```
  ↦ `zipWithB`.
* pattern **G** — zero-divisor guard, then B (`arithmetic.rs` divide, fmod, remainder; `true_divide` = divide,
  `mod` = remainder): `if value.get_elements()?.contains(&N::zero()) { return Err(ParameterError) }` ↦ `divideLike`.
* pattern **GM** — `floor_divide` = `self.divide(value).floor()`: G, then `map(floor)` on the result ↦ `floorDivideLike`.
* pattern **IB** — `binary.rs` bitwise_and, bitwise_or, bitwise_xor, left_shift, right_shift:
  `self.get_shape()?.is_broadcastable(&other.get_shape()?)?;` then B ↦ `bitwiseLike`
  (the pinned `bitwise_xor` built its result with the receiver's shape: `bitwiseXorPinned`, kept only to exhibit the defect).
* pattern **R** — only the argument is stretched, to the receiver's shape (`extrema.rs` maximum, minimum, fmax, fmin;
  `misc.rs` heaviside; `floating.rs` copysign, nextafter, ldexp): `self.zip(other)?.map(|t| f(t.0, t.1))` ↦ `zipWithR`.
* pattern **RA** — `rational.rs` gcd, lcm: `self.abs()?.zip(&other.abs()?)?.map(..)` ↦ `zipWithRA`
  (`abs` = `map`, see `map1`).
* pattern **R3** — `misc.rs` clip with both bounds given:
  `lo.broadcast_to(shape)?`, `hi.broadcast_to(shape)?`, `borders = lo.zip(&hi)?`, `self.zip(&borders)?.map(..)` ↦ `clipLike`.
-/
namespace ArrModel.C04
open ArrModel

variable {α β γ δ : Type}

/-- `Array::map` (`iter.rs:275`): `elements.iter().map(f).collect::<Array<_>>().reshape(&self.get_shape()?)` -/
def map1 (g : α → β) (a : Arr α) : Res (Arr β) := (Arr.flat (a.elems.map g)).reshape a.shape

/-- pattern B: `self.broadcast(value)?`, map every pair, `Array::new(elements, broadcasted.get_shape()?)` -/
def zipWithB (f : α → β → γ) (a : Arr α) (b : Arr β) : Res (Arr γ) :=
  a.broadcast b >>= fun br =>
  Arr.new (br.elems.map (fun t => f t.1 t.2)) br.shape

/-- pattern R: `self.zip(other)?.map(|t| f(t.0, t.1))` -/
def zipWithR (f : α → β → γ) (a : Arr α) (b : Arr β) : Res (Arr γ) :=
  a.zip b >>= fun z => map1 (fun t => f t.1 t.2) z

/-- pattern G (`divide`, `fmod`, `remainder`): `value.get_elements()?.contains(&N::zero())` ⇒ `ParameterError`, else B -/
def divideLike (isZero : β → Bool) (f : α → β → γ) (a : Arr α) (b : Arr β) : Res (Arr γ) :=
  if b.elems.any isZero then .err .ParameterError else zipWithB f a b

/-- pattern GM (`floor_divide`): `self.divide(value).floor()` — `floor` on an error receiver returns that error -/
def floorDivideLike (isZero : β → Bool) (f : α → β → γ) (post : γ → δ) (a : Arr α) (b : Arr β) : Res (Arr δ) :=
  divideLike isZero f a b >>= fun q => map1 post q

/-- pattern IB (bitwise logic and shifts): the extra `is_broadcastable` call, then B -/
def bitwiseLike (f : α → β → γ) (a : Arr α) (b : Arr β) : Res (Arr γ) :=
  if !isBroadcastable a.shape b.shape then .err .BroadcastShapeMismatch else zipWithB f a b

/-- the pinned `bitwise_xor`: same as IB but `Self::new(elements, self.get_shape()?)` — the RECEIVER's shape -/
def bitwiseXorPinned (f : α → β → γ) (a : Arr α) (b : Arr β) : Res (Arr γ) :=
  if !isBroadcastable a.shape b.shape then .err .BroadcastShapeMismatch
  else a.broadcast b >>= fun br => Arr.new (br.elems.map (fun t => f t.1 t.2)) a.shape

/-- pattern RA (`gcd`, `lcm`): `self.abs()?.zip(&other.abs()?)?.map(..)`; `abs` is a `map` -/
def zipWithRA (g : α → α) (h : β → β) (f : α → β → γ) (a : Arr α) (b : Arr β) : Res (Arr γ) :=
  map1 g a >>= fun a' => map1 h b >>= fun b' => zipWithR f a' b'

/-- pattern R3 (`clip(Some(lo), Some(hi))`): both bounds stretched to the receiver, paired, then zipped with the receiver -/
def clipLike (f : α → β → β → γ) (a : Arr α) (lo hi : Arr β) : Res (Arr γ) :=
  lo.broadcastTo a.shape >>= fun lo' =>
  hi.broadcastTo a.shape >>= fun hi' =>
  lo'.zip hi' >>= fun borders =>
  a.zip borders >>= fun z =>
  map1 (fun t => f t.1 t.2.1 t.2.2) z

/-- the lifting patterns, as the case lines of the tie name them -/
inductive Pattern | B | G | GM | IB | R | RA
  deriving DecidableEq, Repr

def Pattern.ofString : String → Option Pattern
  | "B" => some .B | "G" => some .G | "GM" => some .GM | "IB" => some .IB | "R" => some .R | "RA" => some .RA
  | _ => none

/-- run a pattern with the given kernel (used by the driver with the pairing kernel on tag arrays) -/
def Pattern.run (p : Pattern) (isZero : β → Bool) (f : α → β → γ) (a : Arr α) (b : Arr β) : Res (Arr γ) :=
  match p with
  | .B => zipWithB f a b
  | .G => divideLike isZero f a b
  | .GM => floorDivideLike isZero f id a b
  | .IB => bitwiseLike f a b
  | .R => zipWithR f a b
  | .RA => zipWithRA id id f a b

end ArrModel.C04
