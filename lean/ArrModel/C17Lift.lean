import ArrModel.C17
import ArrModel.Broadcast
/-!
# ArrModel.C17Lift — the string-array operations

Mirrors `src/alphanumeric/operations/manipulate.rs:451-649`, `compare.rs:185-244`, `indexing.rs:184-244`,
`validate.rs:149-210` (after `fixes/C17-pad-result-shape.diff`): broadcast the array arguments, map the per-string
primitive over the positions, rebuild with the broadcast shape.

The broadcasting primitives are a parameter (`Bcast`); `Bcast.std` plugs in the model of
`src/core/operations/broadcast.rs` (`ArrModel/Broadcast.lean`, property C03).
-/
namespace ArrModel.C17
open ArrModel

/-- `broadcast`, `broadcast_to`, `broadcast_arrays` -/
structure Bcast where
  pair : {α β : Type} → Arr α → Arr β → Res (Arr (α × β))
  to : {α : Type} → Arr α → List Nat → Res (Arr α)
  arrays : {α : Type} → List (Arr α) → Res (List (Arr α))

/-- the model of `src/core/operations/broadcast.rs` -/
def Bcast.std : Bcast := ⟨Arr.broadcast, Arr.broadcastTo, Arr.broadcastArrays⟩

/-- `Array::single` -/
def single {α : Type} (x : α) : Arr α := ⟨[x], [1]⟩

variable {α β γ δ : Type}

/-- `broadcast_h2` (`broadcast.rs:259-269`); `z` is `T::zero()` -/
def h2 (B : Bcast) (z : α) (a : Arr α) (b : Arr β) : Res (Arr α × Arr β) :=
  B.to (single z) b.shape >>= fun tmpOther =>
  B.pair a tmpOther >>= fun tmp =>
  Arr.new (tmp.elems.map (·.1)) tmp.shape >>= fun arr =>
  B.to b arr.shape >>= fun b' =>
  .ok (arr, b')

/-- `broadcast_h3` (`broadcast.rs:271-281`) -/
def h3 (B : Bcast) (z : α) (a : Arr α) (b : Arr β) (c : Arr γ) : Res (Arr α × Arr β × Arr γ) :=
  B.to (single z) b.shape >>= fun t1 =>
  B.to (single z) c.shape >>= fun t2 =>
  B.arrays [a, t1, t2] >>= fun bs =>
  Res.idx bs 0 >>= fun arr =>
  B.to b arr.shape >>= fun b' =>
  B.to c arr.shape >>= fun c' =>
  .ok (arr, b', c')

/-- one-operand operations: `self.into_iter().map(f)` rebuilt with `self.get_shape()` -/
def lift1 (f : α → β) (a : Arr α) : Res (Arr β) := Arr.new (a.elems.map f) a.shape

/-- two string operands: `self.broadcast(other)`, map over the pairs, rebuild with the broadcast shape -/
def lift2 (B : Bcast) (f : α → β → γ) (a : Arr α) (b : Arr β) : Res (Arr γ) :=
  B.pair a b >>= fun t => Arr.new (t.elems.map (fun p => f p.1 p.2)) t.shape

/-- string operand + one heterogeneous operand through `broadcast_h2` -/
def lift2h (B : Bcast) (z : α) (f : α → β → γ) (a : Arr α) (b : Arr β) : Res (Arr γ) :=
  h2 B z a b >>= fun p => Arr.new (List.zipWith f p.1.elems p.2.elems) p.1.shape

def zipWith3 (f : α → β → γ → δ) : List α → List β → List γ → List δ
  | a :: as, b :: bs, c :: cs => f a b c :: zipWith3 f as bs cs
  | _, _, _ => []

/-- string operand + two heterogeneous operands through `broadcast_h3` (`center`, `ljust`, `rjust`;
`rjust` spells the same steps out by hand, `manipulate.rs:604-618`) -/
def lift3h (B : Bcast) (z : α) (f : α → β → γ → δ) (a : Arr α) (b : Arr β) (c : Arr γ) : Res (Arr δ) :=
  h3 B z a b c >>= fun p => Arr.new (zipWith3 f p.1.elems p.2.1.elems p.2.2.elems) p.1.shape

/-- three string operands through `broadcast_arrays` (`replace`, `manipulate.rs:561-570`) -/
def lift3 (B : Bcast) (f : α → α → α → β) (a b c : Arr α) : Res (Arr β) :=
  B.arrays [a, b, c] >>= fun bs =>
  Res.idx bs 0 >>= fun a' => Res.idx bs 1 >>= fun b' => Res.idx bs 2 >>= fun c' =>
  Res.mapM' (fun i => Res.idx a'.elems i >>= fun x => Res.idx b'.elems i >>= fun y => Res.idx c'.elems i >>= fun z =>
      .ok (f x y z)) (List.range a'.elems.length) >>= fun es =>
  Arr.new es a'.shape

/-- `split` / `rsplit` (`manipulate.rs:529-550`): pair with the separator, the limit is `broadcast_to` the pair shape -/
def liftSplit (B : Bcast) (f : α → α → Option Nat → β) (a : Arr α) (sep : Arr α) (maxSplit : Option (Arr Nat)) :
    Res (Arr β) :=
  B.pair a sep >>= fun t =>
  (match maxSplit with
    | some m => B.to m t.shape >>= fun m' => .ok (some m')
    | none => .ok none) >>= fun (ms : Option (Arr Nat)) =>
  Res.mapM' (fun (ip : Nat × (α × α)) =>
      match ms with
      | some m => Res.idx m.elems ip.1 >>= fun n => .ok (f ip.2.1 ip.2.2 (some n))
      | none => .ok (f ip.2.1 ip.2.2 none)) ((List.range t.elems.length).zip t.elems) >>= fun es =>
  Arr.new es t.shape

/-! ### the operations -/

abbrev SArr := Arr Str
def zeroS : Str := ['0']
def space : SArr := single [' ']

def add (B : Bcast) (a b : SArr) := lift2 B append a b
def multiplyA (B : Bcast) (a : SArr) (n : Arr Nat) := lift2h B zeroS multiply a n
def capitalizeA (a : SArr) := lift1 capitalize a
def lowerA (a : SArr) := lift1 lower a
def upperA (a : SArr) := lift1 upper a
def swapcaseA (a : SArr) := lift1 swapcase a
def centerA (B : Bcast) (a : SArr) (w : Arr Nat) (fill : Option (Arr Char)) :=
  lift3h B zeroS center a w (fill.getD (single ' '))
def ljustA (B : Bcast) (a : SArr) (w : Arr Nat) (fill : Option (Arr Char)) :=
  lift3h B zeroS ljust a w (fill.getD (single ' '))
def rjustA (B : Bcast) (a : SArr) (w : Arr Nat) (fill : Option (Arr Char)) :=
  lift3h B zeroS rjust a w (fill.getD (single ' '))
def joinA (B : Bcast) (a sep : SArr) := lift2 B joinChars a sep
def partitionA (B : Bcast) (a sep : SArr) := lift2 B partition a sep
def rpartitionA (B : Bcast) (a sep : SArr) := lift2 B rpartition a sep
def splitA (B : Bcast) (a : SArr) (sep : Option SArr) (m : Option (Arr Nat)) :=
  liftSplit B split a (sep.getD space) m
def rsplitA (B : Bcast) (a : SArr) (sep : Option SArr) (m : Option (Arr Nat)) :=
  liftSplit B rsplit a (sep.getD space) m
def splitlinesA (B : Bcast) (a : SArr) (keep : Option (Arr Bool)) :=
  lift2h B zeroS splitlines a (keep.getD (single false))
def replaceA (B : Bcast) (a old new : SArr) (cnt : Option Nat) :=
  lift3 B (fun s o n => replace s o n cnt) a old new
def lstripA (B : Bcast) (a : SArr) (chars : Option SArr) := lift2 B lstrip a (chars.getD space)
def rstripA (B : Bcast) (a : SArr) (chars : Option SArr) := lift2 B rstrip a (chars.getD space)
/-- `strip` = `self.lstrip(chars.clone()).rstrip(chars)` (`manipulate.rs:572-574`) -/
def stripA (B : Bcast) (a : SArr) (chars : Option SArr) := lstripA B a chars >>= fun l => rstripA B l chars
/-- `zfill` (`manipulate.rs:620-637`) -/
def zfillA (a : SArr) (width : Nat) : Res SArr :=
  if a.elems.any (fun s => !isF64Literal s) then .err .ParameterError else lift1 (zfill1 width) a
def translateA (a : SArr) (table : List (Char × Char)) := lift1 (translate table) a

inductive CmpOp | eq | ne | gt | lt | ge | le
  deriving DecidableEq, Repr

/-- `parse_op` (`core/types/compare/mod.rs:50-60`) on the lower-cased text -/
def parseCmpOp (s : Str) : Res CmpOp :=
  let l := lower s
  if l = ['=', '='] ∨ l = ['e','q','u','a','l','s'] then .ok .eq
  else if l = ['!', '='] ∨ l = ['n','o','t','_','e','q','u','a','l','s'] then .ok .ne
  else if l = ['>'] ∨ l = ['g','r','e','a','t','e','r'] then .ok .gt
  else if l = ['<'] ∨ l = ['l','e','s','s'] then .ok .lt
  else if l = ['>', '='] ∨ l = ['g','r','e','a','t','e','r','_','e','q','u','a','l'] then .ok .ge
  else if l = ['<', '='] ∨ l = ['l','e','s','s','_','e','q','u','a','l'] then .ok .le
  else .err .ParameterError

def CmpOp.fn : CmpOp → Str → Str → Bool
  | .eq => equal | .ne => notEqual | .gt => greater | .lt => less | .ge => greaterEqual | .le => lessEqual

def cmpA (B : Bcast) (op : CmpOp) (a b : SArr) := lift2 B op.fn a b
/-- `compare` (`compare.rs:233-243`) -/
def compareA (B : Bcast) (a b : SArr) (op : Str) := parseCmpOp op >>= fun o => cmpA B o a b

def strLenA (a : SArr) := lift1 strLen a
def countA (B : Bcast) (a sub : SArr) := lift2 B count a sub
def startsWithA (B : Bcast) (a p : SArr) := lift2 B startsWith a p
def endsWithA (B : Bcast) (a p : SArr) := lift2 B endsWith a p
def findA (B : Bcast) (a sub : SArr) := lift2 B findI a sub
def rfindA (B : Bcast) (a sub : SArr) := lift2 B rfindI a sub

end ArrModel.C17
