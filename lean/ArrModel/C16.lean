import ArrModel.Index
/-!
# ArrModel.C16 — structured constructors

Mirrors `src/numeric/operations/create.rs:389-581` (`rand eye identity zeros ones full *_like arange linspace
logspace geomspace tri`), `src/numeric/operations/create_from.rs:147-257` (`diag diagflat tril triu vander`,
`apply_triangular`) and the thin wrappers `src/macros/{zeros,ones,full,eye,identity,arange,rand}.rs`.

Scalars: integer-valued constructors are modelled over `Int`; the spaced sequences over exact rationals (`Rat`,
core Lean) — the Rust code computes them in `f64` and casts back with `N::from`, the rounding is NOT modelled (the
tie compares with tolerance where the statement says "constant", exactly where it says "begin at"/"end at").
`powf` is abstract (`PowOps`): `geomspace`/`logspace` are modelled over any scalar domain with `mul div powf`.

The model mirrors the tree after these `fix:` commits of /repo:
* 1199bc3 `apply_triangular` on rank < 2 : `is_dim_unsupported(&[0, 1])?` (was: usize underflow panic)
* 158e6f6 `apply_triangular` on a matrix with a zero-length side: `chunks(chunk_size.max(1))` (was: `chunks(0)` panic)
* 315b49d `arange` with step 0: `Err(ParameterError)` (was: capacity-overflow panic)
* 5a75905 `linspace/logspace/geomspace`: `num.saturating_sub(delta)` (was: `num - delta` underflow panic for num = 0)
* 83f86c3 `tri/tril/triu`: `i.saturating_add(k)`; `diag_1d`: checked side `size + |k|` and `side * side`
  (`Err(OutOfBounds)`); `diag_2d`: `k.unsigned_abs()`.
Machine integers appear only where the code now names them: `isizeMin/isizeMax` in `satAdd`, `usizeMax` in `diag1d`.
-/

namespace ArrModel.C16
open ArrModel

variable {α : Type}

/-! ## constant fills (`create.rs:421-443`) -/

/-- `full(shape, v)`: `Self::new(vec![v; shape.iter().product()], shape.clone())` -/
def full (shape : List Nat) (v : α) : Res (Arr α) := Arr.new (List.replicate shape.prod v) shape
/-- `full_like(other, v)`: `Self::new(vec![v; other.get_shape()?.iter().product()], other.get_shape()?)` -/
def fullLike (other : Arr α) (v : α) : Res (Arr α) := Arr.new (List.replicate other.shape.prod v) other.shape
def zeros (shape : List Nat) : Res (Arr Int) := Arr.new (List.replicate shape.prod 0) shape
def zerosLike (other : Arr Int) : Res (Arr Int) := Arr.new (List.replicate other.shape.prod 0) other.shape
def ones (shape : List Nat) : Res (Arr Int) := Arr.new (List.replicate shape.prod 1) shape
def onesLike (other : Arr Int) : Res (Arr Int) := Arr.new (List.replicate other.shape.prod 1) other.shape

/-- `rand(shape)`: `size` draws pushed in order, then `Self::new(elements, shape)`.
`draw i` stands for the i-th value returned by `N::rand(N::zero()..=N::one())`. -/
def rand (draw : Nat → α) (shape : List Nat) : Res (Arr α) :=
  Arr.new ((List.range shape.prod).map draw) shape

/-! ## machine-integer helpers (64-bit target) -/

def isizeMax : Int := 9223372036854775807
def isizeMin : Int := -9223372036854775808
def usizeMax : Nat := 18446744073709551615

/-- `isize::saturating_add` -/
def satAdd (a b : Int) : Int := max isizeMin (min isizeMax (a + b))

/-! ## identity-like (`create.rs:396-419`, `570-581`) -/

/-- `eye(n, m, k)` — note `k : Option<usize>`: only diagonals on or above the main one can be requested. -/
def eye (n : Nat) (m : Option Nat) (k : Option Nat) : Res (Arr Int) :=
  let m := m.getD n
  let k := k.getD 0
  Arr.new ((List.range (n * m)).map fun i =>
      let row := i / m
      let col := i % m
      if col ≥ k ∧ col - k = row then (1 : Int) else 0) [n, m]

/-- `identity(n)`: one where `i % (n + 1) == 0` -/
def identity (n : Nat) : Res (Arr Int) :=
  Arr.new ((List.range (n * n)).map fun i => if i % (n + 1) = 0 then (1 : Int) else 0) [n, n]

/-- `tri(n, m, k)`: `(0..n).flat_map(|i| (0..m).map(|j| if j as isize <= (i as isize).saturating_add(k) {1} else {0}))` -/
def tri (n : Nat) (m : Option Nat) (k : Option Int) : Res (Arr Int) :=
  let m := m.getD n
  let k := k.getD 0
  Arr.new ((List.range n).flatMap fun (i : Nat) => (List.range m).map fun (j : Nat) =>
      if (j : Int) ≤ satAdd (i : Int) k then (1 : Int) else 0) [n, m]

/-! ## triangular masks (`create_from.rs:206-214`, `232-256`) -/

/-- `slice::chunks(n)` for `n > 0`, with fuel (`fuel = l.length` suffices: every step removes ≥ 1 element) -/
def chunksAux (n : Nat) : Nat → List α → List (List α)
  | 0, _ => []
  | fuel + 1, l => if l.isEmpty then [] else l.take n :: chunksAux n fuel (l.drop n)

/-- `slice::chunks(n)`: panics when `n == 0` -/
def chunks (n : Nat) (l : List α) : Res (List (List α)) :=
  if n = 0 then .panic else .ok (chunksAux n l.length l)

/-- `apply_triangular(k, compare)`; `compare(j, i, k)` true ⇒ the entry is zeroed -/
def applyTriangular (a : Arr Int) (k : Int) (compare : Int → Int → Int → Bool) : Res (Arr Int) :=
  -- `self.is_dim_unsupported(&[0, 1])?`
  if a.shape.length < 2 then .err .UnsupportedDimension
  else
    let last := a.shape.getD (a.shape.length - 1) 0
    let secondLast := a.shape.getD (a.shape.length - 2) 0
    let chunkSize := last * secondLast
    -- `chunks(chunk_size.max(1))`
    match chunks (max chunkSize 1) a.elems with
    | .ok cs =>
      Arr.new (cs.flatMap fun chunk => chunk.mapIdx fun idx value =>
        let i := (idx / last) % secondLast
        let j := idx % last
        if compare (j : Int) (i : Int) k then (0 : Int) else value) a.shape
    | .err e => .err e
    | .panic => .panic

/-- `tril(k)`: zero where `j > i.saturating_add(k)` -/
def tril (a : Arr Int) (k : Option Int) : Res (Arr Int) :=
  applyTriangular a (k.getD 0) (fun j i k => decide (j > satAdd i k))

/-- `triu(k)`: zero where `j < i.saturating_add(k)` -/
def triu (a : Arr Int) (k : Option Int) : Res (Arr Int) :=
  applyTriangular a (k.getD 0) (fun j i k => decide (j < satAdd i k))

/-! ## diag / diagflat (`create_from.rs:152-204`) -/

/-- `diag_1d`: vector → square matrix of side `size + |k|`;
`size.checked_add(abs_k).filter(|s| s.checked_mul(*s).is_some()).ok_or(OutOfBounds)?` -/
def diag1d (data : Arr Int) (k : Int) : Res (Arr Int) := do
  let size ← Res.idx data.shape 0
  let absK := k.natAbs
  let n := size + absK
  if n > usizeMax ∨ n * n > usizeMax then .err .OutOfBounds
  else
    let elements ← Res.mapM' (fun idx =>
        let i := idx / n
        let j := idx % n
        if k ≥ 0 ∧ j = i + k.toNat then
          (if i < size then Res.idx data.elems i else .ok (0 : Int))
        else if k < 0 ∧ i = j + absK then
          (if j < size then Res.idx data.elems j else .ok 0)
        else .ok 0) (List.range (n * n))
    Arr.new elements [n, n]

/-- `diag_2d`: matrix → its k-th diagonal, `(start_row..rows).zip(start_col..cols)` -/
def diag2d (data : Arr Int) (k : Int) : Res (Arr Int) := do
  let rows ← Res.idx data.shape 0
  let cols ← Res.idx data.shape 1
  let start : Nat × Nat := if k ≥ 0 then (0, k.toNat) else (k.natAbs, 0)
  let pairs := (List.range' start.1 (rows - start.1)).zip (List.range' start.2 (cols - start.2))
  let elements ← Res.mapM' (fun (p : Nat × Nat) => Res.idx data.elems (p.1 * cols + p.2)) pairs
  Arr.new elements [elements.length]

/-- `diag(k)`: `is_dim_supported(&[1, 2])?` then the rank dispatch -/
def diag (a : Arr Int) (k : Option Int) : Res (Arr Int) :=
  if ¬ (a.ndim = 1 ∨ a.ndim = 2) then .err .UnsupportedDimension
  else
    let k := k.getD 0
    if a.ndim = 1 then diag1d a k else diag2d a k

/-- `diagflat(k)`: `self.ravel()?.diag(k)`; `ravel = Array::flat(elements)` -/
def diagflat (a : Arr Int) (k : Option Int) : Res (Arr Int) :=
  diag (Arr.flat a.elems) k

/-! ## vander (`create_from.rs:216-229`) -/

/-- `vander(n, increasing)`: `for item in self { for i in 0..n_columns { item.powf(power) } }` -/
def vander (a : Arr Int) (n : Option Nat) (increasing : Option Bool) : Res (Arr Int) :=
  if a.ndim ≠ 1 then .err .UnsupportedDimension
  else
    match Res.idx a.shape 0 with
    | .ok size =>
      let increasing := increasing.getD false
      let nColumns := n.getD size
      Arr.new (a.elems.flatMap fun item => (List.range nColumns).map fun i =>
        item ^ (if increasing then i else nColumns - i - 1)) [size, nColumns]
    | .err e => .err e
    | .panic => .panic

/-! ## ranges and spaced sequences (`create.rs:447-566`) — exact rationals -/

/-- the `for _ in 0..size { elements.push(value); value += step; }` loop -/
def arangeLoop (step : Rat) : Nat → Rat → List Rat
  | 0, _ => []
  | n + 1, value => value :: arangeLoop step n (value + step)

/-- `arange(start, stop, step)`: a zero step is refused; `size = ((stop + 1 - start) / step) as usize`
(truncation toward zero, negatives saturate to 0). -/
def arange (start stop : Rat) (step : Option Rat) : Res (Arr Rat) :=
  let step := step.getD 1
  if step = 0 then .err .ParameterError
  else
    let size := ((stop + 1 - start) / step).floor.toNat
    .ok (Arr.flat (arangeLoop step size start))

/-- `linspace(start, stop, num, endpoint)`; `num.saturating_sub(delta)` is truncated subtraction on `Nat` -/
def linspace (start stop : Rat) (num : Option Nat) (endpoint : Option Bool) : Res (Arr Rat) :=
  let num := num.getD 50
  let endpoint := endpoint.getD true
  let delta := if endpoint then 1 else 0
  let step := (stop - start) / ((num - delta : Nat) : Rat)
  .ok (Arr.flat ((List.range num).map fun i =>
    if endpoint ∧ i = num - 1 then stop else (i : Rat) * step + start))

/-- the float kernels used by `geomspace` / `logspace`, abstract -/
structure PowOps (R : Type) where
  mul : R → R → R
  div : R → R → R
  /-- `x.powf(y)`; every exponent occurring is rational -/
  powf : R → Rat → R

/-- `geomspace(start, stop, num, endpoint)` -/
def geomspace {R : Type} (P : PowOps R) (isZero : R → Bool) (start stop : R)
    (num : Option Nat) (endpoint : Option Bool) : Res (List R) :=
  if isZero start then .err .ParameterError
  else if isZero stop then .err .ParameterError
  else
    let num := num.getD 50
    let endpoint := endpoint.getD true
    let delta := if endpoint then 1 else 0
    let ratio := P.powf (P.div stop start) (1 / ((num - delta : Nat) : Rat))
    .ok ((List.range num).map fun i =>
      if endpoint ∧ i = num - 1 then stop else P.mul start (P.powf ratio (i : Rat)))

/-- `logspace(start, stop, num, endpoint, base)`; `base` already converted (`base.unwrap_or(10).to_f64()`) -/
def logspace {R : Type} (P : PowOps R) (base : R) (start stop : Rat)
    (num : Option Nat) (endpoint : Option Bool) : Res (List R) :=
  let num := num.getD 50
  let endpoint := endpoint.getD true
  let delta := if endpoint then 1 else 0
  let logStart := P.powf base start
  let logStop := P.powf base stop
  let logStep := P.powf (P.div logStop logStart) (1 / ((num - delta : Nat) : Rat))
  .ok ((List.range num).map fun i =>
    if endpoint ∧ i = num - 1 then logStop else P.mul logStart (P.powf logStep (i : Rat)))

/-! ## the `array_*!` constructor macros (`src/macros/*.rs`) — thin wrappers -/

/-- `array_zeros!(T, d0, d1, …)` = `Array::<T>::zeros(vec![d0, d1, …])` -/
def macroZeros (dims : List Nat) : Res (Arr Int) := zeros dims
def macroOnes (dims : List Nat) : Res (Arr Int) := ones dims
/-- `array_full!(T, shape, fill)` = `Array::<T>::full(shape.clone(), fill)` -/
def macroFull (shape : List Nat) (v : α) : Res (Arr α) := full shape v
/-- `array_eye!(T, n)` → `(T, n, n, 0)`; `(T, n, m)` → `(T, n, m, 0)`; `(T, n, m, k)` = `eye(n, Some(m), Some(k))` -/
def macroEye (n : Nat) (m : Option Nat) (k : Option Nat) : Res (Arr Int) :=
  eye n (some (m.getD n)) (some (k.getD 0))
def macroIdentity (n : Nat) : Res (Arr Int) := identity n
/-- `array_arange!(T, a, b)` = `arange(a, b, None)`; `(T, a, b, s)` = `arange(a, b, Some(s))` -/
def macroArange (start stop : Rat) (step : Option Rat) : Res (Arr Rat) := arange start stop step
def macroRand (draw : Nat → α) (dims : List Nat) : Res (Arr α) := rand draw dims

end ArrModel.C16
