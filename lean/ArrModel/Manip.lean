import ArrModel.Axis
/-!
# ArrModel.Manip — `resize`, `cycle_take`, `atleast`, `expand_dims`, `squeeze`, `create(ndmin)`

Mirrors `manipulate.rs:348-353, 372-380, 395-397, 445-472`, `axis.rs:266-298`, `create.rs:127-137`.
(`reshape`, `ravel` are in `ArrModel/Reshape.lean`.)
-/
namespace ArrModel

/-- `iter().cycle().take(n)` on a list (an empty source yields nothing) -/
def cycleTake {α} (l : List α) (n : Nat) : List α :=
  if l.isEmpty then [] else (List.range n).filterMap (fun i => l[i % l.length]?)

/-- `normalize_axis_dim(axis, ndim)`: `if axis < 0 { (self.ndim + axis + ndim) as usize } else { axis as usize }` -/
def normalizeAxisDim (selfNdim : Nat) (axis : Int) (n : Nat) : Nat :=
  if axis < 0 then
    let v := (selfNdim : Int) + axis + (n : Int)
    if v < 0 then (v + (USIZE : Int)).toNat else v.toNat
  else axis.toNat

/-- insertion sort on naturals (`sorted()`); stable, total -/
def sortNat (l : List Nat) : List Nat := l.mergeSort (fun a b => decide (a ≤ b))

namespace Arr
variable {α : Type}

/-- `resize`: cycle through the source elements, then `reshape` -/
def resize (a : Arr α) (shape : List Nat) : Res (Arr α) :=
  (Arr.flat (cycleTake a.elems shape.prod)).reshape shape

/-- `cycle_take` -/
def cycleTakeArr (a : Arr α) (n : Nat) : Arr α := Arr.flat (cycleTake a.elems n)

/-- `atleast_1d`: `if !self.ndim()? >= 1` — bitwise NOT on `usize`, true for every realistic rank: returns a clone -/
def atleast1d (a : Arr α) : Res (Arr α) := .ok a

def atleast2d (a : Arr α) : Res (Arr α) :=
  if a.ndim ≥ 2 then .ok a
  else match a.ndim with
    | 0 => a.reshape [1, 1]
    | 1 => (Res.idx a.shape 0) >>= fun d => a.reshape [1, d]
    | _ => (Res.idx a.shape 0) >>= fun d => a.reshape [d, 1]

def atleast3d (a : Arr α) : Res (Arr α) :=
  if a.ndim ≥ 3 then .ok a
  else match a.ndim with
    | 0 => a.reshape [1, 1, 1]
    | 1 => (Res.idx a.shape 0) >>= fun d => a.reshape [1, d, 1]
    | 2 => (Res.idx a.shape 0) >>= fun d0 => (Res.idx a.shape 1) >>= fun d1 => a.reshape [d0, d1, 1]
    | _ => .ok a

/-- `atleast(n)` -/
def atleast (a : Arr α) (n : Nat) : Res (Arr α) :=
  match n with
  | 0 => .ok a
  | 1 => a.atleast1d
  | 2 => a.atleast2d
  | 3 => a.atleast3d
  | _ => .err .UnsupportedDimension

/-- `Vec::insert(i, x)`: panics when `i > len` -/
def vecInsert {β} (l : List β) (i : Nat) (x : β) : Res (List β) :=
  if i > l.length then .panic else .ok (l.insertIdx i x)

/-- `Vec::remove(i)`: panics when `i >= len` -/
def vecRemove {β} (l : List β) (i : Nat) : Res (List β) :=
  if i ≥ l.length then .panic else .ok (l.eraseIdx i)

/-- `expand_dims(axes)`: normalise against the final rank, sort, insert a unit axis at each position in turn -/
def expandDims (a : Arr α) (axes : List Int) : Res (Arr α) :=
  let ax := sortNat (axes.map (fun i => normalizeAxisDim a.ndim i axes.length))
  if (ax.zipIdx).any (fun p => decide (p.1 > a.ndim + p.2)) then .err .AxisOutOfBounds else
  (ax.foldl (fun (acc : Res (List Nat)) item => acc >>= fun sh => vecInsert sh item 1) (.ok a.shape)) >>= fun sh =>
  a.reshape sh

/-- `squeeze(axes)` -/
def squeeze (a : Arr α) (axes : Option (List Int)) : Res (Arr α) :=
  match axes with
  | some axes =>
    let ax := (sortNat (axes.map (normalizeAxis a.ndim))).reverse
    if ax.any (fun x => decide (x ≥ a.ndim)) then .err .AxisOutOfBounds else
    if ¬ ax.Nodup then .err .MustBeUnique else
    -- `axes.iter().any(|a| new_shape[*a] != 1)`: indexing panics on an axis outside the rank
    (Res.mapM' (fun i => Res.idx a.shape i) ax) >>= fun dims =>
    if dims.any (fun d => d != 1) then .err .SqueezeShapeOfAxisMustBeOne
    else
      (ax.foldl (fun (acc : Res (List Nat)) item => acc >>= fun sh => vecRemove sh item) (.ok a.shape)) >>= fun sh =>
      a.reshape sh
  | none => a.reshape (a.shape.filter (fun d => d != 1))

/-- `Array::create(elements, shape, ndmin)` -/
def create (elems : List α) (shape : List Nat) (ndmin : Option Nat) : Res (Arr α) :=
  let nm := ndmin.getD 0
  let array := Arr.new elems shape
  if nm > shape.length then
    array >>= fun a => a.reshape (List.replicate (nm - shape.length) 1 ++ shape)
  else array

end Arr
end ArrModel
