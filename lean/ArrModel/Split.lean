import ArrModel.Manip
/-!
# ArrModel.Split — `array_split`, `split`, `split_axis`, `hsplit`, `vsplit`, `dsplit`

Mirrors `src/core/operations/split.rs:148-246` (after the `fix:` commits for `array_split`;
`array_split` / `split` validate the DEFAULTED axis `axis.unwrap_or(0)`, /repo 3685e2a).
-/
namespace ArrModel

/-- section sizes of `array_split`: `extras` sections of `sections + 1`, then `parts - extras` of `sections` -/
def sectionSizes (nTotal parts : Nat) : List Nat :=
  List.replicate (nTotal % parts) (nTotal / parts + 1) ++ List.replicate (parts - nTotal % parts) (nTotal / parts)

/-- `div_points`: prefix sums of `0 :: section_sizes` -/
def divPoints (sizes : List Nat) : List Nat :=
  (List.range (sizes.length + 1)).map (fun i => (sizes.take i).sum)

/-- `windows(2)` -/
def windows2 {β} : List β → List (β × β)
  | a :: b :: r => (a, b) :: windows2 (b :: r)
  | _ => []

namespace Arr
variable {α : Type}

/-- `array_split(parts, axis)` -/
def arraySplit (a : Arr α) (zero : α) (parts : Nat) (axis : Option Nat) : Res (List (Arr α)) :=
  if parts = 0 then .err .ParameterError
  else if decide (axis.getD 0 ≥ a.ndim) then .err .AxisOutOfBounds
  else if a.isEmpty then .ok [a]
  else
    let ax := axis.getD 0
    (Res.idx a.shape ax) >>= fun nTotal =>
    -- `self.len()? / n_total`: division by zero cannot happen (the array is not empty)
    let stride := a.len / nTotal
    let points := divPoints (sectionSizes nTotal parts)
    a.rollaxis zero (Int.ofNat ax) none >>= fun arr =>
    Res.mapM' (fun (w : Nat × Nat) =>
        let sec := w.2 - w.1
        let m : Arr α := Arr.flat ((arr.elems.drop (w.1 * stride)).take (sec * stride))
        if a.ndim = 1 then .ok m
        else
          m.reshape (arr.shape.set 0 sec) >>= fun r =>
          r.moveaxis zero [0] [Int.ofNat ax]) (windows2 points)

/-- `split(parts, axis)` -/
def split (a : Arr α) (zero : α) (parts : Nat) (axis : Option Nat) : Res (List (Arr α)) :=
  if decide (axis.getD 0 ≥ a.ndim) then .err .AxisOutOfBounds
  else if parts = 0 then .err .ParameterError
  else if a.isEmpty then .ok [a]
  else
    (Res.idx a.shape (axis.getD 0)) >>= fun nTotal =>
    if nTotal % parts = 0 then a.arraySplit zero parts axis else .err .ParameterError

/-- `split_axis(axis)` -/
def splitAxis (a : Arr α) (zero : α) (axis : Nat) : Res (List (Arr α)) :=
  if axis ≥ a.ndim then .err .AxisOutOfBounds
  else if a.isEmpty || a.ndim == 1 then .ok [a]
  else (Res.idx a.shape axis) >>= fun n => a.arraySplit zero n (some axis)

end Arr
end ArrModel
