import ArrModel.Reorder
import ArrModel.C08
import ArrModel.C10
import ArrModel.C13
import ArrModel.Joining
import ArrModel.C05
import ArrModel.C04
import ArrModel.C14
import ArrModel.C16
import ArrModel.C19Pipe
import ArrModel.C20
import ArrModel.IndexExt
import ArrModel.C14Ext
import ArrModel.C17Lift
import ArrModel.C01Diff
/-!
# ArrModel.C01 — the small-step store machine over the whole modelled operation set

A *store* is the list of everything a caller has obtained so far: arrays, lists of arrays (the results of the split
family, `broadcast_arrays`, pairs), and the non-array outcomes (an error value, a panic, "not applicable").
An *operation* names one modelled public operation; its array arguments are **positions of earlier store entries**
(a chain of operations applied to earlier results).  `step` appends the outcome.  Elements are `Int` tags: every
modelled operation is generic in the element type (or its shape does not depend on the values), so the *shape* the
machine computes is the shape the real code must produce for any element type (this is what the tie compares).

The definitions called here are exactly the definitions of the other properties' models (`ArrModel/*.lean`); nothing
is re-modelled.  Operations outside the modelled set enter the machine as `Op.extern`: "whatever the real call
returned", which the run-time monitor of the harness checks — the machine only needs its shape to stay aligned, and
builds a fresh array of that shape through `Arr.new`.
-/
namespace ArrModel.C01
open ArrModel

abbrev A := Arr Int

/-- what a caller can hold after a call -/
inductive Val
  | arr (a : A)
  | list (l : List A)
  | err (e : Err)
  | panic
  /-- the step was not applicable (an argument position does not hold an array / a list) -/
  | skip
  deriving Repr

abbrev Store := List Val

/-- the array arguments of the list-taking operations: explicit positions, or all members of a stored list -/
inductive Refs
  | idxs (l : List Nat)
  | lst (i : Nat)
  deriving Repr

def tags (n : Nat) (off : Int) : List Int := (List.range n).map (fun i => Int.ofNat i + off)
def tagArr (shape : List Nat) : Res A := Arr.new (tags shape.prod 0) shape

def getA (s : Store) (i : Nat) : Option A := match s[i]? with | some (.arr a) => some a | _ => none
def getL (s : Store) (i : Nat) : Option (List A) := match s[i]? with | some (.list l) => some l | _ => none
def getAs (s : Store) : List Nat → Option (List A)
  | [] => some []
  | i :: is => match getA s i, getAs s is with
    | some a, some as => some (a :: as)
    | _, _ => none
def getRefs (s : Store) : Refs → Option (List A)
  | .idxs l => getAs s l
  | .lst i => getL s i

def ofRes : Res A → Val
  | .ok a => .arr a | .err e => .err e | .panic => .panic
def ofResL : Res (List A) → Val
  | .ok l => .list l | .err e => .err e | .panic => .panic
def ofResP : Res (A × A) → Val
  | .ok p => .list [p.1, p.2] | .err e => .err e | .panic => .panic

def with1 (s : Store) (i : Nat) (f : A → Val) : Val := match getA s i with | some a => f a | none => .skip
def with2 (s : Store) (i j : Nat) (f : A → A → Val) : Val :=
  match getA s i, getA s j with | some a, some b => f a b | _, _ => .skip
def with3 (s : Store) (i j k : Nat) (f : A → A → A → Val) : Val :=
  match getA s i, getA s j, getA s k with | some a, some b, some c => f a b c | _, _, _ => .skip
def withL (s : Store) (r : Refs) (f : List A → Val) : Val := match getRefs s r with | some l => f l | none => .skip

/-! ### element-type bridges (the store holds `Int` tags) -/
def toNatArr (a : A) : Arr Nat := ⟨a.elems.map Int.toNat, a.shape⟩
def ofNatArr (a : Arr Nat) : A := ⟨a.elems.map Int.ofNat, a.shape⟩
def ofRatArr (a : Arr Rat) : A := ⟨a.elems.map Rat.floor, a.shape⟩
def fstArr (a : Arr (Int × Int)) : A := ⟨a.elems.map (·.1), a.shape⟩
/-- the `Array<String>` stand-in of a tag array: the same shape, one string per element (the shapes the string
operations of `ArrModel/C17Lift.lean` answer with do not depend on the strings) -/
def strArr (a : A) : C17.SArr := ⟨a.elems.map (fun _ => []), a.shape⟩
/-- forget the elements of a result of any element type (String, bool, usize, isize, Tuple3, List<String>): the shape
and the element COUNT are kept -/
def blankArr {β : Type} (a : Arr β) : A := ⟨a.elems.map (fun _ => 0), a.shape⟩

/-! ### the 1-D bodies handed to the axis wrappers (shape-level: the value is a tag) -/
/-- `sum`/`prod`/`nansum`/`nanprod` of a lane: `Self::single(fold)` -/
def foldBody (x : A) : Res A := .ok (Arr.single (x.elems.foldl (· + ·) 0))
/-- `max`/`min`/… of a lane: `self[0]` panics on the empty lane -/
def extremeBody (x : A) : Res A := match x.elems with | [] => .panic | e :: _ => .ok (Arr.single e)
/-- `count_nonzero(None, keepdims)` -/
def countBody (x : A) (kd : Option Bool) : Res A :=
  Arr.keepdimsTail x.ndim kd (Arr.single (Int.ofNat (x.elems.filter (· ≠ 0)).length))
/-- `cumsum(None)` …: `self.ravel()?.map(..)` -/
def scanBody (x : A) : Res A := C04.map1 id x.ravel
/-- lane functions offered to `apply_along_axis` by the tie: identity, reversal, `cycle_take(k)` -/
inductive LaneFn | ident | rev | take (k : Nat)
  deriving Repr
def LaneFn.run : LaneFn → A → Res A
  | .ident, x => .ok x
  | .rev, x => x.flip none
  | .take k, x => .ok (x.cycleTakeArr k)

/-- the two-operand lifting patterns of `ArrModel.C04` plus the string pattern (`broadcast` then `new`) -/
inductive BinPat | B | G | GM | IB | R | RA
  deriving Repr, DecidableEq

/-- unary / binary operator overloads of `ArrModel.C20` -/
inductive OpKind | binop | scalarop | assignop | assignScalar | unop | bitop | bitScalar | bitAssign | bitAssignScalar
  deriving Repr, DecidableEq

/-- what an unmodelled call returned (recorded by the harness from the real run) -/
inductive Ext | arr (shape : List Nat) | list (shapes : List (List Nat)) | none
  deriving Repr

inductive Op
  -- constructors (`create.rs`, `numeric/operations/create.rs`, `create_from.rs`)
  | new (n : Nat) (off : Int) (shape : List Nat)
  | create (n : Nat) (shape : List Nat) (ndmin : Option Nat)
  | single | flat (n : Nat) | empty
  | zeros (shape : List Nat) | ones (shape : List Nat) | full (shape : List Nat) | rand (shape : List Nat)
  | zerosLike (a : Nat) | onesLike (a : Nat) | fullLike (a : Nat)
  | eye (n : Nat) (m k : Option Nat) | identity (n : Nat) | tri (n : Nat) (m : Option Nat) (k : Option Int)
  | arange (start stop : Int) (stp : Option Int) | linspace (start stop : Int) (num : Option Nat) (endpoint : Option Bool)
  | diag (a : Nat) (k : Option Int) | diagflat (a : Nat) (k : Option Int)
  | tril (a : Nat) (k : Option Int) | triu (a : Nat) (k : Option Int)
  | vander (a : Nat) (n : Option Nat) (incr : Option Bool)
  -- axis permutations / shape edits (`axis.rs`, `manipulate.rs`)
  | transpose (a : Nat) (axes : Option (List Int)) | moveaxis (a : Nat) (src dst : List Int)
  | rollaxis (a : Nat) (axis : Int) (start : Option Int) | swapaxes (a : Nat) (i j : Int)
  | expandDims (a : Nat) (axes : List Int) | squeeze (a : Nat) (axes : Option (List Int))
  | reshape (a : Nat) (shape : List Nat) | resize (a : Nat) (shape : List Nat) | ravel (a : Nat)
  | atleast (a : Nat) (n : Nat) | cycleTake (a : Nat) (n : Nat)
  | applyAlongAxis (a : Nat) (axis : Nat) (f : LaneFn)
  -- broadcasting (`broadcast.rs`, `iter.rs`)
  | broadcastTo (a : Nat) (shape : List Nat) | broadcast (a b : Nat) | broadcastArrays (r : Refs) | zip (a b : Nat)
  -- splitting / joining (`split.rs`, `joining.rs`)
  | arraySplit (a : Nat) (parts : Nat) (axis : Option Nat) | split (a : Nat) (parts : Nat) (axis : Option Nat)
  | splitAxis (a : Nat) (axis : Nat) | hsplit (a parts : Nat) | vsplit (a parts : Nat) | dsplit (a parts : Nat)
  | member (l : Nat) (j : Nat)
  | concatenate (r : Refs) (axis : Option Nat) | stack (r : Refs) (axis : Option Nat)
  | vstack (r : Refs) | hstack (r : Refs) | dstack (r : Refs) | columnStack (r : Refs) | rowStack (r : Refs)
  -- reorder (`reorder.rs`)
  | flip (a : Nat) (axes : Option (List Int)) | flipud (a : Nat) | fliplr (a : Nat)
  | roll (a : Nat) (shift : List Int) (axes : Option (List Int)) | rot90 (a : Nat) (k : Nat) (axes : List Int)
  -- delete / insert / append / repeat / trim (`manipulate.rs`, `tiling.rs`)
  | delete (a : Nat) (indices : List Nat) (axis : Option Nat) | insertFlat (a : Nat) (indices : List Nat) (values : Nat)
  | append (a v : Nat) (axis : Option Nat) | repeatFlat (a : Nat) (reps : List Nat) | repeatAxis (a : Nat) (reps : List Nat) (axis : Nat)
  | trimZeros (a : Nat)
  -- closures (`iter.rs`)
  | map (a : Nat) | mapE (a : Nat) | filterE (a : Nat) (m t : Nat) | filterMapE (a : Nat) (m t : Nat)
  | filterNonzero (a : Nat)
  -- axis-wise reductions, queries, scans, sorting
  | reduceFold (a : Nat) (axis : Option Int) | reduceExtreme (a : Nat) (axis : Option Int)
  | countNonzero (a : Nat) (axis : Option Int) (kd : Option Bool)
  | argExtreme (a : Nat) (isMax : Bool) (axis : Option Int) (kd : Option Bool)
  | scan (a : Nat) (axis : Option Int)
  | sort (a : Nat) (axis : Option Int) (kind : Sort.KindArg) | argsort (a : Nat) (axis : Option Int) (kind : Sort.KindArg)
  | unique (a : Nat) (axis : Option Int)
  -- elementwise math (`math/operations/*.rs`, `binary.rs`)
  | unary (a : Nat) | logE (a : Nat) | rint (a : Nat) | round (a d : Nat) | binary (p : BinPat) (a b : Nat) | clip (a lo hi : Nat)
  -- products (`products.rs`)
  | vdot (a b : Nat) | outer (a b : Nat) | inner (a b : Nat) | matmul (a b : Nat) | dot (a b : Nat)
  -- bits (`binary_bits.rs`)
  | unpackBits (a : Nat) (axis : Option Int) (count : Option Int) (order : List Char)
  | packBits (a : Nat) (axis : Option Int) (order : List Char)
  -- operator overloads (`ops.rs`)
  | operator (k : OpKind) (a b : Nat)
  -- indexing (`indexing.rs`): `slice`, `indices_at`
  | slice (a : Nat) (start stop : Nat) | indicesAt (a : Nat) (indices : List Nat)
  -- `filter_map` with the closure "keep the non-zero elements" (`iter.rs`; value-dependent like `filter`)
  | filterMapNonzero (a : Nat)
  -- `clip` with one or both bounds missing (`misc.rs:236-248`: the missing bound is `self.min(None)` / `self.max(None)`)
  | clipOpt (a : Nat) (lo hi : Option Nat)
  -- the string-array operations (`alphanumeric/operations/*.rs`), one constructor per lifting shape of `ArrModel/C17Lift.lean`
  | strUnary (a : Nat) | strBinary (a b : Nat) | strStrip (a c : Nat) | strCompare (a b : Nat) (op : List Char)
  | strMultiply (a n : Nat) | strSplitlines (a : Nat) (keep : Option Bool) | strPad (a w : Nat) (fill : Bool)
  | strSplit (a : Nat) (sep : Option Nat) (maxSplit : Option Nat) | strReplace (a old new : Nat) (count : Option Nat)
  -- `ediff1d` / `diff` (`sum_prod_diff.rs`), `insert` with an axis (`manipulate.rs`), `convolve` (`misc.rs`): `ArrModel/C01Diff.lean`
  | ediff1d (a : Nat) (toEnd toBegin : Option Nat) | diff (a : Nat) (n : Nat) (axis : Option Int) (prepend append : Option Nat)
  | insertAxis (a : Nat) (indices : List Nat) (values : Nat) (axis : Nat) | convolve (a b : Nat) (mode : Option (List Char))
  -- the pair-returning `modf` / `divmod` (`arithmetic.rs:403-407, 420-424`) and `frexp` (`floating.rs:126-155`)
  | modf (a : Nat) | divmod (a : Nat) | frexp (a : Nat)
  -- an unmodelled call: only what it returned is known
  | extern (e : Ext)

def BinPat.run (p : BinPat) (a b : A) : Res A :=
  match p with
  | .B => C04.zipWithB (· + ·) a b
  | .G => C04.divideLike (· == 0) (· + ·) a b
  | .GM => C04.floorDivideLike (· == 0) (· + ·) id a b
  | .IB => C04.bitwiseLike (· + ·) a b
  | .R => C04.zipWithR (· + ·) a b
  | .RA => C04.zipWithRA id id (· + ·) a b

def OpKind.run (k : OpKind) (a b : A) : Res A :=
  match k with
  | .binop => C20.binop (· + ·) a b
  | .scalarop => C20.scalarop (· + ·) a 1
  | .assignop => C20.assignop (· + ·) a b
  | .assignScalar => C20.assignScalar (· + ·) a 1
  | .unop => C20.unop (fun x => -x) a
  | .bitop => C20.bitop (· + ·) a b
  | .bitScalar => C20.bitScalar (· + ·) a 1
  | .bitAssign => C20.bitAssign (· + ·) a b
  | .bitAssignScalar => C20.bitAssignScalar (· + ·) a 1

/-- `round(decimals)` (`rounding.rs:133-142`): `broadcast_h2`, zip, `Self::new(elements, array.get_shape()?)` -/
def roundLike (a d : A) : Res A := a.broadcastH2 0 d >>= fun p => Arr.new p.1.elems p.1.shape

def Ext.run : Ext → Val
  | .arr shape => ofRes (tagArr shape)
  | .list shapes => ofResL (Res.mapM' tagArr shapes)
  | .none => .skip

/-- member `j` of the list (or pair) stored at `l` -/
def evalMember (s : Store) (l j : Nat) : Val :=
  match getL s l with
  | some l => (match l[j]? with | some a => .arr a | none => .skip)
  | none => .skip

/-- an optional operand position: `none` is "argument not given", a position that holds no array makes the step not applicable -/
def getOpt (s : Store) : Option Nat → Option (Option A)
  | none => some none
  | some i => (getA s i).map some

/-- a bound of `clip` (`misc.rs:237-240`): the given array, else `self.min(None)?` / `self.max(None)?` (shape `[1]`; panics on an
array without elements) -/
def clipBound (a : A) : Option A → Res A
  | some b => .ok b
  | none => a.reduceAxis 0 0 none extremeBody

/-- `clip(a_min, a_max)` (`misc.rs:236-248`) in the order the code evaluates: lower bound, its `broadcast_to`, upper bound, its
`broadcast_to`, then the zip of pattern R3 (`C04.clipLike`, whose own `broadcast_to` of an already stretched bound is the identity) -/
def clipOptArr (a : A) (lo hi : Option A) : Res A :=
  clipBound a lo >>= fun l => l.broadcastTo a.shape >>= fun lo' =>
  clipBound a hi >>= fun h => h.broadcastTo a.shape >>= fun hi' =>
  C04.clipLike (fun x l h => max l (min x h)) a lo' hi'

/-- `split(sep, max_split)` on the stand-in strings; the limit is `Array::single(m)` -/
def strSplitArr (a : A) (sep : Option A) (m : Option Nat) : Res A :=
  (C17.splitA C17.Bcast.std (strArr a) (sep.map strArr) (m.map C17.single)).map blankArr

/-- `modf`: `(self.mod(&Self::single(1))?, self.floor()?)` — the zero-divisor guard of `mod` looks at the divisor `[1]` -/
def modfPair (a : A) : Res (A × A) :=
  BinPat.G.run a (Arr.single 1) >>= fun fractional => Iter.unary (fun x => x + 1) a >>= fun integral => .ok (fractional, integral)

/-- `divmod`: the same two calls, returned in the other order -/
def divmodPair (a : A) : Res (A × A) :=
  BinPat.G.run a (Arr.single 1) >>= fun fractional => Iter.unary (fun x => x + 1) a >>= fun integral => .ok (integral, fractional)

/-- `frexp`: `for_each` pushes one mantissa and one exponent per element; each list is `to_array().reshape(self.shape)` -/
def frexpPair (a : A) : Res (A × A) :=
  (Arr.flat (a.elems.map fun x => x)).reshape a.shape >>= fun man =>
  (Arr.flat (a.elems.map fun _ => (0 : Int))).reshape a.shape >>= fun exp => .ok (man, exp)

/-- the outcome of one operation on the current store -/
def eval (s : Store) : Op → Val
  | .new n off shape => ofRes (Arr.new (tags n off) shape)
  | .create n shape ndmin => ofRes (Arr.create (tags n 0) shape ndmin)
  | .single => .arr (Arr.single 0)
  | .flat n => .arr (Arr.flat (tags n 0))
  | .empty => .arr Arr.empty
  | .zeros shape => ofRes (C16.zeros shape)
  | .ones shape => ofRes (C16.ones shape)
  | .full shape => ofRes (C16.full shape 7)
  | .rand shape => ofRes (C16.rand (fun i => Int.ofNat i) shape)
  | .zerosLike a => with1 s a fun a => ofRes (C16.zerosLike a)
  | .onesLike a => with1 s a fun a => ofRes (C16.onesLike a)
  | .fullLike a => with1 s a fun a => ofRes (C16.fullLike a 7)
  | .eye n m k => ofRes (C16.eye n m k)
  | .identity n => ofRes (C16.identity n)
  | .tri n m k => ofRes (C16.tri n m k)
  | .arange start stop stp => ofRes ((C16.arange start stop (stp.map (fun (x : Int) => (x : Rat)))).map ofRatArr)
  | .linspace start stop num ep => ofRes ((C16.linspace start stop num ep).map ofRatArr)
  | .diag a k => with1 s a fun a => ofRes (C16.diag a k)
  | .diagflat a k => with1 s a fun a => ofRes (C16.diagflat a k)
  | .tril a k => with1 s a fun a => ofRes (C16.tril a k)
  | .triu a k => with1 s a fun a => ofRes (C16.triu a k)
  | .vander a n incr => with1 s a fun a => ofRes (C16.vander a n incr)
  | .transpose a axes => with1 s a fun a => ofRes (a.transpose 0 axes)
  | .moveaxis a src dst => with1 s a fun a => ofRes (a.moveaxis 0 src dst)
  | .rollaxis a axis start => with1 s a fun a => ofRes (a.rollaxis 0 axis start)
  | .swapaxes a i j => with1 s a fun a => ofRes (a.swapaxes 0 i j)
  | .expandDims a axes => with1 s a fun a => ofRes (a.expandDims axes)
  | .squeeze a axes => with1 s a fun a => ofRes (a.squeeze axes)
  | .reshape a shape => with1 s a fun a => ofRes (a.reshape shape)
  | .resize a shape => with1 s a fun a => ofRes (a.resize shape)
  | .ravel a => with1 s a fun a => .arr a.ravel
  | .atleast a n => with1 s a fun a => ofRes (a.atleast n)
  | .cycleTake a n => with1 s a fun a => .arr (a.cycleTakeArr n)
  | .applyAlongAxis a axis f => with1 s a fun a => ofRes (a.applyAlongAxis 0 0 axis f.run)
  | .broadcastTo a shape => with1 s a fun a => ofRes (a.broadcastTo shape)
  | .broadcast a b => with2 s a b fun a b => ofRes ((a.broadcast b).map fstArr)
  | .broadcastArrays r => withL s r fun l => ofResL (Arr.broadcastArrays l)
  | .zip a b => with2 s a b fun a b => ofRes ((a.zip b).map fstArr)
  | .arraySplit a parts axis => with1 s a fun a => ofResL (a.arraySplit 0 parts axis)
  | .split a parts axis => with1 s a fun a => ofResL (a.split 0 parts axis)
  | .splitAxis a axis => with1 s a fun a => ofResL (a.splitAxis 0 axis)
  | .hsplit a parts => with1 s a fun a => ofResL (a.hsplit 0 parts)
  | .vsplit a parts => with1 s a fun a => ofResL (a.vsplit 0 parts)
  | .dsplit a parts => with1 s a fun a => ofResL (a.dsplit 0 parts)
  | .member l j => evalMember s l j
  | .concatenate r axis => withL s r fun l => ofRes (Arr.concatenate l 0 axis)
  | .stack r axis => withL s r fun l => ofRes (Arr.stack l 0 axis)
  | .vstack r => withL s r fun l => ofRes (Arr.vstack l 0)
  | .hstack r => withL s r fun l => ofRes (Arr.hstack l 0)
  | .dstack r => withL s r fun l => ofRes (Arr.dstack l 0)
  | .columnStack r => withL s r fun l => ofRes (Arr.columnStack l 0)
  | .rowStack r => withL s r fun l => ofRes (Arr.rowStack l 0)
  | .flip a axes => with1 s a fun a => ofRes (a.flip axes)
  | .flipud a => with1 s a fun a => ofRes a.flipud
  | .fliplr a => with1 s a fun a => ofRes a.fliplr
  | .roll a shift axes => with1 s a fun a => ofRes (a.roll shift axes)
  | .rot90 a k axes => with1 s a fun a => ofRes (a.rot90 0 k axes)
  | .delete a indices axis => with1 s a fun a => ofRes (a.delete 0 indices axis)
  | .insertFlat a indices v => with2 s a v fun a v => ofRes (a.insertFlat indices v)
  | .append a v axis => with2 s a v fun a v => ofRes (a.append v 0 axis)
  | .repeatFlat a reps => with1 s a fun a => ofRes (a.repeatFlat reps)
  | .repeatAxis a reps axis => with1 s a fun a => ofRes (a.repeatAxis 0 reps axis)
  | .trimZeros a => with1 s a fun a => ofRes (a.trimZeros 0)
  | .map a => with1 s a fun a => ofRes (Iter.map a (fun x => x + 1))
  | .mapE a => with1 s a fun a => ofRes (Iter.mapE a (fun i x => x + Int.ofNat i))
  | .filterE a m t => with1 s a fun a => ofRes (Iter.filterE a (fun i _ => decide (i % m < t)))
  | .filterMapE a m t => with1 s a fun a => ofRes (Iter.filterMapE a (fun i x => if i % m < t then some x else none))
  | .filterNonzero a => with1 s a fun a => ofRes (Iter.filter a (fun x => x != 0))
  | .reduceFold a axis => with1 s a fun a => ofRes (a.reduceAxis 0 0 axis foldBody)
  | .reduceExtreme a axis => with1 s a fun a => ofRes (a.reduceAxis 0 0 axis extremeBody)
  | .countNonzero a axis kd => with1 s a fun a => ofRes (a.countAxis 0 0 axis kd countBody)
  | .argExtreme a isMax axis kd => with1 s a fun a => ofRes ((Sort.argExtreme Sort.Cmp.int 0 isMax a axis kd).map ofNatArr)
  | .scan a axis => with1 s a fun a => ofRes (a.scanAxis 0 0 axis scanBody)
  | .sort a axis kind => with1 s a fun a => ofRes (Sort.sort Sort.Cmp.int 0 a axis kind)
  | .argsort a axis kind => with1 s a fun a => ofRes ((Sort.argsort Sort.Cmp.int 0 a axis kind).map ofNatArr)
  | .unique a axis => with1 s a fun a => ofRes (Sort.unique Sort.Cmp.int 0 a axis)
  | .unary a => with1 s a fun a => ofRes (Iter.unary (fun x => x + 1) a)
  | .logE a => with1 s a fun a => ofRes (BinPat.B.run a (Arr.single 0))
  | .rint a => with1 s a fun a => ofRes (roundLike a (Arr.single 0))
  | .round a d => with2 s a d fun a d => ofRes (roundLike a d)
  | .binary p a b => with2 s a b fun a b => ofRes (p.run a b)
  | .clip a lo hi => with3 s a lo hi fun a lo hi => ofRes (C04.clipLike (fun x l h => max l (min x h)) a lo hi)
  | .vdot a b => with2 s a b fun a b => ofRes (C14.vdot a b)
  | .outer a b => with2 s a b fun a b => ofRes (C14.outer a b)
  | .inner a b => with2 s a b fun a b => ofRes (C14.inner a b)
  | .matmul a b => with2 s a b fun a b => ofRes (C14.matmul a b)
  | .dot a b => with2 s a b fun a b => ofRes (C14.dotFull a b)
  | .unpackBits a axis count order => with1 s a fun a =>
      ofRes ((C19.unpackBits C19.alongPipe (toNatArr a) axis count (some (.text order))).map ofNatArr)
  | .packBits a axis order => with1 s a fun a =>
      ofRes ((C19.packBits C19.alongPipe (toNatArr a) axis (some (.text order))).map ofNatArr)
  | .operator k a b => with2 s a b fun a b => ofRes (k.run a b)
  | .slice a start stop => with1 s a fun a => ofRes (a.slice start stop)
  | .indicesAt a indices => with1 s a fun a => ofRes (a.indicesAt indices)
  | .filterMapNonzero a => with1 s a fun a => ofRes (Iter.filterMap a (fun x => if x != 0 then some x else none))
  | .clipOpt a lo hi => with1 s a fun a =>
      match getOpt s lo, getOpt s hi with
      | some lo, some hi => ofRes (clipOptArr a lo hi)
      | _, _ => .skip
  | .strUnary a => with1 s a fun a => ofRes ((C17.capitalizeA (strArr a)).map blankArr)
  | .strBinary a b => with2 s a b fun a b => ofRes ((C17.add C17.Bcast.std (strArr a) (strArr b)).map blankArr)
  | .strStrip a c => with2 s a c fun a c => ofRes ((C17.stripA C17.Bcast.std (strArr a) (some (strArr c))).map blankArr)
  | .strCompare a b op => with2 s a b fun a b => ofRes ((C17.compareA C17.Bcast.std (strArr a) (strArr b) op).map blankArr)
  | .strMultiply a n => with2 s a n fun a n => ofRes ((C17.multiplyA C17.Bcast.std (strArr a) (toNatArr n)).map blankArr)
  | .strSplitlines a keep => with1 s a fun a =>
      ofRes ((C17.splitlinesA C17.Bcast.std (strArr a) (keep.map C17.single)).map blankArr)
  | .strPad a w fill => with2 s a w fun a w =>
      ofRes ((C17.centerA C17.Bcast.std (strArr a) (toNatArr w) (if fill then some (C17.single '*') else none)).map blankArr)
  | .strSplit a sep m => with1 s a fun a =>
      match getOpt s sep with
      | some sep => ofRes (strSplitArr a sep m)
      | none => .skip
  | .strReplace a o n cnt => with3 s a o n fun a o n =>
      ofRes ((C17.replaceA C17.Bcast.std (strArr a) (strArr o) (strArr n) cnt).map blankArr)
  | .ediff1d a e b => with1 s a fun a =>
      match getOpt s e, getOpt s b with
      | some e, some b => .arr (a.ediff1d e b)
      | _, _ => .skip
  | .diff a n axis p q => with1 s a fun a =>
      match getOpt s p, getOpt s q with
      | some p, some q => ofRes (a.diff 0 n axis p q)
      | _, _ => .skip
  | .insertAxis a indices v axis => with2 s a v fun a v => ofRes (a.insertAxis 0 indices v axis)
  | .convolve a b mode => with2 s a b fun a b => ofRes (a.convolve b mode)
  | .modf a => with1 s a fun a => ofResP (modfPair a)
  | .divmod a => with1 s a fun a => ofResP (divmodPair a)
  | .frexp a => with1 s a fun a => ofResP (frexpPair a)
  | .extern e => e.run

/-- one step of the machine: the outcome is appended, nothing is ever removed or changed -/
def step (s : Store) (op : Op) : Store := s ++ [eval s op]

/-- run a chain from the empty store -/
def run (ops : List Op) : Store := ops.foldl step []

/-- the invariant: every array held anywhere in the store is well-formed -/
def ValWF : Val → Prop
  | .arr a => a.WF
  | .list l => ∀ a ∈ l, a.WF
  | _ => True

def StoreWF (s : Store) : Prop := ∀ v ∈ s, ValWF v

instance (v : Val) : Decidable (ValWF v) := by
  cases v <;> unfold ValWF <;> infer_instance

end ArrModel.C01
