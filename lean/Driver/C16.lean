import ArrModel.C16
import Driver.Proto
/-!
Driver for C16.  Every op's first argument is the Rust element type (`i32 i64 u8 f64`), ignored by the model.
Rationals cross as `n` or `n/d` (integers only — never floats).  `geomspace`/`logspace` answer with one *expression*
per element over the leaves `S` (start) `T` (stop) `B` (base), which the Rust side evaluates natively in f64:
`M(x,y)` = `x * y`, `D(x,y)` = `x / y`, `P(x,n/d)` = `x.powf(n as f64 / d as f64)`.
-/
namespace Driver.C16
open ArrModel Driver ArrModel.C16

def parseRat? (s : String) : Option Rat :=
  match s.splitOn "/" with
  | [n] => (parseInt? n).map fun n => (n : Rat)
  | [n, d] => do
    let n ← parseInt? n
    let d ← parseNat? d
    if d = 0 then none else some ((n : Rat) / (d : Rat))
  | _ => none

def showRat (q : Rat) : String :=
  if q.den = 1 then toString q.num else toString q.num ++ "/" ++ toString q.den

def parseBool? (s : String) : Option Bool :=
  if s == "true" then some true else if s == "false" then some false else none

def showRatArr (a : Arr Rat) : String := showNatList a.shape ++ ":" ++ showList showRat a.elems

/-- symbolic scalar domain for the float kernels -/
inductive Sym
  | start | stop | base
  | mul (a b : Sym)
  | div (a b : Sym)
  | powf (a : Sym) (q : Rat)

def Sym.show : Sym → String
  | .start => "S"
  | .stop => "T"
  | .base => "B"
  | .mul a b => "M(" ++ a.show ++ "," ++ b.show ++ ")"
  | .div a b => "D(" ++ a.show ++ "," ++ b.show ++ ")"
  | .powf a q => "P(" ++ a.show ++ "," ++ toString q.num ++ "/" ++ toString q.den ++ ")"

def symOps : PowOps Sym := ⟨Sym.mul, Sym.div, Sym.powf⟩

def showSymList (l : List Sym) : String :=
  if l.isEmpty then "-" else ";".intercalate (l.map Sym.show)

/-- round-5 spellings: `mi_<macro>` = the constructor macro called with IMPURE argument expressions (the harness logs how often and
in which order the macro evaluates them); the model of the macro is the same wrapper -/
def normOp : String → String
  | "mi_zeros" => "m_zeros"
  | "mi_ones" => "m_ones"
  | "mi_rand" => "m_rand"
  | "mi_full" => "m_full"
  | "mi_eye" => "m_eye"
  | "mi_identity" => "m_identity"
  | "mi_arange" => "m_arange"
  | op => op

def handleCore (op : String) (args : List String) : Option String :=
  match op, args with
  | "full", [_, sh, v] => do
    let sh ← parseNatList? sh; let v ← parseInt? v
    some (showRes showArr (full sh v))
  | "zeros", [_, sh] => do let sh ← parseNatList? sh; some (showRes showArr (zeros sh))
  | "ones", [_, sh] => do let sh ← parseNatList? sh; some (showRes showArr (ones sh))
  | "full_like", [_, a, v] => do
    let a ← parseArr? a; let v ← parseInt? v
    some (showRes showArr (fullLike a v))
  | "zeros_like", [_, a] => do let a ← parseArr? a; some (showRes showArr (zerosLike a))
  | "ones_like", [_, a] => do let a ← parseArr? a; some (showRes showArr (onesLike a))
  | "rand", [_, sh] => do
    let sh ← parseNatList? sh
    -- only shape and count are determined; the answer carries the shape, the count is its product
    some (showRes (fun (r : Arr Nat) => showNatList r.shape ++ " " ++ toString r.elems.length) (rand id sh))
  | "eye", [_, n, m, k] => do
    let n ← parseNat? n; let m ← parseOpt? parseNat? m; let k ← parseOpt? parseNat? k
    some (showRes showArr (eye n m k))
  | "identity", [_, n] => do let n ← parseNat? n; some (showRes showArr (identity n))
  | "tri", [_, n, m, k] => do
    let n ← parseNat? n; let m ← parseOpt? parseNat? m; let k ← parseOpt? parseInt? k
    some (showRes showArr (tri n m k))
  | "tril", [_, a, k] => do
    let a ← parseArr? a; let k ← parseOpt? parseInt? k
    some (showRes showArr (tril a k))
  | "triu", [_, a, k] => do
    let a ← parseArr? a; let k ← parseOpt? parseInt? k
    some (showRes showArr (triu a k))
  | "tril_plus_triu", [_, a, k] => do
    -- tril(k) + triu(k+1), elementwise
    let a ← parseArr? a; let k ← parseInt? k
    some (showRes showArr (do
      let l ← tril a (some k)
      let u ← triu a (some (k + 1))
      pure ⟨List.zipWith (· + ·) l.elems u.elems, l.shape⟩))
  | "diag", [_, a, k] => do
    let a ← parseArr? a; let k ← parseOpt? parseInt? k
    some (showRes showArr (diag a k))
  | "diagflat", [_, a, k] => do
    let a ← parseArr? a; let k ← parseOpt? parseInt? k
    some (showRes showArr (diagflat a k))
  | "diag_diag", [_, a, k] => do
    let a ← parseArr? a; let k ← parseOpt? parseInt? k
    some (showRes showArr (diag a k >>= fun m => diag m k))
  | "vander", [_, a, n, inc] => do
    let a ← parseArr? a; let n ← parseOpt? parseNat? n; let inc ← parseOpt? parseBool? inc
    some (showRes showArr (vander a n inc))
  | "arange", [_, s, t, st] => do
    let s ← parseRat? s; let t ← parseRat? t; let st ← parseOpt? parseRat? st
    some (showRes showRatArr (arange s t st))
  | "linspace", [_, s, t, n, e] => do
    let s ← parseRat? s; let t ← parseRat? t; let n ← parseOpt? parseNat? n; let e ← parseOpt? parseBool? e
    some (showRes showRatArr (linspace s t n e))
  | "geomspace", [_, s, t, n, e] => do
    let s ← parseRat? s; let t ← parseRat? t; let n ← parseOpt? parseNat? n; let e ← parseOpt? parseBool? e
    let isZero : Sym → Bool := fun x => match x with
      | .start => s == 0
      | .stop => t == 0
      | _ => false
    some (showRes showSymList (geomspace symOps isZero .start .stop n e))
  | "logspace", [_, s, t, n, e, _b] => do
    let s ← parseRat? s; let t ← parseRat? t; let n ← parseOpt? parseNat? n; let e ← parseOpt? parseBool? e
    some (showRes showSymList (logspace symOps .base s t n e))
  -- macros
  | "m_zeros", [_, sh] => do let sh ← parseNatList? sh; some (showRes showArr (macroZeros sh))
  | "m_ones", [_, sh] => do let sh ← parseNatList? sh; some (showRes showArr (macroOnes sh))
  | "m_full", [_, sh, v] => do
    let sh ← parseNatList? sh; let v ← parseInt? v
    some (showRes showArr (macroFull sh v))
  | "m_eye", [_, n, m, k] => do
    let n ← parseNat? n; let m ← parseOpt? parseNat? m; let k ← parseOpt? parseNat? k
    some (showRes showArr (macroEye n m k))
  | "m_identity", [_, n] => do let n ← parseNat? n; some (showRes showArr (macroIdentity n))
  | "m_arange", [_, s, t, st] => do
    let s ← parseRat? s; let t ← parseRat? t; let st ← parseOpt? parseRat? st
    some (showRes showRatArr (macroArange s t st))
  | "m_rand", [_, sh] => do
    let sh ← parseNatList? sh
    some (showRes (fun (r : Arr Nat) => showNatList r.shape ++ " " ++ toString r.elems.length) (macroRand id sh))
  -- part-3 streams: `n_<op> <type> args…` = a result of more than 2^20 elements (up to 2^24 + 3 points for the sequences).  The
  -- list-backed model is not asked; the harness judges the crate in place by its native coordinate-formula reference, which it
  -- compares with the answers of the arms above on every ordinary case of the same run (`oracle_report` lines carry the count).
  | "oracle_report", _ => some "ok report"
  | _, _ => if op.startsWith "n_" then some "ok native" else none

def handle (op : String) (args : List String) : Option String := handleCore (normOp op) args

end Driver.C16

def main : IO Unit := Driver.runDriver Driver.C16.handle
