import ArrModel.C18
import Driver.Proto
/-!
# Driver.C18 — line protocol for the C18 model

Texts cross the boundary hex-encoded (UTF-8 bytes, two digits each); the empty text is `_`; a list of texts is
joined by `,`, the empty list is `-`.

* `lit <id> <kind> <nestshape> <leaves> <dbg>` / `rt <kind> <dbg>` — a literal front end on a Debug text
  (`kind` ∈ generic tuple list char string); `lit` additionally reports whether `nest nestshape leaves = dbg`.
  Answer: `ok <shape>:<element texts> [dbg=0|1]` or `panic`.
  (Round 5: for a compiled literal with IMPURE items - `it.next().unwrap()`, `{ n += 1; n }`, `st.pop().unwrap()` - `<dbg>` is the Debug text of
  its pure twin; the harness compares the impure literal with this answer and checks that every item was evaluated exactly once.)
* `shape <ndim> <text>` — `array_parse_shape!`.
* `ctor <id>` — the constructor / flat / single macros expand to the function call itself: answer `ok same`.
* `disp <alt> <shape> <element texts>` — `build_string`; answer `ok <text> <parse-back by the generic literal arm>`.
* `t2show a b`, `t3show a b c`, `lshow items`, `t2parse s`, `t3parse s`, `lparse s`, `t2rt a b`, `t3rt a b c`, `lrt items`.
* `t2rt_t k a b`, `t3rt_t k a b c`, `lrt_t k items` — the same round trips; `k` names the component types the harness instantiates
  (the component texts are the `Display` texts of typed values).  `disperr e alt prec` — the `Err` side of the printable wrapper.
* `seq <case> | <case> | …` — several of the above, executed back to back on one thread by the harness; `tally`.
-/
namespace Driver.C18
open ArrModel ArrModel.C18 Driver

def hexDigit (n : Nat) : Char := if n < 10 then Char.ofNat (48 + n) else Char.ofNat (87 + n)

def hexVal (c : Char) : Option Nat :=
  if '0' ≤ c ∧ c ≤ '9' then some (c.toNat - 48)
  else if 'a' ≤ c ∧ c ≤ 'f' then some (c.toNat - 87)
  else none

def encHex (s : Str) : String :=
  if s.isEmpty then "_" else
  let bytes := (String.ofList s).toUTF8
  String.ofList (bytes.toList.flatMap fun b => [hexDigit (b.toNat / 16), hexDigit (b.toNat % 16)])

def decBytes : List Char → ByteArray → Option ByteArray
  | [], acc => some acc
  | a :: b :: t, acc => do
    let x ← hexVal a; let y ← hexVal b
    decBytes t (acc.push (UInt8.ofNat (x * 16 + y)))
  | _, _ => none

def decHex (s : String) : Option Str :=
  if s == "_" then some [] else do
    let bytes ← decBytes s.toList ByteArray.empty
    let str ← String.fromUTF8? bytes
    some str.toList

def decList (s : String) : Option (List Str) :=
  if s == "-" then some [] else (s.splitOn ",").mapM decHex

def encList (l : List Str) : String :=
  if l.isEmpty then "-" else ",".intercalate (l.map encHex)

def showParsed : Res (List Nat × List Str) → String
  | .ok (shape, texts) => "ok " ++ showNatList shape ++ ":" ++ encList texts
  | .err e => "err " ++ e.name
  | .panic => "panic"

def frontEnd (kind : String) (dbg : Str) : Option (Res (List Nat × List Str)) :=
  match kind with
  | "generic" => some (arrayGeneric dbg)
  | "tuple" | "tuple2" | "tuple3" | "tuple2i" => some (arrayTuple dbg)
  | "list" | "listi" => some (arrayList dbg)
  | "char" => some (arrayChar dbg)
  | "string" => some (arrayString dbg)
  | _ => none

def showOptParts : Option (List Str) → String
  | some ps => "ok " ++ encList ps
  | none => "err Parse"

def idP : Str → Option Str := some

def handle1 (op : String) (args : List String) : Option String :=
  match op, args with
  | "lit", [_, kind, ns, leaves, dbg] => do
    let ns ← parseNatList? ns; let leaves ← decList leaves; let dbg ← decHex dbg
    let r ← frontEnd kind dbg
    let same := decide (nest ns leaves = dbg)
    some (showParsed r ++ (if same then " dbg=1" else " dbg=0"))
  | "rt", [kind, dbg] => do
    let dbg ← decHex dbg
    let r ← frontEnd kind dbg
    some (showParsed r)
  | "shape", [ndim, text] => do
    let ndim ← parseNat? ndim; let text ← decHex text
    some (showRes showNatList (parseShape ndim text))
  | "ctor", [_] => some "ok same"
  | "disperr", [_, _, _] => some "ok same"
  | "disp", alt :: shape :: texts :: _ => do
    let shape ← parseNatList? shape; let texts ← decList texts
    let alt := alt == "1"
    let t := display (fun (x : Str) => x) alt ⟨texts, shape⟩
    some ("ok " ++ encHex t ++ " " ++ showParsed (arrayGeneric ('[' :: t ++ [']'])))
  | "t2show", [a, b] => do
    let a ← decHex a; let b ← decHex b
    some ("ok " ++ encHex (showTuple2 id id (a, b)))
  | "t3show", [a, b, c] => do
    let a ← decHex a; let b ← decHex b; let c ← decHex c
    some ("ok " ++ encHex (showTuple3 id id id (a, b, c)))
  | "lshow", [items] => do
    let items ← decList items
    some ("ok " ++ encHex (C18.showList id items))
  | "t2parse_t", [s] => do
    let s ← decHex s
    some (showOptParts ((parseTuple2 idP idP s).map fun (a, b) => [a, b]))
  | "lparse_t", [s] => do
    let s ← decHex s
    some (showOptParts (parseList idP s))
  | "t2parse", [s] => do
    let s ← decHex s
    some (showOptParts ((parseTuple2 idP idP s).map fun (a, b) => [a, b]))
  | "t3parse", [s] => do
    let s ← decHex s
    some (showOptParts ((parseTuple3 idP idP idP s).map fun (a, b, c) => [a, b, c]))
  | "lparse", [s] => do
    let s ← decHex s
    some (showOptParts (parseList idP s))
  | "t2rt", [a, b] => do
    let a ← decHex a; let b ← decHex b
    some (showOptParts ((parseTuple2 idP idP (showTuple2 id id (a, b))).map fun (a, b) => [a, b]))
  | "t3rt", [a, b, c] => do
    let a ← decHex a; let b ← decHex b; let c ← decHex c
    some (showOptParts ((parseTuple3 idP idP idP (showTuple3 id id id (a, b, c))).map fun (a, b, c) => [a, b, c]))
  | "t2rt_t", [_, a, b] => do
    let a ← decHex a; let b ← decHex b
    some (showOptParts ((parseTuple2 idP idP (showTuple2 id id (a, b))).map fun (a, b) => [a, b]))
  | "t3rt_t", [_, a, b, c] => do
    let a ← decHex a; let b ← decHex b; let c ← decHex c
    some (showOptParts ((parseTuple3 idP idP idP (showTuple3 id id id (a, b, c))).map fun (a, b, c) => [a, b, c]))
  | "lrt_t", [_, items] => do
    let items ← decList items
    some (showOptParts (parseList idP (C18.showList id items)))
  | "lrt", [items] => do
    let items ← decList items
    some (showOptParts (parseList idP (C18.showList id items)))
  | _, _ => none

/-- the groups of a `seq` line: tokens between the separator token `|` -/
def splitBar (l : List String) : List (List String) :=
  l.foldr (fun t acc => if t == "|" then [] :: acc else
    match acc with
    | h :: r => (t :: h) :: r
    | [] => [[t]]) [[]]

/-- a single case, or `seq <case> | <case> | …` (the cases are executed back to back on one thread by the harness; the model has
no state, so each is answered on its own, answers joined by ` ;; `), or `tally` (the harness reports its counters). -/
def handle (op : String) (args : List String) : Option String :=
  match op with
  | "seq" => do
    let rs ← (splitBar args).mapM (fun g => match g with
      | o :: rest => handle1 o rest
      | [] => none)
    some (" ;; ".intercalate rs)
  | "tally" => if args.isEmpty then some "ok tally" else none
  | _ => handle1 op args

end Driver.C18

def main : IO Unit := Driver.runDriver Driver.C18.handle
