import ArrModel.C08
import ArrModel.C08Kernels
import Driver.Proto
/-! C08 driver: *index protocol*.  The model is run on a tag array with lane-collecting 1-D bodies, so every output
position answers with the list of input positions (the lane) the real operation must have been applied to
(for scans: the position inside the lane, then the lane).

Answer spelling: `shape:elem|elem|…`.  A reduction element is the lane `t0,t1,…`.  A scan element is `j,t0,t1,…` (position
inside the lane, then the lane) the first time that lane occurs in the answer and `j=k` afterwards, `k` being the output
position at which the very same lane was spelled out (a scan over a lane of length n names the lane n times; without this the
answer for one lane of 4100 elements would be 16.8 million numbers).  The lanes themselves are exactly what the model computes;
only the spelling is shortened (full structural equality of the lane, not a hash).

The main loop keeps the answers of the last few `(family, array, axis, keepdims)` keys: the answer of the model does not
depend on the operation inside a family, on the element type or on the value seed, which only the Rust side reads. -/
namespace Driver.C08
open ArrModel Driver

/-- an empty LANE is spelled `e` (an array without output positions is `-`) -/
def showLane (l : List Int) : String := if l.isEmpty then "e" else showIntList l

def showLaneArr (a : Arr (List Int)) : String :=
  showNatList a.shape ++ ":" ++ (if a.elems.isEmpty then "-" else "|".intercalate (a.elems.map showLane))

/-- spell a list of scan elements `j :: lane`, naming every distinct lane once -/
def showScanElems : List (List Int) → Nat → List (Int × List Int × Nat) → List String → List String
  | [], _, _, acc => acc.reverse
  | e :: rest, p, seen, acc =>
    match e with
    | [] => showScanElems rest (p + 1) seen ("-" :: acc)
    | j :: lane =>
      let key := lane.headD (-1)
      match seen.find? (fun (h, l, _) => h == key && l == lane) with
      | some (_, _, k) => showScanElems rest (p + 1) seen ((toString j ++ "=" ++ toString k) :: acc)
      | none => showScanElems rest (p + 1) ((key, lane, p) :: seen) (showIntList e :: acc)

def showScanArr (a : Arr (List Int)) : String :=
  showNatList a.shape ++ ":" ++ (if a.elems.isEmpty then "-" else "|".intercalate (showScanElems a.elems 0 [] []))

def reduceBody (arr : Arr Int) : Res (Arr (List Int)) := .ok (Arr.single arr.elems)
def countBody (arr : Arr Int) (kd : Option Bool) : Res (Arr (List Int)) := Arr.keepdimsTail arr.ndim kd (Arr.single arr.elems)
def scanBody (arr : Arr Int) : Res (Arr (List Int)) :=
  .ok (Arr.flat ((List.range arr.elems.length).map (fun j => Int.ofNat j :: arr.elems)))

def parseKd? (s : String) : Option (Option Bool) :=
  match s with | "none" => some none | "true" => some (some true) | "false" => some (some false) | _ => none

def reduceOps := ["sum", "prod", "nansum", "nanprod", "max", "min", "nanmax", "nanmin", "amax", "amin"]
def countOps := ["count_nonzero", "argmax", "argmin"]
def scanOps := ["cumsum", "cumprod", "nancumsum", "nancumprod"]

/-! ### value cases (seventh token `val`): the VALUES are answered, by the kernel definitions of `ArrModel/C08Kernels.lean`
(`reduceOp` / `scanOp` / `countOp`, the definitions the kernel theorems of `Props/C08.lean` are about).  The array is written out
(`shape:v,v,…`); integer element types run on `Elem.int`, `f64` / `f32` on `Elem.nanInt` (elements: integers or `n` = NaN; the harness
only sends lanes on which float arithmetic is exact).  Answer: `shape:v,v,…` with `NaN` for the NaN. -/
open ArrModel.C08K in
def redOp? : String → Option RedOp
  | "sum" => some .sum | "prod" => some .prod | "nansum" => some .nansum | "nanprod" => some .nanprod
  | "max" | "amax" => some .max | "min" | "amin" => some .min | "nanmax" => some .nanmax | "nanmin" => some .nanmin
  | _ => none
open ArrModel.C08K in
def scanOp? : String → Option ScanOp
  | "cumsum" => some .cumsum | "cumprod" => some .cumprod | "nancumsum" => some .nancumsum | "nancumprod" => some .nancumprod
  | _ => none
open ArrModel.C08K in
def cntOp? : String → Option CntOp
  | "count_nonzero" => some .countNonzero | "argmax" => some .argmax | "argmin" => some .argmin
  | _ => none

def parseNanInt? (s : String) : Option (Option Int) := if s == "n" then some none else (parseInt? s).map some
def showNanInt : Option Int → String | some i => toString i | none => "NaN"

/-- `shape:elems` with the elements written out -/
def parseValArr? {β} (f : String → Option β) (s : String) : Option (Arr β) :=
  match s.splitOn ":" with
  | [sh, es] => do let shape ← parseNatList? sh; let elems ← parseList? f es; some ⟨elems, shape⟩
  | _ => none

def showValArr {β} (f : β → String) (a : Arr β) : String := showNatList a.shape ++ ":" ++ showList f a.elems

open ArrModel.C08K in
def handleVal {β} (E : Elem β) (pe : String → Option β) (se : β → String) (op a ax kd : String) : Option String := do
  let a ← parseValArr? pe a; let ax ← parseOpt? parseInt? ax; let kd ← parseKd? kd
  match redOp? op, scanOp? op, cntOp? op with
  | some r, _, _ => some (showRes (showValArr se) (reduceOp E r a ax))
  | _, some s, _ => some (showRes (showValArr se) (scanOp E s a ax))
  | _, _, some c => some (showRes (showValArr toString) (countOp E c a ax kd))
  | _, _, _ => none

/-- `op dtype tag axis keepdims vseed` — dtype and vseed only matter to the Rust side.
`op dtype tag axis keepdims vseed ref` (seventh token `ref`): a case beyond the reach of the list-backed model (16 384 … 140 000
elements; the model is quadratic).  The driver does NOT answer it: it says `ref`, and the harness judges the real result
against its native lane-membership reference (a coordinate formula in plain Rust), which the harness compares with the answer
of THIS model on every other case of the same run (`refstats` reports how many).  Only known operations are waved through. -/
def handle (op : String) (args : List String) : Option String :=
  match args with
  | [] => if op == "refstats" then some "ref" else none
  | [_, _, _, _, _, "ref"] =>
    if reduceOps.contains op || countOps.contains op || scanOps.contains op then some "ref" else none
  | [dt, a, ax, kd, _, "val"] =>
    if dt.startsWith "f" then handleVal ArrModel.C08K.Elem.nanInt parseNanInt? showNanInt op a ax kd
    else handleVal ArrModel.C08K.Elem.int parseInt? toString op a ax kd
  | [_, a, ax, kd, _] => do
    let a ← parseArr? a; let ax ← parseOpt? parseInt? ax; let kd ← parseKd? kd
    if reduceOps.contains op then some (showRes showLaneArr (a.reduceAxis 0 [] ax reduceBody))
    else if countOps.contains op then some (showRes showLaneArr (a.countAxis 0 [] ax kd countBody))
    else if scanOps.contains op then some (showRes showScanArr (a.scanAxis 0 [] ax scanBody))
    else none
  | _ => none

/-- what the answer of `handle` depends on -/
def keyOf (line : String) : Option String :=
  match line.trimAscii.toString.splitOn " " with
  | [full, _, a, ax, kd, _] =>
    let op := match full.splitOn "." with | [_, op] => op | _ => full
    let fam := if reduceOps.contains op then some "R" else if countOps.contains op then some "C" else if scanOps.contains op then some "S" else none
    fam.map (fun f => " ".intercalate [f, a, ax, kd])
  | _ => none

partial def loop (hin hout : IO.FS.Stream) (cache : List (String × String)) : IO Unit := do
  let line ← hin.getLine
  if line.isEmpty then return ()
  match keyOf line with
  | some key =>
    match cache.lookup key with
    | some ans => hout.putStrLn ans; loop hin hout cache
    | none =>
      let ans := dispatchWith handle line
      hout.putStrLn ans
      loop hin hout ((key, ans) :: cache.take 23)
  | none => hout.putStrLn (dispatchWith handle line); loop hin hout cache

end Driver.C08

def main : IO Unit := do
  let hin ← IO.getStdin
  let hout ← IO.getStdout
  Driver.C08.loop hin hout []
  hout.flush
