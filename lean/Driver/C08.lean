import ArrModel.C08
import Driver.Proto
/-! C08 driver: *index protocol*.  The model is run on a tag array with lane-collecting 1-D bodies, so every output
position answers with the list of input positions (the lane) the real operation must have been applied to
(for scans: the position inside the lane, then the lane). -/
namespace Driver.C08
open ArrModel Driver

def showLaneArr (a : Arr (List Int)) : String :=
  showNatList a.shape ++ ":" ++ (if a.elems.isEmpty then "-" else "|".intercalate (a.elems.map showIntList))

def reduceBody (arr : Arr Int) : Res (Arr (List Int)) := .ok (Arr.single arr.elems)
def countBody (arr : Arr Int) (kd : Option Bool) : Res (Arr (List Int)) := Arr.keepdimsTail arr.ndim kd (Arr.single arr.elems)
def scanBody (arr : Arr Int) : Res (Arr (List Int)) :=
  .ok (Arr.flat ((List.range arr.elems.length).map (fun j => Int.ofNat j :: arr.elems)))

def parseKd? (s : String) : Option (Option Bool) :=
  match s with | "none" => some none | "true" => some (some true) | "false" => some (some false) | _ => none

def reduceOps := ["sum", "prod", "nansum", "nanprod", "max", "min", "nanmax", "nanmin", "amax", "amin"]
def countOps := ["count_nonzero", "argmax", "argmin"]
def scanOps := ["cumsum", "cumprod", "nancumsum", "nancumprod"]

/-- `op dtype tag axis keepdims vseed` — dtype and vseed only matter to the Rust side -/
def handle (op : String) (args : List String) : Option String :=
  match args with
  | [_, a, ax, kd, _] => do
    let a ← parseArr? a; let ax ← parseOpt? parseInt? ax; let kd ← parseKd? kd
    if reduceOps.contains op then some (showRes showLaneArr (a.reduceAxis 0 [] ax reduceBody))
    else if countOps.contains op then some (showRes showLaneArr (a.countAxis 0 [] ax kd countBody))
    else if scanOps.contains op then some (showRes showLaneArr (a.scanAxis 0 [] ax scanBody))
    else none
  | _ => none

end Driver.C08

def main : IO Unit := Driver.runDriver Driver.C08.handle
