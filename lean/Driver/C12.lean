import ArrModel.Reorder
import Driver.Proto
namespace Driver.C12
open ArrModel Driver

/-- one call -/
def handle1 (op : String) (args : List String) : Option String :=
  match op, args with
  | "flip", [a, ax] => do
    let a ← parseArr? a; let ax ← parseOpt? parseIntList? ax
    some (showRes showArr (a.flip ax))
  | "flipud", [a] => do let a ← parseArr? a; some (showRes showArr a.flipud)
  | "fliplr", [a] => do let a ← parseArr? a; some (showRes showArr a.fliplr)
  | "roll", [a, sh, ax] => do
    let a ← parseArr? a; let sh ← parseIntList? sh; let ax ← parseOpt? parseIntList? ax
    some (showRes showArr (a.roll sh ax))
  | "rot90", [a, k, ax] => do
    let a ← parseArr? a; let k ← parseNat? k; let ax ← parseIntList? ax
    some (showRes showArr (a.rot90 0 k ax))
  | _, _ => none

/-- the token list cut at every separator token -/
def splitTok (sep : String) : List String → List (List String)
  | [] => [[]]
  | x :: xs =>
    match splitTok sep xs with
    | [] => [[x]]
    | g :: gs => if x == sep then [] :: g :: gs else (x :: g) :: gs

/-- spellings added for the robustness streams (part 2); every compared answer still comes from `handle1`, i.e. from the very
model definitions:
* `n call…` — huge arrays on which the list-backed model is too slow (the transposition behind an odd quarter turn is quadratic:
  66 s for [300,300]): the driver answers `ok native` and the harness judges the crate by its native coordinate-formula
  reference, which it compares with the full answer of `handle1` on every other case of the same run (`oracle_report` lines);
* `n call iota:<shape> …` (part 3) — GIANT arrays (more than 2^20 elements, built by the harness from the shape, never written
  out): answered `ok native` like every `n` line; the harness runs the same native reference on the iota tags and compares the
  crate's result with it in place;
* `v call` (part 3) — the call itself, answered by `handle1` in full; the prefix only tells the harness to run ALL its
  value-relation images (arrays whose elements are all `==` but not identical: zeros of both signs, a user type with a coarse
  equality) and element-layout images (12-, 3-, 32-byte elements) of the tag array besides the compared i64 run;
* `seq call / call / …` — several calls executed one after the other on the same thread (hidden-state streams: colliding shapes
  back to back, A–B–A, a refused call followed by a valid one); the model is a function, so every call is answered on its own. -/
def handleOne (op : String) (args : List String) : Option String :=
  match op, args with
  | "n", _ :: _ => some "ok native"
  | "v", o :: as => handle1 o as
  | "oracle_report", _ => some "ok report"
  | _, _ => handle1 op args

def handle (op : String) (args : List String) : Option String :=
  match op, args with
  | "seq", _ => do
    let parts := splitTok "/" args
    let answers ← parts.mapM (fun p => match p with | o :: as => handleOne o as | [] => none)
    some (" / ".intercalate answers)
  | _, _ => handleOne op args

end Driver.C12

def main : IO Unit := Driver.runDriver Driver.C12.handle
