import ArrModel.Reorder
import Driver.Proto
namespace Driver.C12
open ArrModel Driver

def handle (op : String) (args : List String) : Option String :=
  match op, args with
  | "flip", [a, ax] => do
    let a ← parseArr? a; let ax ← parseOpt? parseIntList? ax
    some (showRes showArr (a.flip ax))
  | "flipud", [a] => do let a ← parseArr? a; some (showRes showArr a.flipud)
  | "fliplr", [a] => do let a ← parseArr? a; some (showRes showArr a.fliplr)
  | "roll", [a, sh, ax] => do
    let a ← parseArr? a; let sh ← parseIntList? sh; let ax ← parseOpt? parseIntList? ax
    some (showRes showArr (a.roll sh ax))
  | "rot90", [a, k, ax] => do
    let a ← parseArr? a; let k ← parseNat? k; let ax ← parseIntList? ax
    some (showRes showArr (a.rot90 0 k ax))
  | _, _ => none

end Driver.C12

def main : IO Unit := Driver.runDriver Driver.C12.handle
