import ArrModel.Axis
import Driver.Proto
namespace Driver.C06
open ArrModel Driver

/-- one step of a chain: `transpose=none`, `transpose=1,0`, `moveaxis=0,1=1,0`, `rollaxis=1=none`, `swapaxes=0=-1`
(the very model definitions, applied one after the other; the first error / panic ends the chain) -/
def step (a : Arr Int) (s : String) : Option (Res (Arr Int)) :=
  match s.splitOn "=" with
  | ["transpose", ax] => do let ax ← parseOpt? parseIntList? ax; some (a.transpose 0 ax)
  | ["moveaxis", s, d] => do let s ← parseIntList? s; let d ← parseIntList? d; some (a.moveaxis 0 s d)
  | ["rollaxis", ax, st] => do let ax ← parseInt? ax; let st ← parseOpt? parseInt? st; some (a.rollaxis 0 ax st)
  | ["swapaxes", i, j] => do let i ← parseInt? i; let j ← parseInt? j; some (a.swapaxes 0 i j)
  | _ => none

def chain (a : Arr Int) : List String → Option (Res (Arr Int))
  | [] => some (.ok a)
  | s :: rest => do
    match ← step a s with
    | .ok b => chain b rest
    | .err e => some (.err e)
    | .panic => some .panic

def handle (op : String) (args : List String) : Option String :=
  match op, args with
  | "chain", [a, steps] => do
    let a ← parseArr? a
    let r ← chain a (if steps == "-" then [] else steps.splitOn "|")
    some (showRes showArr r)
  | "transpose", [a, ax] => do
    let a ← parseArr? a; let ax ← parseOpt? parseIntList? ax
    some (showRes showArr (a.transpose 0 ax))
  | "moveaxis", [a, s, d] => do
    let a ← parseArr? a; let s ← parseIntList? s; let d ← parseIntList? d
    some (showRes showArr (a.moveaxis 0 s d))
  | "rollaxis", [a, ax, st] => do
    let a ← parseArr? a; let ax ← parseInt? ax; let st ← parseOpt? parseInt? st
    some (showRes showArr (a.rollaxis 0 ax st))
  | "swapaxes", [a, i, j] => do
    let a ← parseArr? a; let i ← parseInt? i; let j ← parseInt? j
    some (showRes showArr (a.swapaxes 0 i j))
  | _, _ => none

end Driver.C06

def main : IO Unit := Driver.runDriver Driver.C06.handle
