import ArrModel.Axis
import Driver.Proto
namespace Driver.C06
open ArrModel Driver

/-- one step of a chain: `transpose=none`, `transpose=1,0`, `moveaxis=0,1=1,0`, `rollaxis=1=none`, `swapaxes=0=-1`
(the very model definitions, applied one after the other; the first error / panic ends the chain) -/
def step (a : Arr Int) (s : String) : Option (Res (Arr Int)) :=
  match s.splitOn "=" with
  | ["transpose", ax] => do let ax ← parseOpt? parseIntList? ax; some (a.transpose 0 ax)
  | ["moveaxis", s, d] => do let s ← parseIntList? s; let d ← parseIntList? d; some (a.moveaxis 0 s d)
  | ["rollaxis", ax, st] => do let ax ← parseInt? ax; let st ← parseOpt? parseInt? st; some (a.rollaxis 0 ax st)
  | ["swapaxes", i, j] => do let i ← parseInt? i; let j ← parseInt? j; some (a.swapaxes 0 i j)
  | _ => none

def chain (a : Arr Int) : List String → Option (Res (Arr Int))
  | [] => some (.ok a)
  | s :: rest => do
    match ← step a s with
    | .ok b => chain b rest
    | .err e => some (.err e)
    | .panic => some .panic

def handle (op : String) (args : List String) : Option String :=
  match op, args with
  | "chain", [a, steps] => do
    let a ← parseArr? a
    let r ← chain a (if steps == "-" then [] else steps.splitOn "|")
    some (showRes showArr r)
  | "transpose", [a, ax] => do
    let a ← parseArr? a; let ax ← parseOpt? parseIntList? ax
    some (showRes showArr (a.transpose 0 ax))
  | "moveaxis", [a, s, d] => do
    let a ← parseArr? a; let s ← parseIntList? s; let d ← parseIntList? d
    some (showRes showArr (a.moveaxis 0 s d))
  | "rollaxis", [a, ax, st] => do
    let a ← parseArr? a; let ax ← parseInt? ax; let st ← parseOpt? parseInt? st
    some (showRes showArr (a.rollaxis 0 ax st))
  | "swapaxes", [a, i, j] => do
    let a ← parseArr? a; let i ← parseInt? i; let j ← parseInt? j
    some (showRes showArr (a.swapaxes 0 i j))
  | _, _ => none

/-! ### huge arrays and back-to-back pairs (robustness streams, part 2)

The model's `transpose` is a quadratic scatter on lists (2.2 s for 130x130, minutes for 140 000 elements).  For arrays above
`fullLimit` elements the driver answers the PLAN of the call instead of the element list: the axis order the model's own
`transpose` / `moveaxis` / `rollaxis` / `swapaxes` applies, read off the model's answer on the stand-in tag array of the same rank
with every axis of length 2 (which axes are legal and where they go depends on the rank only), and the permuted shape.  The
harness gathers the elements by that order with its native reference, which it validates against the full model answer on every
smaller case of the same run. -/

def fullLimit : Nat := 4000

/-- shape of an array spelling, without building the elements -/
def shapeOf? (s : String) : Option (List Nat) :=
  if s.startsWith "iota:" then parseNatList? (s.drop 5).toString   -- giant arrays (part 3): named by their shape only
  else if s.startsWith "i" then parseNatList? (((s.drop 1).toString.splitOn "+").headD "")
  else match s.splitOn ":" with
    | [sh, _] => parseNatList? sh
    | _ => none

def planOf (shape : List Nat) (s : String) : Option String := do
  let nd := shape.length
  let standin : Arr Int := ⟨(List.range (2 ^ nd)).map Int.ofNat, List.replicate nd 2⟩
  match ← step standin s with
  | .ok b =>
    let order := (List.range nd).map (fun k => nd - 1 - Nat.log2 (b.elems.getD (2 ^ (nd - 1 - k)) 0).toNat)
    some ("plan " ++ showNatList (order.map (fun o => shape.getD o 0)) ++ "|" ++ showNatList order)
  | .err e => some ("err " ++ e.name)
  | .panic => some "panic"

/-- the answer for one array: the full model answer up to `fullLimit` elements, the plan above -/
def member (a : String) (s : String) : Option String := do
  let shape ← shapeOf? a
  if shape.prod ≤ fullLimit then
    let a ← parseArr? a
    let r ← step a s
    some (showRes showArr r)
  else planOf shape s

def handleX (op : String) (args : List String) : Option String :=
  match op, args with
  | "huge", [a, s] => do let shape ← shapeOf? a; planOf shape s
  -- part 3: more than 2^20 elements (`iota:<shape>`, built by the harness); `giant8` = the u8 image only (above 2^24 elements)
  | "giant", [a, s] => do let shape ← shapeOf? a; planOf shape s
  | "giant8", [a, s] => do let shape ← shapeOf? a; planOf shape s
  | "pair", [a, b, s] => do let x ← member a s; let y ← member b s; some (x ++ " ; " ++ y)
  | "audit", [] => some "ok audit"
  | _, _ => handle op args

end Driver.C06

def main : IO Unit := Driver.runDriver Driver.C06.handleX
