import ArrModel.Axis
import Driver.Proto
namespace Driver.C06
open ArrModel Driver

def handle (op : String) (args : List String) : Option String :=
  match op, args with
  | "transpose", [a, ax] => do
    let a ← parseArr? a; let ax ← parseOpt? parseIntList? ax
    some (showRes showArr (a.transpose 0 ax))
  | "moveaxis", [a, s, d] => do
    let a ← parseArr? a; let s ← parseIntList? s; let d ← parseIntList? d
    some (showRes showArr (a.moveaxis 0 s d))
  | "rollaxis", [a, ax, st] => do
    let a ← parseArr? a; let ax ← parseInt? ax; let st ← parseOpt? parseInt? st
    some (showRes showArr (a.rollaxis 0 ax st))
  | "swapaxes", [a, i, j] => do
    let a ← parseArr? a; let i ← parseInt? i; let j ← parseInt? j
    some (showRes showArr (a.swapaxes 0 i j))
  | _, _ => none

end Driver.C06

def main : IO Unit := Driver.runDriver Driver.C06.handle
