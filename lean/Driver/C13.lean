import ArrModel.C13
import Driver.Proto
namespace Driver.C13
open ArrModel Driver

/-- positions at which the values inserted at (old-array) positions `idxs` end up: k-th smallest index + k -/
def landing (idxs : List Nat) : List Nat := (sortNat idxs).zipIdx.map (fun p => p.1 + p.2)

def handle (op : String) (args : List String) : Option String :=
  match op, args with
  | "delete", [a, idx, ax] => do
    let a ← parseArr? a; let idx ← parseNatList? idx; let ax ← parseOpt? parseNat? ax
    some (showRes showArr (a.delete 0 idx ax))
  | "insert", [a, idx, v] => do
    let a ← parseArr? a; let idx ← parseNatList? idx; let v ← parseArr? v
    some (showRes showArr (a.insertFlat idx v))
  | "insert_delete", [a, idx, v] => do
    let a ← parseArr? a; let idx ← parseNatList? idx; let v ← parseArr? v
    some (showRes showArr (a.insertFlat idx v >>= fun r => r.deleteFlat (landing idx)))
  | "append", [a, v] => do
    let a ← parseArr? a; let v ← parseArr? v
    some (showRes showArr (.ok (a.appendFlat v)))
  | "repeat", [a, reps, ax] => do
    let a ← parseArr? a; let reps ← parseNatList? reps; let ax ← parseOpt? parseNat? ax
    match ax with
    | none => some (showRes showArr (a.repeatFlat reps))
    | some ax => some (showRes showArr (a.repeatAxis 0 reps ax))
  | "trim", [a] => do
    let a ← parseArr? a
    some (showRes showArr (a.trimZeros 0))
  -- value-class stream of `trim_zeros`: the second argument (the class codes of the lane, read by the harness only) is not
  -- part of the model's input; the integer lane already holds 0 exactly at the positions whose class is a zero
  | "trimc", [a, _codes] => do
    let a ← parseArr? a
    some (showRes showArr (a.trimZeros 0))
  | _, _ => none

end Driver.C13

def main : IO Unit := Driver.runDriver Driver.C13.handle
