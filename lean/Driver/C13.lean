import ArrModel.C13
import Driver.Proto
namespace Driver.C13
open ArrModel Driver

/-- positions at which the values inserted at (old-array) positions `idxs` end up: k-th smallest index + k -/
def landing (idxs : List Nat) : List Nat := (sortNat idxs).zipIdx.map (fun p => p.1 + p.2)

/-- one call -/
def handle1 (op : String) (args : List String) : Option String :=
  match op, args with
  | "delete", [a, idx, ax] => do
    let a ← parseArr? a; let idx ← parseNatList? idx; let ax ← parseOpt? parseNat? ax
    some (showRes showArr (a.delete 0 idx ax))
  | "insert", [a, idx, v] => do
    let a ← parseArr? a; let idx ← parseNatList? idx; let v ← parseArr? v
    some (showRes showArr (a.insertFlat idx v))
  | "insert_delete", [a, idx, v] => do
    let a ← parseArr? a; let idx ← parseNatList? idx; let v ← parseArr? v
    some (showRes showArr (a.insertFlat idx v >>= fun r => r.deleteFlat (landing idx)))
  | "append", [a, v] => do
    let a ← parseArr? a; let v ← parseArr? v
    some (showRes showArr (.ok (a.appendFlat v)))
  | "repeat", [a, reps, ax] => do
    let a ← parseArr? a; let reps ← parseNatList? reps; let ax ← parseOpt? parseNat? ax
    match ax with
    | none => some (showRes showArr (a.repeatFlat reps))
    | some ax => some (showRes showArr (a.repeatAxis 0 reps ax))
  | "trim", [a] => do
    let a ← parseArr? a
    some (showRes showArr (a.trimZeros 0))
  -- value-class stream of `trim_zeros`: the second argument (the class codes of the lane, read by the harness only) is not
  -- part of the model's input; the integer lane already holds 0 exactly at the positions whose class is a zero
  | "trimc", [a, _codes] => do
    let a ← parseArr? a
    some (showRes showArr (a.trimZeros 0))
  -- aliasing: the receiver itself is passed as the `values` argument (`a.append(&a, None)`, `a.insert(&idx, &a, None)`)
  | "append_self", [a] => do
    let a ← parseArr? a
    some (showRes showArr (.ok (a.appendFlat a)))
  | "insert_self", [a, idx] => do
    let a ← parseArr? a; let idx ← parseNatList? idx
    some (showRes showArr (a.insertFlat idx a))
  | _, _ => none

/-- the token list cut at every separator token -/
def splitTok (sep : String) : List String → List (List String)
  | [] => [[]]
  | x :: xs =>
    match splitTok sep xs with
    | [] => [[x]]
    | g :: gs => if x == sep then [] :: g :: gs else (x :: g) :: gs

/-- spellings added for the robustness streams (part 2); every compared answer still comes from `handle1`, i.e. from the very
model definitions:
* `n call…` — huge arrays on which the list-backed model is too slow (`applyAlongAxis` is quadratic: 41 s for a delete along
  axis 1 of [2,20000]; 66 000 sequential `vecInsert`s take 24 s): the driver answers `ok native` and the harness judges the crate
  by its native index-filter reference, which it compares with the full answer of `handle1` on every other case of the same run
  (`oracle_report` lines);
* `seq call / call / …` — several calls executed one after the other on the same thread (hidden-state streams: a delete request
  followed by a different request of the same length / sum / xor / polynomial hash / FNV fingerprint, a refused call followed by a
  valid one, A–B–A); the model is a function, so every call is answered on its own;
* `g call…` (part 3) — giant requests (2^17 … 2.2·10^6 elements; the array is named `iota:<shape>` / `zpad:<n>,<l>,<r>` and built
  by the harness, never written out): answered `ok native` as well and judged, in place, by the SAME native reference. -/
def handleOne (op : String) (args : List String) : Option String :=
  match op, args with
  | "n", _ :: _ => some "ok native"
  | "g", _ :: _ => some "ok native"
  | "oracle_report", _ => some "ok report"
  | _, _ => handle1 op args

def handle (op : String) (args : List String) : Option String :=
  match op, args with
  | "seq", _ => do
    let parts := splitTok "/" args
    let answers ← parts.mapM (fun p => match p with | o :: as => handleOne o as | [] => none)
    some (" / ".intercalate answers)
  | _, _ => handleOne op args

end Driver.C13

def main : IO Unit := Driver.runDriver Driver.C13.handle
