import ArrModel.C14
import ArrModel.C14Ext
import Driver.Proto
namespace Driver.C14
open ArrModel Driver

/-- one call: `<op> <elemtype> <a> <b>`; the element type (`i32`/`i64`/`f64`/…) only selects the Rust
instantiation, the model is the same integer computation.  `open` = arm of `dot` outside the statement.
An element type ending in `n` (`i64n`, `f64n`, …) marks a HUGE case (16 384 … 140 000 elements) for which the
list-backed model is too slow: the answer is `native`, the harness then judges the crate by its native term-list
oracle, the very one it compares with this model on every smaller case of the same run. -/
def handle1 (op : String) (args : List String) : Option String :=
  match args with
  | [ty, a, b] =>
    if ty.endsWith "n" then (if op ∈ ["matmul", "dot", "vdot", "inner", "outer"] then some "native" else none) else do
    let a ← parseArr? a; let b ← parseArr? b
    match op with
    | "matmul" => some (showRes showArr (ArrModel.C14.matmul a b))
    | "dot" =>
      -- region of the open finding (the model mirrors the test-pinned refusal): when `dot` refuses two matrices
      -- whose `matmul` is defined, the textbook value proved by `matmul_22` is sent along so that the harness can
      -- hold the real code to the property there
      let m := showRes showArr (ArrModel.C14.matmul a b)
      some (match ArrModel.C14.dot a b with
        | some r =>
          let d := showRes showArr r
          if a.ndim = 2 ∧ b.ndim = 2 ∧ d.startsWith "err" ∧ m.startsWith "ok" then d ++ " | matmul " ++ m else d
        -- an operand of rank ≥ 3 (`dot_1d` on a stack, `dot_nd`): outside the statement, modelled as written in
        -- `ArrModel/C14Ext.lean` (`dotFull` = `dot` where `dot` answers) so that the region is compared, not open
        | none => showRes showArr (ArrModel.C14.dotFull a b))
    | "vdot" => some (showRes showArr (ArrModel.C14.vdot a b))
    | "inner" => some (showRes showArr (ArrModel.C14.inner a b))
    | "outer" => some (showRes showArr (ArrModel.C14.outer a b))
    | "arm" => some ("ok " ++ ArrModel.C14.matmulArm a b)
    | _ => none
  | _ => none

/-- the groups of a `seq` line: tokens between the separator token `|` -/
def splitBar (l : List String) : List (List String) :=
  l.foldr (fun t acc => if t == "|" then [] :: acc else
    match acc with
    | h :: r => (t :: h) :: r
    | [] => [[t]]) [[]]

/-- case lines: `C14.<op> <elemtype> <a> <b>`, or a sequence of calls executed back to back on one thread
`C14.seq <op> <ty> <a> <b> | <op> <ty> <a> <b> | …` (answers joined by ` ;; `; the model has no state, so every call is
answered on its own), or `C14.tally` (the harness reports its oracle-validation counters). -/
def handle (op : String) (args : List String) : Option String :=
  match op with
  | "seq" => do
    let rs ← (splitBar args).mapM (fun g => match g with
      | o :: rest => handle1 o rest
      | [] => none)
    some (" ;; ".intercalate rs)
  | "tally" => if args.isEmpty then some "ok tally" else none
  | _ => handle1 op args

end Driver.C14

def main : IO Unit := Driver.runDriver Driver.C14.handle
