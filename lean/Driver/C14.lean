import ArrModel.C14
import Driver.Proto
namespace Driver.C14
open ArrModel Driver

/-- case lines: `C14.<op> <elemtype> <a> <b>`; the element type (`i32`/`i64`/`f64`) only selects the Rust
instantiation, the model is the same integer computation.  `open` = arm of `dot` outside the statement. -/
def handle (op : String) (args : List String) : Option String :=
  match args with
  | [_ty, a, b] => do
    let a ← parseArr? a; let b ← parseArr? b
    match op with
    | "matmul" => some (showRes showArr (ArrModel.C14.matmul a b))
    | "dot" =>
      -- region of the open finding (the model mirrors the test-pinned refusal): when `dot` refuses two matrices
      -- whose `matmul` is defined, the textbook value proved by `matmul_22` is sent along so that the harness can
      -- hold the real code to the property there
      let m := showRes showArr (ArrModel.C14.matmul a b)
      some (match ArrModel.C14.dot a b with
        | some r =>
          let d := showRes showArr r
          if a.ndim = 2 ∧ b.ndim = 2 ∧ d.startsWith "err" ∧ m.startsWith "ok" then d ++ " | matmul " ++ m else d
        | none => "open")
    | "vdot" => some (showRes showArr (ArrModel.C14.vdot a b))
    | "inner" => some (showRes showArr (ArrModel.C14.inner a b))
    | "outer" => some (showRes showArr (ArrModel.C14.outer a b))
    | "arm" => some ("ok " ++ ArrModel.C14.matmulArm a b)
    | _ => none
  | _ => none

end Driver.C14

def main : IO Unit := Driver.runDriver Driver.C14.handle
