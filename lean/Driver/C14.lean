import ArrModel.C14
import Driver.Proto
namespace Driver.C14
open ArrModel Driver

/-- case lines: `C14.<op> <elemtype> <a> <b>`; the element type (`i32`/`i64`/`f64`) only selects the Rust
instantiation, the model is the same integer computation.  `open` = arm of `dot` outside the statement. -/
def handle (op : String) (args : List String) : Option String :=
  match args with
  | [_ty, a, b] => do
    let a ← parseArr? a; let b ← parseArr? b
    match op with
    | "matmul" => some (showRes showArr (ArrModel.C14.matmul a b))
    | "dot" => some (match ArrModel.C14.dot a b with
        | some r => showRes showArr r
        | none => "open")
    | "vdot" => some (showRes showArr (ArrModel.C14.vdot a b))
    | "inner" => some (showRes showArr (ArrModel.C14.inner a b))
    | "outer" => some (showRes showArr (ArrModel.C14.outer a b))
    | "arm" => some ("ok " ++ ArrModel.C14.matmulArm a b)
    | _ => none
  | _ => none

end Driver.C14

def main : IO Unit := Driver.runDriver Driver.C14.handle
