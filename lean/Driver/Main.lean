import Driver.C02
/-!
# arrdriver — executes the model's own definitions over the line protocol.
`arrdriver < cases.txt > expected.txt`; each case line is `Cxx.op args…`.
Unknown ops answer `bad-op` (never a default value).
-/
open Driver

def dispatch (line : String) : String :=
  match line.trimAscii.toString.splitOn " " with
  | [] => "bad-op"
  | full :: args =>
    match full.splitOn "." with
    | [p, op] =>
      let r : Option String :=
        match p with
        | "C02" => C02.handle op args
        | _ => none
      r.getD "bad-op"
    | _ => "bad-op"

partial def loop (hin : IO.FS.Stream) (hout : IO.FS.Stream) : IO Unit := do
  let line ← hin.getLine
  if line.isEmpty then return ()
  hout.putStrLn (dispatch line)
  loop hin hout

def main : IO Unit := do
  let hin ← IO.getStdin
  let hout ← IO.getStdout
  loop hin hout
  hout.flush
