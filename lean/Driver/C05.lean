import ArrModel.C05
import ArrModel.C05Float
import Driver.Proto
/-!
# Driver.C05 — answers of the C05 model over the line protocol

Closure cases: `map|map_e|filter|filter_e|filter_map|filter_map_e|for_each|for_each_e ARR a,b,c,m,t`, `fold ARR a,b,c,m,t INIT`
  answer `ok <result>|<log>`, log entries `call#/position/element` (`_` = no position passed) joined by `;`.
`into_iter ARR`, `into_iter_ref ARR`, `collect LIST`, `zip ARR ARR` (equal shapes only).
`unary OP TYPE SHAPE …` answers the structural part only: the shape and, per output position, the input position feeding it.
`frexp TY SHAPE:bits`, `ldexp TY SHAPE:bits SHAPE:exps`, `roundtrip TY SHAPE:bits`: IEEE-754 binary64 bit patterns as naturals
  (integers, not float text); decoded to the exact rational / ±∞ / NaN and encoded back exactly (`inexact` if impossible).
-/
namespace Driver.C05
open ArrModel ArrModel.Iter ArrModel.Flt Driver

def parseClo? (s : String) : Option Clo := do
  match ← parseIntList? s with
  | [a, b, c, m, t] => if m > 0 then some ⟨a, b, c, m, t⟩ else none
  | _ => none

def showEntry (e : Entry Int) : String :=
  toString e.1 ++ "/" ++ (match e.2.1 with | some i => toString i | none => "_") ++ "/" ++ toString e.2.2

def showLog (l : List (Entry Int)) : String :=
  if l.isEmpty then "-" else ";".intercalate (l.map showEntry)

def withLog {ρ} (f : ρ → String) (r : Res ρ × St Int) : String :=
  showRes f r.1 ++ "|" ++ showLog r.2.2

def s0 : St Int := (0, [])

/-! ### binary64 codec (exact) -/

def p2 (n : Nat) : Nat := 2 ^ n

def decode (bits : Nat) : Dbl :=
  let neg := bits / p2 63 % 2 == 1
  let ex := bits / p2 52 % 2048
  let fr := bits % p2 52
  let sgn : Int := if neg then -1 else 1
  if ex == 2047 then (if fr == 0 then .inf neg else .nan)
  else if ex == 0 then .fin (mkRat (sgn * fr) (p2 1074))
  else if ex ≥ 1075 then .fin (mkRat (sgn * ((p2 52 + fr) * p2 (ex - 1075))) 1)
  else .fin (mkRat (sgn * (p2 52 + fr)) (p2 (1075 - ex)))

def nanBits : Nat := 0x7ff8000000000000

def encode : Dbl → Option Nat
  | .nan => some nanBits
  | .inf neg => some ((if neg then p2 63 else 0) + 2047 * p2 52)
  | .fin q =>
    if q = 0 then some 0 else
    let s : Nat := if q < 0 then p2 63 else 0
    let a := q.abs
    let n := a.num.natAbs
    let d := a.den
    -- e = floor(log2 a)
    let e0 : Int := (Nat.log2 n : Int) - (Nat.log2 d : Int)
    let lowOK : Bool := if e0 ≥ 0 then decide (d * p2 e0.toNat ≤ n) else decide (d ≤ n * p2 (-e0).toNat)
    let e : Int := if lowOK then e0 else e0 - 1
    if e > 1023 then none
    else if e ≥ -1022 then
      -- K = a * 2^(52-e) must be an integer in [2^52, 2^53)
      let sh : Int := 52 - e
      let k : Rat := if sh ≥ 0 then a * (p2 sh.toNat : Nat) else a / (p2 (-sh).toNat : Nat)
      if k.den = 1 ∧ p2 52 ≤ k.num.natAbs ∧ k.num.natAbs < p2 53 then
        some (s + (e + 1023).toNat * p2 52 + (k.num.natAbs - p2 52))
      else none
    else
      let k : Rat := a * (p2 1074 : Nat)
      if k.den = 1 ∧ k.num.natAbs < p2 52 then some (s + k.num.natAbs) else none

def parseBitsArr? (s : String) : Option (Arr Dbl) :=
  match s.splitOn ":" with
  | [sh, el] => do
    let shape ← parseNatList? sh
    let elems ← parseNatList? el
    some ⟨elems.map decode, shape⟩
  | _ => none

def showBits (x : Dbl) : String := match encode x with | some b => toString b | none => "inexact"
def showDblArr (a : Arr Dbl) : String := showNatList a.shape ++ ":" ++ showList showBits a.elems
def showIntArr (a : Arr Int) : String := showArr a

def seqOpt {α} : List (Option α) → Option (List α)
  | [] => some []
  | x :: xs => do let a ← x; let as ← seqOpt xs; some (a :: as)

/-- `Res (Arr (Option Dbl))` → text; a hung element makes the call `hang` -/
def showLdexp (r : Res (Arr (Option Dbl))) : String :=
  match r with
  | .ok a => (match seqOpt a.elems with
      | some xs => "ok " ++ showDblArr ⟨xs, a.shape⟩
      | none => "hang")
  | .err e => "err " ++ e.name
  | .panic => "panic"

def showFrexp (r : Option (Res (Arr Dbl × Arr Int))) : String :=
  match r with
  | none => "hang"
  | some r => showRes (fun p => showDblArr p.1 ++ ";" ++ showIntArr p.2) r

def handle (op : String) (args : List String) : Option String :=
  match op, args with
  | "map", [a, p] => do
    let a ← parseArr? a; let p ← parseClo? p
    some (withLog showArr ((mapM a (stamp p.val none)).run s0))
  | "map_e", [a, p] => do
    let a ← parseArr? a; let p ← parseClo? p
    some (withLog showArr ((mapEM a (fun i => stamp p.val (some i))).run s0))
  | "filter", [a, p] => do
    let a ← parseArr? a; let p ← parseClo? p
    some (withLog showArr ((filterM a (stamp p.acc none)).run s0))
  | "filter_e", [a, p] => do
    let a ← parseArr? a; let p ← parseClo? p
    some (withLog showArr ((filterEM a (fun i => stamp p.acc (some i))).run s0))
  | "filter_map", [a, p] => do
    let a ← parseArr? a; let p ← parseClo? p
    some (withLog showArr ((filterMapM a (stamp p.opt none)).run s0))
  | "filter_map_e", [a, p] => do
    let a ← parseArr? a; let p ← parseClo? p
    some (withLog showArr ((filterMapEM a (fun i => stamp p.opt (some i))).run s0))
  | "fold", [a, p, init] => do
    let a ← parseArr? a; let p ← parseClo? p; let init ← parseInt? init
    some (withLog toString ((foldM a init (stampFold p.step)).run s0))
  | "for_each", [a, _p] => do
    let a ← parseArr? a
    some (withLog (fun _ => "unit") ((forEachM a (stamp (fun _ _ _ => ()) none)).run s0))
  | "for_each_e", [a, _p] => do
    let a ← parseArr? a
    some (withLog (fun _ => "unit") ((forEachEM a (fun i => stamp (fun _ _ _ => ()) (some i))).run s0))
  | "into_iter", [a] => do
    let a ← parseArr? a
    some ("ok " ++ showIntList (intoIter a))
  | "into_iter_ref", [a] => do
    let a ← parseArr? a
    some ("ok " ++ showIntList (intoIter a))
  | "collect", [l] => do
    let l ← parseIntList? l
    some (showRes showArr (collect l))
  | "zip", [a, b] => do
    let a ← parseArr? a; let b ← parseArr? b
    if a.shape ≠ b.shape then none else
    some (showRes (fun (z : Arr (Int × Int)) =>
      showNatList z.shape ++ ":" ++ showList (fun p => toString p.1 ++ "/" ++ toString p.2) z.elems) (zipSame a b))
  | "unary", _op :: _ty :: sh :: _ => do
    let shape ← parseNatList? sh
    let a : Arr Int := ⟨(List.range shape.prod).map Int.ofNat, shape⟩
    some (showRes showArr (unary id a))
  | "frexp", [_ty, a] => do
    let a ← parseBitsArr? a
    some (showFrexp (frexpArr a))
  | "ldexp", [_ty, a, e] => do
    let a ← parseBitsArr? a; let e ← parseArr? e
    if a.shape ≠ e.shape then none else
    some (showLdexp (ldexpArr a e))
  | "roundtrip", [_ty, a] => do
    let a ← parseBitsArr? a
    match frexpArr a with
    | none => some "hang"
    | some (.ok (mn, ex)) => some (showLdexp (ldexpArr mn ex))
    | some (.err e) => some ("err " ++ e.name)
    | some .panic => some "panic"
  | _, _ => none

/-- spellings added for the robustness streams; every one of them ends in `handle`, i.e. in the same model definitions:
* `re INNER TARGET op args…` — the harness's closure additionally calls the closure operation INNER on another array while `op`
  runs; the model's transcript of `op` is the one of the plain closure (the model's closures are functions of call number,
  position and element only);
* `collect_h LIST MODE` — `collect` from an iterator whose size hint is not exact: the model's `collect LIST`;
* `clone_from A B` — `b.clone_from(&a)`: the array `a`;
* `hclo op args…` — huge arrays: the list-backed transcript model is quadratic (49 s for 90 000 elements), the driver answers
  `ok native` and the harness judges by its native reference transcript, which it validates against `handle` on every other
  closure case of the run (`audit` line);
* `folds ARR CLO INIT STY` — round 5: `fold` with an accumulator of type STY whose seed is the special value (NaN, ±inf, -0.0, …)
  encoded by the integer INIT (floats: the bit pattern); the harness's closure decodes / encodes the accumulator around the model's
  `step`, so the model's transcript is the one of `fold ARR CLO INIT` over the integers;
* `giant …` — u8 arrays above 2^20 / 2^24 elements, judged in place by the harness (its in-place judge runs in shadow on every
  ordinary closure case that `handle` answers); `frexpn` / `ldexpn` / `roundtripn` — dense value sweeps judged by the harness's
  field-based float reference, which it validates against `handle` on every ordinary frexp / ldexp / roundtrip case of the run. -/
def handleX (op : String) (args : List String) : Option String :=
  match op, args with
  | "re", _inner :: _target :: op' :: rest => handle op' rest
  | "collect_h", [l, _mode] => handle "collect" [l]
  | "clone_from", [a, _b] => do let a ← parseArr? a; some ("ok " ++ showArr a)
  | "hclo", _ => some "ok native"
  | "folds", [a, p, init, _sty] => handle "fold" [a, p, init]
  | "giant", _ => some "ok native"
  | "frexpn", _ => some "ok native"
  | "ldexpn", _ => some "ok native"
  | "roundtripn", _ => some "ok native"
  | "audit", [] => some "ok audit"
  | _, _ => handle op args

end Driver.C05

def main : IO Unit := Driver.runDriver Driver.C05.handleX
