import ArrModel.Joining
import Driver.Proto
namespace Driver.C11
open ArrModel Driver

def handle (op : String) (args : List String) : Option String :=
  match op, args with
  | "append", [a, v, ax] => do
    let a ← parseArr? a; let v ← parseArr? v; let ax ← parseOpt? parseNat? ax
    some (showRes showArr (a.append v 0 ax))
  | "concatenate", [l, ax] => do
    let l ← parseArrList? l; let ax ← parseOpt? parseNat? ax
    some (showRes showArr (Arr.concatenate l 0 ax))
  | "stack", [l, ax] => do
    let l ← parseArrList? l; let ax ← parseOpt? parseNat? ax
    some (showRes showArr (Arr.stack l 0 ax))
  | "vstack", [l] => do let l ← parseArrList? l; some (showRes showArr (Arr.vstack l 0))
  | "row_stack", [l] => do let l ← parseArrList? l; some (showRes showArr (Arr.rowStack l 0))
  | "hstack", [l] => do let l ← parseArrList? l; some (showRes showArr (Arr.hstack l 0))
  | "dstack", [l] => do let l ← parseArrList? l; some (showRes showArr (Arr.dstack l 0))
  | "column_stack", [l] => do let l ← parseArrList? l; some (showRes showArr (Arr.columnStack l 0))
  | "array_split", [a, p, ax] => do
    let a ← parseArr? a; let p ← parseNat? p; let ax ← parseOpt? parseNat? ax
    some (showRes showArrList (a.arraySplit 0 p ax))
  | "split", [a, p, ax] => do
    let a ← parseArr? a; let p ← parseNat? p; let ax ← parseOpt? parseNat? ax
    some (showRes showArrList (a.split 0 p ax))
  | "split_axis", [a, ax] => do
    let a ← parseArr? a; let ax ← parseNat? ax
    some (showRes showArrList (a.splitAxis 0 ax))
  | "hsplit", [a, p] => do let a ← parseArr? a; let p ← parseNat? p; some (showRes showArrList (a.hsplit 0 p))
  | "vsplit", [a, p] => do let a ← parseArr? a; let p ← parseNat? p; some (showRes showArrList (a.vsplit 0 p))
  | "dsplit", [a, p] => do let a ← parseArr? a; let p ← parseNat? p; some (showRes showArrList (a.dsplit 0 p))
  -- round trip: concatenate(array_split(a, parts, axis), axis)
  | "split_concat", [a, p, ax] => do
    let a ← parseArr? a; let p ← parseNat? p; let ax ← parseNat? ax
    some (showRes showArr (a.arraySplit 0 p (some ax) >>= fun ps => Arr.concatenate ps 0 (some ax)))
  | _, _ => none

end Driver.C11

def main : IO Unit := Driver.runDriver Driver.C11.handle
