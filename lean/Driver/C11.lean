import ArrModel.Joining
import Driver.Proto
namespace Driver.C11
open ArrModel Driver

/-- one call -/
def handle1 (op : String) (args : List String) : Option String :=
  match op, args with
  | "append", [a, v, ax] => do
    let a ← parseArr? a; let v ← parseArr? v; let ax ← parseOpt? parseNat? ax
    some (showRes showArr (a.append v 0 ax))
  | "concatenate", [l, ax] => do
    let l ← parseArrList? l; let ax ← parseOpt? parseNat? ax
    some (showRes showArr (Arr.concatenate l 0 ax))
  | "stack", [l, ax] => do
    let l ← parseArrList? l; let ax ← parseOpt? parseNat? ax
    some (showRes showArr (Arr.stack l 0 ax))
  | "vstack", [l] => do let l ← parseArrList? l; some (showRes showArr (Arr.vstack l 0))
  | "row_stack", [l] => do let l ← parseArrList? l; some (showRes showArr (Arr.rowStack l 0))
  | "hstack", [l] => do let l ← parseArrList? l; some (showRes showArr (Arr.hstack l 0))
  | "dstack", [l] => do let l ← parseArrList? l; some (showRes showArr (Arr.dstack l 0))
  | "column_stack", [l] => do let l ← parseArrList? l; some (showRes showArr (Arr.columnStack l 0))
  | "array_split", [a, p, ax] => do
    let a ← parseArr? a; let p ← parseNat? p; let ax ← parseOpt? parseNat? ax
    some (showRes showArrList (a.arraySplit 0 p ax))
  | "split", [a, p, ax] => do
    let a ← parseArr? a; let p ← parseNat? p; let ax ← parseOpt? parseNat? ax
    some (showRes showArrList (a.split 0 p ax))
  | "split_axis", [a, ax] => do
    let a ← parseArr? a; let ax ← parseNat? ax
    some (showRes showArrList (a.splitAxis 0 ax))
  | "hsplit", [a, p] => do let a ← parseArr? a; let p ← parseNat? p; some (showRes showArrList (a.hsplit 0 p))
  | "vsplit", [a, p] => do let a ← parseArr? a; let p ← parseNat? p; some (showRes showArrList (a.vsplit 0 p))
  | "dsplit", [a, p] => do let a ← parseArr? a; let p ← parseNat? p; some (showRes showArrList (a.dsplit 0 p))
  -- round trip: concatenate(array_split(a, parts, axis), axis)
  | "split_concat", [a, p, ax] => do
    let a ← parseArr? a; let p ← parseNat? p; let ax ← parseNat? ax
    some (showRes showArr (a.arraySplit 0 p (some ax) >>= fun ps => Arr.concatenate ps 0 (some ax)))
  -- aliasing: the receiver itself is passed as the `values` argument (`a.append(&a, axis)`)
  | "append_self", [a, ax] => do
    let a ← parseArr? a; let ax ← parseOpt? parseNat? ax
    some (showRes showArr (a.append a 0 ax))
  | _, _ => none

/-- the token list cut at every separator token -/
def splitTok (sep : String) : List String → List (List String)
  | [] => [[]]
  | x :: xs =>
    match splitTok sep xs with
    | [] => [[x]]
    | g :: gs => if x == sep then [] :: g :: gs else (x :: g) :: gs

/-- spellings added for the robustness streams (part 2); every compared answer still comes from `handle1`, i.e. from the very
model definitions:
* `n call…` — arrays on which the list-backed model is too slow (joining is quadratic: 8.7 s for two [130,100] arrays, 35 s for
  an `array_split` of 65 546 elements): the driver answers `ok native` and the harness judges the crate by its native
  block-placement reference, which it compares with the full answer of `handle1` on every other case of the same run
  (`oracle_report` lines);
* `seq call / call / …` — several calls executed one after the other on the same thread (hidden-state streams: colliding shapes
  and colliding (axis length, part count) pairs back to back, a refused call followed by a valid one, A–B–A); the model is a
  function, so every call is answered on its own;
* (part 3) `g call…` / `g8 call…` — giant arrays named `iota:SHAPE[+OFF]` (more than 2^20 elements, axes beyond 2^24 positions),
  never written out: `ok native` as for `n`, judged by the same harness-native reference;
* (part 3) `z call` — the model's answer of `call`; the harness runs the call once more on element images in which all values are
  equal as numbers but not bit-identical (+0.0 / -0.0) or constant. -/
def handleOne (op : String) (args : List String) : Option String :=
  match op, args with
  | "n", _ :: _ => some "ok native"
  | "g", _ :: _ => some "ok native"
  | "g8", _ :: _ => some "ok native"
  | "z", o :: as => handle1 o as
  | "oracle_report", _ => some "ok report"
  | _, _ => handle1 op args

def handle (op : String) (args : List String) : Option String :=
  match op, args with
  | "seq", _ => do
    let parts := splitTok "/" args
    let answers ← parts.mapM (fun p => match p with | o :: as => handleOne o as | [] => none)
    some (" / ".intercalate answers)
  | _, _ => handleOne op args

end Driver.C11

def main : IO Unit := Driver.runDriver Driver.C11.handle
