import ArrModel.C19Pipe
import Driver.Proto
/-!
# Driver.C19

    unpack <A> <axis> <count> <order>      A = shape:b,b,…  (bytes)   axis/count = none | integer
    pack <A> <axis> <order>
    roundtrip <A> <axis> <order>           pack_bits(unpack_bits(A, axis, None, order), axis, order)
    to_bit_order <order>
    binary_repr <ty> <v>                   ty ∈ u8,u16,u32,u64,usize,i8,i16,i32,i64,isize,bool
    repr_parse <ty> <v>                    parse the text back as the unsigned type of the same width, reinterpret
    unpack_ref / pack_ref / roundtrip_ref  the same three operations answered on the reference lane semantics only
                                           (arrays of more than ~600 elements by axis, where the pipeline model is too slow)

    unpack_n / pack_n / roundtrip_n        huge inputs (lanes above ~4000 bytes, 16 384 .. 1 120 000 elements): the model answers the outcome
                                           class and the RESULT SHAPE (`ok shape d,d,…`) — the top-level definitions `unpackBits` / `packBits`
                                           run with `alongShape`, an `Along` that feeds ONE zero lane of the right length through the real lane
                                           function and keeps only the lengths; the flat packing arm answers `(pad8 elems).length / 8`.
                                           The values are compared by the harness with its native coordinate reference, which the harness
                                           compares with the full model answer on every other unpack / pack / round-trip case of the run.
    unpack_g / pack_g / roundtrip_g        giant inputs `shape:@pattern` (2^20 .. 1.7·10^7 elements, data built by the harness): order and axis
                                           checks of the model, result shape by axis for lanes ≤ 200 000 elements, otherwise `native`
    seq <case> / <case> / …                several cases on one thread, answers joined by ` / ` (hidden state between calls)
    oracle_report …                        bookkeeping line of the harness

order = none | E:big | E:little | S:<hex utf-8> (&str) | T:<hex utf-8> (String)
The axis forms are computed twice — on the pipeline model of the crate's `apply_along_axis` (`alongPipe`) and on the
reference lane semantics (`alongRef`); if the two ever differ the answer is `model-split …`, which no observation equals.
-/
namespace Driver.C19
open ArrModel ArrModel.C19 Driver

def hexVal (c : Char) : Option Nat :=
  if '0' ≤ c ∧ c ≤ '9' then some (c.toNat - '0'.toNat)
  else if 'a' ≤ c ∧ c ≤ 'f' then some (c.toNat - 'a'.toNat + 10)
  else none

def hexBytes : List Char → Option (List UInt8)
  | [] => some []
  | [_] => none
  | a :: b :: rest => do
    let x ← hexVal a; let y ← hexVal b
    let r ← hexBytes rest
    some (UInt8.ofNat (x * 16 + y) :: r)

def parseOrder? (s : String) : Option (Option Spelling) :=
  if s == "none" then some none
  else if s == "E:big" then some (some (.enum .big))
  else if s == "E:little" then some (some (.enum .little))
  else if s.startsWith "S:" || s.startsWith "T:" then do
    let bytes ← hexBytes (s.drop 2).toString.toList
    let str ← String.fromUTF8? (ByteArray.mk bytes.toArray)
    some (some (.text str.toList))
  else none

def parseBytes? (s : String) : Option (Arr Nat) :=
  match s.splitOn ":" with
  | [sh, el] => do
    let shape ← parseNatList? sh
    let elems ← parseNatList? el
    some ⟨elems, shape⟩
  | _ => none

def showNatArr (a : Arr Nat) : String := showNatList a.shape ++ ":" ++ showNatList a.elems

def showOrder : BitOrder → String
  | .big => "big"
  | .little => "little"

/-- (signed?, width) -/
def tyInfo? : String → Option (Bool × Nat)
  | "bool" => some (false, 1)
  | "u8" => some (false, 8) | "u16" => some (false, 16) | "u32" => some (false, 32)
  | "u64" => some (false, 64) | "usize" => some (false, 64)
  | "i8" => some (true, 8) | "i16" => some (true, 16) | "i32" => some (true, 32)
  | "i64" => some (true, 64) | "isize" => some (true, 64)
  | _ => none

def reprOf (signed : Bool) (w : Nat) (v : Int) : List Char :=
  if signed then binaryReprSigned w v else binaryRepr v.toNat

/-- answer of an operation that is parametric in the `apply_along_axis` model -/
def both (run : Along → Res (Arr Nat)) : String :=
  let p := showRes showNatArr (run alongPipe)
  let r := showRes showNatArr (run alongRef)
  if p == r then p else "model-split pipe=[" ++ p ++ "] ref=[" ++ r ++ "]"

/-- the shape part of `alongRef`: one zero lane of the axis length goes through the real lane function `f`; the result carries
the shape `alongRef` gives (`a.shape.set axis (f lane).len`) and no elements -/
def alongShape : Along := fun a axis f =>
  if axis ≥ a.ndim then .err .AxisOutOfBounds
  else match f (Arr.flat (List.replicate (a.shape.getD axis 0) 0)) with
    | .ok r => .ok ⟨[], a.shape.set axis r.elems.length⟩
    | .err e => .err e
    | .panic => .panic

def showShapeOnly (a : Arr Nat) : String := "shape " ++ showNatList a.shape

/-- `pack_bits` for the shape answer.  The model's packing of one lane is quadratic (`group8` drops from the front), so the lane
function is not run here: a packed lane has `(pad8 lane).length / 8` bytes (theorem `pack_length`).  The by-axis arm is
`packBits alongShapePack`, the flat arm the same checks and `pad8`. -/
def alongShapePack : Along := fun a axis _ =>
  if axis ≥ a.ndim then .err .AxisOutOfBounds
  else .ok ⟨[], a.shape.set axis ((pad8 (List.replicate (a.shape.getD axis 0) 0)).length / 8)⟩

def packShape (a : Arr Nat) (ax : Option Int) (ord : Option Spelling) : Res (Arr Nat) :=
  match ax with
  | some _ => packBits alongShapePack a ax ord
  | none =>
    match optOrder ord with
    | .err e => .err e
    | .panic => .panic
    | .ok _ => if a.isEmpty then .ok ⟨[], [0]⟩ else .ok ⟨[], [(pad8 a.elems).length / 8]⟩

/-! ### giant inputs (`*_g`, part 3): arrays of 2^20 .. 1.7·10^7 elements named `shape:@pattern` (the harness builds the data)

The model's own checks run on the real definitions: `optOrder`, `axisCheck` (through `unpackBits` / `packBits` themselves for the
axis forms).  By axis with lanes of at most `giantLaneMax` elements the answer is the outcome class and RESULT SHAPE exactly as for
`*_n` (`alongShape` / `packShape` on a one-element stand-in for the data: the `Along`s used here never look at the elements, only
`isEmpty` does, and giant shapes have no zero-length axis).  For the flat forms and longer lanes the list-backed model is not run
(a 1.7·10^7-element `List Nat` is ~0.5 GB): the answer is `native` after the order / axis checks — the harness then compares the
crate with its native coordinate reference alone, which it compares with the full model answer on every small case of the run. -/
def giantLaneMax : Nat := 200000

def parseGiant? (s : String) : Option (List Nat) :=
  match s.splitOn ":" with
  | [sh, pat] => if pat.startsWith "@" then parseNatList? sh else none
  | _ => none

def giantChecks (shape : List Nat) (ax : Option Int) (ord : Option Spelling) : Res Unit :=
  match optOrder ord with
  | .err e => .err e
  | .panic => .panic
  | .ok _ => axisCheck shape.length ax

def giantLaneOk (shape : List Nat) (ax : Option Int) : Bool :=
  match ax with
  | none => false
  | some x => shape.getD (C19.normalizeAxis shape.length x) 0 ≤ giantLaneMax

def giantAnswer (shape : List Nat) (ax : Option Int) (ord : Option Spelling) (full : Unit → Res (Arr Nat)) : String :=
  match giantChecks shape ax ord with
  | .err e => "err " ++ e.name
  | .panic => "panic"
  | .ok _ => if shape.prod == 0 then "native" else if giantLaneOk shape ax then showRes showShapeOnly (full ()) else "native"

def handle1 (op : String) (args : List String) : Option String :=
  match op, args with
  | "unpack_g", [a, ax, cnt, ord] => do
    let sh ← parseGiant? a; let ax ← parseOpt? parseInt? ax; let cnt ← parseOpt? parseInt? cnt
    let ord ← parseOrder? ord
    some (giantAnswer sh ax ord fun _ => unpackBits alongShape ⟨[0], sh⟩ ax cnt ord)
  | "pack_g", [a, ax, ord] => do
    let sh ← parseGiant? a; let ax ← parseOpt? parseInt? ax; let ord ← parseOrder? ord
    some (giantAnswer sh ax ord fun _ => packShape ⟨[0], sh⟩ ax ord)
  | "roundtrip_g", [a, ax, ord] => do
    let sh ← parseGiant? a; let ax ← parseOpt? parseInt? ax; let ord ← parseOrder? ord
    some (giantAnswer sh ax ord fun _ => unpackBits alongShape ⟨[0], sh⟩ ax none ord >>= fun u =>
      if (u.shape.getD (C19.normalizeAxis sh.length (ax.getD 0)) 0) ≤ 8 * giantLaneMax then packShape ⟨[0], u.shape⟩ ax ord else .panic)
  | "unpack_n", [a, ax, cnt, ord] => do
    let a ← parseBytes? a; let ax ← parseOpt? parseInt? ax; let cnt ← parseOpt? parseInt? cnt
    let ord ← parseOrder? ord
    some (showRes showShapeOnly (unpackBits alongShape a ax cnt ord))
  | "pack_n", [a, ax, ord] => do
    let a ← parseBytes? a; let ax ← parseOpt? parseInt? ax; let ord ← parseOrder? ord
    some (showRes showShapeOnly (packShape a ax ord))
  | "roundtrip_n", [a, ax, ord] => do
    let a ← parseBytes? a; let ax ← parseOpt? parseInt? ax; let ord ← parseOrder? ord
    some (showRes showShapeOnly (unpackBits alongShape a ax none ord >>= fun u =>
      packShape ⟨List.replicate u.shape.prod 0, u.shape⟩ ax ord))
  | "unpack", [a, ax, cnt, ord] => do
    let a ← parseBytes? a; let ax ← parseOpt? parseInt? ax; let cnt ← parseOpt? parseInt? cnt
    let ord ← parseOrder? ord
    some (both fun al => unpackBits al a ax cnt ord)
  | "pack", [a, ax, ord] => do
    let a ← parseBytes? a; let ax ← parseOpt? parseInt? ax; let ord ← parseOrder? ord
    some (both fun al => packBits al a ax ord)
  | "roundtrip", [a, ax, ord] => do
    let a ← parseBytes? a; let ax ← parseOpt? parseInt? ax; let ord ← parseOrder? ord
    some (both fun al => unpackBits al a ax none ord >>= fun u => packBits al u ax ord)
  -- big inputs by axis: the pipeline model of `apply_along_axis` is quadratic with a large constant; these forms answer on
  -- the reference lane semantics `alongRef` alone (theorems `alongRef_lifts`, `pack_unpack_axis_ref`, `unpack_axis_ref`)
  | "unpack_ref", [a, ax, cnt, ord] => do
    let a ← parseBytes? a; let ax ← parseOpt? parseInt? ax; let cnt ← parseOpt? parseInt? cnt
    let ord ← parseOrder? ord
    some (showRes showNatArr (unpackBits alongRef a ax cnt ord))
  | "pack_ref", [a, ax, ord] => do
    let a ← parseBytes? a; let ax ← parseOpt? parseInt? ax; let ord ← parseOrder? ord
    some (showRes showNatArr (packBits alongRef a ax ord))
  | "roundtrip_ref", [a, ax, ord] => do
    let a ← parseBytes? a; let ax ← parseOpt? parseInt? ax; let ord ← parseOrder? ord
    some (showRes showNatArr (unpackBits alongRef a ax none ord >>= fun u => packBits alongRef u ax ord))
  | "to_bit_order", [ord] => do
    let ord ← parseOrder? ord
    match ord with
    | none => none
    | some s => some (showRes showOrder (toBitOrder s))
  | "binary_repr", [ty, v] => do
    let (signed, w) ← tyInfo? ty; let v ← parseInt? v
    some ("ok " ++ String.ofList (reprOf signed w v))
  | "repr_parse", [ty, v] => do
    let (signed, w) ← tyInfo? ty; let v ← parseInt? v
    match parseRadix2U w (reprOf signed w v) with
    | none => some "err parse"
    | some u => some ("ok " ++ toString (if signed then toSigned w u else Int.ofNat u))
  | _, _ => none

/-- split an argument list at the `/` tokens -/
def splitSlash (args : List String) : List (List String) :=
  let (cur, done) := args.foldl (fun (st : List String × List (List String)) t =>
    if t == "/" then ([], st.1.reverse :: st.2) else (t :: st.1, st.2)) ([], [])
  (cur.reverse :: done).reverse

def handle (op : String) (args : List String) : Option String :=
  match op with
  | "seq" => do
    let answers ← (splitSlash args).mapM (fun c => match c with
      | o :: as => handle1 o as
      | [] => none)
    some (" / ".intercalate answers)
  | "oracle_report" => some "ok report"
  | _ => handle1 op args

end Driver.C19

def main : IO Unit := Driver.runDriver Driver.C19.handle
