import ArrModel.C09
import ArrModel.Index
import ArrModel.Broadcast
import ArrModel.Manip
import ArrModel.Split
import ArrModel.AlongAxis
import ArrModel.C08
import ArrModel.Reorder
import ArrModel.C13
import ArrModel.Joining
import ArrModel.IndexExt
import ArrModel.C10
import ArrModel.C19Pipe
import ArrModel.C14Ext
import ArrModel.C15
import ArrModel.C01Diff
import Driver.Proto
/-!
# Driver.C09 — outcome protocol

Case lines `C09.<class>.<Trait>.<method> <receiver shape> <tokens…>` (see `harness/src/bin/c09.rs`).
* `m`: the model of the operation is run on the tag array of that shape; the answer is its outcome class.
* `b`: the shared broadcasting funnel `Arr.broadcast` is run against every operand shape of the case.
* `m` lines of the operations modelled by other properties (round 5): `slice` / `indices_at` (`ArrModel/IndexExt.lean`),
  `repeat(counts, None)` (`Arr.repeatFlat`, C13), `vdot` / `inner` / `dot` / `matmul` (C14: `dotFull`, `matmul`, `inner`, `vdot`),
  `det` / `qr` / `solve` / `norm` (C15: `detArr`, `qrArr`, `solveArr`, `normArr`), and the option NAME arguments of sort /
  argsort (table parser of `parse_kind` and `Sort.sort` / `Sort.argsort` with the text, which must agree), pack_bits /
  unpack_bits (`C19.packBits` / `unpackBits` on the crate's own `apply_along_axis` model), compare (table parser, then the
  broadcasting funnel), norm (table parser of `to_ord`, then `normArr`), convolve (table parser of `to_mode`).
* `m` lines of `insert(indices, values, Some(axis))` (round 5, part 2): `Arr.insertAxis` of `ArrModel/C01Diff.lean` on the tag
  arrays of the receiver shape and the values shape.
* `x`: the same models, but the harness does not claim beforehand that the argument is invalid: the answer is the model's outcome
  class (`ok` / `err <Variant>` / `panic`) and the real call must fall into the same class (the three-argument relations of
  `insert` along an axis: number of indices against the rows of the values, values axes that match / divide / do neither).
* `u`: not modelled — constant `err` (class only);  `o` → `open`;  `n`, `t` → `total`.
* `p`: `liftR` on an error receiver, provided the regenerated table says the body is the delegation.
* `opt`: the table-driven parsers;  `inv`: coverage accounting from the regenerated inventory.
-/
namespace Driver.C09
open ArrModel ArrModel.C09 ArrModel.Gen.Tables Driver

def cls {α} : Res α → String
  | .ok _ => "ok"
  | .err e => "err " ++ e.name
  | .panic => "panic"

def tagArr (shape : List Nat) : Arr Int := ⟨(List.range shape.prod).map Int.ofNat, shape⟩

def optInt? (s : String) : Option (Option Int) := parseOpt? parseInt? s
def optNat? (s : String) : Option (Option Nat) := parseOpt? parseNat? s
def optIntList? (s : String) : Option (Option (List Int)) := parseOpt? parseIntList? s

def hexVal? (c : Char) : Option Nat :=
  if '0' ≤ c ∧ c ≤ '9' then some (c.toNat - '0'.toNat)
  else if 'a' ≤ c ∧ c ≤ 'f' then some (c.toNat - 'a'.toNat + 10) else none

def hexBytes? : List Char → Option (List UInt8)
  | [] => some []
  | a :: b :: r => do
    let x ← hexVal? a; let y ← hexVal? b; let t ← hexBytes? r
    some (UInt8.ofNat (x * 16 + y) :: t)
  | _ => none

/-- hex-encoded UTF-8 (`.` = empty) -/
def unhex? (s : String) : Option (List Char) :=
  if s == "." then some [] else do
    let bs ← hexBytes? s.toList
    let str ← String.fromUTF8? (ByteArray.mk bs.toArray)
    some str.toList

def str (l : List Char) : String := String.ofList l

/-- the axis wrappers all reduce to `apply_along_axis(normalize_axis(axis), lane fn)` -/
def alongId (a : Arr Int) (ax : Int) : Res (Arr Int) :=
  a.applyAlongAxis 0 0 (normalizeAxis a.ndim ax) (fun l => .ok l)

def reduceOps : List String := ["ArraySumProdDiff.prod", "ArraySumProdDiff.sum", "ArraySumProdDiff.nanprod", "ArraySumProdDiff.nansum",
  "ArrayExtrema.max", "ArrayExtrema.amax", "ArrayExtrema.nanmax", "ArrayExtrema.min", "ArrayExtrema.amin", "ArrayExtrema.nanmin"]
def scanOps : List String := ["ArraySumProdDiff.cumprod", "ArraySumProdDiff.cumsum", "ArraySumProdDiff.nancumprod", "ArraySumProdDiff.nancumsum"]
def countOps : List String := ["ArrayCount.count_nonzero", "ArraySearch.argmax", "ArraySearch.argmin"]
def alongOps : List String := ["ArraySort.sort", "ArraySort.argsort", "ArrayManipulate.unique", "ArrayBinaryBits.unpack_bits", "ArrayBinaryBits.pack_bits"]

/-- run the model of `key` on the tag array of shape `s` with the positional tokens of the harness registry -/
def runModel (key : String) (s : List Nat) (t : List String) : Option String :=
  let a := tagArr s
  if reduceOps.contains key then
    match t with
    | ax :: _ => do let ax ← parseInt? ax; some (cls (a.reduceAxis 0 (0 : Int) (some ax) (fun _ => .ok (Arr.single 0))))
    | _ => none
  else if scanOps.contains key then
    match t with
    | ax :: _ => do let ax ← parseInt? ax; some (cls (a.scanAxis 0 (0 : Int) (some ax) (fun l => .ok l)))
    | _ => none
  else if countOps.contains key then
    match t with
    | ax :: _ => do let ax ← parseInt? ax; some (cls (a.countAxis 0 (0 : Int) (some ax) none (fun _ _ => .ok (Arr.single 0))))
    | _ => none
  else if alongOps.contains key then
    match t with
    | ax :: _ => do let ax ← parseInt? ax; some (cls (alongId a ax))
    | _ => none
  else match key, t with
  | "ArrayAxis.transpose", [ax] => do let ax ← optIntList? ax; some (cls (a.transpose 0 ax))
  | "ArrayAxis.moveaxis", [x, y] => do let x ← parseIntList? x; let y ← parseIntList? y; some (cls (a.moveaxis 0 x y))
  | "ArrayAxis.rollaxis", [x, y] => do let x ← parseInt? x; let y ← optInt? y; some (cls (a.rollaxis 0 x y))
  | "ArrayAxis.swapaxes", [x, y] => do let x ← parseInt? x; let y ← parseInt? y; some (cls (a.swapaxes 0 x y))
  | "ArrayAxis.expand_dims", [x] => do let x ← parseIntList? x; some (cls (a.expandDims x))
  | "ArrayAxis.squeeze", [x] => do let x ← optIntList? x; some (cls (a.squeeze x))
  | "ArrayAxis.apply_along_axis", [x] => do let x ← parseNat? x; some (cls (a.applyAlongAxis 0 (0 : Int) x (fun l => .ok l)))
  | "ArrayReorder.flip", [x] => do let x ← optIntList? x; some (cls (a.flip x))
  | "ArrayReorder.roll", [x, y] => do let x ← parseIntList? x; let y ← optIntList? y; some (cls (a.roll x y))
  | "ArrayReorder.rot90", [k, x] => do let k ← parseNat? k; let x ← parseIntList? x; some (cls (a.rot90 0 k x))
  | "ArrayManipulate.delete", [i, ax] => do let i ← parseNatList? i; let ax ← optNat? ax; some (cls (a.delete 0 i ax))
  | "ArrayManipulate.insert", [i, v, "none"] => do let i ← parseNatList? i; let v ← parseNatList? v; some (cls (a.insertFlat i (tagArr v)))
  | "ArrayManipulate.append", [v, ax] => do let v ← parseNatList? v; let ax ← optNat? ax; some (cls (a.append (tagArr v) 0 ax))
  | "ArrayManipulate.reshape", [sh] => do let sh ← parseNatList? sh; some (cls (a.reshape sh))
  | "ArrayManipulate.atleast", [n] => do let n ← parseNat? n; some (cls (a.atleast n))
  | "ArraySplit.array_split", [p, ax] => do let p ← parseNat? p; let ax ← optNat? ax; some (cls (a.arraySplit 0 p ax))
  | "ArraySplit.split", [p, ax] => do let p ← parseNat? p; let ax ← optNat? ax; some (cls (a.split 0 p ax))
  | "ArraySplit.split_axis", [ax] => do let ax ← parseNat? ax; some (cls (a.splitAxis 0 ax))
  | "ArraySplit.hsplit", [p] => do let p ← parseNat? p; some (cls (a.hsplit 0 p))
  | "ArraySplit.vsplit", [p] => do let p ← parseNat? p; some (cls (a.vsplit 0 p))
  | "ArraySplit.dsplit", [p] => do let p ← parseNat? p; some (cls (a.dsplit 0 p))
  | "ArrayTiling.repeat", [r, ax] => do let r ← parseNatList? r; let ax ← parseNat? ax; some (cls (a.repeatAxis 0 r ax))
  | "ArrayJoining.concatenate", [v, ax] => do let v ← parseNatList? v; let ax ← optNat? ax; some (cls (Arr.concatenate [a, tagArr v] 0 ax))
  | "ArrayJoining.stack", [v, ax] => do let v ← parseNatList? v; let ax ← optNat? ax; some (cls (Arr.stack [a, tagArr v] 0 ax))
  | "ArrayJoining.vstack", [v] => do let v ← parseNatList? v; some (cls (Arr.vstack [a, tagArr v] 0))
  | "ArrayJoining.row_stack", [v] => do let v ← parseNatList? v; some (cls (Arr.rowStack [a, tagArr v] 0))
  | "ArrayJoining.hstack", [v] => do let v ← parseNatList? v; some (cls (Arr.hstack [a, tagArr v] 0))
  | "ArrayJoining.dstack", [v] => do let v ← parseNatList? v; some (cls (Arr.dstack [a, tagArr v] 0))
  | "ArrayJoining.column_stack", [v] => do let v ← parseNatList? v; some (cls (Arr.columnStack [a, tagArr v] 0))
  | "ArrayIndexing.index_at", [c] => do let c ← parseNatList? c; some (cls (a.indexAt c))
  | "ArrayIndexing.at", [c] => do let c ← parseNatList? c; some (cls (a.atc c))
  | "ArrayIndexing.index_to_coord", [i] => do let i ← parseNat? i; some (cls (a.indexToCoord i))
  | "ArrayBroadcast.broadcast_to", [sh] => do let sh ← parseNatList? sh; some (cls (a.broadcastTo sh))
  | "ArrayBroadcast.broadcast", [sh] => do let sh ← parseNatList? sh; some (cls (a.broadcast (tagArr sh)))
  | "ArrayBroadcast.broadcast_arrays", [sh] => do let sh ← parseNatList? sh; some (cls (Arr.broadcastArrays [a, tagArr sh]))
  | "ArrayIterMut.zip", [sh] => do let sh ← parseNatList? sh; some (cls (a.zip (tagArr sh)))
  | "ArrayCreate.new", [n, sh] => do let n ← parseNat? n; let sh ← parseNatList? sh; some (cls (Arr.new (List.replicate n (7 : Int)) sh))
  | "ArrayCreate.create", [n, sh, nd] => do let n ← parseNat? n; let sh ← parseNatList? sh; let nd ← optNat? nd; some (cls (Arr.create (List.replicate n (7 : Int)) sh nd))
  | _, _ => none

/-! ### round 5: operations modelled by other properties, option names through the operations -/

def tagNat (shape : List Nat) : Arr Nat := ⟨(List.range shape.prod).map (· % 2), shape⟩
def tagRat (shape : List Nat) : Arr Rat := ⟨(List.range shape.prod).map (fun i => ((i + 1 : Nat) : Rat)), shape⟩

/-- the table parser of the named option on a hex token, `&str` or `String` impl -/
def parseOption (p : OptionParser) (h fl : String) : Option (Res Parsed) := do
  let txt ← unhex? h
  some (if fl == "string" then parseString lowerRust p txt else parseStr lowerRust p txt)

/-- the table parser and the hand-written parser inside the owning model must refuse the same texts -/
def agreeing (table : Res Parsed) (modelRefuses : Bool) (ans : String) : String :=
  if table.isErr != modelRefuses then "model-disagree: option table vs the parser inside the operation model" else ans

def ordOf : Res Parsed → Option C15.Ord
  | .ok (.int _ v) => some (.int v)
  | .ok (.ctor 1) => some .inf
  | .ok (.ctor 2) => some .negInf
  | .ok (.ctor 3) => some .fro
  | .ok (.ctor 4) => some .nuc
  | _ => none

/-- option names as text through the operations; `none` = not such a line -/
def runOption (key : String) (s : List Nat) (t : List String) : Option String :=
  match key, t with
  | "ArraySort.sort", [ax, h, fl] =>
    if h == "none" || fl == "enum" then none else do
      let ax ← optInt? ax; let txt ← unhex? h; let tb ← parseOption sortKind h fl
      let ka := Sort.KindArg.str (lowerRust txt)
      some (agreeing tb (Sort.resolveKind ka).isErr (cls (Sort.sort Sort.Cmp.int 0 (tagArr s) ax ka)))
  | "ArraySort.argsort", [ax, h, fl] =>
    if h == "none" || fl == "enum" then none else do
      let ax ← optInt? ax; let txt ← unhex? h; let tb ← parseOption sortKind h fl
      let ka := Sort.KindArg.str (lowerRust txt)
      some (agreeing tb (Sort.resolveKind ka).isErr (cls (Sort.argsort Sort.Cmp.int 0 (tagArr s) ax ka)))
  | "ArrayBinaryBits.pack_bits", [ax, h, fl] =>
    if h == "none" || fl == "enum" then none else do
      let ax ← optInt? ax; let txt ← unhex? h; let tb ← parseOption bitOrder h fl
      let sp := C19.Spelling.text txt
      some (agreeing tb (C19.toBitOrder sp).isErr (cls (C19.packBits C19.alongPipe (tagNat s) ax (some sp))))
  | "ArrayBinaryBits.unpack_bits", [ax, cnt, h, fl] =>
    if h == "none" || fl == "enum" then none else do
      let ax ← optInt? ax; let cnt ← optInt? cnt; let txt ← unhex? h; let tb ← parseOption bitOrder h fl
      let sp := C19.Spelling.text txt
      some (agreeing tb (C19.toBitOrder sp).isErr (cls (C19.unpackBits C19.alongPipe (tagNat s) ax cnt (some sp))))
  | "ArrayStringCompare.compare", [o, h, fl] =>
    if fl == "enum" then none else do
      let tb ← parseOption compareOp h fl
      let o ← parseNatList? o
      match tb with
      | .ok _ => some (cls ((tagArr s).broadcast (tagArr o)))
      | r => some (cls r)
  | "ArrayMathMisc.convolve", [_, h, fl] =>
    if fl == "enum" then none else do
      let tb ← parseOption convolveMode h fl
      some (cls tb)
  | _, _ => none

def runNorm (s : List Nat) (t : List String) : Option String :=
  let go (h ax kd fl : String) : Option String := do
    let ax ← optIntList? ax
    let keep := kd == "true"
    if h == "none" then some (cls (C15.normArr (tagRat s) none ax keep))
    else if fl == "enum" then some (cls (C15.normArr (tagRat s) (some .fro) ax keep))
    else do
      let tb ← parseOption normOrd h fl
      match tb with
      | .ok _ => do let o ← ordOf tb; some (cls (C15.normArr (tagRat s) (some o) ax keep))
      | r => some (cls r)
  match t with
  | [h, ax] => go h ax "none" "str"
  | [h, ax, kd] => go h ax kd "str"
  | [h, ax, kd, fl] => go h ax kd fl
  | _ => none

/-- operations whose models live in other properties' files -/
def runForeign (key : String) (s : List Nat) (t : List String) : Option String :=
  let a := tagArr s
  match key, t with
  | "ArrayIndexing.slice", [x, y] => do let x ← parseNat? x; let y ← parseNat? y; some (cls (a.slice x y))
  | "ArrayIndexing.indices_at", [i] => do let i ← parseNatList? i; some (cls (a.indicesAt i))
  | "ArrayTiling.repeat", [r, "none"] => do let r ← parseNatList? r; some (cls (a.repeatFlat r))
  -- `insert(indices, values, Some(axis))`: the C01 model (`none` as the axis is not a number: falls through to `insertFlat` in `runModel`)
  | "ArrayManipulate.insert", [i, v, ax] => do
    let ax ← parseNat? ax; let i ← parseNatList? i; let v ← parseNatList? v
    some (cls (a.insertAxis 0 i (tagArr v) ax))
  | "ArrayLinalgProducts.vdot", [v] => do let v ← parseNatList? v; some (cls (C14.vdot a (tagArr v)))
  | "ArrayLinalgProducts.inner", [v] => do let v ← parseNatList? v; some (cls (C14.inner a (tagArr v)))
  | "ArrayLinalgProducts.dot", [v] => do let v ← parseNatList? v; some (cls (C14.dotFull a (tagArr v)))
  | "ArrayLinalgProducts.matmul", [v] => do let v ← parseNatList? v; some (cls (C14.matmul a (tagArr v)))
  | "ArrayLinalgNorms.det", [] => some (cls (C15.detArr (tagRat s)))
  | "ArrayLinalgDecompositions.qr", [] => some (cls (C15.qrArr (tagRat s)))
  | "ArrayLinalgSolvingInvertingProducts.solve", [v] => do let v ← parseNatList? v; some (cls (C15.solveArr (tagRat s) (tagRat v)))
  | "ArrayLinalgNorms.norm", t => runNorm s t
  | _, _ => none

/-- `m`: option-name lines first, then the operations of this file, then the models of the other properties -/
def runModelAll (key : String) (s : List Nat) (t : List String) : Option String :=
  match runOption key s t with
  | some r => some r
  | none =>
    match runForeign key s t with
    | some r => some r
    | none => runModel key s t

/-- `b`: every operand shape among the tokens against the receiver through `Arr.broadcast` -/
def runBroadcast (s : List Nat) (t : List String) : String :=
  let a := tagArr s
  let shapes := t.filterMap (fun x => if x == "none" then none else parseNatList? x)
  match shapes.find? (fun sh => (a.broadcast (tagArr sh)).isErr) with
  | some sh => cls (a.broadcast (tagArr sh))
  | none => "ok"

/-- the error values of the harness, in its order (payloads are not part of the model) -/
def errorAt (i : Nat) : Option Err :=
  (Err.all ++ [.ShapesMustMatch, .OutOfBounds, .ParameterError, .UnsupportedDimension, .MustBeUnique, .MustBeEqual, .MustBeAtLeast, .MustBeOneOf])[i]?

def propagate (key : String) (tok : String) : Option String := do
  let m ← resultImpls.find? (fun m => str (ResultImpl.key m) == key)
  let i ← (tok.drop 1).toString.toNat?
  let e ← errorAt i
  if !m.isDelegation then some "body-is-not-the-delegation"
  else match liftR (fun (_ : Arr Int) => (Res.ok () : Res Unit)) (.err e) with
    | .err e' => some (if e' = e then "err same" else "err different")
    | .ok _ => some "ok"
    | .panic => some "panic"

def parserOf (name : String) : Option OptionParser :=
  match name with
  | "sortKind" => some sortKind | "compareOp" => some compareOp | "bitOrder" => some bitOrder
  | "normOrd" => some normOrd | "convolveMode" => some convolveMode | _ => none

def showParsed : Res Parsed → String
  | .ok (.ctor i) => s!"ok {i}"
  | .ok (.int i v) => s!"ok {i} {v}"
  | .err e => "err " ++ e.name
  | .panic => "panic"

def csvKeys (s : String) : List (List Char) := if s == "-" || s == "" then [] else (s.splitOn ",").map String.toList

def showKeys (l : List (List Char)) : String := if l.isEmpty then "-" else ",".intercalate (l.map str)

def coverageLine (wanted : List (List Char)) (csv : String) : String :=
  let covered := csvKeys csv
  let (missing, extra) := coverage wanted covered
  s!"ok covered={covered.length - extra.length}/{wanted.length} missing={showKeys missing} extra={showKeys extra}"

/-- class tokens of the robustness streams carry suffixes (`m-z`, `m-u8p`, `ea-strr` …) that only select the receiver /
element type on the Rust side, or mark a zero-size receiver; the model answer is that of the base class -/
def baseCls (c : String) : String := (c.splitOn "-").headD c

def handleBase (parts : List String) (args : List String) : Option String :=
  match parts, args with
  | ["C09", "inv", "result_impls"], [csv] => some (coverageLine resultImplKeys csv)
  | ["C09", "inv", "fallible"], [csv] => some (coverageLine fallibleKeys csv)
  | ["C09", "inv", "invalid_args"], [m, u] =>
    let mk := csvKeys ((m.splitOn "=").getD 1 "-")
    let uk := csvKeys ((u.splitOn "=").getD 1 "-")
    let bad := (mk ++ uk).filter (fun k => !fallibleKeys.contains k)
    if bad.isEmpty then
      some s!"ok fallible={fallibleKeys.length} invalid_args_model_run={mk.length} invalid_args_class_only(unmodelled)={uk.length} no_invalid_argument_class(uncovered by m/b/u)={fallibleKeys.length - mk.length - uk.length}"
    else some s!"unknown methods {showKeys bad}"
  | ["C09", "opt", p, _, _], [h, fl] => do
    let p ← parserOf p
    let s ← unhex? h
    some (showParsed (if fl == "string" then parseString lowerRust p s else parseStr lowerRust p s))
  | ["C09", "p", tr, m], [_, e] => propagate (tr ++ "." ++ m) e
  | ["C09", "ea", tr, m], _ :: e :: _ => propagate (tr ++ "." ++ m) e
  | ["C09", "m", tr, m], s :: t => do let s ← parseNatList? s; runModelAll (tr ++ "." ++ m) s t
  | ["C09", "x", tr, m], s :: t => do let s ← parseNatList? s; runModelAll (tr ++ "." ++ m) s t
  | ["C09", "b", _, _], s :: t => do let s ← parseNatList? s; some (runBroadcast s t)
  | ["C09", "u", _, _], _ => some "err class-only"
  | ["C09", "o", _, _], _ => some "open"
  | ["C09", "n", _, _], _ => some "total"
  | ["C09", "t", _, _], _ => some "total"
  | _, _ => none

def handleFull (parts : List String) (args : List String) : Option String :=
  match parts with
  | "C09" :: c :: rest => handleBase ("C09" :: baseCls c :: rest) args
  | _ => handleBase parts args

/-- `Proto.dispatchWith` hands over the full first token when it has more than one dot -/
def handle (op : String) (args : List String) : Option String := handleFull (op.splitOn ".") args

end Driver.C09

def main : IO Unit := Driver.runDriver Driver.C09.handle
