import ArrModel.C04
import Driver.Proto
/-!
# Driver.C04 — index protocol for the two-operand elementwise family

Case lines (built by `harness/src/bin/c04.rs`):
* `C04.<op> <pattern> <type> <shapeA>:<valsA> <shapeB>:<valsB>`
* `C04.clip R3 <type> <A> <LO> <HI>`
* `C04.comm <op> <pattern> <type> <A> <B>`
* `C04.seq <case> / <case> / …` (each `<case>` one of the above without the `C04.` prefix)
* `C04.g <op> <pattern> <type> <shapeA> <shapeB> <fillA> <fillB>` / `C04.g clip R3 <type> <shapeA> <shapeLO> <shapeHI> <fillA> <fillLO> <fillHI>`
  — giant operands (more than 2^20 result elements), named by shape and a fill rule and built by the harness, never written out.
  The list-backed model cannot gather a million elements, so the answer is the result SHAPE only (`broadcastShape`, which
  `zipWithB_spec` / `zipWithR_shape_is_broadcastShape` / `clipLike_spec` prove to be the result shape on zero-free shapes) or the
  refusal (`divide_refuses_zero`: a fill rule that writes a zero into the divisor; clashing shapes).  The harness compares the
  values in place with its native coordinate formula, which it compares with the FULL model answer on every other case of the run.
* `C04.oracle_report [final]` — bookkeeping line of the harness (how often that formula was compared with the model)

Values are opaque tokens for the model (decimal integers, `x<16 hex digits>` for the bits of an f64); the only thing
the model reads from them is whether a token of the second operand is a zero (`0`, `+0.0`, `-0.0`) — the divisor guard.
The model is run with the *pairing kernel* on tag arrays: the answer is the result shape and, for every output
position, the flat indices of the two (three for clip) source elements.  The Rust side applies the scalar kernel.
-/
namespace Driver.C04
open ArrModel ArrModel.C04 Driver

def isZeroTok (s : String) : Bool := s == "0" || s == "x0000000000000000" || s == "x8000000000000000"

/-- `shape:vals` ↦ array of (flat index, is-zero flag) -/
def parseTagged? (s : String) : Option (Arr (Nat × Bool)) :=
  match s.splitOn ":" with
  | [sh, el] => do
    let shape ← parseNatList? sh
    let toks := if el == "-" then [] else el.splitOn ","
    some ⟨(List.range toks.length).zip (toks.map isZeroTok), shape⟩
  | _ => none

def showPairs (a : Arr (Nat × Nat)) : String :=
  showNatList a.shape ++ ":" ++ showList (fun p => toString p.1 ++ "/" ++ toString p.2) a.elems

def showTriples (a : Arr (Nat × Nat × Nat)) : String :=
  showNatList a.shape ++ ":" ++ showList (fun p => toString p.1 ++ "/" ++ toString p.2.1 ++ "/" ++ toString p.2.2) a.elems

def pairK (x y : Nat × Bool) : Nat × Nat := (x.1, y.1)

/-- a kernel that commutes: the unordered pair of (operand, index) tags -/
def unorderedK (x y : Nat × Bool) : Nat × Nat := (min x.1 y.1, max x.1 y.1)

def retag (off : Nat) (a : Arr (Nat × Bool)) : Arr (Nat × Bool) := ⟨a.elems.map (fun p => (p.1 + off, p.2)), a.shape⟩

/-- one call -/
def handle1 (op : String) (args : List String) : Option String :=
  match op, args with
  | "comm", [_name, pat, _ty, a, b] => do
    let p ← Pattern.ofString pat
    let a ← parseTagged? a; let b ← parseTagged? b
    let b := retag 100000 b
    let r1 := p.run (fun t => t.2) unorderedK a b
    let r2 := p.run (fun t => t.2) unorderedK b a
    match r1, r2 with
    | .ok x, .ok y => some (if x = y then "ok equal" else "ok differ")
    | .err e, _ => some ("err " ++ e.name)
    | _, .err e => some ("err " ++ e.name)
    | _, _ => some "panic"
  | "clip", [_pat, _ty, a, lo, hi] => do
    let a ← parseTagged? a; let lo ← parseTagged? lo; let hi ← parseTagged? hi
    some (showRes showTriples (clipLike (fun x l h => (x.1, l.1, h.1)) a lo hi))
  | _, [pat, _ty, a, b] => do
    let p ← Pattern.ofString pat
    let a ← parseTagged? a; let b ← parseTagged? b
    some (showRes showPairs (p.run (fun t => t.2) pairK a b))
  | _, _ => none

/-- does the fill rule of a giant operand write a zero? `c<tok>` constant, `z<k><p|n>` a zero at flat position k, `m<salt>` a
mixture of +0.0 / -0.0 (integers: zeros); `v<salt>` / `l<tok>` hold no zero -/
def fillHasZero (f : String) : Bool :=
  f.startsWith "z" || f.startsWith "m" || (f.startsWith "c" && isZeroTok (f.drop 1).toString)

def showShapeRes (r : Res (List Nat)) (want : Option (List Nat)) : String :=
  match r with
  | .ok fs => if want.all (· == fs) then "ok shape " ++ showNatList fs else "err BroadcastShapeMismatch"
  | .err e => "err " ++ e.name
  | .panic => "panic"

/-- receiver-shaped family: the argument must stretch to the receiver's shape.  Not answered (`none`) in the equal-count region,
where `broadcast_to` reshapes instead of stretching — the generator never emits such a giant case. -/
def stretchTo? (sb sa : List Nat) : Option String :=
  if sb.prod == sa.prod && sb != sa then none else some (showShapeRes (broadcastShape sb sa) (some sa))

/-- one giant call: result shape or refusal.  Zero-length axes are not answered (never generated at this size). -/
def handleG (op : String) (args : List String) : Option String :=
  match op, args with
  | "clip", [_pat, _ty, a, lo, hi, _fa, _fl, _fh] => do
    let sa ← parseNatList? a; let sl ← parseNatList? lo; let sh ← parseNatList? hi
    if (sa ++ sl ++ sh).any (· == 0) then none
    let rl ← stretchTo? sl sa; let rh ← stretchTo? sh sa
    some (if rl.startsWith "err" then rl else rh)
  | _, [pat, _ty, a, b, _fa, fb] => do
    let p ← Pattern.ofString pat
    let sa ← parseNatList? a; let sb ← parseNatList? b
    if (sa ++ sb).any (· == 0) then none
    match p with
    | .G | .GM => if fillHasZero fb then some "err ParameterError" else some (showShapeRes (broadcastShape sa sb) none)
    | .B | .IB => some (showShapeRes (broadcastShape sa sb) none)
    | .R | .RA => stretchTo? sb sa
  | _, _ => none

/-- the token list cut at every separator token -/
def splitTok (sep : String) : List String → List (List String)
  | [] => [[]]
  | x :: xs =>
    match splitTok sep xs with
    | [] => [[x]]
    | g :: gs => if x == sep then [] :: g :: gs else (x :: g) :: gs

/-- `seq call / call / …`: several calls executed one after the other on the same thread (hidden-state streams of the harness);
the answer is the list of the single answers -/
def handle (op : String) (args : List String) : Option String :=
  match op with
  | "seq" => do
    let answers ← (splitTok "/" args).mapM (fun p => match p with | o :: as => handle1 o as | [] => none)
    some (" / ".intercalate answers)
  | "g" => match args with | o :: as => handleG o as | [] => none
  | "oracle_report" => some "ok report"
  | _ => handle1 op args

end Driver.C04

def main : IO Unit := Driver.runDriver Driver.C04.handle
