import ArrModel.Basic
/-!
# Driver.Proto — line protocol helpers (parsing and canonical printing)

One case per line: `op arg arg …` (single spaces).  Argument spellings:
* natural / integer: `12`, `-3`
* list: `1,2,3`; the empty list is `-`
* integer array: `2,3:0,1,2,3,4,5` (shape `:` elements); `i2,3` is the tag array of that shape
  with elements `0..n-1`; `i2,3+1000` the same with an offset
* optional: `none` or the value
Answers: `ok <value>` | `err <Variant>` | `panic`.
-/
namespace Driver
open ArrModel

def parseInt? (s : String) : Option Int := s.toInt?
def parseNat? (s : String) : Option Nat := s.toNat?

def parseList? {α} (f : String → Option α) (s : String) : Option (List α) :=
  if s == "-" then some [] else (s.splitOn ",").mapM f

def parseNatList? := parseList? parseNat?
def parseIntList? := parseList? parseInt?

def parseOpt? {α} (f : String → Option α) (s : String) : Option (Option α) :=
  if s == "none" then some none else (f s).map some

def parseArr? (s : String) : Option (Arr Int) :=
  if s.startsWith "i" then
    let body := (s.drop 1).toString
    match body.splitOn "+" with
    | [sh] => do
      let shape ← parseNatList? sh
      some ⟨(List.range shape.prod).map Int.ofNat, shape⟩
    | [sh, off] => do
      let shape ← parseNatList? sh
      let o ← parseInt? off
      some ⟨(List.range shape.prod).map (fun i => Int.ofNat i + o), shape⟩
    | _ => none
  else
    match s.splitOn ":" with
    | [sh, el] => do
      let shape ← parseNatList? sh
      let elems ← parseIntList? el
      some ⟨elems, shape⟩
    | _ => none

def parseArrList? (s : String) : Option (List (Arr Int)) :=
  if s == "-" then some [] else (s.splitOn ";").mapM parseArr?

def showList {α} (f : α → String) (l : List α) : String :=
  if l.isEmpty then "-" else ",".intercalate (l.map f)

def showNatList (l : List Nat) : String := showList toString l
def showIntList (l : List Int) : String := showList toString l

def showArr (a : Arr Int) : String := showNatList a.shape ++ ":" ++ showIntList a.elems
def showArrList (l : List (Arr Int)) : String :=
  if l.isEmpty then "-" else ";".intercalate (l.map showArr)

def showRes {α} (f : α → String) : Res α → String
  | .ok a => "ok " ++ f a
  | .err e => "err " ++ e.name
  | .panic => "panic"

def showBool (b : Bool) : String := if b then "true" else "false"


/-- one answer per case line; `Cxx.op args…`; unknown ops answer `bad-op` (never a default value) -/
def dispatchWith (handle : String → List String → Option String) (line : String) : String :=
  match line.trimAscii.toString.splitOn " " with
  | [] => "bad-op"
  | full :: args =>
    let op := match full.splitOn "." with
      | [_, op] => op
      | _ => full
    (handle op args).getD "bad-op"

partial def loop (handle : String → List String → Option String) (hin hout : IO.FS.Stream) : IO Unit := do
  let line ← hin.getLine
  if line.isEmpty then return ()
  hout.putStrLn (dispatchWith handle line)
  loop handle hin hout

def runDriver (handle : String → List String → Option String) : IO Unit := do
  let hin ← IO.getStdin
  let hout ← IO.getStdout
  loop handle hin hout
  hout.flush

end Driver
