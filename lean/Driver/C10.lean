import ArrModel.C10
import Driver.Proto
namespace Driver.C10
open ArrModel ArrModel.Sort Driver

def hexVal (c : Char) : Option Nat :=
  if '0' ≤ c ∧ c ≤ '9' then some (c.toNat - '0'.toNat)
  else if 'a' ≤ c ∧ c ≤ 'f' then some (c.toNat - 'a'.toNat + 10)
  else none

/-- `-` is the empty text, otherwise two hex digits per (ASCII) byte -/
def unhex? (s : String) : Option (List Char) :=
  if s == "-" then some []
  else
    let rec go : List Char → Option (List Char)
      | [] => some []
      | [_] => none
      | h :: l :: rest => do
        let a ← hexVal h; let b ← hexVal l
        let tl ← go rest
        some (Char.ofNat (a * 16 + b) :: tl)
    go s.toList

def parseKindName? (s : String) : Option SortKind :=
  match s with
  | "Quicksort" => some .Quicksort
  | "Mergesort" => some .Mergesort
  | "Heapsort" => some .Heapsort
  | "Stable" => some .Stable
  | _ => none

/-- `none` | `e:<Variant>` | `s:<hex>` (&str) | `o:<hex>` (String) -/
def parseKindArg? (s : String) : Option KindArg :=
  if s == "none" then some .none
  else match s.splitOn ":" with
    | ["e", k] => (parseKindName? k).map .enum
    | ["s", h] => (unhex? h).map .str
    | ["o", h] => (unhex? h).map .str
    | _ => none

def parseKeep? (s : String) : Option (Option Bool) :=
  match s with
  | "none" => some none
  | "true" => some (some true)
  | "false" => some (some false)
  | _ => none

/-- float lane literal: integers or `n` (NaN) -/
def parseFArr? (s : String) : Option (Arr (Option Int)) :=
  match s.splitOn ":" with
  | [sh, el] => do
    let shape ← parseNatList? sh
    let elems ← parseList? (fun t => if t == "n" then some none else (parseInt? t).map some) el
    some ⟨elems, shape⟩
  | _ => none

def showNatArr (a : Arr Nat) : String := showNatList a.shape ++ ":" ++ showNatList a.elems

/-! ### typed ops (`tsort`, `targsort`, `tunique`, `targmax`, `targmin`): first argument `<ty>:<rc>`.
`ty` ∈ i64 | u8 | i8 | str : the lane is an integer array, the harness maps the integers order-preservingly into that
element type, the model runs on `Cmp.int`.  `ty` = f64 : float-token lane, the model runs on `Cmp.f64` over *keys*
(`Option Int`): integer `k` ↦ 2k, `z` (= -0.0) ↦ 0 (the same value as 0.0), `e` / `-e` (smallest subnormal) ↦ ±1,
`I` / `-I` (±inf) ↦ ±2^70, `n` (NaN) ↦ none.  `rc` (p | r | b) only selects the receiver on the Rust side. -/

def inf70 : Int := 1180591620717411303424   -- 2^70

def parseFTok? (t : String) : Option (Option Int) :=
  match t with
  | "n" => some none
  | "z" => some (some 0)
  | "e" => some (some 1)
  | "-e" => some (some (-1))
  | "I" => some (some inf70)
  | "-I" => some (some (-inf70))
  | _ => (parseInt? t).map (fun k => some (2 * k))

def parseKArr? (s : String) : Option (Arr (Option Int)) :=
  match s.splitOn ":" with
  | [sh, el] => do
    let shape ← parseNatList? sh
    let elems ← parseList? parseFTok? el
    some ⟨elems, shape⟩
  | _ => none

def showFTok : Option Int → String
  | none => "n"
  | some k =>
    if k == 1 then "e" else if k == -1 then "-e"
    else if k == inf70 then "I" else if k == -inf70 then "-I"
    else toString (k / 2)

def showKArr (a : Arr (Option Int)) : String := showNatList a.shape ++ ":" ++ showList showFTok a.elems

/-- `<ty>:<rc>` ↦ is the lane a float-token lane? -/
def parseTy? (s : String) : Option Bool :=
  match s.splitOn ":" with
  | [ty, rc] =>
    if rc == "p" || rc == "r" || rc == "b" then
      if ty == "f64" then some true
      else if ty == "i64" || ty == "u8" || ty == "i8" || ty == "str" then some false
      -- part 3: the element-layout ladder `L<bytes>[s]` (tuples / nested tuples of 3 … 72 bytes) and `sl<k>` (Strings sharing a stem
      -- of k bytes): the harness maps the integer tags strictly monotonically into those types, the model runs on the tags
      else if (ty.startsWith "L" || ty.startsWith "sl") && ty.length ≤ 8 then some false
      else none
    else none
  | _ => none

def handleTyped (op : String) (args : List String) : Option String :=
  match op, args with
  | "tsort", [ty, a, ax, k] => do
    let fl ← parseTy? ty; let ax ← parseOpt? parseInt? ax; let k ← parseKindArg? k
    if fl then do let a ← parseKArr? a; some (showRes showKArr (Sort.sort Cmp.f64 (some 0) a ax k))
    else do let a ← parseArr? a; some (showRes showArr (Sort.sort Cmp.int 0 a ax k))
  | "targsort", [ty, a, ax, k] => do
    let fl ← parseTy? ty; let ax ← parseOpt? parseInt? ax; let k ← parseKindArg? k
    if fl then do let a ← parseKArr? a; some (showRes showNatArr (Sort.argsort Cmp.f64 (some 0) a ax k))
    else do let a ← parseArr? a; some (showRes showNatArr (Sort.argsort Cmp.int 0 a ax k))
  | "tunique", [ty, a, ax] => do
    let fl ← parseTy? ty; let ax ← parseOpt? parseInt? ax
    if fl then do let a ← parseKArr? a; some (showRes showKArr (Sort.unique Cmp.f64 (some 0) a ax))
    else do let a ← parseArr? a; some (showRes showArr (Sort.unique Cmp.int 0 a ax))
  | "targmax", [ty, a, ax, kd] => do
    let fl ← parseTy? ty; let ax ← parseOpt? parseInt? ax; let kd ← parseKeep? kd
    if fl then do let a ← parseKArr? a; some (showRes showNatArr (Sort.argExtreme Cmp.f64 (some 0) true a ax kd))
    else do let a ← parseArr? a; some (showRes showNatArr (Sort.argExtreme Cmp.int 0 true a ax kd))
  | "targmin", [ty, a, ax, kd] => do
    let fl ← parseTy? ty; let ax ← parseOpt? parseInt? ax; let kd ← parseKeep? kd
    if fl then do let a ← parseKArr? a; some (showRes showNatArr (Sort.argExtreme Cmp.f64 (some 0) false a ax kd))
    else do let a ← parseArr? a; some (showRes showNatArr (Sort.argExtreme Cmp.int 0 false a ax kd))
  | _, _ => none

/-- typed case lines that end in `ref` are beyond the reach of the list-backed model (16 384 … 140 000 elements, or an axis
sweep the quadratic `applyAlongAxis` would need minutes for): the driver does not answer them, it says `ref`, and the harness
judges the real result against its native reference (lane membership by coordinate arithmetic + the standard library's stable
sort / first extreme), which the harness compares with the answers of THIS model on every other case of the same run
(`refstats` reports how many).  The array token is not even parsed here (it may be a generator spelling). -/
def isRefLine (op : String) (args : List String) : Bool :=
  args.getLast? == some "ref" && ["tsort", "targsort", "targmax", "targmin"].contains op && args.length == 5

def handle (op : String) (args : List String) : Option String :=
  if op == "refstats" then some "ref" else
  if isRefLine op args then some "ref" else
  match op, args with
  | "sort", [a, ax, k] => do
    let a ← parseArr? a; let ax ← parseOpt? parseInt? ax; let k ← parseKindArg? k
    some (showRes showArr (Sort.sort Cmp.int 0 a ax k))
  | "argsort", [a, ax, k] => do
    let a ← parseArr? a; let ax ← parseOpt? parseInt? ax; let k ← parseKindArg? k
    some (showRes showNatArr (Sort.argsort Cmp.int 0 a ax k))
  | "unique", [a, ax] => do
    let a ← parseArr? a; let ax ← parseOpt? parseInt? ax
    some (showRes showArr (Sort.unique Cmp.int 0 a ax))
  | "argmax", [a, ax, kd] => do
    let a ← parseArr? a; let ax ← parseOpt? parseInt? ax; let kd ← parseKeep? kd
    some (showRes showNatArr (Sort.argExtreme Cmp.int 0 true a ax kd))
  | "argmin", [a, ax, kd] => do
    let a ← parseArr? a; let ax ← parseOpt? parseInt? ax; let kd ← parseKeep? kd
    some (showRes showNatArr (Sort.argExtreme Cmp.int 0 false a ax kd))
  | "argmax_f", [a, ax, kd] => do
    let a ← parseFArr? a; let ax ← parseOpt? parseInt? ax; let kd ← parseKeep? kd
    some (showRes showNatArr (Sort.argExtreme Cmp.f64 (some 0) true a ax kd))
  | "argmin_f", [a, ax, kd] => do
    let a ← parseFArr? a; let ax ← parseOpt? parseInt? ax; let kd ← parseKeep? kd
    some (showRes showNatArr (Sort.argExtreme Cmp.f64 (some 0) false a ax kd))
  | _, _ => handleTyped op args

end Driver.C10

/-- The answers are pure functions of the case lines, so the lines are answered in parallel (blocks of 48 lines, one task each, on the
runtime's thread pool) and printed in the order of the input: the same text as `Driver.runDriver Driver.C10.handle` produces, in a
fraction of the wall time (the list-backed model needs tens of seconds for the ~180 000 lines of a quick run on one core). -/
partial def readLines (hin : IO.FS.Stream) (acc : Array String) : IO (Array String) := do
  let line ← hin.getLine
  if line.isEmpty then return acc else readLines hin (acc.push line)

def main : IO Unit := do
  let hin ← IO.getStdin
  let hout ← IO.getStdout
  let lines ← readLines hin #[]
  let block := 48
  let mut tasks : Array (Task (Array String)) := #[]
  let mut i := 0
  while i < lines.size do
    let part := lines.extract i (i + block)
    tasks := tasks.push (Task.spawn fun _ => part.map (Driver.dispatchWith Driver.C10.handle))
    i := i + block
  for t in tasks do
    for s in t.get do hout.putStrLn s
  hout.flush
