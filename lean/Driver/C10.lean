import ArrModel.C10
import Driver.Proto
namespace Driver.C10
open ArrModel ArrModel.Sort Driver

def hexVal (c : Char) : Option Nat :=
  if '0' ≤ c ∧ c ≤ '9' then some (c.toNat - '0'.toNat)
  else if 'a' ≤ c ∧ c ≤ 'f' then some (c.toNat - 'a'.toNat + 10)
  else none

/-- `-` is the empty text, otherwise two hex digits per (ASCII) byte -/
def unhex? (s : String) : Option (List Char) :=
  if s == "-" then some []
  else
    let rec go : List Char → Option (List Char)
      | [] => some []
      | [_] => none
      | h :: l :: rest => do
        let a ← hexVal h; let b ← hexVal l
        let tl ← go rest
        some (Char.ofNat (a * 16 + b) :: tl)
    go s.toList

def parseKindName? (s : String) : Option SortKind :=
  match s with
  | "Quicksort" => some .Quicksort
  | "Mergesort" => some .Mergesort
  | "Heapsort" => some .Heapsort
  | "Stable" => some .Stable
  | _ => none

/-- `none` | `e:<Variant>` | `s:<hex>` (&str) | `o:<hex>` (String) -/
def parseKindArg? (s : String) : Option KindArg :=
  if s == "none" then some .none
  else match s.splitOn ":" with
    | ["e", k] => (parseKindName? k).map .enum
    | ["s", h] => (unhex? h).map .str
    | ["o", h] => (unhex? h).map .str
    | _ => none

def parseKeep? (s : String) : Option (Option Bool) :=
  match s with
  | "none" => some none
  | "true" => some (some true)
  | "false" => some (some false)
  | _ => none

/-- float lane literal: integers or `n` (NaN) -/
def parseFArr? (s : String) : Option (Arr (Option Int)) :=
  match s.splitOn ":" with
  | [sh, el] => do
    let shape ← parseNatList? sh
    let elems ← parseList? (fun t => if t == "n" then some none else (parseInt? t).map some) el
    some ⟨elems, shape⟩
  | _ => none

def showNatArr (a : Arr Nat) : String := showNatList a.shape ++ ":" ++ showNatList a.elems

def handle (op : String) (args : List String) : Option String :=
  match op, args with
  | "sort", [a, ax, k] => do
    let a ← parseArr? a; let ax ← parseOpt? parseInt? ax; let k ← parseKindArg? k
    some (showRes showArr (Sort.sort Cmp.int 0 a ax k))
  | "argsort", [a, ax, k] => do
    let a ← parseArr? a; let ax ← parseOpt? parseInt? ax; let k ← parseKindArg? k
    some (showRes showNatArr (Sort.argsort Cmp.int 0 a ax k))
  | "unique", [a, ax] => do
    let a ← parseArr? a; let ax ← parseOpt? parseInt? ax
    some (showRes showArr (Sort.unique Cmp.int 0 a ax))
  | "argmax", [a, ax, kd] => do
    let a ← parseArr? a; let ax ← parseOpt? parseInt? ax; let kd ← parseKeep? kd
    some (showRes showNatArr (Sort.argExtreme Cmp.int 0 true a ax kd))
  | "argmin", [a, ax, kd] => do
    let a ← parseArr? a; let ax ← parseOpt? parseInt? ax; let kd ← parseKeep? kd
    some (showRes showNatArr (Sort.argExtreme Cmp.int 0 false a ax kd))
  | "argmax_f", [a, ax, kd] => do
    let a ← parseFArr? a; let ax ← parseOpt? parseInt? ax; let kd ← parseKeep? kd
    some (showRes showNatArr (Sort.argExtreme Cmp.f64 (some 0) true a ax kd))
  | "argmin_f", [a, ax, kd] => do
    let a ← parseFArr? a; let ax ← parseOpt? parseInt? ax; let kd ← parseKeep? kd
    some (showRes showNatArr (Sort.argExtreme Cmp.f64 (some 0) false a ax kd))
  | _, _ => none

end Driver.C10

def main : IO Unit := Driver.runDriver Driver.C10.handle
