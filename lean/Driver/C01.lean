import ArrModel.C01
import Driver.Proto
/-!
# Driver.C01 — runs the store machine `ArrModel.C01.run` on a chain

One case line = one chain: `C01.<label> <step> <step> …`; a step is `name|arg|arg…` (fields starting with `#` are
information for the Rust side only and are dropped).  Array arguments are store positions `@3`; the list-taking
operations take `@1,2,3` (positions) or `@L5` (all members of the list stored at 5).  A step named `s.<op>` is a string-array operation; a step named `u.<op>` is an
unmodelled call: its last field `=A2,3` / `=L2,3/2,3` / `=N` / `=G16777217` (giant: not stored) is what the real call returned when the chain was generated.
Answer: `ok r0;r1;…` with one record per step: `A<shape>` | `L<shape>/<shape>…` | `E` | `P` | `S`(kipped) | `X`(extern).
A step whose last field is `v` (emitted for `ediff1d` / `diff` / `insert_axis` / `convolve` on chains whose real values are the
model's tag values) is answered with the element VALUES as well: `A<shape>:<v0>,<v1>,…`.
-/
namespace Driver.C01
open ArrModel ArrModel.C01 Driver

def ref? (s : String) : Option Nat := if s.startsWith "@" then (s.drop 1).toString.toNat? else none
def refs? (s : String) : Option Refs :=
  if s.startsWith "@L" then ((s.drop 2).toString.toNat?).map Refs.lst
  else if s == "@" then some (.idxs [])
  else if s.startsWith "@" then (parseNatList? (s.drop 1).toString).map Refs.idxs
  else none
def optNat? := parseOpt? parseNat?
def optInt? := parseOpt? parseInt?
def optInts? := parseOpt? parseIntList?
def bool? (s : String) : Option Bool := match s with | "true" => some true | "false" => some false | _ => none
def optBool? := parseOpt? bool?
def kind? (s : String) : Option Sort.KindArg :=
  if s == "none" then some .none
  else if s.startsWith "e:" then
    match (s.drop 2).toString with
    | "Quicksort" => some (.enum .Quicksort) | "Mergesort" => some (.enum .Mergesort)
    | "Heapsort" => some (.enum .Heapsort) | "Stable" => some (.enum .Stable) | _ => none
  else if s.startsWith "s:" then some (.str (s.drop 2).toString.toList)
  else none
def lane? (s : String) : Option LaneFn :=
  if s == "id" then some .ident else if s == "rev" then some .rev
  -- `alt`: a lane closure with memory that reverses every other lane (each lane keeps its length, like `rev`)
  else if s == "alt" then some .rev
  else if s.startsWith "ct" then ((s.drop 2).toString.toNat?).map LaneFn.take else none
def shape? (s : String) : Option (List Nat) := parseNatList? s
def ext? (s : String) : Option Ext :=
  if s == "=N" then some .none
  -- `=G<shape>`: an array of more than 2^22 elements was returned; the store keeps no entry for it (no list of that length is built)
  else if s.startsWith "=G" then some .none
  else if s.startsWith "=A" then (shape? (s.drop 2).toString).map Ext.arr
  else if s == "=L" then some (.list [])
  else if s.startsWith "=L" then (((s.drop 2).toString.splitOn "/").mapM shape?).map Ext.list
  else none

def foldOps := ["sum", "prod", "nansum", "nanprod", "nanmax", "nanmin"]
def extremeOps := ["max", "min", "amax", "amin"]
def scanOps := ["cumsum", "cumprod", "nancumsum", "nancumprod"]
/-- one-operand math: `self.map(|x| …)` -/
def unaryOps := ["reciprocal", "positive", "negative", "exp", "exp2", "exp_m1", "log2", "log10", "log_1p",
  "sinh", "cosh", "tanh", "asinh", "acosh", "atanh", "sqrt", "cbrt", "square", "absolute", "abs", "fabs", "sign",
  "nan_to_num", "fix", "trunc", "floor", "ceil", "i0", "sinc", "sin", "cos", "tan", "asin", "acos", "atan",
  "degrees", "rad2deg", "radians", "deg2rad", "signbit", "spacing", "bitwise_not", "invert"]
/-- two-operand math: name ↦ lifting pattern (the table of `harness/src/bin/c04.rs`) -/
def binaryOps : List (String × BinPat) := [
  ("add", .B), ("subtract", .B), ("multiply", .B), ("power", .B), ("float_power", .B), ("logn", .B),
  ("log_add_exp", .B), ("log_add_exp2", .B), ("atan2", .B), ("hypot", .B),
  ("divide", .G), ("true_divide", .G), ("fmod", .G), ("remainder", .G), ("mod", .G), ("floor_divide", .GM),
  ("bitwise_and", .IB), ("bitwise_or", .IB), ("bitwise_xor", .IB), ("left_shift", .IB), ("right_shift", .IB),
  ("maximum", .R), ("minimum", .R), ("fmax", .R), ("fmin", .R), ("heaviside", .R), ("copysign", .R), ("nextafter", .R),
  ("ldexp", .R), ("gcd", .RA), ("lcm", .RA)]
def operatorOps : List (String × OpKind) :=
  (["add", "sub", "mul", "div", "rem"].flatMap fun o =>
    [("op_" ++ o, OpKind.binop), ("op_" ++ o ++ "_s", .scalarop), ("op_" ++ o ++ "_assign", .assignop), ("op_" ++ o ++ "_assign_s", .assignScalar)]) ++
  (["bitand", "bitor", "bitxor"].flatMap fun o =>
    [("op_" ++ o, OpKind.bitop), ("op_" ++ o ++ "_s", .bitScalar), ("op_" ++ o ++ "_assign", .bitAssign), ("op_" ++ o ++ "_assign_s", .bitAssignScalar)]) ++
  [("op_neg", .unop), ("op_not", .unop)]

/-- one-operand string operations (`lift1`) -/
def strUnaryOps := ["capitalize", "lower", "upper", "swapcase", "translate", "str_len", "is_alpha", "is_alnum", "is_decimal",
  "is_numeric", "is_digit", "is_space", "is_lower", "is_upper"]
/-- two-string operations (`lift2`) -/
def strBinaryOps := ["add", "join", "partition", "rpartition", "equal", "not_equal", "greater_equal", "less_equal", "greater",
  "less", "count", "starts_with", "ends_with", "find", "rfind", "index", "rindex", "lstrip", "rstrip"]
def optRef? (s : String) : Option (Option Nat) := if s == "none" then some none else (ref? s).map some

/-- the string-array steps `s.<name>` (the prefix keeps them apart from the numeric `add`, `multiply`, `equal`, … ) -/
def parseStrStep (name : String) (args : List String) : Option Op :=
  match name, args with
  | "strip", [a, c] => do some (.strStrip (← ref? a) (← ref? c))
  | "compare", [a, b, o] => do
    some (.strCompare (← ref? a) (← ref? b) (if o.startsWith "o:" then (o.drop 2).toString.toList else o.toList))
  | "multiply", [a, n] => do some (.strMultiply (← ref? a) (← ref? n))
  | "splitlines", [a, k] => do some (.strSplitlines (← ref? a) (← optBool? k))
  | "split", [a, sp, m] => do some (.strSplit (← ref? a) (← optRef? sp) (← optNat? m))
  | "rsplit", [a, sp, m] => do some (.strSplit (← ref? a) (← optRef? sp) (← optNat? m))
  | "replace", [a, o, n, c] => do some (.strReplace (← ref? a) (← ref? o) (← ref? n) (← optNat? c))
  | nm, [a, w, f] =>
    if ["center", "ljust", "rjust"].contains nm then do some (.strPad (← ref? a) (← ref? w) (f != "none")) else none
  | nm, [a, b] => if strBinaryOps.contains nm then do some (.strBinary (← ref? a) (← ref? b)) else none
  | nm, [a] => if strUnaryOps.contains nm then do some (.strUnary (← ref? a)) else none
  | _, _ => none

def parseStep (name : String) (args : List String) : Option Op :=
  if name.startsWith "u." then (args.getLast?).bind ext? |>.map Op.extern else
  if name.startsWith "s." then parseStrStep (name.drop 2).toString args else
  match name, args with
  | "ediff1d", [a, e, b] => do some (.ediff1d (← ref? a) (← optRef? e) (← optRef? b))
  | "diff", [a, n, ax, p, q] => do some (.diff (← ref? a) (← parseNat? n) (← optInt? ax) (← optRef? p) (← optRef? q))
  | "insert_axis", [a, ix, v, ax] => do some (.insertAxis (← ref? a) (← parseNatList? ix) (← ref? v) (← parseNat? ax))
  | "convolve", [a, b, m] => do some (.convolve (← ref? a) (← ref? b) (if m == "none" then none else some m.toList))
  | "modf", [a] => do some (.modf (← ref? a))
  | "divmod", [a] => do some (.divmod (← ref? a))
  | "frexp", [a] => do some (.frexp (← ref? a))
  | "slice", [a, lo, hi] => do some (.slice (← ref? a) (← parseNat? lo) (← parseNat? hi))
  | "indices_at", [a, ix] => do some (.indicesAt (← ref? a) (← parseNatList? ix))
  | "filter_map", [a] => do some (.filterMapNonzero (← ref? a))
  | "clip0", [a] => do some (.clipOpt (← ref? a) none none)
  | "clip1", [a, lo] => do some (.clipOpt (← ref? a) (some (← ref? lo)) none)
  | "clip2", [a, hi] => do some (.clipOpt (← ref? a) none (some (← ref? hi)))
  | "new", [n, off, sh] => do some (.new (← parseNat? n) (← parseInt? off) (← shape? sh))
  | "create", [n, sh, nd] => do some (.create (← parseNat? n) (← shape? sh) (← optNat? nd))
  | "single", [] => some .single
  | "flat", [n] => do some (.flat (← parseNat? n))
  | "empty", [] => some .empty
  | "zeros", [sh] => do some (.zeros (← shape? sh))
  | "ones", [sh] => do some (.ones (← shape? sh))
  | "full", [sh] => do some (.full (← shape? sh))
  | "rand", [sh] => do some (.rand (← shape? sh))
  | "zeros_like", [a] => do some (.zerosLike (← ref? a))
  | "ones_like", [a] => do some (.onesLike (← ref? a))
  | "full_like", [a] => do some (.fullLike (← ref? a))
  | "eye", [n, m, k] => do some (.eye (← parseNat? n) (← optNat? m) (← optNat? k))
  | "identity", [n] => do some (.identity (← parseNat? n))
  | "tri", [n, m, k] => do some (.tri (← parseNat? n) (← optNat? m) (← optInt? k))
  | "arange", [a, b, c] => do some (.arange (← parseInt? a) (← parseInt? b) (← optInt? c))
  | "linspace", [a, b, n, e] => do some (.linspace (← parseInt? a) (← parseInt? b) (← optNat? n) (← optBool? e))
  | "diag", [a, k] => do some (.diag (← ref? a) (← optInt? k))
  | "diagflat", [a, k] => do some (.diagflat (← ref? a) (← optInt? k))
  | "tril", [a, k] => do some (.tril (← ref? a) (← optInt? k))
  | "triu", [a, k] => do some (.triu (← ref? a) (← optInt? k))
  | "vander", [a, n, i] => do some (.vander (← ref? a) (← optNat? n) (← optBool? i))
  | "transpose", [a, ax] => do some (.transpose (← ref? a) (← optInts? ax))
  | "moveaxis", [a, s, d] => do some (.moveaxis (← ref? a) (← parseIntList? s) (← parseIntList? d))
  | "rollaxis", [a, ax, st] => do some (.rollaxis (← ref? a) (← parseInt? ax) (← optInt? st))
  | "swapaxes", [a, i, j] => do some (.swapaxes (← ref? a) (← parseInt? i) (← parseInt? j))
  | "expand_dims", [a, ax] => do some (.expandDims (← ref? a) (← parseIntList? ax))
  | "squeeze", [a, ax] => do some (.squeeze (← ref? a) (← optInts? ax))
  | "reshape", [a, sh] => do some (.reshape (← ref? a) (← shape? sh))
  | "resize", [a, sh] => do some (.resize (← ref? a) (← shape? sh))
  | "ravel", [a] => do some (.ravel (← ref? a))
  | "atleast", [a, n] => do some (.atleast (← ref? a) (← parseNat? n))
  | "cycle_take", [a, n] => do some (.cycleTake (← ref? a) (← parseNat? n))
  | "apply_along_axis", [a, ax, f] => do some (.applyAlongAxis (← ref? a) (← parseNat? ax) (← lane? f))
  | "broadcast_to", [a, sh] => do some (.broadcastTo (← ref? a) (← shape? sh))
  | "broadcast", [a, b] => do some (.broadcast (← ref? a) (← ref? b))
  | "broadcast_arrays", [r] => do some (.broadcastArrays (← refs? r))
  | "zip", [a, b] => do some (.zip (← ref? a) (← ref? b))
  | "array_split", [a, p, ax] => do some (.arraySplit (← ref? a) (← parseNat? p) (← optNat? ax))
  | "split", [a, p, ax] => do some (.split (← ref? a) (← parseNat? p) (← optNat? ax))
  | "split_axis", [a, ax] => do some (.splitAxis (← ref? a) (← parseNat? ax))
  | "hsplit", [a, p] => do some (.hsplit (← ref? a) (← parseNat? p))
  | "vsplit", [a, p] => do some (.vsplit (← ref? a) (← parseNat? p))
  | "dsplit", [a, p] => do some (.dsplit (← ref? a) (← parseNat? p))
  | "member", [l, j] => do some (.member (← ref? l) (← parseNat? j))
  | "concatenate", [r, ax] => do some (.concatenate (← refs? r) (← optNat? ax))
  | "stack", [r, ax] => do some (.stack (← refs? r) (← optNat? ax))
  | "vstack", [r] => do some (.vstack (← refs? r))
  | "hstack", [r] => do some (.hstack (← refs? r))
  | "dstack", [r] => do some (.dstack (← refs? r))
  | "column_stack", [r] => do some (.columnStack (← refs? r))
  | "row_stack", [r] => do some (.rowStack (← refs? r))
  | "flip", [a, ax] => do some (.flip (← ref? a) (← optInts? ax))
  | "flipud", [a] => do some (.flipud (← ref? a))
  | "fliplr", [a] => do some (.fliplr (← ref? a))
  | "roll", [a, sh, ax] => do some (.roll (← ref? a) (← parseIntList? sh) (← optInts? ax))
  | "rot90", [a, k, ax] => do some (.rot90 (← ref? a) (← parseNat? k) (← parseIntList? ax))
  | "delete", [a, ix, ax] => do some (.delete (← ref? a) (← parseNatList? ix) (← optNat? ax))
  | "insert", [a, ix, v] => do some (.insertFlat (← ref? a) (← parseNatList? ix) (← ref? v))
  | "append", [a, v, ax] => do some (.append (← ref? a) (← ref? v) (← optNat? ax))
  | "repeat", [a, r, "none"] => do some (.repeatFlat (← ref? a) (← parseNatList? r))
  | "repeat", [a, r, ax] => do some (.repeatAxis (← ref? a) (← parseNatList? r) (← parseNat? ax))
  | "trim_zeros", [a] => do some (.trimZeros (← ref? a))
  | "map", [a] => do some (.map (← ref? a))
  | "map_e", [a] => do some (.mapE (← ref? a))
  | "filter_e", [a, m, t] => do some (.filterE (← ref? a) (← parseNat? m) (← parseNat? t))
  | "filter_map_e", [a, m, t] => do some (.filterMapE (← ref? a) (← parseNat? m) (← parseNat? t))
  | "filter", [a] => do some (.filterNonzero (← ref? a))
  -- robustness streams part 5: the spellings with a last field `cnt` hand the real operation a COUNTING closure (`FnMut`; its answer is
  -- `k % m < t` at its k-th call, whatever index or element it is offered).  The models call the closure once per element in flat
  -- order (`Iter.filterIdxM` / `filterMapIdxM` / `traverseIdx`), where call number = index: the counting closure IS the pure
  -- closure `fun i _ => i % m < t` of the plain spelling, for `filter` / `filter_map` (no index passed) as well.
  | "filter_e", [a, m, t, "cnt"] => do some (.filterE (← ref? a) (← parseNat? m) (← parseNat? t))
  | "filter", [a, m, t, "cnt"] => do some (.filterE (← ref? a) (← parseNat? m) (← parseNat? t))
  | "filter_map_e", [a, m, t, "cnt"] => do some (.filterMapE (← ref? a) (← parseNat? m) (← parseNat? t))
  | "filter_map", [a, m, t, "cnt"] => do some (.filterMapE (← ref? a) (← parseNat? m) (← parseNat? t))
  | "map", [a, "cnt"] => do some (.map (← ref? a))
  | "map_e", [a, "cnt"] => do some (.mapE (← ref? a))
  | "count_nonzero", [a, ax, kd] => do some (.countNonzero (← ref? a) (← optInt? ax) (← optBool? kd))
  | "argmax", [a, ax, kd] => do some (.argExtreme (← ref? a) true (← optInt? ax) (← optBool? kd))
  | "argmin", [a, ax, kd] => do some (.argExtreme (← ref? a) false (← optInt? ax) (← optBool? kd))
  | "sort", [a, ax, k] => do some (.sort (← ref? a) (← optInt? ax) (← kind? k))
  | "argsort", [a, ax, k] => do some (.argsort (← ref? a) (← optInt? ax) (← kind? k))
  | "unique", [a, ax] => do some (.unique (← ref? a) (← optInt? ax))
  | "clip", [a, lo, hi] => do some (.clip (← ref? a) (← ref? lo) (← ref? hi))
  | "vdot", [a, b] => do some (.vdot (← ref? a) (← ref? b))
  | "outer", [a, b] => do some (.outer (← ref? a) (← ref? b))
  | "inner", [a, b] => do some (.inner (← ref? a) (← ref? b))
  | "matmul", [a, b] => do some (.matmul (← ref? a) (← ref? b))
  | "dot", [a, b] => do some (.dot (← ref? a) (← ref? b))
  | "unpack_bits", [a, ax, c, o] => do some (.unpackBits (← ref? a) (← optInt? ax) (← optInt? c) o.toList)
  | "pack_bits", [a, ax, o] => do some (.packBits (← ref? a) (← optInt? ax) o.toList)
  | "log", [a] => do some (.logE (← ref? a))
  | "rint", [a] => do some (.rint (← ref? a))
  | "round", [a, d] => do some (.round (← ref? a) (← ref? d))
  | "around", [a, d] => do some (.round (← ref? a) (← ref? d))
  | nm, [a, ax] =>
    if foldOps.contains nm then do some (.reduceFold (← ref? a) (← optInt? ax))
    else if extremeOps.contains nm then do some (.reduceExtreme (← ref? a) (← optInt? ax))
    else if scanOps.contains nm then do some (.scan (← ref? a) (← optInt? ax))
    else match binaryOps.lookup nm with
      | some p => do some (.binary p (← ref? a) (← ref? ax))
      | none => match operatorOps.lookup nm with
        | some k => do some (.operator k (← ref? a) (← ref? ax))
        | none => none
  | nm, [a] =>
    if unaryOps.contains nm then do some (.unary (← ref? a))
    else match operatorOps.lookup nm with
      | some k => do let i ← ref? a; some (.operator k i i)
      | none => none
  | _, _ => none

def showShape (a : A) : String := showNatList a.shape

def showVal (isExt : Bool) (vals : Bool := false) : Val → String
  | .arr a => (if isExt then "X" else "A") ++ showShape a ++ (if vals then ":" ++ showIntList a.elems else "")
  | .list l => (if isExt then "X" else "L") ++ "/".intercalate (l.map showShape)
  | .err _ => "E"
  | .panic => "P"
  | .skip => if isExt then "X" else "S"

def parseChain (steps : List String) : Option (List (Bool × Bool × Op)) :=
  steps.mapM fun st =>
    match (st.splitOn "|").filter (fun f => !f.startsWith "#") with
    | [] => none
    | name :: args =>
      let vals := !name.startsWith "u." && args.getLast? == some "v"
      (parseStep name (if vals then args.dropLast else args)).map fun op => (name.startsWith "u.", vals, op)

/-- `handle label steps` — the label (last operation of the chain) is only a statistic -/
def handle (_label : String) (steps : List String) : Option String := do
  let ops ← parseChain steps
  let store := run (ops.map (·.2.2))
  some ("ok " ++ ";".intercalate ((ops.zip store).map fun p => showVal p.1.1 p.1.2.1 p.2))

end Driver.C01

def main : IO Unit := Driver.runDriver Driver.C01.handle
