import ArrModel.C17Lift
import Driver.Proto
/-!
# Driver.C17 — line protocol for the string-array operations

Strings cross the boundary hex-encoded (two digits per byte, `.` = the empty string).
Arrays: `shape:e,e,…` with elements hex strings / naturals / hex bytes (char) / `0|1` (bool); optional arguments `none`.
Answers: `ok shape:e,e,…`; list elements `h|h|h` (`~` = no piece); triples `h|h|h`.
-/
namespace Driver.C17
open ArrModel ArrModel.C17 Driver

def hexVal (c : Char) : Option Nat :=
  if '0' ≤ c ∧ c ≤ '9' then some (c.toNat - 48)
  else if 'a' ≤ c ∧ c ≤ 'f' then some (c.toNat - 87)
  else none

def parseHexAux : List Char → List Char → Option (List Char)
  | [], acc => some acc.reverse
  | [_], _ => none
  | a :: b :: r, acc => do
    let x ← hexVal a; let y ← hexVal b
    parseHexAux r (Char.ofNat (16 * x + y) :: acc)

def parseStr? (s : String) : Option Str :=
  if s == "." then some [] else if s.isEmpty then none else parseHexAux s.toList []

def hexDigit (n : Nat) : Char := if n < 10 then Char.ofNat (48 + n) else Char.ofNat (87 + n)

def showStr (s : Str) : String :=
  if s.isEmpty then "." else String.ofList (s.foldr (fun c acc => hexDigit (c.toNat / 16) :: hexDigit (c.toNat % 16) :: acc) [])

def parseChar? (s : String) : Option Char :=
  match parseStr? s with
  | some [c] => some c
  | _ => none

def parseBool? (s : String) : Option Bool :=
  if s == "1" then some true else if s == "0" then some false else none

def parseArrOf? {α : Type} (f : String → Option α) (s : String) : Option (Arr α) :=
  match s.splitOn ":" with
  | [sh, el] => do
    let shape ← parseNatList? sh
    let elems ← parseList? f el
    some ⟨elems, shape⟩
  | _ => none

def parseSArr? := parseArrOf? parseStr?
def parseNArr? := parseArrOf? parseNat?
def parseCArr? := parseArrOf? parseChar?
def parseBArr? := parseArrOf? parseBool?

/-- translate table: `6177,6f64` = [('a','w'), ('o','d')]; `-` = empty -/
def parseTable? (s : String) : Option (List (Char × Char)) :=
  parseList? (fun t => match parseStr? t with | some [a, b] => some (a, b) | _ => none) s

def showArrOf {α : Type} (f : α → String) (a : Arr α) : String :=
  showNatList a.shape ++ ":" ++ ",".intercalate (a.elems.map f)

def showPieces (l : List Str) : String := if l.isEmpty then "~" else "|".intercalate (l.map showStr)
def showTriple (t : Str × Str × Str) : String := showStr t.1 ++ "|" ++ showStr t.2.1 ++ "|" ++ showStr t.2.2
def showB (b : Bool) : String := if b then "1" else "0"

def rS (r : Res SArr) : String := showRes (showArrOf showStr) r
def rB (r : Res (Arr Bool)) : String := showRes (showArrOf showB) r
def rN (r : Res (Arr Nat)) : String := showRes (showArrOf toString) r
def rI (r : Res (Arr Int)) : String := showRes (showArrOf toString) r
def rL (r : Res (Arr (List Str))) : String := showRes (showArrOf showPieces) r
def rT (r : Res (Arr (Str × Str × Str))) : String := showRes (showArrOf showTriple) r

def B := Bcast.std

def cmpOfName : String → Option CmpOp
  | "equal" => some .eq | "not_equal" => some .ne | "greater" => some .gt
  | "less" => some .lt | "greater_equal" => some .ge | "less_equal" => some .le
  | _ => none

def handleModel (op : String) (args : List String) : Option String :=
  match op, args with
  | "add", [a, b] => do let a ← parseSArr? a; let b ← parseSArr? b; some (rS (add B a b))
  | "multiply", [a, n] => do let a ← parseSArr? a; let n ← parseNArr? n; some (rS (multiplyA B a n))
  | "capitalize", [a] => do let a ← parseSArr? a; some (rS (capitalizeA a))
  | "lower", [a] => do let a ← parseSArr? a; some (rS (lowerA a))
  | "upper", [a] => do let a ← parseSArr? a; some (rS (upperA a))
  | "swapcase", [a] => do let a ← parseSArr? a; some (rS (swapcaseA a))
  | "center", [a, w, f] => do
    let a ← parseSArr? a; let w ← parseNArr? w; let f ← parseOpt? parseCArr? f; some (rS (centerA B a w f))
  | "ljust", [a, w, f] => do
    let a ← parseSArr? a; let w ← parseNArr? w; let f ← parseOpt? parseCArr? f; some (rS (ljustA B a w f))
  | "rjust", [a, w, f] => do
    let a ← parseSArr? a; let w ← parseNArr? w; let f ← parseOpt? parseCArr? f; some (rS (rjustA B a w f))
  | "zfill", [a, w] => do let a ← parseSArr? a; let w ← parseNat? w; some (rS (zfillA a w))
  | "translate", [a, t] => do let a ← parseSArr? a; let t ← parseTable? t; some (rS (translateA a t))
  | "join", [a, b] => do let a ← parseSArr? a; let b ← parseSArr? b; some (rS (joinA B a b))
  | "partition", [a, b] => do let a ← parseSArr? a; let b ← parseSArr? b; some (rT (partitionA B a b))
  | "rpartition", [a, b] => do let a ← parseSArr? a; let b ← parseSArr? b; some (rT (rpartitionA B a b))
  | "split", [a, s, m] => do
    let a ← parseSArr? a; let s ← parseOpt? parseSArr? s; let m ← parseOpt? parseNArr? m; some (rL (splitA B a s m))
  | "rsplit", [a, s, m] => do
    let a ← parseSArr? a; let s ← parseOpt? parseSArr? s; let m ← parseOpt? parseNArr? m; some (rL (rsplitA B a s m))
  | "splitlines", [a, k] => do
    let a ← parseSArr? a; let k ← parseOpt? parseBArr? k; some (rL (splitlinesA B a k))
  | "replace", [a, o, n, c] => do
    let a ← parseSArr? a; let o ← parseSArr? o; let n ← parseSArr? n; let c ← parseOpt? parseNat? c
    some (rS (replaceA B a o n c))
  | "strip", [a, c] => do let a ← parseSArr? a; let c ← parseOpt? parseSArr? c; some (rS (stripA B a c))
  | "lstrip", [a, c] => do let a ← parseSArr? a; let c ← parseOpt? parseSArr? c; some (rS (lstripA B a c))
  | "rstrip", [a, c] => do let a ← parseSArr? a; let c ← parseOpt? parseSArr? c; some (rS (rstripA B a c))
  | "compare", [a, b, o] => do
    let a ← parseSArr? a; let b ← parseSArr? b; let o ← parseStr? o; some (rB (compareA B a b o))
  | "str_len", [a] => do let a ← parseSArr? a; some (rN (strLenA a))
  | "count", [a, b] => do let a ← parseSArr? a; let b ← parseSArr? b; some (rN (countA B a b))
  | "starts_with", [a, b] => do let a ← parseSArr? a; let b ← parseSArr? b; some (rB (startsWithA B a b))
  | "ends_with", [a, b] => do let a ← parseSArr? a; let b ← parseSArr? b; some (rB (endsWithA B a b))
  | "find", [a, b] => do let a ← parseSArr? a; let b ← parseSArr? b; some (rI (findA B a b))
  | "rfind", [a, b] => do let a ← parseSArr? a; let b ← parseSArr? b; some (rI (rfindA B a b))
  | "index", [a, b] => do let a ← parseSArr? a; let b ← parseSArr? b; some (rI (findA B a b))
  | "rindex", [a, b] => do let a ← parseSArr? a; let b ← parseSArr? b; some (rI (rfindA B a b))
  | "is_alpha", [a] => do let a ← parseSArr? a; some (rB (lift1 isAlpha a))
  | "is_alnum", [a] => do let a ← parseSArr? a; some (rB (lift1 isAlnum a))
  | "is_decimal", [a] => do let a ← parseSArr? a; some (rB (lift1 isDecimal a))
  | "is_numeric", [a] => do let a ← parseSArr? a; some (rB (lift1 isNumeric a))
  | "is_digit", [a] => do let a ← parseSArr? a; some (rB (lift1 isDigit a))
  | "is_space", [a] => do let a ← parseSArr? a; some (rB (lift1 isSpace a))
  | "is_lower", [a] => do let a ← parseSArr? a; some (rB (lift1 isLower a))
  | "is_upper", [a] => do let a ← parseSArr? a; some (rB (lift1 isUpper a))
  | name, [a, b] => do
    let o ← cmpOfName name; let a ← parseSArr? a; let b ← parseSArr? b; some (rB (cmpA B o a b))
  | _, _ => none

/-- Giant arrays (above 2^20 strings) are named `iota:<shape>+<offset>` / `iotap:…` in the case line and are not built here: the answer
`native` tells the harness to judge the real result by its native per-string reference, which it compares with THIS model's answer on
every smaller case of the same run that the reference covers (the closing `refstats` line reports how many). -/
def handle (op : String) (args : List String) : Option String :=
  if op == "refstats" || args.any (fun a => a.startsWith "iota") then some "native" else handleModel op args

end Driver.C17

def main : IO Unit := Driver.runDriver Driver.C17.handle
