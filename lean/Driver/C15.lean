import ArrModel.C15
import ArrModel.C15Ext
import Driver.Proto
/-!
# Driver.C15 — model answers for `det`, `solve`, `norm`, `qr` (exact rationals as `num/den` text)

Inputs are integer arrays (`2,2:0,1,1,0`); the harness feeds the same integers to the real crate as `f64`.

Robustness spellings (`xdet`, `xqr`, `xnorm`, `xsolve`): the same model definitions on the same integer array
multiplied by an exact scale.  The trailing variant token is `<type>/<scaleA>/<scaleB>` with a scale spelled `1`,
`2^-30`, `10^9` …; the element type only concerns the Rust side.  The answers are exact rationals of the scaled
input (so the absolute `1e-12` test of `solve` is evaluated at the scaled values, as the code does).

Magnitude bands (round 5; `psolve`, `pdet`, `pqr`, `pnorm`): every ENTRY carries its own exact scale, spelled as a
second integer array of exponents and a base (`2` or `10`): value = integer * base ^ exponent.  Same model definitions.

Giant norms (`gnorm <shape> <type> <ord> <axis>`): a digit array built by formula on both sides; up to `gnormLimit` elements the
model answers, above it `native` (the harness-native reference, which is compared with the model on every smaller `gnorm` line).
-/
namespace Driver.C15
open ArrModel ArrModel.C15 Driver

def toRatArr (a : Arr Int) : Arr Rat := ⟨a.elems.map fun (z : Int) => (z : Rat), a.shape⟩

def showRat (q : Rat) : String := toString q.num ++ "/" ++ toString q.den
def showRatList (l : List Rat) : String := showList showRat l
def showRatArr (a : Arr Rat) : String := showNatList a.shape ++ ":" ++ showRatList a.elems

def showSym : Sym → String
  | .rat q => showRat q
  | .root p q => "r" ++ toString p ++ "=" ++ showRat q
def showSymArr (a : Arr Sym) : String := showNatList a.shape ++ ":" ++ showList showSym a.elems

def showQR (q : QRSym) : String :=
  showRatList q.us.flatten ++ "|" ++ showRatList q.nrm2 ++ "|" ++ showRatList q.ru.flatten

def hexVal (c : Char) : Option Nat :=
  if '0' ≤ c ∧ c ≤ '9' then some (c.toNat - '0'.toNat)
  else if 'a' ≤ c ∧ c ≤ 'f' then some (c.toNat - 'a'.toNat + 10) else none

def unhex : List Char → Option (List Char)
  | [] => some []
  | a :: b :: rest => do
    let x ← hexVal a; let y ← hexVal b; let r ← unhex rest
    some (Char.ofNat (x * 16 + y) :: r)
  | _ => none

/-- `none` | `inf` `ninf` `fro` `nuc` `i<k>` (enum spelling) | `s<hex>` (`&str` spelling) | `S<hex>` (`String` spelling) -/
def parseOrdArg (s : String) : Option (Res (Option Ord)) :=
  if s == "none" then some (.ok none)
  else if s == "inf" then some (.ok (some .inf))
  else if s == "ninf" then some (.ok (some .negInf))
  else if s == "fro" then some (.ok (some .fro))
  else if s == "nuc" then some (.ok (some .nuc))
  else if s.startsWith "i" then (parseInt? (s.drop 1).toString).map fun v => .ok (some (.int v))
  else if s.startsWith "s" || s.startsWith "S" then (unhex (s.drop 1).toString.toList).map fun cs => (parseOrd (String.ofList cs)).map some
  else none

/-- `b^e` for an integer exponent (exact) -/
def ratPowInt (b : Rat) (e : Int) : Rat :=
  let p : Rat := (List.replicate e.natAbs b).foldl (· * ·) 1
  if e < 0 then 1 / p else p

/-- `1` | `<base>^<exp>` -/
def parseScale? (s : String) : Option Rat :=
  match s.splitOn "^" with
  | [one] => (parseInt? one).map fun v => (v : Rat)
  | [b, e] => do
    let b ← parseNat? b; let e ← parseInt? e
    if b = 0 then none else some (ratPowInt (b : Rat) e)
  | _ => none

/-- `<type>/<scaleA>/<scaleB>` -> the two scales -/
def parseVariant? (s : String) : Option (Rat × Rat) :=
  match s.splitOn "/" with
  | [_, sa, sb] => do let sa ← parseScale? sa; let sb ← parseScale? sb; some (sa, sb)
  | _ => none

def scaleArr (s : Rat) (a : Arr Rat) : Arr Rat := ⟨a.elems.map (· * s), a.shape⟩

/-- per-entry exact scales (round-5 magnitude-band streams `psolve` / `pqr` / `pdet` / `pnorm`): entry `i` of the
integer array `a` times `base ^ e[i]`; `e` is spelled as an integer array of the same shape -/
def bandArr? (base : String) (a e : Arr Int) : Option (Arr Rat) := do
  let b ← parseNat? base
  if b = 0 ∨ a.shape ≠ e.shape ∨ a.elems.length ≠ e.elems.length then none
  else some ⟨List.zipWith (fun (m k : Int) => (m : Rat) * ratPowInt (b : Rat) k) a.elems e.elems, a.shape⟩

/-- largest element count for which `normX` is evaluated next to the lane form -/
def normXLimit : Nat := 300

def handleNorm (a : Arr Rat) (ord axis keep : String) : Option String := do
  let ord ← parseOrdArg ord
  let axis ← parseOpt? parseIntList? axis
  let keep ← parseOpt? (fun s => if s == "true" then some true else if s == "false" then some false else none) keep
  match ord with
  | .ok o =>
    -- `normX` (ArrModel/C15Ext.lean: the dispatch over the shared branch-faithful reductions, incl. negative vector
    -- orders, arrays without elements, 0-d receivers) answers every case of at most `normXLimit` elements and every
    -- case the lane forms (`normLane`: `normArr`, `normNegLane`) do not model.  Where both apply they must agree
    -- (otherwise the answer is `model-disagree`, which no outcome of the crate matches).  Above the limit the lane form
    -- answers alone (the moves of `apply_along_axis` are quadratic in the list model).
    let kd := keep.getD false
    match normLane a o axis kd with
    | some lane =>
      let y := showRes showSymArr lane
      if a.elems.length ≤ normXLimit then
        let x := showRes showSymArr (normX a o axis kd)
        if x == y || (x.startsWith "err " && y.startsWith "err ") then some x
        else some ("model-disagree normX: " ++ x ++ " lane form: " ++ y)
      else some y
    | none => some (showRes showSymArr (normX a o axis kd))
  | .err e => some ("err " ++ e.name)
  | .panic => some "panic"

/-- the digit array of the `gnorm` lines (values -9 … 9, zeros included), the same formula as `digit` in the harness.
The type token may carry a spike: `f64@p` puts the unique greatest magnitude (-12) at flat position `p`; `f64#p` puts the unique
least magnitude (0) at `p` and replaces every other zero by 5. -/
def digitAt (i : Nat) : Int := (((i * 7 + i / 13 + i / 1021) % 19 : Nat) : Int) - 9

def digitArr (shape : List Nat) (ty : String) : Option (Arr Rat) :=
  let n := shape.prod
  match ty.splitOn "@", ty.splitOn "#" with
  | [_, p], _ => do
    let p ← parseNat? p
    some ⟨(List.range n).map fun i => ((if i = p then -12 else digitAt i : Int) : Rat), shape⟩
  | _, [_, p] => do
    let p ← parseNat? p
    some ⟨(List.range n).map fun i => ((if i = p then 0 else if digitAt i = 0 then 5 else digitAt i : Int) : Rat), shape⟩
  | _, _ => some ⟨(List.range n).map fun i => ((digitAt i : Int) : Rat), shape⟩

/-- largest `gnorm` element count the model answers itself; above it the harness-native reference (validated against these) answers -/
def gnormLimit : Nat := 6000

def square? (a : Arr Rat) : Option Nat :=
  match a.shape with
  | [r, c] => if r = c ∧ a.elems.length = r * c then some r else none
  | _ => none

def handle (op : String) (args : List String) : Option String :=
  match op, args with
  | "det", [a] => do
    let a ← parseArr? a
    some (showRes showRatArr (detArr (toRatArr a)))
  | "solve", [a, b] => do
    let a ← parseArr? a; let b ← parseArr? b
    some (showRes showRatArr (solveArr (toRatArr a) (toRatArr b)))
  | "norm", [a, ord, axis, keep] => do
    let a ← parseArr? a
    handleNorm (toRatArr a) ord axis keep
  | "xnorm", [a, ord, axis, keep, v] => do
    let a ← parseArr? a; let (sa, _) ← parseVariant? v
    handleNorm (scaleArr sa (toRatArr a)) ord axis keep
  | "xdet", [a, v] => do
    let a ← parseArr? a; let (sa, _) ← parseVariant? v
    some (showRes showRatArr (detArr (scaleArr sa (toRatArr a))))
  | "xsolve", [a, b, v] => do
    let a ← parseArr? a; let b ← parseArr? b; let (sa, sb) ← parseVariant? v
    some (showRes showRatArr (solveArr (scaleArr sa (toRatArr a)) (scaleArr sb (toRatArr b))))
  | "xqr", [a, v] => do
    let a ← parseArr? a; let (sa, _) ← parseVariant? v
    some (showRes (fun l => ";".intercalate (l.map showQR)) (qrArr (scaleArr sa (toRatArr a))))
  | "psolve", [a, ea, b, eb, base] => do
    let a ← bandArr? base (← parseArr? a) (← parseArr? ea)
    let b ← bandArr? base (← parseArr? b) (← parseArr? eb)
    some (showRes showRatArr (solveArr a b))
  | "pdet", [a, ea, base] => do
    let a ← bandArr? base (← parseArr? a) (← parseArr? ea)
    some (showRes showRatArr (detArr a))
  | "pqr", [a, ea, base] => do
    let a ← bandArr? base (← parseArr? a) (← parseArr? ea)
    some (showRes (fun l => ";".intercalate (l.map showQR)) (qrArr a))
  | "pnorm", [a, ea, base, ord, axis, keep] => do
    let a ← bandArr? base (← parseArr? a) (← parseArr? ea)
    handleNorm a ord axis keep
  | "gnorm", [shape, ty, ord, axis] => do
    let shape ← parseNatList? shape
    if shape.prod > gnormLimit then some "native" else handleNorm (← digitArr shape ty) ord axis "none"
  | "qr", [a] => do
    let a ← parseArr? a
    some (showRes (fun l => ";".intercalate (l.map showQR)) (qrArr (toRatArr a)))
  | "det_mul", [a, b] => do
    let a := toRatArr (← parseArr? a); let b := toRatArr (← parseArr? b)
    let n ← square? a; let m ← square? b
    if n ≠ m then none else
    some ("ok " ++ showRat (detN n (matMul n (toMat n n a.elems) (toMat n n b.elems))))
  | "det_swap", [a, i, j] => do
    let a := toRatArr (← parseArr? a); let i ← parseNat? i; let j ← parseNat? j
    let n ← square? a
    some ("ok " ++ showRat (detN n (swapRows n n (toMat n n a.elems) i j)))
  | "det_elim", [a] => do
    let a := toRatArr (← parseArr? a)
    let n ← square? a
    some ("ok " ++ showRat (detByElim n (toMat n n a.elems)))
  | _, _ => none

end Driver.C15

def main : IO Unit := Driver.runDriver Driver.C15.handle
