import ArrModel.Index
import ArrModel.IndexExt
import ArrModel.Split
import Driver.Proto
namespace Driver.C02
open ArrModel Driver

/-- all C02 ops act on a tag array `iSHAPE`; results are positions / coordinates / element tags -/
def handle (op : String) (args : List String) : Option String :=
  match op, args with
  | "index_at", [a, c] => do
    let a ← parseArr? a; let c ← parseNatList? c
    some (showRes toString (a.indexAt c))
  | "index_to_coord", [a, i] => do
    let a ← parseArr? a; let i ← parseNat? i
    some (showRes showNatList (a.indexToCoord i))
  | "at", [a, c] => do
    let a ← parseArr? a; let c ← parseNatList? c
    some (showRes toString (a.atc c))
  | "op_index", [a, i] => do
    let a ← parseArr? a; let i ← parseNat? i
    some (showRes toString (a.opIndex i))
  | "op_index_coords", [a, c] => do
    let a ← parseArr? a; let c ← parseNatList? c
    some (showRes toString (a.opIndexCoords c))
  -- extension: the two remaining lookup operations; results are whole arrays `shape:elems`
  | "slice", [a, s, e] => do
    let a ← parseArr? a; let s ← parseNat? s; let e ← parseNat? e
    some (showRes showArr (a.slice s e))
  | "indices_at", [a, l] => do
    let a ← parseArr? a; let l ← parseNatList? l
    -- cross-check of the two models on every explored case: the row blocks `axis0Pieces` that `indicesAt` is
    -- stated on must be the element lists of the pieces the C11 model of `split_axis(0)` returns
    if a.ndim ≥ 2 && (a.splitAxis 0 0).map (fun ps => ps.map (·.elems)) != .ok a.axis0Pieces then
      some "model-disagree: axis0Pieces is not split_axis(0)"
    else
      some (showRes showArr (a.indicesAt l))
  | _, _ => none

end Driver.C02

def main : IO Unit := Driver.runDriver Driver.C02.handle
