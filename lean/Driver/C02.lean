import ArrModel.Index
import Driver.Proto
namespace Driver.C02
open ArrModel Driver

/-- all C02 ops act on a tag array `iSHAPE`; results are positions / coordinates / element tags -/
def handle (op : String) (args : List String) : Option String :=
  match op, args with
  | "index_at", [a, c] => do
    let a ← parseArr? a; let c ← parseNatList? c
    some (showRes toString (a.indexAt c))
  | "index_to_coord", [a, i] => do
    let a ← parseArr? a; let i ← parseNat? i
    some (showRes showNatList (a.indexToCoord i))
  | "at", [a, c] => do
    let a ← parseArr? a; let c ← parseNatList? c
    some (showRes toString (a.atc c))
  | "op_index", [a, i] => do
    let a ← parseArr? a; let i ← parseNat? i
    some (showRes toString (a.opIndex i))
  | "op_index_coords", [a, c] => do
    let a ← parseArr? a; let c ← parseNatList? c
    some (showRes toString (a.opIndexCoords c))
  | _, _ => none

end Driver.C02

def main : IO Unit := Driver.runDriver Driver.C02.handle
