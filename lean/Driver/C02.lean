import ArrModel.Index
import ArrModel.IndexExt
import ArrModel.Split
import Driver.Proto
namespace Driver.C02
open ArrModel Driver

/-- all C02 ops act on a tag array `iSHAPE` (first argument, already parsed); results are positions / coordinates /
element tags -/
def handleArr (op : String) (a : Arr Int) (rest : List String) : Option String :=
  match op, rest with
  | "index_at", [c] => do
    let c ← parseNatList? c
    some (showRes toString (a.indexAt c))
  | "index_to_coord", [i] => do
    let i ← parseNat? i
    some (showRes showNatList (a.indexToCoord i))
  | "at", [c] => do
    let c ← parseNatList? c
    some (showRes toString (a.atc c))
  | "op_index", [i] => do
    let i ← parseNat? i
    some (showRes toString (a.opIndex i))
  | "op_index_coords", [c] => do
    let c ← parseNatList? c
    some (showRes toString (a.opIndexCoords c))
  -- extension: the two remaining lookup operations; results are whole arrays `shape:elems`
  | "slice", [s, e] => do
    let s ← parseNat? s; let e ← parseNat? e
    some (showRes showArr (a.slice s e))
  | "indices_at", [l] => do
    let l ← parseNatList? l
    -- cross-check of the two models on every explored case of up to 1200 elements (the C11 model of `split_axis` is
    -- quadratic; the big-shape stream beyond that size is answered by `indicesAt` alone): the row blocks `axis0Pieces`
    -- that `indicesAt` is stated on must be the element lists of the pieces the C11 model of `split_axis(0)` returns
    if a.ndim ≥ 2 && a.elems.length ≤ 1200 && (a.splitAxis 0 0).map (fun ps => ps.map (·.elems)) != .ok a.axis0Pieces then
      some "model-disagree: axis0Pieces is not split_axis(0)"
    else
      some (showRes showArr (a.indicesAt l))
  | _, _ => none

/-- Part 3: cases the model does not answer — arrays of more than 2^20 elements (`iota:<shape>` / `iota8:<shape>`, built by the
harness from the shape), the soak over more than 65 536 distinct shapes (`soak`) and the closing line `oracle_validations`.
The answer `native` tells the harness to judge them with its native reference (the defining sum / quotient in plain Rust),
which the same run compares with the answers of THIS driver on every modelled case. -/
def nativeCase (op : String) (k : String) : Bool :=
  op == "soak" || op == "oracle_validations"
    || (k.startsWith "iota:" && (parseNatList? (k.drop 5).toString).isSome)
    || (k.startsWith "iota8:" && (parseNatList? (k.drop 6).toString).isSome)

def handle (op : String) (args : List String) : Option String :=
  match args with
  | a :: rest =>
    if nativeCase op a then some "native" else do
    let a ← parseArr? a
    handleArr op a rest
  | [] => none

/-- `Driver.loop` with a one-entry memo of the parsed array argument: the case lines of one (big) array follow each
other, and re-building a 5000-element tag list for every line dominated the run time.  Same answers as
`runDriver handle` line by line (`handle` = parse the first argument, then `handleArr`). -/
partial def loopMemo (hin hout : IO.FS.Stream) (key : String) (arr : Option (Arr Int)) : IO Unit := do
  let line ← hin.getLine
  if line.isEmpty then return ()
  match line.trimAscii.toString.splitOn " " with
  | full :: k :: rest =>
    let op := match full.splitOn "." with
      | [_, op] => op
      | _ => full
    if nativeCase op k then
      hout.putStrLn "native"
      loopMemo hin hout key arr
    else
    let arr' := if k == key then arr else parseArr? k
    hout.putStrLn ((arr'.bind (fun a => handleArr op a rest)).getD "bad-op")
    loopMemo hin hout k arr'
  | _ =>
    hout.putStrLn "bad-op"
    loopMemo hin hout key arr

end Driver.C02

def main : IO Unit := do
  let hin ← IO.getStdin
  let hout ← IO.getStdout
  Driver.C02.loopMemo hin hout "" none
  hout.flush
