import ArrModel.C20
import ArrModel.C20Int
import Driver.Proto
/-!
# Driver.C20 — runs the generic operator model on the free scalar algebra `Sym` (index protocol)

Case lines (`<A>`, `<B>` = `shape:v,v,…`; the values are opaque to the model for the arithmetic/bit forms —
only their count is used — and are integers or `nan` for the comparison forms):

    arr_arr <ty> <op> <A> <B>          a op b            (impl_op!)
    arr_scalar <ty> <op> <A> <s>       a op s            (Result)
    assign_arr <ty> <op> <A> <B>       a op= b
    assign_scalar <ty> <op> <A> <s>    a op= s
    neg <ty> <A> / not <ty> <A>
    bit_arr / bit_scalar / bit_assign_arr / bit_assign_scalar <ty> <op> <A> <B|s>
    cmp <ty> <eq|ne|lt|le|gt|ge|partial_cmp> <A> <B>
    assign_vs_plain <ty> <op> <A> <B>  state after `a op= b` against the value of `a op b`
    bit_assign_vs_plain <ty> <op> <A> <B>
    arr_self / assign_self / bit_self / bit_assign_self <ty> <op> <A>
                                       aliasing: both operands are the same array (`a op a.clone()`, `a op= a.clone()`);
                                       the terms name the receiver's elements on both sides (`o.a3.a3`)
    cmp_self <ty> <rel> <A>            the SAME object on both sides (`a == a`, `a.partial_cmp(&a)`)

Comparison values: a decimal integer, `nan`, or `nz` (negative zero: equal to `0`, like IEEE -0.0 == 0.0).

Compact operand spelling for huge arrays (both ends expand it with the same integer formula):
`h<shape>~<lo>~<m>~<o>[~<pos>=<tok>;<pos>=<tok>…]` = the array of that shape whose element `i` is
`lo + ((((i+1+o*7919)*2654435761) % 2^32) / 65536) % m`, with the listed positions overridden.

    seq <case> / <case> / …            several cases executed one after the other on one thread (hidden state, A–B–A,
                                       the same arguments through several element types); answers joined by ` / `

Integer VALUE lines (`ArrModel/C20Int.lean`: the native fixed-width operators are part of the model):

    ival <form> <ty> <op> <A> [<B|s>]  form = arr_arr | assign_arr | arr_scalar | assign_scalar | arr_self | assign_self | neg
                                              | bit_arr | bit_assign_arr | bit_scalar | bit_assign_scalar | bit_self
                                              | bit_assign_self | not;  ty = i8 … u64 | isize | usize | bool
                                       operand values are decimal integers of the type (out of range = malformed);
                                       the generic model runs on the free terms exactly as for the lines above and
                                       `evalTerm` turns every term into the value of the native operator
    ishift <ty> <shl|shr> <x> <k>      the scalar `x << k` / `x >> k` (`Numeric::left_shift` / `right_shift`)

  answer: `<harness build> ;; <plain release>` — the first part is what the executed build (overflow-checks = true)
  must give (`ok shape:v,v,…` or `panic`), the second what a build without overflow checks gives (wrap-around).

Answers: `ok shape:term,term,…` with terms in prefix notation (`o.x.y` operator, `g.x.y` compound
assignment, `u.x` unary, `aI`/`bI` operand elements, `s` the scalar), `ok true|false`, `ok lt|eq|gt|none`,
`ok same|differ`, `err <Variant>`, `panic`.
-/
namespace Driver.C20
open ArrModel ArrModel.C20 Driver

partial def showSym : Sym → String
  | .a i => "a" ++ toString i
  | .b i => "b" ++ toString i
  | .s => "s"
  | .op x y => "o." ++ showSym x ++ "." ++ showSym y
  | .asg x y => "g." ++ showSym x ++ "." ++ showSym y
  | .un x => "u." ++ showSym x

def showSymArr (r : Arr Sym) : String := showNatList r.shape ++ ":" ++ showList showSym r.elems

/-- `shape:v,v,…` → shape and number of values (`-` = none) -/
def parseShapeCount? (s : String) : Option (List Nat × Nat) :=
  match s.splitOn ":" with
  | [sh, el] => do
    let shape ← parseNatList? sh
    some (shape, if el == "-" then 0 else (el.splitOn ",").length)
  | _ => none

/-- element `i` of the compact spelling `h<shape>~lo~m~o` -/
def hval (lo : Int) (m o i : Nat) : Int := lo + Int.ofNat (((((i + 1 + o * 7919) * 2654435761) % 4294967296) / 65536) % m)

/-- `h<shape>~lo~m~o[~pos=tok;…]` → (shape, lo, m, o, overrides) -/
def parseH? (s : String) : Option (List Nat × Int × Nat × Nat × List (Nat × String)) :=
  match ((s.drop 1).toString).splitOn "~" with
  | sh :: lo :: m :: o :: rest => do
    let shape ← parseNatList? sh; let lo ← parseInt? lo; let m ← parseNat? m; let o ← parseNat? o
    let ovs ← match rest with
      | [] => some []
      | [t] => (t.splitOn ";").mapM (fun e => match e.splitOn "=" with
          | [p, v] => do let p ← parseNat? p; some (p, v)
          | _ => none)
      | _ => none
    if m == 0 then none else some (shape, lo, m, o, ovs)
  | _ => none

def parseShapeCountH? (s : String) : Option (List Nat × Nat) :=
  if s.startsWith "h" then do
    let (shape, _, _, _, _) ← parseH? s
    some (shape, shape.prod)
  else parseShapeCount? s

def symA? (s : String) : Option (Arr Sym) := do
  let (shape, n) ← parseShapeCountH? s
  some ⟨(List.range n).map Sym.a, shape⟩

def symB? (s : String) : Option (Arr Sym) := do
  let (shape, n) ← parseShapeCountH? s
  some ⟨(List.range n).map Sym.b, shape⟩

def parseFlt? (s : String) : Option Flt :=
  if s == "nan" then some none else if s == "nz" then some (some 0) else (parseInt? s).map some

def fltArr? (s : String) : Option (Arr Flt) :=
  if s.startsWith "h" then do
    let (shape, lo, m, o, ovs) ← parseH? s
    let base : List Flt := (List.range shape.prod).map (fun i => some (hval lo m o i))
    let elems ← ovs.foldlM (fun (acc : List Flt) (pv : Nat × String) => do
      let v ← parseFlt? pv.2
      if pv.1 < acc.length then some (acc.set pv.1 v) else none) base
    some ⟨elems, shape⟩
  else
  match s.splitOn ":" with
  | [sh, el] => do
    let shape ← parseNatList? sh
    let elems ← parseList? parseFlt? el
    some ⟨elems, shape⟩
  | _ => none

def showOrd : Option Ordering → String
  | some .lt => "lt"
  | some .eq => "eq"
  | some .gt => "gt"
  | none => "none"

def sameOrDiffer (x y : Res (Arr Sym)) : String :=
  if x = y then (match x with | .ok _ => "ok same" | .err e => "err " ++ e.name | .panic => "panic")
  else "ok differ"

def handleCmp (_ty rel a b : String) : Option String := do
  let a ← fltArr? a; let b ← fltArr? b
  match rel with
  | "eq" => some (showRes showBool (opEq Flt.eq a b))
  | "ne" => some (showRes showBool (opNe Flt.eq a b))
  | "lt" => some (showRes showBool (opLt Flt.pcmp a b))
  | "le" => some (showRes showBool (opLe Flt.pcmp a b))
  | "gt" => some (showRes showBool (opGt Flt.pcmp a b))
  | "ge" => some (showRes showBool (opGe Flt.pcmp a b))
  | "partial_cmp" => some (showRes showOrd (opPartialCmp Flt.pcmp a b))
  | _ => none

/-! ### integer VALUE lines -/

def intTy? : String → Option IntTy
  | "i8" => some .i8 | "i16" => some .i16 | "i32" => some .i32 | "i64" => some .i64 | "isize" => some .isize
  | "u8" => some .u8 | "u16" => some .u16 | "u32" => some .u32 | "u64" => some .u64 | "usize" => some .usize
  | "bool" => some .bool
  | _ => none

def binOp? : String → Option BinOp
  | "add" => some .add | "sub" => some .sub | "mul" => some .mul | "div" => some .div | "rem" => some .rem
  | "and" => some .and | "or" => some .or | "xor" => some .xor | "shl" => some .shl | "shr" => some .shr
  | _ => none

/-- a decimal integer of the type; anything outside `MIN..=MAX` is malformed -/
def parseVal? (ty : IntTy) (s : String) : Option (BitVec ty.w) := do
  let v ← parseInt? s
  if ty.inRange v then some (ty.ofVal v) else none

/-- the same for a list, the bounds of the type computed once (`lo ≤ v ≤ hi` is `ty.inRange v`) -/
def parseVals? (ty : IntTy) (s : String) : Option (List (BitVec ty.w)) :=
  let lo := ty.minVal; let hi := ty.maxVal
  parseList? (fun t => do
    let v ← parseInt? t
    if lo ≤ v && v ≤ hi then some (ty.ofVal v) else none) s

def showVal (ty : IntTy) (x : BitVec ty.w) : String := toString (ty.val x)

def iArr? (ty : IntTy) (s : String) : Option (IArr ty) :=
  if s.startsWith "h" then do
    let (shape, lo, m, o, ovs) ← parseH? s
    let base ← ((List.range shape.prod).map (fun i => hval lo m o i)).mapM
      (fun v => if ty.inRange v then some (ty.ofVal v) else none)
    let elems ← ovs.foldlM (fun (acc : Array (BitVec ty.w)) (pv : Nat × String) => do
      let v ← parseVal? ty pv.2
      if pv.1 < acc.size then some (acc.set! pv.1 v) else none) base.toArray
    some ⟨elems.toList, shape⟩
  else
  match s.splitOn ":" with
  | [sh, el] => do
    let shape ← parseNatList? sh
    let elems ← parseVals? ty el
    some ⟨elems, shape⟩
  | _ => none

def showIArr (ty : IntTy) (r : IArr ty) : String := showNatList r.shape ++ ":" ++ showList (showVal ty) r.elems

/-- both builds, the executed one first -/
def both (ty : IntTy) (f : Build → Res (IArr ty)) : String :=
  showRes (showIArr ty) (f Build.harness) ++ " ;; " ++ showRes (showIArr ty) (f Build.release)

/-- which operators exist for which types (`NumericOps`: i8 i16 i32 i64; `& | ^`: every integer type and bool) -/
def hasArith (ty : IntTy) : Bool := ty.signed && ty != IntTy.bool
def isArith : BinOp → Bool
  | .add | .sub | .mul | .div | .rem => true
  | _ => false
def isBit : BinOp → Bool
  | .and | .or | .xor => true
  | _ => false

def handleIval (form tyS : String) (rest : List String) : Option String := do
  let ty ← intTy? tyS
  match form, rest with
  | "neg", [a] => do
    let a ← iArr? ty a
    if !hasArith ty then none else some (both ty (fun bld => iUnop ty bld .neg a))
  | "not", [a] => do
    let a ← iArr? ty a
    if ty != IntTy.bool then none else some (both ty (fun bld => iUnop ty bld .not a))
  | _, opS :: as => do
    let op ← binOp? opS
    let arith := form == "arr_arr" || form == "assign_arr" || form == "arr_scalar" || form == "assign_scalar"
      || form == "arr_self" || form == "assign_self"
    if arith && !(isArith op && hasArith ty) then none
    else if !arith && !isBit op then none
    else
    match form, as with
    | "arr_arr", [a, b] => do let a ← iArr? ty a; let b ← iArr? ty b; some (both ty (fun bld => iBinop ty bld op a b))
    | "assign_arr", [a, b] => do let a ← iArr? ty a; let b ← iArr? ty b; some (both ty (fun bld => iAssign ty bld op a b))
    | "arr_scalar", [a, s] => do let a ← iArr? ty a; let s ← parseVal? ty s; some (both ty (fun bld => iScalar ty bld op a s))
    | "assign_scalar", [a, s] => do let a ← iArr? ty a; let s ← parseVal? ty s; some (both ty (fun bld => iAssignScalar ty bld op a s))
    | "arr_self", [a] => do let a ← iArr? ty a; some (both ty (fun bld => iBinop ty bld op a a))
    | "assign_self", [a] => do let a ← iArr? ty a; some (both ty (fun bld => iAssign ty bld op a a))
    | "bit_arr", [a, b] => do let a ← iArr? ty a; let b ← iArr? ty b; some (both ty (fun bld => iBitop ty bld op a b))
    | "bit_assign_arr", [a, b] => do let a ← iArr? ty a; let b ← iArr? ty b; some (both ty (fun bld => iBitAssign ty bld op a b))
    | "bit_scalar", [a, s] => do let a ← iArr? ty a; let s ← parseVal? ty s; some (both ty (fun bld => iBitScalar ty bld op a s))
    | "bit_assign_scalar", [a, s] => do let a ← iArr? ty a; let s ← parseVal? ty s; some (both ty (fun bld => iBitAssignScalar ty bld op a s))
    | "bit_self", [a] => do let a ← iArr? ty a; some (both ty (fun bld => iBitop ty bld op a a))
    | "bit_assign_self", [a] => do let a ← iArr? ty a; some (both ty (fun bld => iBitAssign ty bld op a a))
    | _, _ => none
  | _, _ => none

def showOptVal (ty : IntTy) : Option (BitVec ty.w) → String
  | some v => "ok " ++ showVal ty v
  | none => "panic"

def handleShift (tyS opS x k : String) : Option String := do
  let ty ← intTy? tyS
  let op ← binOp? opS
  if op != .shl && op != .shr then none
  else if ty == IntTy.bool then do
    let x ← parseVal? ty x; let k ← parseVal? ty k
    let (xb, kb) := (x != 0, k != 0)
    let r := if op == .shl then boolShl xb kb else boolShr xb kb
    let t := if r then "ok 1" else "ok 0"
    some (t ++ " ;; " ++ t)
  else do
    let x ← parseVal? ty x; let k ← parseVal? ty k
    some (showOptVal ty (scalarBin ty Build.harness op x k) ++ " ;; " ++ showOptVal ty (scalarBin ty Build.release op x k))

def handle1 (op : String) (args : List String) : Option String :=
  match op, args with
  | "arr_arr", [_, _, a, b] => do
    let a ← symA? a; let b ← symB? b
    some (showRes showSymArr (binop Sym.op a b))
  | "arr_scalar", [_, _, a, _] => do
    let a ← symA? a
    some (showRes showSymArr (scalarop Sym.op a Sym.s))
  | "assign_arr", [_, _, a, b] => do
    let a ← symA? a; let b ← symB? b
    some (showRes showSymArr (assignop Sym.asg a b))
  | "assign_scalar", [_, _, a, _] => do
    let a ← symA? a
    some (showRes showSymArr (assignScalar Sym.asg a Sym.s))
  | "neg", [_, a] => do
    let a ← symA? a
    some (showRes showSymArr (unop Sym.un a))
  | "not", [_, a] => do
    let a ← symA? a
    some (showRes showSymArr (unop Sym.un a))
  | "bit_arr", [_, _, a, b] => do
    let a ← symA? a; let b ← symB? b
    some (showRes showSymArr (bitop Sym.op a b))
  | "bit_scalar", [_, _, a, _] => do
    let a ← symA? a
    some (showRes showSymArr (bitScalar Sym.op a Sym.s))
  | "bit_assign_arr", [_, _, a, b] => do
    let a ← symA? a; let b ← symB? b
    some (showRes showSymArr (bitAssign Sym.op a b))
  | "bit_assign_scalar", [_, _, a, _] => do
    let a ← symA? a
    some (showRes showSymArr (bitAssignScalar Sym.op a Sym.s))
  | "assign_vs_plain", [_, _, a, b] => do
    let a ← symA? a; let b ← symB? b
    -- the scalar hypothesis `x op= y` = `x op y` is checked natively elsewhere; here both use `op`
    some (sameOrDiffer (assignop Sym.op a b) (binop Sym.op a b))
  | "bit_assign_vs_plain", [_, _, a, b] => do
    let a ← symA? a; let b ← symB? b
    some (sameOrDiffer (bitAssign Sym.op a b) (bitop Sym.op a b))
  | "arr_self", [_, _, a] => do
    let a ← symA? a
    some (showRes showSymArr (binop Sym.op a a))
  | "assign_self", [_, _, a] => do
    let a ← symA? a
    some (showRes showSymArr (assignop Sym.asg a a))
  | "bit_self", [_, _, a] => do
    let a ← symA? a
    some (showRes showSymArr (bitop Sym.op a a))
  | "bit_assign_self", [_, _, a] => do
    let a ← symA? a
    some (showRes showSymArr (bitAssign Sym.op a a))
  | "cmp_self", [ty, rel, a] => handleCmp ty rel a a
  | "cmp", [ty, rel, a, b] => handleCmp ty rel a b
  | "ival", form :: ty :: rest => handleIval form ty rest
  | "ishift", [ty, o, x, k] => handleShift ty o x k
  | _, _ => none

/-- split an argument list at the `/` tokens -/
def splitSlash (args : List String) : List (List String) :=
  let (cur, done) := args.foldl (fun (st : List String × List (List String)) t =>
    if t == "/" then ([], st.1.reverse :: st.2) else (t :: st.1, st.2)) ([], [])
  (cur.reverse :: done).reverse

def handle (op : String) (args : List String) : Option String :=
  match op with
  | "seq" => do
    let answers ← (splitSlash args).mapM (fun c => match c with
      | o :: as => handle1 o as
      | [] => none)
    some (" / ".intercalate answers)
  -- bookkeeping line of the harness (how many A–B–A re-runs / seq members it executed)
  | "state_report" => some "ok report"
  | "ival_report" => some "ok report"
  | _ => handle1 op args

end Driver.C20

def main : IO Unit := Driver.runDriver Driver.C20.handle
