import ArrModel.C20
import Driver.Proto
/-!
# Driver.C20 — runs the generic operator model on the free scalar algebra `Sym` (index protocol)

Case lines (`<A>`, `<B>` = `shape:v,v,…`; the values are opaque to the model for the arithmetic/bit forms —
only their count is used — and are integers or `nan` for the comparison forms):

    arr_arr <ty> <op> <A> <B>          a op b            (impl_op!)
    arr_scalar <ty> <op> <A> <s>       a op s            (Result)
    assign_arr <ty> <op> <A> <B>       a op= b
    assign_scalar <ty> <op> <A> <s>    a op= s
    neg <ty> <A> / not <ty> <A>
    bit_arr / bit_scalar / bit_assign_arr / bit_assign_scalar <ty> <op> <A> <B|s>
    cmp <ty> <eq|ne|lt|le|gt|ge|partial_cmp> <A> <B>
    assign_vs_plain <ty> <op> <A> <B>  state after `a op= b` against the value of `a op b`
    bit_assign_vs_plain <ty> <op> <A> <B>
    arr_self / assign_self / bit_self / bit_assign_self <ty> <op> <A>
                                       aliasing: both operands are the same array (`a op a.clone()`, `a op= a.clone()`);
                                       the terms name the receiver's elements on both sides (`o.a3.a3`)
    cmp_self <ty> <rel> <A>            the SAME object on both sides (`a == a`, `a.partial_cmp(&a)`)

Comparison values: a decimal integer, `nan`, or `nz` (negative zero: equal to `0`, like IEEE -0.0 == 0.0).

Compact operand spelling for huge arrays (both ends expand it with the same integer formula):
`h<shape>~<lo>~<m>~<o>[~<pos>=<tok>;<pos>=<tok>…]` = the array of that shape whose element `i` is
`lo + ((((i+1+o*7919)*2654435761) % 2^32) / 65536) % m`, with the listed positions overridden.

    seq <case> / <case> / …            several cases executed one after the other on one thread (hidden state, A–B–A,
                                       the same arguments through several element types); answers joined by ` / `

Answers: `ok shape:term,term,…` with terms in prefix notation (`o.x.y` operator, `g.x.y` compound
assignment, `u.x` unary, `aI`/`bI` operand elements, `s` the scalar), `ok true|false`, `ok lt|eq|gt|none`,
`ok same|differ`, `err <Variant>`, `panic`.
-/
namespace Driver.C20
open ArrModel ArrModel.C20 Driver

partial def showSym : Sym → String
  | .a i => "a" ++ toString i
  | .b i => "b" ++ toString i
  | .s => "s"
  | .op x y => "o." ++ showSym x ++ "." ++ showSym y
  | .asg x y => "g." ++ showSym x ++ "." ++ showSym y
  | .un x => "u." ++ showSym x

def showSymArr (r : Arr Sym) : String := showNatList r.shape ++ ":" ++ showList showSym r.elems

/-- `shape:v,v,…` → shape and number of values (`-` = none) -/
def parseShapeCount? (s : String) : Option (List Nat × Nat) :=
  match s.splitOn ":" with
  | [sh, el] => do
    let shape ← parseNatList? sh
    some (shape, if el == "-" then 0 else (el.splitOn ",").length)
  | _ => none

/-- element `i` of the compact spelling `h<shape>~lo~m~o` -/
def hval (lo : Int) (m o i : Nat) : Int := lo + Int.ofNat (((((i + 1 + o * 7919) * 2654435761) % 4294967296) / 65536) % m)

/-- `h<shape>~lo~m~o[~pos=tok;…]` → (shape, lo, m, o, overrides) -/
def parseH? (s : String) : Option (List Nat × Int × Nat × Nat × List (Nat × String)) :=
  match ((s.drop 1).toString).splitOn "~" with
  | sh :: lo :: m :: o :: rest => do
    let shape ← parseNatList? sh; let lo ← parseInt? lo; let m ← parseNat? m; let o ← parseNat? o
    let ovs ← match rest with
      | [] => some []
      | [t] => (t.splitOn ";").mapM (fun e => match e.splitOn "=" with
          | [p, v] => do let p ← parseNat? p; some (p, v)
          | _ => none)
      | _ => none
    if m == 0 then none else some (shape, lo, m, o, ovs)
  | _ => none

def parseShapeCountH? (s : String) : Option (List Nat × Nat) :=
  if s.startsWith "h" then do
    let (shape, _, _, _, _) ← parseH? s
    some (shape, shape.prod)
  else parseShapeCount? s

def symA? (s : String) : Option (Arr Sym) := do
  let (shape, n) ← parseShapeCountH? s
  some ⟨(List.range n).map Sym.a, shape⟩

def symB? (s : String) : Option (Arr Sym) := do
  let (shape, n) ← parseShapeCountH? s
  some ⟨(List.range n).map Sym.b, shape⟩

def parseFlt? (s : String) : Option Flt :=
  if s == "nan" then some none else if s == "nz" then some (some 0) else (parseInt? s).map some

def fltArr? (s : String) : Option (Arr Flt) :=
  if s.startsWith "h" then do
    let (shape, lo, m, o, ovs) ← parseH? s
    let base : List Flt := (List.range shape.prod).map (fun i => some (hval lo m o i))
    let elems ← ovs.foldlM (fun (acc : List Flt) (pv : Nat × String) => do
      let v ← parseFlt? pv.2
      if pv.1 < acc.length then some (acc.set pv.1 v) else none) base
    some ⟨elems, shape⟩
  else
  match s.splitOn ":" with
  | [sh, el] => do
    let shape ← parseNatList? sh
    let elems ← parseList? parseFlt? el
    some ⟨elems, shape⟩
  | _ => none

def showOrd : Option Ordering → String
  | some .lt => "lt"
  | some .eq => "eq"
  | some .gt => "gt"
  | none => "none"

def sameOrDiffer (x y : Res (Arr Sym)) : String :=
  if x = y then (match x with | .ok _ => "ok same" | .err e => "err " ++ e.name | .panic => "panic")
  else "ok differ"

def handleCmp (_ty rel a b : String) : Option String := do
  let a ← fltArr? a; let b ← fltArr? b
  match rel with
  | "eq" => some (showRes showBool (opEq Flt.eq a b))
  | "ne" => some (showRes showBool (opNe Flt.eq a b))
  | "lt" => some (showRes showBool (opLt Flt.pcmp a b))
  | "le" => some (showRes showBool (opLe Flt.pcmp a b))
  | "gt" => some (showRes showBool (opGt Flt.pcmp a b))
  | "ge" => some (showRes showBool (opGe Flt.pcmp a b))
  | "partial_cmp" => some (showRes showOrd (opPartialCmp Flt.pcmp a b))
  | _ => none

def handle1 (op : String) (args : List String) : Option String :=
  match op, args with
  | "arr_arr", [_, _, a, b] => do
    let a ← symA? a; let b ← symB? b
    some (showRes showSymArr (binop Sym.op a b))
  | "arr_scalar", [_, _, a, _] => do
    let a ← symA? a
    some (showRes showSymArr (scalarop Sym.op a Sym.s))
  | "assign_arr", [_, _, a, b] => do
    let a ← symA? a; let b ← symB? b
    some (showRes showSymArr (assignop Sym.asg a b))
  | "assign_scalar", [_, _, a, _] => do
    let a ← symA? a
    some (showRes showSymArr (assignScalar Sym.asg a Sym.s))
  | "neg", [_, a] => do
    let a ← symA? a
    some (showRes showSymArr (unop Sym.un a))
  | "not", [_, a] => do
    let a ← symA? a
    some (showRes showSymArr (unop Sym.un a))
  | "bit_arr", [_, _, a, b] => do
    let a ← symA? a; let b ← symB? b
    some (showRes showSymArr (bitop Sym.op a b))
  | "bit_scalar", [_, _, a, _] => do
    let a ← symA? a
    some (showRes showSymArr (bitScalar Sym.op a Sym.s))
  | "bit_assign_arr", [_, _, a, b] => do
    let a ← symA? a; let b ← symB? b
    some (showRes showSymArr (bitAssign Sym.op a b))
  | "bit_assign_scalar", [_, _, a, _] => do
    let a ← symA? a
    some (showRes showSymArr (bitAssignScalar Sym.op a Sym.s))
  | "assign_vs_plain", [_, _, a, b] => do
    let a ← symA? a; let b ← symB? b
    -- the scalar hypothesis `x op= y` = `x op y` is checked natively elsewhere; here both use `op`
    some (sameOrDiffer (assignop Sym.op a b) (binop Sym.op a b))
  | "bit_assign_vs_plain", [_, _, a, b] => do
    let a ← symA? a; let b ← symB? b
    some (sameOrDiffer (bitAssign Sym.op a b) (bitop Sym.op a b))
  | "arr_self", [_, _, a] => do
    let a ← symA? a
    some (showRes showSymArr (binop Sym.op a a))
  | "assign_self", [_, _, a] => do
    let a ← symA? a
    some (showRes showSymArr (assignop Sym.asg a a))
  | "bit_self", [_, _, a] => do
    let a ← symA? a
    some (showRes showSymArr (bitop Sym.op a a))
  | "bit_assign_self", [_, _, a] => do
    let a ← symA? a
    some (showRes showSymArr (bitAssign Sym.op a a))
  | "cmp_self", [ty, rel, a] => handleCmp ty rel a a
  | "cmp", [ty, rel, a, b] => handleCmp ty rel a b
  | _, _ => none

/-- split an argument list at the `/` tokens -/
def splitSlash (args : List String) : List (List String) :=
  let (cur, done) := args.foldl (fun (st : List String × List (List String)) t =>
    if t == "/" then ([], st.1.reverse :: st.2) else (t :: st.1, st.2)) ([], [])
  (cur.reverse :: done).reverse

def handle (op : String) (args : List String) : Option String :=
  match op with
  | "seq" => do
    let answers ← (splitSlash args).mapM (fun c => match c with
      | o :: as => handle1 o as
      | [] => none)
    some (" / ".intercalate answers)
  -- bookkeeping line of the harness (how many A–B–A re-runs / seq members it executed)
  | "state_report" => some "ok report"
  | _ => handle1 op args

end Driver.C20

def main : IO Unit := Driver.runDriver Driver.C20.handle
