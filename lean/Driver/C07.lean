import ArrModel.Manip
import Driver.Proto
namespace Driver.C07
open ArrModel Driver

/-- one step of a chain: `reshape:2,3`, `ravel`, `resize:2,2`, `cycle_take:5`, `atleast:2`, `expand:0,-1`, `squeeze:none`, `squeeze:0,2` -/
def step (a : Arr Int) (s : String) : Option (Res (Arr Int)) :=
  match s.splitOn ":" with
  | ["ravel"] => some (.ok a.ravel)
  | ["reshape", x] => do let sh ← parseNatList? x; some (a.reshape sh)
  | ["resize", x] => do let sh ← parseNatList? x; some (a.resize sh)
  | ["cycle_take", x] => do let n ← parseNat? x; some (.ok (a.cycleTakeArr n))
  | ["atleast", x] => do let n ← parseNat? x; some (a.atleast n)
  | ["expand", x] => do let ax ← parseIntList? x; some (a.expandDims ax)
  | ["squeeze", x] => do let ax ← parseOpt? parseIntList? x; some (a.squeeze ax)
  | _ => none

def chain (a : Arr Int) : List String → Option (Res (Arr Int))
  | [] => some (.ok a)
  | s :: rest => do
    match ← step a s with
    | .ok b => chain b rest
    | .err e => some (.err e)
    | .panic => some .panic

def handle (op : String) (args : List String) : Option String :=
  match op, args with
  | "chain", [a, steps] => do
    let a ← parseArr? a
    let r ← chain a (if steps == "-" then [] else steps.splitOn "|")
    some (showRes showArr r)
  | "create", [el, sh, nd] => do
    -- elements either as a list `0,1,2` or as the elements of a tag array `i2,3+5`
    let el ← (if el.startsWith "i" then (parseArr? el).map (·.elems) else parseIntList? el)
    let sh ← parseNatList? sh; let nd ← parseOpt? parseNat? nd
    some (showRes showArr (Arr.create el sh nd))
  | _, _ => none

/-- spellings added for the robustness streams:
* `aba A stepsA B stepsB` — two chains that the harness executes back to back on a fresh thread (A B A, then B A B): both answers;
* `hchain A steps` — resize / cycle_take FROM a source of tens of thousands of elements: `cycleTake` indexes a list per element
  (27 s for 70 000 -> 140 000), the driver answers `ok native` and the harness judges by its native reference
  (`out[i] = in[i mod len]`), which it validates against `chain` on every smaller resize / cycle_take / reshape / ravel case of
  the same run (`audit` line). -/
def handleX (op : String) (args : List String) : Option String :=
  match op, args with
  | "aba", [a, sa, b, sb] => do
    let x ← handle "chain" [a, sa]; let y ← handle "chain" [b, sb]
    some (x ++ " ; " ++ y)
  | "hchain", [_, _] => some "ok native"
  -- part 3: `giant iota:SHAPE steps` / `giant8 …` (more than 2^20 / 2^24 elements, the array is built by the harness and never
  -- written out) and `gcreate iota:SHAPE ndmin`: judged in place by the harness-native reference, which for these streams also
  -- covers atleast / expand_dims / squeeze and Array::create and is validated against `chain` / `create` on EVERY smaller case
  | "giant", [_, _] => some "ok native"
  | "giant8", [_, _] => some "ok native"
  | "giantw", [_, _] => some "ok native"
  | "gcreate", [_, _] => some "ok native"
  -- round 5: `gcreate8 COUNT SHAPE ndmin` — Array::create on more than 2^24 u8 elements, judged by the same validated reference
  | "gcreate8", [_, _, _] => some "ok native"
  -- `wrap A steps` / `wrapcreate A shape ndmin`: targets whose product equals the count only modulo 2^64; the model's answer (the
  -- product is a `Nat`, so they are refused); the harness accepts any refusal of the crate and no `ok`
  | "wrap", [a, steps] => handle "chain" [a, steps]
  | "wrapcreate", [a, sh, nd] => handle "create" [a, sh, nd]
  | "audit", [] => some "ok audit"
  | _, _ => handle op args

end Driver.C07

def main : IO Unit := Driver.runDriver Driver.C07.handleX
