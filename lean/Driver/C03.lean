import ArrModel.Broadcast
import Driver.Proto
namespace Driver.C03
open ArrModel Driver

def showPairArr (a : Arr (Int × Int)) : String :=
  showNatList a.shape ++ ":" ++ showList (fun p => toString p.1 ++ "/" ++ toString p.2) a.elems

/-- one call -/
def handle1 (op : String) (args : List String) : Option String :=
  match op, args with
  | "broadcast", [a, b] => do
    let a ← parseArr? a; let b ← parseArr? b
    some (showRes showPairArr (a.broadcast b))
  | "zip", [a, b] => do
    let a ← parseArr? a; let b ← parseArr? b
    some (showRes showPairArr (a.zip b))
  | "broadcast_to", [a, s] => do
    let a ← parseArr? a; let s ← parseNatList? s
    some (showRes showArr (a.broadcastTo s))
  | "broadcast_arrays", [l] => do
    let l ← parseArrList? l
    some (showRes showArrList (Arr.broadcastArrays l))
  -- the crate-internal helpers: the two / three stretched operands (`T::zero()` is 0)
  | "h2", [a, b] => do
    let a ← parseArr? a; let b ← parseArr? b
    some (showRes (fun p => showArr p.1 ++ ";" ++ showArr p.2) (a.broadcastH2 0 b))
  -- the same helper, observed by the harness through its second public lift (`round`)
  | "h2r", [a, b] => do
    let a ← parseArr? a; let b ← parseArr? b
    some (showRes (fun p => showArr p.1 ++ ";" ++ showArr p.2) (a.broadcastH2 0 b))
  | "h3", [a, b, c] => do
    let a ← parseArr? a; let b ← parseArr? b; let c ← parseArr? c
    some (showRes (fun p => showArr p.1 ++ ";" ++ showArr p.2.1 ++ ";" ++ showArr p.2.2) (a.broadcastH3 0 b c))
  | _, _ => none

/-- the token list cut at every separator token -/
def splitTok (sep : String) : List String → List (List String)
  | [] => [[]]
  | x :: xs =>
    match splitTok sep xs with
    | [] => [[x]]
    | g :: gs => if x == sep then [] :: g :: gs else (x :: g) :: gs

/-- the shape of an array spelling (`i2,3`, `i2,3+1000`, `2,3:…`) without building the elements -/
def shapeOf? (s : String) : Option (List Nat) :=
  if s.startsWith "i" then parseNatList? (((s.drop 1).toString.splitOn "+").headD "")
  else match s.splitOn ":" with
    | [sh, _] => parseNatList? sh
    | _ => none

def showShapeRes (r : Res (List Nat)) (want : Option (List Nat)) : String :=
  match r with
  | .ok fs => if want.all (· == fs) then "shape " ++ showNatList fs else "err BroadcastShapeMismatch"
  | .err e => "err " ++ e.name
  | .panic => "panic"

/-- `n <call>`: huge operands with a huge SOURCE, where the list-backed gather of the model is too slow.  The model answers the
result SHAPE only (`broadcastShape` / `commonBroadcastShape`, the definitions of theorems C and F); the values are compared by
the harness with its native reference, which is itself compared with the full model answer on every other case of the run.
Only generated for zero-free shapes where a stretch exists or the shapes clash. -/
def handleN (op : String) (args : List String) : Option String :=
  match op, args with
  | "broadcast", [a, b] => do
    let sa ← shapeOf? a; let sb ← shapeOf? b
    some (showShapeRes (broadcastShape sa sb) none)
  -- broadcast_h2 on zero-free shapes: the shape of both results is `broadcastShape` (theorem broadcastH2_at)
  | "h2r", [a, b] => do
    let sa ← shapeOf? a; let sb ← shapeOf? b
    some (showShapeRes (broadcastShape sa sb) none)
  | "zip", [a, b] => do
    let sa ← shapeOf? a; let sb ← shapeOf? b
    some (showShapeRes (broadcastShape sb sa) (some sa))
  | "broadcast_to", [a, t] => do
    let sa ← shapeOf? a; let t ← parseNatList? t
    some (showShapeRes (broadcastShape sa t) (some t))
  | "broadcast_arrays", [l] => do
    let ss ← (l.splitOn ";").mapM shapeOf?
    some (showShapeRes (commonBroadcastShape ss) none)
  | _, _ => none

def handle (op : String) (args : List String) : Option String :=
  match op, args with
  -- `seq call / call / …`: several calls executed one after the other on the same thread (hidden-state streams)
  | "seq", _ => do
    let parts := splitTok "/" args
    let answers ← parts.mapM (fun p => match p with | o :: as => handle1 o as | [] => none)
    some (" / ".intercalate answers)
  | "n", o :: as => handleN o as
  -- `g <call>`: giant operands (more than 2^20 result elements); the same shape-only answer
  | "g", o :: as => handleN o as
  | "g2", o :: as => handleN o as
  -- bookkeeping lines of the harness (how often its native reference was compared with the model)
  | "oracle_report", _ => some "ok report"
  | _, _ => handle1 op args

end Driver.C03

def main : IO Unit := Driver.runDriver Driver.C03.handle
