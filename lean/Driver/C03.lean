import ArrModel.Broadcast
import Driver.Proto
namespace Driver.C03
open ArrModel Driver

def showPairArr (a : Arr (Int × Int)) : String :=
  showNatList a.shape ++ ":" ++ showList (fun p => toString p.1 ++ "/" ++ toString p.2) a.elems

def handle (op : String) (args : List String) : Option String :=
  match op, args with
  | "broadcast", [a, b] => do
    let a ← parseArr? a; let b ← parseArr? b
    some (showRes showPairArr (a.broadcast b))
  | "zip", [a, b] => do
    let a ← parseArr? a; let b ← parseArr? b
    some (showRes showPairArr (a.zip b))
  | "broadcast_to", [a, s] => do
    let a ← parseArr? a; let s ← parseNatList? s
    some (showRes showArr (a.broadcastTo s))
  | "broadcast_arrays", [l] => do
    let l ← parseArrList? l
    some (showRes showArrList (Arr.broadcastArrays l))
  -- the crate-internal helpers: the two / three stretched operands (`T::zero()` is 0)
  | "h2", [a, b] => do
    let a ← parseArr? a; let b ← parseArr? b
    some (showRes (fun p => showArr p.1 ++ ";" ++ showArr p.2) (a.broadcastH2 0 b))
  | "h3", [a, b, c] => do
    let a ← parseArr? a; let b ← parseArr? b; let c ← parseArr? c
    some (showRes (fun p => showArr p.1 ++ ";" ++ showArr p.2.1 ++ ";" ++ showArr p.2.2) (a.broadcastH3 0 b c))
  | _, _ => none

end Driver.C03

def main : IO Unit := Driver.runDriver Driver.C03.handle
