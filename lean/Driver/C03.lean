import ArrModel.Broadcast
import Driver.Proto
namespace Driver.C03
open ArrModel Driver

def showPairArr (a : Arr (Int × Int)) : String :=
  showNatList a.shape ++ ":" ++ showList (fun p => toString p.1 ++ "/" ++ toString p.2) a.elems

def handle (op : String) (args : List String) : Option String :=
  match op, args with
  | "broadcast", [a, b] => do
    let a ← parseArr? a; let b ← parseArr? b
    some (showRes showPairArr (a.broadcast b))
  | "zip", [a, b] => do
    let a ← parseArr? a; let b ← parseArr? b
    some (showRes showPairArr (a.zip b))
  | "broadcast_to", [a, s] => do
    let a ← parseArr? a; let s ← parseNatList? s
    some (showRes showArr (a.broadcastTo s))
  | "broadcast_arrays", [l] => do
    let l ← parseArrList? l
    some (showRes showArrList (Arr.broadcastArrays l))
  | _, _ => none

end Driver.C03

def main : IO Unit := Driver.runDriver Driver.C03.handle
