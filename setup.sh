#!/bin/sh
# build the framework from files on disk only (offline)
set -e
cd "$(dirname "$0")"
mkdir -p work evidence
export CARGO_NET_OFFLINE=true
[ -f tools/gen_tables.py ] && python3 tools/gen_tables.py
(cd lean && lake build ArrModel ArrProofs && for f in Driver/C*.lean; do lake build drv_$(basename $f .lean | tr A-Z a-z); done)
(cd harness && cp /repo/Cargo.lock Cargo.lock 2>/dev/null || true; cargo build --release --offline)
echo setup-ok
