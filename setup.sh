#!/bin/bash
# build the framework from files on disk only (offline). Only the properties enabled in claims.d/ENABLED are built;
# every check rebuilds what it needs anyway, so a failure here is reported by the check of that property, not here.
cd "$(dirname "$0")"
mkdir -p work evidence
export CARGO_NET_OFFLINE=true
[ -f tools/gen_tables.py ] && python3 tools/gen_tables.py
[ -f tools/rs2lean.py ] && python3 tools/rs2lean.py
cp /repo/Cargo.lock harness/Cargo.lock 2>/dev/null || true
ok=0
for p in $(cat claims.d/ENABLED); do
  lp=$(echo "$p" | tr A-Z a-z)
  (cd lean && lake build "ArrProofs.Props.$p" "drv_$lp") > "work/setup_$p.log" 2>&1 && \
  (cd harness && cargo build --release --offline --bin "$lp") >> "work/setup_$p.log" 2>&1 && ok=$((ok+1)) || echo "setup: $p did not build (see work/setup_$p.log)"
done
echo "setup-ok ($ok properties built)"
[ "$ok" -gt 0 ]
