#!/usr/bin/env python3
"""gen_c18_literals.py — deterministic generator of the C18 literal programs.

Writes harness/src/bin/c18_gen/{mod.rs,m00.rs..mNN.rs}: one `#[inline(never)]` function per literal that expands the
REAL `array!` / `array_flat!` / `array_single!` / constructor macros, one function that evaluates the very
`format!("{:?}", vec![…])` the macro arm formats (the Debug text the string surgery starts from), and a table pairing
each literal with the nested structure it was generated from (shape, leaf texts, expected elements).

The set is fixed (no seed): every shape of rank 1..4 with axis lengths 1..3 once, dealt over the element types i32,
f64, bool, char, String, Tuple2, Tuple3, List; for each of these types additionally ten fixed shapes (unit axes in
every position, lengths up to 4); the multi-argument and flat forms; element texts with separators/brackets/escapes, and the flat/single/constructor macros next to the functions
they stand for.  Regenerate with `python3 harness/gen_c18_literals.py` (output is committed; `./check` only compiles it).

Layout (measured, DESIGN Appendix A): one function per literal, spread over many modules; never many literals in one
function.
"""
import itertools, os, sys

HERE = os.path.dirname(os.path.abspath(__file__))
OUT = os.path.join(HERE, "src", "bin", "c18_gen")
NMOD = 24


def prod(s):
    p = 1
    for d in s: p *= d
    return p


def shapes(max_rank, max_len):
    out = []
    for r in range(1, max_rank + 1):
        out.extend(list(t) for t in itertools.product(range(1, max_len + 1), repeat=r))
    return out


def rust_str_debug(s):
    """Rust's `{:?}` of a str, for the characters used here"""
    o = '"'
    for c in s:
        if c == '"': o += '\\"'
        elif c == '\\': o += '\\\\'
        elif c == '\n': o += '\\n'
        elif c == '\r': o += '\\r'
        elif c == '\t': o += '\\t'
        elif c == '\0': o += '\\0'
        else: o += c
    return o + '"'


def rust_char_debug(c):
    if c == "'": return "'\\''"
    if c == '\\': return "'\\\\'"
    if c == '\n': return "'\\n'"
    if c == '\t': return "'\\t'"
    return "'" + c + "'"


def f64_text(x):
    """Debug/Display text of the f64 values used here (halves and wholes)"""
    s = repr(float(x))
    return s


# ---- leaves: (source token, Debug text as printed inside the vec, canonical Debug of the parsed element)

def leaf_i32(k):
    v = (k + 1) * (-1 if k % 3 == 1 else 1)
    if k % 7 == 5: v *= 10
    return (str(v), str(v), str(v))


def leaf_f64(k):
    v = (k + 1) * 0.5 * (-1 if k % 4 == 2 else 1)
    t = f64_text(v)
    return (t, t, t)


def leaf_f64_int_tokens(k):
    v = (k + 1) * (-1 if k % 3 == 2 else 1)
    return (str(v), str(v), f64_text(float(v)))


def leaf_bool(k):
    b = ((k * k + k // 2) % 3) != 1
    t = "true" if b else "false"
    return (t, t, t)


def leaf_char(k):
    c = chr(ord('a') + (k * 5) % 26)
    d = rust_char_debug(c)
    return (d, d, d)


WORDS = ["s", "ab", "x y", "Q", "hello", "z9", " lead", "trail ", "mid dle", "A-B", "k.k", "u_v"]


def leaf_string(k):
    w = WORDS[k % len(WORDS)] + (str(k) if k % 2 == 0 else "")
    d = rust_str_debug(w)
    return (d, d, d)


def leaf_t2(k):
    a = leaf_i32(k)[0]; b = leaf_f64(k + 1)[0]
    return (f"({a}, {b})", f"({a}, {b})", f"Tuple2({a}, {b})")


def leaf_t3(k):
    a = leaf_i32(k)[0]; b = leaf_bool(k)[0]; c = leaf_f64(k + 2)[0]
    return (f"({a}, {b}, {c})", f"({a}, {b}, {c})", f"Tuple3({a}, {b}, {c})")


def leaf_list(k):
    n = 1 + k % 3
    items = [leaf_i32(k + j)[0] for j in range(n)]
    body = ", ".join(items)
    return (f"vec![{body}]", f"[{body}]", f"List([{body}])")


def leaf_t2s(k):
    a = WORDS[k % 6]; b = WORDS[(k + 3) % 6] + str(k)
    return (f"({rust_str_debug(a)}, {rust_str_debug(b)})", f"({rust_str_debug(a)}, {rust_str_debug(b)})",
            f"Tuple2({rust_str_debug(a)}, {rust_str_debug(b)})")


def leaf_t3s(k):
    a = WORDS[k % 6]; b = "-"; c = WORDS[(k + 1) % 6] + str(k)
    q = rust_str_debug
    return (f"({q(a)}, {q(b)}, {q(c)})", f"({q(a)}, {q(b)}, {q(c)})", f"Tuple3({q(a)}, {q(b)}, {q(c)})")


def leaf_list_s(k):
    n = 1 + k % 2
    items = [rust_str_debug(WORDS[(k + j) % 6]) for j in range(n)]
    body = ", ".join(items)
    return (f"vec![{body}]", f"[{body}]", f"List([{body}])")


def leaf_list_f(k):
    n = 1 + (k + 1) % 3
    items = [leaf_f64(k + j)[0] for j in range(n)]
    body = ", ".join(items)
    return (f"vec![{body}]", f"[{body}]", f"List([{body}])")


# type -> (rust type, front end kind, number of `vec!` wrappers the `array!` arm adds, leaf function)
TYPES = {
    "i32": ("i32", "generic", 1, leaf_i32),
    "f64": ("f64", "generic", 1, leaf_f64),
    "f64i": ("f64", "generic", 1, leaf_f64_int_tokens),
    "bool": ("bool", "generic", 1, leaf_bool),
    "char": ("char", "char", 1, leaf_char),
    "String": ("String", "string", 1, leaf_string),
    "T2": ("Tuple2<i32, f64>", "tuple", 2, leaf_t2),
    "T3": ("Tuple3<i32, bool, f64>", "tuple", 2, leaf_t3),
    "List": ("List<i32>", "list", 1, leaf_list),
    "T2s": ("Tuple2<String, String>", "tuple", 2, leaf_t2s),
    "T3s": ("Tuple3<String, String, String>", "tuple", 2, leaf_t3s),
    "ListS": ("List<String>", "list", 1, leaf_list_s),
    "ListF": ("List<f64>", "list", 1, leaf_list_f),
}



# ---- every further primitive element type: extreme values of the type (suffix on every token, so the `vec![…]` the macro
# formats has that type — Debug prints no suffix), (source token, Debug text, canonical Debug of the parsed element)
NUM_TABLES = {
    "u8": ["0", "255", "1", "127", "128", "254", "17"],
    "i8": ["-128", "127", "0", "-1", "100", "-127"],
    "i16": ["-32768", "32767", "0", "-255", "256"],
    "u16": ["65535", "0", "256", "1000", "32768"],
    "u32": ["4294967295", "0", "65536", "7", "2147483648"],
    "i64": ["9007199254740993", "-9007199254740993", "9223372036854775807", "-9223372036854775808", "0", "-1", "4294967296"],
    "u64": ["18446744073709551615", "9007199254740993", "0", "1", "9223372036854775808"],
    "usize": ["18446744073709551615", "0", "4096", "1001"],
    "isize": ["-9223372036854775808", "9223372036854775807", "0", "-17"],
}
# floats: (token, Debug text)
F32_TABLE = [("0.1f32", "0.1"), ("16777216.0f32", "16777216.0"), ("-0.0f32", "-0.0"), ("3.4028235e38f32", "3.4028235e38"), ("1e-45f32", "1e-45"),
             ("1.5f32", "1.5"), ("0.3f32", "0.3"), ("-2.75f32", "-2.75")]
F64X_TABLE = [("-0.0", "-0.0"), ("5e-324", "5e-324"), ("1e300", "1e300"), ("0.1", "0.1"), ("1.7976931348623157e308", "1.7976931348623157e308"),
              ("2.2250738585072014e-308", "2.2250738585072014e-308"), ("9007199254740992.0", "9007199254740992.0"), ("f64::INFINITY", "inf"),
              ("f64::NEG_INFINITY", "-inf"), ("f64::NAN", "NaN"), ("0.30000000000000004", "0.30000000000000004"), ("-1e-7", "-1e-7")]


def num_leaf(ty):
    tab = NUM_TABLES[ty]
    def lf(k):
        v = tab[k % len(tab)]
        return (f"{v}{ty}", v, v)
    return lf


def leaf_f32(k):
    t, d = F32_TABLE[k % len(F32_TABLE)]
    return (t, d, d)


def leaf_f64x(k):
    t, d = F64X_TABLE[k % len(F64X_TABLE)]
    return (t, d, d)


for _ty in NUM_TABLES: TYPES[_ty] = (_ty, "generic", 1, num_leaf(_ty))
TYPES["f32"] = ("f32", "generic", 1, leaf_f32)
TYPES["T2f"] = ("Tuple2<f32, i32>", "tuple", 2, None)        # round 5: f32 components next to a midpoint (leaves built by add_f32_literals)
TYPES["T3f"] = ("Tuple3<i32, f32, f32>", "tuple", 2, None)
TYPES["ListF32"] = ("List<f32>", "list", 1, None)
TYPES["f64x"] = ("f64", "generic", 1, leaf_f64x)


def nested_src(shape, toks):
    """source text of the nested bracket expression"""
    if not shape: return toks[0]
    n, rest = shape[0], shape[1:]
    p = prod(rest)
    return "[" + ", ".join(nested_src(rest, toks[i * p:(i + 1) * p]) for i in range(n)) + "]"


LITS = []   # dicts


def add(ty, form, shape, nest_shape, leaves, macro_src, dbg_src, scope="in", note="", run=None, toks=()):
    """`run`: the whole body of the run function when it is more than `obs(|| <macro>)` (impure items: prelude, literal, side-effect check);
    `toks`: the source tokens when the harness is to parse them itself (`"<tok>".parse::<f32>()`, compared bit-wise)"""
    rust_ty, kind, _, _ = TYPES[ty]
    LITS.append(dict(ty=rust_ty, tykey=ty, kind=kind, form=form, shape=list(shape), nest_shape=list(nest_shape),
                     leaves=[l[1] for l in leaves], truth=[l[2] for l in leaves], macro=macro_src, dbg=dbg_src,
                     scope=scope, note=note, run=run, toks=list(toks)))


def add_nested(ty, shape, leaves=None, scope="in", note=""):
    rust_ty, kind, wraps, lf = TYPES[ty]
    n = prod(shape)
    leaves = leaves or [lf(k) for k in range(n)]
    src = nested_src(shape, [l[0] for l in leaves])
    macro = f"array!({rust_ty}, {src})"
    if wraps == 2: dbg = f"vec![vec![{src}],]"
    elif kind == "list": dbg = f"vec![{src}]"
    else: dbg = f"vec![{src},]"
    add(ty, "nested", shape, [1] * wraps + list(shape), leaves, macro, dbg, scope, note)


def add_args(ty, n):
    """array!(T, x1, x2, …): the multi-argument form"""
    rust_ty, kind, wraps, lf = TYPES[ty]
    leaves = [lf(k) for k in range(n)]
    toks = [l[0] for l in leaves]
    macro = f"array!({rust_ty}, {', '.join(toks)})"
    if wraps == 2:
        dbg = "vec![" + "".join(f"vec![{t}]," for t in toks) + "]"; nest_shape = [n, 1]
    else:
        dbg = "vec![" + "".join(f"{t}," for t in toks) + "]"; nest_shape = [n]
    add(ty, "args", [n], nest_shape, leaves, macro, dbg)


def add_flat(ty, n):
    rust_ty, kind, wraps, lf = TYPES[ty]
    leaves = [lf(k) for k in range(n)]
    toks = [l[0] for l in leaves]
    macro = f"array_flat!({rust_ty}, {', '.join(toks)})"
    if kind == "generic":
        dbg = "vec![vec![" + "".join(f"{t}," for t in toks) + "],]"; nest_shape = [1, n]
    else:
        dbg = "vec![" + "".join(f"vec![{t}]," for t in toks) + "]"; nest_shape = [n, 1]
    add(ty, "flat", [n], nest_shape, leaves, macro, dbg)


def build():
    # every shape of the box rank<=4, len<=3 once, dealt over the element types (the generic arm, which exists only
    # in compiled literals, gets 7 of every 12)
    seen = set()
    def once(ty, s):
        if (ty, tuple(s)) not in seen:
            seen.add((ty, tuple(s))); add_nested(ty, s)
    deal = ["i32", "f64", "char", "i32", "String", "bool", "T2", "i32", "T3", "List", "f64", "bool"]
    for idx, s in enumerate(shapes(4, 3)): once(deal[idx % len(deal)], s)
    # every element type: the whole box rank<=3, len<=2 (unit axes in every position), plus some 3s and 4s
    for ty in ("i32", "f64", "bool", "char", "String", "T2", "T3", "List"):
        for s in ([1], [2], [4], [1, 2], [2, 1], [2, 2], [2, 3], [2, 1, 2], [1, 2, 1], [1, 2, 1, 3]): once(ty, s)
    for s in ([4, 4], [1, 4], [4, 1], [2, 4, 1], [1, 4, 2, 3], [2, 1, 1, 4], [2, 2, 2, 2], [1, 1, 1, 1]): once("i32", s)
    for s in ([2], [2, 2], [1, 2, 2]): add_nested("f64i", s)
    for ty in ("T2s", "T3s", "ListS", "ListF"):
        for s in ([3], [2, 2], [2, 1, 2]): add_nested(ty, s)
    # multi-argument and flat forms
    for ty in ("i32", "f64", "bool", "char", "String", "T2", "T3"):
        for n in (1, 3): add_args(ty, n)
    for ty in ("i32", "f64", "bool", "char", "String", "T2", "T3", "List", "T2s", "T3s", "ListS"):
        for n in (1, 2, 4): add_flat(ty, n)
    # element texts that contain the separators the surgery works with
    def ch(c): d = rust_char_debug(c); return (d, d, d)
    def st(w): d = rust_str_debug(w); return (d, d, d)
    add_nested("char", [2, 4], [ch(c) for c in ",[] _#(\""], note="separator characters as elements")
    add_nested("char", [1, 3], [ch(c) for c in ", ]"], note="separator characters as elements")
    add_nested("char", [3], [ch(c) for c in "a\nb"], note="newline (Debug escape \\n)")
    add_nested("char", [2], [ch(c) for c in "a'"], scope="out", note="a quote character: Debug escapes it")
    add_nested("char", [2], [ch(c) for c in "\\n"], scope="out", note="a backslash: Debug escapes it")
    add_nested("String", [2], [st("a,b"), st("c")], note="comma inside a string")
    add_nested("String", [2, 2], [st("a, b"), st("c]"), st("[d"), st("],[")], note="separators inside strings")
    add_nested("String", [2], [st("x], [y"), st("z")], scope="out", note="the four characters `], [` inside a string: array_parse_input! rewrites them before the strings are cut out")
    add_nested("String", [2], [st("\u00e9,\u00fc"), st("\u00df]")], note="non-ASCII text with separators")
    add_nested("String", [2], [st(", "), st("a")], scope="out", note="a string that is exactly comma-blank: with its quotes it is the pattern array_parse_input! rewrites")
    add_nested("String", [1, 3], [st(""), st(" "), st("_")], note="empty / blank / placeholder strings")
    add_nested("String", [3, 1], [st("#"), st("(x)"), st("]#[")], note="hash separator inside strings")
    add_nested("String", [2], [st("a\nb"), st("t\tu")], note="Debug escapes \\n \\t")
    add_nested("String", [2], [st('a"b'), st("c")], scope="out", note="a double quote inside a string")
    add_nested("String", [2], [st("a\\b"), st("c")], scope="out", note="a backslash inside a string")
    add_nested("String", [1], [st("a\\nb")], scope="out", note="backslash followed by n")
    add_nested("List", [2], [("vec![1, 2]", "[1, 2]", "List([1, 2])"), ("vec![]", "[]", "List([])")], note="an empty list as element")
    add_nested("List", [2, 2], [("vec![]", "[]", "List([])"), ("vec![7]", "[7]", "List([7])"), ("vec![8, 9]", "[8, 9]", "List([8, 9])"), ("vec![]", "[]", "List([])")], note="empty lists as elements")
    add_nested("T2s", [2], [('("a,b", "c")', '("a,b", "c")', 'Tuple2("a,b", "c")'), ('("d", "e")', '("d", "e")', 'Tuple2("d", "e")')],
               scope="out", note="comma inside a tuple component (Tuple2::from_str splits on commas)")

    # ---- robustness streams (FRAMEWORK.md): appended, so the ids of the literals above do not move
    # every further primitive element type with the extreme values of the type; nested, multi-argument and flat forms
    for ty in list(NUM_TABLES) + ["f32", "f64x"]:
        for s in ([1], [2], [4], [1, 2], [2, 1], [2, 2], [2, 3], [2, 1, 2], [1, 2, 1], [1, 2, 1, 3], [3, 4], [9]): once(ty, s)
        for n in (1, 3): add_args(ty, n)
        for n in (1, 2, 4): add_flat(ty, n)
    # sizes beyond the small scope: axis lengths 7..17 in every position, element counts above 256 and above 1000
    for s in ([8], [17], [7, 9], [9, 7], [3, 8], [2, 8, 3], [3, 2, 8], [8, 2, 3], [16, 17], [17, 16], [300], [4, 4, 4, 4], [1030], [40, 30], [7, 1, 9], [1, 16, 1, 17],
              [2, 3, 4, 5], [1001, 1], [1, 1001]): once("i32", s)
    for ty, ss in (("f64", ([17], [8, 3], [3, 9])), ("bool", ([16], [2, 8])), ("char", ([16], [3, 8], [2, 8, 2])), ("String", ([17], [3, 8], [8, 3], [260])),
                   ("T2", ([9], [2, 8], [8, 2], [300])), ("T3", ([9], [2, 8], [8, 1, 2], [300])), ("List", ([9], [2, 8], [8, 2], [300])),
                   ("T2s", ([8], [2, 7])), ("T3s", ([9], [2, 8], [7, 2])), ("ListS", ([8], [2, 7])), ("u8", ([260], [17, 16])), ("i64", ([16, 17],)), ("f32", ([7, 9],))):
        for s in ss: once(ty, s)
    add_args("i32", 17); add_args("String", 9); add_args("T3", 8); add_flat("i32", 300); add_flat("T2", 9); add_flat("u8", 260)
    # pairs / triples / lists whose String components hold blanks or are empty
    q = rust_str_debug
    def t2(a, b): return (f"({q(a)}, {q(b)})", f"({q(a)}, {q(b)})", f"Tuple2({q(a)}, {q(b)})")
    def t3(a, b, c): return (f"({q(a)}, {q(b)}, {q(c)})", f"({q(a)}, {q(b)}, {q(c)})", f"Tuple3({q(a)}, {q(b)}, {q(c)})")
    def ls(*xs): body = ", ".join(q(x) for x in xs); return (f"vec![{body}]", f"[{body}]", f"List([{body}])")
    add_nested("T2s", [2, 2], [t2("new york", "a b c"), t2("", "x"), t2("y", ""), t2("", "")], note="blanks inside / empty components")
    add_nested("T2s", [3], [t2("  ", "a  b"), t2("trail ", "mid dle"), t2(" lead", "z ")], note="blank-only, double blank, trailing blank; a leading blank in the FIRST component")
    add_nested("T3s", [2, 2], [t3("new york", "a b", "c d e"), t3("", "x", ""), t3("y", "", "z z"), t3("", "", "")], note="blanks inside / empty components")
    add_nested("T3s", [3], [t3("  ", "a  b", "q"), t3("trail ", "mid dle", "end "), t3(" lead", "z ", "w")], note="blank-only, double blank, trailing blank; a leading blank in the FIRST component")
    add_nested("T3", [2, 1], [("(1, true, 2.5)", "(1, true, 2.5)", "Tuple3(1, true, 2.5)"), ("(-2147483648, false, -0.0)", "(-2147483648, false, -0.0)", "Tuple3(-2147483648, false, -0.0)")], note="extreme numeric components")
    add_nested("ListS", [2, 2], [ls("new york", "a b"), ls("x y z"), ls("trail ", "mid  dle", "q"), ls("  ")], note="blanks inside list items")
    add_nested("T2s", [2], [t2("a", " lead"), t2("b", "c")], scope="out", note="a String component that starts with a blank in a non-first position: `\\\", \\\"` -> `\\\",\\\"` then the quotes are dropped, and Tuple2::from_str compacts `, `")
    add_nested("T3s", [2], [t3("a", "b", " lead"), t3("b", "c", "d")], scope="out", note="a String component that starts with a blank in a non-first position")
    add_nested("ListS", [2], [ls("a", " lead"), ls("b")], scope="out", note="a list item that starts with a blank in a non-first position")
    add_nested("ListS", [2], [ls("", "a"), ls("b")], scope="out", note="an empty String as list item")
    add_nested("ListS", [2], [ls(""), ls("b")], scope="out", note="a list holding one empty String prints like the empty list")

    # ---- part-2 robustness streams (FRAMEWORK.md 8, 10): appended, ids above do not move.  Ranks 5..8; every letter, digit and punctuation
    # character of printable ASCII as a char element and as a one-character String (the quote and the backslash are escaped by Debug: out)
    for s in ([1, 2, 1, 2, 1], [2, 1, 1, 1, 1, 2], [1, 1, 2, 1, 1, 1, 1, 2], [2, 2, 2, 2, 2], [1, 1, 1, 1, 1, 1, 1, 1]): once("i32", s)
    once("String", [1, 2, 1, 2, 1, 2]); once("T2", [2, 1, 2, 1, 2]); once("char", [1, 1, 1, 1, 1, 1, 1, 3]); once("List", [1, 2, 1, 1, 2]); once("f64", [2, 1, 1, 2, 1, 1, 2])
    once("T3", [1, 1, 2, 1, 2]); once("bool", [2, 1, 1, 1, 1, 1, 1, 2])
    import string
    upper, lower, digits = string.ascii_uppercase, string.ascii_lowercase, string.digits
    punct = "".join(c for c in string.punctuation if c not in "'\\") + " "
    add_nested("char", [26], [ch(c) for c in upper], note="every upper-case letter")
    add_nested("char", [2, 13], [ch(c) for c in lower], note="every lower-case letter")
    add_nested("char", [10], [ch(c) for c in digits], note="every digit")
    add_nested("char", [len(punct)], [ch(c) for c in punct], note="every punctuation character of printable ASCII except the quote and the backslash")
    add_nested("String", [2, 26], [st(c) for c in upper + lower], note="every letter as a one-character String")
    add_nested("String", [10], [st(c + c) for c in digits], note="digits")
    add_nested("String", [len(punct) - 1], [st("a" + c + "b") for c in punct if c != '"'], scope="out", note="every punctuation character inside a String")
    add_nested("T2s", [13], [t2(upper[2 * i], lower[2 * i + 1] + "z") for i in range(13)], note="letters as tuple components")
    add_nested("ListS", [13], [ls(lower[2 * i], upper[2 * i + 1]) for i in range(13)], note="letters as list items")


# ---- round-5 streams (FRAMEWORK.md class 19): appended by `build_r5()` after everything above, so no id moves
#
# (a) f32 literals that need a double-rounding witness.  `array!(f32, tok)` formats `vec![tok]` (an f64 for an unsuffixed decimal
#     token, an integer for an integer token) and parses the TEXT as f32: one rounding from the decimal text.  Going through an f64
#     VALUE and narrowing it (`as f32`) rounds twice and differs exactly when the f64 nearest to the token is the midpoint m of two
#     adjacent f32 values while the token itself is not m.  Tokens per pair (a, a+1) of adjacent f32 values, m = their midpoint
#     (always an f64): the shortest decimal that reads back as m (what Debug prints for it - 17 digits, never m itself unless m is
#     short), a 21-digit decimal between that one and m, the f64 neighbours of m printed with 17 digits, and for integers
#     2^k + 2^(k-24) + 1 / 2^k + 3*2^(k-24) - 1 (k >= 54: the f64 nearest to them is the midpoint).  Expected elements are computed
#     HERE with exact rational arithmetic (`f32_round_bits`), and again by the harness at run time as `"<tok>".parse::<f32>()`,
#     compared bit-wise.
# (b) literals whose items are impure expressions (`it.next().unwrap()`, `{ n += 1; n }`, `st.pop().unwrap()`, a counting closure):
#     every item is evaluated exactly once, in reading order; the run function checks the counter's final value as well.
from fractions import Fraction
import math, struct
from decimal import Decimal


def f32_round_bits(fr):
    """bits of the f32 nearest to the exact rational `fr` (ties to even, overflow to infinity)"""
    fr = Fraction(fr)
    sign = 0
    if fr < 0: sign, fr = 0x80000000, -fr
    if fr == 0: return sign
    e = fr.numerator.bit_length() - fr.denominator.bit_length()
    while Fraction(2) ** e > fr: e -= 1
    while Fraction(2) ** (e + 1) <= fr: e += 1
    e = max(e, -126)
    q = fr / Fraction(2) ** (e - 23)
    n = q.numerator // q.denominator
    r = q - n
    if r > Fraction(1, 2) or (r == Fraction(1, 2) and n % 2 == 1): n += 1
    if n == 1 << 24: n, e = 1 << 23, e + 1
    if e > 127: return sign | 0x7f800000
    if n < 1 << 23: return sign | n                    # subnormal (e == -126) or zero
    return sign | ((e + 127) << 23) | (n - (1 << 23))


def f32_of_bits(b):
    return struct.unpack('<f', struct.pack('<I', b))[0]


def rust_float_text(neg, digits, e10, plain):
    """Rust `{:?}` of a finite non-zero float from its shortest digits d1 d2 … (value d1.d2… * 10^e10); `plain`: 1e-4 <= |x| < 1e16,
    decided in the float's own type"""
    digits = digits.rstrip('0') or '0'
    if plain:
        if e10 >= 0:
            ip = (digits[:e10 + 1]).ljust(e10 + 1, '0'); fp = digits[e10 + 1:] or '0'
            t = ip + '.' + fp
        else:
            t = '0.' + '0' * (-e10 - 1) + digits
    else:
        t = digits[0] + ('.' + digits[1:] if len(digits) > 1 else '') + 'e' + str(e10)
    return ('-' if neg else '') + t


def rust_f64_debug(x):
    if x != x: return 'NaN'
    if x in (math.inf, -math.inf): return 'inf' if x > 0 else '-inf'
    if x == 0: return '-0.0' if math.copysign(1, x) < 0 else '0.0'
    sg, dg, ex = Decimal(repr(abs(x))).as_tuple()
    digits = ''.join(map(str, dg))
    return rust_float_text(x < 0, digits, ex + len(digits) - 1, 1e-4 <= abs(x) < 1e16)


def ambiguous_repr(x):
    """the exact value of the f64 `x` lies exactly halfway between two decimals of the shortest length that both read back as `x`
    (Python prints the even one, Rust the other): such values are not used"""
    import decimal
    d = Decimal(abs(x)); p = len(Decimal(repr(abs(x))).as_tuple().digits)
    with decimal.localcontext() as c:
        c.prec = p
        c.rounding = decimal.ROUND_FLOOR; lo = +d
        c.rounding = decimal.ROUND_CEILING; hi = +d
    return lo != hi and float(lo) == abs(x) and float(hi) == abs(x) and d - lo == hi - d


def rust_f32_debug(bits):
    neg = bool(bits & 0x80000000); mag = bits & 0x7fffffff
    if mag == 0x7f800000: return '-inf' if neg else 'inf'
    if mag > 0x7f800000: return 'NaN'
    if mag == 0: return '-0.0' if neg else '0.0'
    v = f32_of_bits(mag)
    for p in range(0, 12):
        t = '%.*e' % (p, v)
        if f32_round_bits(Fraction(t)) == mag:
            mant, ex = t.split('e')
            return rust_float_text(neg, mant.replace('.', ''), int(ex), 0x38d1b717 <= mag < 0x5a0e1bca)      # 1e-4f32 <= |x| < 1e16f32
    raise AssertionError(bits)


def float_token(t):
    """a decimal text as a Rust float literal"""
    t = t.replace('e+', 'e')
    return t if ('.' in t or 'e' in t) else t + '.0'


def f32_leaf(tok, scope_in=True):
    """(source token, Debug text of the f64 item, Debug text of the f32 nearest to the TOKEN)"""
    body = tok[:-3] if tok.endswith('f32') else tok
    x = float(body)
    assert not ambiguous_repr(x), tok
    want = f32_round_bits(Fraction(body))
    if tok.endswith('f32'):                       # rustc itself rounds the token to f32; Debug prints the shortest f32 text
        d = rust_f32_debug(want)
        return (tok, d, d)
    via_text = f32_round_bits(Fraction(repr(x)))  # what the macro does: shortest text of the f64, parsed as f32
    assert (via_text == want) == scope_in, (tok, hex(via_text), hex(want))
    return (tok, rust_f64_debug(x), rust_f32_debug(want))


F32_PAIRS = [0x3f800000, 0x3f800001, 0x3f7fffff, 0x3f7ffffe, 0x3fc00000, 0x3fffffff, 0x40490fdb, 0x402df854, 0x3dcccccd, 0x3dcccccc, 0x4b7fffff, 0x4b800000,
             0x4b800001, 0x00000000, 0x00000001, 0x00000002, 0x007fffff, 0x00800000, 0x00800001, 0x7f7ffffe, 0x7f7fffff, 0x7f000000, 0x5d800000, 0x5d800001,
             0x1e3ce508, 0x1e3ce509, 0x3a83126f, 0x38d1b717, 0x358637bd, 0x501502f9, 0x58635fa9, 0x6c4ecb8f, 0x0da24260, 0x2b8cbccc, 0x42f6e979, 0x47c35000]
_x = 0x2545f491
for _ in range(28):                      # a fixed pseudo-random tail over the whole exponent range (subnormals included)
    _x = (_x * 1103515245 + 12345) % (1 << 31)
    F32_PAIRS.append(_x % 0x7f7fffff)


def f32_tokens():
    """[(token, in_scope, witness)]: witness = narrowing the f64 nearest to the token gives another f32 than the token read as f32"""
    out = []
    for i, a in enumerate(F32_PAIRS):
        lo = Fraction(f32_of_bits(a))
        hi = Fraction(f32_of_bits(a + 1)) if a + 1 < 0x7f800000 else Fraction(2) ** 128
        m = (lo + hi) / 2
        mf = float(m)
        assert Fraction(mf) == m
        neg = '-' if i % 5 == 3 else ''
        cands = []
        s = repr(mf)
        cands.append(s)                                                    # the shortest text of m
        if Fraction(s) != m:
            # a longer decimal on the same side of m as the shortest text, halfway between the two
            mid = (Fraction(s) + m) / 2
            dm = Decimal(mid.numerator) / Decimal(mid.denominator)
            t = '%.21e' % dm if False else format(dm, '.20e')
            if (Fraction(t) > m) == (Fraction(s) > m) and Fraction(t) != m and float(t) == mf: cands.append(t)
        cands.append('%.17g' % math.nextafter(mf, math.inf))
        cands.append('%.17g' % math.nextafter(mf, -math.inf))
        for t in cands:
            tok = float_token(t)
            x = float(tok)
            if x in (math.inf, -math.inf) or ambiguous_repr(x): continue
            want = f32_round_bits(Fraction(tok))
            narrowed = f32_round_bits(Fraction(x))
            out.append((neg + tok, True, want != narrowed))
    return out


def f32_int_tokens(suffix, ks):
    """2^k + 2^(k-24) + 1 (just above the midpoint of 2^k and its successor, an even / odd pair) and 2^k + 3*2^(k-24) - 1 (just below
    the midpoint of the next, odd / even, pair)"""
    out = []
    for k in ks:
        for v in ((1 << k) + (1 << (k - 24)) + 1, (1 << k) + 3 * (1 << (k - 24)) - 1):
            out.append(v)
    return out


def add_f32_literals():
    toks = f32_tokens()
    n_wit = sum(1 for t in toks if t[2])
    leaves = [f32_leaf(t[0]) for t in toks]
    # nested, multi-argument and flat forms, ranks 1..3; every token occurs in at least one literal
    plan = [("nested", [6]), ("nested", [2, 5]), ("nested", [2, 2, 3]), ("args", 7), ("flat", 6), ("nested", [1, 9]), ("nested", [3, 1, 3]), ("nested", [11]),
            ("nested", [4, 3]), ("args", 5), ("flat", 9), ("nested", [2, 3, 2]), ("nested", [7, 1]), ("nested", [13]), ("nested", [2, 8]), ("nested", [3, 5])]
    pos = 0; pi = 0
    while pos < len(leaves):
        form, sh = plan[pi % len(plan)]; pi += 1
        n = sh if isinstance(sh, int) else prod(sh)
        chunk = [leaves[(pos + j) % len(leaves)] for j in range(n)]
        tk = [l[0] for l in chunk]
        note = "f32 items next to the midpoint of two adjacent f32 values (one rounding from the decimal text, never decimal -> f64 -> f32)"
        if form == "nested":
            src = nested_src(sh, tk)
            add("f32", "nested", sh, [1] + list(sh), chunk, f"array!(f32, {src})", f"vec![{src},]", note=note, toks=tk)
        elif form == "args":
            add("f32", "args", [n], [n], chunk, f"array!(f32, {', '.join(tk)})", "vec![" + "".join(f"{t}," for t in tk) + "]", note=note, toks=tk)
        else:
            add("f32", "flat", [n], [1, n], chunk, f"array_flat!(f32, {', '.join(tk)})", "vec![vec![" + "".join(f"{t}," for t in tk) + "],]", note=note, toks=tk)
        pos += n
    # the same with the f32 suffix on every token (rustc rounds once; Debug prints the shortest f32 text)
    sfx = [f32_leaf((t[0] + 'f32')) for t in toks if t[2]][:12]
    tk = [l[0] for l in sfx]; src = nested_src([3, 4], tk)
    add("f32", "nested", [3, 4], [1, 3, 4], sfx, f"array!(f32, {src})", f"vec![{src},]", note="f32-suffixed items next to a midpoint", toks=tk)
    # integer items: unsuffixed (i32), i64, u64, u128, i128 (negative)
    def ints(vals, suffix, shape, neg=False):
        lv = []
        for v in vals:
            v = -v if neg else v
            lv.append((f"{v}{suffix}", str(v), rust_f32_debug(f32_round_bits(Fraction(v)))))
        tk = [l[0] for l in lv]; src = nested_src(shape, tk)
        assert prod(shape) == len(lv)
        add("f32", "nested", shape, [1] + list(shape), lv, f"array!(f32, {src})", f"vec![{src},]",
            note="integer items 2^k + 2^(k-24) + 1 and 2^k + 3*2^(k-24) - 1 read as f32 (k >= 54: the nearest f64 is the midpoint of two f32 values)", toks=tk)
    ints(f32_int_tokens("", range(24, 31)), "", [2, 7])
    ints(f32_int_tokens("i64", range(31, 47)), "i64", [4, 8])
    ints(f32_int_tokens("i64", range(47, 63)), "i64", [2, 2, 8])
    ints(f32_int_tokens("i64", (53, 54, 55, 60, 61, 62)), "i64", [12], neg=True)
    ints(f32_int_tokens("u64", (54, 60, 63)), "u64", [6])
    ints(f32_int_tokens("u128", (64, 65, 80, 100, 126, 127)) + [(1 << 128) - 1, (1 << 128) - (1 << 103) - 1, (1 << 128) - (1 << 103) + 1, (1 << 60) + (1 << 36) + 1], "u128", [2, 8])
    ints(f32_int_tokens("i128", (64, 90, 126)), "i128", [3, 2], neg=True)
    fl = [(f"{v}i64", str(v), rust_f32_debug(f32_round_bits(Fraction(v)))) for v in f32_int_tokens("i64", (54, 57, 62))]
    tk = [l[0] for l in fl]
    add("f32", "flat", [6], [1, 6], fl, f"array_flat!(f32, {', '.join(tk)})", "vec![vec![" + "".join(f"{t}," for t in tk) + "],]", note="integer items next to a midpoint, flat form", toks=tk)
    # f32 components of pairs / triples and f32 list items next to a midpoint (Tuple2::from_str / List::from_str parse the component text)
    w = [f32_leaf(t[0]) for t in toks if t[2]]
    def t2f(k): a = w[k % len(w)]; return (f"({a[0]}, {k})", f"({a[1]}, {k})", f"Tuple2({a[2]}, {k})")
    def t3f(k): a, b = w[(2 * k) % len(w)], w[(2 * k + 1) % len(w)]; return (f"({k}, {a[0]}, {b[0]})", f"({k}, {a[1]}, {b[1]})", f"Tuple3({k}, {a[2]}, {b[2]})")
    def lf32(k):
        it = [w[(3 * k + j) % len(w)] for j in range(1 + k % 3)]
        return ("vec![" + ", ".join(x[0] for x in it) + "]", "[" + ", ".join(x[1] for x in it) + "]", "List([" + ", ".join(x[2] for x in it) + "])")
    for ty, lf, shs in (("T2f", t2f, ([6], [2, 3])), ("T3f", t3f, ([5], [2, 1, 2])), ("ListF32", lf32, ([4], [2, 2]))):
        base = 0
        for sh in shs:
            add_nested(ty, sh, [lf(base + k) for k in range(prod(sh))], note="f32 components / items next to the midpoint of two adjacent f32 values"); base += prod(sh)
        lv = [lf(20 + k) for k in range(3)]; tk = [l[0] for l in lv]
        add(ty, "flat", [3], [3, 1], lv, f"array_flat!({TYPES[ty][0]}, {', '.join(tk)})", "vec![" + "".join(f"vec![{t}]," for t in tk) + "]", note="f32 components / items next to a midpoint, flat form")
    # out of scope, recorded: a token on the OTHER side of the midpoint than the shortest text of its f64 value.  The item expression is
    # an f64 (Rust types the token before the macro sees anything) whose value is the midpoint itself; no f32 is nearest to it
    for a in (0x3f800000, 0x40490fdb):
        m = (Fraction(f32_of_bits(a)) + Fraction(f32_of_bits(a + 1))) / 2
        mf = float(m); s = Fraction(repr(mf))
        other = m - (s - m) / 2
        t = format(Decimal(other.numerator) / Decimal(other.denominator), '.19e')
        assert float(t) == mf and (Fraction(t) > m) != (s > m)
        lf = f32_leaf(float_token(t), scope_in=False)
        add("f32", "nested", [1], [1, 1], [lf], f"array!(f32, [{lf[0]}])", f"vec![[{lf[0]}],]", scope="out",
            note="an unsuffixed token whose f64 value is the midpoint of two f32 values and whose shortest text lies on the other side of it: the item is that f64, Debug prints the shortest text")
    return len(toks), n_wit


# ---- impure items: sources of values.  Each returns (prelude, [impure item expression], [pure leaf (token, Debug, truth)], final check)

def imp_source(ty, kind, n):
    lf = TYPES[ty][3]
    def from_leaves(ls): return ls
    if kind == "pop":
        extra = n + 1
        ls = [lf(k) for k in range(n + extra)]
        stack = ", ".join(l[0] for l in reversed(ls))
        return (f"let mut st = vec![{stack}];", ["st.pop().unwrap()"] * n, ls[:n], f"st.len() == {extra}")
    if kind == "count":
        ls = [lf(k) for k in range(n)]
        argty = {"String": "&'static str", "f64": "f64"}.get(ty, TYPES[ty][0])
        return (f"let mut calls = 0usize; let mut f = |v: {argty}| {{ calls += 1; v }};", [f"f({l[0]})" for l in ls], ls, f"calls == {n}")
    if kind == "iter":
        if ty in ("i32", "i64", "u8"):
            start = {"i32": -1, "i64": 9007199254740991, "u8": 247}[ty]
            ls = [(f"{start + k}{ty}", str(start + k), str(start + k)) for k in range(n)]
            rng = f"({start}{ty}..)" if start < 0 else f"{start}{ty}.."
            return (f"let mut it = {rng};", ["it.next().unwrap()"] * n, ls, f"it.next() == Some({start + n})")
        if ty == "f64":
            vs = [(k - 1.0) * 0.75 for k in range(n)]
            ls = [(f"{rust_f64_debug(v)}f64", rust_f64_debug(v), rust_f64_debug(v)) for v in vs]
            return ("let mut it = (0..).map(|k: i32| (k as f64 - 1.0) * 0.75);", ["it.next().unwrap()"] * n, ls, f"it.next() == Some(({n} as f64 - 1.0) * 0.75)")
        if ty == "char":
            ls = [(rust_char_debug(chr(ord('c') + 3 * k)),) * 3 for k in range(n)]
            return ("let mut it = ('c'..='z').step_by(3);", ["it.next().unwrap()"] * n, ls, f"it.next() == Some({rust_char_debug(chr(ord('c') + 3 * n))})")
        ls = [lf(k + 2) for k in range(2 * n + 2)]
        return (f"let mut it = [{', '.join(l[0] for l in ls)}].into_iter();", ["it.next().unwrap()"] * n, ls[:n], f"it.len() == {n + 2}")
    if kind == "block":
        if ty == "i32":
            ls = [(str(3 * k - 7),) * 3 for k in range(1, n + 1)]
            return ("let mut n = 0i32;", ["{ n += 1; n * 3 - 7 }"] * n, ls, f"n == {n}")
        if ty == "i64":
            ls = [(f"{k * 4294967296 - 5}i64", str(k * 4294967296 - 5), str(k * 4294967296 - 5)) for k in range(1, n + 1)]
            return ("let mut n = 0i64;", ["{ n += 1; n * 4294967296 - 5 }"] * n, ls, f"n == {n}")
        if ty == "u8":
            ls = [(f"{k * 37 % 256}u8", str(k * 37 % 256), str(k * 37 % 256)) for k in range(1, n + 1)]
            return ("let mut n = 0u8; let mut tick = || { n += 1; n.wrapping_mul(37) };", ["tick()"] * n, ls, f"n == {n}")
        if ty == "f64":
            vs = [k * -0.5 + 1.0 for k in range(1, n + 1)]
            ls = [(f"{rust_f64_debug(v)}f64", rust_f64_debug(v), rust_f64_debug(v)) for v in vs]
            return ("let mut n = 0i32;", ["{ n += 1; n as f64 * -0.5 + 1.0 }"] * n, ls, f"n == {n}")
        if ty == "bool":
            ls = [(("true" if (k * k + k // 2) % 3 != 1 else "false"),) * 3 for k in range(1, n + 1)]
            return ("let mut n = 0i32;", ["{ n += 1; (n * n + n / 2) % 3 != 1 }"] * n, ls, f"n == {n}")
        if ty == "char":
            ls = [(rust_char_debug(chr(ord('a') + k * 5 % 26)),) * 3 for k in range(1, n + 1)]
            return ("let mut n = 0u8;", ["{ n += 1; (b'a' + n * 5 % 26) as char }"] * n, ls, f"n == {n}")
        if ty == "String":
            ls = [(rust_str_debug(f"w {k}"),) * 3 for k in range(1, n + 1)]
            return ("let mut n = 0i32;", ['{ n += 1; format!("w {n}") }'] * n, ls, f"n == {n}")
    if kind == "typed":
        q = rust_str_debug
        if ty == "T2":
            ls = [(f"({k}, {rust_f64_debug(0.5 * k)})", f"({k}, {rust_f64_debug(0.5 * k)})", f"Tuple2({k}, {rust_f64_debug(0.5 * k)})") for k in range(1, n + 1)]
            return ("let mut it = 1i32..; let mut x = 0.0f64;", ["(it.next().unwrap(), { x += 0.5; x })"] * n, ls, f"it.next() == Some({n + 1}) && x == {rust_f64_debug(0.5 * n)}")
        if ty == "T3":
            fs = [leaf_f64(k)[0] for k in range(2 * n + 1)]
            ls = []
            for k in range(1, n + 1):
                b = "true" if k % 2 == 1 else "false"
                t = f"({k}, {b}, {fs[k - 1]})"
                ls.append((t, t, "Tuple3" + t))
            return (f"let mut it = 1i32..; let mut b = false; let mut st = vec![{', '.join(reversed(fs))}];", ["(it.next().unwrap(), { b = !b; b }, st.pop().unwrap())"] * n, ls,
                    f"it.next() == Some({n + 1}) && st.len() == {n + 1}")
        if ty == "List":
            items, ls, c = [], [], 1
            for j in range(n):
                ln = 1 + j % 3
                items.append("vec![" + ", ".join(["it.next().unwrap()"] * ln) + "]")
                body = ", ".join(str(c + i) for i in range(ln)); c += ln
                ls.append((f"vec![{body}]", f"[{body}]", f"List([{body}])"))
            return ("let mut it = 1i32..;", items, ls, f"it.next() == Some({c})")
        if ty == "T2s":
            ws = [WORDS[k % 6] + str(k) for k in range(2 * n + 1)]
            ls = []
            for k in range(1, n + 1):
                a, b = ws[k - 1], f"w{k}"
                ls.append((f"({q(a)}, {q(b)})", f"({q(a)}, {q(b)})", f"Tuple2({q(a)}, {q(b)})"))
            return (f"let mut st = vec![{', '.join(q(w) for w in reversed(ws))}]; let mut n = 0i32;", ['(st.pop().unwrap(), { n += 1; format!("w{n}") })'] * n, ls, f"n == {n} && st.len() == {n + 1}")
        if ty == "ListS":
            ws = [WORDS[k % 6] + str(k) for k in range(3 * n + 2)]
            items, ls, c = [], [], 0
            for j in range(n):
                ln = 1 + (j + 1) % 2
                items.append("vec![" + ", ".join(["st.pop().unwrap()"] * ln) + "]")
                body = ", ".join(q(ws[c + i]) for i in range(ln)); c += ln
                ls.append((f"vec![{body}]", f"[{body}]", f"List([{body}])"))
            return (f"let mut st = vec![{', '.join(q(w) for w in reversed(ws))}];", items, ls, f"st.len() == {len(ws) - c}")
    raise KeyError((ty, kind))


def add_impure(ty, kind, form, sh):
    rust_ty, fe, wraps, _ = TYPES[ty]
    n = sh if isinstance(sh, int) else prod(sh)
    prelude, items, leaves, final = imp_source(ty, kind, n)
    pure = [l[0] for l in leaves]
    if form == "nested":
        isrc, psrc = nested_src(sh, items), nested_src(sh, pure)
        macro = f"array!({rust_ty}, {isrc})"
        if wraps == 2: dbg = f"vec![vec![{psrc}],]"
        elif fe == "list": dbg = f"vec![{psrc}]"
        else: dbg = f"vec![{psrc},]"
        shape, nest_shape = list(sh), [1] * wraps + list(sh)
    elif form == "args":
        macro = f"array!({rust_ty}, {', '.join(items)})"
        if wraps == 2: dbg = "vec![" + "".join(f"vec![{t}]," for t in pure) + "]"; nest_shape = [n, 1]
        else: dbg = "vec![" + "".join(f"{t}," for t in pure) + "]"; nest_shape = [n]
        shape = [n]
    else:
        macro = f"array_flat!({rust_ty}, {', '.join(items)})"
        if fe == "generic": dbg = "vec![vec![" + "".join(f"{t}," for t in pure) + "],]"; nest_shape = [1, n]
        else: dbg = "vec![" + "".join(f"vec![{t}]," for t in pure) + "]"; nest_shape = [n, 1]
        shape = [n]
    run = f"{prelude} let o = obs(|| {macro}); once(o, {final}, {rs_str(final)})"
    add(ty, form, shape, nest_shape, leaves, f"{prelude} {macro}", dbg, note=f"impure items ({kind}): each evaluated exactly once, in reading order; afterwards {final}", run=run)


def add_boundary_literals():
    """class 16 for the literal front end (text -> float is value-sensitive): the mathematical constants, integer-valued floats and
    2^k with one ulp on each side at the edges of the exponent ranges, as f64 items and as f32-suffixed items"""
    import math
    consts = [math.e, math.pi, math.log(2), math.log(10), 1 / math.log(2), math.sqrt(2), math.pi / 2, math.tau, 2.220446049250313e-16, 0.1, 0.2, 0.3, 1 / 3,
              1e15, 1e16, 1e17, 1e21, 1e22, 1e23, 1e-4, 1e-5, 1e-7, 4503599627370496.5, 9007199254740993.0]
    f64s = []
    for c in consts:
        f64s += [c, -c, 1 / c]
    for k in (-1074, -1073, -1023, -1022, -1021, -600, -150, -149, -127, -126, -53, -52, -24, -23, -1, 0, 1, 23, 24, 31, 32, 52, 53, 63, 64, 127, 128, 600, 1022, 1023):
        b = 2.0 ** k
        f64s += [b, math.nextafter(b, math.inf), math.nextafter(b, -math.inf)]
    ints = sorted(set(list(range(-20, 21)) + [s * (2 ** j + d) for s in (1, -1) for j in range(5, 11) for d in (-1, 0, 1)] + [1000, -1000, 1099, -1099, 1100, -1100, 255, 256, 257, -255]))
    ints = [i for i in ints if -1100 <= i <= 1100]
    f64s += [float(i) if i != 0 else -0.0 for i in ints]
    f64s = [x for x in f64s if not ambiguous_repr(x) and x not in (math.inf, -math.inf)]
    def lf64(x):
        d = rust_f64_debug(x)
        tok = d.replace("e", "e") if ('.' in d or 'e' in d) else d + ".0"
        return (tok, d, d)
    leaves = [lf64(x) for x in f64s]
    shapes = ([16], [4, 5], [2, 3, 4], [30], [3, 9], [2, 2, 7])
    pos = i = 0
    while pos < len(leaves):
        sh = shapes[i % len(shapes)]; i += 1; n = prod(sh)
        chunk = [leaves[(pos + j) % len(leaves)] for j in range(n)]
        src = nested_src(sh, [l[0] for l in chunk])
        add("f64x", "nested", sh, [1] + list(sh), chunk, f"array!(f64, {src})", f"vec![{src},]", note="f64 items: constants, integer-valued floats, 2^k with one ulp on each side")
        pos += n
    # f32: the f32 nearest to each of the constants / integers, 2^k with one ulp on each side for the f32 exponent range; f32-suffixed tokens
    bits = []
    for c in consts + [float(i) for i in ints]:
        b = f32_round_bits(Fraction(c))
        if (b & 0x7fffffff) < 0x7f800000: bits += [b]
    for k in (-149, -148, -127, -126, -125, -24, -23, -1, 0, 1, 23, 24, 25, 31, 32, 63, 64, 126, 127):
        b = f32_round_bits(Fraction(2) ** k)
        bits += [b, b + 1] + ([b - 1] if b > 0 else [])
    l32 = []
    for b in bits:
        d = rust_f32_debug(b)
        l32.append((d + "f32", d, d))
    pos = i = 0
    while pos < len(l32):
        sh = shapes[(i + 1) % len(shapes)]; i += 1; n = prod(sh)
        chunk = [l32[(pos + j) % len(l32)] for j in range(n)]
        tk = [l[0] for l in chunk]; src = nested_src(sh, tk)
        add("f32", "nested", sh, [1] + list(sh), chunk, f"array!(f32, {src})", f"vec![{src},]", note="f32 items: constants, integer-valued floats, 2^k with one ulp on each side", toks=tk)
        pos += n


def build_r5():
    n_tok, n_wit = add_f32_literals()
    n0 = len(LITS)
    shapes3 = ([3], [2, 2], [2, 1, 2], [4], [1, 3], [2, 2, 2], [2], [3, 2], [1, 2, 3])
    for ti, ty in enumerate(("i32", "i64", "u8", "f64", "bool", "char", "String")):
        kinds = ["iter", "block", "pop"]
        for ki, kind in enumerate(kinds):
            add_impure(ty, kind, "nested", shapes3[(ti + ki) % 3 + 3 * ki])          # every kind at ranks 1, 2, 3 across the types
        add_impure(ty, kinds[ti % 3], "args", 3)
        add_impure(ty, kinds[(ti + 1) % 3], "flat", 4)
        add_impure(ty, kinds[(ti + 2) % 3], "flat", 1)
    for ty in ("i32", "f64", "String", "u8"):
        add_impure(ty, "count", "nested", [2, 2]); add_impure(ty, "count", "flat", 3)
    for ti, ty in enumerate(("T2", "T3", "List", "T2s", "ListS")):
        for sh in ([3], [2, 2], [2, 1, 2]): add_impure(ty, "typed", "nested", sh)
        if ty not in ("List", "ListS"): add_impure(ty, "typed", "args", 3)
        add_impure(ty, "typed", "flat", 2 + ti % 2)
    n_imp = len(LITS) - n0
    add_boundary_literals()
    return n_tok, n_wit, n_imp


# ---- macros that stand for functions: (macro expression, function expression, element type)
CTORS = []


def build_ctors():
    def c(ty, m, f): CTORS.append((ty, m, f))
    for ty in ("i32", "f64"):
        for dims in ("2", "2, 3", "1, 2, 3", "3, 1, 2, 2", "0", "2, 0"):
            c(ty, f"array_zeros!({ty}, {dims})", f"Array::<{ty}>::zeros(vec![{dims}])")
            c(ty, f"array_ones!({ty}, {dims})", f"Array::<{ty}>::ones(vec![{dims}])")
        for dims, fill in (("vec![2]", "7"), ("vec![2, 3]", "4"), ("vec![1, 2, 2]", "9"), ("vec![2, 1, 2, 3]", "5")):
            fl = fill if ty == "i32" else fill + ".5"
            c(ty, f"array_full!({ty}, {dims}, {fl})", f"Array::<{ty}>::full({dims}, {fl})")
        for n in (1, 2, 3, 4):
            c(ty, f"array_eye!({ty}, {n})", f"Array::<{ty}>::eye({n}, Some({n}), Some(0))")
            c(ty, f"array_identity!({ty}, {n})", f"Array::<{ty}>::identity({n})")
        for n, m in ((2, 3), (3, 2), (1, 4), (4, 4)):
            c(ty, f"array_eye!({ty}, {n}, {m})", f"Array::<{ty}>::eye({n}, Some({m}), Some(0))")
            for k in (0, 1, 2):
                c(ty, f"array_eye!({ty}, {n}, {m}, {k})", f"Array::<{ty}>::eye({n}, Some({m}), Some({k}))")
        one = (lambda x: str(x)) if ty == "i32" else (lambda x: f"{x}.")
        for a, b in ((0, 4), (1, 7), (0, 0), (3, 10)):
            c(ty, f"array_arange!({ty}, {one(a)}, {one(b)})", f"Array::<{ty}>::arange({one(a)}, {one(b)}, None)")
        for a, b, st in ((0, 9, 2), (1, 10, 3), (0, 4, 1), (2, 20, 6)):
            c(ty, f"array_arange!({ty}, {one(a)}, {one(b)}, {one(st)})", f"Array::<{ty}>::arange({one(a)}, {one(b)}, Some({one(st)}))")
    # array_single!
    c("i32", "array_single!(i32, 8)", "Array::<i32>::single(8)")
    c("i32", "array_single!(i32, -3)", "Array::<i32>::single(-3)")
    c("f64", "array_single!(f64, 8.)", "Array::<f64>::single(8.)")
    c("f64", "array_single!(f64, -2.25)", "Array::<f64>::single(-2.25)")
    c("bool", "array_single!(bool, true)", "Array::<bool>::single(true)")
    c("char", "array_single!(char, 'x')", "Array::<char>::single('x')")
    c("char", "array_single!(char, ',')", "Array::<char>::single(',')")
    c("String", 'array_single!(String, "a-a-a")', 'Array::<String>::single("a-a-a".to_string())')
    c("String", 'array_single!(String, "a, b]")', 'Array::<String>::single("a, b]".to_string())')
    c("Tuple2<i32, f64>", "array_single!(Tuple2<i32, f64>, (1, 2.5))", "Array::<Tuple2<i32, f64>>::single(Tuple2(1, 2.5))")
    c("Tuple2<String, String>", 'array_single!(Tuple2<String, String>, ("a,b", "c"))', 'Array::<Tuple2<String, String>>::single(Tuple2("a,b".to_string(), "c".to_string()))')
    c("Tuple3<i32, bool, f64>", "array_single!(Tuple3<i32, bool, f64>, (1, true, 2.5))", "Array::<Tuple3<i32, bool, f64>>::single(Tuple3(1, true, 2.5))")
    c("List<i32>", "array_single!(List<i32>, vec![1, 2, 3])", "Array::<List<i32>>::single(List(vec![1, 2, 3]))")
    c("List<String>", 'array_single!(List<String>, vec!["a", "b c"])', 'Array::<List<String>>::single(List(vec!["a".to_string(), "b c".to_string()]))')
    # array_flat! next to Array::flat
    c("i32", "array_flat!(i32, 1, -2, 3, 4)", "Array::<i32>::flat(vec![1, -2, 3, 4])")
    c("f64", "array_flat!(f64, 1.5, 2.)", "Array::<f64>::flat(vec![1.5, 2.])")
    c("bool", "array_flat!(bool, true, false, true)", "Array::<bool>::flat(vec![true, false, true])")
    c("char", "array_flat!(char, 'a', 'b', 'c')", "Array::<char>::flat(vec!['a', 'b', 'c'])")
    c("String", 'array_flat!(String, "dd", "ff")', 'Array::<String>::flat(vec!["dd".to_string(), "ff".to_string()])')
    c("Tuple2<i32, f64>", "array_flat!(Tuple2<i32, f64>, (1, 2.5), (3, 4.5))", "Array::<Tuple2<i32, f64>>::flat(vec![Tuple2(1, 2.5), Tuple2(3, 4.5)])")
    c("Tuple3<i32, bool, f64>", "array_flat!(Tuple3<i32, bool, f64>, (1, true, 2.5), (3, false, 4.5))", "Array::<Tuple3<i32, bool, f64>>::flat(vec![Tuple3(1, true, 2.5), Tuple3(3, false, 4.5)])")
    c("List<i32>", "array_flat!(List<i32>, vec![1, 2], vec![3])", "Array::<List<i32>>::flat(vec![List(vec![1, 2]), List(vec![3])])")

    # robustness streams: further element types, bigger / zero-length dimensions
    for ty in ("u8", "i8", "i16", "u16", "u32", "i64", "u64", "usize", "isize", "f32"):
        fl = ty in ("f32",)
        for dims in ("3", "2, 3", "17, 16", "0, 0", "0, 2", "2, 0, 3", "4100"):
            c(ty, f"array_zeros!({ty}, {dims})", f"Array::<{ty}>::zeros(vec![{dims}])")
            c(ty, f"array_ones!({ty}, {dims})", f"Array::<{ty}>::ones(vec![{dims}])")
        c(ty, f"array_full!({ty}, vec![7, 9], {'7.5' if fl else '7'})", f"Array::<{ty}>::full(vec![7, 9], {'7.5' if fl else '7'})")
        c(ty, f"array_eye!({ty}, 17)", f"Array::<{ty}>::eye(17, Some(17), Some(0))")
        c(ty, f"array_eye!({ty}, 8, 9, 1)", f"Array::<{ty}>::eye(8, Some(9), Some(1))")
        c(ty, f"array_identity!({ty}, 16)", f"Array::<{ty}>::identity(16)")
        one = (lambda x: f"{x}.") if fl else (lambda x: str(x))
        c(ty, f"array_arange!({ty}, {one(0)}, {one(100)})", f"Array::<{ty}>::arange({one(0)}, {one(100)}, None)")
        c(ty, f"array_arange!({ty}, {one(1)}, {one(120)}, {one(7)})", f"Array::<{ty}>::arange({one(1)}, {one(120)}, Some({one(7)}))")
        ex = {"u8": "255", "i8": "-128", "i16": "-32768", "u16": "65535", "u32": "4294967295", "i64": "9007199254740993", "u64": "18446744073709551615",
              "usize": "18446744073709551615", "isize": "-9223372036854775808", "f32": "-0.0"}[ty] + ty
        c(ty, f"array_single!({ty}, {ex})", f"Array::<{ty}>::single({ex})")
        c(ty, f"array_flat!({ty}, {ex}, {one(1)}, {one(0)})", f"Array::<{ty}>::flat(vec![{ex}, {one(1)}, {one(0)}])")
    for ty in ("i32", "f64"):
        for dims in ("17, 16", "0, 0", "0, 2", "2, 0, 3", "4100", "2, 3, 4, 5, 2"):
            c(ty, f"array_zeros!({ty}, {dims})", f"Array::<{ty}>::zeros(vec![{dims}])")
            c(ty, f"array_ones!({ty}, {dims})", f"Array::<{ty}>::ones(vec![{dims}])")
        c(ty, f"array_eye!({ty}, 17)", f"Array::<{ty}>::eye(17, Some(17), Some(0))")
        c(ty, f"array_eye!({ty}, 16, 17, 2)", f"Array::<{ty}>::eye(16, Some(17), Some(2))")
        c(ty, f"array_identity!({ty}, 17)", f"Array::<{ty}>::identity(17)")
    c("f64", "array_single!(f64, -0.0)", "Array::<f64>::single(-0.0)")
    c("f64", "array_single!(f64, f64::NAN)", "Array::<f64>::single(f64::NAN)")
    c("f64", "array_flat!(f64, -0.0, 5e-324, f64::NAN, 1e300)", "Array::<f64>::flat(vec![-0.0, 5e-324, f64::NAN, 1e300])")
    c("Tuple3<String, i32, f64>", 'array_single!(Tuple3<String, i32, f64>, ("new york", 1, 2.5))', 'Array::<Tuple3<String, i32, f64>>::single(Tuple3("new york".to_string(), 1, 2.5))')
    c("Tuple3<String, i32, f64>", 'array_flat!(Tuple3<String, i32, f64>, ("new york", 1, 2.5), ("", -2, -0.0))', 'Array::<Tuple3<String, i32, f64>>::flat(vec![Tuple3("new york".to_string(), 1, 2.5), Tuple3(String::new(), -2, -0.0)])')


def build_ctors_r5():
    """round 5: impure arguments of the single / constructor macros (evaluated exactly once, in reading order), and f32 items next to a
    midpoint through `array_single!` / `array_flat!` next to the functions (where rustc itself reads the token as f32)"""
    def ci(ty, prelude, mac, final, fun):
        CTORS.append((ty, f"{prelude} {mac}", fun, f"{{ {prelude} let o = obs::<{ty}, _>(|| {mac}); once(o, {final}, {rs_str(final)}) }}"))
    ci("i32", "let mut it = 5i32..;", "array_single!(i32, it.next().unwrap())", "it.next() == Some(6)", "Array::<i32>::single(5)")
    ci("i64", "let mut n = 0i64;", "array_single!(i64, { n += 1; n * 9007199254740993 })", "n == 1", "Array::<i64>::single(9007199254740993)")
    ci("u8", "let mut n = 254u8; let mut tick = || { n += 1; n };", "array_single!(u8, tick())", "n == 255", "Array::<u8>::single(255)")
    ci("f64", "let mut st = vec![1.5, -0.0];", "array_single!(f64, st.pop().unwrap())", "st.len() == 1", "Array::<f64>::single(-0.0)")
    ci("bool", "let mut b = false;", "array_single!(bool, { b = !b; b })", "b", "Array::<bool>::single(true)")
    ci("char", "let mut it = ('x'..='z');", "array_single!(char, it.next().unwrap())", "it.next() == Some('y')", "Array::<char>::single('x')")
    ci("String", 'let mut st = vec!["a", "b c"];', "array_single!(String, st.pop().unwrap())", "st.len() == 1", 'Array::<String>::single("b c".to_string())')
    ci("Tuple2<i32, f64>", "let mut it = 1i32..; let mut x = 0.0f64;", "array_single!(Tuple2<i32, f64>, (it.next().unwrap(), { x += 0.5; x }))", "it.next() == Some(2) && x == 0.5",
       "Array::<Tuple2<i32, f64>>::single(Tuple2(1, 0.5))")
    ci("Tuple3<i32, bool, f64>", "let mut it = 1i32..; let mut b = false; let mut st = vec![2.5, -1.5];", "array_single!(Tuple3<i32, bool, f64>, (it.next().unwrap(), { b = !b; b }, st.pop().unwrap()))",
       "it.next() == Some(2) && b && st.len() == 1", "Array::<Tuple3<i32, bool, f64>>::single(Tuple3(1, true, -1.5))")
    ci("List<i32>", "let mut it = 1i32..;", "array_single!(List<i32>, vec![it.next().unwrap(), it.next().unwrap(), it.next().unwrap()])", "it.next() == Some(4)",
       "Array::<List<i32>>::single(List(vec![1, 2, 3]))")
    for ty in ("i32", "f64", "u8"):
        ci(ty, "let mut it = 2usize..;", f"array_zeros!({ty}, it.next().unwrap(), it.next().unwrap())", "it.next() == Some(4)", f"Array::<{ty}>::zeros(vec![2, 3])")
        ci(ty, "let mut it = 2usize..;", f"array_ones!({ty}, it.next().unwrap(), it.next().unwrap(), it.next().unwrap())", "it.next() == Some(5)", f"Array::<{ty}>::ones(vec![2, 3, 4])")
        ci(ty, "let mut n = 0usize;", f"array_full!({ty}, {{ n += 1; vec![n, n + 1] }}, {{ n += 1; n as {ty} }})", "n == 2", f"Array::<{ty}>::full(vec![1, 2], 2 as {ty})")
        ci(ty, "let mut it = 2usize..;", f"array_eye!({ty}, it.next().unwrap())", "it.next() == Some(3)", f"Array::<{ty}>::eye(2, Some(2), Some(0))")
        ci(ty, "let mut it = 2usize..;", f"array_eye!({ty}, it.next().unwrap(), it.next().unwrap())", "it.next() == Some(4)", f"Array::<{ty}>::eye(2, Some(3), Some(0))")
        ci(ty, "let mut it = 2usize..; let mut k = 0usize;", f"array_eye!({ty}, it.next().unwrap(), it.next().unwrap(), {{ k += 1; k }})", "it.next() == Some(4) && k == 1", f"Array::<{ty}>::eye(2, Some(3), Some(1))")
        ci(ty, "let mut it = 3usize..;", f"array_identity!({ty}, it.next().unwrap())", "it.next() == Some(4)", f"Array::<{ty}>::identity(3)")
        ci(ty, "let mut n = 0i32;", f"array_arange!({ty}, {{ n += 1; n as {ty} }}, {{ n += 1; (n * 5) as {ty} }})", "n == 2", f"Array::<{ty}>::arange(1 as {ty}, 10 as {ty}, None)")
        ci(ty, "let mut n = 0i32;", f"array_arange!({ty}, {{ n += 1; n as {ty} }}, {{ n += 1; (n * 5) as {ty} }}, {{ n += 1; n as {ty} }})", "n == 3", f"Array::<{ty}>::arange(1 as {ty}, 10 as {ty}, Some(3 as {ty}))")
    # class 20: more than 2^24 elements (u8), compared in place by `giant_pair`
    def cg(ty, mac, fun): CTORS.append((ty, mac, fun, None, f"giant_pair::<{ty}, _, _>(|| {mac}, || {fun})"))
    for dims in ("16777217", "16777216", "4097, 4097", "2, 8388609", "257, 257, 257"):
        cg("u8", f"array_zeros!(u8, {dims})", f"Array::<u8>::zeros(vec![{dims}])")
        cg("u8", f"array_ones!(u8, {dims})", f"Array::<u8>::ones(vec![{dims}])")
        cg("u8", f"array_full!(u8, vec![{dims}], 7)", f"Array::<u8>::full(vec![{dims}], 7)")
    cg("u8", "array_eye!(u8, 4097)", "Array::<u8>::eye(4097, Some(4097), Some(0))")
    cg("u8", "array_eye!(u8, 4096, 4097, 1)", "Array::<u8>::eye(4096, Some(4097), Some(1))")
    cg("u8", "array_identity!(u8, 4097)", "Array::<u8>::identity(4097)")
    # class 21: integer constructor arguments whose span is >= 2^32 (the count stays small)
    def c(ty, m, f): CTORS.append((ty, m, f))
    for ty, sfx in (("i64", ""), ("u64", ""), ("f64", ".0")):
        for a, b, st in ((0, 10 ** 10, 10 ** 9), (0, 2 ** 32, 2 ** 29), (1, 2 ** 32 + 1, 2 ** 30), (2 ** 32 - 1, 2 ** 33 + 1, 2 ** 31), (0, 2 ** 62, 2 ** 59), (10 ** 18, 10 ** 18 + 10, 1),
                          (2 ** 53, 2 ** 53 + 12, 2), (5, 10 ** 12, 4294967295), (0, 4294967296 * 7, 4294967296), (2 ** 40 + 1, 2 ** 40 + 2 ** 33, 2 ** 32 - 1)):
            A, B, S = (f"{a}{sfx}", f"{b}{sfx}", f"{st}{sfx}")
            c(ty, f"array_arange!({ty}, {A}, {B}, {S})", f"Array::<{ty}>::arange({A}, {B}, Some({S}))")
        c(ty, f"array_arange!({ty}, 10000000000{sfx}, 10000000007{sfx})", f"Array::<{ty}>::arange(10000000000{sfx}, 10000000007{sfx}, None)")
    for a, b, st in ((-10 ** 10, 10 ** 10, 4 * 10 ** 9), (-2 ** 62, 2 ** 62, 2 ** 60), (-2 ** 32, 1, 2 ** 29)):
        c("i64", f"array_arange!(i64, {a}, {b}, {st})", f"Array::<i64>::arange({a}, {b}, Some({st}))")
        c("f64", f"array_arange!(f64, {a}.0, {b}.0, {st}.0)", f"Array::<f64>::arange({a}.0, {b}.0, Some({st}.0))")
    wit = [t[0] for t in f32_tokens() if t[2]]
    for t in wit[:10]:
        CTORS.append(("f32", f"array_single!(f32, {t})", f"Array::<f32>::single({t})"))
    for i in range(0, 12, 4):
        ts = ", ".join(wit[10 + i:14 + i])
        CTORS.append(("f32", f"array_flat!(f32, {ts})", f"Array::<f32>::flat(vec![{ts}])"))
    for v in ((1 << 60) + (1 << 36) + 1, (1 << 54) + 3 * (1 << 30) - 1, -((1 << 62) + (1 << 38) + 1)):
        CTORS.append(("f32", f"array_single!(f32, {v}i64)", f"Array::<f32>::single({v}i64 as f32)"))


def rs_str(s):
    return '"' + s.replace('\\', '\\\\').replace('"', '\\"').replace('\n', '\\n').replace('\t', '\\t').replace('\r', '\\r').replace('\0', '\\0') + '"'


def rs_list(xs):
    return "&[" + ", ".join(str(x) for x in xs) + "]"


def rs_strs(xs):
    return "&[" + ", ".join(rs_str(x) for x in xs) + "]"


def main():
    build(); build_ctors()
    r5 = build_r5(); build_ctors_r5()
    os.makedirs(OUT, exist_ok=True)
    for f in os.listdir(OUT):
        if f.endswith(".rs"): os.remove(os.path.join(OUT, f))
    mods = [[] for _ in range(NMOD)]
    table = []
    for i, l in enumerate(LITS):
        m = i % NMOD
        body = l['run'] or f"obs(|| {l['macro']})"
        mods[m].append(f"#[inline(never)] pub fn r{i}() -> Obs {{ {body} }}\n"
                       f"#[inline(never)] pub fn d{i}() -> String {{ format!(\"{{:?}}\", {l['dbg']}) }}\n")
        table.append(f"    Lit {{ id: {i}, ty: {rs_str(l['ty'])}, kind: {rs_str(l['kind'])}, form: {rs_str(l['form'])}, scope: {rs_str(l['scope'])}, "
                     f"note: {rs_str(l['note'])}, src: {rs_str(l['macro'])}, shape: {rs_list(l['shape'])}, nest_shape: {rs_list(l['nest_shape'])}, "
                     f"leaves: {rs_strs(l['leaves'])}, truth: {rs_strs(l['truth'])}, toks: {rs_strs(l['toks'])}, run: m{m:02}::r{i}, dbg: m{m:02}::d{i}, canon: canon::<{l['ty']}> }},\n")
    ctab = []
    for j, ct in enumerate(CTORS):
        ty, mac, fun = ct[:3]
        m = (len(LITS) + j) % NMOD
        mexpr = ct[3] if len(ct) > 3 and ct[3] else f"obs::<{ty}, _>(|| {mac})"
        body = ct[4] if len(ct) > 4 else f"({mexpr}, obs::<{ty}, _>(|| {fun}))"
        mods[m].append(f"#[inline(never)] pub fn c{j}() -> (Obs, Obs) {{ {body} }}\n")
        ctab.append(f"    Ctor {{ id: {j}, ty: {rs_str(ty)}, mac: {rs_str(mac)}, fun: {rs_str(fun)}, run: m{m:02}::c{j} }},\n")
    for m in range(NMOD):
        with open(os.path.join(OUT, f"m{m:02}.rs"), "w") as f:
            f.write("// generated by harness/gen_c18_literals.py — do not edit\n#![allow(clippy::all, unused_mut, unused_parens, unused_variables, unused_assignments)]\nuse super::*;\n\n" + "".join(mods[m]))
    with open(os.path.join(OUT, "mod.rs"), "w") as f:
        f.write("// generated by harness/gen_c18_literals.py — do not edit\n"
                "//! the literal programs of C18: every entry expands the real macros at compile time\n"
                "#![allow(unused_imports, clippy::all)]\nuse super::{obs, canon, once, giant_pair, Obs};\nuse arrharness::*;\n\n")
        for m in range(NMOD): f.write(f"pub mod m{m:02};\n")
        f.write("\npub struct Lit { pub id: usize, pub ty: &'static str, pub kind: &'static str, pub form: &'static str, pub scope: &'static str,\n"
                "    pub note: &'static str, pub src: &'static str, pub shape: &'static [usize], pub nest_shape: &'static [usize],\n"
                "    pub leaves: &'static [&'static str], pub truth: &'static [&'static str], pub toks: &'static [&'static str], pub run: fn() -> Obs, pub dbg: fn() -> String,\n"
                "    pub canon: fn(&str) -> Option<String> }\n\n"
                "pub struct Ctor { pub id: usize, pub ty: &'static str, pub mac: &'static str, pub fun: &'static str, pub run: fn() -> (Obs, Obs) }\n\n")
        f.write("pub static LITS: &[Lit] = &[\n" + "".join(table) + "];\n\n")
        f.write("pub static CTORS: &[Ctor] = &[\n" + "".join(ctab) + "];\n")
    print(f"{len(LITS)} literals, {len(CTORS)} constructor pairs, {NMOD} modules -> {OUT}")
    print(f"round 5: {r5[0]} f32 tokens next to a midpoint ({r5[1]} of them double-rounding witnesses), {r5[2]} literals with impure items")


if __name__ == "__main__":
    main()
