#!/usr/bin/env python3
"""gen_c18_literals.py — deterministic generator of the C18 literal programs.

Writes harness/src/bin/c18_gen/{mod.rs,m00.rs..mNN.rs}: one `#[inline(never)]` function per literal that expands the
REAL `array!` / `array_flat!` / `array_single!` / constructor macros, one function that evaluates the very
`format!("{:?}", vec![…])` the macro arm formats (the Debug text the string surgery starts from), and a table pairing
each literal with the nested structure it was generated from (shape, leaf texts, expected elements).

The set is fixed (no seed): every shape of rank 1..4 with axis lengths 1..3 once, dealt over the element types i32,
f64, bool, char, String, Tuple2, Tuple3, List; for each of these types additionally ten fixed shapes (unit axes in
every position, lengths up to 4); the multi-argument and flat forms; element texts with separators/brackets/escapes, and the flat/single/constructor macros next to the functions
they stand for.  Regenerate with `python3 harness/gen_c18_literals.py` (output is committed; `./check` only compiles it).

Layout (measured, DESIGN Appendix A): one function per literal, spread over many modules; never many literals in one
function.
"""
import itertools, os, sys

HERE = os.path.dirname(os.path.abspath(__file__))
OUT = os.path.join(HERE, "src", "bin", "c18_gen")
NMOD = 24


def prod(s):
    p = 1
    for d in s: p *= d
    return p


def shapes(max_rank, max_len):
    out = []
    for r in range(1, max_rank + 1):
        out.extend(list(t) for t in itertools.product(range(1, max_len + 1), repeat=r))
    return out


def rust_str_debug(s):
    """Rust's `{:?}` of a str, for the characters used here"""
    o = '"'
    for c in s:
        if c == '"': o += '\\"'
        elif c == '\\': o += '\\\\'
        elif c == '\n': o += '\\n'
        elif c == '\r': o += '\\r'
        elif c == '\t': o += '\\t'
        elif c == '\0': o += '\\0'
        else: o += c
    return o + '"'


def rust_char_debug(c):
    if c == "'": return "'\\''"
    if c == '\\': return "'\\\\'"
    if c == '\n': return "'\\n'"
    if c == '\t': return "'\\t'"
    return "'" + c + "'"


def f64_text(x):
    """Debug/Display text of the f64 values used here (halves and wholes)"""
    s = repr(float(x))
    return s


# ---- leaves: (source token, Debug text as printed inside the vec, canonical Debug of the parsed element)

def leaf_i32(k):
    v = (k + 1) * (-1 if k % 3 == 1 else 1)
    if k % 7 == 5: v *= 10
    return (str(v), str(v), str(v))


def leaf_f64(k):
    v = (k + 1) * 0.5 * (-1 if k % 4 == 2 else 1)
    t = f64_text(v)
    return (t, t, t)


def leaf_f64_int_tokens(k):
    v = (k + 1) * (-1 if k % 3 == 2 else 1)
    return (str(v), str(v), f64_text(float(v)))


def leaf_bool(k):
    b = ((k * k + k // 2) % 3) != 1
    t = "true" if b else "false"
    return (t, t, t)


def leaf_char(k):
    c = chr(ord('a') + (k * 5) % 26)
    d = rust_char_debug(c)
    return (d, d, d)


WORDS = ["s", "ab", "x y", "Q", "hello", "z9", " lead", "trail ", "mid dle", "A-B", "k.k", "u_v"]


def leaf_string(k):
    w = WORDS[k % len(WORDS)] + (str(k) if k % 2 == 0 else "")
    d = rust_str_debug(w)
    return (d, d, d)


def leaf_t2(k):
    a = leaf_i32(k)[0]; b = leaf_f64(k + 1)[0]
    return (f"({a}, {b})", f"({a}, {b})", f"Tuple2({a}, {b})")


def leaf_t3(k):
    a = leaf_i32(k)[0]; b = leaf_bool(k)[0]; c = leaf_f64(k + 2)[0]
    return (f"({a}, {b}, {c})", f"({a}, {b}, {c})", f"Tuple3({a}, {b}, {c})")


def leaf_list(k):
    n = 1 + k % 3
    items = [leaf_i32(k + j)[0] for j in range(n)]
    body = ", ".join(items)
    return (f"vec![{body}]", f"[{body}]", f"List([{body}])")


def leaf_t2s(k):
    a = WORDS[k % 6]; b = WORDS[(k + 3) % 6] + str(k)
    return (f"({rust_str_debug(a)}, {rust_str_debug(b)})", f"({rust_str_debug(a)}, {rust_str_debug(b)})",
            f"Tuple2({rust_str_debug(a)}, {rust_str_debug(b)})")


def leaf_t3s(k):
    a = WORDS[k % 6]; b = "-"; c = WORDS[(k + 1) % 6] + str(k)
    q = rust_str_debug
    return (f"({q(a)}, {q(b)}, {q(c)})", f"({q(a)}, {q(b)}, {q(c)})", f"Tuple3({q(a)}, {q(b)}, {q(c)})")


def leaf_list_s(k):
    n = 1 + k % 2
    items = [rust_str_debug(WORDS[(k + j) % 6]) for j in range(n)]
    body = ", ".join(items)
    return (f"vec![{body}]", f"[{body}]", f"List([{body}])")


def leaf_list_f(k):
    n = 1 + (k + 1) % 3
    items = [leaf_f64(k + j)[0] for j in range(n)]
    body = ", ".join(items)
    return (f"vec![{body}]", f"[{body}]", f"List([{body}])")


# type -> (rust type, front end kind, number of `vec!` wrappers the `array!` arm adds, leaf function)
TYPES = {
    "i32": ("i32", "generic", 1, leaf_i32),
    "f64": ("f64", "generic", 1, leaf_f64),
    "f64i": ("f64", "generic", 1, leaf_f64_int_tokens),
    "bool": ("bool", "generic", 1, leaf_bool),
    "char": ("char", "char", 1, leaf_char),
    "String": ("String", "string", 1, leaf_string),
    "T2": ("Tuple2<i32, f64>", "tuple", 2, leaf_t2),
    "T3": ("Tuple3<i32, bool, f64>", "tuple", 2, leaf_t3),
    "List": ("List<i32>", "list", 1, leaf_list),
    "T2s": ("Tuple2<String, String>", "tuple", 2, leaf_t2s),
    "T3s": ("Tuple3<String, String, String>", "tuple", 2, leaf_t3s),
    "ListS": ("List<String>", "list", 1, leaf_list_s),
    "ListF": ("List<f64>", "list", 1, leaf_list_f),
}



# ---- every further primitive element type: extreme values of the type (suffix on every token, so the `vec![…]` the macro
# formats has that type — Debug prints no suffix), (source token, Debug text, canonical Debug of the parsed element)
NUM_TABLES = {
    "u8": ["0", "255", "1", "127", "128", "254", "17"],
    "i8": ["-128", "127", "0", "-1", "100", "-127"],
    "i16": ["-32768", "32767", "0", "-255", "256"],
    "u16": ["65535", "0", "256", "1000", "32768"],
    "u32": ["4294967295", "0", "65536", "7", "2147483648"],
    "i64": ["9007199254740993", "-9007199254740993", "9223372036854775807", "-9223372036854775808", "0", "-1", "4294967296"],
    "u64": ["18446744073709551615", "9007199254740993", "0", "1", "9223372036854775808"],
    "usize": ["18446744073709551615", "0", "4096", "1001"],
    "isize": ["-9223372036854775808", "9223372036854775807", "0", "-17"],
}
# floats: (token, Debug text)
F32_TABLE = [("0.1f32", "0.1"), ("16777216.0f32", "16777216.0"), ("-0.0f32", "-0.0"), ("3.4028235e38f32", "3.4028235e38"), ("1e-45f32", "1e-45"),
             ("1.5f32", "1.5"), ("0.3f32", "0.3"), ("-2.75f32", "-2.75")]
F64X_TABLE = [("-0.0", "-0.0"), ("5e-324", "5e-324"), ("1e300", "1e300"), ("0.1", "0.1"), ("1.7976931348623157e308", "1.7976931348623157e308"),
              ("2.2250738585072014e-308", "2.2250738585072014e-308"), ("9007199254740992.0", "9007199254740992.0"), ("f64::INFINITY", "inf"),
              ("f64::NEG_INFINITY", "-inf"), ("f64::NAN", "NaN"), ("0.30000000000000004", "0.30000000000000004"), ("-1e-7", "-1e-7")]


def num_leaf(ty):
    tab = NUM_TABLES[ty]
    def lf(k):
        v = tab[k % len(tab)]
        return (f"{v}{ty}", v, v)
    return lf


def leaf_f32(k):
    t, d = F32_TABLE[k % len(F32_TABLE)]
    return (t, d, d)


def leaf_f64x(k):
    t, d = F64X_TABLE[k % len(F64X_TABLE)]
    return (t, d, d)


for _ty in NUM_TABLES: TYPES[_ty] = (_ty, "generic", 1, num_leaf(_ty))
TYPES["f32"] = ("f32", "generic", 1, leaf_f32)
TYPES["f64x"] = ("f64", "generic", 1, leaf_f64x)


def nested_src(shape, toks):
    """source text of the nested bracket expression"""
    if not shape: return toks[0]
    n, rest = shape[0], shape[1:]
    p = prod(rest)
    return "[" + ", ".join(nested_src(rest, toks[i * p:(i + 1) * p]) for i in range(n)) + "]"


LITS = []   # dicts


def add(ty, form, shape, nest_shape, leaves, macro_src, dbg_src, scope="in", note=""):
    rust_ty, kind, _, _ = TYPES[ty]
    LITS.append(dict(ty=rust_ty, tykey=ty, kind=kind, form=form, shape=list(shape), nest_shape=list(nest_shape),
                     leaves=[l[1] for l in leaves], truth=[l[2] for l in leaves], macro=macro_src, dbg=dbg_src,
                     scope=scope, note=note))


def add_nested(ty, shape, leaves=None, scope="in", note=""):
    rust_ty, kind, wraps, lf = TYPES[ty]
    n = prod(shape)
    leaves = leaves or [lf(k) for k in range(n)]
    src = nested_src(shape, [l[0] for l in leaves])
    macro = f"array!({rust_ty}, {src})"
    if wraps == 2: dbg = f"vec![vec![{src}],]"
    elif kind == "list": dbg = f"vec![{src}]"
    else: dbg = f"vec![{src},]"
    add(ty, "nested", shape, [1] * wraps + list(shape), leaves, macro, dbg, scope, note)


def add_args(ty, n):
    """array!(T, x1, x2, …): the multi-argument form"""
    rust_ty, kind, wraps, lf = TYPES[ty]
    leaves = [lf(k) for k in range(n)]
    toks = [l[0] for l in leaves]
    macro = f"array!({rust_ty}, {', '.join(toks)})"
    if wraps == 2:
        dbg = "vec![" + "".join(f"vec![{t}]," for t in toks) + "]"; nest_shape = [n, 1]
    else:
        dbg = "vec![" + "".join(f"{t}," for t in toks) + "]"; nest_shape = [n]
    add(ty, "args", [n], nest_shape, leaves, macro, dbg)


def add_flat(ty, n):
    rust_ty, kind, wraps, lf = TYPES[ty]
    leaves = [lf(k) for k in range(n)]
    toks = [l[0] for l in leaves]
    macro = f"array_flat!({rust_ty}, {', '.join(toks)})"
    if kind == "generic":
        dbg = "vec![vec![" + "".join(f"{t}," for t in toks) + "],]"; nest_shape = [1, n]
    else:
        dbg = "vec![" + "".join(f"vec![{t}]," for t in toks) + "]"; nest_shape = [n, 1]
    add(ty, "flat", [n], nest_shape, leaves, macro, dbg)


def build():
    # every shape of the box rank<=4, len<=3 once, dealt over the element types (the generic arm, which exists only
    # in compiled literals, gets 7 of every 12)
    seen = set()
    def once(ty, s):
        if (ty, tuple(s)) not in seen:
            seen.add((ty, tuple(s))); add_nested(ty, s)
    deal = ["i32", "f64", "char", "i32", "String", "bool", "T2", "i32", "T3", "List", "f64", "bool"]
    for idx, s in enumerate(shapes(4, 3)): once(deal[idx % len(deal)], s)
    # every element type: the whole box rank<=3, len<=2 (unit axes in every position), plus some 3s and 4s
    for ty in ("i32", "f64", "bool", "char", "String", "T2", "T3", "List"):
        for s in ([1], [2], [4], [1, 2], [2, 1], [2, 2], [2, 3], [2, 1, 2], [1, 2, 1], [1, 2, 1, 3]): once(ty, s)
    for s in ([4, 4], [1, 4], [4, 1], [2, 4, 1], [1, 4, 2, 3], [2, 1, 1, 4], [2, 2, 2, 2], [1, 1, 1, 1]): once("i32", s)
    for s in ([2], [2, 2], [1, 2, 2]): add_nested("f64i", s)
    for ty in ("T2s", "T3s", "ListS", "ListF"):
        for s in ([3], [2, 2], [2, 1, 2]): add_nested(ty, s)
    # multi-argument and flat forms
    for ty in ("i32", "f64", "bool", "char", "String", "T2", "T3"):
        for n in (1, 3): add_args(ty, n)
    for ty in ("i32", "f64", "bool", "char", "String", "T2", "T3", "List", "T2s", "T3s", "ListS"):
        for n in (1, 2, 4): add_flat(ty, n)
    # element texts that contain the separators the surgery works with
    def ch(c): d = rust_char_debug(c); return (d, d, d)
    def st(w): d = rust_str_debug(w); return (d, d, d)
    add_nested("char", [2, 4], [ch(c) for c in ",[] _#(\""], note="separator characters as elements")
    add_nested("char", [1, 3], [ch(c) for c in ", ]"], note="separator characters as elements")
    add_nested("char", [3], [ch(c) for c in "a\nb"], note="newline (Debug escape \\n)")
    add_nested("char", [2], [ch(c) for c in "a'"], scope="out", note="a quote character: Debug escapes it")
    add_nested("char", [2], [ch(c) for c in "\\n"], scope="out", note="a backslash: Debug escapes it")
    add_nested("String", [2], [st("a,b"), st("c")], note="comma inside a string")
    add_nested("String", [2, 2], [st("a, b"), st("c]"), st("[d"), st("],[")], note="separators inside strings")
    add_nested("String", [2], [st("x], [y"), st("z")], scope="out", note="the four characters `], [` inside a string: array_parse_input! rewrites them before the strings are cut out")
    add_nested("String", [2], [st("\u00e9,\u00fc"), st("\u00df]")], note="non-ASCII text with separators")
    add_nested("String", [2], [st(", "), st("a")], scope="out", note="a string that is exactly comma-blank: with its quotes it is the pattern array_parse_input! rewrites")
    add_nested("String", [1, 3], [st(""), st(" "), st("_")], note="empty / blank / placeholder strings")
    add_nested("String", [3, 1], [st("#"), st("(x)"), st("]#[")], note="hash separator inside strings")
    add_nested("String", [2], [st("a\nb"), st("t\tu")], note="Debug escapes \\n \\t")
    add_nested("String", [2], [st('a"b'), st("c")], scope="out", note="a double quote inside a string")
    add_nested("String", [2], [st("a\\b"), st("c")], scope="out", note="a backslash inside a string")
    add_nested("String", [1], [st("a\\nb")], scope="out", note="backslash followed by n")
    add_nested("List", [2], [("vec![1, 2]", "[1, 2]", "List([1, 2])"), ("vec![]", "[]", "List([])")], note="an empty list as element")
    add_nested("List", [2, 2], [("vec![]", "[]", "List([])"), ("vec![7]", "[7]", "List([7])"), ("vec![8, 9]", "[8, 9]", "List([8, 9])"), ("vec![]", "[]", "List([])")], note="empty lists as elements")
    add_nested("T2s", [2], [('("a,b", "c")', '("a,b", "c")', 'Tuple2("a,b", "c")'), ('("d", "e")', '("d", "e")', 'Tuple2("d", "e")')],
               scope="out", note="comma inside a tuple component (Tuple2::from_str splits on commas)")

    # ---- robustness streams (FRAMEWORK.md): appended, so the ids of the literals above do not move
    # every further primitive element type with the extreme values of the type; nested, multi-argument and flat forms
    for ty in list(NUM_TABLES) + ["f32", "f64x"]:
        for s in ([1], [2], [4], [1, 2], [2, 1], [2, 2], [2, 3], [2, 1, 2], [1, 2, 1], [1, 2, 1, 3], [3, 4], [9]): once(ty, s)
        for n in (1, 3): add_args(ty, n)
        for n in (1, 2, 4): add_flat(ty, n)
    # sizes beyond the small scope: axis lengths 7..17 in every position, element counts above 256 and above 1000
    for s in ([8], [17], [7, 9], [9, 7], [3, 8], [2, 8, 3], [3, 2, 8], [8, 2, 3], [16, 17], [17, 16], [300], [4, 4, 4, 4], [1030], [40, 30], [7, 1, 9], [1, 16, 1, 17],
              [2, 3, 4, 5], [1001, 1], [1, 1001]): once("i32", s)
    for ty, ss in (("f64", ([17], [8, 3], [3, 9])), ("bool", ([16], [2, 8])), ("char", ([16], [3, 8], [2, 8, 2])), ("String", ([17], [3, 8], [8, 3], [260])),
                   ("T2", ([9], [2, 8], [8, 2], [300])), ("T3", ([9], [2, 8], [8, 1, 2], [300])), ("List", ([9], [2, 8], [8, 2], [300])),
                   ("T2s", ([8], [2, 7])), ("T3s", ([9], [2, 8], [7, 2])), ("ListS", ([8], [2, 7])), ("u8", ([260], [17, 16])), ("i64", ([16, 17],)), ("f32", ([7, 9],))):
        for s in ss: once(ty, s)
    add_args("i32", 17); add_args("String", 9); add_args("T3", 8); add_flat("i32", 300); add_flat("T2", 9); add_flat("u8", 260)
    # pairs / triples / lists whose String components hold blanks or are empty
    q = rust_str_debug
    def t2(a, b): return (f"({q(a)}, {q(b)})", f"({q(a)}, {q(b)})", f"Tuple2({q(a)}, {q(b)})")
    def t3(a, b, c): return (f"({q(a)}, {q(b)}, {q(c)})", f"({q(a)}, {q(b)}, {q(c)})", f"Tuple3({q(a)}, {q(b)}, {q(c)})")
    def ls(*xs): body = ", ".join(q(x) for x in xs); return (f"vec![{body}]", f"[{body}]", f"List([{body}])")
    add_nested("T2s", [2, 2], [t2("new york", "a b c"), t2("", "x"), t2("y", ""), t2("", "")], note="blanks inside / empty components")
    add_nested("T2s", [3], [t2("  ", "a  b"), t2("trail ", "mid dle"), t2(" lead", "z ")], note="blank-only, double blank, trailing blank; a leading blank in the FIRST component")
    add_nested("T3s", [2, 2], [t3("new york", "a b", "c d e"), t3("", "x", ""), t3("y", "", "z z"), t3("", "", "")], note="blanks inside / empty components")
    add_nested("T3s", [3], [t3("  ", "a  b", "q"), t3("trail ", "mid dle", "end "), t3(" lead", "z ", "w")], note="blank-only, double blank, trailing blank; a leading blank in the FIRST component")
    add_nested("T3", [2, 1], [("(1, true, 2.5)", "(1, true, 2.5)", "Tuple3(1, true, 2.5)"), ("(-2147483648, false, -0.0)", "(-2147483648, false, -0.0)", "Tuple3(-2147483648, false, -0.0)")], note="extreme numeric components")
    add_nested("ListS", [2, 2], [ls("new york", "a b"), ls("x y z"), ls("trail ", "mid  dle", "q"), ls("  ")], note="blanks inside list items")
    add_nested("T2s", [2], [t2("a", " lead"), t2("b", "c")], scope="out", note="a String component that starts with a blank in a non-first position: `\\\", \\\"` -> `\\\",\\\"` then the quotes are dropped, and Tuple2::from_str compacts `, `")
    add_nested("T3s", [2], [t3("a", "b", " lead"), t3("b", "c", "d")], scope="out", note="a String component that starts with a blank in a non-first position")
    add_nested("ListS", [2], [ls("a", " lead"), ls("b")], scope="out", note="a list item that starts with a blank in a non-first position")
    add_nested("ListS", [2], [ls("", "a"), ls("b")], scope="out", note="an empty String as list item")
    add_nested("ListS", [2], [ls(""), ls("b")], scope="out", note="a list holding one empty String prints like the empty list")

    # ---- part-2 robustness streams (FRAMEWORK.md 8, 10): appended, ids above do not move.  Ranks 5..8; every letter, digit and punctuation
    # character of printable ASCII as a char element and as a one-character String (the quote and the backslash are escaped by Debug: out)
    for s in ([1, 2, 1, 2, 1], [2, 1, 1, 1, 1, 2], [1, 1, 2, 1, 1, 1, 1, 2], [2, 2, 2, 2, 2], [1, 1, 1, 1, 1, 1, 1, 1]): once("i32", s)
    once("String", [1, 2, 1, 2, 1, 2]); once("T2", [2, 1, 2, 1, 2]); once("char", [1, 1, 1, 1, 1, 1, 1, 3]); once("List", [1, 2, 1, 1, 2]); once("f64", [2, 1, 1, 2, 1, 1, 2])
    once("T3", [1, 1, 2, 1, 2]); once("bool", [2, 1, 1, 1, 1, 1, 1, 2])
    import string
    upper, lower, digits = string.ascii_uppercase, string.ascii_lowercase, string.digits
    punct = "".join(c for c in string.punctuation if c not in "'\\") + " "
    add_nested("char", [26], [ch(c) for c in upper], note="every upper-case letter")
    add_nested("char", [2, 13], [ch(c) for c in lower], note="every lower-case letter")
    add_nested("char", [10], [ch(c) for c in digits], note="every digit")
    add_nested("char", [len(punct)], [ch(c) for c in punct], note="every punctuation character of printable ASCII except the quote and the backslash")
    add_nested("String", [2, 26], [st(c) for c in upper + lower], note="every letter as a one-character String")
    add_nested("String", [10], [st(c + c) for c in digits], note="digits")
    add_nested("String", [len(punct) - 1], [st("a" + c + "b") for c in punct if c != '"'], scope="out", note="every punctuation character inside a String")
    add_nested("T2s", [13], [t2(upper[2 * i], lower[2 * i + 1] + "z") for i in range(13)], note="letters as tuple components")
    add_nested("ListS", [13], [ls(lower[2 * i], upper[2 * i + 1]) for i in range(13)], note="letters as list items")


# ---- macros that stand for functions: (macro expression, function expression, element type)
CTORS = []


def build_ctors():
    def c(ty, m, f): CTORS.append((ty, m, f))
    for ty in ("i32", "f64"):
        for dims in ("2", "2, 3", "1, 2, 3", "3, 1, 2, 2", "0", "2, 0"):
            c(ty, f"array_zeros!({ty}, {dims})", f"Array::<{ty}>::zeros(vec![{dims}])")
            c(ty, f"array_ones!({ty}, {dims})", f"Array::<{ty}>::ones(vec![{dims}])")
        for dims, fill in (("vec![2]", "7"), ("vec![2, 3]", "4"), ("vec![1, 2, 2]", "9"), ("vec![2, 1, 2, 3]", "5")):
            fl = fill if ty == "i32" else fill + ".5"
            c(ty, f"array_full!({ty}, {dims}, {fl})", f"Array::<{ty}>::full({dims}, {fl})")
        for n in (1, 2, 3, 4):
            c(ty, f"array_eye!({ty}, {n})", f"Array::<{ty}>::eye({n}, Some({n}), Some(0))")
            c(ty, f"array_identity!({ty}, {n})", f"Array::<{ty}>::identity({n})")
        for n, m in ((2, 3), (3, 2), (1, 4), (4, 4)):
            c(ty, f"array_eye!({ty}, {n}, {m})", f"Array::<{ty}>::eye({n}, Some({m}), Some(0))")
            for k in (0, 1, 2):
                c(ty, f"array_eye!({ty}, {n}, {m}, {k})", f"Array::<{ty}>::eye({n}, Some({m}), Some({k}))")
        one = (lambda x: str(x)) if ty == "i32" else (lambda x: f"{x}.")
        for a, b in ((0, 4), (1, 7), (0, 0), (3, 10)):
            c(ty, f"array_arange!({ty}, {one(a)}, {one(b)})", f"Array::<{ty}>::arange({one(a)}, {one(b)}, None)")
        for a, b, st in ((0, 9, 2), (1, 10, 3), (0, 4, 1), (2, 20, 6)):
            c(ty, f"array_arange!({ty}, {one(a)}, {one(b)}, {one(st)})", f"Array::<{ty}>::arange({one(a)}, {one(b)}, Some({one(st)}))")
    # array_single!
    c("i32", "array_single!(i32, 8)", "Array::<i32>::single(8)")
    c("i32", "array_single!(i32, -3)", "Array::<i32>::single(-3)")
    c("f64", "array_single!(f64, 8.)", "Array::<f64>::single(8.)")
    c("f64", "array_single!(f64, -2.25)", "Array::<f64>::single(-2.25)")
    c("bool", "array_single!(bool, true)", "Array::<bool>::single(true)")
    c("char", "array_single!(char, 'x')", "Array::<char>::single('x')")
    c("char", "array_single!(char, ',')", "Array::<char>::single(',')")
    c("String", 'array_single!(String, "a-a-a")', 'Array::<String>::single("a-a-a".to_string())')
    c("String", 'array_single!(String, "a, b]")', 'Array::<String>::single("a, b]".to_string())')
    c("Tuple2<i32, f64>", "array_single!(Tuple2<i32, f64>, (1, 2.5))", "Array::<Tuple2<i32, f64>>::single(Tuple2(1, 2.5))")
    c("Tuple2<String, String>", 'array_single!(Tuple2<String, String>, ("a,b", "c"))', 'Array::<Tuple2<String, String>>::single(Tuple2("a,b".to_string(), "c".to_string()))')
    c("Tuple3<i32, bool, f64>", "array_single!(Tuple3<i32, bool, f64>, (1, true, 2.5))", "Array::<Tuple3<i32, bool, f64>>::single(Tuple3(1, true, 2.5))")
    c("List<i32>", "array_single!(List<i32>, vec![1, 2, 3])", "Array::<List<i32>>::single(List(vec![1, 2, 3]))")
    c("List<String>", 'array_single!(List<String>, vec!["a", "b c"])', 'Array::<List<String>>::single(List(vec!["a".to_string(), "b c".to_string()]))')
    # array_flat! next to Array::flat
    c("i32", "array_flat!(i32, 1, -2, 3, 4)", "Array::<i32>::flat(vec![1, -2, 3, 4])")
    c("f64", "array_flat!(f64, 1.5, 2.)", "Array::<f64>::flat(vec![1.5, 2.])")
    c("bool", "array_flat!(bool, true, false, true)", "Array::<bool>::flat(vec![true, false, true])")
    c("char", "array_flat!(char, 'a', 'b', 'c')", "Array::<char>::flat(vec!['a', 'b', 'c'])")
    c("String", 'array_flat!(String, "dd", "ff")', 'Array::<String>::flat(vec!["dd".to_string(), "ff".to_string()])')
    c("Tuple2<i32, f64>", "array_flat!(Tuple2<i32, f64>, (1, 2.5), (3, 4.5))", "Array::<Tuple2<i32, f64>>::flat(vec![Tuple2(1, 2.5), Tuple2(3, 4.5)])")
    c("Tuple3<i32, bool, f64>", "array_flat!(Tuple3<i32, bool, f64>, (1, true, 2.5), (3, false, 4.5))", "Array::<Tuple3<i32, bool, f64>>::flat(vec![Tuple3(1, true, 2.5), Tuple3(3, false, 4.5)])")
    c("List<i32>", "array_flat!(List<i32>, vec![1, 2], vec![3])", "Array::<List<i32>>::flat(vec![List(vec![1, 2]), List(vec![3])])")

    # robustness streams: further element types, bigger / zero-length dimensions
    for ty in ("u8", "i8", "i16", "u16", "u32", "i64", "u64", "usize", "isize", "f32"):
        fl = ty in ("f32",)
        for dims in ("3", "2, 3", "17, 16", "0, 0", "0, 2", "2, 0, 3", "4100"):
            c(ty, f"array_zeros!({ty}, {dims})", f"Array::<{ty}>::zeros(vec![{dims}])")
            c(ty, f"array_ones!({ty}, {dims})", f"Array::<{ty}>::ones(vec![{dims}])")
        c(ty, f"array_full!({ty}, vec![7, 9], {'7.5' if fl else '7'})", f"Array::<{ty}>::full(vec![7, 9], {'7.5' if fl else '7'})")
        c(ty, f"array_eye!({ty}, 17)", f"Array::<{ty}>::eye(17, Some(17), Some(0))")
        c(ty, f"array_eye!({ty}, 8, 9, 1)", f"Array::<{ty}>::eye(8, Some(9), Some(1))")
        c(ty, f"array_identity!({ty}, 16)", f"Array::<{ty}>::identity(16)")
        one = (lambda x: f"{x}.") if fl else (lambda x: str(x))
        c(ty, f"array_arange!({ty}, {one(0)}, {one(100)})", f"Array::<{ty}>::arange({one(0)}, {one(100)}, None)")
        c(ty, f"array_arange!({ty}, {one(1)}, {one(120)}, {one(7)})", f"Array::<{ty}>::arange({one(1)}, {one(120)}, Some({one(7)}))")
        ex = {"u8": "255", "i8": "-128", "i16": "-32768", "u16": "65535", "u32": "4294967295", "i64": "9007199254740993", "u64": "18446744073709551615",
              "usize": "18446744073709551615", "isize": "-9223372036854775808", "f32": "-0.0"}[ty] + ty
        c(ty, f"array_single!({ty}, {ex})", f"Array::<{ty}>::single({ex})")
        c(ty, f"array_flat!({ty}, {ex}, {one(1)}, {one(0)})", f"Array::<{ty}>::flat(vec![{ex}, {one(1)}, {one(0)}])")
    for ty in ("i32", "f64"):
        for dims in ("17, 16", "0, 0", "0, 2", "2, 0, 3", "4100", "2, 3, 4, 5, 2"):
            c(ty, f"array_zeros!({ty}, {dims})", f"Array::<{ty}>::zeros(vec![{dims}])")
            c(ty, f"array_ones!({ty}, {dims})", f"Array::<{ty}>::ones(vec![{dims}])")
        c(ty, f"array_eye!({ty}, 17)", f"Array::<{ty}>::eye(17, Some(17), Some(0))")
        c(ty, f"array_eye!({ty}, 16, 17, 2)", f"Array::<{ty}>::eye(16, Some(17), Some(2))")
        c(ty, f"array_identity!({ty}, 17)", f"Array::<{ty}>::identity(17)")
    c("f64", "array_single!(f64, -0.0)", "Array::<f64>::single(-0.0)")
    c("f64", "array_single!(f64, f64::NAN)", "Array::<f64>::single(f64::NAN)")
    c("f64", "array_flat!(f64, -0.0, 5e-324, f64::NAN, 1e300)", "Array::<f64>::flat(vec![-0.0, 5e-324, f64::NAN, 1e300])")
    c("Tuple3<String, i32, f64>", 'array_single!(Tuple3<String, i32, f64>, ("new york", 1, 2.5))', 'Array::<Tuple3<String, i32, f64>>::single(Tuple3("new york".to_string(), 1, 2.5))')
    c("Tuple3<String, i32, f64>", 'array_flat!(Tuple3<String, i32, f64>, ("new york", 1, 2.5), ("", -2, -0.0))', 'Array::<Tuple3<String, i32, f64>>::flat(vec![Tuple3("new york".to_string(), 1, 2.5), Tuple3(String::new(), -2, -0.0)])')


def rs_str(s):
    return '"' + s.replace('\\', '\\\\').replace('"', '\\"').replace('\n', '\\n').replace('\t', '\\t').replace('\r', '\\r').replace('\0', '\\0') + '"'


def rs_list(xs):
    return "&[" + ", ".join(str(x) for x in xs) + "]"


def rs_strs(xs):
    return "&[" + ", ".join(rs_str(x) for x in xs) + "]"


def main():
    build(); build_ctors()
    os.makedirs(OUT, exist_ok=True)
    for f in os.listdir(OUT):
        if f.endswith(".rs"): os.remove(os.path.join(OUT, f))
    mods = [[] for _ in range(NMOD)]
    table = []
    for i, l in enumerate(LITS):
        m = i % NMOD
        mods[m].append(f"#[inline(never)] pub fn r{i}() -> Obs {{ obs(|| {l['macro']}) }}\n"
                       f"#[inline(never)] pub fn d{i}() -> String {{ format!(\"{{:?}}\", {l['dbg']}) }}\n")
        table.append(f"    Lit {{ id: {i}, ty: {rs_str(l['ty'])}, kind: {rs_str(l['kind'])}, form: {rs_str(l['form'])}, scope: {rs_str(l['scope'])}, "
                     f"note: {rs_str(l['note'])}, src: {rs_str(l['macro'])}, shape: {rs_list(l['shape'])}, nest_shape: {rs_list(l['nest_shape'])}, "
                     f"leaves: {rs_strs(l['leaves'])}, truth: {rs_strs(l['truth'])}, run: m{m:02}::r{i}, dbg: m{m:02}::d{i}, canon: canon::<{l['ty']}> }},\n")
    ctab = []
    for j, (ty, mac, fun) in enumerate(CTORS):
        m = (len(LITS) + j) % NMOD
        mods[m].append(f"#[inline(never)] pub fn c{j}() -> (Obs, Obs) {{ (obs::<{ty}, _>(|| {mac}), obs::<{ty}, _>(|| {fun})) }}\n")
        ctab.append(f"    Ctor {{ id: {j}, ty: {rs_str(ty)}, mac: {rs_str(mac)}, fun: {rs_str(fun)}, run: m{m:02}::c{j} }},\n")
    for m in range(NMOD):
        with open(os.path.join(OUT, f"m{m:02}.rs"), "w") as f:
            f.write("// generated by harness/gen_c18_literals.py — do not edit\n#![allow(clippy::all)]\nuse super::*;\n\n" + "".join(mods[m]))
    with open(os.path.join(OUT, "mod.rs"), "w") as f:
        f.write("// generated by harness/gen_c18_literals.py — do not edit\n"
                "//! the literal programs of C18: every entry expands the real macros at compile time\n"
                "#![allow(unused_imports, clippy::all)]\nuse super::{obs, canon, Obs};\nuse arrharness::*;\n\n")
        for m in range(NMOD): f.write(f"pub mod m{m:02};\n")
        f.write("\npub struct Lit { pub id: usize, pub ty: &'static str, pub kind: &'static str, pub form: &'static str, pub scope: &'static str,\n"
                "    pub note: &'static str, pub src: &'static str, pub shape: &'static [usize], pub nest_shape: &'static [usize],\n"
                "    pub leaves: &'static [&'static str], pub truth: &'static [&'static str], pub run: fn() -> Obs, pub dbg: fn() -> String,\n"
                "    pub canon: fn(&str) -> Option<String> }\n\n"
                "pub struct Ctor { pub id: usize, pub ty: &'static str, pub mac: &'static str, pub fun: &'static str, pub run: fn() -> (Obs, Obs) }\n\n")
        f.write("pub static LITS: &[Lit] = &[\n" + "".join(table) + "];\n\n")
        f.write("pub static CTORS: &[Ctor] = &[\n" + "".join(ctab) + "];\n")
    print(f"{len(LITS)} literals, {len(CTORS)} constructor pairs, {NMOD} modules -> {OUT}")


if __name__ == "__main__":
    main()
